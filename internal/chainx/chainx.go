// Package chainx: shared driver for the chain-rule checks (C04, C05, C07…):
// a pre-built prefix directory, sessions that deliver a block to the real chain
// and to the reference model, and the tip / UTXO comparison.
package chainx

import (
	"fmt"
	"os"
	"sort"
	"strings"
	"time"

	"verif/internal/ev"
	"verif/internal/minichain"
	"verif/ref/refchain"
	"verif/ref/reftx"
)

type OP = refchain.Outpoint

type Prefix struct {
	Dir    string
	Params refchain.Params
	Blocks []*reftx.Block
	Model  *refchain.Model
	Tip    [32]byte
	Height uint32
	Cb     []OP          // Cb[h] = first coinbase output of height h
	Named  map[string]OP // coins created by Custom
	Opts   minichain.Opts
}

// BuildPrefix mines n blocks on the real chain (and the model). custom may add
// transactions to the block at height h (it sees the coins made so far).
func BuildPrefix(name string, params refchain.Params, n uint32, custom func(h uint32, s *minichain.Spec, p *Prefix)) *Prefix {
	return BuildPrefixOpts(name, minichain.Opts{Params: params}, n, custom)
}

// BuildPrefixOpts is BuildPrefix with the chain / block store options the sessions will use too.
func BuildPrefixOpts(name string, opts minichain.Opts, n uint32, custom func(h uint32, s *minichain.Spec, p *Prefix)) *Prefix {
	p, err := TryBuildPrefix(name, opts, n, custom)
	if err != "" {
		ev.HarnessError("%s", err)
	}
	return p
}

// TryBuildPrefix is BuildPrefixOpts that reports a valid block refused by the implementation (or a
// block refused by the reference) instead of stopping the run: the caller decides what an
// unreachable state means for its property.
func TryBuildPrefix(name string, opts minichain.Opts, n uint32, custom func(h uint32, s *minichain.Spec, p *Prefix)) (*Prefix, string) {
	params := opts.Params
	p := &Prefix{Dir: ev.Scratch(name + "-prefix"), Params: params, Named: map[string]OP{}, Opts: opts}
	e := minichain.Open(p.Dir, &p.Opts)
	p.Model = refchain.New(params, minichain.GenesisFor(params.Net), minichain.GenesisTime, minichain.PowBits)
	prev := minichain.GenesisFor(params.Net)
	p.Cb = make([]OP, n+1)
	for h := uint32(1); h <= n; h++ {
		s := minichain.Spec{Prev: prev, Height: h, CbValue: -1}
		if custom != nil {
			custom(h, &s, p)
		}
		if s.Bits == 0 {
			if par := p.Model.Nodes[prev]; par != nil {
				t := s.Time
				if t == 0 {
					t = minichain.GenesisTime + 600*h
				}
				s.Bits = refchain.RequiredBitsNet(par, minichain.PowBits, params.Net, t)
			}
		}
		b := minichain.Build(s)
		if r := e.Deliver(b.Bytes()); r != "ok" {
			e.Close()
			os.RemoveAll(p.Dir)
			return nil, fmt.Sprintf("prefix block %d: %s", h, r)
		}
		nd := p.Model.Add(b)
		if nd == nil || !p.Model.Valid(nd) {
			e.Close()
			os.RemoveAll(p.Dir)
			return nil, fmt.Sprintf("reference model refuses prefix block %d: %s", h, p.Model.Why(nd))
		}
		p.Cb[h] = OP{Tx: b.Txs[0].TxID(), Vout: 0}
		p.Blocks = append(p.Blocks, b)
		prev = b.Hash()
		if h%64 == 0 {
			p.Model.Compact(8) // one full unspent set per block of a long prefix is not needed
		}
	}
	p.Model.Compact(8)
	p.Tip = prev
	p.Height = n
	e.Close()
	return p, ""
}

func (p *Prefix) Remove() { os.RemoveAll(p.Dir) }

type Step struct {
	Ev     string `json:"ev"`
	Impl   string `json:"impl,omitempty"`
	Ref    string `json:"ref,omitempty"`
	BlockX string `json:"block_hex,omitempty"`
}

type Sess struct {
	P     *Prefix
	E     *minichain.Env
	M     *refchain.Model
	dir   string
	Trace []Step
	Now   func() int64 // local clock as the implementation sees it
	dead  bool
	HF    bool // deliver by the headers-first route (Env.DeliverData)
}

func (p *Prefix) NewSession(tag string) *Sess {
	dir := ev.Scratch(tag)
	ev.CopyDir(p.Dir, dir+"/d")
	o := p.Opts
	s := &Sess{P: p, dir: dir, M: p.Model.Clone(), Now: func() int64 { return time.Now().Unix() }}
	s.E = minichain.Open(dir+"/d", &o)
	return s
}

// Dir is the session scratch directory (the chain lives in Dir()+"/d").
func (s *Sess) Dir() string { return s.dir }

// Abandon marks the instance as poisoned (panic with locks held): no Close.
func (s *Sess) Abandon() { s.dead = true }

func (s *Sess) Close() {
	if !s.dead && s.E != nil {
		s.E.Close()
	}
	s.E = nil
	os.RemoveAll(s.dir)
}

func (s *Sess) Reopen() {
	s.E.Close()
	o := s.P.Opts
	s.E = minichain.Open(s.dir+"/d", &o)
	s.Trace = append(s.Trace, Step{Ev: "close+reopen"})
}

// Deliver offers the block to implementation and reference. refWhy is "" when the
// reference accepts the block into its tree ("dup"/"later"/rule name otherwise).
func (s *Sess) Deliver(name string, b *reftx.Block) (impl, refWhy string) {
	raw := b.Bytes()
	if s.HF {
		// the client's own route: header through PreCheckBlock + AcceptHeader, the data later through
		// PostCheckBlock on the same Block object, then the gate and CommitBlock
		impl, _ = s.E.DeliverData(raw)
	} else {
		impl = s.E.Deliver(raw)
	}
	h := b.Hash()
	if n, ok := s.M.Nodes[h]; ok {
		if s.M.Valid(n) {
			refWhy = "dup"
		} else {
			refWhy = "known-invalid: " + s.M.Why(n)
		}
	} else if par, ok := s.M.Nodes[b.Prev]; !ok {
		refWhy = "later"
	} else if why := s.M.CheckBlock(par, b, minichain.PowBits, s.Now()); why != "" {
		refWhy = why
	} else {
		s.M.Add(b)
	}
	st := Step{Ev: "deliver " + name, Impl: impl, Ref: refWhy}
	if len(raw) <= 4096 {
		st.BlockX = fmt.Sprintf("%x", raw)
	}
	s.Trace = append(s.Trace, st)
	return
}

// ImplClass reduces the implementation's answer to a class.
func ImplClass(r string) string {
	switch {
	case r == "ok" || r == "dup" || r == "later":
		return r
	case strings.HasPrefix(r, "refused: check") || strings.HasPrefix(r, "refused: NewBlock") || strings.HasPrefix(r, "refused: header") || strings.HasPrefix(r, "refused: short"):
		return "refused-check"
	case strings.HasPrefix(r, "refused: accept"):
		return "refused-connect"
	}
	return "other"
}

// Compare checks tip and UTXO dump against the reference's best valid tip.
// key "" means equal.
func (s *Sess) Compare() (key, what string) {
	best := s.M.BestTips()
	tip, _ := s.E.Tip()
	if tip != best[0].Hash {
		tie := false
		for _, b := range best[1:] {
			if b.Hash == tip {
				tie = true
			}
		}
		if tie {
			return "tip-tie", fmt.Sprintf("tip %x is an equal-work valid tip but not the first seen %x", tip[:6], best[0].Hash[:6])
		}
		n := s.M.Nodes[tip]
		desc := "unknown to the reference"
		if n != nil {
			desc = fmt.Sprintf("height %d valid=%v (%s)", n.Height, s.M.Valid(n), s.M.Why(n))
		}
		return "tip-mismatch", fmt.Sprintf("tip %x [%s]; reference best valid tip %x height %d", tip[:6], desc, best[0].Hash[:6], best[0].Height)
	}
	want := s.M.UTXOAt(best[0])
	ws, wh := refchain.Dump(want)
	gs, gh := refchain.Dump(s.E.UTXO())
	if gh != wh {
		return "utxo-mismatch", "UTXO set differs from replay of tip: " + Diff(ws, gs)
	}
	return "", ""
}

// StateKey is a canonical key of the observable state (tip + UTXO hash).
func (s *Sess) StateKey() string {
	tip, _ := s.E.Tip()
	_, gh := refchain.Dump(s.E.UTXO())
	return fmt.Sprintf("%x/%s", tip[:6], gh)
}

func Diff(want, got string) string {
	w := map[string]bool{}
	for _, l := range strings.Split(want, "\n") {
		w[l] = true
	}
	g := map[string]bool{}
	var out []string
	for _, l := range strings.Split(got, "\n") {
		g[l] = true
		if !w[l] {
			out = append(out, "unexpected: "+clip(l))
		}
	}
	for l := range w {
		if !g[l] {
			out = append(out, "missing: "+clip(l))
		}
	}
	sort.Strings(out)
	if len(out) > 6 {
		out = append(out[:6], fmt.Sprintf("… %d more", len(out)-6))
	}
	return strings.Join(out, " ; ")
}

func clip(s string) string {
	if len(s) > 160 {
		return s[:160] + "…"
	}
	return s
}

// Guard runs f with a watchdog and panic capture. res is "" | "panic: …" | "hang".
func Guard(d time.Duration, f func()) (res string) {
	done := make(chan string, 1)
	go func() {
		defer func() {
			if r := recover(); r != nil {
				msg := fmt.Sprint(r)
				if len(msg) > 200 {
					msg = msg[:200]
				}
				done <- "panic: " + msg
			}
		}()
		f()
		done <- ""
	}()
	select {
	case r := <-done:
		return r
	case <-time.After(d):
		return "hang"
	}
}
