package crashfs

import (
	"bufio"
	"fmt"
	"io"
	"os"
	"os/exec"
	"strconv"
	"sync"
	"sync/atomic"
	"syscall"
	"time"
)

// Pool is a set of persistent worker child processes of the calling binary. A
// worker executes one job at a time (one JSON line in on stdin, one JSON line back
// on fd 3; stdout/stderr of the code under test cannot disturb the protocol). When
// a worker dies during a job (os.Exit or panic in a background goroutine of the
// code under test, fatal error, watchdog) the death is classified and returned as
// the outcome of that job, and the worker is replaced.
type Pool struct {
	exe      string
	args     []string
	env      []string
	watchdog time.Duration
	idle     chan *worker
	n        int
	mu       sync.Mutex
	Spawned  int // workers started (n + replacements)
	Deaths   int
}

type worker struct {
	cmd  *exec.Cmd
	in   io.WriteCloser
	out  *bufio.Reader
	outf *os.File
	errb *lockedTail
	wait chan error
}

type lockedTail struct {
	mu sync.Mutex
	t  tailBuf
}

func (l *lockedTail) Write(p []byte) (int, error) {
	l.mu.Lock()
	defer l.mu.Unlock()
	return l.t.Write(p)
}

func (l *lockedTail) reset() { l.mu.Lock(); l.t.b = nil; l.mu.Unlock() }

func (l *lockedTail) bytes() []byte {
	l.mu.Lock()
	defer l.mu.Unlock()
	return append([]byte(nil), l.t.Bytes()...)
}

// NewPool prepares n workers running `<this binary> args…` (started lazily).
func NewPool(n int, args, env []string, watchdog time.Duration) *Pool {
	if watchdog < MinWatchdog {
		watchdog = MinWatchdog
	}
	exe, err := os.Executable()
	if err != nil {
		exe = os.Args[0]
	}
	p := &Pool{exe: exe, args: args, env: env, watchdog: watchdog, idle: make(chan *worker, n), n: n}
	for i := 0; i < n; i++ {
		p.idle <- nil
	}
	return p
}

func (p *Pool) spawn() (*worker, error) {
	cmd := exec.Command(p.exe, p.args...)
	cmd.Env = append(os.Environ(), p.env...)
	in, err := cmd.StdinPipe()
	if err != nil {
		return nil, err
	}
	r, w, err := os.Pipe()
	if err != nil {
		return nil, err
	}
	cmd.ExtraFiles = []*os.File{w} // fd 3 in the child
	cmd.Stdout = nil               // /dev/null
	errb := &lockedTail{t: tailBuf{max: 64 << 10}}
	cmd.Stderr = errb
	if err := cmd.Start(); err != nil {
		r.Close()
		w.Close()
		return nil, err
	}
	w.Close()
	wk := &worker{cmd: cmd, in: in, out: bufio.NewReaderSize(r, 1<<20), outf: r, errb: errb, wait: make(chan error, 1)}
	go func() { wk.wait <- cmd.Wait() }()
	p.mu.Lock()
	p.Spawned++
	p.mu.Unlock()
	return wk, nil
}

// Do runs one job. Exactly one of reply / death is set; err is an infrastructure
// failure (could not start a worker).
func (p *Pool) Do(job []byte) (reply []byte, death *Result, err error) {
	wk := <-p.idle
	if wk == nil {
		if wk, err = p.spawn(); err != nil {
			p.idle <- nil
			return nil, nil, err
		}
	}
	wk.errb.reset()
	start := time.Now()
	type rd struct {
		line []byte
		err  error
	}
	ch := make(chan rd, 1)
	go func() {
		if _, e := wk.in.Write(append(append([]byte(nil), job...), '\n')); e != nil {
			// the worker is gone; the read below reports it
			_ = e
		}
		l, e := wk.out.ReadBytes('\n')
		ch <- rd{l, e}
	}()
	timedOut := false
	var got rd
	select {
	case got = <-ch:
	case <-time.After(p.watchdog):
		timedOut = true
		wk.cmd.Process.Kill()
		got = <-ch
	}
	if got.err == nil && !timedOut {
		p.idle <- wk
		return got.line[:len(got.line)-1], nil, nil
	}
	// the worker died (or was killed by the watchdog)
	wk.in.Close()
	werr := <-wk.wait
	wk.outf.Close()
	res := Result{Stderr: wk.errb.bytes(), Wall: time.Since(start)}
	res.Class, res.ExitCode, res.Detail = Classify(werr, res.Stderr, timedOut)
	if res.Class == "ok" {
		res.Class, res.Detail = "exit", "worker exited 0 in the middle of a job"
	}
	p.mu.Lock()
	p.Deaths++
	p.mu.Unlock()
	p.idle <- nil
	return nil, &res, nil
}

// Close terminates all workers (call when no Do is in flight).
func (p *Pool) Close() {
	for i := 0; i < p.n; i++ {
		wk := <-p.idle
		if wk != nil {
			wk.in.Close()
			select {
			case <-wk.wait:
			case <-time.After(10 * time.Second):
				wk.cmd.Process.Kill()
				<-wk.wait
			}
			wk.outf.Close()
		}
	}
}

// ServeWorker is the worker side: reads job lines from stdin until EOF, answers
// each with handle's reply on fd 3. handle must return a single line (JSON).
func ServeWorker(handle func(job []byte) []byte) {
	out := os.NewFile(3, "reply")
	if out == nil {
		fmt.Fprintln(os.Stderr, "worker: fd 3 missing")
		os.Exit(2)
	}
	in := bufio.NewReaderSize(os.Stdin, 1<<20)
	// Optional CPU-time watchdog (VERIF_CPU_WATCHDOG_S=<seconds>): a job that burns more
	// CPU time of this process than the limit is an endless loop in the code under test.
	// CPU time, not wall-clock time: machine load does not move it. The parent's
	// wall-clock watchdog stays in force for jobs that block without using the CPU.
	var jobStart int64 // CPU ns at the start of the job in progress, 0 = idle
	if lim, _ := strconv.Atoi(os.Getenv("VERIF_CPU_WATCHDOG_S")); lim > 0 {
		go func() {
			for {
				time.Sleep(500 * time.Millisecond)
				if st := atomic.LoadInt64(&jobStart); st != 0 && cpuNow()-st > int64(lim)*1e9 {
					fmt.Fprintf(os.Stderr, "fatal error: cpu watchdog: one job used more than %d s of CPU time (endless loop)\n", lim)
					os.Exit(3)
				}
			}
		}()
	}
	for {
		line, err := in.ReadBytes('\n')
		if len(line) > 0 && line[len(line)-1] == '\n' {
			atomic.StoreInt64(&jobStart, cpuNow()+1)
			rep := handle(line[:len(line)-1])
			atomic.StoreInt64(&jobStart, 0)
			if _, e := out.Write(append(append([]byte(nil), rep...), '\n')); e != nil {
				os.Exit(0) // parent gone
			}
		}
		if err != nil {
			os.Exit(0)
		}
	}
}

// cpuNow: user + system CPU time of this process in nanoseconds.
func cpuNow() int64 {
	var ru syscall.Rusage
	if syscall.Getrusage(syscall.RUSAGE_SELF, &ru) != nil {
		return 0
	}
	return (int64(ru.Utime.Sec)+int64(ru.Stime.Sec))*1e9 + (int64(ru.Utime.Usec)+int64(ru.Stime.Usec))*1e3
}
