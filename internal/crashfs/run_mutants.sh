#!/bin/bash
# usage: run_mutants.sh <check> <tier> <patch>...
# Applies each patch to a scratch worktree of the tree under test, runs the check on
# it (VERIF_REPO / VERIF_OUT redirected), prints the verdict keys, restores the tree.
# The scratch worktree is created at /tmp/wt-<check> and removed at the end.
set -u
chk="$1"; tier="$2"; shift 2
wt="/tmp/wt-mut-$chk"; out="/tmp/out-mut-$chk"
git -C /repo worktree remove --force "$wt" >/dev/null 2>&1
git -C /repo worktree add --detach "$wt" HEAD >/dev/null 2>&1 || { echo "cannot create worktree"; exit 2; }
for p in "$@"; do
  p=$(readlink -f "$p")
  name=$(basename "$p" .patch)
  git -C "$wt" checkout -q . && git -C "$wt" apply "$p" || { echo "$name: PATCH DOES NOT APPLY"; continue; }
  start=$(date +%s)
  VERIF_REPO="$wt" VERIF_OUT="$out" timeout 1800 /verif/run.sh "$chk" --tier "$tier" > "$out.$name.log" 2>&1
  rc=$?
  keys=$(grep '^  key=' "$out.$name.log" | sed 's/^  key=//' | tr '\n' ';')
  echo "$name: exit=$rc wall=$(( $(date +%s) - start ))s keys=[$keys]"
done
git -C /repo worktree remove --force "$wt" >/dev/null 2>&1
rm -rf "$out"
