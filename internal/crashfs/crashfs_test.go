package crashfs

import (
	"bytes"
	"io"
	"os"
	"path/filepath"
	"testing"

	"verif/internal/vos"
)

// A workload through the shim: the full log must reproduce the directory, every
// prefix must materialise, torn cuts must hold exactly the torn bytes.
func TestRecordMaterialise(t *testing.T) {
	base, err := os.MkdirTemp("/dev/shm", "crashfs-test-")
	if err != nil {
		base = t.TempDir()
	}
	defer os.RemoveAll(base)
	root := filepath.Join(base, "real")
	rec := vos.Record(root)
	defer rec.Stop()

	vos.MkdirAll(filepath.Join(root, "sub"), 0o770)
	f, err := vos.Create(filepath.Join(root, "sub", "a.dat"))
	if err != nil {
		t.Fatal(err)
	}
	f.Write([]byte("hello"))
	f.WriteString(" world")
	f.WriteAt([]byte("J"), 0)
	f.Seek(2, vos.SEEK_SET)
	f.Write(bytes.Repeat([]byte{7}, 10000))
	f.Sync()
	f.Truncate(9000)
	rec.Marker("ACK 1")
	f.Close()
	vos.Rename(filepath.Join(root, "sub", "a.dat"), filepath.Join(root, "b.dat"))
	g, _ := vos.OpenFile(filepath.Join(root, "c.log"), vos.O_RDWR|vos.O_CREATE|vos.O_APPEND, 0o660)
	g.Write([]byte("one"))
	g.Write([]byte("two"))
	// io.Copy must go through Write (ReadFrom is overridden)
	src, _ := vos.Open(filepath.Join(root, "b.dat"))
	io.Copy(g, src)
	src.Close()
	g.Close()
	vos.WriteFile(filepath.Join(root, "w.bin"), []byte("abc"), 0o660)
	vos.WriteFile(filepath.Join(root, "w.bin"), []byte("z"), 0o660) // truncates
	vos.Remove(filepath.Join(root, "sub"))
	vos.Mkdir(filepath.Join(root, "old"), 0o770)
	vos.WriteFile(filepath.Join(root, "old", "x"), []byte("x"), 0o660)
	vos.RemoveAll(filepath.Join(root, "old"))
	vos.Remove(filepath.Join(root, "does-not-exist")) // no effect

	log := Convert(rec.Effects())
	if err := Conformance(log, root, "", root, filepath.Join(base, "conf")); err != nil {
		t.Fatalf("conformance: %v\nlog: %v", err, log)
	}
	if m := Markers(log, len(log)); len(m) != 1 || m[0] != "ACK 1" {
		t.Fatalf("markers: %v", m)
	}
	// relativised log materialises as well
	rl, err := Relativize(log, root)
	if err != nil {
		t.Fatal(err)
	}
	if err := Conformance(rl, "", "", root, filepath.Join(base, "conf2")); err != nil {
		t.Fatalf("conformance (relative): %v", err)
	}
	cuts := Cuts(log)
	n := 0
	err = Enumerate(log, root, "", base, cuts, func(c Cut, dir string, _ []string) bool {
		n++
		// the same state built from scratch must be identical to the incremental one
		d2 := filepath.Join(base, "scratch")
		defer os.RemoveAll(d2)
		if err := Materialise(log, root, "", d2, c); err != nil {
			t.Fatalf("cut %v: %v", c, err)
		}
		if err := CompareDirs(dir, d2); err != nil {
			t.Fatalf("cut %v: incremental and direct materialisation differ: %v", c, err)
		}
		return false
	})
	if err != nil {
		t.Fatal(err)
	}
	if n != len(cuts) || n < len(log)+1 {
		t.Fatalf("visited %d of %d cuts", n, len(cuts))
	}
	// torn lengths
	if l := TornLengths(4); len(l) != 3 {
		t.Fatalf("TornLengths(4) = %v", l)
	}
	if l := TornLengths(10000); l[0] != 1 || l[1] != 4096 || l[2] != 8192 || l[3] != 9999 || len(l) != 4 {
		t.Fatalf("TornLengths(10000) = %v", l)
	}
	if l := TornLengths(256); len(l) != 255 {
		t.Fatalf("TornLengths(256): %d", len(l))
	}
}

func TestClassify(t *testing.T) {
	exe, _ := os.Executable()
	r := RunChild(exe, []string{"-test.run", "TestHelperExit"}, []string{"CRASHFS_HELPER=exit3"}, 0)
	if r.Class != "exit" || r.ExitCode != 3 {
		t.Fatalf("exit: %+v", r.String())
	}
	r = RunChild(exe, []string{"-test.run", "TestHelperExit"}, []string{"CRASHFS_HELPER=panic"}, 0)
	if r.Class != "panic" {
		t.Fatalf("panic: %v / %s", r, r.Stderr)
	}
	r = RunChild(exe, []string{"-test.run", "TestHelperExit"}, []string{"CRASHFS_HELPER=vosexit"}, 0)
	if r.Class != "vos-exit" || r.ExitCode != 1 {
		t.Fatalf("vos-exit: %v", r)
	}
	r = RunChild(exe, []string{"-test.run", "TestHelperExit"}, []string{"CRASHFS_HELPER=ok"}, 0)
	if r.Died() {
		t.Fatalf("ok: %v", r)
	}
}

func TestHelperExit(t *testing.T) {
	switch os.Getenv("CRASHFS_HELPER") {
	case "exit3":
		os.Exit(3)
	case "panic":
		go func() { panic("boom in goroutine") }()
		select {}
	case "vosexit":
		vos.Exit(1)
	}
}
