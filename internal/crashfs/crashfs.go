// Package crashfs is Engine C: crash-point enumeration over a recorded file-effect
// log (see /verif/internal/vos). "The process dies" means the OS keeps every
// completed system call, so the reachable post-crash directory states are exactly
// the prefixes of the effect history, plus a torn final write.
//
// The package does not import vos (vos is reachable only through the build overlay,
// under gocoin's module path); the Effect type has the same JSON shape, use
// FromJSON(rec.JSON()) or Convert(rec.Effects()) in the harness.
package crashfs

import (
	"bytes"
	"crypto/sha256"
	"encoding/hex"
	"encoding/json"
	"fmt"
	"os"
	"os/exec"
	"path/filepath"
	"regexp"
	"sort"
	"strconv"
	"strings"
	"syscall"
	"time"
)

// Effect mirrors vos.Effect.
type Effect struct {
	Seq  int    `json:"seq"`
	Op   string `json:"op"`
	Path string `json:"path,omitempty"`
	To   string `json:"to,omitempty"`
	Off  int64  `json:"off,omitempty"`
	Size int64  `json:"size,omitempty"`
	Data []byte `json:"data,omitempty"`
	Note string `json:"note,omitempty"`
}

func (e Effect) String() string {
	switch e.Op {
	case "write":
		return fmt.Sprintf("write %s @%d +%d", e.Path, e.Off, len(e.Data))
	case "rename":
		return fmt.Sprintf("rename %s -> %s", e.Path, e.To)
	case "truncate":
		return fmt.Sprintf("truncate %s %d", e.Path, e.Size)
	case "marker":
		return "marker " + e.Note
	}
	return e.Op + " " + e.Path
}

// Mutates reports whether the effect changes the directory state.
func (e Effect) Mutates() bool { return e.Op != "marker" && e.Op != "sync" }

// FromJSON parses a log serialised by vos (Recorder.JSON / LogJSON).
func FromJSON(b []byte) ([]Effect, error) {
	var l []Effect
	err := json.Unmarshal(b, &l)
	return l, err
}

// Convert turns any slice of structs with vos.Effect's JSON shape into []Effect
// (e.g. crashfs.Convert(rec.Effects())).
func Convert(vosEffects interface{}) []Effect {
	b, err := json.Marshal(vosEffects)
	if err != nil {
		panic(err)
	}
	l, err := FromJSON(b)
	if err != nil {
		panic(err)
	}
	return l
}

// Relativize strips root from every path (result paths are relative, "." for root
// itself), so that a log can be stored in a replay file and materialised anywhere.
// Effects outside root make it fail.
func Relativize(log []Effect, root string) ([]Effect, error) {
	root = filepath.Clean(root)
	rel := func(p string) (string, error) {
		if p == "" {
			return "", nil
		}
		if !filepath.IsAbs(p) {
			return p, nil // already relative
		}
		r, err := filepath.Rel(root, p)
		if err != nil || r == ".." || strings.HasPrefix(r, "../") {
			return "", fmt.Errorf("effect path %s is outside %s", p, root)
		}
		return r, nil
	}
	out := make([]Effect, len(log))
	for i, e := range log {
		var err error
		if e.Path, err = rel(e.Path); err != nil {
			return nil, err
		}
		if e.To, err = rel(e.To); err != nil {
			return nil, err
		}
		out[i] = e
	}
	return out, nil
}

// Markers returns the notes of the marker effects among the first n effects.
func Markers(log []Effect, n int) []string {
	var l []string
	for _, e := range log[:n] {
		if e.Op == "marker" {
			l = append(l, e.Note)
		}
	}
	return l
}

// Cut identifies one post-crash state: effects[0:N] completed; if Torn > 0 the
// effect N (a write) landed only its first Torn bytes.
type Cut struct {
	N    int `json:"n"`
	Torn int `json:"torn,omitempty"`
	// SameDir: the directory is identical to that of the previous cut in Cuts()
	// order (the last completed effect is a marker or a sync); only the set of
	// markers before the cut differs.
	SameDir bool `json:"same_dir,omitempty"`
}

func (c Cut) String() string {
	if c.Torn > 0 {
		return fmt.Sprintf("%d+torn%d", c.N, c.Torn)
	}
	return strconv.Itoa(c.N)
}

// TornLengths: every byte for writes <= 256 bytes, else {1, multiples of 4096, len-1}.
func TornLengths(n int) []int {
	var l []int
	if n <= 1 {
		return nil
	}
	if n <= 256 {
		for i := 1; i < n; i++ {
			l = append(l, i)
		}
		return l
	}
	l = append(l, 1)
	for i := 4096; i < n-1; i += 4096 {
		l = append(l, i)
	}
	l = append(l, n-1)
	return l
}

// Cuts enumerates every crash point of the log in order: prefix 0, [torn variants
// of effect 0], prefix 1, … prefix len(log).
func Cuts(log []Effect) []Cut {
	cuts := []Cut{{N: 0}}
	for i, e := range log {
		if e.Op == "write" {
			for _, t := range TornLengths(len(e.Data)) {
				cuts = append(cuts, Cut{N: i, Torn: t})
			}
		}
		cuts = append(cuts, Cut{N: i + 1, SameDir: !e.Mutates()})
	}
	return cuts
}

// CutsFrom is Cuts restricted to crash points at or after effect index from
// (cut N=from is "nothing of the interesting part happened yet").
func CutsFrom(log []Effect, from int) []Cut {
	var l []Cut
	for _, c := range Cuts(log) {
		if c.N >= from {
			l = append(l, c)
		}
	}
	if len(l) > 0 {
		l[0].SameDir = false
	}
	return l
}

func target(root, dest, p string) (string, error) {
	if !filepath.IsAbs(p) {
		if p == ".." || strings.HasPrefix(p, "../") {
			return "", fmt.Errorf("relative effect path %s escapes the root", p)
		}
		return filepath.Join(dest, p), nil
	}
	root = filepath.Clean(root)
	if p == root {
		return dest, nil
	}
	if !strings.HasPrefix(p, root+string(os.PathSeparator)) {
		return "", fmt.Errorf("effect path %s is outside root %s", p, root)
	}
	return filepath.Join(dest, p[len(root):]), nil
}

// Apply performs one effect below dest (paths under root are mapped to dest;
// relative paths are taken relative to dest). torn > 0 writes only that many bytes.
func Apply(e Effect, root, dest string, torn int) error {
	if !e.Mutates() {
		return nil
	}
	p, err := target(root, dest, e.Path)
	if err != nil {
		return err
	}
	switch e.Op {
	case "mkdir":
		return os.Mkdir(p, 0o770)
	case "mkdirall":
		return os.MkdirAll(p, 0o770)
	case "create":
		f, err := os.OpenFile(p, os.O_WRONLY|os.O_CREATE|os.O_EXCL, 0o660)
		if err != nil {
			return err
		}
		return f.Close()
	case "truncate":
		return os.Truncate(p, e.Size)
	case "write":
		f, err := os.OpenFile(p, os.O_WRONLY, 0)
		if err != nil {
			return err
		}
		d := e.Data
		if torn > 0 && torn < len(d) {
			d = d[:torn]
		}
		_, err = f.WriteAt(d, e.Off)
		if e1 := f.Close(); err == nil {
			err = e1
		}
		return err
	case "rename":
		t, err := target(root, dest, e.To)
		if err != nil {
			return err
		}
		return os.Rename(p, t)
	case "remove":
		return os.Remove(p)
	case "removeall":
		return os.RemoveAll(p)
	}
	return fmt.Errorf("unknown effect op %q", e.Op)
}

// Materialise builds, in dest, the directory state of the given cut. If base != ""
// its content is copied to dest first (the state the recording started from);
// dest is created.
func Materialise(log []Effect, root, base, dest string, cut Cut) error {
	if err := os.MkdirAll(dest, 0o770); err != nil {
		return err
	}
	if base != "" {
		if err := CopyTree(base, dest); err != nil {
			return err
		}
	}
	if cut.N > len(log) {
		return fmt.Errorf("cut %v beyond log of %d effects", cut, len(log))
	}
	for i, e := range log[:cut.N] {
		if err := Apply(e, root, dest, 0); err != nil {
			return fmt.Errorf("effect %d (%v): %v", i, e, err)
		}
	}
	if cut.Torn > 0 {
		if cut.N >= len(log) || log[cut.N].Op != "write" {
			return fmt.Errorf("torn cut %v does not point at a write", cut)
		}
		if err := Apply(log[cut.N], root, dest, cut.Torn); err != nil {
			return fmt.Errorf("torn effect %d (%v): %v", cut.N, log[cut.N], err)
		}
	}
	return nil
}

// CopyTree copies regular files and directories of src into dst (which may exist).
func CopyTree(src, dst string) error {
	return filepath.Walk(src, func(p string, info os.FileInfo, err error) error {
		if err != nil {
			return err
		}
		rel, _ := filepath.Rel(src, p)
		t := filepath.Join(dst, rel)
		if info.IsDir() {
			return os.MkdirAll(t, 0o770)
		}
		if !info.Mode().IsRegular() {
			return nil
		}
		b, err := os.ReadFile(p)
		if err != nil {
			return err
		}
		return os.WriteFile(t, b, 0o660)
	})
}

// Snapshot lists a tree as relative path -> content hash ("dir" for directories).
func Snapshot(dir string) (map[string]string, error) {
	m := map[string]string{}
	err := filepath.Walk(dir, func(p string, info os.FileInfo, err error) error {
		if err != nil {
			return err
		}
		rel, _ := filepath.Rel(dir, p)
		if rel == "." {
			return nil
		}
		if info.IsDir() {
			m[rel] = "dir"
			return nil
		}
		b, err := os.ReadFile(p)
		if err != nil {
			return err
		}
		h := sha256.Sum256(b)
		m[rel] = fmt.Sprintf("%d:%s", len(b), hex.EncodeToString(h[:8]))
		return nil
	})
	return m, err
}

// DirHash is a digest of Snapshot (names, sizes, contents).
func DirHash(dir string) (string, error) {
	m, err := Snapshot(dir)
	if err != nil {
		return "", err
	}
	var ks []string
	for k := range m {
		ks = append(ks, k)
	}
	sort.Strings(ks)
	h := sha256.New()
	for _, k := range ks {
		fmt.Fprintf(h, "%s=%s\n", k, m[k])
	}
	return hex.EncodeToString(h.Sum(nil)[:12]), nil
}

// CompareDirs returns nil when both trees hold the same names with the same bytes.
func CompareDirs(want, got string) error {
	a, err := Snapshot(want)
	if err != nil {
		return err
	}
	b, err := Snapshot(got)
	if err != nil {
		return err
	}
	var diffs []string
	for k, v := range a {
		if w, ok := b[k]; !ok {
			diffs = append(diffs, "missing in materialised: "+k)
		} else if w != v {
			diffs = append(diffs, fmt.Sprintf("differs: %s real=%s materialised=%s", k, v, w))
		}
	}
	for k := range b {
		if _, ok := a[k]; !ok {
			diffs = append(diffs, "extra in materialised: "+k)
		}
	}
	if len(diffs) == 0 {
		return nil
	}
	sort.Strings(diffs)
	if len(diffs) > 10 {
		diffs = diffs[:10]
	}
	return fmt.Errorf("%s", strings.Join(diffs, "; "))
}

// Conformance is the one model check of this engine: materialising the FULL log
// (on top of base, if any) must reproduce realDir byte for byte. scratch is a
// directory to build in (created, removed).
func Conformance(log []Effect, root, base, realDir, scratch string) error {
	defer os.RemoveAll(scratch)
	if err := Materialise(log, root, base, scratch, Cut{N: len(log)}); err != nil {
		return fmt.Errorf("materialise: %v", err)
	}
	return CompareDirs(realDir, scratch)
}

// ---------------------------------------------------------------------------
// recovery in a fresh process

// Result of one child process.
type Result struct {
	Class    string // "ok" | "exit" | "vos-exit" | "panic" | "fatal" | "signal" | "timeout" | "start-failed"
	ExitCode int
	Detail   string // panic message / fatal error line / signal name
	Stdout   []byte
	Stderr   []byte // tail (<= 64 KiB)
	Wall     time.Duration
}

// Died reports anything but a clean exit 0.
func (r Result) Died() bool { return r.Class != "ok" }

func (r Result) String() string {
	if r.Class == "ok" {
		return "ok"
	}
	return fmt.Sprintf("%s(code=%d) %s", r.Class, r.ExitCode, r.Detail)
}

var (
	rePanic   = regexp.MustCompile(`(?m)^panic: (.*)$`)
	reFatal   = regexp.MustCompile(`(?m)^fatal error: (.*)$`)
	reVosExit = regexp.MustCompile(`(?m)^VOS-EXIT code=(\d+)$`)
	reAddr    = regexp.MustCompile(`0x[0-9a-f]+`)
)

// Classify interprets the death of a child (wait error, stderr).
func Classify(waitErr error, stderr []byte, timedOut bool) (class string, code int, detail string) {
	if timedOut {
		return "timeout", -1, "watchdog expired"
	}
	if waitErr == nil {
		return "ok", 0, ""
	}
	ee, ok := waitErr.(*exec.ExitError)
	if !ok {
		return "start-failed", -1, waitErr.Error()
	}
	code = ee.ExitCode()
	if m := rePanic.FindSubmatch(stderr); m != nil {
		d := string(m[1])
		// a runtime error panic is followed by "[signal SIGSEGV…" lines; keep line one
		return "panic", code, reAddr.ReplaceAllString(d, "0x?")
	}
	if m := reFatal.FindSubmatch(stderr); m != nil {
		return "fatal", code, string(m[1])
	}
	if m := reVosExit.FindSubmatch(stderr); m != nil {
		c, _ := strconv.Atoi(string(m[1]))
		return "vos-exit", c, "os.Exit called by the code under test"
	}
	if ws, ok := ee.Sys().(syscall.WaitStatus); ok && ws.Signaled() {
		return "signal", -1, ws.Signal().String()
	}
	return "exit", code, ""
}

// MinWatchdog is the smallest watchdog accepted (no wall-clock oracles).
const MinWatchdog = 60 * time.Second

type tailBuf struct {
	b   []byte
	max int
}

func (t *tailBuf) Write(p []byte) (int, error) {
	t.b = append(t.b, p...)
	if len(t.b) > 2*t.max {
		t.b = append([]byte(nil), t.b[len(t.b)-t.max:]...)
	}
	return len(p), nil
}

func (t *tailBuf) Bytes() []byte {
	if len(t.b) > t.max {
		return t.b[len(t.b)-t.max:]
	}
	return t.b
}

// RunChild runs exe with args in a fresh process, stdin closed, with a watchdog
// (raised to MinWatchdog if smaller) and classifies how it ended. env entries are
// added to the parent's environment.
func RunChild(exe string, args []string, env []string, watchdog time.Duration) Result {
	if watchdog < MinWatchdog {
		watchdog = MinWatchdog
	}
	cmd := exec.Command(exe, args...)
	cmd.Env = append(os.Environ(), env...)
	var out bytes.Buffer
	errb := &tailBuf{max: 64 << 10}
	cmd.Stdout = &out
	cmd.Stderr = errb
	start := time.Now()
	if err := cmd.Start(); err != nil {
		return Result{Class: "start-failed", ExitCode: -1, Detail: err.Error()}
	}
	done := make(chan error, 1)
	go func() { done <- cmd.Wait() }()
	var werr error
	timedOut := false
	select {
	case werr = <-done:
	case <-time.After(watchdog):
		timedOut = true
		cmd.Process.Kill()
		werr = <-done
	}
	r := Result{Stdout: out.Bytes(), Stderr: errb.Bytes(), Wall: time.Since(start)}
	r.Class, r.ExitCode, r.Detail = Classify(werr, r.Stderr, timedOut)
	return r
}

// Recover runs the recovery driver of the calling binary on dir in a fresh
// process: `os.Args[0] --recover <dir> [extra…]`. The driver prints what it sees
// on stdout (Result.Stdout) and exits 0.
func Recover(dir string, extra []string, watchdog time.Duration) Result {
	exe, err := os.Executable()
	if err != nil {
		exe = os.Args[0]
	}
	return RunChild(exe, append([]string{"--recover", dir}, extra...), nil, watchdog)
}

// ---------------------------------------------------------------------------
// enumeration driver

// Visit is called by Enumerate for every cut with the materialised directory (a
// private copy the callee may modify; it is removed afterwards).
type Visit func(cut Cut, dir string, markers []string) (stop bool)

// Enumerate materialises every cut in cuts (nil = Cuts(log)) of log under
// scratchParent and calls visit. Prefixes are built incrementally (one running
// directory that advances effect by effect; each visited state is a copy of it),
// so the cost is linear in the log plus one directory copy per cut.
func Enumerate(log []Effect, root, base, scratchParent string, cuts []Cut, visit Visit) error {
	if cuts == nil {
		cuts = Cuts(log)
	}
	run, err := os.MkdirTemp(scratchParent, "run-")
	if err != nil {
		return err
	}
	defer os.RemoveAll(run)
	if base != "" {
		if err := CopyTree(base, run); err != nil {
			return err
		}
	}
	applied := 0
	for _, c := range cuts {
		if c.N < applied {
			return fmt.Errorf("cuts not in ascending order")
		}
		for applied < c.N {
			if err := Apply(log[applied], root, run, 0); err != nil {
				return fmt.Errorf("effect %d (%v): %v", applied, log[applied], err)
			}
			applied++
		}
		d, err := os.MkdirTemp(scratchParent, "cut-")
		if err != nil {
			return err
		}
		if err := CopyTree(run, d); err != nil {
			os.RemoveAll(d)
			return err
		}
		if c.Torn > 0 {
			if err := Apply(log[c.N], root, d, c.Torn); err != nil {
				os.RemoveAll(d)
				return fmt.Errorf("torn effect %d: %v", c.N, err)
			}
		}
		stop := visit(c, d, Markers(log, c.N))
		os.RemoveAll(d)
		if stop {
			return nil
		}
	}
	return nil
}
