#!/usr/bin/env python3
"""Inject the os shim (verif/internal/vos) into gocoin packages through a build overlay.

usage: mkoverlay.py <builddir> <overlay.json> <repo> <pkgdir>...

  <builddir>      where rewritten copies are written (run.sh's $bd)
  <overlay.json>  existing overlay file ({"Replace":{...}}), entries are MERGED into it
  <repo>          tree under test (VERIF_REPO)
  <pkgdir>        package directories relative to <repo>, e.g. lib/others/qdb lib/chain lib/utxo

For every non-test .go file of each package that imports "os" a copy with the import
rewritten to
    os "github.com/piotrnar/gocoin/lib/others/vshim/vos"
is written to <builddir>/vos/<pkgdir with _>/<file> and mapped in the overlay. The shim
itself is mapped as a VIRTUAL package inside gocoin's module:
    <repo>/lib/others/vshim/vos/vos.go -> /verif/internal/vos/vos.go
(the harness imports the same path to reach the effect log).

Fails loudly (exit 1) if a listed package has no file importing "os", if an import
cannot be rewritten, or if the virtual directory exists on disk.
"""
import json
import os
import re
import sys

VPKG = "github.com/piotrnar/gocoin/lib/others/vshim/vos"
VDIR = "lib/others/vshim/vos"
SHIM = os.path.join(os.path.dirname(os.path.dirname(os.path.abspath(__file__))), "vos", "vos.go")

# `"os"` as a whole import spec, optionally already aliased:  os "os" / xx "os"
SPEC = re.compile(r'^(?P<ind>\s*)(?:(?P<imp>import)\s+)?(?:(?P<alias>[A-Za-z_][A-Za-z0-9_]*|\.)\s+)?"os"(?P<rest>\s*(?://.*)?)$')


def die(msg):
    sys.stderr.write("mkoverlay: " + msg + "\n")
    sys.exit(1)


def import_region_end(lines):
    """index of the first line after the import declarations (first top-level func/type/var/const)."""
    depth = 0
    for i, l in enumerate(lines):
        s = l.strip()
        if depth == 0 and re.match(r'^(func|type|var|const)\b', s):
            return i
        if re.match(r'^import\s*\($', s):
            depth = 1
        elif depth == 1 and s == ")":
            depth = 0
    return len(lines)


def rewrite(src):
    """returns (new_source, n_rewritten)"""
    lines = src.split("\n")
    end = import_region_end(lines)
    n = 0
    in_block = False
    in_comment = False
    for i in range(end):
        l = lines[i]
        s = l.strip()
        if in_comment:
            if "*/" in s:
                in_comment = False
            continue
        if s.startswith("/*") and "*/" not in s:
            in_comment = True
            continue
        if s.startswith("//"):
            continue
        if re.match(r'^import\s*\($', s):
            in_block = True
            continue
        if in_block and s == ")":
            in_block = False
            continue
        m = SPEC.match(l)
        if not m:
            continue
        if not in_block and not m.group("imp"):
            continue
        alias = m.group("alias") or "os"
        if alias == "_":
            continue
        lines[i] = "%s%s%s \"%s\"%s" % (m.group("ind"), "import " if m.group("imp") else "", alias, VPKG, m.group("rest"))
        n += 1
    return "\n".join(lines), n


def main():
    if len(sys.argv) < 5:
        die(__doc__)
    bd, ovf, repo = sys.argv[1], sys.argv[2], os.path.abspath(sys.argv[3])
    pkgs = sys.argv[4:]
    if not os.path.isfile(SHIM):
        die("shim source missing: " + SHIM)
    if os.path.exists(os.path.join(repo, VDIR)):
        die("virtual package directory exists on disk: " + os.path.join(repo, VDIR))
    try:
        ov = json.load(open(ovf))
    except Exception as e:
        die("cannot read overlay %s: %s" % (ovf, e))
    rep = ov.setdefault("Replace", {})
    rep[os.path.join(repo, VDIR, "vos.go")] = SHIM
    total = 0
    for pkg in pkgs:
        pdir = os.path.join(repo, pkg)
        if not os.path.isdir(pdir):
            die("no such package directory: " + pdir)
        out = os.path.join(bd, "vos", pkg.replace("/", "_"))
        os.makedirs(out, exist_ok=True)
        n_pkg = 0
        for fn in sorted(os.listdir(pdir)):
            if not fn.endswith(".go") or fn.endswith("_test.go"):
                continue
            path = os.path.join(pdir, fn)
            # honour an earlier replacement of the same file (e.g. run.sh's const.go)
            srcpath = rep.get(path, path)
            if srcpath == "":
                continue  # deleted by the overlay
            src = open(srcpath, encoding="utf-8").read()
            if not re.search(r'"os"', src):
                continue
            new, n = rewrite(src)
            if n == 0:
                # "os" appears only outside the import section (string literal)
                continue
            if re.search(r'^\s*(?:import\s+)?(?:\w+\s+)?"os"\s*(?://.*)?$', "\n".join(new.split("\n")[:import_region_end(new.split("\n"))]), re.M):
                die("could not rewrite every \"os\" import in " + path)
            dst = os.path.join(out, fn)
            with open(dst, "w", encoding="utf-8") as f:
                f.write(new)
            rep[path] = dst
            n_pkg += 1
        if n_pkg == 0:
            die("package %s has no non-test file importing \"os\" (nothing to instrument)" % pkg)
        total += n_pkg
    tmp = ovf + ".tmp"
    with open(tmp, "w") as f:
        json.dump(ov, f, indent=1, sort_keys=True)
        f.write("\n")
    os.replace(tmp, ovf)
    sys.stderr.write("mkoverlay: %d file(s) instrumented in %d package(s)\n" % (total, len(pkgs)))


if __name__ == "__main__":
    main()
