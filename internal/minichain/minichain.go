// Package minichain drives a real gocoin chain.Chain on a tiny regtest-like
// configuration and builds blocks for it with the independent reftx encoder.
package minichain

import (
	"fmt"
	"math/big"
	"os"
	"strings"

	"github.com/piotrnar/gocoin/lib/btc"
	"github.com/piotrnar/gocoin/lib/chain"
	"github.com/piotrnar/gocoin/lib/utxo"

	"verif/ref/refchain"
	"verif/ref/reftx"
)

const (
	PowBits     = 0x207fffff
	GenesisTime = 1600000000
)

var GenesisHash = func() (h [32]byte) {
	for i := range h {
		h[i] = byte(0xa0 + i)
	}
	return
}()

// GenesisFor is the genesis hash the harness uses for a network mode: gocoin recognises the test
// networks by the first (0x43) and second (0xf0: testnet4) byte of the genesis hash, and only the
// difficulty exceptions depend on it once Configure has set the consensus heights.
func GenesisFor(net int) [32]byte {
	g := GenesisHash
	switch net {
	case 3:
		g[0] = 0x43
	case 4:
		g[0], g[1] = 0x43, 0xf0
	}
	return g
}

type Opts struct {
	Params      refchain.Params
	ChainOpts   chain.NewChanOpts
	BlockDBOpts chain.BlockDBOpts
	Rescan      bool
}

type Env struct {
	Dir string
	Ch  *chain.Chain
	P   refchain.Params
	hf  *hfState
	shadow refchain.UTXO
}

// Quiet sends gocoin's chatter on stdout to /dev/null (verdict lines are printed
// through the file returned).
func Quiet() *os.File {
	real := os.Stdout
	dn, err := os.OpenFile("/dev/null", os.O_WRONLY, 0)
	if err == nil {
		os.Stdout = dn
	}
	return real
}

func Configure(ch *chain.Chain, p refchain.Params) {
	ch.Consensus.MaxPOWBits = PowBits
	ch.Consensus.MaxPOWValue = btc.SetCompact(PowBits)
	ch.Consensus.GensisTimestamp = GenesisTime
	ch.Consensus.BIP34Height = p.BIP34
	ch.Consensus.BIP66Height = p.BIP66
	ch.Consensus.BIP65Height = p.BIP65
	ch.Consensus.Enforce_CSV = p.CSV
	ch.Consensus.Enforce_SEGWIT = p.Segwit
	ch.Consensus.Enforce_Taproot = p.Taproot
	ch.RebuildGenesisHeader()
}

// Open opens (or creates) a chain directory. dir must end without a slash.
func Open(dir string, o *Opts) *Env {
	os.MkdirAll(dir, 0o755)
	co := o.ChainOpts
	bo := o.BlockDBOpts
	gen := GenesisFor(o.Params.Net)
	ch := chain.NewChainExt(dir+"/", btc.NewUint256(gen[:]), o.Rescan, &co, &bo)
	Configure(ch, o.Params)
	return &Env{Dir: dir, Ch: ch, P: o.Params}
}

func (e *Env) Close() { e.Ch.Close() }

// Deliver offers one serialized block the way a node does: CheckBlock, then
// AcceptBlock. Result: "ok", "later" (parent unknown), "dup", or "refused: …".
func (e *Env) Deliver(raw []byte) string {
	bl, err := btc.NewBlock(append([]byte{}, raw...))
	if err != nil {
		return "refused: NewBlock: " + err.Error()
	}
	e.Ch.BlockIndexAccess.Lock()
	_, later, err := e.Ch.CheckBlock(bl)
	e.Ch.BlockIndexAccess.Unlock()
	if err != nil {
		if later {
			return "later"
		}
		if strings.Contains(err.Error(), "already in") || err.Error() == "Genesis" {
			return "dup"
		}
		return "refused: check: " + err.Error()
	}
	bl.LastKnownHeight = bl.Height
	if err = e.Ch.AcceptBlock(bl); err != nil {
		return "refused: accept: " + err.Error()
	}
	return "ok"
}

func (e *Env) Tip() (h [32]byte, height uint32) {
	l := e.Ch.LastBlock()
	copy(h[:], l.BlockHash.Hash[:])
	return h, l.Height
}

// DumpUTXO decodes the whole HashMap into the reference representation.
func DumpUTXO(db *utxo.UnspentDB) refchain.UTXO {
	u := refchain.UTXO{}
	for i := range db.HashMap {
		db.MapMutex[i].RLock()
		for k, v := range db.HashMap[i] {
			rec := utxo.NewUtxoRec(*v)
			if string(k[:]) != string(rec.TxID[:len(k)]) {
				panic(fmt.Sprintf("utxo key %x does not prefix txid %x", k, rec.TxID))
			}
			for vout, o := range rec.Outs {
				if o == nil {
					continue
				}
				u[refchain.Outpoint{Tx: rec.TxID, Vout: uint32(vout)}] = refchain.Coin{
					Value: o.Value, Script: append([]byte{}, o.PKScr...), Height: rec.InBlock, Coinbase: rec.Coinbase}
			}
		}
		db.MapMutex[i].RUnlock()
	}
	return u
}

func (e *Env) UTXO() refchain.UTXO { return DumpUTXO(e.Ch.Unspent) }

// ---------- block building (reference side) ----------

// HeightScript is the BIP34 coinbase prefix (CScript() << height).
func HeightScript(h uint32) []byte {
	if h == 0 {
		return []byte{0}
	}
	if h <= 16 {
		return []byte{byte(0x50 + h)}
	}
	var b []byte
	for v := h; v > 0; v >>= 8 {
		b = append(b, byte(v))
	}
	if b[len(b)-1]&0x80 != 0 {
		b = append(b, 0)
	}
	return append([]byte{byte(len(b))}, b...)
}

type Spec struct {
	Prev    [32]byte
	Height  uint32
	Time    uint32 // 0: GenesisTime + 600*height
	Version uint32 // 0: 4
	Bits    uint32 // 0: PowBits
	Tag     byte   // distinguishes sibling blocks
	CbValue int64  // -1: subsidy + fees given in Fees; else explicit
	Fees    uint64
	CbOuts  []reftx.Out // if nil: one OP_1 output with CbValue
	Txs     []*reftx.Tx
	Witness bool // add witness commitment if any tx has witness
}

// Build assembles and mines a block.
func Build(s Spec) *reftx.Block {
	cb := &reftx.Tx{Version: 1, LockTime: 0}
	scr := append(HeightScript(s.Height), 0x01, s.Tag, 0x01, 0x00)
	cb.In = []reftx.In{{Vout: 0xffffffff, Script: scr, Sequence: 0xffffffff}}
	if s.CbOuts != nil {
		cb.Out = append([]reftx.Out{}, s.CbOuts...)
	} else {
		v := refchain.Subsidy(s.Height) + s.Fees
		if s.CbValue >= 0 {
			v = uint64(s.CbValue)
		}
		cb.Out = []reftx.Out{{Value: v, Script: []byte{0x51}}}
	}
	b := &reftx.Block{}
	b.Txs = append([]*reftx.Tx{cb}, s.Txs...)
	if s.Witness {
		nonce := make([]byte, 32)
		cb.In[0].Witness = [][]byte{nonce}
		cb.Out = append(cb.Out, reftx.Out{Value: 0, Script: b.CommitmentScript(nonce)})
	}
	b.Version = s.Version
	if b.Version == 0 {
		b.Version = 4
	}
	b.Prev = s.Prev
	b.Time = s.Time
	if b.Time == 0 {
		b.Time = GenesisTime + 600*s.Height
	}
	b.Bits = s.Bits
	if b.Bits == 0 {
		b.Bits = PowBits
	}
	Seal(b)
	return b
}

// Seal recomputes the merkle root and mines.
func Seal(b *reftx.Block) {
	b.Merkle, _ = reftx.Merkle(b.TxIDs())
	Mine(b)
}

func Mine(b *reftx.Block) {
	t := refchain.Target(b.Bits)
	for n := uint32(0); ; n++ {
		b.Nonce = n
		if HashMeets(b.Hash(), t) {
			return
		}
	}
}

// Spend builds a transaction spending the given outpoints (empty scriptSig) to outputs.
func Spend(ins []refchain.Outpoint, outs []reftx.Out) *reftx.Tx {
	t := &reftx.Tx{Version: 2}
	for _, i := range ins {
		t.In = append(t.In, reftx.In{Prev: i.Tx, Vout: i.Vout, Sequence: 0xffffffff})
	}
	t.Out = outs
	return t
}

// HashMeets: the hash, read as a little-endian 256-bit number, is <= target.
func HashMeets(h [32]byte, target *big.Int) bool {
	var be [32]byte
	for i := range h {
		be[31-i] = h[i]
	}
	return target.Sign() > 0 && new(big.Int).SetBytes(be[:]).Cmp(target) <= 0
}
