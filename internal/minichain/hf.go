package minichain

import (
	"sort"
	"sync"
	"strings"

	"github.com/piotrnar/gocoin/lib/btc"
	"github.com/piotrnar/gocoin/lib/chain"
	"github.com/piotrnar/gocoin/lib/utxo"

	"verif/ref/refchain"
)

// Headers-first delivery: the way the client itself feeds lib/chain. A header is announced
// (client/network/hdrs.go ProcessNewHeader: PreCheckBlock + AcceptHeader, the node has no data
// yet), block data arrives later in any order (client/network/data.go netBlockReceived:
// PostCheckBlock), is held back while an ancestor's data is missing (client/main.go
// HandleNetBlock: HasAllParents, the cache of blocks to retry), committed with CommitBlock
// (LocalAcceptBlock) and a refused block takes its known descendants with it (DiscardBlock,
// CheckParentDiscarded). Only the chain-facing decisions are mirrored; peers, bans, timers and
// the disk cache are not part of it.

type hfEntry struct {
	bl   *btc.Block
	node *chain.BlockTreeNode
}

// Drain is one cached block handled after the delivery that made it connectable.
type Drain struct {
	Hash   [32]byte
	Result string
}

type hfState struct {
	toGet      map[[32]byte]*hfEntry
	received   map[[32]byte]bool
	discarded  map[[32]byte]bool
	cached     []*hfEntry
	lch        *chain.BlockTreeNode // network.LastCommitedHeader: the best known header (a node, not a height: it moves BACK when that block is discarded)
	highestAcc uint32
}

func (e *Env) hfs() *hfState {
	if e.hf == nil {
		_, h := e.Tip()
		e.hf = &hfState{toGet: map[[32]byte]*hfEntry{}, received: map[[32]byte]bool{}, discarded: map[[32]byte]bool{}, lch: e.Ch.LastBlock(), highestAcc: h}
	}
	return e.hf
}

// Announce mirrors ProcessNewHeader. "ok" (new header node), "fresh" (announced before),
// "dup" (data already received / block known), "later" (parent unknown), "refused: …".
func (e *Env) Announce(hdr []byte) string {
	s := e.hfs()
	bl, err := btc.NewBlock(append([]byte{}, hdr[:80]...))
	if err != nil {
		return "refused: NewBlock: " + err.Error()
	}
	if s.discarded[bl.Hash.Hash] {
		return "refused: header of a discarded block"
	}
	if s.received[bl.Hash.Hash] {
		return "dup"
	}
	if s.toGet[bl.Hash.Hash] != nil {
		return "fresh"
	}
	e.Ch.BlockIndexAccess.Lock()
	defer e.Ch.BlockIndexAccess.Unlock()
	if _, later, er := e.Ch.PreCheckBlock(bl); er != nil {
		if later {
			return "later"
		}
		if strings.Contains(er.Error(), "already in") || er.Error() == "Genesis" {
			return "dup"
		}
		return "refused: check: " + er.Error()
	}
	node := e.Ch.AcceptHeader(bl)
	s.toGet[bl.Hash.Hash] = &hfEntry{bl: bl, node: node}
	if node.Height > s.lch.Height {
		s.lch = node
	}
	return "ok"
}

// DeliverData mirrors netBlockReceived + HandleNetBlock + the retry loop over cached blocks.
// Result for the block itself: "ok", "cached" (an ancestor's data is missing: held back and
// committed by a later delivery), "dup", "later", "refused: check: …", "refused: accept: …".
func (e *Env) DeliverData(raw []byte) (res string, drained []Drain) {
	s := e.hfs()
	if len(raw) < 81 {
		return "refused: short block", nil
	}
	hash := btc.NewSha2Hash(raw[:80]).Hash
	if s.received[hash] {
		return "dup", nil
	}
	ent := s.toGet[hash]
	if ent == nil {
		if r := e.Announce(raw[:80]); r != "ok" {
			return r, nil
		}
		ent = s.toGet[hash]
	}
	prev := ent.bl.Raw
	ent.bl.Raw = append([]byte{}, raw...)
	if er := e.Ch.PostCheckBlock(ent.bl); er != nil {
		if ent.bl.MerkleRootMatch() && !strings.Contains(er.Error(), "RPC_Result:bad-witness-nonce-size") {
			delete(s.toGet, hash)
			if ent.node == s.lch {
				s.lch = s.lch.Parent
			}
			e.Ch.DeleteBranch(ent.node, func(h *btc.Uint256) { delete(s.toGet, h.Hash) })
		} else {
			ent.bl.Raw = prev
			ent.bl.BlockWeight, ent.bl.TotalInputs = 0, 0
			ent.bl.TxCount, ent.bl.TxOffset = 0, 0
			ent.bl.Txs = nil
		}
		return "refused: check: " + er.Error(), nil
	}
	s.received[hash] = true
	delete(s.toGet, hash)

	// HandleNetBlock
	if s.parentDiscarded(ent.node) {
		return "refused: accept: parent discarded", nil
	}
	if !e.Ch.HasAllParents(ent.node) {
		s.cached = append(s.cached, ent)
		return "cached", nil
	}
	res = e.localAccept(ent)
	// retry_cached_blocks, until it reports that nothing more can be done
	for {
		r, ok := e.retryCached()
		if r != nil {
			drained = append(drained, *r)
		}
		if !ok {
			break
		}
	}
	return
}

func (s *hfState) parentDiscarded(n *chain.BlockTreeNode) bool {
	if s.discarded[n.Parent.BlockHash.Hash] {
		s.discarded[n.BlockHash.Hash] = true
		return true
	}
	return false
}

func (s *hfState) discard(n *chain.BlockTreeNode) {
	if s.lch == n {
		s.lch = n.Parent
	}
	for _, c := range n.Childs {
		s.discard(c)
	}
	s.discarded[n.BlockHash.Hash] = true
	delete(s.received, n.BlockHash.Hash)
	for i, c := range s.cached {
		if c.node == n {
			s.cached = append(s.cached[:i:i], s.cached[i+1:]...)
			break
		}
	}
}

func (e *Env) localAccept(ent *hfEntry) string {
	s := e.hf
	bl := ent.bl
	e.Ch.Unspent.AbortWriting()
	e.Ch.Blocks.BlockAdd(ent.node.Height, bl)
	bl.LastKnownHeight = s.lch.Height
	if err := e.Ch.CommitBlock(bl, ent.node); err != nil {
		s.discard(ent.node)
		if last := e.Ch.LastBlock(); last.Height > s.lch.Height {
			s.lch, _ = last.FindFarthestNode()
		}
		return "refused: accept: " + err.Error()
	}
	if bl.Height > s.highestAcc {
		s.highestAcc = bl.Height
	}
	return "ok"
}

// retryCached handles at most one cached block (lowest height first, the latest arrival of a
// height first), like one call of retry_cached_blocks; ok tells whether to call again.
func (e *Env) retryCached() (d *Drain, ok bool) {
	s := e.hf
	if len(s.cached) == 0 {
		return nil, false
	}
	order := make([]*hfEntry, len(s.cached))
	copy(order, s.cached)
	idx := map[*hfEntry]int{}
	for i, c := range s.cached {
		idx[c] = i
	}
	sort.SliceStable(order, func(i, j int) bool {
		if order[i].node.Height != order[j].node.Height {
			return order[i].node.Height < order[j].node.Height
		}
		return idx[order[i]] > idx[order[j]]
	})
	for _, c := range order {
		if int(c.node.Height)-int(s.highestAcc) > 1 {
			return nil, false
		}
		if s.parentDiscarded(c.node) {
			s.drop(c)
			return &Drain{Hash: c.node.BlockHash.Hash, Result: "refused: accept: parent discarded"}, len(s.cached) > 0
		}
		if !e.Ch.HasAllParents(c.node) {
			continue
		}
		r := e.localAccept(c)
		s.drop(c)
		return &Drain{Hash: c.node.BlockHash.Hash, Result: r}, len(s.cached) > 0
	}
	return nil, false
}

func (s *hfState) drop(c *hfEntry) {
	for i, x := range s.cached {
		if x == c {
			s.cached = append(s.cached[:i:i], s.cached[i+1:]...)
			return
		}
	}
}

// Cached reports how many delivered blocks are held back.
func (e *Env) Cached() int {
	if e.hf == nil {
		return 0
	}
	return len(e.hf.cached)
}

// ---------- wallet notifications ----------

// Shadow installs the callbacks the client's wallet installs (UnspentDB.CB.NotifyTxAdd /
// NotifyTxDel) and keeps a copy of the unspent set that is maintained from the notifications
// alone, starting from the set as it is now. With the callbacks installed UndoBlockTxs and del
// take their notifying paths.
func (e *Env) Shadow() {
	sh := e.UTXO()
	e.shadow = sh
	var mu sync.Mutex // commit() notifies from several goroutines; the wallet serialises them the same way
	e.Ch.Unspent.CB.NotifyTxAdd = func(rec *utxo.UtxoRec) {
		mu.Lock()
		defer mu.Unlock()
		for i, o := range rec.Outs {
			if o != nil {
				sh[refchain.Outpoint{Tx: rec.TxID, Vout: uint32(i)}] = refchain.Coin{
					Value: o.Value, Script: append([]byte{}, o.PKScr...), Height: rec.InBlock, Coinbase: rec.Coinbase}
			}
		}
	}
	e.Ch.Unspent.CB.NotifyTxDel = func(rec *utxo.UtxoRec, outs []bool) {
		mu.Lock()
		defer mu.Unlock()
		for i, rm := range outs {
			if rm && i < len(rec.Outs) && rec.Outs[i] != nil {
				delete(sh, refchain.Outpoint{Tx: rec.TxID, Vout: uint32(i)})
			}
		}
	}
}

// ShadowUTXO is the set kept from the notifications (nil when Shadow was not called).
func (e *Env) ShadowUTXO() refchain.UTXO { return e.shadow }

// CatchUp mirrors what the client does after opening with DoNotRescan: blocks found in the store
// beyond the unspent set's tip are queued towards the heaviest leaf (client/main.go do_the_blocks)
// and each goes through HandleNetBlock like a block from the network.
func (e *Env) CatchUp() (done []Drain) {
	s := e.hfs()
	end, _ := e.Ch.BlockTreeRoot.FindFarthestNode()
	if end.Height <= e.Ch.LastBlock().Height {
		return nil
	}
	last := e.Ch.LastBlock()
	if last != end {
		last = last.FindFirstFather(end)
	}
	for last != end {
		nxt := last.FindPathTo(end)
		if nxt == nil || nxt.BlockSize == 0 {
			break
		}
		crec, trusted, _ := e.Ch.Blocks.BlockGetInternal(nxt.BlockHash, true)
		if crec == nil || crec.Data == nil {
			panic("No data for block #" + nxt.BlockHash.String())
		}
		bl, er := btc.NewBlock(crec.Data)
		if er != nil {
			break
		}
		bl.Height = nxt.Height
		e.Ch.ApplyBlockFlags(bl)
		if er = bl.BuildTxList(); er != nil {
			break
		}
		bl.Trusted.Store(trusted)
		s.received[nxt.BlockHash.Hash] = true
		ent := &hfEntry{bl: bl, node: nxt}
		switch {
		case s.parentDiscarded(nxt):
			done = append(done, Drain{nxt.BlockHash.Hash, "refused: accept: parent discarded"})
		case !e.Ch.HasAllParents(nxt):
			s.cached = append(s.cached, ent)
			done = append(done, Drain{nxt.BlockHash.Hash, "cached"})
		default:
			done = append(done, Drain{nxt.BlockHash.Hash, e.localAccept(ent)})
			for {
				r, ok := e.retryCached()
				if r != nil {
					done = append(done, *r)
				}
				if !ok {
					break
				}
			}
		}
		last = nxt
	}
	return
}
