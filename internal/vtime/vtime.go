// Package vtime is a drop-in subset of package time whose clock the harness owns.
// It is injected into selected gocoin files by a build overlay (import rewrite
// "time" -> time ".../lib/others/vshim/vtime").
package vtime

import (
	"sync/atomic"
	"time"
)

type (
	Time     = time.Time
	Duration = time.Duration
	Month    = time.Month
)

const (
	Nanosecond  = time.Nanosecond
	Microsecond = time.Microsecond
	Millisecond = time.Millisecond
	Second      = time.Second
	Minute      = time.Minute
	Hour        = time.Hour
)

var fixed int64

// SetNow fixes the clock (unix seconds); 0 returns to the real clock.
func SetNow(unix int64) { atomic.StoreInt64(&fixed, unix) }

func Now() time.Time {
	if f := atomic.LoadInt64(&fixed); f != 0 {
		return time.Unix(f, 0)
	}
	return time.Now()
}

func Since(t time.Time) time.Duration        { return Now().Sub(t) }
func Unix(s, ns int64) time.Time             { return time.Unix(s, ns) }
func Sleep(d time.Duration)                  { time.Sleep(d) }
func After(d time.Duration) <-chan time.Time { return time.After(d) }
