// Package vos is a drop-in shim for the subset of package os used by gocoin's
// lib/others/qdb, lib/chain and lib/utxo. Every call performs the REAL operation
// and, when it succeeded and mutated the file system, appends an Effect to every
// active recorder (the process-global log and the per-directory recorders).
//
// It is injected with `go build -overlay` (see /verif/internal/crashfs/mkoverlay.py):
// the importing gocoin files get `import os "github.com/piotrnar/gocoin/lib/others/vshim/vos"`
// and this file is mapped to that (virtual) package directory. The harness imports
// the same path to reach the log. The file must stay self-contained (std library only).
//
// Effect vocabulary (crash semantics: the OS keeps every completed system call):
//
//	mkdir      Path                     (Mkdir; one level)
//	mkdirall   Path                     (MkdirAll)
//	create     Path                     file did not exist and was created (empty)
//	truncate   Path, Size               O_TRUNC on an existing file, File.Truncate, Truncate
//	write      Path, Off, Data          bytes Data landed at offset Off (grows the file if needed)
//	rename     Path -> To
//	remove     Path                     (Remove of a file or empty directory)
//	removeall  Path
//	sync       Path                     File.Sync returned (no effect on the directory state)
//	marker     Note                     added by the workload driver (Marker), no effect
package vos

import (
	"encoding/json"
	"errors"
	"fmt"
	"io"
	"io/fs"
	"os"
	"path/filepath"
	"strings"
	"sync"
	"time"
)

// ---------------------------------------------------------------------------
// effect log

type Effect struct {
	Seq  int    `json:"seq"`            // position in the process-global order
	Op   string `json:"op"`             // see package comment
	Path string `json:"path,omitempty"` // cleaned path as given by the caller
	To   string `json:"to,omitempty"`   // rename target
	Off  int64  `json:"off,omitempty"`  // write offset
	Size int64  `json:"size,omitempty"` // truncate size
	Data []byte `json:"data,omitempty"` // written bytes (base64 in JSON)
	Note string `json:"note,omitempty"` // marker text
}

func (e Effect) String() string {
	switch e.Op {
	case "write":
		return fmt.Sprintf("write %s @%d +%d", e.Path, e.Off, len(e.Data))
	case "rename":
		return fmt.Sprintf("rename %s -> %s", e.Path, e.To)
	case "truncate":
		return fmt.Sprintf("truncate %s %d", e.Path, e.Size)
	case "marker":
		return "marker " + e.Note
	}
	return e.Op + " " + e.Path
}

// Recorder collects the effects whose path lies under Root ("" = everything).
type Recorder struct {
	Root    string
	mu      sync.Mutex
	effects []Effect
	active  bool
}

var (
	mu        sync.Mutex // orders effects globally; held while the real operation + logging happen
	seq       int
	global    = &Recorder{}
	recorders []*Recorder

	// Hook, when non-nil, is called BEFORE each mutating operation is performed, with
	// the effect it is about to have (a scheduling point for Engine B; a place to
	// kill the process for end-to-end crash tests). Not called for markers.
	// It runs without any vos lock held.
	Hook func(e *Effect)

	// ExitHook, when non-nil, is called by Exit before the process exits.
	ExitHook func(code int)
)

// Enable switches the process-global log on or off (default off: long explorations
// that only need per-directory recorders would otherwise accumulate memory).
func Enable(on bool) { mu.Lock(); global.active = on; mu.Unlock() }

// Reset empties the process-global log.
func Reset() { global.mu.Lock(); global.effects = nil; global.mu.Unlock() }

// Log returns a copy of the process-global log.
func Log() []Effect { return global.Effects() }

// LogJSON serialises the process-global log.
func LogJSON() []byte { b, _ := json.Marshal(Log()); return b }

// Marker appends a marker record to the process-global log and to every active
// recorder (use Recorder.Marker for one recorder only).
func Marker(note string) {
	mu.Lock()
	defer mu.Unlock()
	seq++
	e := Effect{Seq: seq, Op: "marker", Note: note}
	if global.active {
		global.add(e)
	}
	for _, r := range recorders {
		r.add(e)
	}
}

// Record starts a recorder for all effects on paths under root (cleaned prefix match
// on path components). Several recorders may be active at once (parallel instances
// in separate directories).
func Record(root string) *Recorder {
	r := &Recorder{Root: filepath.Clean(root), active: true}
	mu.Lock()
	recorders = append(recorders, r)
	mu.Unlock()
	return r
}

// Stop detaches the recorder; its effects stay readable.
func (r *Recorder) Stop() {
	mu.Lock()
	for i, x := range recorders {
		if x == r {
			recorders = append(recorders[:i:i], recorders[i+1:]...)
			break
		}
	}
	r.active = false
	mu.Unlock()
}

// Marker appends a marker to this recorder only.
func (r *Recorder) Marker(note string) {
	mu.Lock()
	seq++
	r.add(Effect{Seq: seq, Op: "marker", Note: note})
	mu.Unlock()
}

// Effects returns a copy of what was recorded so far.
func (r *Recorder) Effects() []Effect {
	r.mu.Lock()
	defer r.mu.Unlock()
	return append([]Effect(nil), r.effects...)
}

// Len is the number of effects recorded so far.
func (r *Recorder) Len() int { r.mu.Lock(); defer r.mu.Unlock(); return len(r.effects) }

// Reset empties the recorder.
func (r *Recorder) Reset() { r.mu.Lock(); r.effects = nil; r.mu.Unlock() }

// JSON serialises the recorder's log.
func (r *Recorder) JSON() []byte { b, _ := json.Marshal(r.Effects()); return b }

func (r *Recorder) add(e Effect) {
	r.mu.Lock()
	r.effects = append(r.effects, e)
	r.mu.Unlock()
}

func under(root, p string) bool {
	if root == "" || root == "." {
		return true
	}
	if p == root {
		return true
	}
	return strings.HasPrefix(p, root+string(os.PathSeparator))
}

func wanted(p string) bool {
	if global.active {
		return true
	}
	for _, r := range recorders {
		if under(r.Root, p) {
			return true
		}
	}
	return false
}

// do runs one mutating operation: hook, real operation, logging, in the global order.
// mk builds the effect AFTER the operation (nil = nothing happened).
func do(pre *Effect, op func() *Effect) {
	if h := Hook; h != nil && pre != nil {
		h(pre)
	}
	mu.Lock()
	defer mu.Unlock()
	e := op()
	if e == nil {
		return
	}
	if !wanted(e.Path) && !(e.To != "" && wanted(e.To)) {
		return
	}
	seq++
	e.Seq = seq
	if global.active {
		global.add(*e)
	}
	for _, r := range recorders {
		if under(r.Root, e.Path) || (e.To != "" && under(r.Root, e.To)) {
			r.add(*e)
		}
	}
}

func clean(p string) string { return filepath.Clean(p) }

// ---------------------------------------------------------------------------
// pass-through names

type (
	FileInfo     = os.FileInfo
	FileMode     = os.FileMode
	DirEntry     = os.DirEntry
	PathError    = os.PathError
	LinkError    = os.LinkError
	Signal       = os.Signal
	Process      = os.Process
	ProcAttr     = os.ProcAttr
	SyscallError = os.SyscallError
)

const (
	O_RDONLY = os.O_RDONLY
	O_WRONLY = os.O_WRONLY
	O_RDWR   = os.O_RDWR
	O_APPEND = os.O_APPEND
	O_CREATE = os.O_CREATE
	O_EXCL   = os.O_EXCL
	O_SYNC   = os.O_SYNC
	O_TRUNC  = os.O_TRUNC

	SEEK_SET = 0
	SEEK_CUR = 1
	SEEK_END = 2

	PathSeparator     = os.PathSeparator
	PathListSeparator = os.PathListSeparator
	DevNull           = os.DevNull

	ModeDir        = os.ModeDir
	ModeAppend     = os.ModeAppend
	ModeExclusive  = os.ModeExclusive
	ModeTemporary  = os.ModeTemporary
	ModeSymlink    = os.ModeSymlink
	ModeDevice     = os.ModeDevice
	ModeNamedPipe  = os.ModeNamedPipe
	ModeSocket     = os.ModeSocket
	ModeSetuid     = os.ModeSetuid
	ModeSetgid     = os.ModeSetgid
	ModeCharDevice = os.ModeCharDevice
	ModeSticky     = os.ModeSticky
	ModeIrregular  = os.ModeIrregular
	ModeType       = os.ModeType
	ModePerm       = os.ModePerm
)

var (
	// the standard streams stay real *os.File values (fmt.Fprint(os.Stderr, …) works)
	Stdin  = os.Stdin
	Stdout = os.Stdout
	Stderr = os.Stderr
	Args   = os.Args

	ErrInvalid          = os.ErrInvalid
	ErrPermission       = os.ErrPermission
	ErrExist            = os.ErrExist
	ErrNotExist         = os.ErrNotExist
	ErrClosed           = os.ErrClosed
	ErrNoDeadline       = os.ErrNoDeadline
	ErrDeadlineExceeded = os.ErrDeadlineExceeded
	ErrProcessDone      = os.ErrProcessDone

	Interrupt = os.Interrupt
	Kill      = os.Kill
)

func IsNotExist(err error) bool    { return os.IsNotExist(err) }
func IsExist(err error) bool       { return os.IsExist(err) }
func IsPermission(err error) bool  { return os.IsPermission(err) }
func IsTimeout(err error) bool     { return os.IsTimeout(err) }
func IsPathSeparator(c uint8) bool { return os.IsPathSeparator(c) }

func Getenv(k string) string                    { return os.Getenv(k) }
func LookupEnv(k string) (string, bool)         { return os.LookupEnv(k) }
func Setenv(k, v string) error                  { return os.Setenv(k, v) }
func Unsetenv(k string) error                   { return os.Unsetenv(k) }
func Environ() []string                         { return os.Environ() }
func ExpandEnv(s string) string                 { return os.ExpandEnv(s) }
func Getpid() int                               { return os.Getpid() }
func Getppid() int                              { return os.Getppid() }
func Getuid() int                               { return os.Getuid() }
func Getwd() (string, error)                    { return os.Getwd() }
func Chdir(d string) error                      { return os.Chdir(d) }
func Hostname() (string, error)                 { return os.Hostname() }
func Executable() (string, error)               { return os.Executable() }
func TempDir() string                           { return os.TempDir() }
func UserHomeDir() (string, error)              { return os.UserHomeDir() }
func UserCacheDir() (string, error)             { return os.UserCacheDir() }
func Getpagesize() int                          { return os.Getpagesize() }
func Stat(name string) (FileInfo, error)        { return os.Stat(name) }
func Lstat(name string) (FileInfo, error)       { return os.Lstat(name) }
func ReadFile(name string) ([]byte, error)      { return os.ReadFile(name) }
func ReadDir(name string) ([]DirEntry, error)   { return os.ReadDir(name) }
func Readlink(name string) (string, error)      { return os.Readlink(name) }
func SameFile(a, b FileInfo) bool               { return os.SameFile(a, b) }
func DirFS(dir string) fs.FS                    { return os.DirFS(dir) }
func FindProcess(pid int) (*Process, error)     { return os.FindProcess(pid) }
func NewSyscallError(s string, e error) error   { return os.NewSyscallError(s, e) }
func Chmod(name string, m FileMode) error       { return os.Chmod(name, m) }
func Chtimes(name string, a, m time.Time) error { return os.Chtimes(name, a, m) }

// Exit announces itself on the real stderr ("VOS-EXIT code=N", so that a parent
// process can tell a deliberate os.Exit of the code under test from any other
// death), calls ExitHook and exits.
func Exit(code int) {
	fmt.Fprintf(os.Stderr, "\nVOS-EXIT code=%d\n", code)
	if h := ExitHook; h != nil {
		h(code)
	}
	os.Exit(code)
}

// ---------------------------------------------------------------------------
// directory-level operations

func Mkdir(name string, perm FileMode) (err error) {
	p := clean(name)
	do(&Effect{Op: "mkdir", Path: p}, func() *Effect {
		if err = os.Mkdir(name, perm); err != nil {
			return nil
		}
		return &Effect{Op: "mkdir", Path: p}
	})
	return
}

func MkdirAll(name string, perm FileMode) (err error) {
	p := clean(name)
	if st, e := os.Stat(name); e == nil && st.IsDir() {
		return nil // nothing changes
	}
	do(&Effect{Op: "mkdirall", Path: p}, func() *Effect {
		if err = os.MkdirAll(name, perm); err != nil {
			return nil
		}
		return &Effect{Op: "mkdirall", Path: p}
	})
	return
}

func Remove(name string) (err error) {
	p := clean(name)
	if _, e := os.Lstat(name); e != nil {
		return os.Remove(name) // fails, nothing changes (no hook: not an effect)
	}
	do(&Effect{Op: "remove", Path: p}, func() *Effect {
		if err = os.Remove(name); err != nil {
			return nil
		}
		removed(p)
		return &Effect{Op: "remove", Path: p}
	})
	return
}

func RemoveAll(name string) (err error) {
	p := clean(name)
	if _, e := os.Lstat(name); e != nil {
		return os.RemoveAll(name)
	}
	do(&Effect{Op: "removeall", Path: p}, func() *Effect {
		if err = os.RemoveAll(name); err != nil {
			return nil
		}
		removed(p)
		return &Effect{Op: "removeall", Path: p}
	})
	return
}

func Rename(oldpath, newpath string) (err error) {
	p, t := clean(oldpath), clean(newpath)
	if _, e := os.Lstat(oldpath); e != nil {
		return os.Rename(oldpath, newpath)
	}
	do(&Effect{Op: "rename", Path: p, To: t}, func() *Effect {
		if err = os.Rename(oldpath, newpath); err != nil {
			return nil
		}
		removed(t) // a replaced target stays reachable only through already open handles
		renamed(p, t)
		return &Effect{Op: "rename", Path: p, To: t}
	})
	return
}

func Truncate(name string, size int64) (err error) {
	p := clean(name)
	do(&Effect{Op: "truncate", Path: p, Size: size}, func() *Effect {
		if err = os.Truncate(name, size); err != nil {
			return nil
		}
		return &Effect{Op: "truncate", Path: p, Size: size}
	})
	return
}

func WriteFile(name string, data []byte, perm FileMode) error {
	f, err := OpenFile(name, O_WRONLY|O_CREATE|O_TRUNC, perm)
	if err != nil {
		return err
	}
	_, err = f.Write(data)
	if err1 := f.Close(); err1 != nil && err == nil {
		err = err1
	}
	return err
}

// ---------------------------------------------------------------------------
// files

// File wraps *os.File. The embedded value gives every method of *os.File (Fd,
// Readdir, SetDeadline, …); everything that mutates the file is overridden.
type File struct {
	*os.File
	path     string
	app      bool // opened with O_APPEND
	unlinked bool // the name was removed while the file was open: writes have no directory effect
}

// open files, so that Rename/Remove of a path that is still open keeps later writes
// through the old handle attributed to the right name (guarded by mu)
var openFiles = map[*File]struct{}{}

func register(f *File) *File {
	openFiles[f] = struct{}{}
	return f
}

func registerLocked(f *File) *File {
	mu.Lock()
	openFiles[f] = struct{}{}
	mu.Unlock()
	return f
}

func renamed(from, to string) {
	for f := range openFiles {
		if f.path == from {
			f.path = to
		} else if strings.HasPrefix(f.path, from+string(os.PathSeparator)) {
			f.path = to + f.path[len(from):]
		}
	}
}

func removed(p string) {
	for f := range openFiles {
		if f.path == p || strings.HasPrefix(f.path, p+string(os.PathSeparator)) {
			f.unlinked = true
		}
	}
}

func Open(name string) (*File, error) { return OpenFile(name, O_RDONLY, 0) }

func Create(name string) (*File, error) {
	return OpenFile(name, O_RDWR|O_CREATE|O_TRUNC, 0666)
}

func NewFile(fd uintptr, name string) *File {
	f := os.NewFile(fd, name)
	if f == nil {
		return nil
	}
	return registerLocked(&File{File: f, path: clean(name)})
}

func CreateTemp(dir, pattern string) (f *File, err error) {
	do(nil, func() *Effect {
		var of *os.File
		if of, err = os.CreateTemp(dir, pattern); err != nil {
			return nil
		}
		f = register(&File{File: of, path: clean(of.Name())})
		return &Effect{Op: "create", Path: f.path}
	})
	return
}

func OpenFile(name string, flag int, perm FileMode) (f *File, err error) {
	p := clean(name)
	mutating := flag&(O_CREATE|O_TRUNC) != 0
	if !mutating {
		of, e := os.OpenFile(name, flag, perm)
		if e != nil {
			return nil, e
		}
		return registerLocked(&File{File: of, path: p, app: flag&O_APPEND != 0}), nil
	}
	// What will happen? (single-writer assumption: nobody else creates the file
	// between this Lstat and the open)
	st, e := os.Lstat(name)
	exists := e == nil
	var pre *Effect
	switch {
	case !exists && flag&O_CREATE != 0:
		pre = &Effect{Op: "create", Path: p}
	case exists && flag&O_TRUNC != 0 && st.Mode().IsRegular() && st.Size() > 0:
		pre = &Effect{Op: "truncate", Path: p, Size: 0}
	}
	open := func() *Effect {
		of, e := os.OpenFile(name, flag, perm)
		if e != nil {
			err = e
			return nil
		}
		f = &File{File: of, path: p, app: flag&O_APPEND != 0}
		return pre
	}
	if pre == nil {
		open()
		if f != nil {
			registerLocked(f)
		}
		return
	}
	do(pre, func() *Effect {
		if open(); f == nil {
			return nil
		}
		register(f)
		cp := *pre
		return &cp
	})
	return
}

// Path is the cleaned name the file was opened with.
func (f *File) Path() string { return f.path }

func (f *File) Name() string {
	if f == nil {
		panic("vos: Name on nil *File") // same as os: nil dereference
	}
	return f.File.Name()
}

func (f *File) Read(b []byte) (int, error) {
	if f == nil {
		return 0, ErrInvalid
	}
	return f.File.Read(b)
}

func (f *File) ReadAt(b []byte, off int64) (int, error) {
	if f == nil {
		return 0, ErrInvalid
	}
	return f.File.ReadAt(b, off)
}

func (f *File) Seek(off int64, whence int) (int64, error) {
	if f == nil {
		return 0, ErrInvalid
	}
	return f.File.Seek(off, whence)
}

func (f *File) Stat() (FileInfo, error) {
	if f == nil {
		return nil, ErrInvalid
	}
	return f.File.Stat()
}

func (f *File) Close() error {
	if f == nil {
		return ErrInvalid
	}
	mu.Lock()
	delete(openFiles, f)
	mu.Unlock()
	return f.File.Close()
}

// offset returns where the next Write lands: the kernel's file position, or the
// end of the file for O_APPEND.
func (f *File) offset() (int64, error) {
	if f.app {
		st, err := f.File.Stat()
		if err != nil {
			return 0, err
		}
		return st.Size(), nil
	}
	return f.File.Seek(0, io.SeekCurrent)
}

func (f *File) Write(b []byte) (n int, err error) {
	if f == nil {
		return 0, ErrInvalid
	}
	if len(b) == 0 {
		return f.File.Write(b)
	}
	off, e := f.offset()
	if e != nil {
		// not seekable (pipe, closed file): plain pass-through, nothing to record
		return f.File.Write(b)
	}
	data := append([]byte(nil), b...)
	do(&Effect{Op: "write", Path: f.path, Off: off, Data: data}, func() *Effect {
		n, err = f.File.Write(b)
		if n <= 0 || f.unlinked {
			return nil
		}
		return &Effect{Op: "write", Path: f.path, Off: off, Data: data[:n]}
	})
	return
}

func (f *File) WriteString(s string) (int, error) { return f.Write([]byte(s)) }

func (f *File) WriteAt(b []byte, off int64) (n int, err error) {
	if f == nil {
		return 0, ErrInvalid
	}
	if len(b) == 0 {
		return f.File.WriteAt(b, off)
	}
	data := append([]byte(nil), b...)
	do(&Effect{Op: "write", Path: f.path, Off: off, Data: data}, func() *Effect {
		n, err = f.File.WriteAt(b, off)
		if n <= 0 || f.unlinked {
			return nil
		}
		return &Effect{Op: "write", Path: f.path, Off: off, Data: data[:n]}
	})
	return
}

// ReadFrom must not fall through to (*os.File).ReadFrom (copy_file_range/splice
// would bypass Write): plain copy loop through Write.
func (f *File) ReadFrom(r io.Reader) (n int64, err error) {
	if f == nil {
		return 0, ErrInvalid
	}
	buf := make([]byte, 256*1024)
	for {
		k, er := r.Read(buf)
		if k > 0 {
			w, ew := f.Write(buf[:k])
			n += int64(w)
			if ew != nil {
				return n, ew
			}
			if w != k {
				return n, io.ErrShortWrite
			}
		}
		if er != nil {
			if errors.Is(er, io.EOF) {
				return n, nil
			}
			return n, er
		}
	}
}

// WriteTo only reads from f; route it through Read so that a *File destination
// is written with its own Write.
func (f *File) WriteTo(w io.Writer) (n int64, err error) {
	if f == nil {
		return 0, ErrInvalid
	}
	buf := make([]byte, 256*1024)
	for {
		k, er := f.File.Read(buf)
		if k > 0 {
			m, ew := w.Write(buf[:k])
			n += int64(m)
			if ew != nil {
				return n, ew
			}
			if m != k {
				return n, io.ErrShortWrite
			}
		}
		if er != nil {
			if errors.Is(er, io.EOF) {
				return n, nil
			}
			return n, er
		}
	}
}

func (f *File) Truncate(size int64) (err error) {
	if f == nil {
		return ErrInvalid
	}
	do(&Effect{Op: "truncate", Path: f.path, Size: size}, func() *Effect {
		if err = f.File.Truncate(size); err != nil || f.unlinked {
			return nil
		}
		return &Effect{Op: "truncate", Path: f.path, Size: size}
	})
	return
}

func (f *File) Sync() (err error) {
	if f == nil {
		return ErrInvalid
	}
	do(&Effect{Op: "sync", Path: f.path}, func() *Effect {
		if err = f.File.Sync(); err != nil {
			return nil
		}
		return &Effect{Op: "sync", Path: f.path}
	})
	return
}
