// Package explore is the stateless, deviation-bounded depth-first explorer over the
// decisions of vsched (thread choice at every scheduling point, select arm, map
// iteration order). An execution is identified by its choice sequence; the default
// choice is 0 everywhere (keep running the current thread, first ready arm, sorted
// map order); every non-default choice costs one deviation.
package explore

import (
	"fmt"
	"strings"

	"github.com/piotrnar/gocoin/lib/others/vshim/vsched"
)

// Exec is the record of one execution.
type Exec struct {
	Choices  []int
	Points   []vsched.Point
	Deadlock string
	Panic    string
	Horizon  bool
	Obs      string // canonical observation of the scenario
	Err      string // violation found by the scenario's own oracle ("" = none)
}

func (x *Exec) Deviations() int {
	n := 0
	for _, c := range x.Choices {
		if c != 0 {
			n++
		}
	}
	return n
}

// Schedule renders the non-default decisions.
func (x *Exec) Schedule() []string {
	var l []string
	for i, p := range x.Points {
		if p.Chosen != 0 {
			l = append(l, fmt.Sprintf("#%d %s %d/%d %s", i, p.Kind, p.Chosen, len(p.Enabled), p.Desc))
		}
	}
	return l
}

// Scenario runs one execution: it must build a fresh instance, call
// vsched.Run(body, choose, horizon) exactly once and return the scheduler plus the
// observation / oracle verdict.
type Scenario func(choose vsched.Chooser) (s *vsched.Sched, obs string, err string)

type Stats struct {
	Executions  int
	PerBound    map[int]int
	MaxPoints   int
	Outcomes    map[string]int
	Deadlocks   int
	HorizonHits int
	BoundDone   int
	Capped      bool
}

type Explorer struct {
	Run      Scenario
	Bound    int
	OnExec   func(*Exec) bool // return false to stop
	MaxExecs int
	St       Stats
	stop     bool
}

type ReplayDivergence struct{ Msg string }

// One runs a single execution following prefix, then default choices.
func One(run Scenario, prefix []int) *Exec {
	x := &Exec{}
	i := 0
	var diverged string
	choose := func(kind string, n int, desc string) int {
		c := 0
		if i < len(prefix) {
			c = prefix[i]
			if c >= n {
				diverged = fmt.Sprintf("decision %d (%s %s) has %d options, recorded choice %d", i, kind, desc, n, c)
				c = 0
			}
		}
		i++
		x.Choices = append(x.Choices, c)
		return c
	}
	s, obs, err := run(choose)
	if diverged != "" {
		panic(ReplayDivergence{diverged})
	}
	x.Points = s.Points
	x.Deadlock = s.Deadlock
	x.Panic = s.Panic
	x.Horizon = s.HorizonHit()
	x.Obs = obs
	x.Err = err
	if len(x.Choices) < len(prefix) {
		panic(ReplayDivergence{fmt.Sprintf("execution ended after %d decisions, prefix has %d", len(x.Choices), len(prefix))})
	}
	return x
}

// Explore enumerates every execution with at most Bound deviations below prefix.
func (e *Explorer) Explore(prefix []int) {
	if e.St.PerBound == nil {
		e.St.PerBound = map[int]int{}
		e.St.Outcomes = map[string]int{}
	}
	e.explore(prefix)
}

func devs(c []int) int {
	n := 0
	for _, v := range c {
		if v != 0 {
			n++
		}
	}
	return n
}

func (e *Explorer) explore(prefix []int) {
	if e.stop {
		return
	}
	if e.MaxExecs > 0 && e.St.Executions >= e.MaxExecs {
		e.St.Capped = true
		e.stop = true
		return
	}
	x := One(e.Run, prefix)
	e.St.Executions++
	e.St.PerBound[x.Deviations()]++
	if len(x.Points) > e.St.MaxPoints {
		e.St.MaxPoints = len(x.Points)
	}
	if x.Deadlock != "" && !x.Horizon {
		e.St.Deadlocks++
	}
	if x.Horizon {
		e.St.HorizonHits++
	}
	e.St.Outcomes[x.Obs]++
	if e.OnExec != nil && !e.OnExec(x) {
		e.stop = true
		return
	}
	base := devs(prefix)
	if base >= e.Bound {
		return
	}
	for i := len(prefix); i < len(x.Points); i++ {
		p := x.Points[i]
		for alt := 1; alt < len(p.Enabled); alt++ {
			np := append(append([]int{}, x.Choices[:i]...), alt)
			e.explore(np)
			if e.stop {
				return
			}
		}
	}
}

// TopLevel returns the single-deviation prefixes of the default execution (for
// sharding the search over worker processes) and the default execution itself.
func TopLevel(run Scenario) (*Exec, [][]int) {
	x := One(run, nil)
	var l [][]int
	for i, p := range x.Points {
		for alt := 1; alt < len(p.Enabled); alt++ {
			l = append(l, append(append([]int{}, x.Choices[:i]...), alt))
		}
	}
	return x, l
}

func Short(s string, n int) string {
	s = strings.ReplaceAll(s, "\n", " | ")
	if len(s) > n {
		return s[:n] + "…"
	}
	return s
}
