package explore

// Sharding of one scenario's search over worker processes: the parent enumerates the
// single-deviation prefixes of the default execution and hands each worker a share; a
// worker explores the subtree below every prefix it gets with the full bound.

import (
	"bufio"
	"encoding/json"
	"fmt"
	"os"
	"os/exec"
	"sort"
	"strings"
	"sync"
)

type Viol struct {
	Key      string   `json:"key"`
	What     string   `json:"what"`
	Scenario string   `json:"scenario"`
	Choices  []int    `json:"choices"`
	Schedule []string `json:"schedule"`
}

type ShardResult struct {
	Execs     int            `json:"execs"`
	PerBound  map[int]int    `json:"per_bound"`
	MaxPoints int            `json:"max_points"`
	Outcomes  map[string]int `json:"outcomes"`
	Viol      []Viol         `json:"viol"`
	Horizon   int            `json:"horizon_hits"`
}

func (r *ShardResult) merge(o *ShardResult) {
	r.Execs += o.Execs
	for k, v := range o.PerBound {
		r.PerBound[k] += v
	}
	for k, v := range o.Outcomes {
		r.Outcomes[k] += v
	}
	if o.MaxPoints > r.MaxPoints {
		r.MaxPoints = o.MaxPoints
	}
	r.Horizon += o.Horizon
	r.Viol = append(r.Viol, o.Viol...)
}

// Classifier turns an execution into a violation (nil = fine). def is the default execution.
type Classifier func(x *Exec, def *Exec) *Viol

// WorkerMain: read prefixes (JSON arrays, one per line) from stdin, explore below each,
// print one ShardResult line on out.
func WorkerMain(run Scenario, bound int, cl Classifier, out *os.File) {
	def := One(run, nil)
	res := ShardResult{PerBound: map[int]int{}, Outcomes: map[string]int{}}
	seen := map[string]bool{}
	in := bufio.NewScanner(os.Stdin)
	in.Buffer(make([]byte, 1<<20), 1<<24)
	for in.Scan() {
		var prefix []int
		if json.Unmarshal(in.Bytes(), &prefix) != nil {
			continue
		}
		e := &Explorer{Run: run, Bound: bound}
		e.OnExec = func(x *Exec) bool {
			if v := cl(x, def); v != nil && !seen[v.Key] {
				y := One(run, x.Choices) // a violation must reproduce
				if v2 := cl(y, def); v2 == nil || v2.Key != v.Key {
					v.Key += "/unreproducible"
				}
				seen[v.Key] = true
				v.Choices, v.Schedule = x.Choices, x.Schedule()
				res.Viol = append(res.Viol, *v)
			}
			return true
		}
		e.Explore(prefix)
		res.merge(&ShardResult{Execs: e.St.Executions, PerBound: e.St.PerBound, Outcomes: e.St.Outcomes, MaxPoints: e.St.MaxPoints, Horizon: e.St.HorizonHits})
	}
	b, _ := json.Marshal(res)
	fmt.Fprintln(out, string(b))
}

// Sharded runs the default execution here and the rest in nw worker processes started
// as `self args...` (which must end up in WorkerMain for the same scenario and bound).
func Sharded(run Scenario, bound, nw int, cl Classifier, self string, args []string) (*Exec, *ShardResult, error) {
	def, tops := TopLevel(run)
	def2 := One(run, nil)
	if def.Obs != def2.Obs || len(def.Points) != len(def2.Points) {
		return def, nil, fmt.Errorf("scenario is not deterministic under the scheduler: %q/%d vs %q/%d", def.Obs, len(def.Points), def2.Obs, len(def2.Points))
	}
	res := &ShardResult{Execs: 1, PerBound: map[int]int{0: 1}, Outcomes: map[string]int{def.Obs: 1}, MaxPoints: len(def.Points)}
	if v := cl(def, def); v != nil {
		v.Choices, v.Schedule = def.Choices, def.Schedule()
		res.Viol = append(res.Viol, *v)
	}
	if bound < 1 || len(tops) == 0 {
		return def, res, nil
	}
	shards := make([][][]int, nw)
	for i, t := range tops {
		shards[i%nw] = append(shards[i%nw], t)
	}
	var wg sync.WaitGroup
	var mu sync.Mutex
	var firstErr error
	for w := 0; w < nw; w++ {
		if len(shards[w]) == 0 {
			continue
		}
		wg.Add(1)
		go func(sh [][]int) {
			defer wg.Done()
			cmd := exec.Command(self, args...)
			cmd.Env = append(os.Environ(), "GOMAXPROCS=2")
			var in, werr strings.Builder
			for _, t := range sh {
				b, _ := json.Marshal(t)
				in.Write(b)
				in.WriteByte('\n')
			}
			cmd.Stdin = strings.NewReader(in.String())
			cmd.Stderr = &werr
			out, err := cmd.Output()
			var wr ShardResult
			lines := strings.Split(strings.TrimSpace(string(out)), "\n")
			if err != nil || json.Unmarshal([]byte(lines[len(lines)-1]), &wr) != nil {
				t := werr.String()
				if len(t) > 2500 {
					t = t[len(t)-2500:]
				}
				mu.Lock()
				if firstErr == nil {
					firstErr = fmt.Errorf("worker failed: %v; stderr tail: %s", err, t)
				}
				mu.Unlock()
				return
			}
			mu.Lock()
			res.merge(&wr)
			mu.Unlock()
		}(shards[w])
	}
	wg.Wait()
	sort.Slice(res.Viol, func(i, j int) bool { return len(res.Viol[i].Choices) < len(res.Viol[j].Choices) })
	return def, res, firstErr
}
