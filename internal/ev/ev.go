// Package ev is the verdict / evidence / known-findings protocol shared by all checks.
package ev

import (
	"runtime/pprof"
	"crypto/sha256"
	"encoding/hex"
	"encoding/json"
	"flag"
	"fmt"
	"os"
	"os/exec"
	"path/filepath"
	"sort"
	"strconv"
	"strings"
	"sync"
	"time"
)

const Root = "/verif"

// OutDir is where evidence/ and replays/ are written (VERIF_OUT, default /verif).
func OutDir() string {
	if d := os.Getenv("VERIF_OUT"); d != "" {
		return d
	}
	return Root
}

// Repo is the tree under test (VERIF_REPO, default /repo).
func Repo() string {
	if d := os.Getenv("VERIF_REPO"); d != "" {
		return d
	}
	return "/repo"
}

// Out is the process's real stdout, captured before any harness silences os.Stdout.
var Out = os.Stdout

type finding struct {
	Property string `json:"property"`
	Key      string `json:"key"`
	What     string `json:"what"`
}

type findingsFile struct {
	Findings []finding `json:"findings"`
	Fixed    []string  `json:"fixed"`
}

type Violation struct {
	Key    string
	What   string
	Replay string
}

type Run struct {
	Prop      string
	Tier      string
	Seed      int
	Level     string
	start     time.Time
	mu        sync.Mutex
	known     map[string]string // key -> what
	viol      map[string]*Violation
	knownHit  map[string]bool
	Unrepro   []string
	Budget    time.Duration
	Capped    bool
	SubFailed bool // a sub-check run by this check reported a violation
}

// Start parses --tier (or VERIF_TIER) and VERIF_SEED, loads the known findings.
func Start(prop, level string) *Run {
	tier := flag.String("tier", os.Getenv("VERIF_TIER"), "quick|thorough")
	if !flag.Parsed() {
		flag.Parse()
	}
	if *tier == "" {
		*tier = "quick"
	}
	if *tier != "quick" && *tier != "thorough" {
		fmt.Fprintln(os.Stderr, "bad tier", *tier)
		os.Exit(2)
	}
	seed, _ := strconv.Atoi(os.Getenv("VERIF_SEED"))
	r := &Run{Prop: prop, Tier: *tier, Seed: seed, Level: level, start: time.Now(),
		known: map[string]string{}, viol: map[string]*Violation{}, knownHit: map[string]bool{}}
	b, err := os.ReadFile(filepath.Join(Root, "known_findings.json"))
	if err == nil {
		var ff findingsFile
		if err := json.Unmarshal(b, &ff); err != nil {
			fmt.Fprintln(os.Stderr, "known_findings.json:", err)
			os.Exit(2)
		}
		for _, f := range ff.Findings {
			if f.Property == prop {
				r.known[f.Key] = f.What
			}
		}
	}
	return r
}

func (r *Run) Thorough() bool { return r.Tier == "thorough" }

// Elapsed returns time since start.
func (r *Run) Elapsed() time.Duration { return time.Since(r.start) }

// OverBudget reports whether the tier budget is used up; callers then stop early
// and the run is reported as exhaustive:false.
func (r *Run) OverBudget() bool {
	if r.Budget > 0 && time.Since(r.start) > r.Budget {
		r.mu.Lock()
		r.Capped = true
		r.mu.Unlock()
		return true
	}
	return false
}

// Report records a violation with a stable key. If the key is listed in
// known_findings.json it becomes a KNOWN-FINDING line, otherwise a VIOLATION.
// replay is marshalled to /verif/replays/<prop>/<hash>.json. Only the first
// violation per key is kept.
func (r *Run) Report(key, what string, replay interface{}) {
	r.mu.Lock()
	defer r.mu.Unlock()
	if w, ok := r.known[key]; ok {
		if !r.knownHit[key] {
			r.knownHit[key] = true
			_ = w
		}
		return
	}
	if _, ok := r.viol[key]; ok {
		return
	}
	if len(r.viol) >= 200 {
		return
	}
	h := sha256.Sum256([]byte(key))
	dir := filepath.Join(OutDir(), "replays", r.Prop)
	os.MkdirAll(dir, 0o755)
	p := filepath.Join(dir, hex.EncodeToString(h[:6])+".json")
	b, _ := json.MarshalIndent(map[string]interface{}{"property": r.Prop, "key": key, "what": what, "replay": replay}, "", " ")
	os.WriteFile(p, b, 0o644)
	r.viol[key] = &Violation{Key: key, What: what, Replay: p}
}

func (r *Run) Violations() int {
	r.mu.Lock()
	defer r.mu.Unlock()
	return len(r.viol)
}

// HarnessError aborts with exit 2: an infrastructure problem is never a verdict.
func HarnessError(format string, a ...interface{}) {
	fmt.Fprintf(os.Stderr, "HARNESS-ERROR: "+format+"\n", a...)
	os.Exit(2)
}

// Finish writes the evidence file, prints verdict lines and exits.
func (r *Run) Finish(coverage map[string]interface{}, assumptions []string) {
	if pf := os.Getenv("VERIF_HEAPPROF"); pf != "" {
		if f, err := os.Create(pf); err == nil {
			pprof.Lookup("heap").WriteTo(f, 0)
			f.Close()
		}
	}
	r.mu.Lock()
	defer r.mu.Unlock()
	if _, ok := coverage["exhaustive"]; !ok {
		coverage["exhaustive"] = !r.Capped
	} else if r.Capped {
		coverage["exhaustive"] = false
	}
	if r.Capped {
		coverage["budget_cap_hit"] = true
	}
	var kh []string
	for k := range r.knownHit {
		kh = append(kh, k)
	}
	sort.Strings(kh)
	coverage["known_findings_hit"] = kh
	if len(r.Unrepro) > 0 {
		coverage["unreproducible"] = r.Unrepro
	}
	var vk []string
	for k := range r.viol {
		vk = append(vk, k)
	}
	sort.Strings(vk)
	if len(vk) > 0 {
		coverage["violation_keys"] = vk
	}
	evd := map[string]interface{}{
		"property_id": r.Prop, "tier": r.Tier, "seed": r.Seed, "level": r.Level,
		"coverage": coverage, "assumptions": assumptions,
		"wall_s": float64(int(time.Since(r.start).Seconds()*100)) / 100, "violations": len(vk),
	}
	b, _ := json.MarshalIndent(evd, "", " ")
	os.MkdirAll(filepath.Join(OutDir(), "evidence"), 0o755)
	evName := r.Prop
	if n := os.Getenv("VERIF_EVIDENCE_NAME"); n != "" {
		evName = n // a sub-check whose evidence is merged into the property's file by its parent
	}
	if err := os.WriteFile(filepath.Join(OutDir(), "evidence", evName+".json"), append(b, '\n'), 0o644); err != nil {
		HarnessError("writing evidence: %v", err)
	}
	for _, k := range kh {
		fmt.Fprintf(Out, "KNOWN-FINDING: property=%s %s [%s]\n", r.Prop, strings.ReplaceAll(r.known[k], "\n", " "), k)
	}
	for _, k := range vk {
		v := r.viol[k]
		fmt.Fprintf(Out, "VIOLATION property=%s replay=%s\n", r.Prop, v.Replay)
		fmt.Fprintf(Out, "  key=%s\n  what=%s\n", v.Key, strings.ReplaceAll(v.What, "\n", " | "))
	}
	fmt.Fprintf(Out, "%s %s: done in %.1fs, violations=%d known=%d exhaustive=%v\n", r.Prop, r.Tier, time.Since(r.start).Seconds(), len(vk), len(kh), coverage["exhaustive"])
	if len(vk) > 0 || r.SubFailed {
		os.Exit(1)
	}
	os.Exit(0)
}

// Scratch returns a fresh scratch directory on tmpfs (removed by the caller).
func Scratch(prefix string) string {
	base := os.Getenv("VERIF_SCRATCH")
	if base == "" {
		if st, err := os.Stat("/dev/shm"); err == nil && st.IsDir() {
			base = "/dev/shm"
		} else {
			base = os.TempDir()
		}
	}
	d, err := os.MkdirTemp(base, "verif-"+prefix+"-")
	if err != nil {
		HarnessError("mkdtemp: %v", err)
	}
	return d
}

// Samples keeps the first n distinct samples offered.
type Samples struct {
	mu sync.Mutex
	N  int
	L  []interface{}
}

func (s *Samples) Add(v interface{}) {
	s.mu.Lock()
	if len(s.L) < s.N {
		s.L = append(s.L, v)
	}
	s.mu.Unlock()
}

// CopyDir copies a directory tree (regular files and directories only).
func CopyDir(src, dst string) {
	err := filepath.Walk(src, func(p string, info os.FileInfo, err error) error {
		if err != nil {
			return err
		}
		rel, _ := filepath.Rel(src, p)
		t := filepath.Join(dst, rel)
		if info.IsDir() {
			return os.MkdirAll(t, 0o755)
		}
		b, err := os.ReadFile(p)
		if err != nil {
			return err
		}
		return os.WriteFile(t, b, 0o644)
	})
	if err != nil {
		HarnessError("copydir: %v", err)
	}
}

// RunSub runs another check directory as a part of this one: `run.sh <dir> --tier
// <tier>` with its evidence written to evidence/<Prop>.<part>.json. Its verdict lines
// are relayed; its evidence coverage is returned for embedding. Exit 2 of the sub-check
// is a harness error of this check.
func (r *Run) RunSub(dir, part string) map[string]interface{} {
	name := r.Prop + "." + part
	cmd := exec.Command(filepath.Join(Root, "run.sh"), dir, "--tier", r.Tier)
	cmd.Env = append(os.Environ(), "VERIF_EVIDENCE_NAME="+name)
	out, err := cmd.Output()
	fmt.Fprint(Out, string(out))
	code := 0
	if err != nil {
		if ee, ok := err.(*exec.ExitError); ok {
			code = ee.ExitCode()
		} else {
			HarnessError("sub-check %s: %v", dir, err)
		}
	}
	if code != 0 && code != 1 {
		HarnessError("sub-check %s exited with %d", dir, code)
	}
	if code == 1 {
		r.SubFailed = true
	}
	b, err := os.ReadFile(filepath.Join(OutDir(), "evidence", name+".json"))
	if err != nil {
		HarnessError("sub-check %s wrote no evidence: %v", dir, err)
	}
	var e struct {
		Coverage   map[string]interface{} `json:"coverage"`
		Violations int                    `json:"violations"`
	}
	if json.Unmarshal(b, &e) != nil {
		HarnessError("sub-check %s: bad evidence", dir)
	}
	e.Coverage["violations"] = e.Violations
	return e.Coverage
}
