// Package refsig is the reference for signature-related predicates: public key
// parsing, ECDSA verification (exactly as property C03 states it), Bitcoin Core's
// lax DER parser and the strict BIP66 predicate, low-S, RFC6979 deterministic
// signing (libsecp256k1 flavour), BIP340 sign/verify, BIP341 tweak check.
// It is written from the specification texts on top of refsecp and the standard
// library's SHA-256/HMAC; it imports nothing from the code it judges.
package refsig

import (
	"bytes"
	"crypto/hmac"
	"crypto/sha256"
	"math/big"

	"verif/ref/refsecp"
)

var (
	zero = big.NewInt(0)
	one  = big.NewInt(1)
)

func inRange1N(v *big.Int) bool { return v != nil && v.Sign() > 0 && v.Cmp(refsecp.N) < 0 }

func nMod(a *big.Int) *big.Int { return new(big.Int).Mod(a, refsecp.N) }
func nMul(a, b *big.Int) *big.Int {
	return nMod(new(big.Int).Mul(a, b))
}
func nInv(a *big.Int) *big.Int {
	// a^(n-2) mod n, n prime
	return new(big.Int).Exp(nMod(a), new(big.Int).Sub(refsecp.N, big.NewInt(2)), refsecp.N)
}

// ---------------------------------------------------------------------------
// public keys

// ParsePubkey accepts exactly: 33 bytes 02/03 || x with x < p and x^3+7 a
// square (y chosen by the prefix parity); 65 bytes 04 || x || y with x, y < p
// and the point on the curve; 65 bytes 06/07 || x || y, the same plus the parity
// of y matching the prefix (06 even, 07 odd). This is libsecp256k1's
// secp256k1_ec_pubkey_parse.
func ParsePubkey(b []byte) (refsecp.Point, bool) {
	switch {
	case len(b) == 33 && (b[0] == 2 || b[0] == 3):
		x := refsecp.Int(b[1:33])
		return refsecp.LiftXParity(x, b[0] == 3)
	case len(b) == 65 && (b[0] == 4 || b[0] == 6 || b[0] == 7):
		x := refsecp.Int(b[1:33])
		y := refsecp.Int(b[33:65])
		if x.Cmp(refsecp.P) >= 0 || y.Cmp(refsecp.P) >= 0 {
			return refsecp.Point{}, false
		}
		if b[0] != 4 && (y.Bit(0) == 1) != (b[0] == 7) {
			return refsecp.Point{}, false
		}
		pt := refsecp.Point{X: x, Y: y}
		if !refsecp.OnCurve(pt) {
			return refsecp.Point{}, false
		}
		return pt, true
	}
	return refsecp.Point{}, false
}

// SerializePubkey encodes a finite point (compressed 02/03 or uncompressed 04).
func SerializePubkey(p refsecp.Point, compressed bool) []byte {
	if p.Inf {
		return nil
	}
	if compressed {
		out := make([]byte, 33)
		out[0] = 2 + byte(p.Y.Bit(0))
		copy(out[1:], refsecp.B32(p.X))
		return out
	}
	out := make([]byte, 65)
	out[0] = 4
	copy(out[1:33], refsecp.B32(p.X))
	copy(out[33:], refsecp.B32(p.Y))
	return out
}

// PubkeyFromPriv returns the serialized public key of a secret in [1, n-1],
// nil otherwise.
func PubkeyFromPriv(priv32 []byte, compressed bool) []byte {
	d := refsecp.Int(priv32)
	if len(priv32) != 32 || !inRange1N(d) {
		return nil
	}
	return SerializePubkey(refsecp.MulG(d), compressed)
}

// XOnlyFromPriv returns the BIP340 public key bytes(x(d*G)) and whether d*G has
// odd y. nil for a secret outside [1, n-1].
func XOnlyFromPriv(priv32 []byte) ([]byte, bool) {
	d := refsecp.Int(priv32)
	if len(priv32) != 32 || !inRange1N(d) {
		return nil, false
	}
	p := refsecp.MulG(d)
	return refsecp.B32(p.X), p.Y.Bit(0) == 1
}

// ---------------------------------------------------------------------------
// ECDSA

// ECDSAVerifyPoint: r, s in [1, n-1]; R = (e/s)G + (r/s)Q is finite and
// x(R) mod n = r. e is the 32-byte message as an integer (reduced mod n by the
// arithmetic).
func ECDSAVerifyPoint(q refsecp.Point, r, s *big.Int, msg32 []byte) bool {
	if q.Inf || !inRange1N(r) || !inRange1N(s) {
		return false
	}
	e := nMod(refsecp.Int(msg32))
	si := nInv(s)
	u1 := nMul(e, si)
	u2 := nMul(r, si)
	R := refsecp.Add(refsecp.MulG(u1), refsecp.Mul(u2, q))
	if R.Inf {
		return false
	}
	return nMod(R.X).Cmp(r) == 0
}

// ECDSAVerify is the C03 acceptance predicate on (public key bytes, r, s, msg).
func ECDSAVerify(pub []byte, r, s *big.Int, msg32 []byte) bool {
	q, ok := ParsePubkey(pub)
	if !ok {
		return false
	}
	return ECDSAVerifyPoint(q, r, s, msg32)
}

// ECDSAVerifyLax is what Bitcoin Core's CPubKey::Verify computes for a
// signature byte string WITHOUT the hash-type byte: lax DER parse, then verify
// (S is normalised first, so high S is fine).
func ECDSAVerifyLax(pub, sig, msg32 []byte) bool {
	r, s, ok := ParseDERLax(sig)
	if !ok {
		return false
	}
	return ECDSAVerify(pub, r, s, msg32)
}

// ParseDERLaxRaw follows Bitcoin Core's ecdsa_signature_parse_der_lax
// (pubkey.cpp) step by step and returns the integers as written (leading
// zeroes ignored, no size or range limit applied), ok = the parser's return
// value. Core then replaces (r, s) by (0, 0) when either needs more than 32
// bytes or is >= n; see ParseDERLax.
func ParseDERLaxRaw(in []byte) (r, s *big.Int, ok bool) {
	n := len(in)
	pos := 0
	// sequence tag
	if pos == n || in[pos] != 0x30 {
		return nil, nil, false
	}
	pos++
	// sequence length bytes (value ignored)
	if pos == n {
		return nil, nil, false
	}
	lenbyte := int(in[pos])
	pos++
	if lenbyte&0x80 != 0 {
		lenbyte -= 0x80
		if lenbyte > n-pos {
			return nil, nil, false
		}
		pos += lenbyte
	}
	readInt := func() (start, length int, ok bool) {
		if pos == n || in[pos] != 0x02 {
			return 0, 0, false
		}
		pos++
		if pos == n {
			return 0, 0, false
		}
		lb := int(in[pos])
		pos++
		var l int
		if lb&0x80 != 0 {
			lb -= 0x80
			if lb > n-pos {
				return 0, 0, false
			}
			for lb > 0 && in[pos] == 0 {
				pos++
				lb--
			}
			if lb >= 4 {
				return 0, 0, false
			}
			for lb > 0 {
				l = l<<8 + int(in[pos])
				pos++
				lb--
			}
		} else {
			l = lb
		}
		if l > n-pos {
			return 0, 0, false
		}
		start = pos
		pos += l
		return start, l, true
	}
	rpos, rlen, ok1 := readInt()
	if !ok1 {
		return nil, nil, false
	}
	spos, slen, ok2 := readInt()
	if !ok2 {
		return nil, nil, false
	}
	return refsecp.Int(in[rpos : rpos+rlen]), refsecp.Int(in[spos : spos+slen]), true
}

// ParseDERLax has Core's exact result: when the structure parses but r or s
// overflows (more than 32 significant bytes, or >= n) the signature becomes
// (0, 0), which no verification accepts.
func ParseDERLax(sig []byte) (r, s *big.Int, ok bool) {
	r, s, ok = ParseDERLaxRaw(sig)
	if !ok {
		return nil, nil, false
	}
	if r.Cmp(refsecp.N) >= 0 || s.Cmp(refsecp.N) >= 0 {
		return new(big.Int), new(big.Int), true
	}
	return r, s, true
}

// IsStrictDER is BIP66's IsValidSignatureEncoding (signature INCLUDING the
// trailing hash-type byte).
func IsStrictDER(sig []byte) bool {
	// Format: 0x30 [total-length] 0x02 [R-length] [R] 0x02 [S-length] [S] [sighash]
	if len(sig) < 9 {
		return false
	}
	if len(sig) > 73 {
		return false
	}
	if sig[0] != 0x30 {
		return false
	}
	if int(sig[1]) != len(sig)-3 {
		return false
	}
	lenR := int(sig[3])
	if 5+lenR >= len(sig) {
		return false
	}
	lenS := int(sig[5+lenR])
	if lenR+lenS+7 != len(sig) {
		return false
	}
	if sig[2] != 0x02 {
		return false
	}
	if lenR == 0 {
		return false
	}
	if sig[4]&0x80 != 0 {
		return false
	}
	if lenR > 1 && sig[4] == 0x00 && sig[5]&0x80 == 0 {
		return false
	}
	if sig[lenR+4] != 0x02 {
		return false
	}
	if lenS == 0 {
		return false
	}
	if sig[lenR+6]&0x80 != 0 {
		return false
	}
	if lenS > 1 && sig[lenR+6] == 0x00 && sig[lenR+7]&0x80 == 0 {
		return false
	}
	return true
}

// DecodeStrictDER decodes a signature INCLUDING its trailing hash-type byte that
// satisfies BIP66's IsValidSignatureEncoding; ok is false for any other encoding.
// The integers are read exactly as encoded (BIP66 guarantees they are positive
// and minimally encoded).
func DecodeStrictDER(sigWithHashType []byte) (r, s *big.Int, hashType byte, ok bool) {
	if !IsStrictDER(sigWithHashType) {
		return nil, nil, 0, false
	}
	b := sigWithHashType
	lenR := int(b[3])
	lenS := int(b[5+lenR])
	r = refsecp.Int(b[4 : 4+lenR])
	s = refsecp.Int(b[6+lenR : 6+lenR+lenS])
	return r, s, b[len(b)-1], true
}

// IsLowS: s <= (n-1)/2 (BIP146 LOW_S; Core's CheckLowS via signature_normalize).
func IsLowS(s *big.Int) bool { return s.Sign() >= 0 && s.Cmp(refsecp.HalfN) <= 0 }

func derInt(v *big.Int) []byte {
	b := v.Bytes()
	if len(b) == 0 {
		b = []byte{0}
	}
	if b[0]&0x80 != 0 {
		b = append([]byte{0}, b...)
	}
	return append([]byte{0x02, byte(len(b))}, b...)
}

// SerializeDER returns the canonical DER encoding 30 len 02 lr R 02 ls S of two
// non-negative integers of at most 33 encoded bytes each.
func SerializeDER(r, s *big.Int) []byte {
	body := append(derInt(r), derInt(s)...)
	if len(body) > 127 {
		panic("refsig: SerializeDER: too long for short-form length")
	}
	return append([]byte{0x30, byte(len(body))}, body...)
}

// rfc6979 is the HMAC_DRBG of RFC 6979 section 3.2 steps b-h with SHA-256,
// keyed with arbitrary key material (steps d and f feed "keydata").
type rfc6979 struct {
	v, k  []byte
	retry bool
}

func hm(key []byte, parts ...[]byte) []byte {
	h := hmac.New(sha256.New, key)
	for _, p := range parts {
		h.Write(p)
	}
	return h.Sum(nil)
}

func newRFC6979(keydata []byte) *rfc6979 {
	g := &rfc6979{v: bytes.Repeat([]byte{1}, 32), k: make([]byte, 32)} // b, c
	g.k = hm(g.k, g.v, []byte{0}, keydata)                             // d
	g.v = hm(g.k, g.v)                                                 // e
	g.k = hm(g.k, g.v, []byte{1}, keydata)                             // f
	g.v = hm(g.k, g.v)                                                 // g
	return g
}

// next returns the next 32-byte candidate T (step h; qlen = hlen = 256 so one
// HMAC block per candidate, and the K/V update of h.3 before every retry).
func (g *rfc6979) next() []byte {
	if g.retry {
		g.k = hm(g.k, g.v, []byte{0})
		g.v = hm(g.k, g.v)
	}
	g.v = hm(g.k, g.v)
	g.retry = true
	return append([]byte(nil), g.v...)
}

// RFC6979Stream returns the first count 32-byte outputs of the generator keyed
// with keydata (exposed for vector validation).
func RFC6979Stream(keydata []byte, count int) [][]byte {
	g := newRFC6979(keydata)
	var out [][]byte
	for i := 0; i < count; i++ {
		out = append(out, g.next())
	}
	return out
}

// ECDSASignWithNonce computes the ECDSA signature for a given nonce k in
// [1, n-1]: r = x(kG) mod n, s = (e + r d)/k mod n, then S is made low
// (s -> n - s, flipping the parity bit of the recovery id). recid bit 0 = y(R)
// odd (after normalisation), bit 1 = x(R) >= n. ok is false when r or s is 0.
func ECDSASignWithNonce(priv32, msg32 []byte, k *big.Int) (r, s *big.Int, recid int, ok bool) {
	d := refsecp.Int(priv32)
	if !inRange1N(d) || !inRange1N(k) {
		return nil, nil, 0, false
	}
	R := refsecp.MulG(k)
	r = nMod(R.X)
	if r.Sign() == 0 {
		return nil, nil, 0, false
	}
	if R.X.Cmp(refsecp.N) >= 0 {
		recid |= 2
	}
	if R.Y.Bit(0) == 1 {
		recid |= 1
	}
	e := nMod(refsecp.Int(msg32))
	s = nMul(nInv(k), nMod(new(big.Int).Add(e, nMul(r, d))))
	if s.Sign() == 0 {
		return nil, nil, 0, false
	}
	if !IsLowS(s) {
		s = new(big.Int).Sub(refsecp.N, s)
		recid ^= 1
	}
	return r, s, recid, true
}

func ecdsaSignDeterministic(priv32, msg32, h1 []byte) (r, s *big.Int, recid int) {
	keydata := append(append([]byte(nil), priv32...), h1...)
	g := newRFC6979(keydata)
	for {
		k := refsecp.Int(g.next())
		if !inRange1N(k) {
			continue
		}
		r, s, recid, ok := ECDSASignWithNonce(priv32, msg32, k)
		if ok {
			return r, s, recid
		}
	}
}

// RFC6979Nonce returns the first candidate in [1, n-1] of the generator keyed
// with priv32 || msg32 (the nonce libsecp256k1 uses when signing succeeds at
// the first attempt, which is the case unless r or s comes out as 0).
func RFC6979Nonce(priv32, msg32 []byte) *big.Int {
	g := newRFC6979(append(append([]byte(nil), priv32...), msg32...))
	for {
		k := refsecp.Int(g.next())
		if inRange1N(k) {
			return k
		}
	}
}

// ECDSASignRFC6979 is deterministic ECDSA as libsecp256k1 (and therefore
// Bitcoin Core, and trezor-crypto) computes it: RFC 6979 HMAC-SHA256 generator
// keyed with priv32 || msg32 (the 32 message bytes as they are), candidates
// outside [1, n-1] skipped, low-S result. For msg32 < n this is RFC 6979
// itself; for msg32 >= n the RFC would reduce the message mod n in the key
// material (bits2octets) - see ECDSASignRFC6979Strict.
func ECDSASignRFC6979(priv32, msg32 []byte) (r, s *big.Int) {
	r, s, _ = ecdsaSignDeterministic(priv32, msg32, msg32)
	return
}

// ECDSASignRFC6979Recid is ECDSASignRFC6979 plus the recovery id.
func ECDSASignRFC6979Recid(priv32, msg32 []byte) (r, s *big.Int, recid int) {
	return ecdsaSignDeterministic(priv32, msg32, msg32)
}

// ECDSASignRFC6979Strict applies bits2octets of RFC 6979 section 2.3.4 to the
// message (reduction mod n) before keying the generator. It differs from
// ECDSASignRFC6979 only for msg32 >= n.
func ECDSASignRFC6979Strict(priv32, msg32 []byte) (r, s *big.Int) {
	h1 := refsecp.B32(nMod(refsecp.Int(msg32)))
	r, s, _ = ecdsaSignDeterministic(priv32, msg32, h1)
	return
}

// ECDSARecover is libsecp256k1's secp256k1_ecdsa_recover on a compact
// signature: r, s in [1, n-1]; x = r (+ n when recid bit 1 is set, which must
// stay below p); R = the point with that x and y parity = recid bit 0;
// Q = r^-1 (s R - e G), which must be finite.
func ECDSARecover(r, s *big.Int, msg32 []byte, recid int) (refsecp.Point, bool) {
	if recid < 0 || recid > 3 || !inRange1N(r) || !inRange1N(s) {
		return refsecp.Point{}, false
	}
	x := new(big.Int).Set(r)
	if recid&2 != 0 {
		x.Add(x, refsecp.N)
		if x.Cmp(refsecp.P) >= 0 {
			return refsecp.Point{}, false
		}
	}
	R, ok := refsecp.LiftXParity(x, recid&1 != 0)
	if !ok {
		return refsecp.Point{}, false
	}
	e := nMod(refsecp.Int(msg32))
	ri := nInv(r)
	u1 := nMod(new(big.Int).Neg(nMul(e, ri)))
	u2 := nMul(s, ri)
	Q := refsecp.Add(refsecp.MulG(u1), refsecp.Mul(u2, R))
	if Q.Inf {
		return refsecp.Point{}, false
	}
	return Q, true
}

// ---------------------------------------------------------------------------
// BIP340 / BIP341

// TaggedHash is SHA256(SHA256(tag) || SHA256(tag) || data...).
func TaggedHash(tag string, data ...[]byte) [32]byte {
	th := sha256.Sum256([]byte(tag))
	h := sha256.New()
	h.Write(th[:])
	h.Write(th[:])
	for _, d := range data {
		h.Write(d)
	}
	var out [32]byte
	copy(out[:], h.Sum(nil))
	return out
}

// SchnorrVerify is BIP340 Verify(pk, m, sig).
func SchnorrVerify(pk32, msg, sig64 []byte) bool {
	if len(pk32) != 32 || len(sig64) != 64 {
		return false
	}
	P, ok := refsecp.LiftX(refsecp.Int(pk32)) // fails for x >= p or no square root
	if !ok {
		return false
	}
	r := refsecp.Int(sig64[:32])
	if r.Cmp(refsecp.P) >= 0 {
		return false
	}
	s := refsecp.Int(sig64[32:])
	if s.Cmp(refsecp.N) >= 0 {
		return false
	}
	eh := TaggedHash("BIP0340/challenge", sig64[:32], pk32, msg)
	e := nMod(refsecp.Int(eh[:]))
	// R = s*G - e*P
	R := refsecp.Add(refsecp.MulG(s), refsecp.Mul(nMod(new(big.Int).Neg(e)), P))
	if R.Inf {
		return false
	}
	if R.Y.Bit(0) == 1 {
		return false
	}
	return R.X.Cmp(r) == 0
}

// SchnorrSign is BIP340's default signing algorithm; nil on failure.
func SchnorrSign(priv32, msg32, aux32 []byte) []byte {
	if len(priv32) != 32 || len(aux32) != 32 {
		return nil
	}
	dp := refsecp.Int(priv32)
	if !inRange1N(dp) {
		return nil
	}
	P := refsecp.MulG(dp)
	d := dp
	if P.Y.Bit(0) == 1 {
		d = new(big.Int).Sub(refsecp.N, dp)
	}
	ah := TaggedHash("BIP0340/aux", aux32)
	t := refsecp.B32(d)
	for i := range t {
		t[i] ^= ah[i]
	}
	px := refsecp.B32(P.X)
	rnd := TaggedHash("BIP0340/nonce", t, px, msg32)
	kp := nMod(refsecp.Int(rnd[:]))
	if kp.Sign() == 0 {
		return nil
	}
	R := refsecp.MulG(kp)
	k := kp
	if R.Y.Bit(0) == 1 {
		k = new(big.Int).Sub(refsecp.N, kp)
	}
	rx := refsecp.B32(R.X)
	eh := TaggedHash("BIP0340/challenge", rx, px, msg32)
	e := nMod(refsecp.Int(eh[:]))
	sig := append(append([]byte(nil), rx...), refsecp.B32(nMod(new(big.Int).Add(k, nMul(e, d))))...)
	if !SchnorrVerify(px, msg32, sig) {
		return nil
	}
	return sig
}

// XOnlyTweakAddCheck is secp256k1_xonly_pubkey_tweak_add_check: internal key
// liftable (x < p, x^3+7 square), tweak < n, Q = lift_x(internal) + tweak*G
// finite, bytes(x(Q)) = outputKey32 and y(Q) odd = parity.
func XOnlyTweakAddCheck(outputKey32 []byte, parity bool, internalKey32, tweak32 []byte) bool {
	if len(outputKey32) != 32 || len(internalKey32) != 32 || len(tweak32) != 32 {
		return false
	}
	P, ok := refsecp.LiftX(refsecp.Int(internalKey32))
	if !ok {
		return false
	}
	t := refsecp.Int(tweak32)
	if t.Cmp(refsecp.N) >= 0 {
		return false
	}
	Q := refsecp.Add(P, refsecp.MulG(t))
	if Q.Inf {
		return false
	}
	return bytes.Equal(refsecp.B32(Q.X), outputKey32) && (Q.Y.Bit(0) == 1) == parity
}

// TaprootTweakCheck is BIP341's commitment check: t = hash_TapTweak(p || km),
// fail if t >= n or p is not liftable; Q = lift_x(p) + t*G must have the given
// x and parity. merkleRoot may be empty (key-path-only commitment).
func TaprootTweakCheck(outputKey32 []byte, parity bool, internalKey32 []byte, merkleRoot []byte) bool {
	if len(internalKey32) != 32 {
		return false
	}
	t := TaggedHash("TapTweak", internalKey32, merkleRoot)
	return XOnlyTweakAddCheck(outputKey32, parity, internalKey32, t[:])
}
