package refsig

// Validation of refsecp/refsig against every external truth found in the tree
// under test: the BIP340 CSV, and the literal vectors embedded in gocoin's Go
// test sources (read as DATA with go/parser - no gocoin code is compiled or run).

import (
	"bytes"
	"crypto/sha256"
	"encoding/csv"
	"encoding/hex"
	"fmt"
	"go/ast"
	"go/parser"
	"go/token"
	"math/big"
	"os"
	"path/filepath"
	"strconv"
	"strings"

	"verif/ref/refsecp"
)

func unhex(s string) []byte {
	b, err := hex.DecodeString(s)
	if err != nil {
		panic("refsig vectors: bad hex " + s)
	}
	return b
}

// stringLits returns, in source order, every string literal below node.
func stringLits(n ast.Node) []string {
	var out []string
	ast.Inspect(n, func(x ast.Node) bool {
		if bl, ok := x.(*ast.BasicLit); ok && bl.Kind == token.STRING {
			s, err := strconv.Unquote(bl.Value)
			if err == nil {
				out = append(out, s)
			}
		}
		return true
	})
	return out
}

// byteLits evaluates a []byte{0x.., ..} / [][]byte{{..},{..}} literal.
func byteLits(e ast.Expr) [][]byte {
	cl, ok := e.(*ast.CompositeLit)
	if !ok {
		return nil
	}
	if len(cl.Elts) > 0 {
		if _, nested := cl.Elts[0].(*ast.CompositeLit); nested {
			var out [][]byte
			for _, el := range cl.Elts {
				out = append(out, byteLits(el)...)
			}
			return out
		}
	}
	var b []byte
	for _, el := range cl.Elts {
		bl, ok := el.(*ast.BasicLit)
		if !ok || bl.Kind != token.INT {
			return nil
		}
		v, err := strconv.ParseUint(bl.Value, 0, 8)
		if err != nil {
			return nil
		}
		b = append(b, byte(v))
	}
	return [][]byte{b}
}

type srcFile struct {
	f *ast.File
}

func parseSrc(path string) (*srcFile, error) {
	fs := token.NewFileSet()
	f, err := parser.ParseFile(fs, path, nil, 0)
	if err != nil {
		return nil, err
	}
	return &srcFile{f}, nil
}

// valueOf finds `var name = <expr>` / `name := <expr>` at top level or inside fn.
func (s *srcFile) valueOf(fn, name string) ast.Expr {
	var res ast.Expr
	visit := func(n ast.Node) bool {
		switch x := n.(type) {
		case *ast.ValueSpec:
			for i, id := range x.Names {
				if id.Name == name && i < len(x.Values) {
					res = x.Values[i]
				}
			}
		case *ast.AssignStmt:
			for i, l := range x.Lhs {
				if id, ok := l.(*ast.Ident); ok && id.Name == name && i < len(x.Rhs) && x.Tok == token.DEFINE {
					res = x.Rhs[i]
				}
			}
		}
		return res == nil
	}
	for _, d := range s.f.Decls {
		switch x := d.(type) {
		case *ast.GenDecl:
			if fn == "" {
				ast.Inspect(x, visit)
			}
		case *ast.FuncDecl:
			if fn != "" && x.Name.Name == fn {
				ast.Inspect(x, visit)
			}
		}
	}
	return res
}

func (s *srcFile) funcBody(fn string) ast.Node {
	for _, d := range s.f.Decls {
		if x, ok := d.(*ast.FuncDecl); ok && x.Name.Name == fn {
			return x.Body
		}
	}
	return nil
}

// SelfTest validates the references against the vectors in the tree at repo.
// It returns per-source counts of validated vectors; any mismatch is an error
// (the caller turns it into a harness error, never a verdict).
func SelfTest(repo string) (map[string]int, error) {
	cnt := map[string]int{}
	n, err := refsecp.SelfCheck()
	if err != nil {
		return cnt, err
	}
	cnt["refsecp_selfcheck_assertions"] = n

	// ---- BIP340 CSV ----
	p := filepath.Join(repo, "lib/test/bip340_test_vectors.csv")
	fh, err := os.Open(p)
	if err != nil {
		return cnt, err
	}
	rows, err := csv.NewReader(fh).ReadAll()
	fh.Close()
	if err != nil {
		return cnt, err
	}
	for i, row := range rows {
		if i == 0 {
			continue
		}
		if len(row) < 7 {
			return cnt, fmt.Errorf("bip340 csv row %d: %d columns", i, len(row))
		}
		sk, pk, aux, msg, sig := unhex(row[1]), unhex(row[2]), unhex(row[3]), unhex(row[4]), unhex(row[5])
		want := row[6] == "TRUE"
		if got := SchnorrVerify(pk, msg, sig); got != want {
			return cnt, fmt.Errorf("bip340 csv row %s: reference verify = %v, vector says %v", row[0], got, want)
		}
		cnt["bip340_csv_verify"]++
		if len(sk) == 32 {
			x, _ := XOnlyFromPriv(sk)
			if !bytes.Equal(x, pk) {
				return cnt, fmt.Errorf("bip340 csv row %s: reference public key mismatch", row[0])
			}
			if got := SchnorrSign(sk, msg, aux); !bytes.Equal(got, sig) {
				return cnt, fmt.Errorf("bip340 csv row %s: reference signature mismatch %x", row[0], got)
			}
			cnt["bip340_csv_sign"]++
		}
	}

	// ---- lib/secp256k1/ec_test.go: var ta = [][3]string{ {pub, sig+hashtype, digest} } ----
	sf, err := parseSrc(filepath.Join(repo, "lib/secp256k1/ec_test.go"))
	if err != nil {
		return cnt, err
	}
	if v := sf.valueOf("", "ta"); v != nil {
		l := stringLits(v)
		for i := 0; i+2 < len(l); i += 3 {
			pub, sig, dig := unhex(l[i]), unhex(l[i+1]), unhex(l[i+2])
			if !ECDSAVerifyLax(pub, sig, dig) {
				return cnt, fmt.Errorf("ec_test.go ta[%d]: reference rejects a vector the suite expects valid", i/3)
			}
			if !IsStrictDER(sig) {
				return cnt, fmt.Errorf("ec_test.go ta[%d]: reference says not strict DER", i/3)
			}
			r, s, _ := ParseDERLax(sig)
			if !bytes.Equal(append(SerializeDER(r, s), sig[len(sig)-1]), sig) {
				return cnt, fmt.Errorf("ec_test.go ta[%d]: SerializeDER does not round-trip", i/3)
			}
			d2 := append([]byte(nil), dig...)
			d2[0]++
			if ECDSAVerifyLax(pub, sig, d2) {
				return cnt, fmt.Errorf("ec_test.go ta[%d]: reference accepts a changed digest", i/3)
			}
			cnt["ecdsa_verify_ec_test_ta"]++
		}
	}

	// ---- lib/secp256k1/sig_test.go ----
	sf, err = parseSrc(filepath.Join(repo, "lib/secp256k1/sig_test.go"))
	if err != nil {
		return cnt, err
	}
	if v := sf.valueOf("TestSigRecover", "vs"); v != nil {
		l := stringLits(v)
		for i := 0; i+5 < len(l); i += 6 {
			r, s := refsecp.Int(unhex(l[i])), refsecp.Int(unhex(l[i+1]))
			rid, _ := strconv.Atoi(l[i+3])
			q, ok := ECDSARecover(r, s, unhex(l[i+2]), rid)
			if !ok || q.X.Cmp(refsecp.Int(unhex(l[i+4]))) != 0 || q.Y.Cmp(refsecp.Int(unhex(l[i+5]))) != 0 {
				return cnt, fmt.Errorf("sig_test.go TestSigRecover vector %d: reference recovery mismatch", i/6)
			}
			cnt["ecdsa_recover_sig_test"]++
		}
	}
	if b := sf.funcBody("TestSigVerify"); b != nil {
		l := stringLits(b)
		// groups: msg, R, S, then either one serialized key or X, Y
		for i := 0; i+3 < len(l); {
			if len(l[i]) != 64 || len(l[i+1]) != 64 || len(l[i+2]) != 64 {
				i++
				continue
			}
			msg, r, s := unhex(l[i]), refsecp.Int(unhex(l[i+1])), refsecp.Int(unhex(l[i+2]))
			var pub []byte
			if len(l[i+3]) == 66 || len(l[i+3]) == 130 {
				pub = unhex(l[i+3])
				i += 4
			} else if i+4 < len(l) && len(l[i+3]) == 64 && len(l[i+4]) == 64 {
				pub = append(append([]byte{4}, unhex(l[i+3])...), unhex(l[i+4])...)
				i += 5
			} else {
				i++
				continue
			}
			if !ECDSAVerify(pub, r, s, msg) {
				return cnt, fmt.Errorf("sig_test.go TestSigVerify: reference rejects a vector the suite expects valid (msg %x)", msg)
			}
			cnt["ecdsa_verify_sig_test"]++
		}
	}
	if b := sf.funcBody("TestSigSign"); b != nil {
		l := stringLits(b)
		var h []string
		for _, x := range l {
			if len(x) == 64 {
				h = append(h, x)
			}
		}
		// sec, msg, nonce, R, S(low), S(high)
		if len(h) >= 6 {
			r, s, _, ok := ECDSASignWithNonce(unhex(h[0]), unhex(h[1]), refsecp.Int(unhex(h[2])))
			if !ok || r.Cmp(refsecp.Int(unhex(h[3]))) != 0 || s.Cmp(refsecp.Int(unhex(h[4]))) != 0 ||
				new(big.Int).Sub(refsecp.N, s).Cmp(refsecp.Int(unhex(h[5]))) != 0 {
				return cnt, fmt.Errorf("sig_test.go TestSigSign: reference signature mismatch")
			}
			cnt["ecdsa_sign_sig_test"]++
		}
	}

	// ---- lib/btc/key_test.go: pairs uncompressed / compressed of the same key ----
	sf, err = parseSrc(filepath.Join(repo, "lib/btc/key_test.go"))
	if err != nil {
		return cnt, err
	}
	if v := sf.valueOf("TestPbkyues", "tstvcs"); v != nil {
		l := stringLits(v)
		for i := 0; i+1 < len(l); i += 2 {
			a, ok1 := ParsePubkey(unhex(l[i]))
			b, ok2 := ParsePubkey(unhex(l[i+1]))
			if !ok1 || !ok2 || !refsecp.Equal(a, b) {
				return cnt, fmt.Errorf("key_test.go TestPbkyues pair %d: reference parse mismatch", i/2)
			}
			if !strings.EqualFold(hex.EncodeToString(SerializePubkey(a, true)), l[i+1]) {
				return cnt, fmt.Errorf("key_test.go TestPbkyues pair %d: compressed serialisation mismatch", i/2)
			}
			cnt["pubkey_pairs_key_test"]++
		}
	}

	// ---- lib/btc/hash_test.go: libsecp256k1's RFC6979 HMAC-SHA256 generator vectors ----
	sf, err = parseSrc(filepath.Join(repo, "lib/btc/hash_test.go"))
	if err != nil {
		return cnt, err
	}
	k1 := byteLits(sf.valueOf("TestRFC6979_HMAC", "key1"))
	o1 := byteLits(sf.valueOf("TestRFC6979_HMAC", "out1"))
	k2 := byteLits(sf.valueOf("TestRFC6979_HMAC", "key2"))
	o2 := byteLits(sf.valueOf("TestRFC6979_HMAC", "out2"))
	if len(k1) == 1 && len(k2) == 1 && len(k1[0]) >= 64 {
		for _, tc := range []struct {
			key []byte
			out [][]byte
		}{{k1[0][:64], o1}, {k2[0], o2}} {
			got := RFC6979Stream(tc.key, len(tc.out))
			for i := range tc.out {
				if !bytes.Equal(got[i], tc.out[i]) {
					return cnt, fmt.Errorf("hash_test.go RFC6979 HMAC vector: output %d mismatch", i)
				}
				cnt["rfc6979_hmac_outputs_hash_test"]++
			}
		}
	}

	// ---- RFC 6979 appendix A.2.5-style self-consistency: a signature made by the
	// deterministic signer verifies, is low-S, and round-trips through DER ----
	for _, ks := range []string{"01", "02", "fffffffffffffffffffffffffffffffebaaedce6af48a03bbfd25e8cd0364140"} {
		priv := refsecp.B32(refsecp.Int(unhex(fmt.Sprintf("%064s", ks))))
		msg := bytes.Repeat([]byte{0x5a}, 32)
		r, s, recid := ECDSASignRFC6979Recid(priv, msg)
		pub := PubkeyFromPriv(priv, true)
		q, ok := ECDSARecover(r, s, msg, recid)
		if !ECDSAVerify(pub, r, s, msg) || !IsLowS(s) || !IsStrictDER(append(SerializeDER(r, s), 1)) ||
			!ok || !bytes.Equal(SerializePubkey(q, true), pub) {
			return cnt, fmt.Errorf("reference deterministic signer self-consistency failed for key %s", ks)
		}
		cnt["refsig_sign_verify_recover_roundtrip"]++
	}
	// Known answer from the Bitcoin ecosystem (libsecp256k1/trezor/bitcoinjs RFC6979 fixtures):
	// key 1, message SHA256("Everything should be made as simple as possible, but not simpler.")
	{
		priv := refsecp.B32(big.NewInt(1))
		mh := sha256.Sum256([]byte("Everything should be made as simple as possible, but not simpler."))
		msg := mh[:]
		r, s := ECDSASignRFC6979(priv, msg)
		if r.Text(16) != "33a69cd2065432a30f3d1ce4eb0d59b8ab58c74f27c41a7fdb5696ad4e6108c9" ||
			s.Text(16) != "6f807982866f785d3f6418d24163ddae117b7db4d5fdf0071de069fa54342262" {
			return cnt, fmt.Errorf("reference RFC6979 known answer mismatch: r=%s s=%s", r.Text(16), s.Text(16))
		}
		cnt["rfc6979_known_answer_embedded"]++
	}
	return cnt, nil
}
