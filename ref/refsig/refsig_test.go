package refsig

import (
	"os"
	"testing"
)

func TestSelfTest(t *testing.T) {
	repo := os.Getenv("VERIF_REPO")
	if repo == "" {
		repo = "/repo"
	}
	cnt, err := SelfTest(repo)
	t.Log(cnt)
	if err != nil {
		t.Fatal(err)
	}
}

func BenchmarkRefVerify(b *testing.B) {
	priv := make([]byte, 32)
	priv[31] = 7
	msg := make([]byte, 32)
	msg[0] = 9
	r, s := ECDSASignRFC6979(priv, msg)
	pub := PubkeyFromPriv(priv, true)
	b.ResetTimer()
	for i := 0; i < b.N; i++ {
		if !ECDSAVerify(pub, r, s, msg) {
			b.Fatal("x")
		}
	}
}
