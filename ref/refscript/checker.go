package refscript

import (
	"crypto/sha256"
	"sync"

	"verif/ref/refhash"
	"verif/ref/refsig"
)

// Signature verification with big-integer affine arithmetic costs milliseconds;
// results are pure functions of their byte inputs and are memoised.
var (
	ecdsaMemo   sync.Map // [32]byte -> bool
	schnorrMemo sync.Map
	tweakMemo   sync.Map
)

func memoKey(tag byte, parts ...[]byte) [32]byte {
	h := sha256.New()
	h.Write([]byte{tag})
	for _, p := range parts {
		var l [4]byte
		l[0], l[1], l[2], l[3] = byte(len(p)), byte(len(p)>>8), byte(len(p)>>16), byte(len(p)>>24)
		h.Write(l[:])
		h.Write(p)
	}
	var k [32]byte
	copy(k[:], h.Sum(nil))
	return k
}

// ecdsaVerify is CPubKey::Verify: key of valid length/prefix that parses (hybrid
// keys allowed), lax DER parse of the signature, verification with r,s in [1,n-1].
func ecdsaVerify(pub, sigNoHashType, digest []byte) bool {
	k := memoKey(1, pub, sigNoHashType, digest)
	if v, ok := ecdsaMemo.Load(k); ok {
		return v.(bool)
	}
	r := refsig.ECDSAVerifyLax(pub, sigNoHashType, digest)
	ecdsaMemo.Store(k, r)
	return r
}

func schnorrVerify(pk32, digest, sig64 []byte) bool {
	k := memoKey(2, pk32, digest, sig64)
	if v, ok := schnorrMemo.Load(k); ok {
		return v.(bool)
	}
	r := refsig.SchnorrVerify(pk32, digest, sig64)
	schnorrMemo.Store(k, r)
	return r
}

func tweakCheck(q []byte, parity bool, p, root []byte) bool {
	pb := []byte{0}
	if parity {
		pb[0] = 1
	}
	k := memoKey(3, q, pb, p, root)
	if v, ok := tweakMemo.Load(k); ok {
		return v.(bool)
	}
	r := fastTweakCheck(q, parity, p, root)
	tweakMemo.Store(k, r)
	return r
}

func isCompressedOrUncompressedPubKey(k []byte) bool {
	if len(k) < 33 {
		return false
	}
	switch k[0] {
	case 0x04:
		return len(k) == 65
	case 0x02, 0x03:
		return len(k) == 33
	}
	return false
}

func isCompressedPubKey(k []byte) bool {
	return len(k) == 33 && (k[0] == 0x02 || k[0] == 0x03)
}

func (m *machine) checkSignatureEncoding(sig []byte) Err {
	if len(sig) == 0 {
		return OK
	}
	f := m.flags
	if f&(DERSIG|LOW_S|STRICTENC) != 0 && !refsig.IsStrictDER(sig) {
		return "SIG_DER"
	} else if f&LOW_S != 0 {
		// IsLowDERSignature: encoding already known valid; lax parse of the part
		// without the hash type; S must not exceed n/2.
		_, s, ok := refsig.ParseDERLax(sig[:len(sig)-1])
		if !ok || !refsig.IsLowS(s) {
			return "SIG_HIGH_S"
		}
	}
	if f&STRICTENC != 0 {
		ht := sig[len(sig)-1] &^ refhash.SighashAnyoneCanPay
		if ht < refhash.SighashAll || ht > refhash.SighashSingle {
			return "SIG_HASHTYPE"
		}
	}
	return OK
}

func (m *machine) checkPubKeyEncoding(pub []byte, sv sigVersion) Err {
	if m.flags&STRICTENC != 0 && !isCompressedOrUncompressedPubKey(pub) {
		return "PUBKEYTYPE"
	}
	if m.flags&WITNESS_PUBKEYTYPE != 0 && sv == sigWitnessV0 && !isCompressedPubKey(pub) {
		return "WITNESS_PUBKEYTYPE"
	}
	return OK
}

// checkECDSA is GenericTransactionSignatureChecker::CheckECDSASignature.
func (m *machine) checkECDSA(sig, pub, scriptCode []byte, sv sigVersion) bool {
	m.st.SigChecks++
	// CPubKey(vch).IsValid(): non-empty and the length the first byte announces
	if len(pub) == 0 {
		return false
	}
	switch pub[0] {
	case 2, 3:
		if len(pub) != 33 {
			return false
		}
	case 4, 6, 7:
		if len(pub) != 65 {
			return false
		}
	default:
		return false
	}
	if len(sig) == 0 {
		return false
	}
	ht := uint32(sig[len(sig)-1])
	body := sig[:len(sig)-1]
	var d [32]byte
	if sv == sigWitnessV0 {
		d = refhash.BIP143(m.in.Tx, scriptCode, m.in.Amount, m.in.Idx, ht)
	} else {
		d = refhash.Legacy(m.in.Tx, scriptCode, m.in.Idx, ht)
	}
	return ecdsaVerify(pub, body, d[:])
}

// checkSchnorr is CheckSchnorrSignature (key path and tapscript).
func (m *machine) checkSchnorr(sig, pub32 []byte, sv sigVersion, ed *execData) Err {
	m.st.SigChecks++
	if len(sig) != 64 && len(sig) != 65 {
		return "SCHNORR_SIG_SIZE"
	}
	ht := byte(refhash.SighashDefault)
	if len(sig) == 65 {
		ht = sig[64]
		sig = sig[:64]
		if ht == refhash.SighashDefault {
			return "SCHNORR_SIG_HASHTYPE"
		}
	}
	if m.in.Spent == nil || len(m.in.Spent) != len(m.in.Tx.In) {
		panic("refscript: taproot signature check without the spent outputs")
	}
	var annex []byte
	if ed.annexPresent {
		annex = ed.annex
		if annex == nil {
			annex = []byte{}
		}
	}
	var ext *refhash.TapExt
	if sv == sigTapscript {
		ext = &refhash.TapExt{LeafHash: ed.leafHash, CodeSepPos: ed.codeSepPos}
	}
	d, ok := refhash.Taproot(m.in.Tx, m.in.Spent, m.in.Idx, ht, annex, ext)
	if !ok {
		return "SCHNORR_SIG_HASHTYPE"
	}
	if !schnorrVerify(pub32, d[:], sig) {
		return "SCHNORR_SIG"
	}
	return OK
}

func (m *machine) evalChecksig(sig, pub, script []byte, begin int, ed *execData, sv sigVersion) (bool, Err) {
	switch sv {
	case sigBase, sigWitnessV0:
		return m.evalChecksigPreTapscript(sig, pub, script, begin, sv)
	case sigTapscript:
		return m.evalChecksigTapscript(sig, pub, ed)
	}
	panic("refscript: evalChecksig in key-path context")
}

func (m *machine) evalChecksigPreTapscript(sig, pub, script []byte, begin int, sv sigVersion) (bool, Err) {
	code := script[begin:]
	if sv == sigBase {
		var found int
		code, found = refhash.FindAndDelete(code, refhash.PushData(sig))
		if found > 0 && m.flags&CONST_SCRIPTCODE != 0 {
			return false, "SIG_FINDANDDELETE"
		}
	}
	if e := m.checkSignatureEncoding(sig); e != OK {
		return false, e
	}
	if e := m.checkPubKeyEncoding(pub, sv); e != OK {
		return false, e
	}
	success := m.checkECDSA(sig, pub, code, sv)
	if !success && m.flags&NULLFAIL != 0 && len(sig) > 0 {
		return false, "NULLFAIL"
	}
	return success, OK
}

func (m *machine) evalChecksigTapscript(sig, pub []byte, ed *execData) (bool, Err) {
	success := len(sig) > 0
	if success {
		ed.weightLeft -= validationWeightSig
		if ed.weightLeft < 0 {
			return false, "TAPSCRIPT_VALIDATION_WEIGHT"
		}
	}
	if len(pub) == 0 {
		return false, "PUBKEYTYPE"
	} else if len(pub) == 32 {
		if success {
			if e := m.checkSchnorr(sig, pub, sigTapscript, ed); e != OK {
				return false, e
			}
		}
	} else {
		if m.flags&DISCOURAGE_UPGRADABLE_PUBKEYTYPE != 0 {
			return false, "DISCOURAGE_UPGRADABLE_PUBKEYTYPE"
		}
	}
	return success, OK
}

// verifyTaprootCommitment: BIP341 script path validation steps for the control block.
func verifyTaprootCommitment(control, program []byte, leaf [32]byte) bool {
	p := control[1:tapControlBase]
	root := refhash.MerkleRootFromPath(leaf, control[tapControlBase:])
	return tweakCheck(program, control[0]&1 == 1, p, root[:])
}
