package refscript

import (
	"encoding/hex"
	"fmt"
	"strconv"
	"strings"

	"verif/ref/refhash"
)

// opNames: Core's GetOpName table (opcodes >= OP_NOP plus OP_RESERVED), as used
// by the script assembler of the JSON test vectors.
var opNames = map[string]byte{
	"RESERVED": 0x50, "NOP": 0x61, "VER": 0x62, "IF": 0x63, "NOTIF": 0x64, "VERIF": 0x65, "VERNOTIF": 0x66,
	"ELSE": 0x67, "ENDIF": 0x68, "VERIFY": 0x69, "RETURN": 0x6a, "TOALTSTACK": 0x6b, "FROMALTSTACK": 0x6c,
	"2DROP": 0x6d, "2DUP": 0x6e, "3DUP": 0x6f, "2OVER": 0x70, "2ROT": 0x71, "2SWAP": 0x72, "IFDUP": 0x73,
	"DEPTH": 0x74, "DROP": 0x75, "DUP": 0x76, "NIP": 0x77, "OVER": 0x78, "PICK": 0x79, "ROLL": 0x7a,
	"ROT": 0x7b, "SWAP": 0x7c, "TUCK": 0x7d, "CAT": 0x7e, "SUBSTR": 0x7f, "LEFT": 0x80, "RIGHT": 0x81,
	"SIZE": 0x82, "INVERT": 0x83, "AND": 0x84, "OR": 0x85, "XOR": 0x86, "EQUAL": 0x87, "EQUALVERIFY": 0x88,
	"RESERVED1": 0x89, "RESERVED2": 0x8a, "1ADD": 0x8b, "1SUB": 0x8c, "2MUL": 0x8d, "2DIV": 0x8e,
	"NEGATE": 0x8f, "ABS": 0x90, "NOT": 0x91, "0NOTEQUAL": 0x92, "ADD": 0x93, "SUB": 0x94, "MUL": 0x95,
	"DIV": 0x96, "MOD": 0x97, "LSHIFT": 0x98, "RSHIFT": 0x99, "BOOLAND": 0x9a, "BOOLOR": 0x9b,
	"NUMEQUAL": 0x9c, "NUMEQUALVERIFY": 0x9d, "NUMNOTEQUAL": 0x9e, "LESSTHAN": 0x9f, "GREATERTHAN": 0xa0,
	"LESSTHANOREQUAL": 0xa1, "GREATERTHANOREQUAL": 0xa2, "MIN": 0xa3, "MAX": 0xa4, "WITHIN": 0xa5,
	"RIPEMD160": 0xa6, "SHA1": 0xa7, "SHA256": 0xa8, "HASH160": 0xa9, "HASH256": 0xaa,
	"CODESEPARATOR": 0xab, "CHECKSIG": 0xac, "CHECKSIGVERIFY": 0xad, "CHECKMULTISIG": 0xae,
	"CHECKMULTISIGVERIFY": 0xaf, "NOP1": 0xb0, "CHECKLOCKTIMEVERIFY": 0xb1, "NOP2": 0xb1,
	"CHECKSEQUENCEVERIFY": 0xb2, "NOP3": 0xb2, "NOP4": 0xb3, "NOP5": 0xb4, "NOP6": 0xb5, "NOP7": 0xb6,
	"NOP8": 0xb7, "NOP9": 0xb8, "NOP10": 0xb9, "CHECKSIGADD": 0xba, "INVALIDOPCODE": 0xff,
}

// PushInt is `CScript << int64`.
func PushInt(n int64) []byte {
	switch {
	case n == -1 || (n >= 1 && n <= 16):
		return []byte{byte(n + (op1 - 1))}
	case n == 0:
		return []byte{op0}
	}
	return refhash.PushData(numBytes(n))
}

// ParseAsm assembles the textual script form of Core's JSON vectors (ParseScript).
func ParseAsm(s string) ([]byte, error) {
	var out []byte
	for _, w := range strings.FieldsFunc(s, func(r rune) bool { return r == ' ' || r == '\t' || r == '\n' }) {
		if w == "" {
			continue
		}
		isNum := true
		for i, c := range w {
			if !(c >= '0' && c <= '9') && !(i == 0 && c == '-' && len(w) > 1) {
				isNum = false
				break
			}
		}
		switch {
		case isNum:
			n, err := strconv.ParseInt(w, 10, 64)
			if err != nil {
				return nil, err
			}
			if n > 0xffffffff || n < -0xffffffff {
				return nil, fmt.Errorf("script number out of range: %s", w)
			}
			out = append(out, PushInt(n)...)
		case strings.HasPrefix(w, "0x") && len(w) > 2:
			b, err := hex.DecodeString(w[2:])
			if err != nil {
				return nil, fmt.Errorf("bad hex %q", w)
			}
			out = append(out, b...)
		case len(w) >= 2 && w[0] == '\'' && w[len(w)-1] == '\'':
			out = append(out, refhash.PushData([]byte(w[1:len(w)-1]))...)
		default:
			n := strings.TrimPrefix(w, "OP_")
			op, ok := opNames[n]
			if !ok {
				return nil, fmt.Errorf("unknown script word %q", w)
			}
			out = append(out, op)
		}
	}
	return out, nil
}

// ParseFlags parses the comma separated flag list of the vectors.
func ParseFlags(s string) (Flags, error) {
	var f Flags
	for _, w := range strings.Split(s, ",") {
		w = strings.TrimSpace(w)
		if w == "" || w == "NONE" {
			continue
		}
		b, ok := FlagNames[w]
		if !ok {
			return 0, fmt.Errorf("unknown flag %q", w)
		}
		f |= b
	}
	return f, nil
}
