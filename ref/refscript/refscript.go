// Package refscript is a second, independent Bitcoin script interpreter written
// from the consensus rules as Bitcoin Core's interpreter.cpp states them (opcode
// table, limits, flag dependencies, P2SH, witness v0, taproot key and script path,
// tapscript incl. OP_SUCCESSx, OP_CHECKSIGADD, validation weight budget, annex).
// It uses only refhash (digests, hashes, FindAndDelete), refsig (signature
// predicates) and reftx. It imports nothing from gocoin.
//
// Every failure carries Core's script_error name so that the conformance run
// against script_tests.json can compare the reason, not only the verdict.
package refscript

import (
	"bytes"

	"verif/ref/refhash"
	"verif/ref/reftx"
)

// Flags are Core's SCRIPT_VERIFY_* bits (same numbering as Core).
type Flags uint32

const (
	P2SH Flags = 1 << iota
	STRICTENC
	DERSIG
	LOW_S
	NULLDUMMY
	SIGPUSHONLY
	MINIMALDATA
	DISCOURAGE_UPGRADABLE_NOPS
	CLEANSTACK
	CHECKLOCKTIMEVERIFY
	CHECKSEQUENCEVERIFY
	WITNESS
	DISCOURAGE_UPGRADABLE_WITNESS_PROGRAM
	MINIMALIF
	NULLFAIL
	WITNESS_PUBKEYTYPE
	CONST_SCRIPTCODE
	TAPROOT
	DISCOURAGE_UPGRADABLE_TAPROOT_VERSION
	DISCOURAGE_OP_SUCCESS
	DISCOURAGE_UPGRADABLE_PUBKEYTYPE
)

var FlagNames = map[string]Flags{
	"P2SH": P2SH, "STRICTENC": STRICTENC, "DERSIG": DERSIG, "LOW_S": LOW_S, "NULLDUMMY": NULLDUMMY,
	"SIGPUSHONLY": SIGPUSHONLY, "MINIMALDATA": MINIMALDATA, "DISCOURAGE_UPGRADABLE_NOPS": DISCOURAGE_UPGRADABLE_NOPS,
	"CLEANSTACK": CLEANSTACK, "CHECKLOCKTIMEVERIFY": CHECKLOCKTIMEVERIFY, "CHECKSEQUENCEVERIFY": CHECKSEQUENCEVERIFY,
	"WITNESS": WITNESS, "DISCOURAGE_UPGRADABLE_WITNESS_PROGRAM": DISCOURAGE_UPGRADABLE_WITNESS_PROGRAM,
	"MINIMALIF": MINIMALIF, "NULLFAIL": NULLFAIL, "WITNESS_PUBKEYTYPE": WITNESS_PUBKEYTYPE,
	"CONST_SCRIPTCODE": CONST_SCRIPTCODE, "TAPROOT": TAPROOT,
	"DISCOURAGE_UPGRADABLE_TAPROOT_VERSION": DISCOURAGE_UPGRADABLE_TAPROOT_VERSION,
	"DISCOURAGE_OP_SUCCESS":                 DISCOURAGE_OP_SUCCESS,
	"DISCOURAGE_UPGRADABLE_PUBKEYTYPE":      DISCOURAGE_UPGRADABLE_PUBKEYTYPE,
}

// Consistent reports whether a flag set satisfies Core's dependencies
// (VerifyScript asserts them): CLEANSTACK needs P2SH and WITNESS, WITNESS needs P2SH.
func (f Flags) Consistent() bool {
	if f&CLEANSTACK != 0 && (f&P2SH == 0 || f&WITNESS == 0) {
		return false
	}
	if f&WITNESS != 0 && f&P2SH == 0 {
		return false
	}
	return true
}

// Err is Core's script error name ("OK" for success).
type Err string

const OK Err = "OK"

type sigVersion int

const (
	sigBase sigVersion = iota
	sigWitnessV0
	sigTaproot
	sigTapscript
)

const (
	maxScriptSize        = 10000
	maxElementSize       = 520
	maxOpsPerScript      = 201
	maxPubkeysPerMulti   = 20
	maxStackSize         = 1000
	lockTimeThreshold    = 500000000
	seqFinal             = 0xffffffff
	seqDisableFlag       = 1 << 31
	seqTypeFlag          = 1 << 22
	seqMask              = 0x0000ffff
	annexTag             = 0x50
	validationWeightOff  = 50
	validationWeightSig  = 50
	tapLeafMask          = 0xfe
	tapLeafTapscript     = 0xc0
	tapControlBase       = 33
	tapControlNode       = 32
	tapControlMaxNodes   = 128
	tapControlMax        = tapControlBase + tapControlNode*tapControlMaxNodes
	witnessV0ScriptHash  = 32
	witnessV0KeyHash     = 20
	witnessV1TaprootSize = 32
)

// opcodes referred to by name
const (
	op0            = 0x00
	opPushData1    = 0x4c
	opPushData2    = 0x4d
	opPushData4    = 0x4e
	op1Negate      = 0x4f
	opReserved     = 0x50
	op1            = 0x51
	op16           = 0x60
	opNop          = 0x61
	opVer          = 0x62
	opIf           = 0x63
	opNotIf        = 0x64
	opVerIf        = 0x65
	opVerNotIf     = 0x66
	opElse         = 0x67
	opEndIf        = 0x68
	opVerify       = 0x69
	opReturn       = 0x6a
	opToAltStack   = 0x6b
	opFromAltStack = 0x6c
	op2Drop        = 0x6d
	op2Dup         = 0x6e
	op3Dup         = 0x6f
	op2Over        = 0x70
	op2Rot         = 0x71
	op2Swap        = 0x72
	opIfDup        = 0x73
	opDepth        = 0x74
	opDrop         = 0x75
	opDup          = 0x76
	opNip          = 0x77
	opOver         = 0x78
	opPick         = 0x79
	opRoll         = 0x7a
	opRot          = 0x7b
	opSwap         = 0x7c
	opTuck         = 0x7d
	opCat          = 0x7e
	opSubstr       = 0x7f
	opLeft         = 0x80
	opRight        = 0x81
	opSize         = 0x82
	opInvert       = 0x83
	opAnd          = 0x84
	opOr           = 0x85
	opXor          = 0x86
	opEqual        = 0x87
	opEqualVerify  = 0x88
	op1Add         = 0x8b
	op1Sub         = 0x8c
	op2Mul         = 0x8d
	op2Div         = 0x8e
	opNegate       = 0x8f
	opAbs          = 0x90
	opNot          = 0x91
	op0NotEqual    = 0x92
	opAdd          = 0x93
	opSub          = 0x94
	opMul          = 0x95
	opDiv          = 0x96
	opMod          = 0x97
	opLShift       = 0x98
	opRShift       = 0x99
	opBoolAnd      = 0x9a
	opBoolOr       = 0x9b
	opNumEqual     = 0x9c
	opNumEqualVfy  = 0x9d
	opNumNotEqual  = 0x9e
	opLessThan     = 0x9f
	opGreaterThan  = 0xa0
	opLessOrEq     = 0xa1
	opGreaterOrEq  = 0xa2
	opMin          = 0xa3
	opMax          = 0xa4
	opWithin       = 0xa5
	opRipemd160    = 0xa6
	opSha1         = 0xa7
	opSha256       = 0xa8
	opHash160      = 0xa9
	opHash256      = 0xaa
	opCodeSep      = 0xab
	opCheckSig     = 0xac
	opCheckSigVfy  = 0xad
	opCheckMulti   = 0xae
	opCheckMultiV  = 0xaf
	opNop1         = 0xb0
	opCLTV         = 0xb1
	opCSV          = 0xb2
	opNop4         = 0xb3
	opNop10        = 0xb9
	opCheckSigAdd  = 0xba
	opInvalid      = 0xff
)

// IsOpSuccess: BIP342 "80, 98, 126-129, 131-134, 137-138, 141-142, 149-153, 187-254".
func IsOpSuccess(op byte) bool {
	return op == 80 || op == 98 || (op >= 126 && op <= 129) || (op >= 131 && op <= 134) ||
		(op >= 137 && op <= 138) || (op >= 141 && op <= 142) || (op >= 149 && op <= 153) ||
		(op >= 187 && op <= 254)
}

// ---- numbers and booleans ----

type numErr struct{}

// scriptNum decodes a CScriptNum; ok=false is Core's scriptnum_error exception.
func scriptNum(v []byte, requireMinimal bool, maxSize int) (int64, bool) {
	if len(v) > maxSize {
		return 0, false
	}
	if requireMinimal && len(v) > 0 {
		if v[len(v)-1]&0x7f == 0 {
			if len(v) <= 1 || v[len(v)-2]&0x80 == 0 {
				return 0, false
			}
		}
	}
	if len(v) == 0 {
		return 0, true
	}
	var r uint64
	for i, b := range v {
		r |= uint64(b) << (8 * uint(i))
	}
	if v[len(v)-1]&0x80 != 0 {
		r &^= uint64(0x80) << (8 * uint(len(v)-1))
		return -int64(r), true
	}
	return int64(r), true
}

func numBytes(v int64) []byte {
	if v == 0 {
		return []byte{}
	}
	neg := v < 0
	var a uint64
	if neg {
		a = uint64(-v)
	} else {
		a = uint64(v)
	}
	var r []byte
	for a != 0 {
		r = append(r, byte(a))
		a >>= 8
	}
	if r[len(r)-1]&0x80 != 0 {
		if neg {
			r = append(r, 0x80)
		} else {
			r = append(r, 0)
		}
	} else if neg {
		r[len(r)-1] |= 0x80
	}
	return r
}

func castToBool(v []byte) bool {
	for i, b := range v {
		if b != 0 {
			if i == len(v)-1 && b == 0x80 {
				return false
			}
			return true
		}
	}
	return false
}

func boolBytes(b bool) []byte {
	if b {
		return []byte{1}
	}
	return []byte{}
}

func checkMinimalPush(data []byte, op byte) bool {
	switch {
	case len(data) == 0:
		return op == op0
	case len(data) == 1 && data[0] >= 1 && data[0] <= 16:
		return false
	case len(data) == 1 && data[0] == 0x81:
		return false
	case len(data) <= 75:
		return int(op) == len(data)
	case len(data) <= 255:
		return op == opPushData1
	case len(data) <= 65535:
		return op == opPushData2
	}
	return true
}

// ---- script predicates ----

func IsPushOnly(s []byte) bool {
	pc := 0
	for pc < len(s) {
		op, _, next, ok := refhash.GetOp(s, pc)
		if !ok {
			return false
		}
		if op > op16 {
			return false
		}
		pc = next
	}
	return true
}

func IsPayToScriptHash(s []byte) bool {
	return len(s) == 23 && s[0] == opHash160 && s[1] == 0x14 && s[22] == opEqual
}

func IsWitnessProgram(s []byte) (version int, program []byte, ok bool) {
	if len(s) < 4 || len(s) > 42 {
		return
	}
	if s[0] != op0 && (s[0] < op1 || s[0] > op16) {
		return
	}
	if int(s[1])+2 == len(s) {
		if s[0] != op0 {
			version = int(s[0]) - (op1 - 1)
		}
		return version, s[2:], true
	}
	return
}

// ---- execution ----

// Input identifies what is being spent. Spent (all spent outputs, one per input)
// is needed for taproot digests only.
type Input struct {
	Tx     *reftx.Tx
	Idx    int
	Amount uint64
	Spent  []reftx.Out
}

// Stats are measured while evaluating (used for non-triviality counts).
type Stats struct {
	OpsExecuted int  // non-push opcodes executed in live branches + pushes executed
	SigChecks   int  // signature verifications attempted
	Witness     bool // a witness program was evaluated
	Tapscript   bool
	P2SH        bool
}

type execData struct {
	annexPresent bool
	annex        []byte
	leafHash     [32]byte
	codeSepPos   uint32
	weightLeft   int64
}

type machine struct {
	in    *Input
	flags Flags
	st    *Stats
}

type stackT [][]byte

func (s stackT) top(i int) []byte { return s[len(s)+i] }

func (m *machine) eval(stack *stackT, script []byte, sv sigVersion, ed *execData) Err {
	flags := m.flags
	if (sv == sigBase || sv == sigWitnessV0) && len(script) > maxScriptSize {
		return "SCRIPT_SIZE"
	}
	var vfExec []bool
	var alt stackT
	allTrue := func() bool {
		for _, b := range vfExec {
			if !b {
				return false
			}
		}
		return true
	}
	nOpCount := 0
	requireMinimal := flags&MINIMALDATA != 0
	pc := 0
	beginCodeHash := 0
	ed.codeSepPos = 0xffffffff
	st := *stack
	defer func() { *stack = st }()
	push := func(v []byte) { st = append(st, v) }
	pop := func() { st = st[:len(st)-1] }
	num := func(v []byte) (int64, bool) { return scriptNum(v, requireMinimal, 4) }

	for opcodePos := uint32(0); pc < len(script); opcodePos++ {
		fExec := allTrue()
		op, data, next, ok := refhash.GetOp(script, pc)
		if !ok {
			return "BAD_OPCODE"
		}
		pc = next
		if len(data) > maxElementSize {
			return "PUSH_SIZE"
		}
		if sv == sigBase || sv == sigWitnessV0 {
			if op > op16 {
				nOpCount++
				if nOpCount > maxOpsPerScript {
					return "OP_COUNT"
				}
			}
		}
		switch op {
		case opCat, opSubstr, opLeft, opRight, opInvert, opAnd, opOr, opXor, op2Mul, op2Div, opMul, opDiv, opMod, opLShift, opRShift:
			return "DISABLED_OPCODE"
		}
		if op == opCodeSep && sv == sigBase && flags&CONST_SCRIPTCODE != 0 {
			return "OP_CODESEPARATOR"
		}
		if fExec && op <= opPushData4 {
			if requireMinimal && !checkMinimalPush(data, op) {
				return "MINIMALDATA"
			}
			if data == nil {
				data = []byte{}
			}
			push(data)
			m.st.OpsExecuted++
		} else if fExec || (opIf <= op && op <= opEndIf) {
			if fExec {
				m.st.OpsExecuted++
			}
			switch {
			case op == op1Negate || (op >= op1 && op <= op16):
				push(numBytes(int64(op) - int64(op1-1)))
			case op == opNop:
			case op == opCLTV:
				if flags&CHECKLOCKTIMEVERIFY == 0 {
					break
				}
				if len(st) < 1 {
					return "INVALID_STACK_OPERATION"
				}
				n, ok := scriptNum(st.top(-1), requireMinimal, 5)
				if !ok {
					return "UNKNOWN_ERROR"
				}
				if n < 0 {
					return "NEGATIVE_LOCKTIME"
				}
				if !m.checkLockTime(n) {
					return "UNSATISFIED_LOCKTIME"
				}
			case op == opCSV:
				if flags&CHECKSEQUENCEVERIFY == 0 {
					break
				}
				if len(st) < 1 {
					return "INVALID_STACK_OPERATION"
				}
				n, ok := scriptNum(st.top(-1), requireMinimal, 5)
				if !ok {
					return "UNKNOWN_ERROR"
				}
				if n < 0 {
					return "NEGATIVE_LOCKTIME"
				}
				if n&seqDisableFlag != 0 {
					break
				}
				if !m.checkSequence(n) {
					return "UNSATISFIED_LOCKTIME"
				}
			case op == opNop1 || (op >= opNop4 && op <= opNop10):
				if flags&DISCOURAGE_UPGRADABLE_NOPS != 0 {
					return "DISCOURAGE_UPGRADABLE_NOPS"
				}
			case op == opIf || op == opNotIf:
				v := false
				if fExec {
					if len(st) < 1 {
						return "UNBALANCED_CONDITIONAL"
					}
					vch := st.top(-1)
					if sv == sigTapscript {
						if len(vch) > 1 || (len(vch) == 1 && vch[0] != 1) {
							return "TAPSCRIPT_MINIMALIF"
						}
					}
					if sv == sigWitnessV0 && flags&MINIMALIF != 0 {
						if len(vch) > 1 {
							return "MINIMALIF"
						}
						if len(vch) == 1 && vch[0] != 1 {
							return "MINIMALIF"
						}
					}
					v = castToBool(vch)
					if op == opNotIf {
						v = !v
					}
					pop()
				}
				vfExec = append(vfExec, v)
			case op == opElse:
				if len(vfExec) == 0 {
					return "UNBALANCED_CONDITIONAL"
				}
				vfExec[len(vfExec)-1] = !vfExec[len(vfExec)-1]
			case op == opEndIf:
				if len(vfExec) == 0 {
					return "UNBALANCED_CONDITIONAL"
				}
				vfExec = vfExec[:len(vfExec)-1]
			case op == opVerify:
				if len(st) < 1 {
					return "INVALID_STACK_OPERATION"
				}
				if castToBool(st.top(-1)) {
					pop()
				} else {
					return "VERIFY"
				}
			case op == opReturn:
				return "OP_RETURN"
			case op == opToAltStack:
				if len(st) < 1 {
					return "INVALID_STACK_OPERATION"
				}
				alt = append(alt, st.top(-1))
				pop()
			case op == opFromAltStack:
				if len(alt) < 1 {
					return "INVALID_ALTSTACK_OPERATION"
				}
				push(alt[len(alt)-1])
				alt = alt[:len(alt)-1]
			case op == op2Drop:
				if len(st) < 2 {
					return "INVALID_STACK_OPERATION"
				}
				pop()
				pop()
			case op == op2Dup:
				if len(st) < 2 {
					return "INVALID_STACK_OPERATION"
				}
				a, b := st.top(-2), st.top(-1)
				push(a)
				push(b)
			case op == op3Dup:
				if len(st) < 3 {
					return "INVALID_STACK_OPERATION"
				}
				a, b, c := st.top(-3), st.top(-2), st.top(-1)
				push(a)
				push(b)
				push(c)
			case op == op2Over:
				if len(st) < 4 {
					return "INVALID_STACK_OPERATION"
				}
				a, b := st.top(-4), st.top(-3)
				push(a)
				push(b)
			case op == op2Rot:
				if len(st) < 6 {
					return "INVALID_STACK_OPERATION"
				}
				a, b := st.top(-6), st.top(-5)
				n := len(st)
				st = append(st[:n-6:n-6], append(append(stackT{}, st[n-4:]...), a, b)...)
			case op == op2Swap:
				if len(st) < 4 {
					return "INVALID_STACK_OPERATION"
				}
				n := len(st)
				st[n-4], st[n-2] = st[n-2], st[n-4]
				st[n-3], st[n-1] = st[n-1], st[n-3]
			case op == opIfDup:
				if len(st) < 1 {
					return "INVALID_STACK_OPERATION"
				}
				if castToBool(st.top(-1)) {
					push(st.top(-1))
				}
			case op == opDepth:
				push(numBytes(int64(len(st))))
			case op == opDrop:
				if len(st) < 1 {
					return "INVALID_STACK_OPERATION"
				}
				pop()
			case op == opDup:
				if len(st) < 1 {
					return "INVALID_STACK_OPERATION"
				}
				push(st.top(-1))
			case op == opNip:
				if len(st) < 2 {
					return "INVALID_STACK_OPERATION"
				}
				n := len(st)
				st[n-2] = st[n-1]
				pop()
			case op == opOver:
				if len(st) < 2 {
					return "INVALID_STACK_OPERATION"
				}
				push(st.top(-2))
			case op == opPick || op == opRoll:
				if len(st) < 2 {
					return "INVALID_STACK_OPERATION"
				}
				n, ok := num(st.top(-1))
				if !ok {
					return "UNKNOWN_ERROR"
				}
				pop()
				if n < 0 || n >= int64(len(st)) {
					return "INVALID_STACK_OPERATION"
				}
				idx := len(st) - int(n) - 1
				v := st[idx]
				if op == opRoll {
					st = append(st[:idx:idx], append(stackT{}, st[idx+1:]...)...)
				}
				push(v)
			case op == opRot:
				if len(st) < 3 {
					return "INVALID_STACK_OPERATION"
				}
				n := len(st)
				st[n-3], st[n-2], st[n-1] = st[n-2], st[n-1], st[n-3]
			case op == opSwap:
				if len(st) < 2 {
					return "INVALID_STACK_OPERATION"
				}
				n := len(st)
				st[n-2], st[n-1] = st[n-1], st[n-2]
			case op == opTuck:
				if len(st) < 2 {
					return "INVALID_STACK_OPERATION"
				}
				n := len(st)
				a, b := st[n-2], st[n-1]
				st = append(st[:n-2:n-2], b, a, b)
			case op == opSize:
				if len(st) < 1 {
					return "INVALID_STACK_OPERATION"
				}
				push(numBytes(int64(len(st.top(-1)))))
			case op == opEqual || op == opEqualVerify:
				if len(st) < 2 {
					return "INVALID_STACK_OPERATION"
				}
				eq := bytes.Equal(st.top(-2), st.top(-1))
				pop()
				pop()
				push(boolBytes(eq))
				if op == opEqualVerify {
					if eq {
						pop()
					} else {
						return "EQUALVERIFY"
					}
				}
			case op == op1Add || op == op1Sub || op == opNegate || op == opAbs || op == opNot || op == op0NotEqual:
				if len(st) < 1 {
					return "INVALID_STACK_OPERATION"
				}
				n, ok := num(st.top(-1))
				if !ok {
					return "UNKNOWN_ERROR"
				}
				switch op {
				case op1Add:
					n++
				case op1Sub:
					n--
				case opNegate:
					n = -n
				case opAbs:
					if n < 0 {
						n = -n
					}
				case opNot:
					if n == 0 {
						n = 1
					} else {
						n = 0
					}
				case op0NotEqual:
					if n != 0 {
						n = 1
					}
				}
				pop()
				push(numBytes(n))
			case op == opAdd || op == opSub || (op >= opBoolAnd && op <= opMax):
				if len(st) < 2 {
					return "INVALID_STACK_OPERATION"
				}
				a, ok1 := num(st.top(-2))
				if !ok1 {
					return "UNKNOWN_ERROR"
				}
				b, ok2 := num(st.top(-1))
				if !ok2 {
					return "UNKNOWN_ERROR"
				}
				b2i := func(x bool) int64 {
					if x {
						return 1
					}
					return 0
				}
				var r int64
				switch op {
				case opAdd:
					r = a + b
				case opSub:
					r = a - b
				case opBoolAnd:
					r = b2i(a != 0 && b != 0)
				case opBoolOr:
					r = b2i(a != 0 || b != 0)
				case opNumEqual, opNumEqualVfy:
					r = b2i(a == b)
				case opNumNotEqual:
					r = b2i(a != b)
				case opLessThan:
					r = b2i(a < b)
				case opGreaterThan:
					r = b2i(a > b)
				case opLessOrEq:
					r = b2i(a <= b)
				case opGreaterOrEq:
					r = b2i(a >= b)
				case opMin:
					r = a
					if b < a {
						r = b
					}
				case opMax:
					r = a
					if b > a {
						r = b
					}
				}
				pop()
				pop()
				push(numBytes(r))
				if op == opNumEqualVfy {
					if castToBool(st.top(-1)) {
						pop()
					} else {
						return "NUMEQUALVERIFY"
					}
				}
			case op == opWithin:
				if len(st) < 3 {
					return "INVALID_STACK_OPERATION"
				}
				a, ok1 := num(st.top(-3))
				if !ok1 {
					return "UNKNOWN_ERROR"
				}
				b, ok2 := num(st.top(-2))
				if !ok2 {
					return "UNKNOWN_ERROR"
				}
				c, ok3 := num(st.top(-1))
				if !ok3 {
					return "UNKNOWN_ERROR"
				}
				pop()
				pop()
				pop()
				push(boolBytes(b <= a && a < c))
			case op >= opRipemd160 && op <= opHash256:
				if len(st) < 1 {
					return "INVALID_STACK_OPERATION"
				}
				v := st.top(-1)
				var h []byte
				switch op {
				case opRipemd160:
					x := refhash.Ripemd160(v)
					h = x[:]
				case opSha1:
					x := refhash.Sha1(v)
					h = x[:]
				case opSha256:
					x := refhash.Sha256(v)
					h = x[:]
				case opHash160:
					x := refhash.Hash160(v)
					h = x[:]
				case opHash256:
					x := refhash.DSha(v)
					h = x[:]
				}
				pop()
				push(h)
			case op == opCodeSep:
				beginCodeHash = pc
				ed.codeSepPos = opcodePos
			case op == opCheckSig || op == opCheckSigVfy:
				if len(st) < 2 {
					return "INVALID_STACK_OPERATION"
				}
				sig, pub := st.top(-2), st.top(-1)
				success, e := m.evalChecksig(sig, pub, script, beginCodeHash, ed, sv)
				if e != OK {
					return e
				}
				pop()
				pop()
				push(boolBytes(success))
				if op == opCheckSigVfy {
					if success {
						pop()
					} else {
						return "CHECKSIGVERIFY"
					}
				}
			case op == opCheckSigAdd:
				if sv == sigBase || sv == sigWitnessV0 {
					return "BAD_OPCODE"
				}
				if len(st) < 3 {
					return "INVALID_STACK_OPERATION"
				}
				sig := st.top(-3)
				n, ok := num(st.top(-2))
				if !ok {
					return "UNKNOWN_ERROR"
				}
				pub := st.top(-1)
				success, e := m.evalChecksig(sig, pub, script, beginCodeHash, ed, sv)
				if e != OK {
					return e
				}
				pop()
				pop()
				pop()
				if success {
					n++
				}
				push(numBytes(n))
			case op == opCheckMulti || op == opCheckMultiV:
				if sv == sigTapscript {
					return "TAPSCRIPT_CHECKMULTISIG"
				}
				i := 1
				if len(st) < i {
					return "INVALID_STACK_OPERATION"
				}
				nk, ok := num(st.top(-i))
				if !ok {
					return "UNKNOWN_ERROR"
				}
				if nk < 0 || nk > maxPubkeysPerMulti {
					return "PUBKEY_COUNT"
				}
				nKeys := int(nk)
				nOpCount += nKeys
				if nOpCount > maxOpsPerScript {
					return "OP_COUNT"
				}
				i++
				ikey := i
				ikey2 := nKeys + 2
				i += nKeys
				if len(st) < i {
					return "INVALID_STACK_OPERATION"
				}
				ns, ok := num(st.top(-i))
				if !ok {
					return "UNKNOWN_ERROR"
				}
				if ns < 0 || ns > int64(nKeys) {
					return "SIG_COUNT"
				}
				nSigs := int(ns)
				i++
				isig := i
				i += nSigs
				if len(st) < i {
					return "INVALID_STACK_OPERATION"
				}
				code := append([]byte{}, script[beginCodeHash:]...)
				for k := 0; k < nSigs; k++ {
					if sv == sigBase {
						var found int
						code, found = refhash.FindAndDelete(code, refhash.PushData(st.top(-isig-k)))
						if found > 0 && flags&CONST_SCRIPTCODE != 0 {
							return "SIG_FINDANDDELETE"
						}
					}
				}
				success := true
				for success && nSigs > 0 {
					sig, pub := st.top(-isig), st.top(-ikey)
					if e := m.checkSignatureEncoding(sig); e != OK {
						return e
					}
					if e := m.checkPubKeyEncoding(pub, sv); e != OK {
						return e
					}
					if m.checkECDSA(sig, pub, code, sv) {
						isig++
						nSigs--
					}
					ikey++
					nKeys--
					if nSigs > nKeys {
						success = false
					}
				}
				for i > 1 {
					i--
					if !success && flags&NULLFAIL != 0 && ikey2 == 0 && len(st.top(-1)) > 0 {
						return "NULLFAIL"
					}
					if ikey2 > 0 {
						ikey2--
					}
					pop()
				}
				if len(st) < 1 {
					return "INVALID_STACK_OPERATION"
				}
				if flags&NULLDUMMY != 0 && len(st.top(-1)) > 0 {
					return "SIG_NULLDUMMY"
				}
				pop()
				push(boolBytes(success))
				if op == opCheckMultiV {
					if success {
						pop()
					} else {
						return "CHECKMULTISIGVERIFY"
					}
				}
			default:
				return "BAD_OPCODE"
			}
		}
		if len(st)+len(alt) > maxStackSize {
			return "STACK_SIZE"
		}
	}
	if len(vfExec) != 0 {
		return "UNBALANCED_CONDITIONAL"
	}
	return OK
}

func (m *machine) checkLockTime(n int64) bool {
	tx := m.in.Tx
	lt := int64(tx.LockTime)
	if !((lt < lockTimeThreshold && n < lockTimeThreshold) || (lt >= lockTimeThreshold && n >= lockTimeThreshold)) {
		return false
	}
	if n > lt {
		return false
	}
	if tx.In[m.in.Idx].Sequence == seqFinal {
		return false
	}
	return true
}

func (m *machine) checkSequence(n int64) bool {
	tx := m.in.Tx
	txSeq := int64(tx.In[m.in.Idx].Sequence)
	if tx.Version < 2 {
		return false
	}
	if txSeq&seqDisableFlag != 0 {
		return false
	}
	const mask = seqTypeFlag | seqMask
	a := txSeq & mask
	b := n & mask
	if !((a < seqTypeFlag && b < seqTypeFlag) || (a >= seqTypeFlag && b >= seqTypeFlag)) {
		return false
	}
	return b <= a
}

// ---- witness programs ----

func serializedWitnessSize(w [][]byte) int64 {
	n := int64(reftx.CSLen(uint64(len(w))))
	for _, e := range w {
		n += int64(reftx.CSLen(uint64(len(e)))) + int64(len(e))
	}
	return n
}

func (m *machine) executeWitnessScript(items [][]byte, script []byte, sv sigVersion, ed *execData) Err {
	stack := make(stackT, len(items))
	copy(stack, items)
	if sv == sigTapscript {
		m.st.Tapscript = true
		pc := 0
		for pc < len(script) {
			op, _, next, ok := refhash.GetOp(script, pc)
			if !ok {
				return "BAD_OPCODE"
			}
			pc = next
			if IsOpSuccess(op) {
				if m.flags&DISCOURAGE_OP_SUCCESS != 0 {
					return "DISCOURAGE_OP_SUCCESS"
				}
				return OK
			}
		}
		if len(stack) > maxStackSize {
			return "STACK_SIZE"
		}
	}
	for _, e := range stack {
		if len(e) > maxElementSize {
			return "PUSH_SIZE"
		}
	}
	if e := m.eval(&stack, script, sv, ed); e != OK {
		return e
	}
	if len(stack) != 1 {
		return "CLEANSTACK"
	}
	if !castToBool(stack.top(-1)) {
		return "EVAL_FALSE"
	}
	return OK
}

func (m *machine) verifyWitnessProgram(witness [][]byte, version int, program []byte, isP2SH bool) Err {
	m.st.Witness = true
	stack := witness
	ed := &execData{}
	if version == 0 {
		if len(program) == witnessV0ScriptHash {
			if len(stack) == 0 {
				return "WITNESS_PROGRAM_WITNESS_EMPTY"
			}
			script := stack[len(stack)-1]
			stack = stack[:len(stack)-1]
			h := refhash.Sha256(script)
			if !bytes.Equal(h[:], program) {
				return "WITNESS_PROGRAM_MISMATCH"
			}
			return m.executeWitnessScript(stack, script, sigWitnessV0, ed)
		} else if len(program) == witnessV0KeyHash {
			if len(stack) != 2 {
				return "WITNESS_PROGRAM_MISMATCH"
			}
			script := append(append([]byte{opDup, opHash160, 0x14}, program...), opEqualVerify, opCheckSig)
			return m.executeWitnessScript(stack, script, sigWitnessV0, ed)
		}
		return "WITNESS_PROGRAM_WRONG_LENGTH"
	} else if version == 1 && len(program) == witnessV1TaprootSize && !isP2SH {
		if m.flags&TAPROOT == 0 {
			return OK
		}
		if len(stack) == 0 {
			return "WITNESS_PROGRAM_WITNESS_EMPTY"
		}
		if len(stack) >= 2 && len(stack[len(stack)-1]) > 0 && stack[len(stack)-1][0] == annexTag {
			ed.annex = stack[len(stack)-1]
			ed.annexPresent = true
			stack = stack[:len(stack)-1]
		}
		if len(stack) == 1 {
			return m.checkSchnorr(stack[0], program, sigTaproot, ed)
		}
		control := stack[len(stack)-1]
		script := stack[len(stack)-2]
		stack = stack[:len(stack)-2]
		if len(control) < tapControlBase || len(control) > tapControlMax || (len(control)-tapControlBase)%tapControlNode != 0 {
			return "TAPROOT_WRONG_CONTROL_SIZE"
		}
		ed.leafHash = refhash.TapLeafHash(control[0]&tapLeafMask, script)
		if !verifyTaprootCommitment(control, program, ed.leafHash) {
			return "WITNESS_PROGRAM_MISMATCH"
		}
		if control[0]&tapLeafMask == tapLeafTapscript {
			ed.weightLeft = serializedWitnessSize(witness) + validationWeightOff
			return m.executeWitnessScript(stack, script, sigTapscript, ed)
		}
		if m.flags&DISCOURAGE_UPGRADABLE_TAPROOT_VERSION != 0 {
			return "DISCOURAGE_UPGRADABLE_TAPROOT_VERSION"
		}
		return OK
	}
	if m.flags&DISCOURAGE_UPGRADABLE_WITNESS_PROGRAM != 0 {
		return "DISCOURAGE_UPGRADABLE_WITNESS_PROGRAM"
	}
	return OK
}

// Result of one verification.
type Result struct {
	OK    bool
	Err   Err
	Stats Stats
}

// Verify is Core's VerifyScript. flags must be Consistent() (Core asserts this).
func Verify(scriptSig, scriptPubKey []byte, witness [][]byte, flags Flags, in *Input) Result {
	var st Stats
	m := &machine{in: in, flags: flags, st: &st}
	e := m.verify(scriptSig, scriptPubKey, witness)
	return Result{OK: e == OK, Err: e, Stats: st}
}

func (m *machine) verify(scriptSig, scriptPubKey []byte, witness [][]byte) Err {
	flags := m.flags
	if !flags.Consistent() {
		panic("refscript: inconsistent flag set")
	}
	hadWitness := false
	if flags&SIGPUSHONLY != 0 && !IsPushOnly(scriptSig) {
		return "SIG_PUSHONLY"
	}
	var stack, stackCopy stackT
	ed := &execData{}
	if e := m.eval(&stack, scriptSig, sigBase, ed); e != OK {
		return e
	}
	if flags&P2SH != 0 {
		stackCopy = append(stackT{}, stack...)
	}
	if e := m.eval(&stack, scriptPubKey, sigBase, ed); e != OK {
		return e
	}
	if len(stack) == 0 {
		return "EVAL_FALSE"
	}
	if !castToBool(stack.top(-1)) {
		return "EVAL_FALSE"
	}
	if flags&WITNESS != 0 {
		if v, prog, ok := IsWitnessProgram(scriptPubKey); ok {
			hadWitness = true
			if len(scriptSig) != 0 {
				return "WITNESS_MALLEATED"
			}
			if e := m.verifyWitnessProgram(witness, v, prog, false); e != OK {
				return e
			}
			stack = stack[:1]
		}
	}
	if flags&P2SH != 0 && IsPayToScriptHash(scriptPubKey) {
		m.st.P2SH = true
		if !IsPushOnly(scriptSig) {
			return "SIG_PUSHONLY"
		}
		stack = stackCopy
		if len(stack) == 0 {
			panic("refscript: P2SH with empty stack")
		}
		pubKey2 := stack.top(-1)
		stack = stack[:len(stack)-1]
		if e := m.eval(&stack, pubKey2, sigBase, ed); e != OK {
			return e
		}
		if len(stack) == 0 {
			return "EVAL_FALSE"
		}
		if !castToBool(stack.top(-1)) {
			return "EVAL_FALSE"
		}
		if flags&WITNESS != 0 {
			if v, prog, ok := IsWitnessProgram(pubKey2); ok {
				hadWitness = true
				if !bytes.Equal(scriptSig, refhash.PushData(pubKey2)) {
					return "WITNESS_MALLEATED_P2SH"
				}
				if e := m.verifyWitnessProgram(witness, v, prog, true); e != OK {
					return e
				}
				stack = stack[:1]
			}
		}
	}
	if flags&CLEANSTACK != 0 {
		if len(stack) != 1 {
			return "CLEANSTACK"
		}
	}
	if flags&WITNESS != 0 {
		if !hadWitness && len(witness) != 0 {
			return "WITNESS_UNEXPECTED"
		}
	}
	return OK
}
