package refscript

import (
	"math/big"
	"os"
	"testing"
)

func TestSelfCheck(t *testing.T) {
	repo := os.Getenv("VERIF_REPO")
	if repo == "" {
		repo = "/repo"
	}
	c, err := SelfCheck(repo)
	if c != nil {
		t.Logf("script rows %d (ok %d fail %d, reason matches %d), tx_valid %d, tx_invalid %d (by CheckTransaction %d)", c.ScriptRows, c.ScriptOK, c.ScriptFail, c.ErrorNameMatches, c.TxValidRows, c.TxInvalidRows, c.TxInvalidByCheckTransaction)
		for i, d := range c.Disagreements {
			if i < 40 {
				if len(d) > 400 {
					d = d[:400]
				}
				t.Log(d)
			}
		}
	}
	if err != nil {
		t.Fatal(err)
	}
}

func TestEc(t *testing.T) {
	if err := EcSelfCheck(); err != nil {
		t.Fatal(err)
	}
}

func BenchmarkOutputKey(b *testing.B) {
	p := make([]byte, 32)
	p[31] = 1
	FastMulG(big.NewInt(1))
	b.ResetTimer()
	for i := 0; i < b.N; i++ {
		TaprootOutputKey(p, []byte{byte(i), byte(i >> 8)})
	}
}
