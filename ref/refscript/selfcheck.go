package refscript

import (
	"encoding/hex"
	"encoding/json"
	"fmt"
	"math"
	"os"
	"path/filepath"

	"verif/ref/reftx"
)

// Conformance counts of SelfCheck.
type Conformance struct {
	ScriptRows, ScriptOK, ScriptFail int // script_tests.json rows, expected OK / expected failure
	TxValidRows, TxInvalidRows       int
	TxInvalidByCheckTransaction      int // tx_invalid rows refused before any script runs
	ErrorNameMatches                 int // script_tests rows whose failure reason equals the file's
	ReasonNotComparable              int // rows whose expected reason is not one of Core's names
	Disagreements                    []string
}

// BuildCreditingTx / BuildSpendingTx: the transactions Core's script_tests use.
func BuildCreditingTx(scriptPubKey []byte, amount uint64) *reftx.Tx {
	t := &reftx.Tx{Version: 1}
	t.In = []reftx.In{{Vout: 0xffffffff, Script: []byte{0x00, 0x00}, Sequence: 0xffffffff}}
	t.Out = []reftx.Out{{Value: amount, Script: scriptPubKey}}
	return t
}

func BuildSpendingTx(scriptSig []byte, witness [][]byte, credit *reftx.Tx) *reftx.Tx {
	t := &reftx.Tx{Version: 1}
	t.In = []reftx.In{{Prev: credit.TxID(), Vout: 0, Script: scriptSig, Sequence: 0xffffffff, Witness: witness}}
	t.Out = []reftx.Out{{Value: credit.Out[0].Value, Script: []byte{}}}
	return t
}

const maxMoney = 21000000 * 100000000

// CheckTransaction: Core's context-free transaction checks (consensus/tx_check.cpp).
func CheckTransaction(t *reftx.Tx) string {
	if len(t.In) == 0 {
		return "bad-txns-vin-empty"
	}
	if len(t.Out) == 0 {
		return "bad-txns-vout-empty"
	}
	if t.BaseSize()*4 > 4000000 {
		return "bad-txns-oversize"
	}
	var sum uint64
	for _, o := range t.Out {
		if o.Value > math.MaxInt64 {
			return "bad-txns-vout-negative"
		}
		if o.Value > maxMoney {
			return "bad-txns-vout-toolarge"
		}
		sum += o.Value
		if sum > maxMoney {
			return "bad-txns-txouttotal-toolarge"
		}
	}
	seen := map[[36]byte]bool{}
	for _, in := range t.In {
		var k [36]byte
		copy(k[:], in.Prev[:])
		k[32], k[33], k[34], k[35] = byte(in.Vout), byte(in.Vout>>8), byte(in.Vout>>16), byte(in.Vout>>24)
		if seen[k] {
			return "bad-txns-inputs-duplicate"
		}
		seen[k] = true
	}
	if t.IsCoinbase() {
		if len(t.In[0].Script) < 2 || len(t.In[0].Script) > 100 {
			return "bad-cb-length"
		}
	} else {
		for _, in := range t.In {
			if in.Prev == [32]byte{} && in.Vout == 0xffffffff {
				return "bad-txns-prevout-null"
			}
		}
	}
	return ""
}

func loadRows(path string) ([][]interface{}, error) {
	dat, err := os.ReadFile(path)
	if err != nil {
		return nil, err
	}
	var raw []interface{}
	if err := json.Unmarshal(dat, &raw); err != nil {
		return nil, err
	}
	var rows [][]interface{}
	for _, r := range raw {
		if l, ok := r.([]interface{}); ok {
			rows = append(rows, l)
		}
	}
	return rows, nil
}

// ScriptTestRow is one parsed row of script_tests.json.
type ScriptTestRow struct {
	Witness   [][]byte
	Amount    uint64
	ScriptSig []byte
	PkScript  []byte
	Flags     Flags
	Expected  string
	Comment   string
}

func ParseScriptTests(repo string) ([]ScriptTestRow, error) {
	rows, err := loadRows(filepath.Join(repo, "lib", "test", "script_tests.json"))
	if err != nil {
		return nil, err
	}
	var out []ScriptTestRow
	for i, r := range rows {
		if len(r) <= 1 {
			continue
		}
		var t ScriptTestRow
		pos := 0
		if w, ok := r[0].([]interface{}); ok {
			for k, e := range w {
				if k == len(w)-1 {
					f, ok := e.(float64)
					if !ok {
						return nil, fmt.Errorf("script_tests row %d: amount", i)
					}
					t.Amount = uint64(math.Round(f * 1e8))
					break
				}
				b, err := hex.DecodeString(e.(string))
				if err != nil {
					return nil, fmt.Errorf("script_tests row %d: witness hex", i)
				}
				t.Witness = append(t.Witness, b)
			}
			pos = 1
		}
		if len(r) < pos+4 {
			return nil, fmt.Errorf("script_tests row %d: too short", i)
		}
		var e1, e2, e3 error
		t.ScriptSig, e1 = ParseAsm(r[pos].(string))
		t.PkScript, e2 = ParseAsm(r[pos+1].(string))
		t.Flags, e3 = ParseFlags(r[pos+2].(string))
		for _, e := range []error{e1, e2, e3} {
			if e != nil {
				return nil, fmt.Errorf("script_tests row %d: %v", i, e)
			}
		}
		t.Expected = r[pos+3].(string)
		if len(r) > pos+4 {
			t.Comment, _ = r[pos+4].(string)
		}
		out = append(out, t)
	}
	return out, nil
}

// TxTestRow is one parsed row of tx_valid.json / tx_invalid.json.
type TxTestRow struct {
	Prevouts map[[36]byte]reftx.Out
	Raw      []byte
	Flags    Flags
}

func outKey(h [32]byte, n uint32) (k [36]byte) {
	copy(k[:], h[:])
	k[32], k[33], k[34], k[35] = byte(n), byte(n>>8), byte(n>>16), byte(n>>24)
	return
}

func ParseTxTests(repo, name string) ([]TxTestRow, error) {
	rows, err := loadRows(filepath.Join(repo, "lib", "test", name))
	if err != nil {
		return nil, err
	}
	var out []TxTestRow
	for i, r := range rows {
		if len(r) != 3 {
			continue
		}
		ins, ok := r[0].([]interface{})
		if !ok {
			continue
		}
		t := TxTestRow{Prevouts: map[[36]byte]reftx.Out{}}
		for _, in := range ins {
			l := in.([]interface{})
			hb, err := hex.DecodeString(l[0].(string))
			if err != nil || len(hb) != 32 {
				return nil, fmt.Errorf("%s row %d: prevout hash", name, i)
			}
			var h [32]byte
			for k := range hb {
				h[k] = hb[31-k]
			}
			n := uint32(int64(l[1].(float64)))
			spk, err := ParseAsm(l[2].(string))
			if err != nil {
				return nil, fmt.Errorf("%s row %d: %v", name, i, err)
			}
			o := reftx.Out{Script: spk}
			if len(l) > 3 {
				o.Value = uint64(int64(l[3].(float64)))
			}
			t.Prevouts[outKey(h, n)] = o
		}
		t.Raw, err = hex.DecodeString(r[1].(string))
		if err != nil {
			return nil, fmt.Errorf("%s row %d: tx hex", name, i)
		}
		t.Flags, err = ParseFlags(r[2].(string))
		if err != nil {
			return nil, fmt.Errorf("%s row %d: %v", name, i, err)
		}
		out = append(out, t)
	}
	return out, nil
}

// VerifyTxRow: CheckTransaction and every input's script; returns "" when valid,
// otherwise the first reason.
func VerifyTxRow(t TxTestRow) (reason string, byCheckTx bool, err error) {
	tx, n, e := reftx.DecodeTx(t.Raw)
	if e != nil || n != len(t.Raw) {
		return "", false, fmt.Errorf("transaction does not deserialise: %v", e)
	}
	if r := CheckTransaction(tx); r != "" {
		return r, true, nil
	}
	for i := range tx.In {
		po, ok := t.Prevouts[outKey(tx.In[i].Prev, tx.In[i].Vout)]
		if !ok {
			return "", false, fmt.Errorf("bad test: prevout of input %d not listed", i)
		}
		f := t.Flags
		res := Verify(tx.In[i].Script, po.Script, tx.In[i].Witness, f, &Input{Tx: tx, Idx: i, Amount: po.Value})
		if !res.OK {
			return fmt.Sprintf("input %d: %s", i, res.Err), false, nil
		}
	}
	return "", false, nil
}

// SelfCheck runs the reference against every row of script_tests.json,
// tx_valid.json and tx_invalid.json of the repository. Any disagreement is listed.
func SelfCheck(repo string) (*Conformance, error) {
	c := &Conformance{}
	st, err := ParseScriptTests(repo)
	if err != nil {
		return nil, err
	}
	for i, t := range st {
		f := t.Flags
		if f&CLEANSTACK != 0 {
			f |= P2SH | WITNESS
		}
		credit := BuildCreditingTx(t.PkScript, t.Amount)
		spend := BuildSpendingTx(t.ScriptSig, t.Witness, credit)
		res := Verify(t.ScriptSig, t.PkScript, t.Witness, f, &Input{Tx: spend, Idx: 0, Amount: t.Amount})
		c.ScriptRows++
		if t.Expected == "OK" {
			c.ScriptOK++
		} else {
			c.ScriptFail++
		}
		if res.OK != (t.Expected == "OK") {
			c.Disagreements = append(c.Disagreements, fmt.Sprintf("script_tests #%d (sig=%x pk=%x flags=%x): reference %s, file %s %s", i, t.ScriptSig, t.PkScript, uint32(f), res.Err, t.Expected, t.Comment))
			continue
		}
		if string(res.Err) == t.Expected {
			c.ErrorNameMatches++
		} else if t.Expected == "error" {
			// not one of Core's error names (a row added locally): verdict only
			c.ReasonNotComparable++
		} else {
			c.Disagreements = append(c.Disagreements, fmt.Sprintf("script_tests #%d (sig=%x pk=%x flags=%x): verdict agrees but reason %s, file %s %s", i, t.ScriptSig, t.PkScript, uint32(f), res.Err, t.Expected, t.Comment))
		}
	}
	for _, name := range []string{"tx_valid.json", "tx_invalid.json"} {
		rows, err := ParseTxTests(repo, name)
		if err != nil {
			return nil, err
		}
		for i, t := range rows {
			reason, byCheck, err := VerifyTxRow(t)
			if err != nil {
				return nil, fmt.Errorf("%s #%d: %v", name, i, err)
			}
			if name == "tx_valid.json" {
				c.TxValidRows++
				if reason != "" {
					c.Disagreements = append(c.Disagreements, fmt.Sprintf("tx_valid #%d: reference refuses: %s (tx %x)", i, reason, t.Raw))
				}
			} else {
				c.TxInvalidRows++
				if byCheck {
					c.TxInvalidByCheckTransaction++
				}
				if reason == "" {
					c.Disagreements = append(c.Disagreements, fmt.Sprintf("tx_invalid #%d: reference accepts (tx %x)", i, t.Raw))
				}
			}
		}
	}
	if len(c.Disagreements) > 0 {
		return c, fmt.Errorf("%d disagreements with the vector files, first: %s", len(c.Disagreements), c.Disagreements[0])
	}
	return c, nil
}
