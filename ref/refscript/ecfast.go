package refscript

import (
	"bytes"
	"fmt"
	"math/big"
	"sync"

	"verif/ref/refhash"
	"verif/ref/refsecp"
)

// Fixed-base multiplication k*G with a byte-window table built from refsecp's own
// affine group law (table[i][j] = j * 256^i * G). It only exists because families
// with one taproot commitment per member need hundreds of thousands of k*G; the
// result is checked against refsecp.MulG in EcSelfCheck.
var (
	gTableOnce sync.Once
	gTable     [32][256]refsecp.Point
)

func buildGTable() {
	base := refsecp.G()
	for i := 0; i < 32; i++ {
		gTable[i][0] = refsecp.Infinity()
		acc := refsecp.Infinity()
		for j := 1; j < 256; j++ {
			acc = refsecp.Add(acc, base)
			gTable[i][j] = acc
		}
		base = refsecp.Add(acc, base) // 256 * base
	}
}

// FastMulG returns k*G for 0 <= k < 2^256.
func FastMulG(k *big.Int) refsecp.Point {
	gTableOnce.Do(buildGTable)
	b := refsecp.B32(k)
	r := refsecp.Infinity()
	for i := 0; i < 32; i++ {
		r = refsecp.Add(r, gTable[i][b[31-i]])
	}
	return r
}

// EcSelfCheck compares FastMulG with refsecp.MulG on boundary and arbitrary scalars.
func EcSelfCheck() error {
	ks := []*big.Int{big.NewInt(0), big.NewInt(1), big.NewInt(2), big.NewInt(255), big.NewInt(256), big.NewInt(65535),
		new(big.Int).Sub(refsecp.N, big.NewInt(1)), new(big.Int).Set(refsecp.N), new(big.Int).Add(refsecp.N, big.NewInt(5))}
	for i := 0; i < 6; i++ {
		h := refhash.Sha256([]byte{byte(i), 'k'})
		ks = append(ks, new(big.Int).SetBytes(h[:]))
	}
	for _, k := range ks {
		a, b := FastMulG(k), refsecp.MulG(k)
		if !refsecp.Equal(a, b) {
			return fmt.Errorf("FastMulG(%x) differs from refsecp.MulG", k)
		}
	}
	return nil
}

// TaprootOutputKey computes Q = lift_x(p) + hash_TapTweak(p || root)*G as BIP341
// defines it (ok=false when p is not a valid x-only key, t >= n or Q is infinity).
func TaprootOutputKey(p32, root []byte) (q32 []byte, parity bool, ok bool) {
	if len(p32) != 32 {
		return nil, false, false
	}
	P, okp := refsecp.LiftX(refsecp.Int(p32))
	if !okp {
		return nil, false, false
	}
	t := refhash.TapTweakHash(p32, root)
	ti := refsecp.Int(t[:])
	if ti.Cmp(refsecp.N) >= 0 {
		return nil, false, false
	}
	Q := refsecp.Add(P, FastMulG(ti))
	if Q.Inf {
		return nil, false, false
	}
	return refsecp.B32(Q.X), Q.Y.Bit(0) == 1, true
}

func fastTweakCheck(q []byte, parity bool, p, root []byte) bool {
	q2, par2, ok := TaprootOutputKey(p, root)
	return ok && len(q) == 32 && bytes.Equal(q, q2) && par2 == parity
}
