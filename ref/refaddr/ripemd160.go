// Vendored from golang.org/x/crypto/ripemd160 (module cache copy, BSD licence), package renamed,
// identifiers unexported. Checked against the RIPEMD-160 "" and "abc" vectors in Selfcheck.
// Copyright 2010 The Go Authors. All rights reserved.
// Use of this source code is governed by a BSD-style
// license that can be found in the LICENSE file.

// Package ripemd160 implements the RIPEMD-160 hash algorithm.
//
// Deprecated: RIPEMD-160 is a legacy hash and should not be used for new
// applications. Also, this package does not and will not provide an optimized
// implementation. Instead, use a modern hash like SHA-256 (from crypto/sha256).
package refaddr

// RIPEMD-160 is designed by Hans Dobbertin, Antoon Bosselaers, and Bart
// Preneel with specifications available at:
// http://homes.esat.kuleuven.be/~cosicart/pdf/AB-9601/AB-9601.pdf.

import (
	"hash"
)

// The size of the checksum in bytes.
const rmdSize = 20

// The block size of the hash algorithm in bytes.
const rmdBlockSize = 64

const (
	_s0 = 0x67452301
	_s1 = 0xefcdab89
	_s2 = 0x98badcfe
	_s3 = 0x10325476
	_s4 = 0xc3d2e1f0
)

// digest represents the partial evaluation of a checksum.
type digest struct {
	s  [5]uint32          // running context
	x  [rmdBlockSize]byte // temporary buffer
	nx int                // index into x
	tc uint64             // total count of bytes processed
}

func (d *digest) Reset() {
	d.s[0], d.s[1], d.s[2], d.s[3], d.s[4] = _s0, _s1, _s2, _s3, _s4
	d.nx = 0
	d.tc = 0
}

// newRipemd160 returns a new hash.Hash computing the checksum.
func newRipemd160() hash.Hash {
	result := new(digest)
	result.Reset()
	return result
}

func (d *digest) Size() int { return rmdSize }

func (d *digest) BlockSize() int { return rmdBlockSize }

func (d *digest) Write(p []byte) (nn int, err error) {
	nn = len(p)
	d.tc += uint64(nn)
	if d.nx > 0 {
		n := len(p)
		if n > rmdBlockSize-d.nx {
			n = rmdBlockSize - d.nx
		}
		for i := 0; i < n; i++ {
			d.x[d.nx+i] = p[i]
		}
		d.nx += n
		if d.nx == rmdBlockSize {
			_Block(d, d.x[0:])
			d.nx = 0
		}
		p = p[n:]
	}
	n := _Block(d, p)
	p = p[n:]
	if len(p) > 0 {
		d.nx = copy(d.x[:], p)
	}
	return
}

func (d0 *digest) Sum(in []byte) []byte {
	// Make a copy of d0 so that caller can keep writing and summing.
	d := *d0

	// Padding.  Add a 1 bit and 0 bits until 56 bytes mod 64.
	tc := d.tc
	var tmp [64]byte
	tmp[0] = 0x80
	if tc%64 < 56 {
		d.Write(tmp[0 : 56-tc%64])
	} else {
		d.Write(tmp[0 : 64+56-tc%64])
	}

	// Length in bits.
	tc <<= 3
	for i := uint(0); i < 8; i++ {
		tmp[i] = byte(tc >> (8 * i))
	}
	d.Write(tmp[0:8])

	if d.nx != 0 {
		panic("d.nx != 0")
	}

	var digest [rmdSize]byte
	for i, s := range d.s {
		digest[i*4] = byte(s)
		digest[i*4+1] = byte(s >> 8)
		digest[i*4+2] = byte(s >> 16)
		digest[i*4+3] = byte(s >> 24)
	}

	return append(in, digest[:]...)
}
