package refaddr

import (
	"bytes"
	"encoding/hex"
	"encoding/json"
	"fmt"
	"go/ast"
	"go/parser"
	"go/token"
	"os"
	"path/filepath"
	"strconv"
	"strings"
)

// GoLiterals parses a Go source file (the repository keeps its test vectors as
// Go literals in *_test.go files) and returns, for every package-level or
// function-level `name = <literal>` / `return <literal>` it can evaluate, the
// value: string, int64, []byte, []interface{} (slices, positional structs) or
// map[string]interface{} (keyed structs). Function bodies whose single
// statement is `return <composite literal>` are stored under the function name.
func GoLiterals(file string) (map[string]interface{}, error) {
	fs := token.NewFileSet()
	f, err := parser.ParseFile(fs, file, nil, 0)
	if err != nil {
		return nil, err
	}
	out := map[string]interface{}{}
	ast.Inspect(f, func(n ast.Node) bool {
		switch x := n.(type) {
		case *ast.ValueSpec:
			for i, nm := range x.Names {
				if i < len(x.Values) {
					if v, ok := evalLit(x.Values[i]); ok {
						out[nm.Name] = v
					}
				}
			}
		case *ast.AssignStmt:
			for i, l := range x.Lhs {
				if id, ok := l.(*ast.Ident); ok && i < len(x.Rhs) {
					if v, ok := evalLit(x.Rhs[i]); ok {
						if _, dup := out[id.Name]; !dup {
							out[id.Name] = v
						}
					}
				}
			}
		case *ast.FuncDecl:
			if x.Body != nil && len(x.Body.List) == 1 {
				if r, ok := x.Body.List[0].(*ast.ReturnStmt); ok && len(r.Results) == 1 {
					if v, ok := evalLit(r.Results[0]); ok {
						out[x.Name.Name] = v
					}
				}
			}
		}
		return true
	})
	return out, nil
}

func evalLit(e ast.Expr) (interface{}, bool) {
	switch x := e.(type) {
	case *ast.BasicLit:
		switch x.Kind {
		case token.STRING:
			s, err := strconv.Unquote(x.Value)
			return s, err == nil
		case token.INT:
			v, err := strconv.ParseInt(x.Value, 0, 64)
			return v, err == nil
		}
	case *ast.ParenExpr:
		return evalLit(x.X)
	case *ast.CompositeLit:
		isBytes := false
		if at, ok := x.Type.(*ast.ArrayType); ok {
			if id, ok := at.Elt.(*ast.Ident); ok && id.Name == "byte" {
				isBytes = true
			}
		}
		if isBytes {
			var b []byte
			for _, el := range x.Elts {
				v, ok := evalLit(el)
				iv, isInt := v.(int64)
				if !ok || !isInt {
					return nil, false
				}
				b = append(b, byte(iv))
			}
			if b == nil {
				b = []byte{}
			}
			return b, true
		}
		keyed := len(x.Elts) > 0
		for _, el := range x.Elts {
			kv, ok := el.(*ast.KeyValueExpr)
			if !ok {
				keyed = false
				break
			}
			if _, ok := kv.Key.(*ast.Ident); !ok {
				keyed = false
				break
			}
		}
		if keyed {
			m := map[string]interface{}{}
			for _, el := range x.Elts {
				kv := el.(*ast.KeyValueExpr)
				v, ok := evalLit(kv.Value)
				if !ok {
					v = nil
				}
				m[kv.Key.(*ast.Ident).Name] = v
			}
			return m, true
		}
		l := []interface{}{}
		for _, el := range x.Elts {
			v, ok := evalLit(el)
			if !ok {
				v = nil
			}
			l = append(l, v)
		}
		return l, true
	}
	return nil, false
}

func strList(v interface{}) []string {
	l, _ := v.([]interface{})
	var r []string
	for _, x := range l {
		if s, ok := x.(string); ok {
			r = append(r, s)
		}
	}
	return r
}

// Selfcheck validates this package against every external truth on disk under
// repo: the RIPEMD-160 standard vectors, lib/test/base58_encode_decode.json, the
// BIP173/BIP350 valid/invalid checksum lists (lib/others/bech32/bech32_test.go),
// the BIP173/BIP350 valid/invalid address lists (segwit_test.go), the Base58
// address list and segwit samples of lib/btc/addr_test.go and the WIF samples of
// lib/btc/wallet_test.go. It returns the number of vectors validated per source.
func Selfcheck(repo string) (map[string]int, error) {
	cnt := map[string]int{}
	// RIPEMD-160 (vectors from the RIPEMD-160 paper)
	for in, want := range map[string]string{
		"":               "9c1185a5c5e9fc54612808977ee8f548b2258d31",
		"abc":            "8eb208f7e05d987a9b044a8e98c6b087f15a0bfc",
		"message digest": "5d0689ef49d2fae572b881b123a85ffa21595f36",
	} {
		if hex.EncodeToString(Ripemd160([]byte(in))) != want {
			return nil, fmt.Errorf("ripemd160(%q) wrong", in)
		}
		cnt["ripemd160"]++
	}
	// Base58
	b, err := os.ReadFile(filepath.Join(repo, "lib/test/base58_encode_decode.json"))
	if err != nil {
		return nil, err
	}
	var vecs [][2]string
	if err := json.Unmarshal(b, &vecs); err != nil {
		return nil, err
	}
	for _, v := range vecs {
		bin, _ := hex.DecodeString(v[0])
		if B58Encode(bin) != v[1] {
			return nil, fmt.Errorf("base58 encode %s", v[0])
		}
		d, err := B58Decode(v[1])
		if err != nil || !bytes.Equal(d, bin) {
			return nil, fmt.Errorf("base58 decode %s", v[1])
		}
		cnt["base58_encode_decode.json"]++
	}
	// Bech32 / Bech32m checksum lists
	lits, err := GoLiterals(filepath.Join(repo, "lib/others/bech32/bech32_test.go"))
	if err != nil {
		return nil, err
	}
	for name, want := range map[string]Encoding{"valid_checksum_bech32": Bech32, "valid_checksum_bech32m": Bech32m} {
		l := strList(lits[name])
		if len(l) == 0 {
			return nil, fmt.Errorf("vector list %s not found", name)
		}
		for _, s := range l {
			hrp, data, enc, err := Bech32Decode(s)
			if err != nil || enc != want {
				return nil, fmt.Errorf("%s: %q not accepted as variant %d: %v", name, s, want, err)
			}
			re, err := Bech32Encode(hrp, data, enc)
			if err != nil || re != strings.ToLower(s) {
				return nil, fmt.Errorf("%s: %q re-encodes to %q (%v)", name, s, re, err)
			}
			cnt[name]++
		}
	}
	for _, name := range []string{"invalid_checksum_bech32", "invalid_checksum_bech32m"} {
		l := strList(lits[name])
		if len(l) == 0 {
			return nil, fmt.Errorf("vector list %s not found", name)
		}
		want := Bech32
		if name == "invalid_checksum_bech32m" {
			want = Bech32m
		}
		for _, s := range l {
			// "invalid" in the BIP lists means: not a valid string of THIS variant
			if _, _, enc, err := Bech32Decode(s); err == nil && enc == want {
				return nil, fmt.Errorf("%s: %q accepted", name, s)
			}
			cnt[name]++
		}
	}
	// segwit address lists
	lits, err = GoLiterals(filepath.Join(repo, "lib/others/bech32/segwit_test.go"))
	if err != nil {
		return nil, err
	}
	va, _ := lits["valid_address"].([]interface{})
	if len(va) == 0 {
		return nil, fmt.Errorf("valid_address list not found")
	}
	for _, x := range va {
		m, _ := x.(map[string]interface{})
		addr, _ := m["address"].(string)
		spk, _ := m["scriptPubKey"].([]byte)
		d, err := DecodeAny(addr, []string{"bc", "tb"})
		if err != nil || !bytes.Equal(d.Script, spk) {
			return nil, fmt.Errorf("valid_address %q: %v", addr, err)
		}
		re, err := ScriptToAddress(spk, d.Net == "test")
		if err != nil || re != strings.ToLower(addr) {
			return nil, fmt.Errorf("valid_address %q re-encodes to %q", addr, re)
		}
		cnt["segwit_valid_address"]++
	}
	ia := strList(lits["invalid_address"])
	if len(ia) == 0 {
		return nil, fmt.Errorf("invalid_address list not found")
	}
	for _, s := range ia {
		if _, err := DecodeAny(s, []string{"bc", "tb"}); err == nil {
			return nil, fmt.Errorf("invalid_address %q accepted", s)
		}
		for _, hrp := range []string{"bc", "tb"} {
			if _, _, err := DecodeSegwit(hrp, s); err == nil {
				return nil, fmt.Errorf("invalid_address %q accepted for %s", s, hrp)
			}
		}
		cnt["segwit_invalid_address"]++
	}
	ie, _ := lits["invalid_address_enc"].([]interface{})
	for _, x := range ie {
		m, _ := x.(map[string]interface{})
		hrp, _ := m["hrp"].(string)
		ver, _ := m["version"].(int64)
		pl, _ := m["program_length"].(int64)
		if _, err := EncodeSegwit(hrp, int(ver), make([]byte, pl)); err == nil {
			return nil, fmt.Errorf("invalid_address_enc %v accepted", m)
		}
		cnt["segwit_invalid_address_enc"]++
	}
	// lib/btc/addr_test.go: list of valid Base58 addresses `ta` and segwit samples
	lits, err = GoLiterals(filepath.Join(repo, "lib/btc/addr_test.go"))
	if err != nil {
		return nil, err
	}
	ta := strList(lits["ta"])
	if len(ta) == 0 {
		return nil, fmt.Errorf("addr_test.go: list ta not found")
	}
	for _, s := range ta {
		d, err := DecodeAny(s, []string{"bc", "tb"})
		if err != nil || d.Kind != "p2pkh" {
			return nil, fmt.Errorf("addr_test %q: %v", s, err)
		}
		if re := EncodeP2PKH(d.Data, d.Net == "test"); re != s {
			return nil, fmt.Errorf("addr_test %q re-encodes to %q", s, re)
		}
		cnt["addr_test_base58"]++
	}
	src, err := os.ReadFile(filepath.Join(repo, "lib/btc/addr_test.go"))
	if err != nil {
		return nil, err
	}
	// test_both_segwit(t, "<addr>", <valid>, <ver>, <plen>)
	for _, line := range strings.Split(string(src), "\n") {
		line = strings.TrimSpace(line)
		if !strings.HasPrefix(line, "test_both_segwit(t, \"") {
			continue
		}
		f := strings.Split(strings.TrimSuffix(strings.TrimPrefix(line, "test_both_segwit(t, "), ")"), ",")
		if len(f) != 4 {
			continue
		}
		s, _ := strconv.Unquote(strings.TrimSpace(f[0]))
		valid := strings.TrimSpace(f[1]) == "true"
		plen, _ := strconv.Atoi(strings.TrimSpace(f[3]))
		for _, v := range []string{strings.ToLower(s), strings.ToUpper(s)} {
			d, err := DecodeAny(v, []string{"bc", "tb"})
			if valid != (err == nil) || (valid && len(d.Data) != plen) {
				return nil, fmt.Errorf("addr_test segwit %q: valid=%v err=%v", v, valid, err)
			}
			cnt["addr_test_segwit"]++
		}
	}
	// WIF samples in wallet_test.go: DecodePrivateAddr("<wif>") followed by the
	// expected Version / compression / address assertions; here: each must decode,
	// re-encode to itself, and the next quoted address in the file is checked by refhd.
	src, err = os.ReadFile(filepath.Join(repo, "lib/btc/wallet_test.go"))
	if err != nil {
		return nil, err
	}
	for _, part := range strings.Split(string(src), "DecodePrivateAddr(\"")[1:] {
		end := strings.IndexByte(part, '"')
		if end < 0 {
			continue
		}
		w := part[:end]
		key, compr, ver, err := WIFDecode(w)
		if err != nil {
			return nil, fmt.Errorf("wallet_test WIF %q: %v", w, err)
		}
		if WIFEncode(key, compr, ver) != w {
			return nil, fmt.Errorf("wallet_test WIF %q does not re-encode", w)
		}
		cnt["wallet_test_wif"]++
	}
	if cnt["wallet_test_wif"] == 0 {
		return nil, fmt.Errorf("no WIF samples found in wallet_test.go")
	}
	return cnt, nil
}
