package refaddr

import (
	"os"
	"testing"
)

func repo() string {
	if d := os.Getenv("VERIF_REPO"); d != "" {
		return d
	}
	return "/repo"
}

func TestSelfcheck(t *testing.T) {
	cnt, err := Selfcheck(repo())
	if err != nil {
		t.Fatal(err)
	}
	t.Log(cnt)
}
