// Package refaddr is the reference model for Bitcoin address encodings:
// Base58Check, Bech32 (BIP173) and Bech32m (BIP350), segwit address rules, the
// address <-> output script mapping and WIF private keys.
//
// It is written from the specification texts (BIP173/BIP350 reference code shape,
// the Base58Check description of the Bitcoin wiki) and shares nothing with gocoin
// except Go's standard library. It must not import gocoin packages.
package refaddr

import (
	"bytes"
	"crypto/sha256"
	"errors"
	"fmt"
	"math/big"
	"strings"
)

// ---------------------------------------------------------------- hashes

func Sha256d(b []byte) []byte {
	a := sha256.Sum256(b)
	c := sha256.Sum256(a[:])
	return c[:]
}

func Ripemd160(b []byte) []byte {
	h := newRipemd160()
	h.Write(b)
	return h.Sum(nil)
}

// Hash160 = RIPEMD160(SHA256(b)).
func Hash160(b []byte) []byte {
	a := sha256.Sum256(b)
	return Ripemd160(a[:])
}

// ---------------------------------------------------------------- Base58

const b58Alphabet = "123456789ABCDEFGHJKLMNPQRSTUVWXYZabcdefghijkmnopqrstuvwxyz"

// Err carries a short stable class (used by checks to count outcome classes).
type Err struct {
	Class string
	Msg   string
}

func (e *Err) Error() string { return e.Class + ": " + e.Msg }

func errf(class, format string, a ...interface{}) error {
	return &Err{Class: class, Msg: fmt.Sprintf(format, a...)}
}

// Class returns the class of an error produced by this package ("" for nil).
func Class(err error) string {
	if err == nil {
		return ""
	}
	var e *Err
	if errors.As(err, &e) {
		return e.Class
	}
	return "other"
}

// B58Encode: big-endian base-58 number, each leading zero byte becomes one '1'.
func B58Encode(b []byte) string {
	zeros := 0
	for zeros < len(b) && b[zeros] == 0 {
		zeros++
	}
	n := new(big.Int).SetBytes(b)
	r := new(big.Int)
	k := big.NewInt(58)
	var out []byte
	for n.Sign() > 0 {
		n.QuoRem(n, k, r)
		out = append(out, b58Alphabet[r.Int64()])
	}
	for i := 0; i < zeros; i++ {
		out = append(out, '1')
	}
	for i, j := 0, len(out)-1; i < j; i, j = i+1, j-1 {
		out[i], out[j] = out[j], out[i]
	}
	return string(out)
}

// B58Decode is strict: every byte must be one of the 58 alphabet characters
// (no whitespace skipping).
func B58Decode(s string) ([]byte, error) {
	zeros := 0
	for zeros < len(s) && s[zeros] == '1' {
		zeros++
	}
	n := new(big.Int)
	k := big.NewInt(58)
	for i := 0; i < len(s); i++ {
		d := strings.IndexByte(b58Alphabet, s[i])
		if d < 0 {
			return nil, errf("b58-char", "invalid base58 character 0x%02x at %d", s[i], i)
		}
		n.Mul(n, k)
		n.Add(n, big.NewInt(int64(d)))
	}
	return append(make([]byte, zeros), n.Bytes()...), nil
}

// B58CheckEncode appends the first four bytes of SHA256d(payload).
func B58CheckEncode(payload []byte) string {
	c := Sha256d(payload)
	return B58Encode(append(append([]byte{}, payload...), c[:4]...))
}

// B58CheckDecode returns the payload (without the checksum).
func B58CheckDecode(s string) ([]byte, error) {
	b, err := B58Decode(s)
	if err != nil {
		return nil, err
	}
	if len(b) < 4 {
		return nil, errf("b58-short", "decoded length %d < 4", len(b))
	}
	c := Sha256d(b[:len(b)-4])
	if !bytes.Equal(c[:4], b[len(b)-4:]) {
		return nil, errf("b58-checksum", "checksum mismatch")
	}
	return b[:len(b)-4], nil
}

// ---------------------------------------------------------------- Bech32 / Bech32m

type Encoding int

const (
	Bech32  Encoding = 1
	Bech32m Encoding = 2
)

const bech32Charset = "qpzry9x8gf2tvdw0s3jn54khce6mua7l"

const bech32mConst = 0x2bc830a3

// polymod from BIP173.
func polymod(values []byte) uint32 {
	gen := [5]uint32{0x3b6a57b2, 0x26508e6d, 0x1ea119fa, 0x3d4233dd, 0x2a1462b3}
	chk := uint32(1)
	for _, v := range values {
		b := chk >> 25
		chk = (chk&0x1ffffff)<<5 ^ uint32(v)
		for i := 0; i < 5; i++ {
			if (b>>uint(i))&1 == 1 {
				chk ^= gen[i]
			}
		}
	}
	return chk
}

func hrpExpand(hrp string) []byte {
	var r []byte
	for i := 0; i < len(hrp); i++ {
		r = append(r, hrp[i]>>5)
	}
	r = append(r, 0)
	for i := 0; i < len(hrp); i++ {
		r = append(r, hrp[i]&31)
	}
	return r
}

// Bech32Encode encodes hrp (must be lower case, 1..83 chars in [33,126]) and
// 5-bit data. The result is lower case.
func Bech32Encode(hrp string, data []byte, enc Encoding) (string, error) {
	if len(hrp) < 1 || len(hrp) > 83 {
		return "", errf("hrp-length", "hrp length %d", len(hrp))
	}
	for i := 0; i < len(hrp); i++ {
		if hrp[i] < 33 || hrp[i] > 126 {
			return "", errf("hrp-char", "hrp character out of range")
		}
		if hrp[i] >= 'A' && hrp[i] <= 'Z' {
			return "", errf("hrp-case", "hrp must be lower case for encoding")
		}
	}
	if len(hrp)+1+len(data)+6 > 90 {
		return "", errf("length", "overall length > 90")
	}
	for _, d := range data {
		if d > 31 {
			return "", errf("data-range", "data value > 31")
		}
	}
	c := uint32(1)
	if enc == Bech32m {
		c = bech32mConst
	}
	values := append(hrpExpand(hrp), data...)
	pm := polymod(append(values, 0, 0, 0, 0, 0, 0)) ^ c
	var sb strings.Builder
	sb.WriteString(hrp)
	sb.WriteByte('1')
	for _, d := range data {
		sb.WriteByte(bech32Charset[d])
	}
	for i := 0; i < 6; i++ {
		sb.WriteByte(bech32Charset[(pm>>uint(5*(5-i)))&31])
	}
	return sb.String(), nil
}

// Bech32Decode implements the BIP173 decoding rules plus the BIP350 constant:
// overall length <= 90, characters in [33,126], no mixed case, separator = last
// '1', hrp length >= 1, data part >= 6 characters all from the charset,
// checksum constant 1 (Bech32) or 0x2bc830a3 (Bech32m). The returned hrp is
// lower case; data excludes the checksum.
func Bech32Decode(s string) (hrp string, data []byte, enc Encoding, err error) {
	if len(s) > 90 {
		return "", nil, 0, errf("length", "overall length %d > 90", len(s))
	}
	lower, upper := false, false
	for i := 0; i < len(s); i++ {
		c := s[i]
		if c < 33 || c > 126 {
			return "", nil, 0, errf("char", "character 0x%02x out of range at %d", c, i)
		}
		if c >= 'a' && c <= 'z' {
			lower = true
		}
		if c >= 'A' && c <= 'Z' {
			upper = true
		}
	}
	if lower && upper {
		return "", nil, 0, errf("mixed-case", "mixed case")
	}
	s = strings.ToLower(s)
	pos := strings.LastIndexByte(s, '1')
	if pos < 0 {
		return "", nil, 0, errf("separator", "no separator")
	}
	if pos < 1 {
		return "", nil, 0, errf("hrp-length", "empty hrp")
	}
	if pos+7 > len(s) {
		return "", nil, 0, errf("short", "data part shorter than the checksum")
	}
	hrp = s[:pos]
	for i := pos + 1; i < len(s); i++ {
		d := strings.IndexByte(bech32Charset, s[i])
		if d < 0 {
			return "", nil, 0, errf("char", "character %q not in charset at %d", s[i], i)
		}
		data = append(data, byte(d))
	}
	switch polymod(append(hrpExpand(hrp), data...)) {
	case 1:
		enc = Bech32
	case bech32mConst:
		enc = Bech32m
	default:
		return "", nil, 0, errf("checksum", "checksum mismatch")
	}
	return hrp, data[:len(data)-6], enc, nil
}

// ConvertBits is the general power-of-two base conversion of BIP173.
func ConvertBits(data []byte, from, to uint, pad bool) ([]byte, error) {
	acc, bits := uint32(0), uint(0)
	maxv := uint32(1)<<to - 1
	var out []byte
	for _, v := range data {
		if uint32(v)>>from != 0 {
			return nil, errf("data-range", "value out of range")
		}
		acc = acc<<from | uint32(v)
		bits += from
		for bits >= to {
			bits -= to
			out = append(out, byte(acc>>bits&maxv))
		}
	}
	if pad {
		if bits > 0 {
			out = append(out, byte(acc<<(to-bits)&maxv))
		}
	} else {
		if bits >= from {
			return nil, errf("padding", "more than %d padding bits", from-1)
		}
		if acc<<(to-bits)&maxv != 0 {
			return nil, errf("padding", "non-zero padding")
		}
	}
	return out, nil
}

// EncodeSegwit builds a segwit address (BIP173/BIP350): version 0 uses Bech32,
// versions 1..16 Bech32m; program length 2..40, for version 0 exactly 20 or 32.
func EncodeSegwit(hrp string, ver int, prog []byte) (string, error) {
	if ver < 0 || ver > 16 {
		return "", errf("version", "witness version %d", ver)
	}
	if len(prog) < 2 || len(prog) > 40 {
		return "", errf("program-length", "program length %d", len(prog))
	}
	if ver == 0 && len(prog) != 20 && len(prog) != 32 {
		return "", errf("program-length-v0", "v0 program length %d", len(prog))
	}
	d, _ := ConvertBits(prog, 8, 5, true)
	enc := Bech32
	if ver > 0 {
		enc = Bech32m
	}
	return Bech32Encode(hrp, append([]byte{byte(ver)}, d...), enc)
}

// DecodeSegwit decodes a segwit address for the expected (lower-case) hrp.
func DecodeSegwit(hrp, s string) (ver int, prog []byte, err error) {
	h, data, enc, err := Bech32Decode(s)
	if err != nil {
		return 0, nil, err
	}
	if h != hrp {
		return 0, nil, errf("hrp", "hrp %q, expected %q", h, hrp)
	}
	if len(data) < 1 {
		return 0, nil, errf("empty", "empty data part")
	}
	if data[0] > 16 {
		return 0, nil, errf("version", "witness version %d", data[0])
	}
	prog, err = ConvertBits(data[1:], 5, 8, false)
	if err != nil {
		return 0, nil, err
	}
	if len(prog) < 2 || len(prog) > 40 {
		return 0, nil, errf("program-length", "program length %d", len(prog))
	}
	if data[0] == 0 && len(prog) != 20 && len(prog) != 32 {
		return 0, nil, errf("program-length-v0", "v0 program length %d", len(prog))
	}
	if data[0] == 0 && enc != Bech32 {
		return 0, nil, errf("variant", "v0 with Bech32m checksum")
	}
	if data[0] != 0 && enc != Bech32m {
		return 0, nil, errf("variant", "v1+ with Bech32 checksum")
	}
	return int(data[0]), prog, nil
}

// ---------------------------------------------------------------- scripts

// Net describes the address parameters of a network.
type Net struct {
	Name  string
	P2PKH byte
	P2SH  byte
	HRP   string
	WIF   byte
}

var (
	Mainnet = Net{"main", 0, 5, "bc", 0x80}
	Testnet = Net{"test", 111, 196, "tb", 0xef}
	// Litecoin main net: P2PKH 48, P2SH 50 (and the legacy 5), hrp ltc, WIF 176.
	Litecoin = Net{"ltc", 48, 50, "ltc", 0xb0}
)

func NetOf(testnet bool) Net {
	if testnet {
		return Testnet
	}
	return Mainnet
}

func P2PKHScript(h []byte) []byte {
	return append(append([]byte{0x76, 0xa9, 0x14}, h...), 0x88, 0xac)
}

func P2SHScript(h []byte) []byte {
	return append(append([]byte{0xa9, 0x14}, h...), 0x87)
}

// WitnessScript: OP_n <push prog>.
func WitnessScript(ver int, prog []byte) []byte {
	op := byte(0)
	if ver > 0 {
		op = byte(0x50 + ver)
	}
	return append([]byte{op, byte(len(prog))}, prog...)
}

// ParseWitnessScript recognises exactly OP_n (n = 0..16) followed by one direct
// push of 2..40 bytes that ends the script (BIP141).
func ParseWitnessScript(s []byte) (ver int, prog []byte, ok bool) {
	if len(s) < 4 || len(s) > 42 {
		return
	}
	switch {
	case s[0] == 0:
		ver = 0
	case s[0] >= 0x51 && s[0] <= 0x60:
		ver = int(s[0] - 0x50)
	default:
		return
	}
	if int(s[1]) != len(s)-2 {
		return
	}
	return ver, s[2:], true
}

func EncodeP2PKH(hash20 []byte, testnet bool) string {
	return B58CheckEncode(append([]byte{NetOf(testnet).P2PKH}, hash20...))
}

func EncodeP2SH(hash20 []byte, testnet bool) string {
	return B58CheckEncode(append([]byte{NetOf(testnet).P2SH}, hash20...))
}

// Decoded is the result of decoding an address string without fixing a network.
type Decoded struct {
	Kind    string // "p2pkh", "p2sh", "witness", "b58-unknown-version"
	Net     string // "main", "test", "ltc", ""
	Version int    // base58 version byte or witness version
	Data    []byte // hash160 or witness program
	Script  []byte // nil for b58-unknown-version
}

// DecodeAny decodes an address of any of the known networks. A Base58Check
// string with a 21-byte payload but a version byte that denotes no known
// destination is returned with Kind "b58-unknown-version" and a nil script.
// hrps lists the accepted segwit prefixes (e.g. "bc","tb").
func DecodeAny(s string, hrps []string) (*Decoded, error) {
	// A string that is a valid Bech32/Bech32m string with one of the accepted
	// prefixes is judged by the segwit rules alone.
	bh, _, _, berr := Bech32Decode(s)
	if berr == nil {
		for _, hrp := range hrps {
			if bh == hrp {
				ver, prog, err := DecodeSegwit(hrp, s)
				if err != nil {
					return nil, err
				}
				net := map[string]string{"bc": "main", "tb": "test", "ltc": "ltc", "tltc": "ltc-test"}[hrp]
				return &Decoded{Kind: "witness", Net: net, Version: ver, Data: prog, Script: WitnessScript(ver, prog)}, nil
			}
		}
	}
	p, err := B58CheckDecode(s)
	if err != nil {
		// Neither encoding accepts the string. Report the Bech32 reason when the
		// string starts like a segwit address of an accepted prefix.
		for _, hrp := range hrps {
			if len(s) > len(hrp) && strings.ToLower(s[:len(hrp)+1]) == hrp+"1" {
				if berr != nil {
					return nil, berr
				}
				return nil, errf("hrp", "hrp %q not accepted", bh)
			}
		}
		return nil, err
	}
	if len(p) != 21 {
		return nil, errf("b58-payload-length", "payload length %d, expected 21", len(p))
	}
	d := &Decoded{Version: int(p[0]), Data: p[1:]}
	switch p[0] {
	case 0:
		d.Kind, d.Net, d.Script = "p2pkh", "main", P2PKHScript(p[1:])
	case 5:
		d.Kind, d.Net, d.Script = "p2sh", "main", P2SHScript(p[1:])
	case 111:
		d.Kind, d.Net, d.Script = "p2pkh", "test", P2PKHScript(p[1:])
	case 196:
		d.Kind, d.Net, d.Script = "p2sh", "test", P2SHScript(p[1:])
	case 48:
		d.Kind, d.Net, d.Script = "p2pkh", "ltc", P2PKHScript(p[1:])
	case 50:
		d.Kind, d.Net, d.Script = "p2sh", "ltc", P2SHScript(p[1:])
	default:
		d.Kind = "b58-unknown-version"
	}
	return d, nil
}

// DecodeAddress decodes a Bitcoin address of the given network to its output script.
func DecodeAddress(s string, testnet bool) ([]byte, error) {
	n := NetOf(testnet)
	d, err := DecodeAny(s, []string{n.HRP})
	if err != nil {
		return nil, err
	}
	if d.Kind == "b58-unknown-version" || d.Net != n.Name {
		return nil, errf("network", "address version %d does not belong to %s", d.Version, n.Name)
	}
	return d.Script, nil
}

// ScriptToAddress maps P2PKH, P2SH and witness-program scripts to the address
// string; any other script (and a witness program that has no address form:
// v0 with a length other than 20/32) has none.
func ScriptToAddress(script []byte, testnet bool) (string, error) {
	return ScriptToAddressNet(script, NetOf(testnet))
}

func ScriptToAddressNet(script []byte, n Net) (string, error) {
	if len(script) == 25 && script[0] == 0x76 && script[1] == 0xa9 && script[2] == 0x14 && script[23] == 0x88 && script[24] == 0xac {
		return B58CheckEncode(append([]byte{n.P2PKH}, script[3:23]...)), nil
	}
	if len(script) == 23 && script[0] == 0xa9 && script[1] == 0x14 && script[22] == 0x87 {
		return B58CheckEncode(append([]byte{n.P2SH}, script[2:22]...)), nil
	}
	if ver, prog, ok := ParseWitnessScript(script); ok {
		return EncodeSegwit(n.HRP, ver, prog)
	}
	return "", errf("nonstandard", "script has no address form")
}

// ---------------------------------------------------------------- WIF

var secpN, _ = new(big.Int).SetString("fffffffffffffffffffffffffffffffebaaedce6af48a03bbfd25e8cd0364141", 16)

// WIFEncode: Base58Check(version || 32-byte key [|| 0x01 when compressed]).
func WIFEncode(key []byte, compressed bool, version byte) string {
	p := append([]byte{version}, key...)
	if compressed {
		p = append(p, 1)
	}
	return B58CheckEncode(p)
}

// WIFDecode accepts exactly: 33-byte payload (uncompressed) or 34-byte payload
// whose last byte is 0x01 (compressed); the key must be in [1, n-1].
func WIFDecode(s string) (key []byte, compressed bool, version byte, err error) {
	p, err := B58CheckDecode(s)
	if err != nil {
		return nil, false, 0, err
	}
	switch {
	case len(p) == 33:
	case len(p) == 34 && p[33] == 1:
		compressed = true
	case len(p) == 34:
		return nil, false, 0, errf("wif-suffix", "34-byte payload with suffix 0x%02x", p[33])
	default:
		return nil, false, 0, errf("wif-length", "payload length %d", len(p))
	}
	k := new(big.Int).SetBytes(p[1:33])
	if k.Sign() == 0 || k.Cmp(secpN) >= 0 {
		return nil, false, 0, errf("wif-key-range", "key out of range")
	}
	return p[1:33], compressed, p[0], nil
}
