package refhd

import (
	"crypto/hmac"
	"crypto/sha256"
	"crypto/sha512"
	"encoding/hex"
	"errors"
	"fmt"
	"go/ast"
	"go/parser"
	"go/token"
	"hash"
	"path/filepath"
	"strconv"
	"strings"
)

// EnglishSHA256 is the SHA-256 of the BIP39 english.txt (2048 words, each followed by "\n").
const EnglishSHA256 = "2f5eed53a4727b4bf8880d8f3f199efc90e58503646d9ff8eff3a2ed3b24dbda"

var (
	words   []string
	wordIdx map[string]int
)

// LoadWordlist reads the English word list (a data table) from the repository
// file lib/others/bip39/wordlist.go and pins it: the 2048 words joined by "\n"
// plus a trailing newline must hash to EnglishSHA256. Nothing else of that file
// is used.
func LoadWordlist(repo string) error {
	file := filepath.Join(repo, "lib/others/bip39/wordlist.go")
	fs := token.NewFileSet()
	f, err := parser.ParseFile(fs, file, nil, 0)
	if err != nil {
		return err
	}
	var cands []string
	ast.Inspect(f, func(n ast.Node) bool {
		if bl, ok := n.(*ast.BasicLit); ok && bl.Kind == token.STRING {
			if s, err := strconv.Unquote(bl.Value); err == nil && len(s) > 5000 {
				cands = append(cands, s)
			}
		}
		return true
	})
	for _, c := range cands {
		l := strings.Fields(c)
		if len(l) != 2048 {
			continue
		}
		h := sha256.Sum256([]byte(strings.Join(l, "\n") + "\n"))
		if hex.EncodeToString(h[:]) != EnglishSHA256 {
			continue
		}
		words = l
		wordIdx = map[string]int{}
		for i, w := range l {
			wordIdx[w] = i
		}
		return nil
	}
	return fmt.Errorf("no string literal in %s is the pinned BIP39 English word list (sha256 %s)", file, EnglishSHA256)
}

// Words returns the pinned list (nil before LoadWordlist).
func Words() []string { return words }

// Mnemonic: ENT in {128,160,192,224,256}; CS = ENT/32 first bits of SHA256(ent);
// the ENT+CS bits are split in groups of 11 bits, each an index into the list.
func Mnemonic(entropy []byte) (string, error) {
	if words == nil {
		return "", errors.New("word list not loaded")
	}
	n := len(entropy)
	if n < 16 || n > 32 || n%4 != 0 {
		return "", errors.New("entropy length must be 16..32 bytes, multiple of 4")
	}
	h := sha256.Sum256(entropy)
	bits := make([]byte, 0, n*8+n/4)
	for _, b := range entropy {
		for i := 7; i >= 0; i-- {
			bits = append(bits, b>>uint(i)&1)
		}
	}
	for i := 0; i < n/4; i++ {
		bits = append(bits, h[i/8]>>uint(7-i%8)&1)
	}
	var out []string
	for i := 0; i < len(bits); i += 11 {
		v := 0
		for j := 0; j < 11; j++ {
			v = v<<1 | int(bits[i+j])
		}
		out = append(out, words[v])
	}
	return strings.Join(out, " "), nil
}

// Entropy validates a mnemonic (words separated by whitespace; 12/15/18/21/24
// words; every word in the list; checksum bits correct) and returns the entropy.
func Entropy(mnemonic string) ([]byte, error) {
	if words == nil {
		return nil, errors.New("word list not loaded")
	}
	l := strings.Fields(mnemonic)
	if len(l) < 12 || len(l) > 24 || len(l)%3 != 0 {
		return nil, fmt.Errorf("word-count: %d words", len(l))
	}
	bits := make([]byte, 0, len(l)*11)
	for _, w := range l {
		i, ok := wordIdx[w]
		if !ok {
			return nil, fmt.Errorf("unknown-word: %q", w)
		}
		for j := 10; j >= 0; j-- {
			bits = append(bits, byte(i>>uint(j)&1))
		}
	}
	cs := len(bits) / 33
	ent := make([]byte, (len(bits)-cs)/8)
	for i := range ent {
		for j := 0; j < 8; j++ {
			ent[i] = ent[i]<<1 | bits[i*8+j]
		}
	}
	h := sha256.Sum256(ent)
	for i := 0; i < cs; i++ {
		if bits[len(ent)*8+i] != h[i/8]>>uint(7-i%8)&1 {
			return nil, errors.New("checksum: mnemonic checksum mismatch")
		}
	}
	return ent, nil
}

// PBKDF2 (RFC 8018 section 5.2) over HMAC from crypto/hmac.
func PBKDF2(h func() hash.Hash, password, salt []byte, iter, dkLen int) []byte {
	hl := h().Size()
	var dk []byte
	for block := 1; len(dk) < dkLen; block++ {
		m := hmac.New(h, password)
		m.Write(salt)
		m.Write([]byte{byte(block >> 24), byte(block >> 16), byte(block >> 8), byte(block)})
		u := m.Sum(nil)
		t := append([]byte{}, u...)
		for i := 1; i < iter; i++ {
			m = hmac.New(h, password)
			m.Write(u)
			u = m.Sum(nil)
			for j := 0; j < hl; j++ {
				t[j] ^= u[j]
			}
		}
		dk = append(dk, t...)
	}
	return dk[:dkLen]
}

// Seed = PBKDF2-HMAC-SHA512(mnemonic, "mnemonic"+passphrase, 2048, 64). The
// mnemonic is used as given (callers pass the single-space joined sentence; for
// the English list NFKD normalisation is the identity on ASCII).
func Seed(mnemonic, passphrase string) []byte {
	return PBKDF2(sha512.New, []byte(mnemonic), []byte("mnemonic"+passphrase), 2048, 64)
}
