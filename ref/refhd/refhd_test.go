package refhd

import (
	"os"
	"testing"
)

func TestSelfcheck(t *testing.T) {
	repo := os.Getenv("VERIF_REPO")
	if repo == "" {
		repo = "/repo"
	}
	cnt, err := Selfcheck(repo)
	if err != nil {
		t.Fatal(err)
	}
	t.Log(cnt)
}
