package refhd

import (
	"bytes"
	"encoding/hex"
	"fmt"
	"os"
	"path/filepath"
	"regexp"
	"sort"
	"strconv"
	"strings"

	"verif/ref/refaddr"
	"verif/ref/refsecp"
)

// Selfcheck loads and pins the word list and validates this package against
// every vector on disk under repo:
//   - BIP32 test vectors 1 and 2 (lib/btc/wallethd_test.go; the variable names
//     encode the path, e.g. m_0p_1_2p_prv1 = m/0'/1/2' of seed 1), private and
//     public derivation, serialisation and parsing, and the expected address there;
//   - the BIP39 vectors (entropy, mnemonic, seed with passphrase "TREZOR"), the
//     bad sentences and the leading-zero entropies of lib/others/bip39/bip39_test.go;
//   - the scrypt vectors of lib/others/scrypt/scrypt_test.go (N <= 16384);
//   - the WIF -> address samples of lib/btc/wallet_test.go and its public key pair.
func Selfcheck(repo string) (map[string]int, error) {
	cnt := map[string]int{}
	if n, err := refsecp.SelfCheck(); err != nil {
		return nil, fmt.Errorf("refsecp: %v", err)
	} else {
		cnt["refsecp_assertions"] = n
	}
	if err := LoadWordlist(repo); err != nil {
		return nil, err
	}
	cnt["wordlist_words_pinned"] = len(words)

	// ---- BIP32
	lits, err := refaddr.GoLiterals(filepath.Join(repo, "lib/btc/wallethd_test.go"))
	if err != nil {
		return nil, err
	}
	nameRe := regexp.MustCompile(`^m((?:_[0-9]+p?)*)_(pub|prv)([0-9]+)$`)
	var names []string
	for k := range lits {
		names = append(names, k)
	}
	sort.Strings(names)
	for _, name := range names {
		m := nameRe.FindStringSubmatch(name)
		if m == nil {
			continue
		}
		want, _ := lits[name].(string)
		seedHex, _ := lits["masterhex"+m[3]].(string)
		seed, err := hex.DecodeString(seedHex)
		if err != nil || len(seed) == 0 || want == "" {
			return nil, fmt.Errorf("BIP32 vector %s: no seed/value", name)
		}
		var path []uint32
		for _, el := range strings.Split(strings.TrimPrefix(m[1], "_"), "_") {
			if el == "" {
				continue
			}
			h := strings.HasSuffix(el, "p")
			v, err := strconv.ParseUint(strings.TrimSuffix(el, "p"), 10, 31)
			if err != nil {
				return nil, fmt.Errorf("BIP32 vector %s: %v", name, err)
			}
			i := uint32(v)
			if h {
				i |= Hardened
			}
			path = append(path, i)
		}
		master, err := Master(seed)
		if err != nil {
			return nil, err
		}
		k, err := master.Path(path)
		if err != nil {
			return nil, fmt.Errorf("BIP32 vector %s: %v", name, err)
		}
		ver := XPrv
		if m[2] == "pub" {
			ver = XPub
		}
		got, err := k.Serialize(ver)
		if err != nil || got != want {
			return nil, fmt.Errorf("BIP32 vector %s: got %s want %s (%v)", name, got, want, err)
		}
		cnt["bip32_serialize"]++
		pk, pver, err := Parse(want)
		if err != nil || pver != ver {
			return nil, fmt.Errorf("BIP32 vector %s: parse: %v", name, err)
		}
		if re, _ := pk.Serialize(ver); re != want {
			return nil, fmt.Errorf("BIP32 vector %s: parse/serialise round trip", name)
		}
		cnt["bip32_parse_roundtrip"]++
		// public derivation: the parent's public key derives the same public child
		if m[2] == "pub" && len(path) > 0 && path[len(path)-1] < Hardened {
			par, _ := master.Path(path[:len(path)-1])
			c, err := par.Neuter().Child(path[len(path)-1])
			if err != nil {
				return nil, err
			}
			if got, _ := c.Serialize(XPub); got != want {
				return nil, fmt.Errorf("BIP32 vector %s: public derivation gives %s", name, got)
			}
			cnt["bip32_public_derivation"]++
		}
	}
	if cnt["bip32_serialize"] < 20 {
		return nil, fmt.Errorf("only %d BIP32 vectors found in wallethd_test.go", cnt["bip32_serialize"])
	}
	// TestAddress: StringAddress(m_pub2) = expected_addr
	if want, ok := lits["expected_addr"].(string); ok {
		s, _ := lits["m_pub2"].(string)
		k, _, err := Parse(s)
		if err != nil || refaddr.EncodeP2PKH(refaddr.Hash160(k.PubBytes()), false) != want {
			return nil, fmt.Errorf("wallethd_test expected_addr mismatch")
		}
		cnt["bip32_address"]++
	}

	// ---- BIP39
	lits, err = refaddr.GoLiterals(filepath.Join(repo, "lib/others/bip39/bip39_test.go"))
	if err != nil {
		return nil, err
	}
	tv, _ := lits["testVectors"].([]interface{})
	if len(tv) < 20 {
		return nil, fmt.Errorf("only %d BIP39 vectors found", len(tv))
	}
	for _, x := range tv {
		m, _ := x.(map[string]interface{})
		eh, _ := m["entropy"].(string)
		mn, _ := m["mnemonic"].(string)
		sh, _ := m["seed"].(string)
		ent, err := hex.DecodeString(eh)
		if err != nil {
			return nil, err
		}
		got, err := Mnemonic(ent)
		if err != nil || got != mn {
			return nil, fmt.Errorf("BIP39 vector %s: mnemonic %q (%v)", eh, got, err)
		}
		back, err := Entropy(mn)
		if err != nil || !bytes.Equal(back, ent) {
			return nil, fmt.Errorf("BIP39 vector %s: entropy from mnemonic: %v", eh, err)
		}
		if hex.EncodeToString(Seed(mn, "TREZOR")) != sh {
			return nil, fmt.Errorf("BIP39 vector %s: seed", eh)
		}
		cnt["bip39_vectors"]++
	}
	bad, _ := lits["badMnemonicSentences"].([]interface{})
	for _, x := range bad {
		m, _ := x.(map[string]interface{})
		mn, _ := m["mnemonic"].(string)
		if _, err := Entropy(mn); err == nil {
			return nil, fmt.Errorf("BIP39 bad sentence accepted: %q", mn)
		}
		cnt["bip39_bad_sentences"]++
	}
	if len(bad) == 0 {
		return nil, fmt.Errorf("BIP39 bad sentences not found")
	}
	for _, x := range strListOf(lits["ms"]) {
		ent, err := hex.DecodeString(x)
		if err != nil {
			continue
		}
		mn, err := Mnemonic(ent)
		if err != nil {
			return nil, err
		}
		back, err := Entropy(mn)
		if err != nil || !bytes.Equal(back, ent) {
			return nil, fmt.Errorf("BIP39 leading-zero entropy %s does not round trip", x)
		}
		cnt["bip39_leading_zero_roundtrip"]++
	}

	// ---- scrypt
	lits, err = refaddr.GoLiterals(filepath.Join(repo, "lib/others/scrypt/scrypt_test.go"))
	if err != nil {
		return nil, err
	}
	good, _ := lits["good"].([]interface{})
	for _, x := range good {
		l, _ := x.([]interface{})
		if len(l) != 6 {
			continue
		}
		pw, _ := l[0].(string)
		salt, _ := l[1].(string)
		N, _ := l[2].(int64)
		r, _ := l[3].(int64)
		p, _ := l[4].(int64)
		out, _ := l[5].([]byte)
		if N > 16384 || len(out) == 0 {
			continue
		}
		got, err := Scrypt([]byte(pw), []byte(salt), int(N), int(r), int(p), len(out))
		if err != nil || !bytes.Equal(got, out) {
			return nil, fmt.Errorf("scrypt vector (%q,%q,%d,%d,%d): got %x (%v)", pw, salt, N, r, p, got, err)
		}
		cnt["scrypt_vectors"]++
	}
	if cnt["scrypt_vectors"] < 3 {
		return nil, fmt.Errorf("only %d scrypt vectors found", cnt["scrypt_vectors"])
	}
	badv, _ := lits["bad"].([]interface{})
	for _, x := range badv {
		l, _ := x.([]interface{})
		if len(l) != 6 {
			continue
		}
		N, ok1 := l[2].(int64)
		r, ok2 := l[3].(int64)
		p, ok3 := l[4].(int64)
		if !ok1 || !ok2 || !ok3 {
			continue
		}
		if _, err := Scrypt([]byte("p"), []byte("s"), int(N), int(r), int(p), 32); err == nil {
			return nil, fmt.Errorf("scrypt bad parameters (%d,%d,%d) accepted", N, r, p)
		}
		cnt["scrypt_bad_params"]++
	}

	// ---- WIF -> address samples and the key pair of lib/btc/wallet_test.go
	src, err := os.ReadFile(filepath.Join(repo, "lib/btc/wallet_test.go"))
	if err != nil {
		return nil, err
	}
	addrRe := regexp.MustCompile(`BtcAddr\.String\(\)\s*!=\s*"([^"]+)"`)
	for _, part := range strings.Split(string(src), "DecodePrivateAddr(\"")[1:] {
		end := strings.IndexByte(part, '"')
		if end < 0 {
			continue
		}
		am := addrRe.FindStringSubmatch(part)
		if am == nil {
			continue
		}
		key, compr, ver, err := refaddr.WIFDecode(part[:end])
		if err != nil {
			return nil, err
		}
		var pub []byte
		if compr {
			pub, err = PubFromPriv(key)
		} else {
			pub, err = UncompressedFromPriv(key)
		}
		if err != nil {
			return nil, err
		}
		got := refaddr.B58CheckEncode(append([]byte{ver - 0x80}, refaddr.Hash160(pub)...))
		if got != am[1] {
			return nil, fmt.Errorf("wallet_test WIF %s: address %s, expected %s", part[:end], got, am[1])
		}
		cnt["wif_to_address"]++
	}
	if cnt["wif_to_address"] == 0 {
		return nil, fmt.Errorf("no WIF/address samples found in wallet_test.go")
	}
	pairRe := regexp.MustCompile(`prv, _ := hex\.DecodeString\("([0-9a-f]{64})"\)\s*pub, _ := hex\.DecodeString\("([0-9a-f]{66})"\)`)
	for _, m := range pairRe.FindAllStringSubmatch(string(src), -1) {
		prv, _ := hex.DecodeString(m[1])
		pub, err := PubFromPriv(prv)
		if err != nil || hex.EncodeToString(pub) != m[2] {
			return nil, fmt.Errorf("wallet_test key pair %s mismatch", m[1])
		}
		cnt["priv_to_pub"]++
	}
	return cnt, nil
}

func strListOf(v interface{}) []string {
	l, _ := v.([]interface{})
	var r []string
	for _, x := range l {
		if s, ok := x.(string); ok {
			r = append(r, s)
		}
	}
	return r
}
