// Package refhd is the reference model for hierarchical deterministic wallets:
// BIP32 (private and public child derivation, extended key serialisation), BIP39
// (entropy <-> mnemonic, validation, seed) and scrypt (RFC 7914, used by the
// gocoin wallet as an optional password stretch). It is written from the BIP /
// RFC texts on top of Go's standard library, verif/ref/refsecp (math/big affine
// secp256k1) and verif/ref/refaddr (Base58Check, RIPEMD-160). It must not import
// gocoin packages.
package refhd

import (
	"crypto/hmac"
	"crypto/sha512"
	"encoding/binary"
	"errors"
	"fmt"
	"math/big"

	"verif/ref/refaddr"
	"verif/ref/refsecp"
)

// Extended key version bytes (BIP32, SLIP-132).
const (
	XPub = uint32(0x0488B21E)
	XPrv = uint32(0x0488ADE4)
	YPub = uint32(0x049d7cb2)
	YPrv = uint32(0x049d7878)
	ZPub = uint32(0x04b24746)
	ZPrv = uint32(0x04b2430c)
	TPub = uint32(0x043587cf)
	TPrv = uint32(0x04358394)
	UPub = uint32(0x044a5262)
	UPrv = uint32(0x044a4e28)
	VPub = uint32(0x045f1cf6)
	VPrv = uint32(0x045f18bc)
)

var privVersions = map[uint32]uint32{XPrv: XPub, YPrv: YPub, ZPrv: ZPub, TPrv: TPub, UPrv: UPub, VPrv: VPub}

// PublicVersion returns the public counterpart of a private version (or v itself).
func PublicVersion(v uint32) uint32 {
	if p, ok := privVersions[v]; ok {
		return p
	}
	return v
}

func IsPrivateVersion(v uint32) bool { _, ok := privVersions[v]; return ok }
func IsPublicVersion(v uint32) bool {
	for _, p := range privVersions {
		if p == v {
			return true
		}
	}
	return false
}

const Hardened = uint32(0x80000000)

// Key is an extended key. Priv is nil for a public extended key.
type Key struct {
	Depth    byte
	ParentFP [4]byte
	Index    uint32
	Chain    []byte // 32 bytes
	Priv     *big.Int
	Pub      refsecp.Point
}

// CompressPoint is SEC1 compressed encoding.
func CompressPoint(p refsecp.Point) []byte {
	b := make([]byte, 33)
	b[0] = 2 + byte(p.Y.Bit(0))
	copy(b[1:], refsecp.B32(p.X))
	return b
}

// ParseCompressed decodes a SEC1 compressed point (strict: prefix 02/03, x < p,
// x on the curve).
func ParseCompressed(b []byte) (refsecp.Point, error) {
	if len(b) != 33 || (b[0] != 2 && b[0] != 3) {
		return refsecp.Point{}, errors.New("not a compressed public key")
	}
	p, ok := refsecp.LiftXParity(new(big.Int).SetBytes(b[1:]), b[0] == 3)
	if !ok {
		return refsecp.Point{}, errors.New("x is not on the curve")
	}
	return p, nil
}

// PubFromPriv returns the compressed public key of a 32-byte private key.
func PubFromPriv(priv []byte) ([]byte, error) {
	k := new(big.Int).SetBytes(priv)
	if k.Sign() == 0 || k.Cmp(refsecp.N) >= 0 {
		return nil, errors.New("private key out of range")
	}
	return CompressPoint(refsecp.MulG(k)), nil
}

// UncompressedFromPriv returns the 65-byte public key of a 32-byte private key.
func UncompressedFromPriv(priv []byte) ([]byte, error) {
	k := new(big.Int).SetBytes(priv)
	if k.Sign() == 0 || k.Cmp(refsecp.N) >= 0 {
		return nil, errors.New("private key out of range")
	}
	p := refsecp.MulG(k)
	return append(append([]byte{4}, refsecp.B32(p.X)...), refsecp.B32(p.Y)...), nil
}

func hmac512(key []byte, parts ...[]byte) []byte {
	m := hmac.New(sha512.New, key)
	for _, p := range parts {
		m.Write(p)
	}
	return m.Sum(nil)
}

// HMAC512 is HMAC-SHA512 over the concatenation of parts.
func HMAC512(key []byte, parts ...[]byte) []byte { return hmac512(key, parts...) }

// Master: I = HMAC-SHA512("Bitcoin seed", seed); key IL, chain code IR.
// Invalid when IL = 0 or IL >= n.
func Master(seed []byte) (*Key, error) {
	I := hmac512([]byte("Bitcoin seed"), seed)
	k := new(big.Int).SetBytes(I[:32])
	if k.Sign() == 0 || k.Cmp(refsecp.N) >= 0 {
		return nil, errors.New("master key invalid (IL out of range)")
	}
	return &Key{Chain: I[32:], Priv: k, Pub: refsecp.MulG(k)}, nil
}

// PubBytes is serP(K).
func (k *Key) PubBytes() []byte { return CompressPoint(k.Pub) }

// PrivBytes is ser256(k).
func (k *Key) PrivBytes() []byte { return refsecp.B32(k.Priv) }

// Fingerprint: first 32 bits of HASH160(serP(K)).
func (k *Key) Fingerprint() (fp [4]byte) {
	copy(fp[:], refaddr.Hash160(k.PubBytes())[:4])
	return
}

// ErrSkip is returned when BIP32 declares the child invalid (IL >= n, child key
// zero or point at infinity) and the caller should proceed with the next index.
var ErrSkip = errors.New("BIP32: invalid child, proceed with next index")

// Child is CKDpriv for a private parent and CKDpub for a public one.
func (k *Key) Child(i uint32) (*Key, error) {
	var idx [4]byte
	binary.BigEndian.PutUint32(idx[:], i)
	var I []byte
	if k.Priv != nil {
		if i >= Hardened {
			I = hmac512(k.Chain, []byte{0}, k.PrivBytes(), idx[:])
		} else {
			I = hmac512(k.Chain, k.PubBytes(), idx[:])
		}
	} else {
		if i >= Hardened {
			return nil, errors.New("hardened derivation from a public key")
		}
		I = hmac512(k.Chain, k.PubBytes(), idx[:])
	}
	il := new(big.Int).SetBytes(I[:32])
	if il.Cmp(refsecp.N) >= 0 {
		return nil, ErrSkip
	}
	c := &Key{Depth: k.Depth + 1, ParentFP: k.Fingerprint(), Index: i, Chain: I[32:]}
	if k.Priv != nil {
		ck := new(big.Int).Add(il, k.Priv)
		ck.Mod(ck, refsecp.N)
		if ck.Sign() == 0 {
			return nil, ErrSkip
		}
		c.Priv = ck
		c.Pub = refsecp.MulG(ck)
	} else {
		p := refsecp.Add(refsecp.MulG(il), k.Pub)
		if p.Inf {
			return nil, ErrSkip
		}
		c.Pub = p
	}
	return c, nil
}

// ChildScalars is CKDpriv without the point multiplication for the child's public
// key: it returns IL, ser256(child key) and the child chain code. It exists so
// that a caller can SCAN many child indexes of one private parent (one
// HMAC-SHA512 and one modular addition per index) to find children with special
// byte patterns; the nodes found are then derived again with Child. ok is false
// for the BIP32 "invalid child" cases.
func (k *Key) ChildScalars(i uint32) (il, key, chain []byte, ok bool) {
	if k.Priv == nil {
		return nil, nil, nil, false
	}
	var idx [4]byte
	binary.BigEndian.PutUint32(idx[:], i)
	var I []byte
	if i >= Hardened {
		I = hmac512(k.Chain, []byte{0}, k.PrivBytes(), idx[:])
	} else {
		I = hmac512(k.Chain, k.PubBytes(), idx[:])
	}
	x := new(big.Int).SetBytes(I[:32])
	if x.Cmp(refsecp.N) >= 0 {
		return nil, nil, nil, false
	}
	x.Add(x, k.Priv)
	x.Mod(x, refsecp.N)
	if x.Sign() == 0 {
		return nil, nil, nil, false
	}
	return I[:32], refsecp.B32(x), I[32:], true
}

// Neuter returns the public extended key.
func (k *Key) Neuter() *Key {
	c := *k
	c.Priv = nil
	return &c
}

// Path derives along a list of indexes.
func (k *Key) Path(p []uint32) (*Key, error) {
	var err error
	for _, i := range p {
		if k, err = k.Child(i); err != nil {
			return nil, err
		}
	}
	return k, nil
}

// Serialize: version(4) depth(1) parent fingerprint(4) index(4) chain(32)
// key(33: 00||ser256(k) or serP(K)), Base58Check. The version decides which key
// is written: private versions need a private key.
func (k *Key) Serialize(version uint32) (string, error) {
	b := make([]byte, 0, 78)
	var v [4]byte
	binary.BigEndian.PutUint32(v[:], version)
	b = append(b, v[:]...)
	b = append(b, k.Depth)
	b = append(b, k.ParentFP[:]...)
	binary.BigEndian.PutUint32(v[:], k.Index)
	b = append(b, v[:]...)
	b = append(b, k.Chain...)
	switch {
	case IsPrivateVersion(version):
		if k.Priv == nil {
			return "", errors.New("private version for a public key")
		}
		b = append(b, 0)
		b = append(b, k.PrivBytes()...)
	case IsPublicVersion(version):
		b = append(b, k.PubBytes()...)
	default:
		return "", fmt.Errorf("unknown version %08x", version)
	}
	return refaddr.B58CheckEncode(b), nil
}

// Parse decodes an extended key string with the validity rules of BIP32
// ("Serialization format" and test vector 5): 78-byte payload, known version,
// private key 00-prefixed and in [1,n-1], public key 02/03-prefixed and on the
// curve, depth 0 implies zero parent fingerprint and zero index.
func Parse(s string) (*Key, uint32, error) {
	p, err := refaddr.B58CheckDecode(s)
	if err != nil {
		return nil, 0, err
	}
	if len(p) != 78 {
		return nil, 0, fmt.Errorf("xkey-length: payload length %d", len(p))
	}
	version := binary.BigEndian.Uint32(p[:4])
	k := &Key{Depth: p[4], Index: binary.BigEndian.Uint32(p[9:13]), Chain: append([]byte{}, p[13:45]...)}
	copy(k.ParentFP[:], p[5:9])
	switch {
	case IsPrivateVersion(version):
		if p[45] != 0 {
			return nil, version, errors.New("xkey-prvkey-prefix: private key prefix not 00")
		}
		k.Priv = new(big.Int).SetBytes(p[46:78])
		if k.Priv.Sign() == 0 || k.Priv.Cmp(refsecp.N) >= 0 {
			return nil, version, errors.New("xkey-prvkey-range: private key out of range")
		}
		k.Pub = refsecp.MulG(k.Priv)
	case IsPublicVersion(version):
		pt, err := ParseCompressed(p[45:78])
		if err != nil {
			return nil, version, errors.New("xkey-pubkey: " + err.Error())
		}
		k.Pub = pt
	default:
		return nil, version, fmt.Errorf("xkey-version: unknown version %08x", version)
	}
	if k.Depth == 0 && (k.ParentFP != [4]byte{} || k.Index != 0) {
		return nil, version, errors.New("xkey-depth0: zero depth with non-zero parent fingerprint or index")
	}
	return k, version, nil
}

// ParsePath parses "m/0'/1/2'" (also h/H as hardened markers).
func ParsePath(s string) ([]uint32, error) {
	if s == "m" {
		return nil, nil
	}
	if len(s) < 2 || s[:2] != "m/" {
		return nil, errors.New("path must start with m/")
	}
	var out []uint32
	cur, have, hard := uint64(0), false, false
	flush := func() error {
		if !have {
			return errors.New("empty path element")
		}
		v := uint32(cur)
		if hard {
			v |= Hardened
		}
		out = append(out, v)
		cur, have, hard = 0, false, false
		return nil
	}
	for i := 2; i < len(s); i++ {
		c := s[i]
		switch {
		case c >= '0' && c <= '9' && !hard:
			cur = cur*10 + uint64(c-'0')
			have = true
			if cur >= uint64(Hardened) {
				return nil, errors.New("path element out of range")
			}
		case (c == '\'' || c == 'h' || c == 'H') && have && !hard:
			hard = true
		case c == '/':
			if err := flush(); err != nil {
				return nil, err
			}
		default:
			return nil, fmt.Errorf("bad character %q in path", c)
		}
	}
	if err := flush(); err != nil {
		return nil, err
	}
	return out, nil
}

// PathString renders a path as m/a'/b.
func PathString(p []uint32) string {
	s := "m"
	for _, i := range p {
		s += fmt.Sprintf("/%d", i&^Hardened)
		if i >= Hardened {
			s += "'"
		}
	}
	return s
}
