package refhd

import (
	"crypto/sha256"
	"encoding/binary"
	"errors"
)

// scrypt from RFC 7914, written for clarity, not speed.

func rotl(a uint32, b uint) uint32 { return a<<b | a>>(32-b) }

// salsa208 is the Salsa20/8 core of RFC 7914 section 3.
func salsa208(in *[16]uint32) {
	x := *in
	for i := 8; i > 0; i -= 2 {
		x[4] ^= rotl(x[0]+x[12], 7)
		x[8] ^= rotl(x[4]+x[0], 9)
		x[12] ^= rotl(x[8]+x[4], 13)
		x[0] ^= rotl(x[12]+x[8], 18)
		x[9] ^= rotl(x[5]+x[1], 7)
		x[13] ^= rotl(x[9]+x[5], 9)
		x[1] ^= rotl(x[13]+x[9], 13)
		x[5] ^= rotl(x[1]+x[13], 18)
		x[14] ^= rotl(x[10]+x[6], 7)
		x[2] ^= rotl(x[14]+x[10], 9)
		x[6] ^= rotl(x[2]+x[14], 13)
		x[10] ^= rotl(x[6]+x[2], 18)
		x[3] ^= rotl(x[15]+x[11], 7)
		x[7] ^= rotl(x[3]+x[15], 9)
		x[11] ^= rotl(x[7]+x[3], 13)
		x[15] ^= rotl(x[11]+x[7], 18)
		x[1] ^= rotl(x[0]+x[3], 7)
		x[2] ^= rotl(x[1]+x[0], 9)
		x[3] ^= rotl(x[2]+x[1], 13)
		x[0] ^= rotl(x[3]+x[2], 18)
		x[6] ^= rotl(x[5]+x[4], 7)
		x[7] ^= rotl(x[6]+x[5], 9)
		x[4] ^= rotl(x[7]+x[6], 13)
		x[5] ^= rotl(x[4]+x[7], 18)
		x[11] ^= rotl(x[10]+x[9], 7)
		x[8] ^= rotl(x[11]+x[10], 9)
		x[9] ^= rotl(x[8]+x[11], 13)
		x[10] ^= rotl(x[9]+x[8], 18)
		x[12] ^= rotl(x[15]+x[14], 7)
		x[13] ^= rotl(x[12]+x[15], 9)
		x[14] ^= rotl(x[13]+x[12], 13)
		x[15] ^= rotl(x[14]+x[13], 18)
	}
	for i := range x {
		in[i] += x[i]
	}
}

// blockMix: section 4. b holds 2r blocks of 16 words.
func blockMix(b [][16]uint32) [][16]uint32 {
	n := len(b)
	x := b[n-1]
	y := make([][16]uint32, n)
	for i := 0; i < n; i++ {
		for j := range x {
			x[j] ^= b[i][j]
		}
		salsa208(&x)
		y[i] = x
	}
	out := make([][16]uint32, 0, n)
	for i := 0; i < n; i += 2 {
		out = append(out, y[i])
	}
	for i := 1; i < n; i += 2 {
		out = append(out, y[i])
	}
	return out
}

// roMix: section 5.
func roMix(b [][16]uint32, N int) [][16]uint32 {
	x := b
	v := make([][][16]uint32, N)
	for i := 0; i < N; i++ {
		v[i] = x
		x = blockMix(x)
	}
	for i := 0; i < N; i++ {
		last := x[len(x)-1]
		j := int((uint64(last[0]) | uint64(last[1])<<32) % uint64(N))
		t := make([][16]uint32, len(x))
		for k := range x {
			for w := 0; w < 16; w++ {
				t[k][w] = x[k][w] ^ v[j][k][w]
			}
		}
		x = blockMix(t)
	}
	return x
}

// Scrypt: section 6. N must be a power of two greater than 1.
func Scrypt(password, salt []byte, N, r, p, dkLen int) ([]byte, error) {
	if N <= 1 || N&(N-1) != 0 {
		return nil, errors.New("scrypt: N must be > 1 and a power of 2")
	}
	if r <= 0 || p <= 0 || uint64(r)*uint64(p) >= 1<<30 {
		return nil, errors.New("scrypt: parameters out of range")
	}
	B := PBKDF2(sha256.New, password, salt, 1, p*128*r)
	for i := 0; i < p; i++ {
		chunk := B[i*128*r : (i+1)*128*r]
		blocks := make([][16]uint32, 2*r)
		for k := range blocks {
			for w := 0; w < 16; w++ {
				blocks[k][w] = binary.LittleEndian.Uint32(chunk[k*64+w*4:])
			}
		}
		blocks = roMix(blocks, N)
		for k := range blocks {
			for w := 0; w < 16; w++ {
				binary.LittleEndian.PutUint32(chunk[k*64+w*4:], blocks[k][w])
			}
		}
	}
	return PBKDF2(sha256.New, password, B, 1, dkLen), nil
}
