// Package reftx is an independent (de)serialiser for Bitcoin transactions and
// blocks, written from the protocol documentation (BIP141/144). It shares no code
// with gocoin; only crypto/sha256 from the standard library.
package reftx

import (
	"crypto/sha256"
	"encoding/binary"
	"errors"
)

type In struct {
	Prev     [32]byte
	Vout     uint32
	Script   []byte
	Sequence uint32
	Witness  [][]byte // nil = no witness stack
}

type Out struct {
	Value  uint64
	Script []byte
}

type Tx struct {
	Version  uint32
	In       []In
	Out      []Out
	LockTime uint32
}

func DSha(b []byte) (r [32]byte) {
	h := sha256.Sum256(b)
	return sha256.Sum256(h[:])
}

func PutCS(b []byte, n uint64) []byte {
	switch {
	case n < 0xfd:
		return append(b, byte(n))
	case n <= 0xffff:
		return append(b, 0xfd, byte(n), byte(n>>8))
	case n <= 0xffffffff:
		return append(b, 0xfe, byte(n), byte(n>>8), byte(n>>16), byte(n>>24))
	}
	b = append(b, 0xff)
	var t [8]byte
	binary.LittleEndian.PutUint64(t[:], n)
	return append(b, t[:]...)
}

func CSLen(n uint64) int { return len(PutCS(nil, n)) }

func le32(b []byte, v uint32) []byte { return append(b, byte(v), byte(v>>8), byte(v>>16), byte(v>>24)) }
func le64(b []byte, v uint64) []byte {
	var t [8]byte
	binary.LittleEndian.PutUint64(t[:], v)
	return append(b, t[:]...)
}

func (t *Tx) HasWitness() bool {
	for i := range t.In {
		if len(t.In[i].Witness) > 0 {
			return true
		}
	}
	return false
}

// Serialize gives the wire encoding; the BIP144 form is used iff wit && HasWitness().
func (t *Tx) Serialize(wit bool) []byte {
	wit = wit && t.HasWitness()
	b := le32(nil, t.Version)
	if wit {
		b = append(b, 0, 1)
	}
	b = PutCS(b, uint64(len(t.In)))
	for i := range t.In {
		in := &t.In[i]
		b = append(b, in.Prev[:]...)
		b = le32(b, in.Vout)
		b = PutCS(b, uint64(len(in.Script)))
		b = append(b, in.Script...)
		b = le32(b, in.Sequence)
	}
	b = PutCS(b, uint64(len(t.Out)))
	for i := range t.Out {
		b = le64(b, t.Out[i].Value)
		b = PutCS(b, uint64(len(t.Out[i].Script)))
		b = append(b, t.Out[i].Script...)
	}
	if wit {
		for i := range t.In {
			b = PutCS(b, uint64(len(t.In[i].Witness)))
			for _, w := range t.In[i].Witness {
				b = PutCS(b, uint64(len(w)))
				b = append(b, w...)
			}
		}
	}
	return le32(b, t.LockTime)
}

func (t *Tx) TxID() [32]byte  { return DSha(t.Serialize(false)) }
func (t *Tx) WTxID() [32]byte { return DSha(t.Serialize(true)) }
func (t *Tx) Size() int       { return len(t.Serialize(true)) }
func (t *Tx) BaseSize() int   { return len(t.Serialize(false)) }
func (t *Tx) Weight() int     { return 3*t.BaseSize() + t.Size() }
func (t *Tx) VSize() int      { return (t.Weight() + 3) / 4 }

func (t *Tx) IsCoinbase() bool {
	return len(t.In) == 1 && t.In[0].Prev == [32]byte{} && t.In[0].Vout == 0xffffffff
}

// Merkle computes the root and Core's "mutated" flag (CVE-2012-2459 detection).
func Merkle(leaves [][32]byte) (root [32]byte, mutated bool) {
	if len(leaves) == 0 {
		return
	}
	l := append([][32]byte{}, leaves...)
	for len(l) > 1 {
		for i := 0; i+1 < len(l); i += 2 {
			if l[i] == l[i+1] {
				mutated = true
			}
		}
		if len(l)&1 == 1 {
			l = append(l, l[len(l)-1])
		}
		n := make([][32]byte, len(l)/2)
		for i := range n {
			n[i] = DSha(append(append([]byte{}, l[2*i][:]...), l[2*i+1][:]...))
		}
		l = n
	}
	return l[0], mutated
}

type Header struct {
	Version uint32
	Prev    [32]byte
	Merkle  [32]byte
	Time    uint32
	Bits    uint32
	Nonce   uint32
}

func (h *Header) Bytes() []byte {
	b := le32(nil, h.Version)
	b = append(b, h.Prev[:]...)
	b = append(b, h.Merkle[:]...)
	b = le32(b, h.Time)
	b = le32(b, h.Bits)
	return le32(b, h.Nonce)
}

func (h *Header) Hash() [32]byte { return DSha(h.Bytes()) }

type Block struct {
	Header
	Txs []*Tx
}

func (b *Block) TxIDs() [][32]byte {
	r := make([][32]byte, len(b.Txs))
	for i, t := range b.Txs {
		r[i] = t.TxID()
	}
	return r
}

func (b *Block) Bytes() []byte {
	r := b.Header.Bytes()
	r = PutCS(r, uint64(len(b.Txs)))
	for _, t := range b.Txs {
		r = append(r, t.Serialize(true)...)
	}
	return r
}

func (b *Block) Weight() int {
	w := 4 * (80 + CSLen(uint64(len(b.Txs))))
	for _, t := range b.Txs {
		w += t.Weight()
	}
	return w
}

// WitnessRoot: merkle root over wtxids with the coinbase's replaced by zero.
func (b *Block) WitnessRoot() [32]byte {
	l := make([][32]byte, len(b.Txs))
	for i, t := range b.Txs {
		if i > 0 {
			l[i] = t.WTxID()
		}
	}
	r, _ := Merkle(l)
	return r
}

// CommitmentScript returns the BIP141 commitment output script for a nonce.
func (b *Block) CommitmentScript(nonce []byte) []byte {
	wr := b.WitnessRoot()
	c := DSha(append(wr[:], nonce...))
	return append([]byte{0x6a, 0x24, 0xaa, 0x21, 0xa9, 0xed}, c[:]...)
}

// ---- decoding, with the checks Bitcoin Core's deserialiser performs ----

const MaxSize = 0x02000000

var ErrTrunc = errors.New("truncated")
var ErrNonCanonical = errors.New("non-canonical CompactSize")
var ErrTooLarge = errors.New("size too large")

type rd struct {
	b []byte
	p int
}

func (r *rd) need(n int) error {
	if n < 0 || len(r.b)-r.p < n {
		return ErrTrunc
	}
	return nil
}
func (r *rd) u8() (byte, error) {
	if err := r.need(1); err != nil {
		return 0, err
	}
	r.p++
	return r.b[r.p-1], nil
}
func (r *rd) u32() (uint32, error) {
	if err := r.need(4); err != nil {
		return 0, err
	}
	r.p += 4
	return binary.LittleEndian.Uint32(r.b[r.p-4:]), nil
}
func (r *rd) u64() (uint64, error) {
	if err := r.need(8); err != nil {
		return 0, err
	}
	r.p += 8
	return binary.LittleEndian.Uint64(r.b[r.p-8:]), nil
}

// cs reads a CompactSize as ReadCompactSize(range_check=true) does.
func (r *rd) cs() (uint64, error) {
	c, err := r.u8()
	if err != nil {
		return 0, err
	}
	var v uint64
	switch c {
	case 0xfd:
		if err := r.need(2); err != nil {
			return 0, err
		}
		v = uint64(binary.LittleEndian.Uint16(r.b[r.p:]))
		r.p += 2
		if v < 0xfd {
			return 0, ErrNonCanonical
		}
	case 0xfe:
		x, err := r.u32()
		if err != nil {
			return 0, err
		}
		v = uint64(x)
		if v < 0x10000 {
			return 0, ErrNonCanonical
		}
	case 0xff:
		x, err := r.u64()
		if err != nil {
			return 0, err
		}
		v = x
		if v < 0x100000000 {
			return 0, ErrNonCanonical
		}
	default:
		v = uint64(c)
	}
	if v > MaxSize {
		return 0, ErrTooLarge
	}
	return v, nil
}

func (r *rd) bytes() ([]byte, error) {
	n, err := r.cs()
	if err != nil {
		return nil, err
	}
	if err := r.need(int(n)); err != nil {
		return nil, err
	}
	b := append([]byte{}, r.b[r.p:r.p+int(n)]...)
	r.p += int(n)
	return b, nil
}

func (r *rd) ins() ([]In, error) {
	n, err := r.cs()
	if err != nil {
		return nil, err
	}
	var l []In
	for i := uint64(0); i < n; i++ {
		var in In
		if err := r.need(36); err != nil {
			return nil, err
		}
		copy(in.Prev[:], r.b[r.p:])
		r.p += 32
		in.Vout, _ = r.u32()
		if in.Script, err = r.bytes(); err != nil {
			return nil, err
		}
		if in.Sequence, err = r.u32(); err != nil {
			return nil, err
		}
		l = append(l, in)
	}
	return l, nil
}

func (r *rd) outs() ([]Out, error) {
	n, err := r.cs()
	if err != nil {
		return nil, err
	}
	var l []Out
	for i := uint64(0); i < n; i++ {
		var o Out
		if o.Value, err = r.u64(); err != nil {
			return nil, err
		}
		if o.Script, err = r.bytes(); err != nil {
			return nil, err
		}
		l = append(l, o)
	}
	return l, nil
}

var ErrSuperfluousWitness = errors.New("Superfluous witness record")
var ErrUnknownOptional = errors.New("Unknown transaction optional data")

// DecodeTx follows UnserializeTransaction (with witness allowed). It returns the
// number of bytes consumed.
func DecodeTx(b []byte) (*Tx, int, error) {
	r := &rd{b: b}
	t := new(Tx)
	var err error
	if t.Version, err = r.u32(); err != nil {
		return nil, 0, err
	}
	if t.In, err = r.ins(); err != nil {
		return nil, 0, err
	}
	var flags byte
	if len(t.In) == 0 {
		if flags, err = r.u8(); err != nil {
			return nil, 0, err
		}
		if flags != 0 {
			if t.In, err = r.ins(); err != nil {
				return nil, 0, err
			}
			if t.Out, err = r.outs(); err != nil {
				return nil, 0, err
			}
		}
	} else {
		if t.Out, err = r.outs(); err != nil {
			return nil, 0, err
		}
	}
	if flags&1 != 0 {
		flags ^= 1
		any := false
		for i := range t.In {
			n, err := r.cs()
			if err != nil {
				return nil, 0, err
			}
			t.In[i].Witness = [][]byte{}
			for j := uint64(0); j < n; j++ {
				w, err := r.bytes()
				if err != nil {
					return nil, 0, err
				}
				t.In[i].Witness = append(t.In[i].Witness, w)
			}
			if n > 0 {
				any = true
			}
		}
		if !any {
			return nil, 0, ErrSuperfluousWitness
		}
	}
	if flags != 0 {
		return nil, 0, ErrUnknownOptional
	}
	if t.LockTime, err = r.u32(); err != nil {
		return nil, 0, err
	}
	return t, r.p, nil
}
