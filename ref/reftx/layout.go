package reftx

// Span describes one field of a serialised transaction: where it sits in the byte
// string and, for CompactSize fields, its value. Used by explorers that rewrite single
// fields (non-minimal length prefixes, huge counts, ...).
type Span struct {
	Kind string // "version","marker","cs:nin","prev","vout","cs:scriptsig","scriptsig","sequence","cs:nout","value","cs:pkscript","pkscript","cs:nwit","cs:witem","witem","locktime"
	Off  int
	Len  int
	Val  uint64 // CompactSize value (Kind starts with "cs:")
}

// Layout serialises like Serialize(wit) and also returns the field map.
// forceWit = true writes marker/flag and witness stacks even when all are empty.
func (t *Tx) Layout(wit bool, forceWit bool) (b []byte, sp []Span) {
	wit = (wit && t.HasWitness()) || forceWit
	add := func(kind string, data []byte, val uint64) {
		sp = append(sp, Span{Kind: kind, Off: len(b), Len: len(data), Val: val})
		b = append(b, data...)
	}
	cs := func(kind string, n uint64) { add(kind, PutCS(nil, n), n) }
	add("version", le32(nil, t.Version), 0)
	if wit {
		add("marker", []byte{0, 1}, 0)
	}
	cs("cs:nin", uint64(len(t.In)))
	for i := range t.In {
		in := &t.In[i]
		add("prev", in.Prev[:], 0)
		add("vout", le32(nil, in.Vout), 0)
		cs("cs:scriptsig", uint64(len(in.Script)))
		add("scriptsig", in.Script, 0)
		add("sequence", le32(nil, in.Sequence), 0)
	}
	cs("cs:nout", uint64(len(t.Out)))
	for i := range t.Out {
		add("value", le64(nil, t.Out[i].Value), 0)
		cs("cs:pkscript", uint64(len(t.Out[i].Script)))
		add("pkscript", t.Out[i].Script, 0)
	}
	if wit {
		for i := range t.In {
			cs("cs:nwit", uint64(len(t.In[i].Witness)))
			for _, w := range t.In[i].Witness {
				cs("cs:witem", uint64(len(w)))
				add("witem", w, 0)
			}
		}
	}
	add("locktime", le32(nil, t.LockTime), 0)
	return
}

// PutCSForm encodes n in the CompactSize form of the given total width (1, 3, 5 or 9
// bytes) whether or not that form is the minimal one. ok=false if n does not fit.
func PutCSForm(n uint64, width int) (b []byte, ok bool) {
	switch width {
	case 1:
		if n >= 0xfd {
			return nil, false
		}
		return []byte{byte(n)}, true
	case 3:
		if n > 0xffff {
			return nil, false
		}
		return []byte{0xfd, byte(n), byte(n >> 8)}, true
	case 5:
		if n > 0xffffffff {
			return nil, false
		}
		return []byte{0xfe, byte(n), byte(n >> 8), byte(n >> 16), byte(n >> 24)}, true
	case 9:
		return le64([]byte{0xff}, n), true
	}
	return nil, false
}
