package reftx

import "fmt"

// BlockErr tells where block decoding failed: Stage "header", "count" or "tx"
// (then Index is the transaction's position).
type BlockErr struct {
	Stage string
	Index int
	Err   error
}

func (e *BlockErr) Error() string {
	if e.Stage == "tx" {
		return fmt.Sprintf("tx %d: %v", e.Index, e.Err)
	}
	return e.Stage + ": " + e.Err.Error()
}

func (e *BlockErr) Unwrap() error { return e.Err }

// DecodeBlock follows Bitcoin Core's CBlock deserialisation: 80-byte header, canonical
// CompactSize transaction count (<= MAX_SIZE), then that many transactions in the
// BIP144 format. Returns the bytes consumed; trailing bytes are left to the caller (as
// with a stream). A block with zero transactions deserialises (it is CheckBlock that
// refuses it).
func DecodeBlock(b []byte) (*Block, int, error) {
	if len(b) < 80 {
		return nil, 0, &BlockErr{Stage: "header", Err: ErrTrunc}
	}
	r := &rd{b: b}
	bl := new(Block)
	bl.Version, _ = r.u32()
	copy(bl.Prev[:], b[4:36])
	copy(bl.Merkle[:], b[36:68])
	r.p = 68
	bl.Time, _ = r.u32()
	bl.Bits, _ = r.u32()
	bl.Nonce, _ = r.u32()
	n, err := r.cs()
	if err != nil {
		return nil, 0, &BlockErr{Stage: "count", Err: err}
	}
	for i := uint64(0); i < n; i++ {
		t, k, err := DecodeTx(b[r.p:])
		if err != nil {
			return nil, 0, &BlockErr{Stage: "tx", Index: int(i), Err: err}
		}
		r.p += k
		bl.Txs = append(bl.Txs, t)
	}
	return bl, r.p, nil
}
