// Package refchain is the reference model of a validating node: a block tree with
// exact integer work, best-valid-tip selection with first-seen tie break, and an
// unspent-output map obtained by replaying a branch from genesis.
// Independent of gocoin (uses only reftx and math/big).
package refchain

import (
	"crypto/sha256"
	"encoding/hex"
	"fmt"
	"math/big"
	"sort"
	"strings"
	"sync"

	"verif/ref/reftx"
)

type Outpoint struct {
	Tx   [32]byte
	Vout uint32
}

type Coin struct {
	Value    uint64
	Script   []byte
	Height   uint32
	Coinbase bool
}

type UTXO map[Outpoint]Coin

// ScriptVerifier decides one input; nil means "use Trivial".
type ScriptVerifier func(tx *reftx.Tx, idx int, spent []Coin, flags Flags) bool

type Flags struct{ P2SH, DERSIG, CLTV, CSV, Witness, NullDummy, Taproot bool }

type Params struct {
	BIP34, BIP66, BIP65, CSV, Segwit, Taproot uint32 // activation heights (0 for CSV/Segwit/Taproot = never)
	Maturity                                  uint32
	MaxMoney                                  uint64
	MaxSigopCost                              uint32
	EnforceBIP68                              bool
	Verify                                    ScriptVerifier
	SigopCost                                 func(tx *reftx.Tx, spent []Coin, flags Flags) uint32 // nil: 0
	Net                                       int                                                   // 0: main rules; 3 / 4: the difficulty exceptions of testnet3 / testnet4
}

func DefaultParams() Params {
	return Params{BIP34: 2, BIP66: 3, BIP65: 4, CSV: 5, Segwit: 6, Taproot: 7, Maturity: 100,
		MaxMoney: 21000000 * 100000000, MaxSigopCost: 80000, EnforceBIP68: true}
}

func (p *Params) FlagsAt(height uint32) (f Flags) {
	f.P2SH = true
	f.DERSIG = height >= p.BIP66
	f.CLTV = height >= p.BIP65
	f.CSV = p.CSV != 0 && height >= p.CSV
	f.Witness = p.Segwit != 0 && height >= p.Segwit
	f.NullDummy = f.Witness
	f.Taproot = p.Taproot != 0 && height >= p.Taproot
	return
}

// Trivial evaluates the tiny script language the mini-chain uses when the rule
// under test is not about scripts: empty scriptSig / witness and a one-byte
// scriptPubKey OP_1..OP_16 (true), OP_0 (false), or OP_RETURN… (false).
func Trivial(tx *reftx.Tx, idx int, spent []Coin, flags Flags) bool {
	in := &tx.In[idx]
	pk := spent[idx].Script
	if len(in.Script) != 0 || len(in.Witness) != 0 {
		panic("refchain.Trivial: non-empty scriptSig/witness needs a real verifier")
	}
	if len(pk) == 1 && pk[0] >= 0x51 && pk[0] <= 0x60 {
		return true
	}
	if len(pk) == 1 && pk[0] == 0x00 {
		return false
	}
	if len(pk) >= 1 && pk[0] == 0x6a {
		return false
	}
	panic(fmt.Sprintf("refchain.Trivial: unsupported script %x", pk))
}

func Subsidy(height uint32) uint64 {
	h := height / 210000
	if h >= 64 {
		return 0
	}
	return uint64(50*100000000) >> h
}

func Work(bits uint32) *big.Int {
	t := Target(bits)
	if t.Sign() <= 0 {
		return new(big.Int)
	}
	d := new(big.Int).Add(t, big.NewInt(1))
	return new(big.Int).Div(new(big.Int).Lsh(big.NewInt(1), 256), d)
}

// Target decodes the compact form as Core's arith_uint256::SetCompact does
// (negative or overflowing encodings give a target that nothing can meet).
func Target(bits uint32) *big.Int {
	exp := bits >> 24
	mant := bits & 0x007fffff
	neg := bits&0x00800000 != 0
	var t *big.Int
	if exp <= 3 {
		t = big.NewInt(int64(mant >> (8 * (3 - exp))))
	} else {
		t = new(big.Int).Lsh(big.NewInt(int64(mant)), uint(8*(exp-3)))
	}
	if mant != 0 && neg {
		return big.NewInt(-1)
	}
	if mant != 0 && (exp > 34 || (mant > 0xff && exp > 33) || (mant > 0xffff && exp > 32)) {
		return big.NewInt(-1) // overflow
	}
	return t
}

type Node struct {
	Hash    [32]byte
	Parent  *Node
	Height  uint32
	Block   *reftx.Block // nil for genesis
	CumWork *big.Int
	Seq     int
	Time    uint32
	Bits    uint32

	validKnown bool
	valid      bool
	why        string
	utxo       UTXO // set after this node's chain was found valid
}

type Model struct {
	P       Params
	Genesis *Node
	Nodes   map[[32]byte]*Node
	seq     int
}

func New(p Params, genesisHash [32]byte, genesisTime, genesisBits uint32) *Model {
	g := &Node{Hash: genesisHash, CumWork: new(big.Int), Time: genesisTime, Bits: genesisBits, validKnown: true, valid: true, utxo: UTXO{}}
	return &Model{P: p, Genesis: g, Nodes: map[[32]byte]*Node{genesisHash: g}}
}

// Add registers a block whose parent is known. Returns nil if the parent is unknown
// or the block is already known.
func (m *Model) Add(b *reftx.Block) *Node {
	h := b.Hash()
	if _, ok := m.Nodes[h]; ok {
		return nil
	}
	par, ok := m.Nodes[b.Prev]
	if !ok {
		return nil
	}
	m.seq++
	n := &Node{Hash: h, Parent: par, Height: par.Height + 1, Block: b, Seq: m.seq, Time: b.Time, Bits: b.Bits}
	n.CumWork = new(big.Int).Add(par.CumWork, Work(b.Bits))
	m.Nodes[h] = n
	return n
}

// Forget removes a node (and descendants) — used when the implementation is
// allowed to drop an invalid block so that a re-delivery is a fresh arrival.
func (m *Model) Forget(n *Node) {
	for h, x := range m.Nodes {
		for y := x; y != nil; y = y.Parent {
			if y == n {
				delete(m.Nodes, h)
				break
			}
		}
	}
}

func (m *Model) Path(n *Node) []*Node {
	var p []*Node
	for x := n; x.Parent != nil; x = x.Parent {
		p = append(p, x)
	}
	for i, j := 0, len(p)-1; i < j; i, j = i+1, j-1 {
		p[i], p[j] = p[j], p[i]
	}
	return p
}

// ConnectErr explains why connecting b at the given height on top of u fails, or "".
// On success u is updated in place; on failure u is left untouched.
func (m *Model) Connect(u UTXO, b *reftx.Block, height uint32) string {
	return m.ConnectOn(u, b, height, nil)
}

// ConnectOn is Connect with the parent node known, which enables the BIP68 rule.
func (m *Model) ConnectOn(u UTXO, b *reftx.Block, height uint32, parent *Node) string {
	p := &m.P
	flags := p.FlagsAt(height)
	type delta struct {
		op  Outpoint
		c   Coin
		add bool
	}
	var log []delta
	undo := func() {
		for i := len(log) - 1; i >= 0; i-- {
			d := log[i]
			if d.add {
				delete(u, d.op)
			} else {
				u[d.op] = d.c
			}
		}
	}
	var fees uint64
	var sigops uint64
	for ti, tx := range b.Txs {
		var outsum uint64
		for _, o := range tx.Out {
			if o.Value > p.MaxMoney {
				undo()
				return "output value out of range"
			}
			outsum += o.Value
			if outsum > p.MaxMoney {
				undo()
				return "output total out of range"
			}
		}
		id := tx.TxID()
		var spent []Coin
		if ti > 0 {
			var insum uint64
			for _, in := range tx.In {
				op := Outpoint{in.Prev, in.Vout}
				c, ok := u[op]
				if !ok {
					undo()
					return "missing or spent input"
				}
				if c.Coinbase && height-c.Height < p.Maturity {
					undo()
					return "immature coinbase spend"
				}
				insum += c.Value
				if c.Value > p.MaxMoney || insum > p.MaxMoney {
					undo()
					return "input total out of range"
				}
				spent = append(spent, c)
				delete(u, op)
				log = append(log, delta{op, c, false})
			}
			if insum < outsum {
				undo()
				return "inputs do not cover outputs"
			}
			fees += insum - outsum
			if fees > p.MaxMoney {
				undo()
				return "fee total out of range"
			}
			if p.EnforceBIP68 && flags.CSV && parent != nil && !m.SequenceLocksOK(tx, spent, parent) {
				undo()
				return "relative lock-time not satisfied"
			}
			v := p.Verify
			if v == nil {
				v = Trivial
			}
			for i := range tx.In {
				if !v(tx, i, spent, flags) {
					undo()
					return "script verification failed"
				}
			}
		}
		if p.SigopCost != nil {
			sigops += uint64(p.SigopCost(tx, spent, flags))
		}
		for i, o := range tx.Out {
			op := Outpoint{id, uint32(i)}
			// (BIP30 overwrite semantics are not part of the property; harness never duplicates txids)
			u[op] = Coin{o.Value, o.Script, height, ti == 0}
			log = append(log, delta{op, Coin{}, true})
		}
	}
	if sigops > uint64(p.MaxSigopCost) {
		undo()
		return "sigop cost too high"
	}
	var cb uint64
	for _, o := range b.Txs[0].Out {
		cb += o.Value
	}
	if cb > Subsidy(height)+fees {
		undo()
		return "coinbase claims too much"
	}
	return ""
}

// ReplayTo replays genesis..n and returns the UTXO set, or the first failing node.
func (m *Model) ReplayTo(n *Node) (UTXO, *Node, string) {
	u := UTXO{}
	for _, x := range m.Path(n) {
		if why := m.ConnectOn(u, x.Block, x.Height, x.Parent); why != "" {
			return nil, x, why
		}
	}
	return u, nil, ""
}

func (m *Model) Valid(n *Node) bool {
	if n.validKnown {
		return n.valid
	}
	if n.Parent != nil && !m.Valid(n.Parent) {
		n.validKnown, n.valid, n.why = true, false, "parent invalid"
		return false
	}
	u := UTXO{}
	for k, v := range m.utxoOf(n.Parent) {
		u[k] = v
	}
	why := m.ConnectOn(u, n.Block, n.Height, n.Parent)
	cacheMu.Lock()
	n.validKnown = true
	n.valid = why == ""
	n.why = why
	if n.valid {
		n.utxo = u
	}
	cacheMu.Unlock()
	return n.valid
}

// The per-node unspent sets are a cache: Compact drops them far from the leaves (a long
// linear prefix would otherwise hold one full copy per block) and utxoOf rebuilds a
// dropped one by replaying from the nearest ancestor that still has its set. Nodes are
// shared between a model and its clones, so the cache is filled under one lock.
var cacheMu sync.Mutex

func (m *Model) utxoOf(n *Node) UTXO {
	cacheMu.Lock()
	defer cacheMu.Unlock()
	if n.utxo != nil {
		return n.utxo
	}
	var path []*Node
	a := n
	for a.utxo == nil {
		path = append(path, a)
		a = a.Parent
	}
	u := UTXO{}
	for k, v := range a.utxo {
		u[k] = v
	}
	for i := len(path) - 1; i >= 0; i-- {
		x := path[i]
		if why := m.ConnectOn(u, x.Block, x.Height, x.Parent); why != "" {
			panic("refchain: a node known to be valid does not replay: " + why)
		}
	}
	n.utxo = u
	return u
}

// Compact drops the cached unspent sets of all valid nodes that are more than keep
// blocks above every leaf. Call it only while no clone of the model is in use.
func (m *Model) Compact(keep int) {
	cacheMu.Lock()
	defer cacheMu.Unlock()
	hasChild := map[*Node]bool{}
	for _, n := range m.Nodes {
		if n.Parent != nil {
			hasChild[n.Parent] = true
		}
	}
	near := map[*Node]bool{}
	for _, n := range m.Nodes {
		if hasChild[n] {
			continue
		}
		x := n
		for i := 0; i <= keep && x != nil; i++ {
			near[x] = true
			x = x.Parent
		}
	}
	for _, n := range m.Nodes {
		if n.Parent != nil && !near[n] {
			n.utxo = nil
		}
	}
}

// UTXOAt returns the unspent set after a valid node (a copy).
func (m *Model) UTXOAt(n *Node) UTXO {
	if !m.Valid(n) {
		return nil
	}
	u := UTXO{}
	for k, v := range m.utxoOf(n) {
		u[k] = v
	}
	return u
}

// Clone gives a model sharing the (immutable, already validated) nodes of m; nodes
// added to the clone are not seen by m.
func (m *Model) Clone() *Model {
	c := &Model{P: m.P, Genesis: m.Genesis, Nodes: make(map[[32]byte]*Node, len(m.Nodes)+8), seq: m.seq}
	for k, v := range m.Nodes {
		m.Valid(v)
		c.Nodes[k] = v
	}
	return c
}

func (m *Model) Why(n *Node) string { m.Valid(n); return n.why }

// BestTips returns the valid nodes of maximal cumulative work ordered by arrival.
func (m *Model) BestTips() []*Node {
	var best []*Node
	for _, n := range m.Nodes {
		if !m.Valid(n) {
			continue
		}
		if len(best) == 0 || n.CumWork.Cmp(best[0].CumWork) > 0 {
			best = []*Node{n}
		} else if n.CumWork.Cmp(best[0].CumWork) == 0 {
			best = append(best, n)
		}
	}
	sort.Slice(best, func(i, j int) bool { return best[i].Seq < best[j].Seq })
	return best
}

// Dump gives a canonical text form of a UTXO set and its hash.
func Dump(u UTXO) (string, string) {
	l := make([]string, 0, len(u))
	for op, c := range u {
		cb := 0
		if c.Coinbase {
			cb = 1
		}
		if len(c.Script) > 64 { // long scripts by length and hash: the text stays small and cheap
			sh := sha256.Sum256(c.Script)
			l = append(l, fmt.Sprintf("%x:%d v=%d h=%d cb=%d s=[%d bytes, sha256 %x]", op.Tx, op.Vout, c.Value, c.Height, cb, len(c.Script), sh[:12]))
			continue
		}
		l = append(l, fmt.Sprintf("%x:%d v=%d h=%d cb=%d s=%x", op.Tx, op.Vout, c.Value, c.Height, cb, c.Script))
	}
	sort.Strings(l)
	h := sha256.New()
	var sb strings.Builder
	for _, x := range l {
		sb.WriteString(x)
		sb.WriteByte('\n')
	}
	h.Write([]byte(sb.String()))
	return sb.String(), hex.EncodeToString(h.Sum(nil)[:8])
}
