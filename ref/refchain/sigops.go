package refchain

import "verif/ref/reftx"

// Signature-operation cost exactly as Bitcoin Core's GetTransactionSigOpCost.

// getOp parses one opcode; ok=false on a truncated push.
func getOp(s []byte, pc int) (op byte, data []byte, next int, ok bool) {
	if pc >= len(s) {
		return 0, nil, pc, false
	}
	op = s[pc]
	pc++
	if op > 0x4e {
		return op, nil, pc, true
	}
	var n int
	switch {
	case op < 0x4c:
		n = int(op)
	case op == 0x4c:
		if len(s)-pc < 1 {
			return op, nil, pc, false
		}
		n = int(s[pc])
		pc++
	case op == 0x4d:
		if len(s)-pc < 2 {
			return op, nil, pc, false
		}
		n = int(s[pc]) | int(s[pc+1])<<8
		pc += 2
	default:
		if len(s)-pc < 4 {
			return op, nil, pc, false
		}
		n = int(s[pc]) | int(s[pc+1])<<8 | int(s[pc+2])<<16 | int(s[pc+3])<<24
		pc += 4
	}
	if n < 0 || len(s)-pc < n {
		return op, nil, pc, false
	}
	return op, s[pc : pc+n], pc + n, true
}

func ScriptSigOps(s []byte, accurate bool) uint32 {
	var n uint32
	last := byte(0xff)
	for pc := 0; pc < len(s); {
		op, _, next, ok := getOp(s, pc)
		if !ok {
			break
		}
		pc = next
		switch op {
		case 0xac, 0xad:
			n++
		case 0xae, 0xaf:
			if accurate && last >= 0x51 && last <= 0x60 {
				n += uint32(last - 0x50)
			} else {
				n += 20
			}
		}
		last = op
	}
	return n
}

func IsP2SH(s []byte) bool {
	return len(s) == 23 && s[0] == 0xa9 && s[1] == 0x14 && s[22] == 0x87
}

// p2shSigOps is CScript::GetSigOpCount(scriptSig) for a P2SH output.
func p2shSigOps(scriptSig []byte) uint32 {
	var data []byte
	for pc := 0; pc < len(scriptSig); {
		op, d, next, ok := getOp(scriptSig, pc)
		if !ok {
			return 0
		}
		if op > 0x60 {
			return 0
		}
		data = d
		pc = next
	}
	return ScriptSigOps(data, true)
}

func witnessProgram(s []byte) (ver int, prog []byte, ok bool) {
	if len(s) < 4 || len(s) > 42 {
		return
	}
	if s[0] != 0 && (s[0] < 0x51 || s[0] > 0x60) {
		return
	}
	if int(s[1])+2 != len(s) {
		return
	}
	ver = 0
	if s[0] != 0 {
		ver = int(s[0] - 0x50)
	}
	return ver, s[2:], true
}

func isPushOnly(s []byte) bool {
	for pc := 0; pc < len(s); {
		op, _, next, ok := getOp(s, pc)
		if !ok || op > 0x60 {
			return false
		}
		pc = next
	}
	return true
}

func witnessSigOps(ver int, prog []byte, wit [][]byte) uint32 {
	if ver == 0 {
		if len(prog) == 20 {
			return 1
		}
		if len(prog) == 32 && len(wit) > 0 {
			return ScriptSigOps(wit[len(wit)-1], true)
		}
	}
	return 0
}

// SigOpCost of one transaction given the coins it spends.
func SigOpCost(tx *reftx.Tx, spent []Coin, f Flags) uint32 {
	var legacy uint32
	for _, in := range tx.In {
		legacy += ScriptSigOps(in.Script, false)
	}
	for _, o := range tx.Out {
		legacy += ScriptSigOps(o.Script, false)
	}
	cost := legacy * 4
	if tx.IsCoinbase() {
		return cost
	}
	if f.P2SH {
		for i, in := range tx.In {
			if IsP2SH(spent[i].Script) {
				cost += 4 * p2shSigOps(in.Script)
			}
		}
	}
	if f.Witness {
		for i, in := range tx.In {
			pk := spent[i].Script
			if v, pr, ok := witnessProgram(pk); ok {
				cost += witnessSigOps(v, pr, in.Witness)
			} else if IsP2SH(pk) && isPushOnly(in.Script) {
				var data []byte
				for pc := 0; pc < len(in.Script); {
					_, d, next, _ := getOp(in.Script, pc)
					data = d
					pc = next
				}
				if v, pr, ok := witnessProgram(data); ok {
					cost += witnessSigOps(v, pr, in.Witness)
				}
			}
		}
	}
	return cost
}
