package refchain

// Context-free and contextual block rules (the C04 / C05 rule lists), written from
// Bitcoin Core's validation rules. Independent of gocoin.

import (
	"bytes"
	"math/big"
	"sort"

	"verif/ref/reftx"
)

const (
	MaxBlockWeight   = 4000000
	LockTimeThresh   = 500000000
	SeqFinal         = 0xffffffff
	SeqDisable       = 1 << 31
	SeqTypeTime      = 1 << 22
	SeqMask          = 0xffff
	RetargetInterval = 2016
	TargetTimespan   = 14 * 24 * 60 * 60
)

// MTP is the median of the timestamps of n and its up-to-10 ancestors.
func MTP(n *Node) uint32 {
	var ts []int
	for i := 0; i < 11 && n != nil; i++ {
		ts = append(ts, int(n.Time))
		n = n.Parent
	}
	sort.Ints(ts)
	return uint32(ts[len(ts)/2])
}

func Ancestor(n *Node, height uint32) *Node {
	for n != nil && n.Height > height {
		n = n.Parent
	}
	return n
}

// Compact encodes a non-negative target like arith_uint256::GetCompact.
func Compact(t *big.Int) uint32 {
	size := uint32(len(t.Bytes()))
	var c uint32
	if size <= 3 {
		c = uint32(t.Uint64() << (8 * (3 - size)))
	} else {
		c = uint32(new(big.Int).Rsh(t, uint(8*(size-3))).Uint64())
	}
	if c&0x00800000 != 0 {
		c >>= 8
		size++
	}
	return c | size<<24
}

// RequiredBits is GetNextWorkRequired for a chain without the testnet rule.
// Arithmetic is in unbounded integers (equals Core wherever Core's 256-bit
// product does not overflow, i.e. for every limit <= 2^234).
func RequiredBits(parent *Node, powLimitBits uint32) uint32 {
	if parent.Parent == nil {
		return powLimitBits
	}
	if (parent.Height+1)%RetargetInterval != 0 {
		return parent.Bits
	}
	first := Ancestor(parent, parent.Height-(RetargetInterval-1))
	span := int64(parent.Time) - int64(first.Time)
	if span < TargetTimespan/4 {
		span = TargetTimespan / 4
	}
	if span > TargetTimespan*4 {
		span = TargetTimespan * 4
	}
	t := Target(parent.Bits)
	t.Mul(t, big.NewInt(span))
	t.Div(t, big.NewInt(TargetTimespan))
	lim := Target(powLimitBits)
	if t.Cmp(lim) > 0 {
		t = lim
	}
	return Compact(t)
}

// RequiredBitsNet adds the test networks' exceptions (Bitcoin Core, pow.cpp,
// fPowAllowMinDifficultyBlocks; testnet4: BIP94's retarget base):
//   - not at a retarget boundary: a block stamped more than 20 minutes after its parent may (must,
//     for the equality test) carry the limit; otherwise the bits of the last block that is at a
//     boundary or does not carry the limit;
//   - at a boundary the ordinary retarget applies whatever the timestamp; testnet4 takes as base the
//     bits of the last block of the period that is at a boundary or does not carry the limit.
func RequiredBitsNet(parent *Node, powLimitBits uint32, net int, blockTime uint32) uint32 {
	if net == 0 || parent.Parent == nil {
		return RequiredBits(parent, powLimitBits)
	}
	lastReal := func() *Node {
		n := parent
		for n.Parent != nil && n.Height%RetargetInterval != 0 && n.Bits == powLimitBits {
			n = n.Parent
		}
		return n
	}
	if (parent.Height+1)%RetargetInterval != 0 {
		if int64(blockTime) > int64(parent.Time)+2*600 {
			return powLimitBits
		}
		return lastReal().Bits
	}
	if net != 4 {
		return RequiredBits(parent, powLimitBits)
	}
	first := Ancestor(parent, parent.Height-(RetargetInterval-1))
	span := int64(parent.Time) - int64(first.Time)
	if span < TargetTimespan/4 {
		span = TargetTimespan / 4
	}
	if span > TargetTimespan*4 {
		span = TargetTimespan * 4
	}
	t := Target(lastReal().Bits)
	t.Mul(t, big.NewInt(span))
	t.Div(t, big.NewInt(TargetTimespan))
	lim := Target(powLimitBits)
	if t.Cmp(lim) > 0 {
		t = lim
	}
	return Compact(t)
}

func HashLE(h [32]byte) *big.Int {
	var be [32]byte
	for i := range h {
		be[31-i] = h[i]
	}
	return new(big.Int).SetBytes(be[:])
}

// CheckPoW: the header hash meets the target encoded in bits, and that target is
// positive, not overflowing and not above the limit.
func CheckPoW(hash [32]byte, bits, powLimitBits uint32) bool {
	t := Target(bits)
	if t.Sign() <= 0 || t.Cmp(Target(powLimitBits)) > 0 {
		return false
	}
	return HashLE(hash).Cmp(t) <= 0
}

func IsFinalTx(t *reftx.Tx, height uint32, cutoff uint32) bool {
	if t.LockTime == 0 {
		return true
	}
	lim := cutoff
	if t.LockTime < LockTimeThresh {
		lim = height
	}
	if t.LockTime < lim {
		return true
	}
	for _, in := range t.In {
		if in.Sequence != SeqFinal {
			return false
		}
	}
	return true
}

// HeightPush is CScript() << height.
func HeightPush(h uint32) []byte {
	if h == 0 {
		return []byte{0}
	}
	if h <= 16 {
		return []byte{byte(0x50 + h)}
	}
	var b []byte
	for v := h; v > 0; v >>= 8 {
		b = append(b, byte(v))
	}
	if b[len(b)-1]&0x80 != 0 {
		b = append(b, 0)
	}
	return append([]byte{byte(len(b))}, b...)
}

// CheckTx is Core's context-free CheckTransaction.
func (p *Params) CheckTx(t *reftx.Tx) string {
	if len(t.In) == 0 {
		return "bad-txns-vin-empty"
	}
	if len(t.Out) == 0 {
		return "bad-txns-vout-empty"
	}
	if t.BaseSize()*4 > MaxBlockWeight {
		return "bad-txns-oversize"
	}
	var sum uint64
	for _, o := range t.Out {
		if o.Value > p.MaxMoney {
			return "bad-txns-vout-toolarge"
		}
		sum += o.Value
		if sum > p.MaxMoney {
			return "bad-txns-txouttotal-toolarge"
		}
	}
	seen := map[Outpoint]bool{}
	for _, in := range t.In {
		op := Outpoint{in.Prev, in.Vout}
		if seen[op] {
			return "bad-txns-inputs-duplicate"
		}
		seen[op] = true
	}
	if t.IsCoinbase() {
		if l := len(t.In[0].Script); l < 2 || l > 100 {
			return "bad-cb-length"
		}
	} else {
		for _, in := range t.In {
			if in.Prev == [32]byte{} && in.Vout == 0xffffffff {
				return "bad-txns-prevout-null"
			}
		}
	}
	return ""
}

// CheckBlock applies every header / structure / commitment rule of C05 to a block
// whose parent is known. now is the local clock. It returns "" or the first
// violated rule (Core's reject reason where one exists).
func (m *Model) CheckBlock(parent *Node, b *reftx.Block, powLimitBits uint32, now int64) string {
	p := &m.P
	height := parent.Height + 1
	if b.Version == 0 {
		// (Core has no such rule; version 0 is < 2 and is caught by the gates once BIP34 is active)
	}
	if !CheckPoW(b.Hash(), b.Bits, powLimitBits) {
		return "high-hash"
	}
	if b.Bits != RequiredBitsNet(parent, powLimitBits, m.P.Net, b.Time) {
		return "bad-diffbits"
	}
	mtp := MTP(parent)
	if b.Time <= mtp {
		return "time-too-old"
	}
	if int64(b.Time) > now+7200 {
		return "time-too-new"
	}
	// nVersion is a signed 32-bit integer in Bitcoin: 0x80000000… are negative versions
	if v := int32(b.Version); (v < 2 && height >= p.BIP34) || (v < 3 && height >= p.BIP66) || (v < 4 && height >= p.BIP65) {
		return "bad-version"
	}
	// structure
	if len(b.Txs) == 0 || !b.Txs[0].IsCoinbase() {
		return "bad-cb-missing"
	}
	for _, t := range b.Txs[1:] {
		if t.IsCoinbase() {
			return "bad-cb-multiple"
		}
	}
	root, mutated := reftx.Merkle(b.TxIDs())
	if root != b.Merkle {
		return "bad-txnmrklroot"
	}
	if mutated {
		return "bad-txns-duplicate"
	}
	for _, t := range b.Txs {
		if why := p.CheckTx(t); why != "" {
			return why
		}
	}
	flags := p.FlagsAt(height)
	cutoff := b.Time
	if flags.CSV {
		cutoff = mtp
	}
	for _, t := range b.Txs {
		if !IsFinalTx(t, height, cutoff) {
			return "bad-txns-nonfinal"
		}
	}
	if height >= p.BIP34 {
		if !bytes.HasPrefix(b.Txs[0].In[0].Script, HeightPush(height)) {
			return "bad-cb-height"
		}
	}
	// BIP141 commitment
	haveCommit := false
	if flags.Witness {
		cb := b.Txs[0]
		ci := -1
		for i, o := range cb.Out {
			if len(o.Script) >= 38 && bytes.Equal(o.Script[:6], []byte{0x6a, 0x24, 0xaa, 0x21, 0xa9, 0xed}) {
				ci = i
			}
		}
		if ci >= 0 {
			w := cb.In[0].Witness
			if len(w) != 1 || len(w[0]) != 32 {
				return "bad-witness-nonce-size"
			}
			wr := b.WitnessRoot()
			c := reftx.DSha(append(wr[:], w[0]...))
			if !bytes.Equal(c[:], cb.Out[ci].Script[6:38]) {
				return "bad-witness-merkle-match"
			}
			haveCommit = true
		}
	}
	if !haveCommit {
		for _, t := range b.Txs {
			if t.HasWitness() {
				return "unexpected-witness"
			}
		}
	}
	if b.Weight() > MaxBlockWeight {
		return "bad-blk-weight"
	}
	return ""
}

// SequenceLocksOK evaluates BIP68 for tx in a block on top of parent.
func (m *Model) SequenceLocksOK(t *reftx.Tx, spent []Coin, parent *Node) bool {
	if t.Version < 2 {
		return true
	}
	minHeight := int64(-1)
	minTime := int64(-1)
	for i, in := range t.In {
		if in.Sequence&SeqDisable != 0 {
			continue
		}
		ch := spent[i].Height
		if in.Sequence&SeqTypeTime != 0 {
			var ct int64
			if ch > 0 {
				ct = int64(MTP(Ancestor(parent, ch-1)))
			} else {
				ct = int64(MTP(Ancestor(parent, 0)))
			}
			v := ct + int64(in.Sequence&SeqMask)<<9 - 1
			if v > minTime {
				minTime = v
			}
		} else {
			v := int64(ch) + int64(in.Sequence&SeqMask) - 1
			if v > minHeight {
				minHeight = v
			}
		}
	}
	height := int64(parent.Height) + 1
	if minHeight >= height || minTime >= int64(MTP(parent)) {
		return false
	}
	return true
}
