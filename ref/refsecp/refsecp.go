// Package refsecp is a deliberately boring reference implementation of the
// secp256k1 group: field arithmetic is math/big reduced mod p after every step,
// points are affine (X, Y) pairs plus an explicit infinity flag, scalar
// multiplication is left-to-right double-and-add. It imports nothing from the
// code it is used to judge. Constants are those of SEC 2 (v2) section 2.4.1.
package refsecp

import (
	"fmt"
	"math/big"
)

func hexInt(s string) *big.Int {
	v, ok := new(big.Int).SetString(s, 16)
	if !ok {
		panic("refsecp: bad constant " + s)
	}
	return v
}

var (
	// P is the field characteristic 2^256 - 2^32 - 977.
	P = hexInt("FFFFFFFFFFFFFFFFFFFFFFFFFFFFFFFFFFFFFFFFFFFFFFFFFFFFFFFEFFFFFC2F")
	// N is the group order.
	N = hexInt("FFFFFFFFFFFFFFFFFFFFFFFFFFFFFFFEBAAEDCE6AF48A03BBFD25E8CD0364141")
	// Gx, Gy are the coordinates of the base point.
	Gx = hexInt("79BE667EF9DCBBAC55A06295CE870B07029BFCDB2DCE28D959F2815B16F81798")
	Gy = hexInt("483ADA7726A3C4655DA4FBFC0E1108A8FD17B448A68554199C47D08FFB10D4B8")
	// B is the curve constant: y^2 = x^3 + 7.
	B = big.NewInt(7)
	// HalfN = (N-1)/2, the largest "low" S value.
	HalfN = new(big.Int).Rsh(N, 1)

	one   = big.NewInt(1)
	two   = big.NewInt(2)
	three = big.NewInt(3)
	pM2   = new(big.Int).Sub(P, two)                                          // p-2
	pP1d4 = new(big.Int).Rsh(new(big.Int).Add(P, one), 2)                     // (p+1)/4
	p2f   = new(big.Int).Sub(new(big.Int).Lsh(one, 256), hexInt("1000003D1")) // 2^256-2^32-977
)

func init() {
	// the textual constant and the defining expression of p must agree
	if P.Cmp(p2f) != 0 {
		panic("refsecp: p constant mismatch")
	}
	if new(big.Int).And(P, three).Cmp(three) != 0 {
		panic("refsecp: p != 3 mod 4")
	}
}

// ---- field ----

// FMod returns a mod p in [0, p-1] (a may be negative or large).
func FMod(a *big.Int) *big.Int { return new(big.Int).Mod(a, P) }

func FAdd(a, b *big.Int) *big.Int { return FMod(new(big.Int).Add(a, b)) }
func FSub(a, b *big.Int) *big.Int { return FMod(new(big.Int).Sub(a, b)) }
func FMul(a, b *big.Int) *big.Int { return FMod(new(big.Int).Mul(a, b)) }
func FSqr(a *big.Int) *big.Int    { return FMul(a, a) }
func FNeg(a *big.Int) *big.Int    { return FMod(new(big.Int).Neg(a)) }

// FExp returns a^e mod p (e >= 0).
func FExp(a, e *big.Int) *big.Int { return new(big.Int).Exp(FMod(a), e, P) }

// FInv returns a^(p-2) mod p, i.e. the inverse, and 0 for a = 0 mod p.
func FInv(a *big.Int) *big.Int {
	r := FExp(a, pM2)
	return r
}

// finvFast is used inside the group law only (many inversions); it is checked
// against the definition (a * a^-1 = 1) on every call.
func finvFast(a *big.Int) *big.Int {
	am := FMod(a)
	if am.Sign() == 0 {
		panic("refsecp: inverse of zero inside the group law")
	}
	r := new(big.Int).ModInverse(am, P)
	if r == nil || FMul(r, am).Cmp(one) != 0 {
		panic("refsecp: modular inverse self-check failed")
	}
	return r
}

// FSqrtCandidate returns a^((p+1)/4) mod p. When a is a quadratic residue this
// is a square root of a; otherwise its square is -a.
func FSqrtCandidate(a *big.Int) *big.Int { return FExp(a, pP1d4) }

// FSqrt returns a square root of a mod p and whether one exists.
func FSqrt(a *big.Int) (*big.Int, bool) {
	r := FSqrtCandidate(a)
	if FSqr(r).Cmp(FMod(a)) != 0 {
		return nil, false
	}
	return r, true
}

// B32 returns the 32-byte big-endian encoding of 0 <= v < 2^256.
func B32(v *big.Int) []byte {
	if v.Sign() < 0 || v.BitLen() > 256 {
		panic(fmt.Sprintf("refsecp: B32 of out-of-range value %s", v.Text(16)))
	}
	out := make([]byte, 32)
	b := v.Bytes()
	copy(out[32-len(b):], b)
	return out
}

// Int interprets bytes as an unsigned big-endian integer.
func Int(b []byte) *big.Int { return new(big.Int).SetBytes(b) }

// ---- group ----

// Point is an affine point or the point at infinity (Inf; X, Y ignored then).
type Point struct {
	X, Y *big.Int
	Inf  bool
}

func Infinity() Point { return Point{Inf: true} }
func G() Point        { return Point{X: new(big.Int).Set(Gx), Y: new(big.Int).Set(Gy)} }

// NewPoint builds a point from coordinates reduced mod p, without any
// membership check (see OnCurve).
func NewPoint(x, y *big.Int) Point { return Point{X: FMod(x), Y: FMod(y)} }

// OnCurve reports y^2 = x^3 + 7 (infinity is not "on the curve" here: it has no
// encoding as a public key).
func OnCurve(a Point) bool {
	if a.Inf {
		return false
	}
	l := FSqr(a.Y)
	r := FAdd(FMul(FSqr(a.X), a.X), B)
	return l.Cmp(r) == 0
}

func Equal(a, b Point) bool {
	if a.Inf || b.Inf {
		return a.Inf == b.Inf
	}
	return a.X.Cmp(b.X) == 0 && a.Y.Cmp(b.Y) == 0
}

func Neg(a Point) Point {
	if a.Inf {
		return Infinity()
	}
	return Point{X: new(big.Int).Set(a.X), Y: FNeg(a.Y)}
}

// Double is the tangent rule for y^2 = x^3 + b (a = 0): lambda = 3x^2 / 2y.
// It does not use b, so it is also the tangent rule on any curve of that shape
// the point happens to lie on.
func Double(a Point) Point {
	if a.Inf || a.Y.Sign() == 0 {
		return Infinity()
	}
	lam := FMul(FMul(three, FSqr(a.X)), finvFast(FMul(two, a.Y)))
	x3 := FSub(FSub(FSqr(lam), a.X), a.X)
	y3 := FSub(FMul(lam, FSub(a.X, x3)), a.Y)
	return Point{X: x3, Y: y3}
}

// Add is the chord-and-tangent rule with all special cases: identity operands,
// P + P (tangent), P + (-P) (infinity).
func Add(a, b Point) Point {
	if a.Inf {
		return b
	}
	if b.Inf {
		return a
	}
	if a.X.Cmp(b.X) == 0 {
		if a.Y.Cmp(b.Y) == 0 {
			return Double(a)
		}
		return Infinity()
	}
	lam := FMul(FSub(b.Y, a.Y), finvFast(FSub(b.X, a.X)))
	x3 := FSub(FSub(FSqr(lam), a.X), b.X)
	y3 := FSub(FMul(lam, FSub(a.X, x3)), a.Y)
	return Point{X: x3, Y: y3}
}

// Mul returns k*a for any integer k >= 0 (not reduced: k >= n simply keeps
// adding), by left-to-right double-and-add.
func Mul(k *big.Int, a Point) Point {
	if k.Sign() < 0 {
		panic("refsecp: negative scalar")
	}
	r := Infinity()
	for i := k.BitLen() - 1; i >= 0; i-- {
		r = Double(r)
		if k.Bit(i) == 1 {
			r = Add(r, a)
		}
	}
	return r
}

// MulG returns k*G.
func MulG(k *big.Int) Point { return Mul(k, G()) }

// LiftXParity returns the curve point with the given x (which must be < p) and
// the requested parity of y, if x^3 + 7 is a square.
func LiftXParity(x *big.Int, odd bool) (Point, bool) {
	if x.Sign() < 0 || x.Cmp(P) >= 0 {
		return Point{}, false
	}
	y, ok := FSqrt(FAdd(FMul(FSqr(x), x), B))
	if !ok {
		return Point{}, false
	}
	if (y.Bit(0) == 1) != odd {
		y = FNeg(y)
	}
	return Point{X: new(big.Int).Set(x), Y: y}, true
}

// LiftX is BIP340's lift_x: the point with that x and even y.
func LiftX(x *big.Int) (Point, bool) { return LiftXParity(x, false) }

// SelfCheck verifies the constants and the group law against facts that do not
// depend on this package: G is on the curve, n*G is the identity, (n-1)*G = -G,
// the well-known x coordinate of 2G, associativity/commutativity on a few
// multiples. It returns the number of assertions made.
func SelfCheck() (int, error) {
	n := 0
	chk := func(ok bool, what string) error {
		n++
		if !ok {
			return fmt.Errorf("refsecp self-check failed: %s", what)
		}
		return nil
	}
	g := G()
	if e := chk(OnCurve(g), "G on curve"); e != nil {
		return n, e
	}
	if e := chk(N.ProbablyPrime(32) && P.ProbablyPrime(32), "p and n prime"); e != nil {
		return n, e
	}
	if e := chk(MulG(N).Inf, "n*G = infinity"); e != nil {
		return n, e
	}
	if e := chk(Equal(MulG(new(big.Int).Sub(N, one)), Neg(g)), "(n-1)*G = -G"); e != nil {
		return n, e
	}
	g2 := Double(g)
	if e := chk(g2.X.Cmp(hexInt("C6047F9441ED7D6D3045406E95C07CD85C778E4B8CEF3CA7ABAC09B95C709EE5")) == 0 &&
		g2.Y.Cmp(hexInt("1AE168FEA63DC339A3C58419466CEAEEF7F632653266D0E1236431A950CFE52A")) == 0, "2G known answer"); e != nil {
		return n, e
	}
	g3 := Add(g2, g)
	if e := chk(g3.X.Cmp(hexInt("F9308A019258C31049344F85F89D5229B531C845836F99B08601F113BCE036F9")) == 0, "3G known answer"); e != nil {
		return n, e
	}
	for a := int64(1); a <= 6; a++ {
		for b := int64(1); b <= 6; b++ {
			pa, pb := MulG(big.NewInt(a)), MulG(big.NewInt(b))
			if e := chk(Equal(Add(pa, pb), MulG(big.NewInt(a+b))), "aG+bG=(a+b)G"); e != nil {
				return n, e
			}
			if e := chk(Equal(Add(pa, pb), Add(pb, pa)), "commutative"); e != nil {
				return n, e
			}
			if e := chk(OnCurve(Add(pa, pb)), "sum on curve"); e != nil {
				return n, e
			}
			if e := chk(Equal(Mul(big.NewInt(a), pb), MulG(big.NewInt(a*b))), "a(bG)=(ab)G"); e != nil {
				return n, e
			}
		}
	}
	big1 := hexInt("B7E151628AED2A6ABF7158809CF4F3C762E7160F38B4DA56A784D9045190CFEF")
	big2 := hexInt("C90FDAA22168C234C4C6628B80DC1CD129024E088A67CC74020BBEA63B14E5C9")
	s := new(big.Int).Add(big1, big2)
	if e := chk(Equal(Add(MulG(big1), MulG(big2)), MulG(s)), "k1G+k2G=(k1+k2)G, unreduced sum"); e != nil {
		return n, e
	}
	if e := chk(Equal(MulG(s), MulG(new(big.Int).Mod(s, N))), "kG = (k mod n)G"); e != nil {
		return n, e
	}
	pt, ok := LiftX(g.X)
	if e := chk(ok && Equal(pt, g), "lift_x(Gx) = G (Gy is even)"); e != nil {
		return n, e
	}
	return n, nil
}
