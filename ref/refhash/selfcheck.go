package refhash

import (
	"encoding/hex"
	"encoding/json"
	"fmt"
	"os"
	"path/filepath"

	"verif/ref/reftx"
)

// SelfCheck validates this package against the external truths available on disk:
// the RIPEMD-160 test strings of the original publication and every row of the
// repository's sighash.json (Bitcoin Core's legacy digest vectors). It returns
// the number of sighash rows checked.
func SelfCheck(repo string) (rows int, err error) {
	rmd := map[string]string{
		"":               "9c1185a5c5e9fc54612808977ee8f548b2258d31",
		"a":              "0bdc9d2d256b3ee9daae347be6f4dc835a467ffe",
		"abc":            "8eb208f7e05d987a9b044a8e98c6b087f15a0bfc",
		"message digest": "5d0689ef49d2fae572b881b123a85ffa21595f36",
		"abcdbcdecdefdefgefghfghighijhijkijkljklmklmnlmnomnopnopq": "12a053384a9c0c88e405a06c27dcf49ada62eb2b",
	}
	for in, want := range rmd {
		got := Ripemd160([]byte(in))
		if hex.EncodeToString(got[:]) != want {
			return 0, fmt.Errorf("RIPEMD-160(%q) = %x, want %s", in, got, want)
		}
	}
	// BIP340 tagged hash shape: SHA256(SHA256(tag)||SHA256(tag)||msg)
	th := TaggedHash("TapLeaf")
	t := Sha256([]byte("TapLeaf"))
	if th != Sha256(append(append([]byte{}, t[:]...), t[:]...)) {
		return 0, fmt.Errorf("tagged hash shape")
	}
	dat, err := os.ReadFile(filepath.Join(repo, "lib", "test", "sighash.json"))
	if err != nil {
		return 0, err
	}
	var arr [][]interface{}
	if err := json.Unmarshal(dat, &arr); err != nil {
		return 0, err
	}
	for i, r := range arr {
		if len(r) != 5 {
			continue
		}
		raw, e1 := hex.DecodeString(r[0].(string))
		scr, e2 := hex.DecodeString(r[1].(string))
		if e1 != nil || e2 != nil {
			return rows, fmt.Errorf("sighash.json row %d: bad hex", i)
		}
		tx, n, e := reftx.DecodeTx(raw)
		if e != nil || n != len(raw) {
			return rows, fmt.Errorf("sighash.json row %d: tx does not decode: %v", i, e)
		}
		nIn := int(r[2].(float64))
		ht := uint32(int32(r[3].(float64)))
		want := r[4].(string)
		got := Legacy(tx, scr, nIn, ht)
		// the file prints digests as uint256 (byte-reversed)
		var rev [32]byte
		for k := range got {
			rev[k] = got[31-k]
		}
		if hex.EncodeToString(rev[:]) != want {
			return rows, fmt.Errorf("sighash.json row %d: digest %x, want %s", i, rev, want)
		}
		rows++
	}
	if rows == 0 {
		return 0, fmt.Errorf("sighash.json has no rows")
	}
	return rows, nil
}
