// Package refhash is an independent reference for the three Bitcoin signature
// digests (original algorithm, BIP143, BIP341/BIP342), the script byte-level
// helpers they depend on (opcode parser, push encoding, FindAndDelete) and the
// hash functions used by script (HASH160 needs RIPEMD-160, vendored in the
// sub-package ripemd160 from golang.org/x/crypto). It imports nothing from gocoin.
package refhash

import (
	"bytes"
	"crypto/sha1"
	"crypto/sha256"
	"encoding/binary"

	"verif/ref/refhash/ripemd160"
	"verif/ref/reftx"
)

const (
	SighashDefault      = 0
	SighashAll          = 1
	SighashNone         = 2
	SighashSingle       = 3
	SighashAnyoneCanPay = 0x80

	OpPushData1     = 0x4c
	OpPushData2     = 0x4d
	OpPushData4     = 0x4e
	OpCodeSeparator = 0xab
)

func Sha256(b []byte) [32]byte { return sha256.Sum256(b) }

func DSha(b []byte) [32]byte {
	h := sha256.Sum256(b)
	return sha256.Sum256(h[:])
}

func Sha1(b []byte) [20]byte { return sha1.Sum(b) }

func Ripemd160(b []byte) (r [20]byte) {
	h := ripemd160.New()
	h.Write(b)
	copy(r[:], h.Sum(nil))
	return
}

func Hash160(b []byte) [20]byte {
	h := sha256.Sum256(b)
	return Ripemd160(h[:])
}

// TaggedHash is BIP340's hash_tag(x) = SHA256(SHA256(tag) || SHA256(tag) || x).
func TaggedHash(tag string, parts ...[]byte) [32]byte {
	t := sha256.Sum256([]byte(tag))
	h := sha256.New()
	h.Write(t[:])
	h.Write(t[:])
	for _, p := range parts {
		h.Write(p)
	}
	var r [32]byte
	copy(r[:], h.Sum(nil))
	return r
}

// GetOp reads one opcode at pc exactly like Bitcoin Core's GetScriptOp: on failure
// next is the position the cursor had reached when parsing stopped (after the opcode
// byte and any complete length field), which is what the legacy digest serialiser
// observes.
func GetOp(s []byte, pc int) (opcode byte, data []byte, next int, ok bool) {
	if pc >= len(s) {
		return 0xff, nil, pc, false
	}
	op := s[pc]
	pc++
	if op <= OpPushData4 {
		var n uint64
		switch {
		case op < OpPushData1:
			n = uint64(op)
		case op == OpPushData1:
			if len(s)-pc < 1 {
				return 0xff, nil, pc, false
			}
			n = uint64(s[pc])
			pc++
		case op == OpPushData2:
			if len(s)-pc < 2 {
				return 0xff, nil, pc, false
			}
			n = uint64(binary.LittleEndian.Uint16(s[pc:]))
			pc += 2
		default:
			if len(s)-pc < 4 {
				return 0xff, nil, pc, false
			}
			n = uint64(binary.LittleEndian.Uint32(s[pc:]))
			pc += 4
		}
		if uint64(len(s)-pc) < n {
			return 0xff, nil, pc, false
		}
		data = s[pc : pc+int(n) : pc+int(n)]
		pc += int(n)
	}
	return op, data, pc, true
}

// PushData is `CScript() << vector`: the encoding Core uses for the signature
// pattern of FindAndDelete (direct push < 0x4c, then PUSHDATA1/2/4). It never uses
// OP_0/OP_N short forms except that an empty vector becomes the single byte 0x00.
func PushData(d []byte) []byte {
	n := len(d)
	var b []byte
	switch {
	case n < OpPushData1:
		b = append(b, byte(n))
	case n <= 0xff:
		b = append(b, OpPushData1, byte(n))
	case n <= 0xffff:
		b = append(b, OpPushData2, byte(n), byte(n>>8))
	default:
		b = append(b, OpPushData4, byte(n), byte(n>>8), byte(n>>16), byte(n>>24))
	}
	return append(b, d...)
}

// FindAndDelete removes every occurrence of pattern that starts at an opcode
// boundary (Core's FindAndDelete, including the part after an unparsable opcode,
// which is copied unchanged).
func FindAndDelete(script, pattern []byte) (out []byte, found int) {
	if len(pattern) == 0 {
		return append([]byte{}, script...), 0
	}
	pc, pc2 := 0, 0
	for {
		out = append(out, script[pc2:pc]...)
		for len(script)-pc >= len(pattern) && bytes.Equal(script[pc:pc+len(pattern)], pattern) {
			pc += len(pattern)
			found++
		}
		pc2 = pc
		_, _, next, ok := GetOp(script, pc)
		pc = next
		if !ok {
			break
		}
	}
	if found > 0 {
		out = append(out, script[pc2:]...)
		return out, found
	}
	return append([]byte{}, script...), 0
}

// LegacyScriptCode is the script code of the original algorithm as the
// interpreter prepares it: script from the last executed OP_CODESEPARATOR with
// every given signature removed by FindAndDelete(push(sig)).
func LegacyScriptCode(script []byte, begin int, sigs ...[]byte) (code []byte, found int) {
	code = append([]byte{}, script[begin:]...)
	for _, s := range sigs {
		var n int
		code, n = FindAndDelete(code, PushData(s))
		found += n
	}
	return
}

// serializeScriptCode follows CTransactionSignatureSerializer::SerializeScriptCode:
// the length prefix counts all bytes except parsable OP_CODESEPARATORs; the bytes
// written stop where the opcode parser stopped.
func serializeScriptCode(b []byte, code []byte) []byte {
	nsep := 0
	pc := 0
	for {
		op, _, next, ok := GetOp(code, pc)
		pc = next
		if !ok {
			break
		}
		if op == OpCodeSeparator {
			nsep++
		}
	}
	b = reftx.PutCS(b, uint64(len(code)-nsep))
	begin := 0
	pc = 0
	for {
		op, _, next, ok := GetOp(code, pc)
		pc = next
		if !ok {
			break
		}
		if op == OpCodeSeparator {
			b = append(b, code[begin:pc-1]...)
			begin = pc
		}
	}
	if begin != len(code) {
		b = append(b, code[begin:pc]...)
	}
	return b
}

func le32(b []byte, v uint32) []byte { return append(b, byte(v), byte(v>>8), byte(v>>16), byte(v>>24)) }
func le64(b []byte, v uint64) []byte {
	var t [8]byte
	binary.LittleEndian.PutUint64(t[:], v)
	return append(b, t[:]...)
}

func putOut(b []byte, o *reftx.Out) []byte {
	b = le64(b, o.Value)
	b = reftx.PutCS(b, uint64(len(o.Script)))
	return append(b, o.Script...)
}

func putOutpoint(b []byte, in *reftx.In) []byte {
	b = append(b, in.Prev[:]...)
	return le32(b, in.Vout)
}

// One is uint256 "1": the digest the original algorithm yields for SIGHASH_SINGLE
// with no output at the input's index.
var One = [32]byte{1}

// LegacyPreimage returns the byte string that is double-SHA256'd (nil for the One case).
func LegacyPreimage(tx *reftx.Tx, scriptCode []byte, nIn int, hashType uint32) []byte {
	acp := hashType&SighashAnyoneCanPay != 0
	single := hashType&0x1f == SighashSingle
	none := hashType&0x1f == SighashNone
	if single && nIn >= len(tx.Out) {
		return nil
	}
	b := le32(nil, tx.Version)
	nInputs := len(tx.In)
	if acp {
		nInputs = 1
	}
	b = reftx.PutCS(b, uint64(nInputs))
	for i := 0; i < nInputs; i++ {
		k := i
		if acp {
			k = nIn
		}
		b = putOutpoint(b, &tx.In[k])
		if k != nIn {
			b = append(b, 0)
		} else {
			b = serializeScriptCode(b, scriptCode)
		}
		if k != nIn && (single || none) {
			b = le32(b, 0)
		} else {
			b = le32(b, tx.In[k].Sequence)
		}
	}
	nOut := len(tx.Out)
	if none {
		nOut = 0
	} else if single {
		nOut = nIn + 1
	}
	b = reftx.PutCS(b, uint64(nOut))
	for i := 0; i < nOut; i++ {
		if single && i != nIn {
			b = le64(b, 0xffffffffffffffff)
			b = append(b, 0)
		} else {
			b = putOut(b, &tx.Out[i])
		}
	}
	b = le32(b, tx.LockTime)
	return le32(b, hashType)
}

// Legacy is the digest of the original algorithm. scriptCode must already have the
// signature(s) removed (LegacyScriptCode); code separators are removed here, as the
// serialiser does. nIn must be < len(tx.In).
func Legacy(tx *reftx.Tx, scriptCode []byte, nIn int, hashType uint32) [32]byte {
	p := LegacyPreimage(tx, scriptCode, nIn, hashType)
	if p == nil {
		return One
	}
	return DSha(p)
}

// BIP143 is the segwit v0 digest.
func BIP143(tx *reftx.Tx, scriptCode []byte, amount uint64, nIn int, hashType uint32) [32]byte {
	var hashPrevouts, hashSequence, hashOutputs [32]byte
	acp := hashType&SighashAnyoneCanPay != 0
	base := hashType & 0x1f
	if !acp {
		var b []byte
		for i := range tx.In {
			b = putOutpoint(b, &tx.In[i])
		}
		hashPrevouts = DSha(b)
	}
	if !acp && base != SighashSingle && base != SighashNone {
		var b []byte
		for i := range tx.In {
			b = le32(b, tx.In[i].Sequence)
		}
		hashSequence = DSha(b)
	}
	if base != SighashSingle && base != SighashNone {
		var b []byte
		for i := range tx.Out {
			b = putOut(b, &tx.Out[i])
		}
		hashOutputs = DSha(b)
	} else if base == SighashSingle && nIn < len(tx.Out) {
		hashOutputs = DSha(putOut(nil, &tx.Out[nIn]))
	}
	b := le32(nil, tx.Version)
	b = append(b, hashPrevouts[:]...)
	b = append(b, hashSequence[:]...)
	b = putOutpoint(b, &tx.In[nIn])
	b = reftx.PutCS(b, uint64(len(scriptCode)))
	b = append(b, scriptCode...)
	b = le64(b, amount)
	b = le32(b, tx.In[nIn].Sequence)
	b = append(b, hashOutputs[:]...)
	b = le32(b, tx.LockTime)
	b = le32(b, hashType)
	return DSha(b)
}

// TapExt is the BIP342 extension of the common signature message.
type TapExt struct {
	LeafHash   [32]byte
	CodeSepPos uint32 // 0xffffffff if none executed
}

// ValidTaprootHashType: BIP341 "hash_type ... 0x00, 0x01, 0x02, 0x03, 0x81, 0x82, 0x83".
func ValidTaprootHashType(t byte) bool {
	return t <= 3 || (t >= 0x81 && t <= 0x83)
}

// Taproot is the BIP341 digest (ext == nil: key path, ext_flag 0) or the BIP342
// digest (ext != nil: ext_flag 1, key_version 0). annex == nil means absent; a
// present annex includes its 0x50 prefix. spent[i] is the output spent by input i.
// ok is false where the BIPs define no digest: hash_type not one of the seven
// values, or SIGHASH_SINGLE without a corresponding output.
func Taproot(tx *reftx.Tx, spent []reftx.Out, nIn int, hashType byte, annex []byte, ext *TapExt) (digest [32]byte, ok bool) {
	if !ValidTaprootHashType(hashType) {
		return
	}
	outType := hashType & 3
	if hashType == SighashDefault {
		outType = SighashAll
	}
	acp := hashType&0x80 == SighashAnyoneCanPay
	if outType == SighashSingle && nIn >= len(tx.Out) {
		return
	}
	m := []byte{0x00} // epoch
	m = append(m, hashType)
	m = le32(m, tx.Version)
	m = le32(m, tx.LockTime)
	if !acp {
		var a, b, c, d []byte
		for i := range tx.In {
			a = putOutpoint(a, &tx.In[i])
			b = le64(b, spent[i].Value)
			c = reftx.PutCS(c, uint64(len(spent[i].Script)))
			c = append(c, spent[i].Script...)
			d = le32(d, tx.In[i].Sequence)
		}
		for _, x := range [][]byte{a, b, c, d} {
			h := sha256.Sum256(x)
			m = append(m, h[:]...)
		}
	}
	if outType != SighashNone && outType != SighashSingle {
		var o []byte
		for i := range tx.Out {
			o = putOut(o, &tx.Out[i])
		}
		h := sha256.Sum256(o)
		m = append(m, h[:]...)
	}
	spendType := byte(0)
	if ext != nil {
		spendType = 2
	}
	if annex != nil {
		spendType |= 1
	}
	m = append(m, spendType)
	if acp {
		m = putOutpoint(m, &tx.In[nIn])
		m = putOut(m, &spent[nIn])
		m = le32(m, tx.In[nIn].Sequence)
	} else {
		m = le32(m, uint32(nIn))
	}
	if annex != nil {
		h := sha256.Sum256(append(reftx.PutCS(nil, uint64(len(annex))), annex...))
		m = append(m, h[:]...)
	}
	if outType == SighashSingle {
		h := sha256.Sum256(putOut(nil, &tx.Out[nIn]))
		m = append(m, h[:]...)
	}
	if ext != nil {
		m = append(m, ext.LeafHash[:]...)
		m = append(m, 0x00) // key_version
		m = le32(m, ext.CodeSepPos)
	}
	return TaggedHash("TapSighash", m), true
}

// TapLeafHash = hash_TapLeaf(leaf_version || compact_size(len(script)) || script).
func TapLeafHash(leafVersion byte, script []byte) [32]byte {
	b := []byte{leafVersion}
	b = reftx.PutCS(b, uint64(len(script)))
	b = append(b, script...)
	return TaggedHash("TapLeaf", b)
}

// TapBranchHash = hash_TapBranch of the two children in lexicographic order.
func TapBranchHash(a, b [32]byte) [32]byte {
	if bytes.Compare(a[:], b[:]) > 0 {
		a, b = b, a
	}
	return TaggedHash("TapBranch", a[:], b[:])
}

// TapTweakHash = hash_TapTweak(internal key || merkle root); root may be empty.
func TapTweakHash(internal32 []byte, root []byte) [32]byte {
	return TaggedHash("TapTweak", internal32, root)
}

// MerkleRootFromPath folds a control-block path over a leaf hash.
func MerkleRootFromPath(leaf [32]byte, path []byte) [32]byte {
	k := leaf
	for i := 0; i+32 <= len(path); i += 32 {
		var n [32]byte
		copy(n[:], path[i:i+32])
		k = TapBranchHash(k, n)
	}
	return k
}
