#!/bin/bash
# Offline setup: pre-build every check so that the first quick run is fast.
export GOFLAGS=-mod=mod GOPROXY=off GOSUMDB=off GOTOOLCHAIN=local
cd /verif || exit 1
mkdir -p bin logs evidence replays .build
[ -f go.sum ] || cp /repo/go.sum . 2>/dev/null
rc=0
for d in checks/*/; do
  n=$(basename "$d")
  go build -tags verif -o "bin/$n" "./checks/$n" || rc=1
done
exit $rc
