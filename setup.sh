#!/bin/bash
# Offline setup: pre-build every registered check (with its overlays) so that the
# first quick run is fast. Builds only from files on disk.
export GOFLAGS=-mod=mod GOPROXY=off GOSUMDB=off GOTOOLCHAIN=local
cd /verif || exit 1
mkdir -p bin logs evidence replays .build
[ -f go.sum ] || cp /repo/go.sum . 2>/dev/null
rc=0
for n in $(python3 -c "
import json
for c in json.load(open('/verif/MANIFEST.json'))['checks']:
    print(c['quick_cmd'].split()[1])
"); do
  VERIF_BUILD_ONLY=1 ./run.sh "$n" || { echo "setup: build of $n failed" >&2; rc=1; }
done
# sub-checks started by a registered check through ev.RunSub
for n in c02s c09s c20s; do
  VERIF_BUILD_ONLY=1 ./run.sh "$n" || { echo "setup: build of $n failed" >&2; rc=1; }
done
exit $rc
