// Package vsched is a cooperative scheduler for real goroutines: exactly one
// controlled thread runs at a time; at every scheduling point (lock acquire,
// WaitGroup wait, atomic access, channel operation, select, map-order choice, file
// effect) the running thread parks and the explorer decides who runs next.
// With no scheduler active every primitive falls through to the native one.
package vsched

import (
	"fmt"
	"reflect"
	"runtime/debug"
	"sort"
	"sync"
	"sync/atomic"
	"time"
)

type Thread struct {
	ID      int
	resume  chan struct{}
	pend    *Op
	done    bool
	demoted bool // starved by an explorer decision: runs only when no other thread can
}

// Demotion adds one more alternative to every thread decision: "starve the default
// thread" - it is scheduled from then on only when no other thread is enabled. With
// ascending-id defaults, keeping a low-numbered thread from running while several others
// make progress would otherwise cost one deviation per scheduling opportunity; as one
// decision it is within a deviation bound of 1. Set before Run; off by default.
var Demotion bool

// Op is a pending operation of a parked thread.
type Op struct {
	Kind    string // start lock rlock wait atomic send recv len select maporder file yield
	Obj     string // printable identity
	Enabled func() bool
	LowPrio bool // a poll (timer-only select): other threads are preferred
}

// Point is one decision of an execution.
type Point struct {
	Kind           string // "thread" | "select" | "maporder"
	Enabled        []int  // thread ids (canonical order) or option indexes
	Chosen         int    // index into Enabled
	RunningEnabled bool   // thread choice: the previously running thread could have continued
	Desc           string
}

// Chooser returns the index to take at a decision with n options (canonical order).
type Chooser func(kind string, n int, desc string) int

type Sched struct {
	threads   []*Thread
	cur       *Thread
	parked    chan struct{}
	choose    Chooser
	Points    []Point
	Deadlock  string
	Panic     string
	closed    map[uintptr]bool
	Horizon   int
	over      bool
	MapOrders bool // explore alternative map iteration orders (set by the harness before threads start)
	mu        sync.Mutex
	// FileHook lets the harness observe file effects recorded through Yield("file",…)
}

var active atomic.Pointer[Sched]

func Active() *Sched { return active.Load() }

// Run executes main as thread 0 under a new scheduler and returns when every thread
// has finished, a deadlock was detected, a thread panicked or the horizon was hit.
func Run(main func(), choose Chooser, horizon int) *Sched {
	s := &Sched{parked: make(chan struct{}), choose: choose, closed: map[uintptr]bool{}, Horizon: horizon}
	if !active.CompareAndSwap(nil, s) {
		panic("vsched: a scheduler is already active")
	}
	defer active.Store(nil)
	t0 := s.newThread()
	go s.body(t0, main)
	s.loop()
	return s
}

func (s *Sched) newThread() *Thread {
	t := &Thread{ID: len(s.threads), resume: make(chan struct{})}
	t.pend = &Op{Kind: "start", Enabled: func() bool { return true }}
	s.threads = append(s.threads, t)
	return t
}

func (s *Sched) body(t *Thread, f func()) {
	<-t.resume
	t.pend = nil
	defer func() {
		if r := recover(); r != nil {
			if _, ok := r.(abortExec); !ok {
				s.Panic = fmt.Sprintf("thread %d: %v\n%s", t.ID, r, debug.Stack())
			}
		}
		t.done = true
		s.parked <- struct{}{}
	}()
	f()
}

type abortExec struct{}

func (s *Sched) loop() {
	first := true
	for {
		if !first {
			<-s.parked
		}
		first = false
		if s.Panic != "" {
			return // remaining threads stay parked (leaked); the execution is over
		}
		var en []*Thread
		alive := 0
		for _, t := range s.threads {
			if t.done {
				continue
			}
			alive++
			if t.pend != nil && t.pend.Enabled() {
				en = append(en, t)
			}
		}
		if alive == 0 {
			return
		}
		if len(en) == 0 {
			d := "no enabled thread:"
			for _, t := range s.threads {
				if !t.done && t.pend != nil {
					d += fmt.Sprintf(" T%d@%s(%s)", t.ID, t.pend.Kind, t.pend.Obj)
				}
			}
			s.Deadlock = d
			return
		}
		if len(s.Points) >= s.Horizon {
			s.over = true
			s.Deadlock = "horizon"
			return
		}
		// canonical order: the running thread first if still enabled, then ascending
		// ids; threads that are merely polling go last
		sort.SliceStable(en, func(i, j int) bool {
			a, b := en[i], en[j]
			if (a.pend.LowPrio || a.demoted) != (b.pend.LowPrio || b.demoted) {
				return !(a.pend.LowPrio || a.demoted)
			}
			if (a == s.cur) != (b == s.cur) {
				return a == s.cur
			}
			return a.ID < b.ID
		})
		pick := 0
		if len(en) > 1 {
			ids := make([]int, len(en))
			for i, t := range en {
				ids[i] = t.ID
			}
			runEn := en[0] == s.cur
			n := len(en)
			canDemote := Demotion && !en[0].demoted && !en[0].pend.LowPrio
			if canDemote {
				n++
				ids = append(ids, -1-en[0].ID) // pseudo option: starve T<id>, run the next thread
			}
			pick = s.choose("thread", n, "")
			if pick < 0 || pick >= n {
				panic(fmt.Sprintf("vsched: choice %d out of range %d", pick, n))
			}
			chosen, desc := pick, ""
			if canDemote && pick == n-1 {
				en[0].demoted = true
				desc = fmt.Sprintf("starve T%d; ", en[0].ID)
				pick = 1
			}
			s.Points = append(s.Points, Point{Kind: "thread", Enabled: ids, Chosen: chosen, RunningEnabled: runEn,
				Desc: desc + fmt.Sprintf("T%d@%s(%s)", en[pick].ID, en[pick].pend.Kind, en[pick].pend.Obj)})
		}
		s.cur = en[pick]
		s.cur.resume <- struct{}{}
	}
}

// HorizonHit reports whether the execution was cut by the point horizon.
func (s *Sched) HorizonHit() bool { return s.over }

// Yield is a scheduling point of the running thread.
func (s *Sched) Yield(op *Op) {
	t := s.cur
	if op.Enabled == nil {
		op.Enabled = func() bool { return true }
	}
	if len(s.threads) == 1 || s.onlyMe(t) {
		// nobody else could run: no decision to take
		if !op.Enabled() {
			t.pend = op
			s.parked <- struct{}{}
			<-t.resume
			t.pend = nil
		}
		return
	}
	t.pend = op
	s.parked <- struct{}{}
	<-t.resume
	t.pend = nil
}

func (s *Sched) onlyMe(me *Thread) bool {
	for _, t := range s.threads {
		if t != me && !t.done {
			return false
		}
	}
	return true
}

// Option asks the explorer for an environment decision with n options (0 = default).
func (s *Sched) Option(kind string, n int, desc string) int {
	if n <= 1 {
		return 0
	}
	pick := s.choose(kind, n, desc)
	if pick < 0 || pick >= n {
		panic(fmt.Sprintf("vsched: option %d out of range %d", pick, n))
	}
	ids := make([]int, n)
	for i := range ids {
		ids[i] = i
	}
	s.Points = append(s.Points, Point{Kind: kind, Enabled: ids, Chosen: pick, Desc: desc})
	return pick
}

// ---------- goroutines ----------

type Handle struct {
	s *Sched
	t *Thread
}

// Spawn registers a child thread (called by the parent right before the go statement).
func Spawn() *Handle {
	s := Active()
	if s == nil {
		return nil
	}
	return &Handle{s, s.newThread()}
}

func run(h *Handle, f func()) {
	if h == nil {
		f()
		return
	}
	h.s.body(h.t, f)
}

func G0(h *Handle, f func())                                    { run(h, f) }
func G1[A any](h *Handle, f func(A), a A)                       { run(h, func() { f(a) }) }
func G2[A, B any](h *Handle, f func(A, B), a A, b B)            { run(h, func() { f(a, b) }) }
func G3[A, B, C any](h *Handle, f func(A, B, C), a A, b B, c C) { run(h, func() { f(a, b, c) }) }
func G4[A, B, C, D any](h *Handle, f func(A, B, C, D), a A, b B, c C, d D) {
	run(h, func() { f(a, b, c, d) })
}

// Go starts f as a controlled thread (for harness code).
func Go(f func()) {
	h := Spawn()
	go G0(h, f)
}

// ---------- generic scheduling point for shims ----------

func objID(p interface{}) string { return fmt.Sprintf("%p", p) }

// PointAt is used by the sync/atomic shims: park until enabled() holds and we are chosen.
func PointAt(kind string, obj interface{}, enabled func() bool) bool {
	s := Active()
	if s == nil {
		return false
	}
	s.Yield(&Op{Kind: kind, Obj: objID(obj), Enabled: enabled})
	return true
}

// Effect is a named scheduling point without enabling condition (file effects, markers).
func Effect(kind, what string) {
	if s := Active(); s != nil {
		s.Yield(&Op{Kind: kind, Obj: what})
	}
}

// ---------- channels ----------

func chanPtr(ch interface{}) uintptr { return reflect.ValueOf(ch).Pointer() }

func Send[T any](ch chan<- T, v T) {
	s := Active()
	if s == nil {
		ch <- v
		return
	}
	if cap(ch) == 0 {
		panic("vsched: unbuffered channel send is not modelled")
	}
	s.Yield(&Op{Kind: "send", Obj: objID(ch), Enabled: func() bool { return len(ch) < cap(ch) }})
	select {
	case ch <- v:
	default:
		panic("vsched: send would block")
	}
}

func Recv[T any](ch <-chan T) T {
	v, _ := Recv2(ch)
	return v
}

func Recv2[T any](ch <-chan T) (T, bool) {
	s := Active()
	if s == nil {
		v, ok := <-ch
		return v, ok
	}
	p := chanPtr(ch)
	s.Yield(&Op{Kind: "recv", Obj: objID(ch), Enabled: func() bool { return len(ch) > 0 || s.closed[p] }})
	select {
	case v, ok := <-ch:
		return v, ok
	default:
		panic("vsched: receive would block")
	}
}

func Len[T any](ch chan T) int {
	if s := Active(); s != nil {
		s.Yield(&Op{Kind: "len", Obj: objID(ch)})
	}
	return len(ch)
}

func Close[T any](ch chan T) {
	if s := Active(); s != nil {
		s.closed[chanPtr(ch)] = true
	}
	close(ch)
}

// ---------- select ----------

type Case struct {
	dir   reflect.SelectDir
	ch    reflect.Value
	val   reflect.Value
	timer bool
}

func RecvCase(ch interface{}) Case { return Case{dir: reflect.SelectRecv, ch: reflect.ValueOf(ch)} }
func TimerCase(ch interface{}) Case {
	return Case{dir: reflect.SelectRecv, ch: reflect.ValueOf(ch), timer: true}
}
func SendCase(ch interface{}, v interface{}) Case {
	c := reflect.ValueOf(ch)
	return Case{dir: reflect.SelectSend, ch: c, val: reflect.ValueOf(v).Convert(c.Type().Elem())}
}
func DefaultCase() Case { return Case{dir: reflect.SelectDefault} }

type Sel struct {
	Idx int
	val reflect.Value
	Ok  bool
}

func Val[T any](r *Sel) T {
	if !r.val.IsValid() {
		var z T
		return z
	}
	return r.val.Interface().(T)
}

func Select(cases ...Case) *Sel {
	s := Active()
	if s == nil {
		rc := make([]reflect.SelectCase, len(cases))
		for i, c := range cases {
			rc[i] = reflect.SelectCase{Dir: c.dir, Chan: c.ch, Send: c.val}
		}
		i, v, ok := reflect.Select(rc)
		return &Sel{i, v, ok}
	}
	def := -1
	hasTimer := false
	ready := func() []int {
		var r []int
		for i, c := range cases {
			switch {
			case c.dir == reflect.SelectDefault:
				def = i
			case c.timer:
				hasTimer = true
			case c.dir == reflect.SelectRecv:
				if c.ch.Len() > 0 || s.closed[c.ch.Pointer()] {
					r = append(r, i)
				}
			case c.dir == reflect.SelectSend:
				if c.ch.Cap() == 0 {
					panic("vsched: unbuffered channel in select is not modelled")
				}
				if c.ch.Len() < c.ch.Cap() {
					r = append(r, i)
				}
			}
		}
		return r
	}
	r0 := ready()
	op := &Op{Kind: "select", Obj: fmt.Sprint(len(cases), "arms")}
	op.Enabled = func() bool { return def >= 0 || hasTimer || len(ready()) > 0 }
	op.LowPrio = len(r0) == 0 && def < 0 && hasTimer
	s.Yield(op)
	r := ready()
	if len(r) == 0 {
		if def >= 0 {
			return &Sel{Idx: def}
		}
		for i, c := range cases {
			if c.timer {
				return &Sel{Idx: i} // the timer fires: nothing else can make progress here
			}
		}
		panic("vsched: select resumed with nothing ready")
	}
	i := r[s.Option("select", len(r), fmt.Sprint("ready arms ", r))]
	c := cases[i]
	if c.dir == reflect.SelectSend {
		if !c.ch.TrySend(c.val) {
			panic("vsched: select send would block")
		}
		return &Sel{Idx: i}
	}
	v, ok := c.ch.TryRecv()
	if !v.IsValid() && !ok && !s.closed[c.ch.Pointer()] {
		panic("vsched: select receive would block")
	}
	return &Sel{i, v, ok}
}

// ---------- map iteration order ----------

// MapKeys returns the keys in an explorer-owned order: sorted by printed form by
// default; alternatives (reversed, rotated) are environment decisions.
func MapKeys[M ~map[K]V, K comparable, V any](m M) []K {
	keys := make([]K, 0, len(m))
	for k := range m {
		keys = append(keys, k)
	}
	s := Active()
	if s == nil {
		return keys
	}
	sort.Slice(keys, func(i, j int) bool { return fmt.Sprint(keys[i]) < fmt.Sprint(keys[j]) })
	if len(keys) < 2 || !s.MapOrders {
		return keys
	}
	n := 2
	if len(keys) > 2 {
		n = 3
	}
	switch s.Option("maporder", n, fmt.Sprint(len(keys), " keys")) {
	case 1:
		for i, j := 0, len(keys)-1; i < j; i, j = i+1, j-1 {
			keys[i], keys[j] = keys[j], keys[i]
		}
	case 2:
		keys = append(keys[1:], keys[0])
	}
	return keys
}

// Sleep under the scheduler is a plain yield.
func Sleep(d time.Duration) {
	if s := Active(); s != nil {
		s.Yield(&Op{Kind: "yield", Obj: "sleep", LowPrio: true})
		return
	}
	time.Sleep(d)
}
