// Nested module: keeps these files out of module "verif". They are compiled only
// through build overlays, under virtual import paths inside gocoin's module:
//   github.com/piotrnar/gocoin/lib/others/vshim/{vsched,vsync,vatomic}
module vshimsrc

go 1.18
