// Package vatomic is the subset of sync/atomic that gocoin uses; every access is a
// scheduling point of vsched (so check-then-act races on atomics are explored).
// The value itself always lives in the native atomic, in both modes.
package vatomic

import (
	"sync/atomic"

	"github.com/piotrnar/gocoin/lib/others/vshim/vsched"
)

func pt(p interface{}) { vsched.PointAt("atomic", p, nil) }

func AddUint32(p *uint32, d uint32) uint32  { pt(p); return atomic.AddUint32(p, d) }
func LoadUint32(p *uint32) uint32           { pt(p); return atomic.LoadUint32(p) }
func StoreUint32(p *uint32, v uint32)       { pt(p); atomic.StoreUint32(p, v) }
func SwapUint32(p *uint32, v uint32) uint32 { pt(p); return atomic.SwapUint32(p, v) }
func CompareAndSwapUint32(p *uint32, o, n uint32) bool {
	pt(p)
	return atomic.CompareAndSwapUint32(p, o, n)
}
func AddUint64(p *uint64, d uint64) uint64  { pt(p); return atomic.AddUint64(p, d) }
func LoadUint64(p *uint64) uint64           { pt(p); return atomic.LoadUint64(p) }
func StoreUint64(p *uint64, v uint64)       { pt(p); atomic.StoreUint64(p, v) }
func SwapUint64(p *uint64, v uint64) uint64 { pt(p); return atomic.SwapUint64(p, v) }
func CompareAndSwapUint64(p *uint64, o, n uint64) bool {
	pt(p)
	return atomic.CompareAndSwapUint64(p, o, n)
}
func AddInt32(p *int32, d int32) int32  { pt(p); return atomic.AddInt32(p, d) }
func LoadInt32(p *int32) int32          { pt(p); return atomic.LoadInt32(p) }
func StoreInt32(p *int32, v int32)      { pt(p); atomic.StoreInt32(p, v) }
func SwapInt32(p *int32, v int32) int32 { pt(p); return atomic.SwapInt32(p, v) }
func CompareAndSwapInt32(p *int32, o, n int32) bool {
	pt(p)
	return atomic.CompareAndSwapInt32(p, o, n)
}
func AddInt64(p *int64, d int64) int64  { pt(p); return atomic.AddInt64(p, d) }
func LoadInt64(p *int64) int64          { pt(p); return atomic.LoadInt64(p) }
func StoreInt64(p *int64, v int64)      { pt(p); atomic.StoreInt64(p, v) }
func SwapInt64(p *int64, v int64) int64 { pt(p); return atomic.SwapInt64(p, v) }
func CompareAndSwapInt64(p *int64, o, n int64) bool {
	pt(p)
	return atomic.CompareAndSwapInt64(p, o, n)
}

type Int64 struct{ real atomic.Int64 }

func (x *Int64) Load() int64                    { pt(x); return x.real.Load() }
func (x *Int64) Store(v int64)                  { pt(x); x.real.Store(v) }
func (x *Int64) Add(d int64) int64              { pt(x); return x.real.Add(d) }
func (x *Int64) Swap(n int64) int64             { pt(x); return x.real.Swap(n) }
func (x *Int64) CompareAndSwap(o, n int64) bool { pt(x); return x.real.CompareAndSwap(o, n) }

type Uint32 struct{ real atomic.Uint32 }

func (x *Uint32) Load() uint32                    { pt(x); return x.real.Load() }
func (x *Uint32) Store(v uint32)                  { pt(x); x.real.Store(v) }
func (x *Uint32) Add(d uint32) uint32             { pt(x); return x.real.Add(d) }
func (x *Uint32) Swap(n uint32) uint32            { pt(x); return x.real.Swap(n) }
func (x *Uint32) CompareAndSwap(o, n uint32) bool { pt(x); return x.real.CompareAndSwap(o, n) }

type Uint64 struct{ real atomic.Uint64 }

func (x *Uint64) Load() uint64                    { pt(x); return x.real.Load() }
func (x *Uint64) Store(v uint64)                  { pt(x); x.real.Store(v) }
func (x *Uint64) Add(d uint64) uint64             { pt(x); return x.real.Add(d) }
func (x *Uint64) Swap(n uint64) uint64            { pt(x); return x.real.Swap(n) }
func (x *Uint64) CompareAndSwap(o, n uint64) bool { pt(x); return x.real.CompareAndSwap(o, n) }

type Int32 struct{ real atomic.Int32 }

func (x *Int32) Load() int32                    { pt(x); return x.real.Load() }
func (x *Int32) Store(v int32)                  { pt(x); x.real.Store(v) }
func (x *Int32) Add(d int32) int32              { pt(x); return x.real.Add(d) }
func (x *Int32) Swap(n int32) int32             { pt(x); return x.real.Swap(n) }
func (x *Int32) CompareAndSwap(o, n int32) bool { pt(x); return x.real.CompareAndSwap(o, n) }

type Bool struct{ real atomic.Bool }

func (x *Bool) Load() bool                    { pt(x); return x.real.Load() }
func (x *Bool) Store(v bool)                  { pt(x); x.real.Store(v) }
func (x *Bool) Swap(n bool) bool              { pt(x); return x.real.Swap(n) }
func (x *Bool) CompareAndSwap(o, n bool) bool { pt(x); return x.real.CompareAndSwap(o, n) }
