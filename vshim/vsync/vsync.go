// Package vsync is the subset of package sync that gocoin uses, with every
// blocking operation turned into a scheduling point of vsched.
package vsync

import (
	"sync"

	"github.com/piotrnar/gocoin/lib/others/vshim/vsched"
)

type Locker = sync.Locker
type Once = sync.Once
type Pool = sync.Pool
type Map = sync.Map

type Mutex struct {
	real   sync.Mutex
	locked bool
}

func (m *Mutex) Lock() {
	if !vsched.PointAt("lock", m, func() bool { return !m.locked }) {
		m.real.Lock()
		return
	}
	m.locked = true
}

func (m *Mutex) TryLock() bool {
	if !vsched.PointAt("trylock", m, nil) {
		return m.real.TryLock()
	}
	if m.locked {
		return false
	}
	m.locked = true
	return true
}

func (m *Mutex) Unlock() {
	if vsched.Active() == nil {
		m.real.Unlock()
		return
	}
	if !m.locked {
		panic("sync: unlock of unlocked mutex")
	}
	m.locked = false
}

type RWMutex struct {
	real    sync.RWMutex
	writer  bool
	readers int
}

func (m *RWMutex) Lock() {
	if !vsched.PointAt("wlock", m, func() bool { return !m.writer && m.readers == 0 }) {
		m.real.Lock()
		return
	}
	m.writer = true
}

func (m *RWMutex) Unlock() {
	if vsched.Active() == nil {
		m.real.Unlock()
		return
	}
	if !m.writer {
		panic("sync: Unlock of unlocked RWMutex")
	}
	m.writer = false
}

// RLock is a scheduling point only when it can block (a writer holds the lock):
// read acquisitions commute with each other and, under the data-race-freedom
// assumption stated in the evidence, an uncontended read acquire can be merged into
// the preceding step of the same thread (a writer's Lock stays a point and is
// disabled while readers hold the lock, so both orders reader/writer are explored).
func (m *RWMutex) RLock() {
	if vsched.Active() == nil {
		m.real.RLock()
		return
	}
	if m.writer || RLockPoints {
		vsched.PointAt("rlock", m, func() bool { return !m.writer })
	}
	m.readers++
}

// RLockPoints makes every RLock a scheduling point (thorough exploration of small scenarios).
var RLockPoints bool

func (m *RWMutex) RUnlock() {
	if vsched.Active() == nil {
		m.real.RUnlock()
		return
	}
	if m.readers <= 0 {
		panic("sync: RUnlock of unlocked RWMutex")
	}
	m.readers--
}

type WaitGroup struct {
	real sync.WaitGroup
	n    int
}

func (w *WaitGroup) Add(d int) {
	if vsched.Active() == nil {
		w.real.Add(d)
		return
	}
	w.n += d
	if w.n < 0 {
		panic("sync: negative WaitGroup counter")
	}
}

func (w *WaitGroup) Done() { w.Add(-1) }

func (w *WaitGroup) Wait() {
	if !vsched.PointAt("wait", w, func() bool { return w.n == 0 }) {
		w.real.Wait()
	}
}
