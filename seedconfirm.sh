#!/bin/bash
# seedconfirm.sh <id> <pkgdir> <test-regex> : confirm a seeded change (patch /tmp/seed-<id>.patch, demo /tmp/seed-<id>-demo/*_test.go)
# 1 demo passes on clean HEAD, 2 patch applies + baseline suite passes, 3 demo fails with the patch; then store under /verif/seeded/<id>/
export GOFLAGS=-mod=mod GOPROXY=off GOSUMDB=off GOTOOLCHAIN=local
id="$1"; pkg="$2"; rx="$3"
wt=/tmp/cf-$id
git -C /repo worktree remove --force "$wt" 2>/dev/null; rm -rf "$wt"
git -C /repo worktree add --detach "$wt" HEAD -q || exit 3
mkdir -p "$wt/$pkg"
if ls /tmp/seed-$id-demo/*_test.go >/dev/null 2>&1; then cp /tmp/seed-$id-demo/*_test.go "$wt/$pkg/"; fi
# demos delivered as a directory tree (client/…, lib/…) are laid over the worktree
for d in client lib wallet; do [ -d /tmp/seed-$id-demo/$d ] && cp -r /tmp/seed-$id-demo/$d "$wt/"; done
(cd "$wt" && timeout 900 go test -vet=off -count=1 -run "$rx" "./$pkg/" > /tmp/cf-$id.clean.log 2>&1); c1=$?
git -C "$wt" apply /tmp/seed-$id.patch || { echo "$id: PATCH DOES NOT APPLY"; exit 3; }
(cd "$wt" && timeout 900 go test -vet=off -count=1 -run "$rx" "./$pkg/" > /tmp/cf-$id.mut.log 2>&1); c2=$?
find "$wt" -name 'seed_*_test.go' -delete; rm -rf "$wt/seeddemo"
b=$(VERIF_REPO="$wt" /verif/baseline.sh | head -1)
echo "$id: demo on clean exit=$c1 (want 0), demo with change exit=$c2 (want !=0), $b"
if [ $c1 -eq 0 ] && [ $c2 -ne 0 ] && echo "$b" | grep -q "87/87"; then
  d=/verif/seeded/$id; mkdir -p "$d"
  cp /tmp/seed-$id.patch "$d/patch.diff"; cp -r /tmp/seed-$id-demo/* "$d/"
  echo "$id: CONFIRMED -> $d"
fi
git -C /repo worktree remove --force "$wt"
