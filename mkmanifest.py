#!/usr/bin/env python3
"""Generates /verif/MANIFEST.json from the table below (single source of truth)."""
import json, os

CHECKS = {
 "C06": dict(dir="c06", level="model_checking", engine="seqx-state",
   technique="explicit-state exploration of the real chain.Chain: every arrival order of each block-tree template (plus idle / close+reopen events), tip and UTXO dump compared with a reference model after every delivery",
   text="Every history over each template (all permutations of 6-7 blocks with children-before-parents, ties, branches invalid on connect, cross-fork spend graphs, one idle or close+reopen at every position) is executed on the implementation; after every delivery the tip must be the reference's best valid first-seen tip and the decoded UTXO map must equal the replay of that branch. Bounded-exhaustive, not a proof over all block trees.",
   note="trusted: refchain/reftx reference models (independent of gocoin), Go runtime; scripts restricted to OP_1/OP_0 (script semantics are C01); performance-only overlay shrinks chain.BlockMapInitLen",
   design="3/C06"),
 "C04": dict(dir="c04", level="model_checking", engine="seqx-state",
   technique="explicit-state exploration: chain states x rule-violating / valid block variants x variant sequences executed on the real chain.Chain; verdict, tip and UTXO dump compared with a reference implementation of the connect rules after every delivery",
   text="For each reachable chain state of a small set (prefix tip, partially spent multi-output tx, after a depth-2 reorg, after save+reopen) every variant block (one per rule of the statement, each next to a valid twin) and every variant sequence up to depth 2 (thorough 3) is delivered to the implementation; a rule-violating block must never become part of the active chain, a valid one must be connected, and tip + decoded UTXO map must equal the reference after every step (in particular unchanged after a refusal). Subsidy enumerated directly at all halving boundaries.",
   note="trusted: refchain rule list (MoneyRange, maturity, BIP68, sigop cost, subsidy) written from Bitcoin Core's rules; scripts limited to OP_1/OP_0 and sigop-carrying outputs (script semantics are C01)",
   design="3/C04"),
 "C05": dict(dir="c05", level="model_checking", engine="seqx-state",
   technique="explicit-state exploration: chain states (every activation boundary, median-time shapes, BIP34 push boundaries, 2015-block chains with retarget timespans) x header/structure/commitment variants x follow-up blocks executed on the real chain.Chain with the clock owned by an overlay shim; verdict, tip and UTXO compared with a reference rule list",
   text="On each chain state every variant block (proof of work above target, compact-target edge encodings, wrong retarget bits for clamped and unclamped timespans, timestamps at MTP / MTP+1 / now+7200 / now+7201, ten block versions incl. negative ones at every gate height, coinbase script lengths and BIP34 pushes, coinbase count/position, lock-time finality at height and time cut-offs, merkle mutation (CVE-2012-2459, inner pair), witness commitment shapes and nonce sizes, weight 4000000/4000004) is delivered, alone and followed by a valid block; a block that violates a rule must never be accepted or stored, and a refusal must leave tip and UTXO unchanged.",
   note="trusted: refchain.CheckBlock written from Core's rules; retarget arithmetic in unbounded integers (equals Core for limits <= 2^234); clock injected by rewriting the time import of lib/chain/block_check.go in a build overlay",
   design="3/C05"),
 "C11": dict(dir="c11", level="model_checking", engine="vsched",
   technique="stateless model checking of the implementation: gocoin's own goroutines run under a cooperative scheduler (typed source rewrite of go/chan/select/map-range + sync/atomic shims injected by build overlay); every schedule up to a deviation bound is executed (delay-bounded DFS), oracle = reference model + schedule independence",
   text="For each scenario (block with parallel script checks and UTXO workers colliding in one bucket; failing script with early return; snapshot save racing with the next block, HurryUp, reorg and Close) every interleaving of the real goroutines with at most 2 (quick, commit scenarios) / 1 (quick, snapshot scenarios) / 3 and 2 (thorough) non-default decisions is run on the real code; no schedule may panic, deadlock, change a verdict, or leave a tip/UTXO set (in memory, seen by the caller right after the call, or reloaded from the files written) different from the reference.",
   note="scheduling points are synchronisation operations (locks, WaitGroup.Wait, atomics, channel ops, select arms, map order): sound for data-race-free code; plain memory races are not visible to this engine; RWMutex writer preference not modelled; bounds reported per scenario",
   design="2.3, 3/C11"),
 "C07": dict(dir="c07", level="fault_enumeration", engine="crashfs",
   technique="exhaustive crash-point enumeration: the workload's complete file-effect log is recorded on the real code (os shim injected by overlay); every prefix and every torn final write is materialised and recovered in a fresh process, outcome compared with the reference model",
   text="Five workloads (extend with snapshots, snapshot then reorg, snapshot-reorg-snapshot, snapshot raced by the next block, side branch during a snapshot) are executed once with all create/write/rename/remove/truncate effects of lib/chain and lib/utxo recorded; for every crash point (1000-2500 per workload incl. torn writes) a fresh process opens the directory with the client's options and catch-up logic (thorough: also the library default), must not die, must show a previously validated tip with UTXO = replay of that tip, must reach the uninterrupted run's final state after the blocks are re-delivered, and must reproduce it after a clean close + reopen.",
   note="crash = process death (completed system calls persist; no power-loss reordering); the log model is conformance-checked every run (materialised full log == real directory); snapshot goroutines free-running while recording",
   design="2.4, 3/C07"),
 "C09": dict(dir="c09", level="exploration", engine="seqx-shape",
   technique="bounded-exhaustive enumeration of constructed byte-string families on btc.NewTx / Tx methods / NewBlock+BuildTxListExt(true,false), each case in a child worker under RLIMIT_AS with per-decode allocation measurement, compared with an independent Core-exact decoder (reftx)",
   text="Every member of: grammar-generated tx encodings (0-2 quick / 0-3 thorough inputs, outputs, witness items; script lengths 0,1,252,253,10^4; legacy, segwit, coinbase-like), every truncation, every single-byte substitution (8 values quick, 256 thorough), every CompactSize in each longer form, 7 huge counts per CompactSize, 5 marker/flag pairs, empty-witness re-encoding, trailing bytes; all strings of length <=5 (thorough <=7) over {00,01,02,fd,fe,ff} after a version; blocks of 0-2 (0-3) txs with every truncation, 19 count rewrites, substitutions, trailing data, in both hash modes. Judged: accept/refuse equals Core's deserialiser, re-encoding identity, txid/wtxid/size/nowitsize/weight/vsize/BlockWeight definitions, no panic, allocation <= 64*len+64KiB, no process death. Bounded-exhaustive over these families, not over all byte strings.",
   note="trusted: reftx (validated on the 712 transactions of the repo's vector files), Go runtime MemStats; zero-tx block refusal and the zero coinbase wtxid in hash mode are not judged",
   design="3/C09"),
 "C14": dict(dir="c14", level="exploration", engine="seqx-shape",
   technique="bounded-exhaustive enumeration of (i) btc.HDWallet derivation trees, extended-key string mutations and BIP39 entropy/mnemonic families in-process and (ii) a configuration family driven through the wallet BINARY built from the tree (black box, every configuration twice); oracle = independent BIP32/BIP39/scrypt/address reference (refhd, refaddr over refsecp)",
   text="Library: every node of the index-set tree {0,1,2^31-1,2^31,2^31+1,2^32-1}^<=3 below 6 (thorough 20) seeds incl. seeds with leading-zero child keys: private key, chain code, metadata, xprv/xpub strings, Pub(), public derivation = private derivation, StringWallet round trip; StringWallet on every single-character mutation and every checksum-byte value of extended keys; bip39 on all entropy lengths x patterns, every single-bit entropy, every single-word substitution of 12/18/24-word mnemonics; a directed family of private keys whose public Y is small. Binary: 386 (thorough 4282) configurations = hdpath x bip39 mode x atype x network x hdsubs x scrypt x seed kinds (+ type 3); -l twice (.secret and -stdin), -dump, -xprv, -words parsed: root = BIP32 master of the BIP39/raw seed, every key = derivation at its label path, every listed address = address of the exported key, xpub derives the listed public keys, WIF/xprv re-import give the same keys, invalid user mnemonics refused.",
   note="trusted: refhd/refaddr/refsecp (validated against every BIP32/BIP39/scrypt/Base58/Bech32 vector on disk at start), pinned BIP39 word list; gocoin-specific derivations without external spec (bip39=N entropy from the password, scrypt salt/params, type-3 chain) are pinned and counted, not judged; type 3 judged on determinism and address<->key agreement only",
   design="3/C14"),
 "C15": dict(dir="c15", level="exploration", engine="seqx-shape",
   technique="bounded-exhaustive enumeration of constructed destination / address-string / WIF-string families on btc.NewAddrFromString, OutScript, NewAddrFromPkScript, DecodePrivateAddr and lib/others/bech32, compared with an independent Base58Check/Bech32/Bech32m/segwit/WIF reference (refaddr)",
   text="Encode->decode->re-encode for all witness versions 0..16 x program lengths 0..42 x 6 patterns x bc/tb (both cases), all 256 Base58 version bytes x 6 hashes; valid-checksum structurally invalid segwit strings (versions 0..31 x both checksum variants x every data length x fills x hrps); from 17 valid addresses and 6 WIFs ALL single substitutions over 100 byte values, insertions, deletions, case flips, whole-case changes, transpositions, every checksum-byte value; all double substitutions inside the Bech32 charset on 3 (thorough 12) addresses and all triples on the short address; all strings of length <=4 (thorough <=6) over a 12-character alphabet. Verdict, decoded script and re-encoded string must equal the reference.",
   note="trusted: refaddr (validated against all BIP173/BIP350/Base58/addr/WIF vectors on disk at start). NewAddrFromString has no network parameter: a string is valid iff valid for main, test or Litecoin Base58 versions. Not judged (counted): other Base58 version bytes, WIF keys outside [1,n-1], P2PK scripts, encoder preconditions",
   design="3/C15"),
 "C13": dict(dir="c13", level="exploration", engine="seqx-shape",
   technique="bounded-exhaustive enumeration over the wallet BINARY (black box): full product of the most interacting dimensions, a pairwise-complete array over all 27 dimensions and directed edge cases; accounting model + two independent script verifiers as oracle",
   text="The wallet binary is built from the tree and driven in scratch directories over: wallet configuration (type 3/4 x atype p2kh/segwit/bech32/tap x testnet), synthesised balance folders (1-4 own outputs of P2PKH / P2SH-P2WPKH / P2WPKH / P2TR, amounts {1,546,10^5,10^8}, three funding layouts, optional foreign first line) and requests (1-3 destinations of 9 kinds, 11 amount classes from 1 sat to balance+1, -fee, -f, -change, -msg, -seq, -locktime, -txver, -useallinputs, -rfc6979, -batch, -txfn). Every produced transaction is re-offered with -raw in six forms; the balance folder left behind is spent completely in a second run. Judged: inputs are listed outputs, each destination gets exactly its amount at the refaddr-decoded script, change = inputs - payments - fee to an own address, every input verifies under script.VerifyTxScript (standard flags) AND the reference interpreter, RFC6979 signatures equal the reference signer's, nothing is written and exit != 0 when funds are insufficient or amounts wrap, -raw leaves outputs/outpoints/sequences/version/locktime untouched.",
   note="quick ~5*10^3 binary runs, thorough ~8*10^4; random-nonce signatures judged on validity only; P2SH-P2WPKH ownership depends on atype and is modelled; taproot keys untweaked by wallet convention; trusted: refaddr, refsig, refhash, refscript (all validated against the repo's vectors at start)",
   design="3/C13"),
 "C01": dict(dir="c01", level="exploration", engine="seqx-shape",
   technique="bounded-exhaustive differential enumeration of script programs / inputs / flag sets on script.VerifyTxScript against an independent second interpreter (refscript over refhash, refsig)",
   text="Every member of the families is evaluated by the implementation and by the reference; verdicts must agree; a panic escaping or a run > 60 s is a violation. (a) ALL programs of <= 2 (thorough <= 3, and <= 4 over 21 tokens) tokens over a 77-token alphabet (pushes incl. non-minimal and truncated forms, every opcode class, symbolic signatures and keys) in 5 contexts (bare, P2SH, P2WSH, P2SH-P2WSH, tapscript) with small initial stacks and 2-3 flag sets; (b) all 256 opcodes x 3 sigversions x executed/unexecuted x depth 0-4; (c) CHECKMULTISIG m-of-n 0..20(+21) with bad-signature positions, dummy, NULLFAIL; (d) CLTV/CSV operand and tx boundary values; (e) limits 999/1000/1001, 200/201/202, 520/521, 10000/10001; (f) witness versions 0-16 x program lengths 2-40, wrapped/bare, P2WPKH item counts, scriptSig malleation; (g) taproot control sizes, leaf versions, parity, Merkle order, annex, OP_SUCCESS x256, key-path signature sizes and all 256 hash types, sigop budget; (h) a 21-set flag lattice over the repo's vector corpus; plus DER/pubkey encodings and FindAndDelete families. Small-scope claim, not a proof over all scripts.",
   note="trusted: refscript (agrees with all 1204 rows of script_tests.json incl. Core's error names, 120 tx_valid and 92 tx_invalid rows), refhash (500/500 sighash.json rows), refsig; taproot follows the BIP text (no vector file on disk); flag sets restricted to consistent ones (VerifyTxScript panics by design on CLEANSTACK/WITNESS without P2SH)",
   design="3/C01"),
 "C02": dict(dir="c02", level="exploration", engine="seqx-shape",
   technique="bounded-exhaustive digest comparison with an independent implementation of the three signature-hash algorithms (refhash), explicit enumeration of all request orders on one Tx object, and verdicts on reference-made signatures through VerifyTxScript",
   text="(i) Tx.SignatureHash / WitnessSigHash / TaprootSigHash against refhash over 84 tx shapes x all inputs x 288 hash types (all 256 bytes + 4-byte types) x 71 script codes (code separators at every position, embedded signatures in each push form, unparsable tails), annex present/absent, key/script path, 4 codeseparator positions; (ii) VerifyTxScript on signatures made by the reference signer over the reference digest, over wrong digests, and over the all-zero / legacy-1 constants where the specification defines no digest (must fail); (iii) all request sequences of length <= 3 (thorough 4) over 16 request kinds on ONE Tx object, each answer compared with a fresh object and with refhash (cache independence).",
   note="trusted: refhash (reproduces all 500 sighash.json rows), refsig; the concurrent part of the statement (digest requests from several goroutines) is not explored by this check",
   design="3/C02"),
 "C03": dict(dir="c03", level="exploration", engine="seqx-shape",
   technique="bounded-exhaustive input families executed on btc.EcdsaVerify / SchnorrVerify / CheckPayToContract / NewPublicKey / the signers and judged by an independent math/big reference (refsig over refsecp)",
   text="Every member of constructed finite families is executed: valid triples (6 keys x 7 messages x 3 encodings x low/high S), every single-bit flip of key/signature/message, boundary scalars for r and s (0,1,n-1,n,n+1,+n,+2n,p,2^256-1,33-byte), DER forms/truncations, every key prefix byte and length 0-66, algebraic constructions for x>=p, y>=p, unliftable x and off-curve points that unchecked arithmetic would accept; same for BIP340 (odd-Y R, lengths) and the BIP341 tweak check (tweak 0/n-1/>=n/sum infinity, unliftable and >=p internal keys); signers: 12 secrets x 8 messages x (16 random-nonce repetitions, RFC6979, explicit nonce, 3 aux BIP340): verify under the reference, low S, canonical DER, equality with the RFC6979/BIP340 reference output, recovery for all 4 recids. Not a proof over all byte strings.",
   note="trusted: refsecp/refsig (validated each run against the BIP340 CSV and literal vectors of gocoin's test sources: 57 vectors + 153 group assertions), crypto/sha256, crypto/hmac; lax-DER-only forms refused by gocoin are C01's finding and not judged here",
   design="3/C03"),
 "C08": dict(dir="c08", level="model_checking", engine="seqx-state",
   technique="explicit-state BFS over the real secp256k1.Field (3 registers) and XYZ (2 registers) value types, states deduplicated by raw limbs, every contract-enabled operation compared with a math/big model after each step; exhaustive comparison of all 9217 precomputed table entries; both field back ends (10x26 via a GOARCH=386 build of the same program)",
   text="Field machine: SetB32 of 15 boundary constants, 13 raw limb patterns up to magnitude 32, Normalize, Negate, MulInt{2,3,7,8}, SetAdd, Mul (all aliasings), Sqr, Inv, InvVar, Sqrt; all sequences to depth 4 (quick) / 5 (thorough) that respect the magnitude contract; after each step value mod p, Normalize output, IsZero/IsOdd/Equals and operand preservation are checked. Group machine: 9 start points (inf, G, 2G, -G, 3G, P, -P, lambda*P, raw SetXYZ output), Double, Add, AddXY, Neg, SetXYZ, mul_lambda to depth 4/5. Families: ECmult over a boundary-scalar set squared x operand points, ECmultGen, BaseMultiply(Add), Multiply, DecompressPoint/SetXO on 64 x values, split_exp/split/wNAF, curve constants; tables pre_g, pre_g_128, prec (prec[j][i] = (i+1)*16^j*G), fin: every raw entry and every entry through the multiplication that uses it.",
   note="trusted: refsecp (self-checked each run), math/big; unexported tables reached through a verif-tagged overlay file generated by checks/c08/overlay.sh; if the 386 build is unavailable the run says so in assumptions",
   design="3/C08"),
 "C10": dict(dir="c10", level="exploration", engine="seqx-shape",
   technique="bounded-exhaustive enumeration of UTXO record families through SerializeU/C -> NewUtxoRecOwnU/C and OneUtxoRecU/C for every vout, exhaustive CompressAmount/DecompressAmount sweep, and small databases through the real UnspentDB commit -> Close -> NewUnspentDb in plain, option-compressed and tool-compressed modes (each open in its own child process); oracle = identity / projection",
   text="Out counts {1,2,3,252,253,254,30000,30001,30002} x survivor sets x heights at CompactSize boundaries x coinbase flag; 536 script shapes (P2PKH, P2SH, P2PK compressed/uncompressed/hybrid/off-curve/x>=p/y>=p/unliftable, every one-byte near-miss of each template, lengths 0..65536 x first byte 0..6) x 16 amounts x coinbase x 3 layouts; 146k amounts (d*10^e) x 2 scripts; all mantissas <= 10^6 (thorough 2*10^7) x exponents through the amount compressor; snapshot pools of 0,1,2,257 records, 3 generations incl. spends, in 3 modes.",
   note="trusted: math/big curve arithmetic for constructing non-canonical keys; identity is the oracle",
   design="3/C10"),
}

ALL = ["C%02d" % i for i in range(1, 21)]
NA_REASON = {}

def main():
    checks = []
    for pid in sorted(CHECKS):
        c = CHECKS[pid]
        checks.append({
            "property_id": pid,
            "quick_cmd": "./run.sh %s --tier quick" % c["dir"],
            "thorough_cmd": "./run.sh %s --tier thorough" % c["dir"],
            "evidence_file": "/verif/evidence/%s.json" % pid,
            "replay_cmd_template": "./run.sh %s --replay {path}" % c["dir"],
            "engine": c["engine"],
            "level_claimed": {"category": c["level"], "text": c["text"], "design_ref": c["design"]},
            "level_note": c["note"],
            "technique": c["technique"],
        })
    na = [{"property_id": p, "reason": NA_REASON.get(p, "check not built yet (work in progress; see DESIGN.md section 3 for the planned exhaustive exploration)")}
          for p in ALL if p not in CHECKS]
    m = {
        "version": 1,
        "setup_cmd": "./setup.sh",
        "hooks": {
            "guard": "verif",
            "enable": "go build -tags verif -overlay <generated> (run.sh); instrumentation is injected with build overlays generated from /repo's working tree at check time, no guarded source is committed to /repo",
            "baseline_off_cmd": "/verif/baseline.sh",
            "source_commits": [],
            "add_only": True,
        },
        "engines": [
            {"name": "vsched", "path": "/verif/vshim, /verif/tools/vrewrite, /verif/internal/explore", "serves_properties": [p for p in sorted(CHECKS) if CHECKS[p]["engine"] == "vsched"],
             "kind_free_text": "controlled cooperative scheduler over the real goroutines + deviation-bounded stateless DFS, sharded over worker processes"},
            {"name": "crashfs", "path": "/verif/internal/vos, /verif/internal/crashfs", "serves_properties": [p for p in sorted(CHECKS) if CHECKS[p]["engine"] == "crashfs"],
             "kind_free_text": "file-effect recording shim + exhaustive crash-prefix / torn-write materialisation + recovery in fresh processes"},
            {"name": "seqx-shape", "path": "/verif/checks", "serves_properties": [p for p in sorted(CHECKS) if CHECKS[p]["engine"] == "seqx-shape"],
             "kind_free_text": "bounded-exhaustive enumeration of constructed finite input / program / configuration families on the real entry points, independent reference model as oracle"},
            {"name": "seqx-state", "path": "/verif/checks", "serves_properties": [p for p in sorted(CHECKS) if CHECKS[p]["engine"] == "seqx-state"],
             "kind_free_text": "explicit-state / bounded-exhaustive history enumeration on the real objects, reference model as oracle"},
        ],
        "checks": checks,
        "not_applicable": na,
        "notes": "fix: commits in /repo are listed in /verif/known_findings.json (fixed) and DESIGN.md section 4",
    }
    json.dump(m, open("/verif/MANIFEST.json", "w"), indent=1)
    print("MANIFEST.json:", len(checks), "checks,", len(na), "not applicable")

main()
