#!/bin/bash
# seedeval.sh <patch> <check-dir> [tier]: apply a change to a scratch worktree of /repo HEAD and run one check against it.
patch="$1"; chk="$2"; tier="${3:-quick}"
id=$(basename "$patch" .patch)
# seeded/<id>/patch.diff: name the scratch worktree after the seed and the check, so concurrent evaluations do not collide
case "$id" in patch.diff|patch.rebased*) id="$(basename "$(dirname "$patch")")";; esac
id="$id-$chk-$$"
wt=/tmp/ev-$id; out=/tmp/evout-$id
rm -rf "$out"; git -C /repo worktree remove --force "$wt" 2>/dev/null; rm -rf "$wt"
git -C /repo worktree add --detach "$wt" HEAD -q || exit 3
if ! git -C "$wt" apply "$patch"; then echo "PATCH DOES NOT APPLY: $patch"; git -C /repo worktree remove --force "$wt"; exit 3; fi
VERIF_REPO="$wt" VERIF_OUT="$out" /verif/run.sh "$chk" --tier "$tier" > "$out.log" 2>&1
rc=$?
echo "== $id vs $chk ($tier): exit=$rc"
grep -E "^VIOLATION|^  key=|HARNESS|^KNOWN" "$out.log" | cut -c1-220 | head -12
tail -1 "$out.log" | cut -c1-160
[ -z "${KEEP:-}" ] && { git -C /repo worktree remove --force "$wt"; rm -rf "$out"; }
exit $rc
