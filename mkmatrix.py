#!/usr/bin/env python3
# Regenerates the round-2 part of DESIGN.md's detection matrix from seeded/<id>/meta.json.
import json, glob, re
rows=[]
miss=0; tot=0; nc=0
for f in sorted(glob.glob('/verif/seeded/C??-[c-z]/meta.json'), key=lambda x: ('cdefghijklmnopqrstuv'.index(x[-11])//2, x)):
    d=json.load(open(f)); tot+=1
    cb=d['caught_by']
    first='caught'
    if cb.startswith('NOT CAUGHT'):
        nc+=1; first='not caught (unreachable through the node)'
    if cb=='PENDING':
        first='pending'
    if cb.upper().startswith('MISSED') or 'HARNESS ERROR' in cb or cb.startswith('missed by'):
        miss+=1; first='missed → strengthened'
    cb=cb.replace('|','\\|')
    rows.append(f"| {d['id']} {d['summary'].replace('|','/')} | {d['property']} | {cb} | {first} |")
begin='<!-- round2-begin -->'; end='<!-- round2-end -->'
txt=begin+"\n\n**Second to eleventh rounds** (ids c/d, e/f, g/h, i/j, k/l, m/n, o/p, q/r; round five for twelve properties, round six for C05, C06, C07, round seven for C04, C05, C06, C07, C11, round eight for C09, C12, C13, C17, C18, round nine — ids i/j of C01, C08, C10, C14, C15, C16, C19, C20 —, round ten for C02, C03, C04, C05, C09, C12, C13, C17, C18, round eleven for C05, C12, C13, C14, C16, C17, C18; fresh agents again, told that the obvious changes had been tried and asked for mechanisms an enumeration of the obvious cases would be least likely to exercise — rare branches, second-order effects, constants, restart / reorganisation / eviction / error paths, option combinations, caches). Needs = what the change requires in order to manifest is in `seeded/<id>/meta.json`.\n\n| seeded change | breaks | caught by | first outcome |\n|---|---|---|---|\n"+"\n".join(rows)+f"\n\n{tot} changes in rounds 2-11: {tot-miss-nc} caught at once, {miss} missed at first and caught after a generic extension, {nc} not caught.\n\n"+end
p='/verif/DESIGN.md'; s=open(p).read()
if begin in s:
    s=re.sub(re.escape(begin)+'.*?'+re.escape(end), lambda m: txt, s, flags=re.S)
else:
    anchor='Own mutants demonstrated while building'
    i=s.index(anchor)
    s=s[:i]+txt+"\n\n"+s[i:]
open(p,'w').write(s)
print(tot, miss)
