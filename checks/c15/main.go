// C15: address encodings are bijective and error-detecting.
//
// Shape-mode exploration: constructed finite families of destinations, address
// strings and WIF strings are enumerated exhaustively; every member is evaluated
// on gocoin (btc.NewAddrFromString, BtcAddr.OutScript, btc.NewAddrFromPkScript,
// btc.DecodePrivateAddr, bech32.Decode/SegwitDecode/Encode) and on the reference
// model verif/ref/refaddr (written from BIP173/BIP350 and the Base58Check/WIF
// descriptions); verdict (accept/refuse), decoded script and re-encoded string
// must agree.
package main

import (
	"bytes"
	"crypto/sha256"
	"encoding/hex"
	"encoding/json"
	"flag"
	"fmt"
	"os"
	"path/filepath"
	"runtime"
	"sort"
	"strings"
	"sync"
	"time"

	"github.com/piotrnar/gocoin/lib/btc"
	"github.com/piotrnar/gocoin/lib/others/bech32"

	"verif/internal/ev"
	"verif/ref/refaddr"
)

var hrps = []string{"bc", "tb"}

// ---------------------------------------------------------------- outcome bookkeeping

type finding struct {
	key, what string
	replay    map[string]interface{}
}

type stats struct {
	classes map[string]int // family|ref-class|impl-class -> evaluations
	evals   int
	finds   []finding
	notes   map[string]int // observations that are not judged
}

func newStats() *stats { return &stats{classes: map[string]int{}, notes: map[string]int{}} }

func (s *stats) add(fam, ref, impl string) {
	s.classes[fam+"|"+ref+"|"+impl]++
	s.evals++
}

func (s *stats) fail(key, what string, kind string, payload []byte, extra map[string]interface{}) {
	if len(s.finds) > 50 {
		return
	}
	rp := map[string]interface{}{"kind": kind, "hex": hex.EncodeToString(payload), "text": printable(payload)}
	for k, v := range extra {
		rp[k] = v
	}
	s.finds = append(s.finds, finding{key, what, rp})
}

func printable(b []byte) string {
	var sb strings.Builder
	for _, c := range b {
		if c >= 32 && c < 127 {
			sb.WriteByte(c)
		} else {
			fmt.Fprintf(&sb, "\\x%02x", c)
		}
	}
	return sb.String()
}

// ---------------------------------------------------------------- evaluations on the real code

type implAddr struct {
	accepted  bool
	err       string
	panicMsg  string // panic inside NewAddrFromString
	script    []byte
	scriptPan string // panic inside OutScript
	reenc     string // re-encoding from the decoded fields
	str       string // String() of the decoded object itself (may be a cached copy of the input)
	isSegwit  bool
	version   int
	data      []byte
}

func runImplAddr(s string) (r implAddr) {
	var a *btc.BtcAddr
	func() {
		defer func() {
			if p := recover(); p != nil {
				r.panicMsg = fmt.Sprint(p)
			}
		}()
		var e error
		a, e = btc.NewAddrFromString(s)
		if e != nil {
			r.err = e.Error()
			a = nil
		}
	}()
	if a == nil {
		return
	}
	r.accepted = true
	func() {
		defer func() {
			if p := recover(); p != nil {
				r.scriptPan = fmt.Sprint(p)
			}
		}()
		r.script = a.OutScript()
	}()
	func() {
		defer func() {
			if p := recover(); p != nil {
				r.reenc = "panic: " + fmt.Sprint(p)
			}
		}()
		r.str = a.String()
		if a.SegwitProg != nil {
			r.isSegwit = true
			r.version = a.SegwitProg.Version
			r.data = a.SegwitProg.Program
			// re-encode from the decoded fields (a fresh object: String() caches)
			r.reenc = (&btc.SegwitProg{HRP: a.SegwitProg.HRP, Version: a.SegwitProg.Version, Program: a.SegwitProg.Program}).String()
		} else {
			r.version = int(a.Version)
			r.data = a.Hash160[:]
			r.reenc = btc.NewAddrFromHash160(a.Hash160[:], a.Version).String()
		}
	}()
	return
}

// evalAddr judges one address string.
func evalAddr(st *stats, fam string, s string) {
	d, rerr := refaddr.DecodeAny(s, hrps)
	im := runImplAddr(s)
	raw := []byte(s)
	if im.panicMsg != "" {
		st.add(fam, "ref:"+refClass(d, rerr), "impl:panic")
		st.fail("addr/decode-panic", fmt.Sprintf("NewAddrFromString(%q) panics: %s", printable(raw), im.panicMsg), "addr", raw, nil)
		return
	}
	switch {
	case rerr != nil:
		if im.accepted {
			cls := refaddr.Class(rerr)
			extra := ""
			// a valid 25-byte Base58Check address followed by further bytes gets its own class
			if dec, err := refaddr.B58Decode(s); err == nil && len(dec) > 25 && bytes.Equal(refaddr.Sha256d(dec[:21])[:4], dec[21:25]) {
				cls = "b58-trailing-bytes"
				extra = fmt.Sprintf(" (the string decodes to %d bytes: a valid 25-byte address followed by %x)", len(dec), dec[25:])
			}
			st.add(fam, "ref:refuse:"+cls, "impl:accept")
			st.fail("addr/accepted-invalid/"+cls,
				fmt.Sprintf("NewAddrFromString(%q) accepts%s; String() = %q, fields re-encode to %q; reference refuses: %v", printable(raw), extra, printable([]byte(im.str)), printable([]byte(im.reenc)), rerr), "addr", raw, nil)
			return
		}
		st.add(fam, "ref:refuse:"+refaddr.Class(rerr), "impl:refuse")
	case d.Kind == "b58-unknown-version":
		// A Base58Check string with a version byte that denotes no destination:
		// the property lists no verdict for it; recorded, not judged.
		ic := "impl:refuse"
		if im.accepted {
			ic = "impl:accept,OutScript-returns"
			if im.scriptPan != "" {
				ic = "impl:accept,OutScript-panics"
			}
		}
		st.add(fam, "ref:unknown-version(not judged)", ic)
		st.notes["b58 unknown version byte: "+ic]++
	default:
		cls := fmt.Sprintf("%s-%s", d.Kind, d.Net)
		if !im.accepted {
			st.add(fam, "ref:accept:"+cls, "impl:refuse")
			st.fail("addr/refused-valid/"+cls, fmt.Sprintf("NewAddrFromString(%q) refuses (%s); reference decodes it to script %x", printable(raw), im.err, d.Script), "addr", raw, nil)
			return
		}
		if im.scriptPan != "" {
			st.add(fam, "ref:accept:"+cls, "impl:accept,OutScript-panics")
			st.fail("addr/outscript-panic/"+cls, fmt.Sprintf("NewAddrFromString(%q) accepts, OutScript() panics: %s; reference script %x", printable(raw), im.scriptPan, d.Script), "addr", raw, nil)
			return
		}
		if !bytes.Equal(im.script, d.Script) {
			st.add(fam, "ref:accept:"+cls, "impl:accept,other-script")
			st.fail("addr/script-mismatch/"+cls, fmt.Sprintf("NewAddrFromString(%q).OutScript() = %x, reference %x", printable(raw), im.script, d.Script), "addr", raw, nil)
			return
		}
		want := s
		if d.Kind == "witness" {
			want = strings.ToLower(s)
		}
		if im.reenc != want {
			st.add(fam, "ref:accept:"+cls, "impl:accept,reencode-differs")
			st.fail("addr/reencode-mismatch/"+cls, fmt.Sprintf("%q decodes, its fields re-encode to %q", printable(raw), im.reenc), "addr", raw, nil)
			return
		}
		// bijectivity: String() of the decoded object is the canonical encoding too
		if im.str != want {
			st.add(fam, "ref:accept:"+cls, "impl:accept,String()-not-canonical")
			st.fail("addr/string-not-canonical/"+cls, fmt.Sprintf("NewAddrFromString(%q).String() = %q, canonical form %q", printable(raw), printable([]byte(im.str)), want), "addr", raw, nil)
			return
		}
		// script -> address through NewAddrFromPkScript (Bitcoin networks only)
		if d.Net == "main" || d.Net == "test" {
			got := implScriptToAddr(d.Script, d.Net == "test")
			if got != want {
				st.add(fam, "ref:accept:"+cls, "impl:accept,script->address-differs")
				st.fail("addr/script-to-address-mismatch/"+cls, fmt.Sprintf("NewAddrFromPkScript(%x, testnet=%v).String() = %q, expected %q", d.Script, d.Net == "test", got, want), "addr", raw, nil)
				return
			}
		}
		st.add(fam, "ref:accept:"+cls, "impl:accept")
	}
}

func refClass(d *refaddr.Decoded, err error) string {
	if err != nil {
		return "refuse:" + refaddr.Class(err)
	}
	return "accept:" + d.Kind
}

func implScriptToAddr(script []byte, testnet bool) (res string) {
	defer func() {
		if p := recover(); p != nil {
			res = "panic: " + fmt.Sprint(p)
		}
	}()
	a := btc.NewAddrFromPkScript(script, testnet)
	if a == nil {
		return ""
	}
	return a.String()
}

// evalScript judges script -> address -> script for one script.
func evalScript(st *stats, fam string, script []byte, testnet bool) {
	want, rerr := refaddr.ScriptToAddress(script, testnet)
	got := implScriptToAddr(script, testnet)
	rp := map[string]interface{}{"testnet": testnet}
	if strings.HasPrefix(got, "panic: ") {
		st.add(fam, "ref:"+okClass(rerr), "impl:panic")
		st.fail("script/encode-panic", fmt.Sprintf("NewAddrFromPkScript(%x, %v) panics: %s", script, testnet, got), "script", script, rp)
		return
	}
	if rerr != nil {
		if got != "" {
			// P2PK scripts map to the P2PKH address of the key in gocoin (a display
			// convenience); the property's destination list does not contain P2PK.
			if (len(script) == 67 && script[0] == 0x41 || len(script) == 35 && script[0] == 0x21) && script[len(script)-1] == 0xac {
				st.add(fam, "ref:no-address:p2pk(not judged)", "impl:p2pkh-address-of-key")
				return
			}
			st.add(fam, "ref:no-address:"+refaddr.Class(rerr), "impl:address")
			st.fail("script/address-for-unsupported/"+refaddr.Class(rerr), fmt.Sprintf("NewAddrFromPkScript(%x, %v) = %q; reference: %v", script, testnet, got, rerr), "script", script, rp)
			return
		}
		st.add(fam, "ref:no-address:"+refaddr.Class(rerr), "impl:nil")
		return
	}
	if got != want {
		st.add(fam, "ref:address", "impl:other")
		st.fail("script/address-mismatch", fmt.Sprintf("NewAddrFromPkScript(%x, %v) = %q, reference %q", script, testnet, got, want), "script", script, rp)
		return
	}
	// and back
	im := runImplAddr(got)
	if !im.accepted || im.scriptPan != "" || !bytes.Equal(im.script, script) {
		st.add(fam, "ref:address", "impl:roundtrip-fails")
		st.fail("script/roundtrip-mismatch", fmt.Sprintf("script %x -> %q -> accepted=%v script=%x panic=%q", script, got, im.accepted, im.script, im.scriptPan), "script", script, rp)
		return
	}
	// upper-case form of a Bech32 address decodes to the same script
	if _, _, ok := refaddr.ParseWitnessScript(script); ok {
		up := runImplAddr(strings.ToUpper(got))
		if !up.accepted || !bytes.Equal(up.script, script) || up.reenc != got {
			st.add(fam, "ref:address", "impl:uppercase-fails")
			st.fail("script/uppercase-roundtrip-mismatch", fmt.Sprintf("upper-case %q: accepted=%v script=%x reenc=%q", strings.ToUpper(got), up.accepted, up.script, up.reenc), "script", script, rp)
			return
		}
	}
	st.add(fam, "ref:address", "impl:same,roundtrip-ok")
}

func okClass(err error) string {
	if err != nil {
		return "refuse:" + refaddr.Class(err)
	}
	return "accept"
}

// evalB32 compares the generic Bech32 decoder and the segwit decoder of
// lib/others/bech32 with the reference on one string.
func evalB32(st *stats, fam string, s string) {
	raw := []byte(s)
	rh, rd, renc, rerr := refaddr.Bech32Decode(s)
	var ih string
	var id []byte
	var im bool
	pan := ""
	func() {
		defer func() {
			if p := recover(); p != nil {
				pan = fmt.Sprint(p)
			}
		}()
		ih, id, im = bech32.Decode(s)
	}()
	if pan != "" {
		st.add(fam, "ref:"+okClass(rerr), "impl:panic")
		st.fail("bech32lib/decode-panic", fmt.Sprintf("bech32.Decode(%q) panics: %s", printable(raw), pan), "b32", raw, nil)
		return
	}
	iacc := ih != ""
	switch {
	case rerr != nil && iacc:
		st.add(fam, "ref:refuse:"+refaddr.Class(rerr), "impl:accept")
		st.fail("bech32lib/accepted-invalid/"+refaddr.Class(rerr), fmt.Sprintf("bech32.Decode(%q) accepts; reference: %v", printable(raw), rerr), "b32", raw, nil)
		return
	case rerr == nil && !iacc:
		st.add(fam, "ref:accept", "impl:refuse")
		st.fail("bech32lib/refused-valid", fmt.Sprintf("bech32.Decode(%q) refuses a valid string", printable(raw)), "b32", raw, nil)
		return
	case rerr == nil:
		if ih != rh || !bytes.Equal(id, rd) || im != (renc == refaddr.Bech32m) {
			st.add(fam, "ref:accept", "impl:accept,other-fields")
			st.fail("bech32lib/decode-mismatch", fmt.Sprintf("bech32.Decode(%q) = (%q,%x,m=%v), reference (%q,%x,variant %d)", printable(raw), ih, id, im, rh, rd, renc), "b32", raw, nil)
			return
		}
		st.add(fam, fmt.Sprintf("ref:accept:variant%d", renc), "impl:accept")
	default:
		st.add(fam, "ref:refuse:"+refaddr.Class(rerr), "impl:refuse")
	}
	for _, hrp := range hrps {
		rv, rp, serr := refaddr.DecodeSegwit(hrp, s)
		var iv int
		var ip []byte
		var ierr error
		func() {
			defer func() {
				if p := recover(); p != nil {
					pan = fmt.Sprint(p)
				}
			}()
			iv, ip, ierr = bech32.SegwitDecode(hrp, s)
		}()
		if pan != "" {
			st.fail("bech32lib/segwit-decode-panic", fmt.Sprintf("bech32.SegwitDecode(%q,%q) panics: %s", hrp, printable(raw), pan), "b32", raw, nil)
			return
		}
		iok := ip != nil && ierr == nil
		if (ip != nil) != (ierr == nil) {
			st.fail("bech32lib/segwit-decode-inconsistent-result", fmt.Sprintf("bech32.SegwitDecode(%q,%q) returns program %x with error %v", hrp, printable(raw), ip, ierr), "b32", raw, nil)
			return
		}
		if iok != (serr == nil) {
			st.add(fam+"-segwit", "ref:"+okClass(serr), fmt.Sprintf("impl:ok=%v", iok))
			if iok {
				st.fail("bech32lib/segwit-accepted-invalid/"+refaddr.Class(serr), fmt.Sprintf("bech32.SegwitDecode(%q,%q) accepts; reference: %v", hrp, printable(raw), serr), "b32", raw, nil)
			} else {
				st.fail("bech32lib/segwit-refused-valid", fmt.Sprintf("bech32.SegwitDecode(%q,%q) refuses: %v", hrp, printable(raw), ierr), "b32", raw, nil)
			}
			return
		}
		if iok && (iv != rv || !bytes.Equal(ip, rp)) {
			st.fail("bech32lib/segwit-decode-mismatch", fmt.Sprintf("bech32.SegwitDecode(%q,%q) = (%d,%x), reference (%d,%x)", hrp, printable(raw), iv, ip, rv, rp), "b32", raw, nil)
			return
		}
		st.add(fam+"-segwit", "ref:"+okClass(serr), fmt.Sprintf("impl:ok=%v", iok))
	}
}

// evalWIF judges one WIF string.
func evalWIF(st *stats, fam string, s string) {
	raw := []byte(s)
	key, compr, ver, rerr := refaddr.WIFDecode(s)
	var pa *btc.PrivateAddr
	var ierr error
	pan := ""
	func() {
		defer func() {
			if p := recover(); p != nil {
				pan = fmt.Sprint(p)
			}
		}()
		pa, ierr = btc.DecodePrivateAddr(s)
	}()
	if rerr != nil && refaddr.Class(rerr) == "wif-key-range" {
		// Valid Base58Check envelope around a key that is 0 or >= n: not one of the
		// error kinds the property lists; recorded, not judged.
		ic := "impl:refuse"
		if pan != "" {
			ic = "impl:panic"
		} else if ierr == nil {
			ic = "impl:accept"
		}
		st.add(fam, "ref:refuse:wif-key-range(not judged)", ic)
		st.notes["WIF with key 0 or >= n: "+ic]++
		return
	}
	if pan != "" {
		st.add(fam, "ref:"+okClass(rerr), "impl:panic")
		st.fail("wif/decode-panic", fmt.Sprintf("DecodePrivateAddr(%q) panics: %s", printable(raw), pan), "wif", raw, nil)
		return
	}
	iacc := ierr == nil && pa != nil
	switch {
	case rerr != nil && iacc:
		st.add(fam, "ref:refuse:"+refaddr.Class(rerr), "impl:accept")
		re := ""
		func() {
			defer func() { recover() }()
			re = pa.String()
		}()
		st.fail("wif/accepted-invalid/"+refaddr.Class(rerr), fmt.Sprintf("DecodePrivateAddr(%q) accepts (re-encodes to %q); reference: %v", printable(raw), re, rerr), "wif", raw, nil)
	case rerr == nil && !iacc:
		st.add(fam, "ref:accept", "impl:refuse")
		st.fail("wif/refused-valid", fmt.Sprintf("DecodePrivateAddr(%q) refuses: %v", printable(raw), ierr), "wif", raw, nil)
	case rerr == nil:
		re := ""
		func() {
			defer func() {
				if p := recover(); p != nil {
					re = "panic: " + fmt.Sprint(p)
				}
			}()
			re = pa.String()
		}()
		if !bytes.Equal(pa.Key, key) || pa.Version != ver || pa.IsCompressed() != compr {
			st.add(fam, "ref:accept", "impl:accept,other-fields")
			st.fail("wif/decode-mismatch", fmt.Sprintf("DecodePrivateAddr(%q): key %x version %d compressed %v; reference %x %d %v", printable(raw), pa.Key, pa.Version, pa.IsCompressed(), key, ver, compr), "wif", raw, nil)
		} else if re != s {
			st.add(fam, "ref:accept", "impl:accept,reencode-differs")
			st.fail("wif/reencode-mismatch", fmt.Sprintf("DecodePrivateAddr(%q).String() = %q", printable(raw), re), "wif", raw, nil)
		} else {
			st.add(fam, fmt.Sprintf("ref:accept:compressed=%v", compr), "impl:accept")
		}
	default:
		st.add(fam, "ref:refuse:"+refaddr.Class(rerr), "impl:refuse")
	}
}

// evalB32Enc compares bech32.Encode with the reference encoder.
func evalB32Enc(st *stats, fam, hrp string, data []byte, m bool) {
	enc := refaddr.Bech32
	if m {
		enc = refaddr.Bech32m
	}
	want, rerr := refaddr.Bech32Encode(hrp, data, enc)
	got := ""
	pan := ""
	func() {
		defer func() {
			if p := recover(); p != nil {
				pan = fmt.Sprint(p)
			}
		}()
		got = bech32.Encode(hrp, data, m)
	}()
	rp := map[string]interface{}{"hrp": hrp, "bech32m": m}
	switch {
	case pan != "":
		st.add(fam, "ref:"+okClass(rerr), "impl:panic")
		st.fail("bech32lib/encode-panic", fmt.Sprintf("bech32.Encode(%q,%x,%v) panics: %s", hrp, data, m, pan), "b32enc", data, rp)
	case rerr != nil && got != "":
		// Encoder preconditions (e.g. empty hrp) are the caller's business: gocoin only
		// ever passes bc/tb. Recorded, not judged.
		st.add(fam, "ref:refuse:"+refaddr.Class(rerr)+"(not judged)", "impl:string")
		st.notes["bech32.Encode returns a string for an input the BIP forbids: "+refaddr.Class(rerr)]++
	case rerr == nil && got != want:
		st.add(fam, "ref:string", "impl:other")
		st.fail("bech32lib/encode-mismatch", fmt.Sprintf("bech32.Encode(%q,%x,%v) = %q, reference %q", hrp, data, m, got, want), "b32enc", data, rp)
	case rerr == nil:
		st.add(fam, "ref:string", "impl:same")
	default:
		st.add(fam, "ref:refuse:"+refaddr.Class(rerr), "impl:empty")
	}
}

// ---------------------------------------------------------------- mutation families

// substAlphabet: every byte value 0..255 (single-byte substitutions and insertions
// are exhaustive over the byte alphabet, not only over printable characters).
func substAlphabet() []byte {
	a := make([]byte, 256)
	for i := range a {
		a[i] = byte(i)
	}
	return a
}

// mutants enumerates all single substitutions (all 255 other byte values at every
// position), insertions (all 256 byte values at every gap), whole-string bit
// operations (bit 5 cleared / set, bit 7 set on every byte), deletions, single-letter case flips, whole-string case changes and
// transpositions of two positions of s.
func mutants(s string, f func(kind, m string)) {
	alpha := substAlphabet()
	b := []byte(s)
	for i := range b {
		for _, c := range alpha {
			if c != b[i] {
				m := append([]byte{}, b...)
				m[i] = c
				f("subst", string(m))
			}
		}
	}
	for i := 0; i <= len(b); i++ {
		for _, c := range alpha {
			m := append(append(append([]byte{}, b[:i]...), c), b[i:]...)
			f("insert", string(m))
		}
	}
	// one character replaced by a multi-byte UTF-8 character whose code point has the
	// original character in its low 8 bits (a decoder that iterates runes and truncates
	// them to a byte would read the original character), plus two look-alikes
	for i := range b {
		for _, r := range []rune{0x100 + rune(b[i]), 0x200 + rune(b[i]), 0x2100 + rune(b[i]), 0xff00 + rune(b[i]) - 0x20, 0x10000 + rune(b[i])} {
			if r < 0x80 {
				continue
			}
			m := append(append(append([]byte{}, b[:i]...), []byte(string(r))...), b[i+1:]...)
			f("subst-utf8", string(m))
		}
	}
	for i := range b {
		f("delete", string(append(append([]byte{}, b[:i]...), b[i+1:]...)))
	}
	for i := range b {
		c := b[i]
		var fl byte
		if c >= 'a' && c <= 'z' {
			fl = c - 32
		} else if c >= 'A' && c <= 'Z' {
			fl = c + 32
		} else {
			continue
		}
		m := append([]byte{}, b...)
		m[i] = fl
		f("caseflip", string(m))
	}
	f("upper", strings.ToUpper(s))
	f("lower", strings.ToLower(s))
	for name, op := range map[string]func(byte) byte{
		"allbytes-clear-bit5": func(c byte) byte { return c &^ 0x20 },
		"allbytes-set-bit5":   func(c byte) byte { return c | 0x20 },
		"allbytes-set-bit7":   func(c byte) byte { return c | 0x80 },
		"allbytes-clear-bit6": func(c byte) byte { return c &^ 0x40 },
	} {
		m := append([]byte{}, b...)
		for i := range m {
			m[i] = op(m[i])
		}
		if string(m) != s && string(m) != strings.ToUpper(s) && string(m) != strings.ToLower(s) {
			f(name, string(m))
		}
	}
	for i := 0; i < len(b); i++ {
		for j := i + 1; j < len(b); j++ {
			if b[i] != b[j] {
				m := append([]byte{}, b...)
				m[i], m[j] = m[j], m[i]
				f("transpose", string(m))
			}
		}
	}
}

const b32cs = "qpzry9x8gf2tvdw0s3jn54khce6mua7l"

// multiSubst enumerates all substitutions of exactly k data-part characters of a
// Bech32 address by other charset characters (case of the address kept), for the
// first position fixed to `first` (unit of parallel work).
func multiSubst(s string, k int, first int, f func(m string)) {
	sep := strings.LastIndexByte(s, '1')
	upper := s == strings.ToUpper(s)
	b := []byte(s)
	var rec func(pos, left int)
	rec = func(pos, left int) {
		if left == 0 {
			f(string(b))
			return
		}
		for i := pos; i < len(b); i++ {
			orig := b[i]
			for _, c := range []byte(b32cs) {
				if upper && c >= 'a' && c <= 'z' {
					c -= 32
				}
				if c == orig {
					continue
				}
				b[i] = c
				rec(i+1, left-1)
			}
			b[i] = orig
			if left == k {
				return // only the unit's first position
			}
		}
	}
	rec(sep+1+first, k)
}

func pattern(id, n int, tag string) []byte {
	b := make([]byte, n)
	switch id {
	case 0:
	case 1:
		for i := range b {
			b[i] = 0xff
		}
	case 2:
		for i := range b {
			b[i] = byte(i + 1)
		}
	case 3:
		for i := range b {
			b[i] = []byte{0xaa, 0x55}[i%2]
		}
	case 4:
		h := sha256.Sum256([]byte(fmt.Sprint("c15 pattern ", tag, n)))
		h2 := sha256.Sum256(h[:])
		copy(b, append(h[:], h2[:]...))
	case 5:
		if n > 0 {
			b[n-1] = 1 // leading zeros
		}
	}
	return b
}

// ---------------------------------------------------------------- driver

type unit func(st *stats)

func runUnits(units []unit, total *stats, r *ev.Run) {
	var mu sync.Mutex
	ch := make(chan unit, len(units))
	for _, u := range units {
		ch <- u
	}
	close(ch)
	var wg sync.WaitGroup
	for w := 0; w < runtime.NumCPU(); w++ {
		wg.Add(1)
		go func() {
			defer wg.Done()
			for u := range ch {
				if r.OverBudget() {
					continue
				}
				st := newStats()
				u(st)
				mu.Lock()
				for k, v := range st.classes {
					total.classes[k] += v
				}
				for k, v := range st.notes {
					total.notes[k] += v
				}
				total.evals += st.evals
				total.finds = append(total.finds, st.finds...)
				mu.Unlock()
			}
		}()
	}
	wg.Wait()
}

var replayFile = flag.String("replay", "", "replay one recorded case (no explorer)")

func replay(file string) {
	b, err := os.ReadFile(file)
	if err != nil {
		ev.HarnessError("%v", err)
	}
	var rec struct {
		Key    string `json:"key"`
		Replay struct {
			Kind    string `json:"kind"`
			Hex     string `json:"hex"`
			Testnet bool   `json:"testnet"`
			HRP     string `json:"hrp"`
			M       bool   `json:"bech32m"`
		} `json:"replay"`
	}
	if err := json.Unmarshal(b, &rec); err != nil {
		ev.HarnessError("%v", err)
	}
	raw, err := hex.DecodeString(rec.Replay.Hex)
	if err != nil {
		ev.HarnessError("%v", err)
	}
	st := newStats()
	switch rec.Replay.Kind {
	case "addr":
		evalAddr(st, "replay", string(raw))
	case "script":
		evalScript(st, "replay", raw, rec.Replay.Testnet)
	case "wif":
		evalWIF(st, "replay", string(raw))
	case "b32":
		evalB32(st, "replay", string(raw))
	case "b32enc":
		evalB32Enc(st, "replay", rec.Replay.HRP, raw, rec.Replay.M)
	default:
		ev.HarnessError("unknown replay kind %q", rec.Replay.Kind)
	}
	for k := range st.classes {
		fmt.Fprintln(ev.Out, "replay: outcome", k)
	}
	if len(st.finds) == 0 {
		fmt.Fprintln(ev.Out, "replay: case passes")
		os.Exit(0)
	}
	for _, f := range st.finds {
		fmt.Fprintf(ev.Out, "replay: %s: %s\n", f.key, f.what)
	}
	os.Exit(1)
}

func main() {
	r := ev.Start("C15", "exploration")
	if *replayFile != "" {
		replay(*replayFile)
		return
	}
	if r.Thorough() {
		r.Budget = 18 * time.Minute
	} else {
		r.Budget = 100 * time.Second
	}
	// The reference must agree with every vector on disk before it judges anything.
	vcnt, err := refaddr.Selfcheck(ev.Repo())
	if err != nil {
		ev.HarnessError("reference refaddr fails its vectors: %v", err)
	}
	nvec := 0
	for _, v := range vcnt {
		nvec += v
	}

	total := newStats()
	samples := &ev.Samples{N: 8}
	var units []unit
	famCount := map[string]bool{}
	add := func(fam string, u unit) { famCount[fam] = true; units = append(units, u) }

	// ---- F1: witness destinations: versions 0..16 x lengths 0..42 x patterns x hrp
	for ver := 0; ver <= 16; ver++ {
		ver := ver
		add("segwit-encode", func(st *stats) {
			for n := 0; n <= 42; n++ {
				for p := 0; p < 6; p++ {
					if n == 0 && p > 0 || p == 5 && n == 0 {
						continue
					}
					for _, tn := range []bool{false, true} {
						prog := pattern(p, n, fmt.Sprint("v", ver))
						evalScript(st, "segwit-encode", refaddr.WitnessScript(ver, prog), tn)
					}
				}
			}
		})
	}
	// near-miss scripts: OP_n with wrong push length, other first opcodes
	add("script-nearmiss", func(st *stats) {
		prog := pattern(2, 20, "nm")
		for first := 0; first < 256; first++ {
			for _, l := range []int{19, 20, 21} {
				s := append([]byte{byte(first), byte(l)}, prog...)
				evalScript(st, "script-nearmiss", s, false)
			}
		}
		h := pattern(4, 20, "nm")
		p2pkh := refaddr.P2PKHScript(h)
		p2sh := refaddr.P2SHScript(h)
		for _, base := range [][]byte{p2pkh, p2sh} {
			for i := range base {
				for _, x := range []byte{0x01, 0x80, 0xff} {
					m := append([]byte{}, base...)
					m[i] ^= x
					for _, tn := range []bool{false, true} {
						evalScript(st, "script-nearmiss", m, tn)
					}
				}
			}
			evalScript(st, "script-nearmiss", base[:len(base)-1], false)
			evalScript(st, "script-nearmiss", append(append([]byte{}, base...), 0), false)
		}
		evalScript(st, "script-nearmiss", nil, false)
		evalScript(st, "script-nearmiss", []byte{}, true)
		// P2PK (recorded, not judged)
		pk := append([]byte{0x21, 0x02}, pattern(2, 32, "pk")...)
		evalScript(st, "script-nearmiss", append(pk, 0xac), false)
		pku := append([]byte{0x41, 0x04}, pattern(2, 64, "pk")...)
		evalScript(st, "script-nearmiss", append(pku, 0xac), true)
	})

	// ---- F2: Base58: all 256 version bytes x 6 hashes (+ payload length variants)
	for p := 0; p < 6; p++ {
		p := p
		add("base58-versions", func(st *stats) {
			h := pattern(p, 20, "h160")
			for v := 0; v < 256; v++ {
				evalAddr(st, "base58-versions", refaddr.B58CheckEncode(append([]byte{byte(v)}, h...)))
			}
			for _, tn := range []bool{false, true} {
				evalScript(st, "base58-scripts", refaddr.P2PKHScript(h), tn)
				evalScript(st, "base58-scripts", refaddr.P2SHScript(h), tn)
			}
			// valid checksum around a payload of the wrong length: every version byte x every length 0..40
			for v := 0; v < 256; v++ {
				for n := 0; n <= 40; n++ {
					if n == 20 {
						continue
					}
					evalAddr(st, "base58-payload-length", refaddr.B58CheckEncode(append([]byte{byte(v)}, pattern(p, n, "pl")...)))
				}
			}
			// a VALID 25-byte address (version || hash || checksum) followed by 1..8 further bytes
			for v := 0; v < 256; v++ {
				good := append([]byte{byte(v)}, h...)
				good = append(good, refaddr.Sha256d(good)[:4]...)
				for n := 1; n <= 8; n++ {
					for fill := 0; fill < 3; fill++ {
						x := append([]byte{}, good...)
						switch fill {
						case 0:
							x = append(x, make([]byte, n)...)
						case 1:
							x = append(x, bytes.Repeat([]byte{0xff}, n)...)
						case 2: // the extra bytes end in a checksum of everything before them
							if n < 4 {
								continue
							}
							x = append(x, pattern(2, n-4, "")...)
							x = append(x, refaddr.Sha256d(x)[:4]...)
						}
						evalAddr(st, "base58-trailing-bytes", refaddr.B58Encode(x))
					}
				}
				// and preceded by extra bytes (valid address at the END of the decoded string)
				for n := 1; n <= 4; n++ {
					evalAddr(st, "base58-leading-bytes", refaddr.B58Encode(append(bytes.Repeat([]byte{0x01}, n), good...)))
				}
			}
		})
	}

	// ---- F3: error detection from valid addresses
	var seeds []string
	mk := func(s string, err error) string {
		if err != nil {
			ev.HarnessError("seed address: %v", err)
		}
		return s
	}
	hA, hB, hZ := pattern(4, 20, "seedA"), pattern(2, 20, ""), pattern(5, 20, "")
	seeds = append(seeds,
		refaddr.EncodeP2PKH(hA, false), refaddr.EncodeP2PKH(hZ, false), refaddr.EncodeP2SH(hB, false),
		refaddr.EncodeP2PKH(hB, true), refaddr.EncodeP2SH(hA, true),
		refaddr.B58CheckEncode(append([]byte{48}, hA...)), // Litecoin P2PKH (OutScript knows version 48)
		mk(refaddr.EncodeSegwit("bc", 0, hA)),
		mk(refaddr.EncodeSegwit("bc", 0, pattern(4, 32, "seedB"))),
		strings.ToUpper(mk(refaddr.EncodeSegwit("tb", 0, hB))),
		mk(refaddr.EncodeSegwit("tb", 0, pattern(2, 32, ""))),
		mk(refaddr.EncodeSegwit("bc", 1, pattern(4, 32, "seedC"))),
		mk(refaddr.EncodeSegwit("tb", 1, pattern(3, 32, ""))),
		strings.ToUpper(mk(refaddr.EncodeSegwit("bc", 16, []byte{0x75, 0x1e}))),
		mk(refaddr.EncodeSegwit("bc", 2, pattern(4, 16, "seedD"))),
		mk(refaddr.EncodeSegwit("bc", 1, pattern(4, 40, "seedE"))),
		mk(refaddr.EncodeSegwit("tb", 16, pattern(1, 40, ""))),
		mk(refaddr.EncodeSegwit("bc", 1, pattern(0, 32, ""))),
	)
	for _, s := range seeds {
		if d, err := refaddr.DecodeAny(s, hrps); err != nil || d.Script == nil {
			ev.HarnessError("seed address %q is not valid for the reference: %v", s, err)
		}
		s := s
		samples.Add(map[string]string{"family": "mutation seed address", "address": s})
		add("addr-mutations", func(st *stats) {
			evalAddr(st, "addr-seed", s)
			mutants(s, func(kind, m string) {
				evalAddr(st, "addr-"+kind, m)
				evalB32(st, "b32-"+kind, m)
			})
		})
	}
	// ---- F3a: structurally invalid segwit strings with a VALID checksum (built with the
	// reference Bech32 encoder): every witness version 0..31 x both checksum variants x
	// every data length x fill patterns (zero / all-ones / mixed: covers zero and
	// non-zero padding, 5+ leftover bits, program lengths 0..50) x hrp x case.
	for _, hrp := range []string{"bc", "tb", "tc", "ltc", "bc1q", "tb1p"} {
		for _, enc := range []refaddr.Encoding{refaddr.Bech32, refaddr.Bech32m} {
			hrp, enc := hrp, enc
			add("segwit-structural", func(st *stats) {
				for ver := 0; ver < 32; ver++ {
					for dl := 0; dl <= 81; dl++ {
						for fill := 0; fill < 4; fill++ {
							d := make([]byte, 0, dl+1)
							d = append(d, byte(ver))
							for i := 0; i < dl; i++ {
								switch fill {
								case 0:
									d = append(d, 0)
								case 1:
									d = append(d, 31)
								case 2:
									d = append(d, byte((i*11+ver+3)%32))
								case 3: // all zero except the last group = 1 (lowest padding bit set)
									if i == dl-1 {
										d = append(d, 1)
									} else {
										d = append(d, 0)
									}
								}
							}
							s, err := refaddr.Bech32Encode(hrp, d, enc)
							if err != nil {
								continue // over 90 characters
							}
							evalAddr(st, "segwit-structural", s)
							evalB32(st, "b32-structural", s)
							if fill == 2 {
								evalAddr(st, "segwit-structural", strings.ToUpper(s))
							}
						}
					}
				}
				// no data part at all / version only
				for _, d := range [][]byte{{}, {0}, {1}, {16}, {17}} {
					if s, err := refaddr.Bech32Encode(hrp, d, enc); err == nil {
						evalAddr(st, "segwit-structural", s)
						evalB32(st, "b32-structural", s)
					}
				}
			})
		}
	}
	// ---- F3c: every other value of each of the four Base58Check checksum bytes
	for _, sd := range seeds[:6] {
		sd := sd
		add("base58-checksum-bytes", func(st *stats) {
			full, err := refaddr.B58Decode(sd)
			if err != nil || len(full) != 25 {
				ev.HarnessError("seed %q", sd)
			}
			for pos := 21; pos < 25; pos++ {
				for v := 0; v < 256; v++ {
					if byte(v) == full[pos] {
						continue
					}
					m := append([]byte{}, full...)
					m[pos] = byte(v)
					evalAddr(st, "base58-checksum-bytes", refaddr.B58Encode(m))
				}
			}
		})
	}
	// generic Bech32 strings from the BIP lists: mutations judged by the generic decoder
	lits, err := refaddr.GoLiterals(filepath.Join(ev.Repo(), "lib/others/bech32/bech32_test.go"))
	if err != nil {
		ev.HarnessError("%v", err)
	}
	nGeneric := 0
	for _, name := range []string{"valid_checksum_bech32", "valid_checksum_bech32m", "invalid_checksum_bech32", "invalid_checksum_bech32m"} {
		l, _ := lits[name].([]interface{})
		for _, x := range l {
			s, _ := x.(string)
			if s == "" {
				continue
			}
			nGeneric++
			valid := strings.HasPrefix(name, "valid")
			add("b32-generic", func(st *stats) {
				evalB32(st, "b32-generic-listed", s)
				evalAddr(st, "addr-generic-b32-listed", s)
				if valid {
					mutants(s, func(kind, m string) { evalB32(st, "b32-generic-"+kind, m) })
				}
			})
		}
	}
	if nGeneric < 30 {
		ev.HarnessError("Bech32 vector lists not found in bech32_test.go")
	}

	// ---- F3b: multiple substitutions inside the Bech32 charset (BCH code: up to 4 errors are always detected)
	type ms struct {
		s string
		k int
	}
	var multi []ms
	short := strings.ToLower(seeds[12]) // bc1sw50qgdz25j
	multi = append(multi, ms{short, 2}, ms{strings.ToUpper(short), 2})
	if r.Thorough() {
		for _, sd := range seeds[6:] {
			if strings.ToLower(sd) != short {
				multi = append(multi, ms{sd, 2})
			}
		}
		multi = append(multi, ms{short, 3}, ms{strings.ToUpper(short), 3})
	} else {
		multi = append(multi, ms{seeds[6], 2})
	}
	for _, m := range multi {
		m := m
		n := len(m.s) - strings.LastIndexByte(m.s, '1') - 1
		for first := 0; first+m.k <= n; first++ {
			first := first
			fam := fmt.Sprintf("addr-subst%d", m.k)
			add(fam, func(st *stats) {
				multiSubst(m.s, m.k, first, func(x string) { evalAddr(st, fam, x) })
			})
		}
	}

	// ---- F4: all short strings over a 12-character alphabet
	alpha12 := []byte("1bctqpaB0l \x80")
	maxLen := 4
	if r.Thorough() {
		maxLen = 6
	}
	for _, c0 := range alpha12 {
		c0 := c0
		add("short-strings", func(st *stats) {
			var rec func(b []byte)
			rec = func(b []byte) {
				s := string(b)
				evalAddr(st, "short-addr", s)
				evalWIF(st, "short-wif", s)
				evalB32(st, "short-b32", s)
				if len(b) < maxLen {
					for _, c := range alpha12 {
						rec(append(b, c))
					}
				}
			}
			rec([]byte{c0})
		})
	}
	add("short-strings", func(st *stats) {
		evalAddr(st, "short-addr", "")
		evalWIF(st, "short-wif", "")
		evalB32(st, "short-b32", "")
	})

	// ---- F5: WIF
	keyA := pattern(4, 32, "wifkey")
	keyB := pattern(5, 32, "") // 00..01
	nm1, _ := hex.DecodeString("fffffffffffffffffffffffffffffffebaaedce6af48a03bbfd25e8cd0364140")
	n0, _ := hex.DecodeString("fffffffffffffffffffffffffffffffebaaedce6af48a03bbfd25e8cd0364141")
	add("wif-encode", func(st *stats) {
		for v := 0; v < 256; v++ {
			for _, k := range [][]byte{keyA, keyB, nm1} {
				for _, c := range []bool{false, true} {
					want := refaddr.WIFEncode(k, c, byte(v))
					evalWIF(st, "wif-versions", want)
					got := ""
					func() {
						defer func() {
							if p := recover(); p != nil {
								got = "panic: " + fmt.Sprint(p)
							}
						}()
						got = btc.NewPrivateAddr(k, byte(v), c).String()
					}()
					if got != want {
						st.add("wif-encode", "ref:string", "impl:other")
						st.fail("wif/encode-mismatch", fmt.Sprintf("NewPrivateAddr(%x,%d,%v).String() = %q, reference %q", k, v, c, got, want), "wif", []byte(want), nil)
					} else {
						st.add("wif-encode", "ref:string", "impl:same")
					}
				}
			}
		}
		// valid checksum around structurally wrong payloads
		for _, v := range []byte{0x80, 0xef, 0xb0} {
			for n := 28; n <= 40; n++ { // payload = version + n bytes
				evalWIF(st, "wif-payload-length", refaddr.B58CheckEncode(append([]byte{v}, pattern(4, n, "wl")...)))
			}
			// a VALID 33/34-byte payload + checksum followed by 1..8 further bytes
			for _, compr := range []bool{false, true} {
				good, _ := refaddr.B58Decode(refaddr.WIFEncode(keyA, compr, v))
				for n := 1; n <= 8; n++ {
					for _, fb := range []byte{0x00, 0x01, 0xff} {
						evalWIF(st, "wif-trailing-bytes", refaddr.B58Encode(append(append([]byte{}, good...), bytes.Repeat([]byte{fb}, n)...)))
					}
					if n >= 4 {
						x := append(append([]byte{}, good...), pattern(2, n-4, "")...)
						evalWIF(st, "wif-trailing-bytes", refaddr.B58Encode(append(x, refaddr.Sha256d(x)[:4]...)))
					}
				}
			}
			for suffix := 0; suffix < 256; suffix++ {
				evalWIF(st, "wif-suffix", refaddr.B58CheckEncode(append(append([]byte{v}, keyA...), byte(suffix))))
			}
			for _, k := range [][]byte{make([]byte, 32), n0, pattern(1, 32, "")} {
				evalWIF(st, "wif-key-range", refaddr.B58CheckEncode(append([]byte{v}, k...)))
				evalWIF(st, "wif-key-range", refaddr.B58CheckEncode(append(append([]byte{v}, k...), 1)))
			}
		}
	})
	for _, v := range []byte{0x80, 0xef, 0xb0} {
		for _, c := range []bool{false, true} {
			w := refaddr.WIFEncode(keyA, c, v)
			samples.Add(map[string]string{"family": "mutation seed WIF", "wif": w})
			add("wif-mutations", func(st *stats) {
				evalWIF(st, "wif-seed", w)
				mutants(w, func(kind, m string) { evalWIF(st, "wif-"+kind, m) })
				full, _ := refaddr.B58Decode(w)
				for pos := len(full) - 4; pos < len(full); pos++ {
					for v := 0; v < 256; v++ {
						if byte(v) != full[pos] {
							m := append([]byte{}, full...)
							m[pos] = byte(v)
							evalWIF(st, "wif-checksum-bytes", refaddr.B58Encode(m))
						}
					}
				}
			})
		}
	}

	// ---- F6: generic Bech32 encoder
	add("b32-encode", func(st *stats) {
		long := strings.Repeat("x", 83)
		for _, hrp := range []string{"", "a", "bc", "tb", "?", "BC", "b c", "b\x7fc", long, long + "y", strings.Repeat("h", 40)} {
			for n := 0; n <= 90; n++ {
				for _, m := range []bool{false, true} {
					d := make([]byte, n)
					for i := range d {
						d[i] = byte((i*7 + n) % 32)
					}
					evalB32Enc(st, "b32-encode", hrp, d, m)
				}
			}
			evalB32Enc(st, "b32-encode", hrp, []byte{32}, false)
			evalB32Enc(st, "b32-encode", hrp, []byte{0, 255}, true)
		}
	})

	runUnits(units, total, r)

	// deterministic choice of the reported example per key: shortest input, then lexicographic
	sort.SliceStable(total.finds, func(i, j int) bool {
		a, b := total.finds[i], total.finds[j]
		if a.key != b.key {
			return a.key < b.key
		}
		ha, _ := a.replay["hex"].(string)
		hb, _ := b.replay["hex"].(string)
		if len(ha) != len(hb) {
			return len(ha) < len(hb)
		}
		if ha != hb {
			return ha < hb
		}
		return a.what < b.what
	})
	for _, f := range total.finds {
		r.Report(f.key, f.what, f.replay)
	}
	// measured coverage
	perFamily := map[string]int{}
	distinct := 0
	accept, refuse := map[string]bool{}, map[string]bool{}
	var classList []string
	for k, v := range total.classes {
		f := strings.SplitN(k, "|", 2)[0]
		perFamily[f] += v
		distinct++
		classList = append(classList, fmt.Sprintf("%s = %d", k, v))
		if strings.Contains(k, "|ref:accept") || strings.Contains(k, "|ref:address") || strings.Contains(k, "|ref:string") {
			accept[f] = true
		}
		if strings.Contains(k, "|ref:refuse") || strings.Contains(k, "|ref:no-address") {
			refuse[f] = true
		}
	}
	sort.Strings(classList)
	both := 0
	for f := range accept {
		if refuse[f] {
			both++
		}
	}
	for _, k := range classList[:min(6, len(classList))] {
		samples.Add(map[string]string{"outcome class": k})
	}
	r.Finish(map[string]interface{}{
		"evaluations":                        total.evals,
		"distinct_nontrivial":                distinct,
		"rule":                               "a case is an (input family, reference outcome class, gocoin outcome class) triple; distinct_nontrivial counts the distinct triples observed (reference classes: accept per destination kind/network, refuse per reason: checksum, mixed-case, char, variant, padding, program-length, program-length-v0, version, hrp, short, b58-char, b58-checksum, b58-payload-length, wif-length, wif-suffix ...)",
		"families":                           len(perFamily),
		"families_with_accept_and_refuse":    both,
		"evaluations_per_family":             perFamily,
		"outcome_classes":                    classList,
		"not_judged_observations":            total.notes,
		"mutation_seed_addresses":            len(seeds),
		"multi_substitution_addresses":       len(multi),
		"short_string_max_length":            maxLen,
		"reference_vectors_validated":        nvec,
		"reference_vectors_validated_detail": vcnt,
		"samples":                            samples.L,
	}, []string{
		"oracle: verif/ref/refaddr (Base58Check, Bech32/Bech32m, segwit address rules, WIF from the BIP173/BIP350/wiki texts), validated at start against every vector list on disk (counts in reference_vectors_validated_detail); a reference that fails a vector is a harness error",
		"btc.NewAddrFromString has no network parameter: it accepts the prefixes bc1/tb1 and any Base58 version byte; the network is selected by the caller (wallet: assert_address_version; NewAddrFromPkScript(script, testnet)). Judged as: a string is a valid address iff it is valid for Bitcoin mainnet (0, 5, bc), testnet (111, 196, tb) or is a Litecoin Base58 address (48, 50)",
		"a Base58Check string with 21-byte payload and any OTHER version byte: the property states no verdict; gocoin accepts it and OutScript() panics; counted in not_judged_observations",
		"a WIF string with a valid envelope whose key is 0 or >= n is not one of the listed error kinds: recorded in not_judged_observations (gocoin panics in NewPrivateAddr), not judged",
		"P2PK scripts map to the P2PKH address of the key in NewAddrFromPkScript (not a destination kind of the property): recorded, not judged",
		"Base58 strings are judged strictly (no whitespace skipping), as gocoin and the property's 'invalid character' clause do",
		"BtcAddr.String() returns the cached input for Base58 addresses: re-encoding is done from the decoded fields on a fresh object",
	})
}

func min(a, b int) int {
	if a < b {
		return a
	}
	return b
}
