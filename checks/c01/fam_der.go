package main

import (
	"fmt"
	"math/big"

	"verif/internal/ev"
	"verif/ref/refhash"
	"verif/ref/refscript"
	"verif/ref/refsecp"
	"verif/ref/refsig"
)

// ---- signature and public key encodings (consensus: lax DER; BIP66; policy flags) ----

func derInt(b []byte) []byte { return cat([]byte{0x02, byte(len(b))}, b) }

func intBytes(v *big.Int) []byte {
	b := v.Bytes()
	if len(b) == 0 {
		b = []byte{0}
	}
	if b[0]&0x80 != 0 {
		b = append([]byte{0}, b...)
	}
	return b
}

func derSeq(body []byte) []byte { return cat([]byte{0x30, byte(len(body))}, body) }

type sigEnc struct {
	name string
	mk   func(r, s *big.Int) []byte // DER part (without hash type)
}

func sigEncodings() []sigEnc {
	n := refsecp.N
	plain := func(r, s *big.Int) []byte { return derSeq(cat(derInt(intBytes(r)), derInt(intBytes(s)))) }
	return []sigEnc{
		{"canonical", plain},
		{"high-s", func(r, s *big.Int) []byte { return plain(r, new(big.Int).Sub(n, s)) }},
		{"s-plus-n", func(r, s *big.Int) []byte { return plain(r, new(big.Int).Add(s, n)) }},
		{"r-plus-n", func(r, s *big.Int) []byte { return plain(new(big.Int).Add(r, n), s) }},
		{"r-padded-1-zero", func(r, s *big.Int) []byte {
			return derSeq(cat(derInt(cat([]byte{0}, intBytes(r))), derInt(intBytes(s))))
		}},
		{"s-padded-1-zero", func(r, s *big.Int) []byte {
			return derSeq(cat(derInt(intBytes(r)), derInt(cat([]byte{0}, intBytes(s)))))
		}},
		{"r-padded-to-sig-80", func(r, s *big.Int) []byte {
			rb := intBytes(r)
			pad := 79 - (6 + len(rb) + len(intBytes(s)))
			return derSeq(cat(derInt(cat(make([]byte, pad), rb)), derInt(intBytes(s))))
		}},
		{"r-unpadded-high-bit", func(r, s *big.Int) []byte { return derSeq(cat(derInt(r.Bytes()), derInt(intBytes(s)))) }},
		{"long-form-sequence-length", func(r, s *big.Int) []byte {
			body := cat(derInt(intBytes(r)), derInt(intBytes(s)))
			return cat([]byte{0x30, 0x81, byte(len(body))}, body)
		}},
		{"long-form-integer-length", func(r, s *big.Int) []byte {
			rb := intBytes(r)
			return derSeq(cat([]byte{0x02, 0x81, byte(len(rb))}, rb, derInt(intBytes(s))))
		}},
		{"long-form-integer-length-leading-zero", func(r, s *big.Int) []byte {
			rb := intBytes(r)
			return derSeq(cat([]byte{0x02, 0x82, 0x00, byte(len(rb))}, rb, derInt(intBytes(s))))
		}},
		{"sequence-length+1", func(r, s *big.Int) []byte {
			b := plain(r, s)
			b[1]++
			return b
		}},
		{"sequence-length-1", func(r, s *big.Int) []byte {
			b := plain(r, s)
			b[1]--
			return b
		}},
		{"sequence-length-0", func(r, s *big.Int) []byte {
			b := plain(r, s)
			b[1] = 0
			return b
		}},
		{"garbage-after-s", func(r, s *big.Int) []byte { return cat(plain(r, s), []byte{0x00}) }},
		{"garbage-after-s-inside-sequence", func(r, s *big.Int) []byte { return derSeq(cat(derInt(intBytes(r)), derInt(intBytes(s)), []byte{0x00})) }},
		{"r-zero-length", func(r, s *big.Int) []byte { return derSeq(cat([]byte{0x02, 0x00}, derInt(intBytes(s)))) }},
		{"s-zero-length", func(r, s *big.Int) []byte { return derSeq(cat(derInt(intBytes(r)), []byte{0x02, 0x00})) }},
		{"r-zero", func(r, s *big.Int) []byte { return derSeq(cat(derInt([]byte{0}), derInt(intBytes(s)))) }},
		{"s-zero", func(r, s *big.Int) []byte { return derSeq(cat(derInt(intBytes(r)), derInt([]byte{0}))) }},
		{"integer-tag-03", func(r, s *big.Int) []byte {
			b := plain(r, s)
			b[2] = 3
			return b
		}},
		{"sequence-tag-31", func(r, s *big.Int) []byte {
			b := plain(r, s)
			b[0] = 0x31
			return b
		}},
		{"s-missing", func(r, s *big.Int) []byte { return derSeq(derInt(intBytes(r))) }},
		{"r-negative-form", func(r, s *big.Int) []byte { // r encoded with a leading 0xff byte (a negative number in DER)
			return derSeq(cat(derInt(cat([]byte{0xff}, intBytes(r))), derInt(intBytes(s))))
		}},
	}
}

func famDER(r *ev.Run, p *pool) {
	b := &batcher{p: p}
	flagSets := []flagSet{fsNone, fsBlkP2SH, fsBlkDersig, fsBlkTaproot, fsStd,
		{"p2sh+strictenc", refscript.P2SH | refscript.STRICTENC}, {"p2sh+low_s", refscript.P2SH | refscript.LOW_S},
		{"std-minus-LOW_S", fStd &^ refscript.LOW_S}, {"std-minus-NULLFAIL", fStd &^ refscript.NULLFAIL}, {"std-minus-STRICTENC", fStd &^ refscript.STRICTENC}}
	hashTypes := []byte{1, 2, 3, 0x81, 0x82, 0x83, 0, 4, 0x80, 0x84, 0xff, 0x21, 0x41}
	b.lazy(func() (l []*Case) {
		for _, ctx := range []int{0, 2} {
			for _, neg := range []bool{false, true} {
				pk := cat(pushData(keys[0].pub), []byte{0xac})
				sfx := ""
				if neg {
					pk = append(pk, 0x91)
					sfx = "+NOT"
				}
				for _, ht := range hashTypes {
					t0, _ := txFor(nil, nil, nil, aAmount)
					var d [32]byte
					if ctx == 0 {
						d = refhash.Legacy(t0, pk, 0, uint32(ht))
					} else {
						d = refhash.BIP143(t0, pk, aAmount, 0, uint32(ht))
					}
					rr, ss, ok := refsig.ParseDERLax(ecdsaDER(0, d))
					if !ok {
						ev.HarnessError("own signature does not parse")
					}
					for _, enc := range sigEncodings() {
						if ht != 1 && enc.name != "canonical" && enc.name != "high-s" {
							continue
						}
						sig := append(enc.mk(rr, ss), ht)
						tx, sp, _ := wrap(pk, ctx, [][]byte{sig})
						for _, fl := range flagSets {
							if ctx == 2 && fl.f&refscript.WITNESS == 0 {
								continue
							}
							tag := fmt.Sprintf("sig/%s%s", encClass(enc.name, sig), sfx)
							if ht != 1 {
								tag = fmt.Sprintf("sig-hashtype/%s%s", htClass(ht), sfx)
							}
							l = append(l, &Case{Fam: "der", Tag: tag, Label: fmt.Sprintf("P2PK%s in %s, signature encoding %s, hash type 0x%02x (sig %x)", sfx, ctxNames[ctx], enc.name, ht, trunc(sig)), Tx: tx, Idx: 0, Spent: sp, Flags: fl.f, FName: fl.name})
						}
					}
					if ht == 1 {
						// no hash type byte at all, and empty signature
						for _, v := range []struct {
							n string
							s []byte
						}{{"no-hash-type-byte", ecdsaDER(0, d)}, {"empty", []byte{}}, {"only-hash-type", []byte{1}}} {
							tx, sp, _ := wrap(pk, ctx, [][]byte{v.s})
							for _, fl := range flagSets {
								if ctx == 2 && fl.f&refscript.WITNESS == 0 {
									continue
								}
								l = append(l, &Case{Fam: "der", Tag: fmt.Sprintf("sig/%s%s", v.n, sfx), Label: fmt.Sprintf("P2PK%s in %s, signature %s", sfx, ctxNames[ctx], v.n), Tx: tx, Idx: 0, Spent: sp, Flags: fl.f, FName: fl.name})
							}
						}
					}
				}
			}
		}
		return
	})
	// public key encodings with a canonical signature
	b.lazy(func() (l []*Case) {
		k := &keys[0]
		xp := refsecp.B32(new(big.Int).Add(refsecp.P, big.NewInt(1)))
		pubs := []struct {
			n string
			b []byte
		}{
			{"compressed", k.pub}, {"uncompressed", k.pubU}, {"hybrid", k.pubH}, {"hybrid-wrong-parity", k.pubBad},
			{"compressed-wrong-parity", cat([]byte{k.pub[0] ^ 1}, k.pub[1:])}, {"compressed-prefix-04", cat([]byte{4}, k.pub[1:])},
			{"uncompressed-prefix-02", cat([]byte{2}, k.pubU[1:])}, {"uncompressed-prefix-05", cat([]byte{5}, k.pubU[1:])},
			{"uncompressed-y-altered", cat(k.pubU[:64], []byte{k.pubU[64] ^ 1})}, {"compressed-x>=p", cat([]byte{2}, xp)},
			{"xonly-32-bytes", k.xonly}, {"empty", []byte{}}, {"34-bytes", cat(k.pub, []byte{0})}, {"64-bytes", k.pubU[:64]},
		}
		for _, ctx := range []int{0, 2} {
			for _, neg := range []bool{false, true} {
				for _, pb := range pubs {
					pk := cat(pushData(pb.b), []byte{0xac})
					sfx := ""
					if neg {
						pk = append(pk, 0x91)
						sfx = "+NOT"
					}
					t0, _ := txFor(nil, nil, nil, aAmount)
					var d [32]byte
					if ctx == 0 {
						d = refhash.Legacy(t0, pk, 0, 1)
					} else {
						d = refhash.BIP143(t0, pk, aAmount, 0, 1)
					}
					sig := ecdsaSig(0, d, 1)
					tx, sp, _ := wrap(pk, ctx, [][]byte{sig})
					for _, fl := range flagSets {
						if ctx == 2 && fl.f&refscript.WITNESS == 0 {
							continue
						}
						l = append(l, &Case{Fam: "der", Tag: fmt.Sprintf("pubkey/%s%s", pb.n, sfx), Label: fmt.Sprintf("P2PK%s in %s with public key encoding %s", sfx, ctxNames[ctx], pb.n), Tx: tx, Idx: 0, Spent: sp, Flags: fl.f, FName: fl.name})
					}
				}
			}
		}
		return
	})
	b.flush()
	sample(p, "der", map[string]interface{}{"signature_encodings": len(sigEncodings()), "hash_types": hashTypes, "flag_sets": len(flagSets)})
}

// encClass: encodings that only differ in HOW they deviate from strict DER while
// Core's lax parser reads the same in-range (r, s) share one class.
func encClass(name string, sigWithHashType []byte) string {
	switch name {
	case "canonical", "high-s", "s-plus-n", "r-plus-n":
		return name
	}
	r, s, ok := refsig.ParseDERLax(sigWithHashType[:len(sigWithHashType)-1])
	if ok && !refsig.IsStrictDER(sigWithHashType) && r.Sign() > 0 && s.Sign() > 0 {
		return "non-strict-der-readable-by-lax-parser"
	}
	return "malformed(" + name + ")"
}

func htClass(ht byte) string {
	b := ht &^ 0x80
	if b >= 1 && b <= 3 {
		return fmt.Sprintf("defined-%02x", ht)
	}
	return fmt.Sprintf("undefined-%02x", ht)
}

// ---- FindAndDelete ----

func famFAD(r *ev.Run, p *pool) {
	b := &batcher{p: p}
	forms := []struct {
		name string
		max  int
		enc  func([]byte) []byte
	}{
		{"direct-push", 75, func(s []byte) []byte { return cat([]byte{byte(len(s))}, s) }},
		{"pushdata1", 255, func(s []byte) []byte { return cat([]byte{0x4c, byte(len(s))}, s) }},
		{"pushdata2", 65535, func(s []byte) []byte { return cat([]byte{0x4d, byte(len(s)), byte(len(s) >> 8)}, s) }},
		{"pushdata4", 1 << 30, func(s []byte) []byte { return cat([]byte{0x4e, byte(len(s)), byte(len(s) >> 8), 0, 0}, s) }},
	}
	sizeClass := func(n int) string {
		switch {
		case n == 0:
			return "element-empty"
		case n <= 75:
			return "element-1..75-bytes"
		case n <= 255:
			return "element-76..255-bytes"
		}
		return "element-256..520-bytes"
	}
	constFl := []flagSet{{"p2sh+const_scriptcode", refscript.P2SH | refscript.CONST_SCRIPTCODE}, fsStd, {"std-minus-NULLFAIL", fStd &^ refscript.NULLFAIL}}
	plainFl := []flagSet{fsBlkP2SH, fsNone, {"std-minus-CONST_SCRIPTCODE", fStd &^ refscript.CONST_SCRIPTCODE &^ refscript.NULLFAIL &^ refscript.STRICTENC &^ refscript.LOW_S &^ refscript.DERSIG &^ refscript.MINIMALDATA &^ refscript.CLEANSTACK}}
	// CONST_SCRIPTCODE makes the match decision itself the verdict: <blob in form> DROP <pub> CHECKSIG NOT, scriptSig <blob>
	for _, size := range []int{0, 1, 2, 74, 75, 76, 77, 80, 252, 253, 254, 255, 256, 519, 520} {
		for fi, f := range forms {
			if size > f.max || (size == 0 && fi == 0) {
				continue
			}
			blob := fill(size, 0x77)
			pk := cat(f.enc(blob), []byte{0x75}, pushData(keys[0].pub), []byte{0xac, 0x91})
			if size == 0 {
				pk = cat(f.enc(blob), []byte{0x75}, pushData(keys[0].pub), []byte{0xac, 0x91})
			}
			for _, ctx := range []int{0, 1} {
				pp := &prepared{P: pk}
				tx, sp := buildCtx(pp, ctx, [][]byte{blob})
				if ctx == 0 {
					tx.In[0].Script = pushData(blob) // not necessarily minimal: irrelevant without MINIMALDATA
				}
				for _, fl := range append(append([]flagSet{}, constFl...), plainFl...) {
					b.add(&Case{Fam: "fad", Tag: fmt.Sprintf("checksig/%s/%s-copy", sizeClass(size), f.name),
						Label: fmt.Sprintf("script holds a %s copy of the %d-byte signature element before DROP <pub> CHECKSIG NOT (%s)", f.name, size, ctxNames[ctx]), Tx: tx, Idx: 0, Spent: sp, Flags: fl.f, FName: fl.name})
				}
			}
		}
	}
	// element 4b||X (76 bytes) versus script bytes 4c 4b X (PUSHDATA1 of 75 bytes)
	{
		x := fill(75, 0x77)
		e := cat([]byte{0x4b}, x)
		pk := cat([]byte{0x4c, 0x4b}, x, []byte{0x75}, pushData(keys[0].pub), []byte{0xac, 0x91})
		for _, fl := range append(append([]flagSet{}, constFl...), plainFl...) {
			c := mk("fad", "checksig/compactsize-prefixed-pattern", "76-byte element 4b||X against script 4c 4b X (a PUSHDATA1 push of the 75 bytes X)", pushData(e), nil, pk, fl)
			b.add(c)
		}
	}
	// valid signatures over the script code after deletion; natural and zero-padded sizes
	for _, total := range []int{0, 75, 76, 77, 80, 130} {
		for fi := range forms {
			total, fi := total, fi
			b.lazy(func() (l []*Case) {
				f := forms[fi]
				tailScr := cat([]byte{0x75}, pushData(keys[0].pub), []byte{0xac})
				t0, _ := txFor(nil, nil, nil, aAmount)
				d := refhash.Legacy(t0, tailScr, 0, 1)
				rr, ss, _ := refsig.ParseDERLax(ecdsaDER(0, d))
				var sig []byte
				if total == 0 {
					sig = ecdsaSig(0, d, 1)
				} else {
					rb, sb := intBytes(rr), intBytes(ss)
					pad := total - (6 + len(rb) + len(sb) + 1)
					sig = append(derSeq(cat(derInt(cat(make([]byte, pad), rb)), derInt(sb))), 1)
				}
				if len(sig) > f.max {
					return nil
				}
				pk := cat(f.enc(sig), tailScr)
				for _, fl := range []flagSet{fsBlkP2SH, fsNone} {
					l = append(l, mk("fad", fmt.Sprintf("checksig-valid-signature/%s/%s-copy", sizeClass(len(sig)), f.name),
						fmt.Sprintf("script holds a %s copy of a %d-byte signature that signs the script without the copy", f.name, len(sig)), pushData(sig), nil, pk, fl))
				}
				return
			})
		}
	}
	// CHECKMULTISIG removes every signature
	b.lazy(func() (l []*Case) {
		for _, form := range []int{0, 1} {
			f := forms[form]
			tailScr := cat([]byte{0x75, 0x75, 0x52}, pushData(keys[1].pub), pushData(keys[2].pub), []byte{0x52, 0xae})
			t0, _ := txFor(nil, nil, nil, aAmount)
			d := refhash.Legacy(t0, tailScr, 0, 1)
			s1, s2 := ecdsaSig(1, d, 1), ecdsaSig(2, d, 1)
			pk := cat(f.enc(s1), f.enc(s2), tailScr)
			ss := cat([]byte{0x00}, pushData(s1), pushData(s2))
			for _, fl := range []flagSet{fsBlkP2SH, fsBlkTaproot, {"p2sh+const_scriptcode", refscript.P2SH | refscript.CONST_SCRIPTCODE}} {
				l = append(l, mk("fad", "checkmultisig/"+f.name+"-copies", "2-of-2 CHECKMULTISIG whose script holds "+f.name+" copies of both signatures", ss, nil, pk, fl))
			}
		}
		return
	})
	b.flush()
	sample(p, "fad", map[string]interface{}{"element_sizes": []int{0, 1, 2, 74, 75, 76, 77, 80, 252, 253, 254, 255, 256, 519, 520}, "push_forms": 4})
}
