package main

import (
	"crypto/sha256"
	"fmt"
	"sync"

	"verif/internal/ev"
	"verif/ref/refhash"
	"verif/ref/refscript"
	"verif/ref/refsecp"
	"verif/ref/refsig"
	"verif/ref/reftx"
)

// Keys of the reference signer. Key 0 is "A" of the design text.
type keyT struct {
	priv   [32]byte
	pub    []byte // compressed
	pubU   []byte // uncompressed
	pubH   []byte // hybrid (06/07)
	xonly  []byte
	yOdd   bool
	pubBad []byte // hybrid prefix with the wrong parity
}

const nKeys = 22

var keys [nKeys]keyT

func initKeys() {
	for i := range keys {
		k := &keys[i]
		k.priv = sha256.Sum256([]byte(fmt.Sprintf("verif C01 key %d", i)))
		k.pub = refsig.PubkeyFromPriv(k.priv[:], true)
		k.pubU = refsig.PubkeyFromPriv(k.priv[:], false)
		if k.pub == nil || k.pubU == nil {
			ev.HarnessError("key derivation failed")
		}
		k.xonly, k.yOdd = refsig.XOnlyFromPriv(k.priv[:])
		k.pubH = append([]byte{}, k.pubU...)
		k.pubBad = append([]byte{}, k.pubU...)
		if k.pubU[64]&1 == 1 {
			k.pubH[0], k.pubBad[0] = 7, 6
		} else {
			k.pubH[0], k.pubBad[0] = 6, 7
		}
	}
}

var (
	ecdsaCache   sync.Map // [33]byte(key idx, digest) -> (r,s) DER without hash type
	schnorrCache sync.Map
)

type sigKey struct {
	k int
	d [32]byte
}

// ecdsaDER: canonical low-S DER signature (no hash type byte) of key k over digest.
func ecdsaDER(k int, d [32]byte) []byte {
	if v, ok := ecdsaCache.Load(sigKey{k, d}); ok {
		return v.([]byte)
	}
	r, s := refsig.ECDSASignRFC6979(keys[k].priv[:], d[:])
	if !refsig.IsLowS(s) {
		s.Sub(refsecp.N, s)
	}
	der := refsig.SerializeDER(r, s)
	ecdsaCache.Store(sigKey{k, d}, der)
	return der
}

func ecdsaSig(k int, d [32]byte, ht byte) []byte {
	return append(append([]byte{}, ecdsaDER(k, d)...), ht)
}

func schnorrSig(k int, d [32]byte) []byte {
	if v, ok := schnorrCache.Load(sigKey{k, d}); ok {
		return append([]byte{}, v.([]byte)...)
	}
	s := refsig.SchnorrSign(keys[k].priv[:], d[:], make([]byte, 32))
	if s == nil {
		ev.HarnessError("schnorr signing failed")
	}
	schnorrCache.Store(sigKey{k, d}, s)
	return append([]byte{}, s...)
}

var badDigest = sha256.Sum256([]byte("verif C01: a message nobody asked to sign"))

// tapLeaf describes one script-path commitment.
type tapLeaf struct {
	script   []byte
	leafVer  byte
	internal []byte
	path     []byte // 32*k sibling hashes
	spk      []byte
	control  []byte
	leafHash [32]byte
}

// buildTap computes the output key for (internal key, leaf, path) per BIP341 and
// the matching control block. ok=false when no output key exists.
func buildTap(scr []byte, leafVer byte, internal []byte, path []byte) (*tapLeaf, bool) {
	t := &tapLeaf{script: scr, leafVer: leafVer, internal: internal, path: path}
	t.leafHash = refhash.TapLeafHash(leafVer&0xfe, scr)
	root := refhash.MerkleRootFromPath(t.leafHash, path)
	q, parity, ok := refscript.TaprootOutputKey(internal, root[:])
	if !ok {
		return nil, false
	}
	t.spk = cat([]byte{0x51, 0x20}, q)
	c0 := leafVer & 0xfe
	if parity {
		c0 |= 1
	}
	t.control = cat([]byte{c0}, internal, path)
	return t, true
}

// tapSpend builds the spending transaction of a script-path spend; stack are the
// script inputs (bottom first); annex nil = none.
func tapSpend(t *tapLeaf, stack [][]byte, annex []byte, amount uint64) (*reftx.Tx, []reftx.Out) {
	w := append([][]byte{}, stack...)
	w = append(w, t.script, t.control)
	if annex != nil {
		w = append(w, annex)
	}
	return spendTx(nil, w, t.spk, amount)
}

// tapscriptSanity: a correct script-path spend and a correct key-path spend,
// assembled step by step from BIP341/342, must be accepted by the reference, and
// their single-bit corruptions refused.
func tapscriptSanity() error {
	fl := fBlkTaproot
	scr := cat(pushData(keys[0].xonly), []byte{0xac})
	sib := refhash.Sha256([]byte("sibling"))
	tl, ok := buildTap(scr, 0xc0, keys[1].xonly, sib[:])
	if !ok {
		return fmt.Errorf("no output key")
	}
	if !refsig.TaprootTweakCheck(tl.spk[2:], tl.control[0]&1 == 1, keys[1].xonly, func() []byte { r := refhash.MerkleRootFromPath(tl.leafHash, sib[:]); return r[:] }()) {
		return fmt.Errorf("fast output key disagrees with refsig.TaprootTweakCheck")
	}
	tx, sp := tapSpend(tl, [][]byte{make([]byte, 64)}, nil, 1000)
	d, _ := refhash.Taproot(tx, sp, 0, 0, nil, &refhash.TapExt{LeafHash: tl.leafHash, CodeSepPos: 0xffffffff})
	tx.In[0].Witness[0] = schnorrSig(0, d)
	in := &refscript.Input{Tx: tx, Idx: 0, Amount: 1000, Spent: sp}
	if r := refscript.Verify(nil, tl.spk, tx.In[0].Witness, fl, in); !r.OK {
		return fmt.Errorf("script path: %s", r.Err)
	}
	tx.In[0].Witness[0][5] ^= 1
	if r := refscript.Verify(nil, tl.spk, tx.In[0].Witness, fl, in); r.OK || r.Err != "SCHNORR_SIG" {
		return fmt.Errorf("corrupted script path signature: %s", r.Err)
	}
	// key path: output key = x-only key 0 directly
	spk := cat([]byte{0x51, 0x20}, keys[0].xonly)
	tx, sp = spendTx(nil, [][]byte{make([]byte, 64)}, spk, 1000)
	d, _ = refhash.Taproot(tx, sp, 0, 0, nil, nil)
	tx.In[0].Witness[0] = schnorrSig(0, d)
	in = &refscript.Input{Tx: tx, Idx: 0, Amount: 1000, Spent: sp}
	if r := refscript.Verify(nil, spk, tx.In[0].Witness, fl, in); !r.OK {
		return fmt.Errorf("key path: %s", r.Err)
	}
	tx.Out[0].Value++
	if r := refscript.Verify(nil, spk, tx.In[0].Witness, fl, in); r.OK {
		return fmt.Errorf("key path signature survives an output change")
	}
	return nil
}
