package main

import (
	"fmt"
	"sync/atomic"

	"verif/internal/ev"
	"verif/ref/refhash"
	"verif/ref/reftx"
)

// ---- helpers shared by the non-(a) families ----

type batcher struct {
	p   *pool
	buf []*Case
}

func (b *batcher) add(c *Case) {
	c.order = order()
	b.buf = append(b.buf, c)
	if len(b.buf) >= 128 {
		b.flush()
	}
}

func (b *batcher) flush() {
	if len(b.buf) == 0 {
		return
	}
	l := b.buf
	b.buf = nil
	b.p.jobs <- func(w *worker) {
		for _, c := range l {
			w.eval(c)
		}
	}
}

// lazy: the case is constructed inside the worker (for members that need signing)
func (b *batcher) lazy(f func() []*Case) {
	o := order()
	atomic.AddInt64(&nextOrder, 1000)
	b.p.jobs <- func(w *worker) {
		for i, c := range f() {
			c.order = o + int64(i)
			w.eval(c)
		}
	}
}

func mk(fam, tag, label string, scriptSig []byte, witness [][]byte, pk []byte, fl flagSet) *Case {
	tx, sp := txFor(scriptSig, witness, pk, aAmount)
	return &Case{Fam: fam, Tag: tag, Label: label, Tx: tx, Idx: 0, Spent: sp, Flags: fl.f, FName: fl.name}
}

func sample(p *pool, fam string, v map[string]interface{}) {
	v["family"] = fam
	p.col.mu.Lock()
	if len(p.col.samples[fam]) < 2 {
		p.col.samples[fam] = append(p.col.samples[fam], v)
	}
	p.col.mu.Unlock()
}

var (
	fsBlkTaproot = flagSet{"blk-taproot", fBlkTaproot}
	fsStd        = flagSet{"std", fStd}
	fsBlkDersig  = flagSet{"blk-dersig", fBlkDersig}
	fsBlkP2SH    = flagSet{"blk-p2sh", fBlkP2SH}
	fsWitOnly    = flagSet{"witness-only", fWitOnly}
	fsNone       = flagSet{"none", 0}
	fsBlkSegwit  = flagSet{"blk-segwit", fBlkSegwit}
)

// wrap puts program P with an initial stack into context 0 (bare), 2 (P2WSH) or 4 (tapscript).
func wrap(P []byte, ctx int, stack [][]byte) (tx *reftx.Tx, sp []reftx.Out, ok bool) {
	pp := &prepared{P: P}
	if ctx == 4 {
		tl, ok := buildTap(P, 0xc0, keys[1].xonly, nil)
		if !ok {
			return nil, nil, false
		}
		pp.tap = tl
	}
	tx, sp = buildCtx(pp, ctx, stack)
	return tx, sp, true
}

// ---- (b) every opcode x sigversion x executed/unexecuted x stack depth ----

func opBytes(op int) []byte {
	switch {
	case op >= 1 && op <= 0x4b:
		return cat([]byte{byte(op)}, fill(op, 0x07))
	case op == 0x4c:
		return []byte{0x4c, 1, 7}
	case op == 0x4d:
		return []byte{0x4d, 1, 0, 7}
	case op == 0x4e:
		return []byte{0x4e, 1, 0, 0, 0, 7}
	}
	return []byte{byte(op)}
}

func famB(r *ev.Run, p *pool) {
	b := &batcher{p: p}
	svName := map[int]string{0: "base", 2: "witness-v0", 4: "tapscript"}
	for op := 0; op < 256; op++ {
		for _, ctx := range []int{0, 2, 4} {
			for _, unexec := range []bool{false, true} {
				for _, suffix := range [][]byte{nil, {0x51}} {
					P := opBytes(op)
					mode := "executed"
					if unexec {
						P = cat([]byte{0x00, 0x63}, P, []byte{0x68})
						mode = "unexecuted"
					}
					P = cat(P, suffix)
					for depth := 0; depth <= 4; depth++ {
						for kind := 0; kind < 2; kind++ {
							var st [][]byte
							for i := 0; i < depth; i++ {
								if kind == 0 {
									st = append(st, []byte{1})
								} else {
									st = append(st, []byte{byte(i + 1)})
								}
							}
							if kind == 1 && depth < 2 {
								continue
							}
							tx, sp, ok := wrap(P, ctx, st)
							if !ok {
								continue
							}
							for _, fl := range []flagSet{fsBlkTaproot, fsStd} {
								b.add(&Case{Fam: "b", Tag: fmt.Sprintf("op=0x%02x/%s/%s", op, svName[ctx], mode),
									Label: fmt.Sprintf("opcode 0x%02x %s in %s, stack depth %d (kind %d), suffix %x", op, mode, svName[ctx], depth, kind, suffix),
									Tx:    tx, Idx: 0, Spent: sp, Flags: fl.f, FName: fl.name})
							}
						}
					}
				}
			}
		}
	}
	b.flush()
	sample(p, "b", map[string]interface{}{"opcodes": 256, "sigversions": []string{"base", "witness-v0", "tapscript"}, "depths": "0..4", "modes": []string{"executed", "unexecuted"}})
}

// ---- (c) CHECKMULTISIG ----

func famC(r *ev.Run, p *pool) {
	b := &batcher{p: p}
	var ns []int
	if r.Thorough() {
		for n := 0; n <= 21; n++ {
			ns = append(ns, n)
		}
	} else {
		ns = []int{0, 1, 2, 3, 16, 20, 21}
	}
	pairs := 0
	for _, n := range ns {
		var ms []int
		for m := 0; m <= n && m <= 21; m++ {
			if r.Thorough() || m <= 2 || m >= n-1 {
				ms = append(ms, m)
			}
		}
		for _, m := range ms {
			for _, ctx := range []int{0, 2} {
				if ctx == 2 && !r.Thorough() && n > 3 && n != 20 {
					continue
				}
				n, m, ctx := n, m, ctx
				pairs++
				b.lazy(func() []*Case { return multisigCases(m, n, ctx) })
			}
		}
	}
	// CHECKMULTISIG(VERIFY) with OP_CODESEPARATOR after the opcode and/or in an unexecuted
	// branch before it; every subset of signers (so the matching key is often not the
	// first one tried and failed attempts precede it)
	for n := 1; n <= 3; n++ {
		for mask := 1; mask < 1<<uint(n); mask++ {
			var subset []int
			for i := 0; i < n; i++ {
				if mask>>uint(i)&1 == 1 {
					subset = append(subset, i+1)
				}
			}
			for layout := 0; layout < 4; layout++ {
				for _, vop := range []bool{false, true} {
					for _, ctx := range []int{0, 1, 2} {
						if (ctx == 1 && layout != 1) || (ctx == 2 && layout != 1 && layout != 3) {
							continue // all layouts bare; P2SH and P2WSH with the separator-after layouts
						}
						n, subset, layout, vop, ctx := n, subset, layout, vop, ctx
						b.lazy(func() []*Case { return multisigSepCases(n, subset, layout, vop, ctx) })
					}
				}
			}
		}
	}
	sample(p, "c", map[string]interface{}{"m_n_context_combinations": pairs, "codeseparator_layouts": []string{"plain", "separator-after", "separator-in-unexecuted-branch", "separator-before-and-after"}, "variants": []string{"first-m", "last-m", "bad-at-j", "empty-at-j", "swapped"}, "dummy": []string{"empty", "01"}})
}

func multisigCases(m, n, ctx int) (l []*Case) {
	// script: m <pub_1..pub_n> n CHECKMULTISIG  (keys 1..n of the signer; n=21 exceeds the limit)
	var P []byte
	P = append(P, minimalPush(numLE(m))...)
	for i := 1; i <= n; i++ {
		P = append(P, pushData(keys[i%nKeys].pub)...)
	}
	P = append(P, minimalPush(numLE(n))...)
	P = append(P, 0xae)
	PN := cat(P, []byte{0x91})
	digestFor := func(code []byte) [32]byte {
		t, _ := txFor(nil, nil, nil, aAmount)
		if ctx == 0 {
			return refhash.Legacy(t, code, 0, 1)
		}
		return refhash.BIP143(t, code, aAmount, 0, 1)
	}
	sigOf := func(code []byte, k int) []byte { return ecdsaSig(k%nKeys, digestFor(code), 1) }
	bad := ecdsaSig(1, badDigest, 1)
	type variant struct {
		name string
		sigs func(code []byte) [][]byte
	}
	vs := []variant{
		{"first-m", func(code []byte) (s [][]byte) {
			for i := 1; i <= m; i++ {
				s = append(s, sigOf(code, i))
			}
			return
		}},
	}
	if m > 0 && m < n {
		vs = append(vs, variant{"last-m", func(code []byte) (s [][]byte) {
			for i := n - m + 1; i <= n; i++ {
				s = append(s, sigOf(code, i))
			}
			return
		}})
	}
	if m >= 2 {
		vs = append(vs, variant{"swapped", func(code []byte) (s [][]byte) {
			for i := 1; i <= m; i++ {
				s = append(s, sigOf(code, i))
			}
			s[0], s[1] = s[1], s[0]
			return
		}})
	}
	for j := 0; j < m; j++ {
		j := j
		vs = append(vs, variant{fmt.Sprintf("bad-at-%d", j), func(code []byte) (s [][]byte) {
			for i := 1; i <= m; i++ {
				s = append(s, sigOf(code, i))
			}
			s[j] = bad
			return
		}})
		vs = append(vs, variant{fmt.Sprintf("empty-at-%d", j), func(code []byte) (s [][]byte) {
			for i := 1; i <= m; i++ {
				s = append(s, sigOf(code, i))
			}
			s[j] = []byte{}
			return
		}})
	}
	cname := ctxNames[ctx]
	for _, prog := range []struct {
		n string
		b []byte
	}{{"", P}, {"+NOT", PN}} {
		for _, v := range vs {
			sigs := v.sigs(prog.b)
			for _, dummy := range [][]byte{{}, {1}} {
				st := append([][]byte{dummy}, sigs...)
				tx, sp, _ := wrap(prog.b, ctx, st)
				for _, fl := range []flagSet{fsBlkDersig, fsBlkTaproot, fsStd} {
					if ctx == 2 && fl.f&fBlkSegwit != fBlkSegwit {
						continue
					}
					l = append(l, &Case{Fam: "c", Tag: fmt.Sprintf("%s/%s%s/dummy=%x", cname, variantClass(v.name), prog.n, dummy),
						Label: fmt.Sprintf("%d-of-%d CHECKMULTISIG%s in %s, signatures %s, dummy %x", m, n, prog.n, cname, v.name, dummy),
						Tx:    tx, Idx: 0, Spent: sp, Flags: fl.f, FName: fl.name})
				}
			}
		}
	}
	return
}

// multisigSepCases: m-of-n (keys 1..n, signers = subset) with OP_CODESEPARATOR layouts;
// the tail "<key 4> CHECKSIG" after an executed separator needs its own signature.
func multisigSepCases(n int, subset []int, layout int, verifyOp bool, ctx int) (l []*Case) {
	m := len(subset)
	var scr []byte
	if layout == 2 || layout == 3 {
		scr = append(scr, 0x00, 0x63, 0xab, 0x68)
	}
	scr = append(scr, byte(0x50+m))
	for i := 1; i <= n; i++ {
		scr = append(scr, pushData(keys[i].pub)...)
	}
	scr = append(scr, byte(0x50+n))
	tail := layout == 1 || layout == 3
	switch {
	case tail && verifyOp:
		scr = append(scr, 0xaf, 0xab)
	case tail:
		scr = append(scr, 0xae, 0x69, 0xab)
	case verifyOp:
		scr = append(scr, 0xaf, 0x51)
	default:
		scr = append(scr, 0xae)
	}
	tailBegin := len(scr)
	if tail {
		scr = append(scr, pushData(keys[4].pub)...)
		scr = append(scr, 0xac)
	}
	t0, _ := txFor(nil, nil, nil, aAmount)
	digest := func(code []byte) [32]byte {
		if ctx == 2 {
			return refhash.BIP143(t0, code, aAmount, 0, 1)
		}
		return refhash.Legacy(t0, code, 0, 1)
	}
	lay := []string{"plain", "separator-after", "separator-in-unexecuted-branch", "separator-before-and-after"}[layout]
	for _, variant := range []string{"valid", "first-signature-bad"} {
		if variant != "valid" && layout != 1 {
			continue
		}
		var st [][]byte
		if tail {
			st = append(st, ecdsaSig(4, digest(scr[tailBegin:]), 1))
		}
		st = append(st, []byte{})
		for j, ki := range subset {
			d := digest(scr)
			if variant != "valid" && j == 0 {
				d = badDigest
			}
			st = append(st, ecdsaSig(ki, d, 1))
		}
		pp := &prepared{P: scr}
		tx, sp := buildCtx(pp, ctx, st)
		if ctx == 0 || ctx == 1 {
			// signatures are not minimal-push sensitive; keep plain pushes
		}
		for _, fl := range []flagSet{fsBlkDersig, fsBlkTaproot, fsStd} {
			if ctx == 2 && fl.f&fBlkSegwit != fBlkSegwit {
				continue
			}
			op := "CHECKMULTISIG"
			if verifyOp {
				op = "CHECKMULTISIGVERIFY"
			}
			l = append(l, &Case{Fam: "c", Tag: fmt.Sprintf("multisig-codeseparator/%s/%s", lay, variant),
				Label: fmt.Sprintf("%d-of-%d %s signed by keys %v, OP_CODESEPARATOR layout %s, in %s (%s)", m, n, op, subset, lay, ctxNames[ctx], variant),
				Tx:    tx, Idx: 0, Spent: sp, Flags: fl.f, FName: fl.name})
		}
	}
	return
}

func variantClass(n string) string {
	for _, p := range []string{"bad-at-", "empty-at-"} {
		if len(n) > len(p) && n[:len(p)] == p {
			return p + "j"
		}
	}
	return n
}

// numLE: minimal CScriptNum encoding of a small non-negative integer.
func numLE(v int) []byte {
	if v == 0 {
		return []byte{}
	}
	var b []byte
	for x := v; x > 0; x >>= 8 {
		b = append(b, byte(x))
	}
	if b[len(b)-1]&0x80 != 0 {
		b = append(b, 0)
	}
	return b
}

// ---- (d) CLTV / CSV ----

func famD(r *ev.Run, p *pool) {
	b := &batcher{p: p}
	operands := []struct {
		n string
		v []byte
	}{
		{"empty", []byte{}}, {"00", []byte{0}}, {"01", []byte{1}}, {"7f", []byte{0x7f}}, {"80(neg-zero)", []byte{0x80}}, {"81(-1)", []byte{0x81}},
		{"ff00(255)", []byte{0xff, 0}}, {"0100(nonminimal-1)", []byte{1, 0}}, {"ffff00(65535)", []byte{0xff, 0xff, 0}}, {"000001(65536)", []byte{0, 0, 1}},
		{"000040(type-flag)", []byte{0, 0, 0x40}}, {"ffff40", []byte{0xff, 0xff, 0x40}}, {"010040", []byte{1, 0, 0x40}},
		{"ffffff7f(4-byte-max)", []byte{0xff, 0xff, 0xff, 0x7f}}, {"0000008000(2^31,disable-flag)", []byte{0, 0, 0, 0x80, 0}},
		{"0100008000", []byte{1, 0, 0, 0x80, 0}}, {"ff64cd1d(499999999)", []byte{0xff, 0x64, 0xcd, 0x1d}}, {"0065cd1d(500000000)", []byte{0x00, 0x65, 0xcd, 0x1d}},
		{"0165cd1d(500000001)", []byte{0x01, 0x65, 0xcd, 0x1d}},
		{"ffffffff00(2^32-1)", []byte{0xff, 0xff, 0xff, 0xff, 0}}, {"feffffff00", []byte{0xfe, 0xff, 0xff, 0xff, 0}}, {"ffffffff7f(5-byte-max)", []byte{0xff, 0xff, 0xff, 0xff, 0x7f}},
		{"ffffffff80(5-byte-negative)", []byte{0xff, 0xff, 0xff, 0xff, 0x80}}, {"0000000080(5-byte-neg-zero)", []byte{0, 0, 0, 0, 0x80}},
		{"000000000100(6-bytes)", []byte{0, 0, 0, 0, 1, 0}}, {"0100000000(nonminimal-5)", []byte{1, 0, 0, 0, 0}},
	}
	locktimes := []uint32{0, 1, 499999999, 500000000, 500000001, 0xfffffffe, 0xffffffff}
	seqs := []uint32{0, 1, 0xffff, 0x10000, 0x400000, 0x400001, 0x40ffff, 0x7fffffff, 0x80000000, 0x80000001, 0xfffffffe, 0xffffffff}
	versions := []uint32{0, 1, 2, 3, 0x7fffffff, 0x80000000, 0xffffffff}
	flagsD := []flagSet{fsBlkTaproot, fsStd, fsBlkDersig, {"std-minus-MINIMALDATA", fStd &^ 0x40}}
	n := 0
	for _, opc := range []struct {
		n string
		b byte
	}{{"CLTV", 0xb1}, {"CSV", 0xb2}} {
		for _, od := range operands {
			for _, lt := range locktimes {
				for _, sq := range seqs {
					for _, ver := range versions {
						// reduce the product: CLTV does not read the version, CSV does not read the locktime
						if opc.b == 0xb1 && ver != 2 && !(lt == 0 && sq == 0) {
							continue
						}
						if opc.b == 0xb2 && lt != 0 && !(ver == 2 && sq == 1) {
							continue
						}
						for _, suf := range []struct {
							n string
							b []byte
						}{{"", nil}, {"+DROP 1", []byte{0x75, 0x51}}} {
							pk := cat(pushData(od.v), []byte{opc.b}, suf.b)
							for _, fl := range flagsD {
								tx, sp := txFor(nil, nil, pk, aAmount)
								tx.Version, tx.LockTime, tx.In[0].Sequence = ver, lt, sq
								n++
								b.add(&Case{Fam: "d", Tag: fmt.Sprintf("%s/operand=%s%s", opc.n, od.n, suf.n),
									Label: fmt.Sprintf("%s operand %s%s; tx version %d locktime %d sequence 0x%x", opc.n, od.n, suf.n, ver, lt, sq),
									Tx:    tx, Idx: 0, Spent: sp, Flags: fl.f, FName: fl.name})
							}
						}
					}
				}
			}
		}
	}
	b.flush()
	sample(p, "d", map[string]interface{}{"operands": len(operands), "locktimes": locktimes, "sequences": seqs, "versions": versions})
}

// ---- (e) limits ----

func rep(b []byte, n int) []byte {
	var r []byte
	for i := 0; i < n; i++ {
		r = append(r, b...)
	}
	return r
}

func famE(r *ev.Run, p *pool) {
	b := &batcher{p: p}
	add := func(tag, label string, P []byte, ctx int, st [][]byte, fls ...flagSet) {
		tx, sp, ok := wrap(P, ctx, st)
		if !ok {
			ev.HarnessError("family e: cannot wrap %s", label)
		}
		if len(fls) == 0 {
			fls = []flagSet{fsBlkTaproot, fsStd}
		}
		for _, fl := range fls {
			b.add(&Case{Fam: "e", Tag: tag, Label: label + " in " + ctxNames[ctx], Tx: tx, Idx: 0, Spent: sp, Flags: fl.f, FName: fl.name})
		}
	}
	ones := func(n int) (l [][]byte) {
		for i := 0; i < n; i++ {
			l = append(l, []byte{1})
		}
		return
	}
	// stack + altstack at 999/1000/1001
	for _, total := range []int{999, 1000, 1001} {
		for _, alt := range []int{0, 1, 100} {
			P := cat(rep([]byte{0x51}, total-alt), rep([]byte{0x51, 0x6b}, alt))
			add(fmt.Sprintf("stack+altstack=%d", total), fmt.Sprintf("%d pushes, %d of them moved to the altstack", total, alt), P, 0, nil, fsBlkTaproot, fsBlkP2SH)
			// same inside P2SH redeem / witness script can not hold 1000 one-byte pushes under 520: P2WSH only
			add(fmt.Sprintf("stack+altstack=%d", total), fmt.Sprintf("%d pushes, %d of them moved to the altstack", total, alt), P, 2, nil, fsBlkTaproot)
		}
		// growth by 3DUP / 2DUP / DUP / OVER / TUCK / IFDUP / DEPTH / SIZE / FROMALTSTACK at the limit
		for _, g := range []struct {
			n    string
			b    byte
			need int
			grow int
		}{{"3DUP", 0x6f, 3, 3}, {"2DUP", 0x6e, 2, 2}, {"DUP", 0x76, 1, 1}, {"OVER", 0x78, 2, 1}, {"TUCK", 0x7d, 2, 1}, {"IFDUP", 0x73, 1, 1}, {"DEPTH", 0x74, 0, 1}, {"SIZE", 0x82, 1, 1}, {"2OVER", 0x70, 4, 2}} {
			P := cat(rep([]byte{0x51}, total-g.grow), []byte{g.b})
			add(fmt.Sprintf("stack=%d-by-%s", total, g.n), fmt.Sprintf("%d pushes then %s", total-g.grow, g.n), P, 0, nil, fsBlkTaproot)
		}
		// initial witness stack sizes (witness v0: checked after the first opcode; tapscript: checked up front)
		drops := func(n int) []byte { return rep([]byte{0x75}, n) }
		add(fmt.Sprintf("initial-stack=%d/tapscript", total), fmt.Sprintf("%d initial elements, script drops all but one", total), drops(total-1), 4, ones(total), fsBlkTaproot, fsStd)
		add(fmt.Sprintf("initial-stack=%d/witness-v0", total), fmt.Sprintf("%d initial elements, script DEPTH", total), []byte{0x74}, 2, ones(total), fsBlkTaproot)
		add(fmt.Sprintf("initial-stack=%d/witness-v0-nop", total), fmt.Sprintf("%d initial elements, script NOP", total), []byte{0x61}, 2, ones(total), fsBlkTaproot)
		add(fmt.Sprintf("initial-stack=%d/witness-v0-empty-script", total), fmt.Sprintf("%d initial elements, empty script", total), []byte{}, 2, ones(total), fsBlkTaproot)
		// scriptSig pushes (shared main stack between scriptSig and scriptPubKey)
		{
			ss := rep([]byte{0x51}, total)
			tx, sp := txFor(ss, nil, []byte{0x61}, aAmount)
			b.add(&Case{Fam: "e", Tag: fmt.Sprintf("scriptsig-pushes=%d", total), Label: fmt.Sprintf("scriptSig pushes %d elements, scriptPubKey NOP", total), Tx: tx, Idx: 0, Spent: sp, Flags: fBlkTaproot, FName: "blk-taproot"})
		}
	}
	// opcode count 200/201/202 (tapscript has no limit)
	for _, k := range []int{200, 201, 202} {
		P := cat([]byte{0x51}, rep([]byte{0x61}, k))
		for _, ctx := range []int{0, 2, 4} {
			add(fmt.Sprintf("opcount=%d/%s", k, ctxNames[ctx]), fmt.Sprintf("1 then %d NOPs", k), P, ctx, nil)
		}
		// unexecuted opcodes count too
		P2 := cat([]byte{0x00, 0x63}, rep([]byte{0x61}, k-2), []byte{0x68, 0x51})
		add(fmt.Sprintf("opcount=%d/unexecuted", k), fmt.Sprintf("0 IF %d NOPs ENDIF 1", k-2), P2, 0, nil)
		// multisig key counts are added to the opcode count
		for _, nk := range []int{1, 3, 20} {
			nops := k - 1 - nk
			var P3 []byte
			P3 = append(P3, rep([]byte{0x61}, nops)...)
			P3 = append(P3, 0x00, 0x00) // dummy, m = 0
			for i := 1; i <= nk; i++ {
				P3 = append(P3, pushData(keys[i].pub)...)
			}
			P3 = append(P3, minimalPush(numLE(nk))...)
			P3 = append(P3, 0xae)
			for _, ctx := range []int{0, 2} {
				add(fmt.Sprintf("opcount=%d/with-%d-multisig-keys/%s", k, nk, ctxNames[ctx]), fmt.Sprintf("%d NOPs then 0-of-%d CHECKMULTISIG", nops, nk), P3, ctx, nil)
			}
		}
	}
	// element size 520/521: pushed by script, as witness item, as P2SH redeem script, unexecuted
	for _, sz := range []int{520, 521} {
		e := fill(sz, 0x33)
		P := cat(pushData(e), []byte{0x75, 0x51})
		for _, ctx := range []int{0, 2, 4} {
			add(fmt.Sprintf("push-size=%d/%s", sz, ctxNames[ctx]), fmt.Sprintf("push of %d bytes, DROP 1", sz), P, ctx, nil)
			add(fmt.Sprintf("push-size=%d/unexecuted/%s", sz, ctxNames[ctx]), fmt.Sprintf("0 IF push of %d bytes ENDIF 1", sz), cat([]byte{0x00, 0x63}, pushData(e), []byte{0x68, 0x51}), ctx, nil)
		}
		for _, ctx := range []int{2, 4} {
			add(fmt.Sprintf("witness-item-size=%d/%s", sz, ctxNames[ctx]), fmt.Sprintf("witness item of %d bytes, script DROP 1", sz), []byte{0x75, 0x51}, ctx, [][]byte{e})
		}
		// scriptSig element of that size (bare) and P2SH redeem script of that size
		add(fmt.Sprintf("scriptsig-item-size=%d", sz), fmt.Sprintf("scriptSig pushes %d bytes, script DROP 1", sz), []byte{0x75, 0x51}, 0, [][]byte{e})
		if sz == 520 || sz == 521 {
			// exact-size redeem script: 1 DROP pairs then a final 1
			rs := cat(pushData(fill(sz-5, 0x44)), []byte{0x75, 0x51}) // PUSHDATA2 (3) + data + DROP + 1 = sz
			if len(rs) != sz {
				ev.HarnessError("redeem script size %d != %d", len(rs), sz)
			}
			pp := &prepared{P: rs}
			tx, sp := buildCtx(pp, 1, nil)
			for _, fl := range []flagSet{fsBlkTaproot, fsStd} {
				b.add(&Case{Fam: "e", Tag: fmt.Sprintf("p2sh-redeem-size=%d", sz), Label: fmt.Sprintf("P2SH redeem script of %d bytes", sz), Tx: tx, Idx: 0, Spent: sp, Flags: fl.f, FName: fl.name})
			}
		}
	}
	// script size 10000/10001
	for _, sz := range []int{10000, 10001} {
		var P []byte
		for i := 0; i < 19; i++ {
			P = append(P, pushData(fill(520, 0x22))...)
		}
		P = append(P, rep([]byte{0x6d}, 9)...)
		P = append(P, 0x75)
		P = append(P, rep([]byte{0x51}, sz-len(P))...)
		if len(P) != sz {
			ev.HarnessError("script size construction")
		}
		for _, ctx := range []int{0, 2, 4} {
			add(fmt.Sprintf("script-size=%d/%s", sz, ctxNames[ctx]), fmt.Sprintf("script of %d bytes", sz), P, ctx, nil, fsBlkTaproot)
		}
		// tapscript: final stack must hold exactly one element
		var Q []byte
		for i := 0; i < 19; i++ {
			Q = append(Q, pushData(fill(520, 0x22))...)
		}
		Q = append(Q, rep([]byte{0x6d}, 9)...)
		Q = append(Q, 0x75)
		Q = append(Q, rep([]byte{0x61}, sz-len(Q)-1)...)
		Q = append(Q, 0x51)
		add(fmt.Sprintf("script-size=%d/tapscript-clean", sz), fmt.Sprintf("tapscript of %d bytes leaving one element", sz), Q, 4, nil, fsBlkTaproot, fsStd)
		// scriptSig of that size
		{
			ss := append([]byte{}, P...)
			tx, sp := txFor(ss, nil, []byte{0x51}, aAmount)
			b.add(&Case{Fam: "e", Tag: fmt.Sprintf("scriptsig-size=%d", sz), Label: fmt.Sprintf("scriptSig of %d bytes", sz), Tx: tx, Idx: 0, Spent: sp, Flags: fBlkTaproot, FName: "blk-taproot"})
		}
	}
	// numeric operand sizes 4/5 bytes for arithmetic, results beyond 4 bytes
	for _, t := range []struct {
		n string
		P []byte
	}{
		{"add-overflow-result-5-bytes", cat(pushData([]byte{0xff, 0xff, 0xff, 0x7f}), pushData([]byte{0xff, 0xff, 0xff, 0x7f}), []byte{0x93, 0x82, 0x55, 0x87})}, // ADD SIZE 5 EQUAL
		{"5-byte-result-as-operand", cat(pushData([]byte{0xff, 0xff, 0xff, 0x7f}), []byte{0x8b, 0x8b, 0x51})},                                                    // 1ADD 1ADD
		{"5-byte-operand", cat(pushData([]byte{0, 0, 0, 0x80, 0}), []byte{0x8b, 0x51})},
		{"negate-min", cat(pushData([]byte{0xff, 0xff, 0xff, 0xff}), []byte{0x8f, 0x8c, 0x51})},
		{"pick-4-byte-index", cat([]byte{0x51}, pushData([]byte{0xff, 0xff, 0xff, 0x7f}), []byte{0x79})},
		{"roll-negative", cat([]byte{0x51, 0x4f, 0x7a})},
		{"within-bounds", []byte{0x51, 0x51, 0x52, 0xa5}},
		{"within-upper-exclusive", []byte{0x52, 0x51, 0x52, 0xa5, 0x91}},
	} {
		for _, ctx := range []int{0, 2, 4} {
			add("numeric/"+t.n+"/"+ctxNames[ctx], t.n, t.P, ctx, nil)
		}
	}
	b.flush()
	sample(p, "e", map[string]interface{}{"limits": []string{"stack+altstack 999/1000/1001", "opcount 200/201/202 (+multisig keys)", "element 520/521", "script 10000/10001", "initial tapscript stack 1000/1001"}})
}
