package main

import (
	"fmt"
	"strings"
	"sync/atomic"
	"time"

	"verif/internal/ev"
	"verif/ref/refhash"
	"verif/ref/refscript"
	"verif/ref/reftx"
)

// ---------------------------------------------------------------------------
// Family "pre": ORDER of the precondition checks of witness script execution.
//
// Tapscript (BIP342 / Core ExecuteWitnessScript): 1. OP_SUCCESSx scan over the
// decoded opcodes (an OP_SUCCESSx makes the spend valid at once, unless
// DISCOURAGE_OP_SUCCESS; an undecodable opcode met first fails), 2. initial stack
// > 1000 items fails, 3. an initial element > 520 bytes fails, 4. execution.
// Witness v0: 1. program/script hash match, 2. initial element > 520 bytes fails,
// 3. execution (script > 10000 bytes fails, stack limit applies after each opcode).
// The taproot commitment (control size, Merkle path, tweak) precedes all of it.
// Each member of the cross product is decided by the reference interpreter.

func famPre(r *ev.Run, p *pool) {
	b := &batcher{p: p}
	internal := keys[1].xonly
	ones := func(n int) (l [][]byte) {
		for i := 0; i < n; i++ {
			l = append(l, []byte{1})
		}
		return
	}
	stackSizes := []int{0, 1, 2, 999, 1000, 1001, 5000}
	type elemV struct {
		name string
		size int // 0: no big element
		top  bool
	}
	elems := []elemV{{"none", 0, false}, {"520-bottom", 520, false}, {"520-top", 520, true}, {"521-bottom", 521, false}, {"521-top", 521, true}}
	stackOf := func(n int, e elemV) [][]byte {
		st := ones(n)
		if e.size > 0 && n > 0 {
			if e.top {
				st[n-1] = fill(e.size, 1)
			} else {
				st[0] = fill(e.size, 1)
			}
		}
		return st
	}
	stackClass := func(n int) string {
		if n > 1000 {
			return "initial-stack>1000"
		}
		return "initial-stack<=1000"
	}
	elemClass := func(n int, e elemV) string {
		if e.size > 520 && n > 0 {
			return "element>520"
		}
		return "elements<=520"
	}
	// ---- tapscript ----
	type layout struct {
		name, class string
		mk          func(n int) []byte // leaf for an initial stack of n items
	}
	dropAll := func(n int) []byte {
		if n == 0 {
			return []byte{0x51}
		}
		return rep([]byte{0x75}, n-1)
	}
	layouts := []layout{
		{"none", "no-op-success", dropAll},
		{"only-as-push-data", "no-op-success", func(n int) []byte { return cat([]byte{0x01, 0xbb, 0x75}, dropAll(n)) }},
		{"first", "op-success-reached", func(n int) []byte { return cat([]byte{0xbb}, dropAll(n)) }},
		{"middle", "op-success-reached", func(n int) []byte { return []byte{0x51, 0xbb, 0x51} }},
		{"last", "op-success-reached", func(n int) []byte { return cat(dropAll(n), []byte{0x50}) }},
		{"in-unexecuted-branch", "op-success-reached", func(n int) []byte { return []byte{0x00, 0x63, 0xfe, 0x68, 0x51} }},
		{"before-truncated-push", "op-success-reached", func(n int) []byte { return []byte{0xbb, 0x4c} }},
		{"before-undecodable-pushdata4", "op-success-reached", func(n int) []byte { return []byte{0x62, 0x4e, 0xff, 0xff, 0xff, 0xff} }},
		{"before-disabled-and-return", "op-success-reached", func(n int) []byte { return []byte{0x7e, 0x6a, 0xff, 0x95, 0xbb} }},
		{"inside-truncated-push", "undecodable-before-op-success", func(n int) []byte { return []byte{0x05, 0xbb} }},
		{"after-truncated-pushdata1", "undecodable-before-op-success", func(n int) []byte { return []byte{0x51, 0x4c, 0xbb} }},
		{"after-truncated-pushdata2", "undecodable-before-op-success", func(n int) []byte { return []byte{0x4d, 0xbb, 0xbb} }},
	}
	sizes := []struct {
		name string
		n    int
	}{{"natural", 0}, {"10000", 10000}, {"10001", 10001}}
	flT := []flagSet{fsBlkTaproot, fsStd, {"std-minus-DISCOURAGE_OP_SUCCESS", fStd &^ refscript.DISCOURAGE_OP_SUCCESS}}
	nTap := 0
	for _, lay := range layouts {
		for _, n := range stackSizes {
			for _, sz := range sizes {
				if sz.n > 0 && !r.Thorough() && n != 1 && n != 1001 {
					continue // quick: script-size variants only with a small and an oversize stack
				}
				lay, n, sz := lay, n, sz
				nTap += len(elems) * len(flT)
				b.lazy(func() (l []*Case) {
					leaf := lay.mk(n)
					if sz.n > 0 {
						if len(leaf) > sz.n {
							return nil
						}
						// pad with NOPs in front of a decodable leaf, behind an OP_SUCCESS-first one;
						// padding an undecodable tail is not possible behind it, so pad in front
						pad := rep([]byte{0x61}, sz.n-len(leaf))
						if lay.name == "first" {
							leaf = cat(leaf, pad)
						} else {
							leaf = cat(pad, leaf)
						}
					}
					tl, ok := buildTap(leaf, 0xc0, internal, nil)
					if !ok {
						return nil
					}
					for _, e := range elems {
						if e.size > 0 && n == 0 {
							continue
						}
						tx, sp := tapSpendFixed(tl, stackOf(n, e), nil)
						for _, fl := range flT {
							l = append(l, &Case{Fam: "pre", Tag: fmt.Sprintf("tapscript/%s/%s/%s", lay.class, stackClass(n), elemClass(n, e)),
								Label: fmt.Sprintf("tapscript leaf with OP_SUCCESSx %s (script %s bytes: %x), %d initial items, big element %s", lay.name, sizeName(sz.name, len(leaf)), trunc(leaf)[:min(len(leaf), 12)], n, e.name),
								Tx:    tx, Idx: 0, Spent: sp, Flags: fl.f, FName: fl.name})
						}
					}
					return
				})
			}
		}
	}
	// the commitment precedes the OP_SUCCESS scan; unknown leaf versions skip every check
	b.lazy(func() (l []*Case) {
		leaf := []byte{0xbb}
		tl, _ := buildTap(leaf, 0xc0, internal, nil)
		tl2, _ := buildTap(leaf, 0xc2, internal, nil)
		for _, n := range []int{1, 1001} {
			for _, e := range elems {
				st := stackOf(n, e)
				for _, fl := range append(append([]flagSet{}, flT...), flagSet{"std-core", fStd | refscript.DISCOURAGE_UPGRADABLE_TAPROOT_VERSION}) {
					wrongSize := append(append([]byte{}, tl.control...), 0)
					otherKey := append([]byte{}, tl.control...)
					otherKey[5] ^= 1
					parity := append([]byte{}, tl.control...)
					parity[0] ^= 1
					for _, v := range []struct {
						n    string
						ctrl []byte
						spk  []byte
						scr  []byte
					}{
						{"control-size-34", wrongSize, tl.spk, leaf}, {"internal-key-altered", otherKey, tl.spk, leaf}, {"parity-flipped", parity, tl.spk, leaf},
						{"other-script", tl.control, tl.spk, []byte{0xbc}}, {"leaf-version-0xc2", tl2.control, tl2.spk, leaf},
					} {
						w := append(append([][]byte{}, st...), v.scr, v.ctrl)
						tx, sp := txFor(nil, w, v.spk, aAmount)
						l = append(l, &Case{Fam: "pre", Tag: fmt.Sprintf("taproot-commitment-before-op-success/%s/%s/%s", v.n, stackClass(n), elemClass(n, e)),
							Label: fmt.Sprintf("OP_SUCCESS leaf, %s, %d initial items, big element %s", v.n, n, e.name), Tx: tx, Idx: 0, Spent: sp, Flags: fl.f, FName: fl.name})
					}
				}
			}
		}
		return
	})
	// ---- witness v0: P2WSH and P2SH-P2WSH ----
	bigScript := func(sz int, tail []byte) []byte {
		var P []byte
		for i := 0; i < 19; i++ {
			P = append(P, pushData(fill(520, 0x22))...)
		}
		P = append(P, rep([]byte{0x6d}, 9)...)
		P = append(P, 0x75)
		P = append(P, rep([]byte{0x51}, sz-len(P)-len(tail))...)
		return append(P, tail...)
	}
	type v0s struct {
		name string
		s    []byte
	}
	v0scripts := []v0s{
		{"empty", []byte{}}, {"NOP", []byte{0x61}}, {"DEPTH", []byte{0x74}}, {"1", []byte{0x51}}, {"DROP", []byte{0x75}}, {"RETURN", []byte{0x6a}},
		{"truncated-push", []byte{0x4c}}, {"disabled", []byte{0x7e}}, {"op-success-byte", []byte{0xbb}}, {"2DROP*200+DEPTH", cat(rep([]byte{0x6d}, 200), []byte{0x74})},
		{"size-10000", bigScript(10000, nil)}, {"size-10001", bigScript(10001, nil)}, {"size-10000-then-truncated", bigScript(10000, []byte{0x4c})},
		{"size-10001-then-return", bigScript(10001, []byte{0x6a})},
	}
	flV := []flagSet{fsBlkTaproot, fsStd}
	nV0 := 0
	for _, sc := range v0scripts {
		for _, n := range stackSizes {
			for _, e := range elems {
				if e.size > 0 && n == 0 {
					continue
				}
				if len(sc.s) >= 10000 && !r.Thorough() && n != 0 && n != 1 && n != 1001 {
					continue
				}
				for _, ctx := range []int{2, 3} {
					if ctx == 3 && !r.Thorough() && (n == 999 || n == 5000) {
						continue
					}
					tx, sp, _ := wrap(sc.s, ctx, stackOf(n, e))
					for _, fl := range flV {
						nV0++
						b.add(&Case{Fam: "pre", Tag: fmt.Sprintf("witness-v0/%s/%s/%s", v0class(sc.name), stackClass(n), elemClass(n, e)),
							Label: fmt.Sprintf("%s witness script %s, %d initial items, big element %s", ctxNames[ctx], sc.name, n, e.name), Tx: tx, Idx: 0, Spent: sp, Flags: fl.f, FName: fl.name})
					}
					// the program must match before anything else is looked at
					if n <= 1 || n == 1001 {
						tx2, sp2, _ := wrap(sc.s, ctx, stackOf(n, e))
						w := tx2.In[0].Witness
						w[len(w)-1] = append(append([]byte{}, sc.s...), 0x61)
						for _, fl := range flV {
							nV0++
							b.add(&Case{Fam: "pre", Tag: fmt.Sprintf("witness-v0-program-mismatch/%s/%s", stackClass(n), elemClass(n, e)),
								Label: fmt.Sprintf("%s witness script %s+NOP not matching the program, %d initial items, big element %s", ctxNames[ctx], sc.name, n, e.name), Tx: tx2, Idx: 0, Spent: sp2, Flags: fl.f, FName: fl.name})
						}
					}
				}
			}
		}
	}
	b.flush()
	var ln []string
	for _, l := range layouts {
		ln = append(ln, l.name)
	}
	sample(p, "pre", map[string]interface{}{"tapscript_layouts": ln, "initial_stack_sizes": stackSizes, "big_elements": []string{"none", "520 bottom/top", "521 bottom/top"},
		"tapscript_script_sizes": []string{"natural", "10000", "10001"}, "tapscript_members": nTap, "witness_v0_members": nV0, "witness_v0_scripts": len(v0scripts)})
}

func sizeName(n string, l int) string {
	if n == "natural" {
		return fmt.Sprint(l)
	}
	return n
}

func v0class(n string) string {
	if strings.HasPrefix(n, "size-10001") {
		return "script>10000"
	}
	if strings.HasPrefix(n, "size-10000") {
		return "script=10000"
	}
	return "small-script"
}

// ---------------------------------------------------------------------------
// Family "obj": several verifications on ONE transaction object.
//
// A node verifies all inputs of a transaction on the same btc.Tx (and CHECKMULTISIG
// asks for several digests with different hash types within one input), so lazily
// cached digest parts are shared. Transactions of 2-3 inputs are built whose inputs
// use different spend kinds and hash types; every order of verifying the inputs
// (2 inputs: also with one repetition) is executed on one object, with valid
// signatures and with signatures over a digest that confuses one cached part with
// another. The verdict of every single verification must equal the reference's.

var objHT = []byte{0x01, 0x02, 0x03, 0x81, 0x82, 0x83}

func htName(h byte) string {
	n := map[byte]string{0: "default", 1: "all", 2: "none", 3: "single"}[h&3]
	if h == 0 {
		n = "default"
	}
	if h&0x80 != 0 {
		n += "|anyonecanpay"
	}
	return n
}

// bip143Var is BIP143 with individual parts forced: mode 0 = as specified,
// 1 = the value the part has for SIGHASH_ALL, 2 = zero.
func bip143Var(t *reftx.Tx, code []byte, amount uint64, idx int, ht uint32, prevMode, seqMode, outMode int) [32]byte {
	le32 := func(b []byte, v uint32) []byte { return append(b, byte(v), byte(v>>8), byte(v>>16), byte(v>>24)) }
	le64 := func(b []byte, v uint64) []byte {
		for i := 0; i < 8; i++ {
			b = append(b, byte(v>>(8*uint(i))))
		}
		return b
	}
	putOut := func(b []byte, o *reftx.Out) []byte {
		b = le64(b, o.Value)
		b = reftx.PutCS(b, uint64(len(o.Script)))
		return append(b, o.Script...)
	}
	acp := ht&0x80 != 0
	base := ht & 0x1f
	var zero [32]byte
	var pb, sb, ob []byte
	for i := range t.In {
		pb = append(pb, t.In[i].Prev[:]...)
		pb = le32(pb, t.In[i].Vout)
		sb = le32(sb, t.In[i].Sequence)
	}
	for i := range t.Out {
		ob = putOut(ob, &t.Out[i])
	}
	pick := func(mode int, spec [32]byte, all [32]byte) [32]byte {
		switch mode {
		case 1:
			return all
		case 2:
			return zero
		}
		return spec
	}
	hp, hs, ho := zero, zero, zero
	if !acp {
		hp = refhash.DSha(pb)
	}
	if !acp && base != 2 && base != 3 {
		hs = refhash.DSha(sb)
	}
	if base != 2 && base != 3 {
		ho = refhash.DSha(ob)
	} else if base == 3 && idx < len(t.Out) {
		ho = refhash.DSha(putOut(nil, &t.Out[idx]))
	}
	hp = pick(prevMode, hp, refhash.DSha(pb))
	hs = pick(seqMode, hs, refhash.DSha(sb))
	ho = pick(outMode, ho, refhash.DSha(ob))
	m := le32(nil, t.Version)
	m = append(m, hp[:]...)
	m = append(m, hs[:]...)
	m = append(m, t.In[idx].Prev[:]...)
	m = le32(m, t.In[idx].Vout)
	m = reftx.PutCS(m, uint64(len(code)))
	m = append(m, code...)
	m = le64(m, amount)
	m = le32(m, t.In[idx].Sequence)
	m = append(m, ho[:]...)
	m = le32(m, t.LockTime)
	m = le32(m, ht)
	return refhash.DSha(m)
}

// confusion variants of the digest a signature is made over
type digestVar struct {
	name             string
	prev, seq, outs  int
	otherHT          bool // sign the digest of the next hash type in the list
	onlyIfDiffersFor func(ht byte) bool
}

var digestVars = []digestVar{
	{name: "valid"},
	{name: "hashSequence-as-for-ALL", seq: 1, onlyIfDiffersFor: func(h byte) bool { return h != 1 }},
	{name: "hashPrevouts-as-for-ALL", prev: 1, onlyIfDiffersFor: func(h byte) bool { return h&0x80 != 0 }},
	{name: "hashOutputs-as-for-ALL", outs: 1, onlyIfDiffersFor: func(h byte) bool { return h&3 != 1 }},
	{name: "hashSequence-zero", seq: 2, onlyIfDiffersFor: func(h byte) bool { return h == 1 }},
	{name: "hashPrevouts-zero", prev: 2, onlyIfDiffersFor: func(h byte) bool { return h&0x80 == 0 }},
	{name: "hashOutputs-zero", outs: 2, onlyIfDiffersFor: func(h byte) bool { return h&3 == 1 }},
	{name: "digest-of-another-hash-type", otherHT: true},
}

type inKind struct {
	name string
	sv   string // legacy | segwit-v0 | taproot
}

var inKinds = []inKind{
	{"p2wpkh", "segwit-v0"}, {"p2wsh-checksig", "segwit-v0"}, {"p2wsh-2of2", "segwit-v0"}, {"p2sh-p2wpkh", "segwit-v0"},
	{"tap-key", "taproot"}, {"tap-script", "taproot"}, {"p2pkh", "legacy"},
}

type objIn struct {
	kind int
	ht   byte
	ht2  byte // second signature of the 2-of-2
	dv   int  // digest variant of the (first) signature
}

func nextHT(h byte) byte {
	for i, x := range objHT {
		if x == h {
			return objHT[(i+1)%len(objHT)]
		}
	}
	return 1
}

// buildObjTx builds the transaction and one Case per input.
func buildObjTx(ins []objIn, fl flagSet) []*Case {
	n := len(ins)
	t := &reftx.Tx{Version: 2, LockTime: 21}
	sp := make([]reftx.Out, n)
	type prep struct {
		code   []byte // script code (v0) / leaf (taproot) / pkScript (legacy)
		ws     []byte
		tap    *tapLeaf
		redeem []byte
	}
	pr := make([]prep, n)
	for i, in := range ins {
		ti := reftx.In{Vout: uint32(i), Sequence: 0xfffffffd - uint32(i)}
		for k := range ti.Prev {
			ti.Prev[k] = byte(0x60 + i)
		}
		k := &keys[i]
		amount := uint64(50000 + i)
		var spk []byte
		switch inKinds[in.kind].name {
		case "p2wpkh", "p2sh-p2wpkh":
			h := refhash.Hash160(k.pub)
			wp := cat([]byte{0x00, 0x14}, h[:])
			pr[i].code = cat([]byte{0x76, 0xa9, 0x14}, h[:], []byte{0x88, 0xac})
			spk = wp
			if inKinds[in.kind].name == "p2sh-p2wpkh" {
				pr[i].redeem = wp
				spk = p2shSPK(wp)
				ti.Script = pushData(wp)
			}
		case "p2wsh-checksig":
			pr[i].ws = cat(pushData(k.pub), []byte{0xac})
			pr[i].code = pr[i].ws
			spk = p2wshSPK(pr[i].ws)
		case "p2wsh-2of2":
			pr[i].ws = cat([]byte{0x52}, pushData(k.pub), pushData(keys[i+8].pub), []byte{0x52, 0xae})
			pr[i].code = pr[i].ws
			spk = p2wshSPK(pr[i].ws)
		case "tap-key":
			spk = cat([]byte{0x51, 0x20}, k.xonly)
		case "tap-script":
			leaf := cat(pushData(k.xonly), []byte{0xac})
			tl, ok := buildTap(leaf, 0xc0, keys[5].xonly, nil)
			if !ok {
				ev.HarnessError("no output key")
			}
			pr[i].tap = tl
			spk = tl.spk
		case "p2pkh":
			h := refhash.Hash160(k.pub)
			spk = cat([]byte{0x76, 0xa9, 0x14}, h[:], []byte{0x88, 0xac})
			pr[i].code = spk
		}
		sp[i] = reftx.Out{Value: amount, Script: spk}
		t.In = append(t.In, ti)
	}
	t.Out = []reftx.Out{{Value: 40000, Script: []byte{0x51}}, {Value: 30000, Script: []byte{0x52}}}
	// signatures
	v0sig := func(i int, key int, ht byte, dv digestVar) []byte {
		h := ht
		if dv.otherHT {
			h = nextHT(ht)
		}
		d := bip143Var(t, pr[i].code, sp[i].Value, i, uint32(h), dv.prev, dv.seq, dv.outs)
		if dv.name == "valid" && d != refhash.BIP143(t, pr[i].code, sp[i].Value, i, uint32(ht)) {
			ev.HarnessError("bip143Var disagrees with refhash.BIP143")
		}
		return ecdsaSig(key, d, ht)
	}
	tapsig := func(i int, ht byte, dv digestVar, ext *refhash.TapExt) []byte {
		h := ht
		if dv.otherHT {
			h = nextHT(ht)
		}
		d, ok := refhash.Taproot(t, sp, i, h, nil, ext)
		if !ok {
			d = [32]byte{} // no digest defined (SIGHASH_SINGLE without output): a signature over zeroes must fail
		}
		return append(schnorrSig(i, d), ht)
	}
	var cases []*Case
	for i, in := range ins {
		dv := digestVars[in.dv]
		kn := inKinds[in.kind].name
		switch kn {
		case "p2wpkh", "p2sh-p2wpkh":
			t.In[i].Witness = [][]byte{v0sig(i, i, in.ht, dv), keys[i].pub}
		case "p2wsh-checksig":
			t.In[i].Witness = [][]byte{v0sig(i, i, in.ht, dv), pr[i].ws}
		case "p2wsh-2of2":
			t.In[i].Witness = [][]byte{{}, v0sig(i, i, in.ht, dv), v0sig(i, i+8, in.ht2, digestVars[0]), pr[i].ws}
		case "tap-key":
			t.In[i].Witness = [][]byte{tapsig(i, in.ht, dv, nil)}
		case "tap-script":
			t.In[i].Witness = [][]byte{tapsig(i, in.ht, dv, &refhash.TapExt{LeafHash: pr[i].tap.leafHash, CodeSepPos: 0xffffffff}), pr[i].tap.script, pr[i].tap.control}
		case "p2pkh":
			h := in.ht
			if dv.otherHT {
				h = nextHT(in.ht)
			}
			d := refhash.Legacy(t, pr[i].code, i, uint32(h))
			t.In[i].Script = cat(pushData(ecdsaSig(i, d, in.ht)), pushData(keys[i].pub))
		}
	}
	for i, in := range ins {
		dvn := digestVars[in.dv].name
		cls := "valid-signature"
		if in.dv != 0 {
			cls = "signature-over(" + dvn + ")"
		}
		if inKinds[in.kind].sv == "taproot" && !refhash.ValidTaprootHashType(in.ht) {
			cls = "signature-with-undefined-hash-type"
		}
		ht := htName(in.ht)
		if !refhash.ValidTaprootHashType(in.ht) {
			ht = fmt.Sprintf("0x%02x", in.ht)
		}
		if inKinds[in.kind].name == "p2wsh-2of2" {
			ht += "+" + htName(in.ht2)
		}
		cases = append(cases, &Case{Fam: "obj", Tag: fmt.Sprintf("%s/%s", inKinds[in.kind].sv, cls),
			Label: fmt.Sprintf("input %d of %d: %s, hash type %s, %s", i, n, inKinds[in.kind].name, ht, cls), Tx: t, Idx: i, Spent: sp, Flags: fl.f, FName: fl.name})
	}
	return cases
}

func perms(n int) (l [][]int) {
	a := make([]int, n)
	for i := range a {
		a[i] = i
	}
	var rec func(k int)
	rec = func(k int) {
		if k == n {
			l = append(l, append([]int{}, a...))
			return
		}
		for i := k; i < n; i++ {
			a[k], a[i] = a[i], a[k]
			rec(k + 1)
			a[k], a[i] = a[i], a[k]
		}
	}
	rec(0)
	return
}

// evalShared verifies the inputs in every given order on ONE object per order.
func (w *worker) evalShared(cases []*Case, orders [][]int, ord int64) {
	refs := make([]refscript.Result, len(cases))
	for i, c := range cases {
		refs[i] = refVerdict(c)
	}
	s := w.stat("obj")
	for oi, seq := range orders {
		g := implTx(cases[0])
		for step, idx := range seq {
			c := cases[idx]
			cur := *c
			cur.shared = append([]int{}, seq[:step]...)
			if step > 0 {
				cur.Tag = "after(" + cases[seq[step-1]].Tag + ")"
				cur.Label = fmt.Sprintf("%s, verified on one transaction object after inputs %v (last: %s)", c.Label, seq[:step], cases[seq[step-1]].Label)
			}
			w.cur.Store(&cur)
			atomic.StoreInt64(&w.since, time.Now().UnixNano())
			impl, pan := implVerifyOn(g, c, idx)
			atomic.StoreInt64(&w.since, 0)
			ref := refs[idx]
			s.evals++
			if ref.OK {
				s.accept++
			} else {
				s.reject++
			}
			s.executed++
			cl := "obj/" + string(ref.Err)
			if !w.classes[cl] {
				w.classes[cl] = true
			}
			if pan == "" && impl == ref.OK {
				continue
			}
			s.disagree++
			var before []string
			for _, j := range seq[:step] {
				before = append(before, fmt.Sprintf("input %d (%s)", j, cases[j].Label))
			}
			rep := c.toJ(string(ref.Err), verdictName(impl))
			rep.SharedOrder = append([]int{}, seq[:step+1]...)
			o := ord + int64(oi)*16 + int64(step)
			if pan != "" {
				w.col.report(o, "obj/"+c.Tag+"/panic-escapes-VerifyTxScript", c.Label+": panic "+pan, rep)
				continue
			}
			fresh, _ := implVerdict(c)
			dep := "/on-any-object"
			if fresh == ref.OK {
				dep = "/only-after-other-verifications-on-the-same-object"
			}
			w.col.report(o, fmt.Sprintf("obj/%s/ref=%s/impl-%s%s", c.Tag, ref.Err, verdictName(impl), dep),
				fmt.Sprintf("%s [flags %s]: script rules say %s, VerifyTxScript %s when verified on one transaction object after [%s]; on a fresh object it %s",
					c.Label, c.FName, ref.Err, verdictName(impl), strings.Join(before, "; "), verdictName(fresh)), rep)
		}
	}
}

func famObj(r *ev.Run, p *pool) {
	orders2 := [][]int{{0, 1}, {1, 0}, {0, 1, 0}, {1, 0, 1}}
	orders3 := perms(3)
	fls := []flagSet{fsBlkTaproot}
	if r.Thorough() {
		fls = append(fls, fsStd)
	}
	var txs, sigsets int64
	submit := func(ins []objIn, orders [][]int) {
		for _, fl := range fls {
			ins, fl := append([]objIn{}, ins...), fl
			o := order()
			atomic.AddInt64(&nextOrder, 4096)
			txs++
			p.jobs <- func(w *worker) { w.evalShared(buildObjTx(ins, fl), orders, o) }
		}
	}
	nk := len(inKinds)
	// two inputs: every pair of kinds x every pair of hash types, valid signatures
	for k1 := 0; k1 < nk; k1++ {
		for k2 := 0; k2 < nk; k2++ {
			for _, h1 := range objHT {
				for _, h2 := range objHT {
					if !r.Thorough() && (inKinds[k1].sv == "taproot" || inKinds[k2].sv == "taproot") && inKinds[k1].sv != inKinds[k2].sv && h1 != 1 && h2 != 1 && h1 != h2 {
						continue // quick: mixed taproot/other pairs with a reduced hash-type product
					}
					submit([]objIn{{kind: k1, ht: h1, ht2: nextHT(h1)}, {kind: k2, ht: h2, ht2: nextHT(h2)}}, orders2)
				}
			}
		}
	}
	// 2-of-2 multisig: every pair of hash types inside ONE input, next to a P2WPKH input of every hash type
	for _, h1 := range objHT {
		for _, h2 := range objHT {
			for _, h3 := range objHT {
				if !r.Thorough() && h3 != 1 && h3 != h1 {
					continue
				}
				submit([]objIn{{kind: 2, ht: h1, ht2: h2}, {kind: 0, ht: h3}}, orders2)
			}
		}
	}
	// signatures over confused digests: input 0 carries the variant, input 1 is a valid spend of every hash type
	for _, k1 := range []int{0, 1, 2, 3, 4, 5, 6} {
		for dv := 1; dv < len(digestVars); dv++ {
			v := digestVars[dv]
			if inKinds[k1].sv != "segwit-v0" && !v.otherHT {
				continue
			}
			for _, h1 := range objHT {
				if v.onlyIfDiffersFor != nil && !v.onlyIfDiffersFor(h1) {
					continue
				}
				for _, k2 := range []int{0, 2, 4} {
					for _, h2 := range objHT {
						if !r.Thorough() && k2 != 0 && h2 != 1 && h2 != 0x83 {
							continue
						}
						submit([]objIn{{kind: k1, ht: h1, ht2: nextHT(h1), dv: dv}, {kind: k2, ht: h2, ht2: 1}}, orders2)
					}
				}
			}
		}
	}
	// taproot inputs whose 65-byte signature ends in a hash type BIP341 does not define
	// (must be refused) next to ordinary inputs: the refusal must not disturb the others
	partners := []int{0, 2, 4, 5, 6}
	for _, ku := range []int{4, 5} {
		for _, hu := range []byte{0x04, 0x84, 0xff} {
			for _, kp := range partners {
				for _, hp := range objHT {
					if !r.Thorough() && hp != 1 && hp != 0x83 {
						continue
					}
					submit([]objIn{{kind: ku, ht: hu}, {kind: kp, ht: hp, ht2: nextHT(hp)}}, orders2)
					submit([]objIn{{kind: kp, ht: hp, ht2: nextHT(hp)}, {kind: ku, ht: hu}}, orders2)
				}
			}
			for _, hp := range []byte{1, 0x82} {
				submit([]objIn{{kind: ku, ht: hu}, {kind: 0, ht: hp}, {kind: 9 - ku, ht: nextHT(hp)}}, orders3)
				submit([]objIn{{kind: 2, ht: hp, ht2: 0x83}, {kind: ku, ht: hu}, {kind: ku, ht: 0xff - hu + 4}}, orders3)
			}
		}
	}
	// three inputs, all orders
	triples := [][3]int{{0, 2, 4}, {0, 1, 3}, {4, 5, 0}, {6, 0, 5}, {1, 1, 1}, {0, 0, 0}, {4, 4, 5}, {2, 6, 4}}
	for _, tr := range triples {
		for _, h1 := range objHT {
			for _, h2 := range objHT {
				for _, h3 := range objHT {
					if !r.Thorough() && h3 != nextHT(h2) {
						continue
					}
					submit([]objIn{{kind: tr[0], ht: h1, ht2: nextHT(h1)}, {kind: tr[1], ht: h2, ht2: nextHT(h2)}, {kind: tr[2], ht: h3, ht2: nextHT(h3)}}, orders3)
				}
			}
		}
	}
	_ = sigsets
	var kn []string
	for _, k := range inKinds {
		kn = append(kn, k.name)
	}
	sample(p, "obj", map[string]interface{}{"transactions": txs, "input_kinds": kn, "hash_types": []string{"01", "02", "03", "81", "82", "83"},
		"orders_2_inputs": orders2, "orders_3_inputs": len(orders3), "digest_variants": len(digestVars)})
}

func min(a, b int) int {
	if a < b {
		return a
	}
	return b
}
