package main

import (
	"fmt"
	"math/big"

	"github.com/piotrnar/gocoin/lib/secp256k1"

	"verif/internal/ev"
	"verif/ref/refhash"
	"verif/ref/refscript"
	"verif/ref/refsecp"
	"verif/ref/refsig"
	"verif/ref/reftx"
)

// ---- (f) witness programs ----

func famF(r *ev.Run, p *pool) {
	b := &batcher{p: p}
	flagsF := []flagSet{{"blk-csv", fBlkCSV}, {"blk-segwit", fBlkSegwit}, fsBlkTaproot, fsStd,
		{"std-minus-DISCOURAGE_UPGRADABLE_WITNESS_PROGRAM", fStd &^ refscript.DISCOURAGE_UPGRADABLE_WITNESS_PROGRAM}, fsBlkP2SH}
	verOp := func(v int) byte {
		if v == 0 {
			return 0
		}
		return byte(0x50 + v)
	}
	for v := 0; v <= 16; v++ {
		for ln := 2; ln <= 40; ln++ {
			prog := fill(ln, 0x11)
			wp := cat([]byte{verOp(v), byte(ln)}, prog)
			for _, wrapped := range []bool{false, true} {
				for wi, wit := range [][][]byte{nil, {{1}}, {{1}, {0x51}}} {
					var ss, pk []byte
					if wrapped {
						ss, pk = pushData(wp), p2shSPK(wp)
					} else {
						pk = wp
					}
					for _, fl := range flagsF {
						ctx := "bare"
						if wrapped {
							ctx = "p2sh"
						}
						b.add(mk("f", fmt.Sprintf("v%d/len%d/%s/witness-items=%d", v, ln, ctx, wi),
							fmt.Sprintf("witness program version %d length %d (%s), %d witness items", v, ln, ctx, len(wit)), ss, wit, pk, fl))
					}
				}
			}
		}
	}
	// pushes that look like witness programs but are not: wrong push length byte, OP_1NEGATE / OP_RESERVED as version
	for _, pk := range [][]byte{
		cat([]byte{0x00, 0x21}, fill(32, 0x11)), cat([]byte{0x00, 0x1f}, fill(32, 0x11)), cat([]byte{0x4f, 0x20}, fill(32, 0x11)),
		cat([]byte{0x50, 0x20}, fill(32, 0x11)), cat([]byte{0x00, 0x4c, 0x20}, fill(32, 0x11)), cat([]byte{0x51, 0x20}, fill(32, 0x11), []byte{0x61}),
	} {
		for _, wit := range [][][]byte{nil, {{1}}} {
			for _, fl := range flagsF {
				b.add(mk("f", "lookalike", fmt.Sprintf("script %x that is not a witness program, %d witness items", pk[:3], len(wit)), nil, wit, pk, fl))
			}
		}
	}
	// genuine spends with reference signatures + scriptSig malleation
	b.lazy(func() (l []*Case) {
		fls := []flagSet{fsBlkSegwit, fsBlkTaproot, fsStd, {"blk-csv", fBlkCSV}}
		// P2WSH of OP_1 with matching / mismatching script
		ws := []byte{0x51}
		for _, c := range []struct {
			n   string
			wit [][]byte
			ss  []byte
		}{
			{"p2wsh/match", [][]byte{ws}, nil}, {"p2wsh/mismatch", [][]byte{{0x52}}, nil}, {"p2wsh/extra-item", [][]byte{{1}, ws}, nil},
			{"p2wsh/scriptsig-00", [][]byte{ws}, []byte{0x00}}, {"p2wsh/scriptsig-nop", [][]byte{ws}, []byte{0x61}},
		} {
			for _, fl := range fls {
				l = append(l, mk("f", c.n, c.n, c.ss, c.wit, p2wshSPK(ws), fl))
			}
		}
		redeem := p2wshSPK(ws)
		for _, c := range []struct {
			n  string
			ss []byte
		}{
			{"p2sh-p2wsh/exact-push", pushData(redeem)}, {"p2sh-p2wsh/pushdata1-form", cat([]byte{0x4c, byte(len(redeem))}, redeem)},
			{"p2sh-p2wsh/extra-push-before", cat([]byte{0x51}, pushData(redeem))}, {"p2sh-p2wsh/extra-nop-after", cat(pushData(redeem), []byte{0x61})},
			{"p2sh-p2wsh/pushdata2-form", cat([]byte{0x4d, byte(len(redeem)), 0}, redeem)},
		} {
			for _, fl := range fls {
				l = append(l, mk("f", c.n, c.n, c.ss, [][]byte{ws}, p2shSPK(redeem), fl))
			}
		}
		// P2WPKH with 1/2/3 items, compressed / uncompressed key
		for _, kk := range []struct {
			n   string
			pub []byte
		}{{"compressed", keys[0].pub}, {"uncompressed", keys[0].pubU}, {"hybrid", keys[0].pubH}} {
			h := refhash.Hash160(kk.pub)
			spk := cat([]byte{0x00, 0x14}, h[:])
			code := cat([]byte{0x76, 0xa9, 0x14}, h[:], []byte{0x88, 0xac})
			t0, _ := txFor(nil, nil, spk, aAmount)
			sig := ecdsaSig(0, refhash.BIP143(t0, code, aAmount, 0, 1), 1)
			for _, c := range []struct {
				n   string
				wit [][]byte
				ss  []byte
			}{
				{"2-items", [][]byte{sig, kk.pub}, nil}, {"1-item", [][]byte{kk.pub}, nil}, {"3-items", [][]byte{{}, sig, kk.pub}, nil},
				{"0-items", nil, nil}, {"swapped", [][]byte{kk.pub, sig}, nil}, {"scriptsig-nonempty", [][]byte{sig, kk.pub}, []byte{0x51}},
				{"wrong-key", [][]byte{sig, keys[1].pub}, nil}, {"bad-sig", [][]byte{ecdsaSig(0, badDigest, 1), kk.pub}, nil}, {"empty-sig", [][]byte{{}, kk.pub}, nil},
			} {
				for _, fl := range fls {
					l = append(l, mk("f", "p2wpkh/"+kk.n+"/"+c.n, "P2WPKH "+kk.n+" "+c.n, c.ss, c.wit, spk, fl))
				}
			}
			// P2SH-P2WPKH
			for _, fl := range fls {
				l = append(l, mk("f", "p2sh-p2wpkh/"+kk.n, "P2SH-P2WPKH "+kk.n, pushData(spk), [][]byte{sig, kk.pub}, p2shSPK(spk), fl))
			}
		}
		return
	})
	b.flush()
	sample(p, "f", map[string]interface{}{"versions": "0..16", "program_lengths": "2..40", "wrapping": []string{"bare", "p2sh"}})
}

// ---- (g) taproot ----

// offCurveOutputKey evaluates the chord rule on (x, y') + t*G where y' is the
// square-root CANDIDATE of x^3+7 made even - the point an implementation lands
// on when it neither checks x < p nor that the square root exists.
func offCurveOutputKey(internal []byte, root []byte) (q []byte, parity bool) {
	x := refsecp.FMod(refsecp.Int(internal))
	y := refsecp.FSqrtCandidate(refsecp.FAdd(refsecp.FMul(refsecp.FSqr(x), x), refsecp.B))
	if y.Bit(0) == 1 {
		y = refsecp.FNeg(y)
	}
	t := refhash.TapTweakHash(internal, root)
	Q := refsecp.Add(refsecp.Point{X: x, Y: y}, refscript.FastMulG(new(big.Int).SetBytes(t[:])))
	if Q.Inf {
		return make([]byte, 32), false
	}
	return refsecp.B32(Q.X), Q.Y.Bit(0) == 1
}

// implOutputKeyGuess asks the implementation's own (exported) curve arithmetic which
// output key it would compute for an internal key. It is only a way to FIND a
// candidate witness for invalid internal keys whose handling cannot be predicted
// from the outside; the verdict on the resulting spend is still judged by the
// reference. ok=false when the implementation itself refuses the key.
func implOutputKeyGuess(internal []byte, root []byte) (q []byte, parity bool, ok bool) {
	defer func() {
		if recover() != nil {
			ok = false
		}
	}()
	var pk secp256k1.XY
	if !pk.ParseXOnlyPubkey(internal) {
		return nil, false, false
	}
	t := refhash.TapTweakHash(internal, root)
	var tw secp256k1.Number
	tw.SetBytes(t[:])
	if !pk.ECPublicTweakAdd(&tw) {
		return nil, false, false
	}
	pk.X.Normalize()
	pk.Y.Normalize()
	q = make([]byte, 32)
	pk.X.GetB32(q)
	return q, pk.Y.IsOdd(), true
}

func famG(r *ev.Run, p *pool) {
	b := &batcher{p: p}
	flG := []flagSet{fsBlkTaproot, fsStd, {"std-core", fStd | refscript.DISCOURAGE_UPGRADABLE_TAPROOT_VERSION}, {"blk-segwit", fBlkSegwit}}
	leafTrue := []byte{0x51}
	internal := keys[1].xonly

	// control block sizes
	b.lazy(func() (l []*Case) {
		var sizes []int
		sizes = append(sizes, 0, 1, 32)
		for k := 0; k <= 129; k++ {
			sizes = append(sizes, 33+32*k)
			if k < 3 || k >= 127 {
				sizes = append(sizes, 33+32*k-1, 33+32*k+1)
			}
		}
		for _, sz := range sizes {
			var ctrl, spk []byte
			valid := sz >= 33 && (sz-33)%32 == 0
			if valid {
				path := make([]byte, sz-33)
				for i := range path {
					path[i] = byte(i/32 + 1)
				}
				tl, ok := buildTap(leafTrue, 0xc0, internal, path)
				if !ok {
					ev.HarnessError("no output key")
				}
				ctrl, spk = tl.control, tl.spk
			} else {
				tl, _ := buildTap(leafTrue, 0xc0, internal, nil)
				spk = tl.spk
				ctrl = append(append([]byte{}, tl.control...), make([]byte, 4200)...)[:sz]
			}
			for _, fl := range flG[:2] {
				cls := "valid-multiple"
				if !valid {
					cls = "not-33+32k"
				} else if sz > 33+32*128 {
					cls = "above-128-nodes"
				}
				l = append(l, mk("g", "control-size/"+cls, fmt.Sprintf("control block of %d bytes", sz), nil, [][]byte{leafTrue, ctrl}, spk, fl))
			}
		}
		return
	})
	// leaf versions, parity bit, merkle paths, internal key validity
	b.lazy(func() (l []*Case) {
		for _, lv := range []byte{0xc0, 0xc2, 0xc4, 0xfe, 0x00, 0x02, 0x50, 0x66, 0x7e, 0x80, 0xbe} {
			tl, _ := buildTap(leafTrue, lv, internal, nil)
			tlFalse, _ := buildTap([]byte{0x00}, lv, internal, nil)
			for _, fl := range flG {
				l = append(l, mk("g", fmt.Sprintf("leaf-version/%s", leafClass(lv)), fmt.Sprintf("leaf version 0x%02x, script OP_1", lv), nil, [][]byte{tl.script, tl.control}, tl.spk, fl))
				l = append(l, mk("g", fmt.Sprintf("leaf-version/%s/script-false", leafClass(lv)), fmt.Sprintf("leaf version 0x%02x, script OP_0", lv), nil, [][]byte{tlFalse.script, tlFalse.control}, tlFalse.spk, fl))
				// wrong parity bit
				wrong := append([]byte{}, tl.control...)
				wrong[0] ^= 1
				l = append(l, mk("g", "parity-bit-wrong", fmt.Sprintf("leaf version 0x%02x, parity bit flipped", lv), nil, [][]byte{tl.script, wrong}, tl.spk, fl))
				// leaf version in the control block differs from the committed one
				other := append([]byte{}, tl.control...)
				other[0] ^= 2
				l = append(l, mk("g", "leaf-version-not-committed", fmt.Sprintf("control leaf version 0x%02x^2", lv), nil, [][]byte{tl.script, other}, tl.spk, fl))
			}
		}
		// merkle paths of depth 0..2, sibling smaller / greater than the running hash
		for depth := 0; depth <= 2; depth++ {
			for mask := 0; mask < 1<<uint(depth); mask++ {
				var path []byte
				for i := 0; i < depth; i++ {
					if mask>>uint(i)&1 == 1 {
						path = append(path, fill(32, 0xff)...)
					} else {
						path = append(path, fill(32, 0x00)...)
					}
				}
				tl, _ := buildTap(leafTrue, 0xc0, internal, path)
				for _, fl := range flG[:2] {
					l = append(l, mk("g", "merkle-path/valid", fmt.Sprintf("path depth %d order mask %b", depth, mask), nil, [][]byte{tl.script, tl.control}, tl.spk, fl))
					if depth > 0 {
						// one sibling byte changed
						c2 := append([]byte{}, tl.control...)
						c2[33+31] ^= 1
						l = append(l, mk("g", "merkle-path/sibling-changed", fmt.Sprintf("path depth %d, sibling altered", depth), nil, [][]byte{tl.script, c2}, tl.spk, fl))
						// path truncated
						l = append(l, mk("g", "merkle-path/truncated", fmt.Sprintf("path depth %d, last node dropped", depth), nil, [][]byte{tl.script, tl.control[:len(tl.control)-32]}, tl.spk, fl))
					}
					// script altered
					l = append(l, mk("g", "merkle-path/script-changed", fmt.Sprintf("path depth %d, other script", depth), nil, [][]byte{{0x52}, tl.control}, tl.spk, fl))
				}
			}
		}
		// internal key: liftable / not liftable / >= p. For the invalid ones the output
		// key is what a validator without those checks would compute.
		pPlus := func(k int64) []byte { return refsecp.B32(new(big.Int).Add(refsecp.P, big.NewInt(k))) }
		var notLiftable []byte
		for x := int64(1); ; x++ {
			if _, ok := refsecp.LiftX(big.NewInt(x)); !ok {
				notLiftable = refsecp.B32(big.NewInt(x))
				break
			}
		}
		var smallLiftable int64
		for x := int64(1); ; x++ {
			if _, ok := refsecp.LiftX(big.NewInt(x)); ok {
				smallLiftable = x
				break
			}
		}
		for _, ik := range []struct {
			n   string
			key []byte
		}{
			{"x<p-without-square-root", notLiftable}, {"x>=p", pPlus(smallLiftable)}, {"x>=p", pPlus(0)}, {"x>=p", fill(32, 0xff)}, {"x<p-without-square-root", make([]byte, 32)},
		} {
			for _, path := range [][]byte{nil, fill(32, 0x42)} {
				leafHash := refhash.TapLeafHash(0xc0, leafTrue)
				root := refhash.MerkleRootFromPath(leafHash, path)
				type cand struct {
					q      []byte
					parity bool
				}
				var cands []cand
				q0, par0 := offCurveOutputKey(ik.key, root[:])
				cands = append(cands, cand{q0, par0})
				if q1, par1, ok := implOutputKeyGuess(ik.key, root[:]); ok && string(q1) != string(q0) {
					cands = append(cands, cand{q1, par1})
				}
				for _, cd := range cands {
					q, parity := cd.q, cd.parity
					c0 := byte(0xc0)
					if parity {
						c0 |= 1
					}
					ctrl := cat([]byte{c0}, ik.key, path)
					for _, fl := range flG[:2] {
						l = append(l, mk("g", "internal-key/"+ik.n, fmt.Sprintf("internal key %x.. (%s), output key computed without validity checks", ik.key[:4], ik.n), nil, [][]byte{leafTrue, ctrl}, cat([]byte{0x51, 0x20}, q), fl))
						// same with the other parity
						c2 := append([]byte{}, ctrl...)
						c2[0] ^= 1
						l = append(l, mk("g", "internal-key/"+ik.n, fmt.Sprintf("internal key (%s), other parity", ik.n), nil, [][]byte{leafTrue, c2}, cat([]byte{0x51, 0x20}, q), fl))
					}
				}
			}
		}
		return
	})
	// annex handling
	b.lazy(func() (l []*Case) {
		tl, _ := buildTap(leafTrue, 0xc0, internal, nil)
		spkKey := cat([]byte{0x51, 0x20}, keys[0].xonly)
		keySig := func(annex []byte, ht byte) []byte {
			t, sp := txFor(nil, nil, spkKey, aAmount)
			d, ok := refhash.Taproot(t, sp, 0, ht, annex, nil)
			if !ok {
				return nil
			}
			s := schnorrSig(0, d)
			if ht != 0 {
				s = append(s, ht)
			}
			return s
		}
		for _, fl := range flG[:2] {
			l = append(l, mk("g", "annex/keypath-with-annex", "key path, signature commits to annex 50aa", nil, [][]byte{keySig([]byte{0x50, 0xaa}, 0), {0x50, 0xaa}}, spkKey, fl))
			l = append(l, mk("g", "annex/keypath-annex-not-signed", "key path, signature made without annex, annex present", nil, [][]byte{keySig(nil, 0), {0x50, 0xaa}}, spkKey, fl))
			l = append(l, mk("g", "annex/keypath-annex-removed", "key path, signature made with annex, annex absent", nil, [][]byte{keySig([]byte{0x50, 0xaa}, 0)}, spkKey, fl))
			l = append(l, mk("g", "annex/keypath-other-annex", "key path, other annex", nil, [][]byte{keySig([]byte{0x50, 0xaa}, 0), {0x50, 0xab}}, spkKey, fl))
			l = append(l, mk("g", "annex/single-item-0x50", "single witness item starting with 0x50 is the signature, not an annex", nil, [][]byte{{0x50}}, spkKey, fl))
			l = append(l, mk("g", "annex/empty-last-item", "two items, last empty (not an annex)", nil, [][]byte{keySig(nil, 0), {}}, spkKey, fl))
			l = append(l, mk("g", "annex/annex-only-0x50", "annex is the single byte 50", nil, [][]byte{keySig([]byte{0x50}, 0), {0x50}}, spkKey, fl))
			l = append(l, mk("g", "annex/scriptpath-with-annex", "script path OP_1 with annex", nil, [][]byte{tl.script, tl.control, {0x50, 0x01}}, tl.spk, fl))
			l = append(l, mk("g", "annex/scriptpath-two-items-last-0x50", "script, control starting with 0x50? (control is annex -> key path with script as signature)", nil, [][]byte{tl.script, cat([]byte{0x50}, tl.control[1:])}, tl.spk, fl))
			l = append(l, mk("g", "annex/empty-witness", "empty witness", nil, nil, tl.spk, fl))
			l = append(l, mk("g", "annex/scriptsig-nonempty", "taproot spend with non-empty scriptSig", []byte{0x51}, [][]byte{tl.script, tl.control}, tl.spk, fl))
		}
		// P2SH-wrapped v1 program is not taproot
		for _, fl := range flG {
			l = append(l, mk("g", "p2sh-wrapped-v1", "P2SH-wrapped version 1 program with a key-path-like witness", pushData(spkKey), [][]byte{{0x01}}, p2shSPK(spkKey), fl))
		}
		return
	})
	// OP_SUCCESSx for all 256 opcode values, alone / before a truncated push / inside a truncated push / after PUSHDATA1
	for opv := 0; opv < 256; opv++ {
		opv := opv
		b.lazy(func() (l []*Case) {
			cls := "not-op-success"
			if refscript.IsOpSuccess(byte(opv)) {
				cls = "op-success"
			}
			for _, lay := range []struct {
				n string
				s []byte
			}{
				{"alone", opBytes(opv)}, {"then-truncated-push", cat(opBytes(opv), []byte{0x4c})}, {"then-invalid-tail", cat(opBytes(opv), []byte{0x05, 0x01})},
				{"inside-truncated-push", []byte{0x05, byte(opv)}}, {"after-unexecuted-if", cat([]byte{0x00, 0x63}, opBytes(opv), []byte{0x68, 0x51})},
				{"after-return", cat([]byte{0x6a}, opBytes(opv))}, {"after-disabled", cat([]byte{0x7e}, opBytes(opv))}, {"before-disabled", cat(opBytes(opv), []byte{0x7e, 0xff})},
			} {
				tl, ok := buildTap(lay.s, 0xc0, internal, nil)
				if !ok {
					continue
				}
				for _, st := range [][][]byte{nil, {{1}}, {fill(521, 1)}} {
					tx, sp := tapSpendFixed(tl, st, nil)
					for _, fl := range flG[:2] {
						l = append(l, &Case{Fam: "g", Tag: "op-success/" + cls + "/" + lay.n, Label: fmt.Sprintf("tapscript %x (%s), %d stack items", lay.s, lay.n, len(st)), Tx: tx, Idx: 0, Spent: sp, Flags: fl.f, FName: fl.name})
					}
				}
			}
			return
		})
	}
	// key-path signature sizes and all 256 hash-type bytes
	for ht := 0; ht < 256; ht++ {
		ht := ht
		b.lazy(func() (l []*Case) {
			spkKey := cat([]byte{0x51, 0x20}, keys[0].xonly)
			for _, nout := range []int{1, 0} {
				t0, sp0 := txFor(nil, nil, spkKey, aAmount)
				if nout == 0 {
					t0.Out = nil
				}
				d, ok := refhash.Taproot(t0, sp0, 0, byte(ht), nil, nil)
				cls := "defined"
				if !ok {
					d = [32]byte{} // a signature over the all-zero digest
					cls = "undefined-hash-type"
					if refhash.ValidTaprootHashType(byte(ht)) {
						cls = "single-without-output"
					}
				}
				s64 := schnorrSig(0, d)
				variants := []struct {
					n   string
					sig []byte
				}{
					{"65-bytes", append(append([]byte{}, s64...), byte(ht))},
				}
				if ht == 0 || ht == 1 || ht == 0x83 || ht == 4 {
					variants = append(variants, []struct {
						n   string
						sig []byte
					}{{"64-bytes", s64}, {"63-bytes", s64[:63]}, {"66-bytes", append(append([]byte{}, s64...), byte(ht), byte(ht))}, {"0-bytes", []byte{}}}...)
				}
				for _, v := range variants {
					tx, sp := txFor(nil, [][]byte{v.sig}, spkKey, aAmount)
					if nout == 0 {
						tx.Out = nil
					}
					for _, fl := range flG[:2] {
						l = append(l, &Case{Fam: "g", Tag: "keypath-hash-type/" + cls + "/sig-" + v.n, Label: fmt.Sprintf("key path, hash type 0x%02x, %d outputs, signature %s over %s", ht, nout, v.n, map[bool]string{true: "the BIP341 digest", false: "the all-zero digest"}[ok]), Tx: tx, Idx: 0, Spent: sp, Flags: fl.f, FName: fl.name})
					}
				}
				// tapscript CHECKSIG with the same hash type
				leaf := cat(pushData(keys[0].xonly), []byte{0xac})
				tl, _ := buildTap(leaf, 0xc0, internal, nil)
				tS, spS := tapSpendFixed(tl, [][]byte{{}}, nil)
				if nout == 0 {
					tS.Out = nil
				}
				dS, okS := refhash.Taproot(tS, spS, 0, byte(ht), nil, &refhash.TapExt{LeafHash: tl.leafHash, CodeSepPos: 0xffffffff})
				if !okS {
					dS = [32]byte{}
				}
				sg := schnorrSig(0, dS)
				if ht != 0 || !okS {
					sg = append(sg, byte(ht))
				}
				tS.In[0].Witness[0] = sg
				for _, fl := range flG[:2] {
					l = append(l, &Case{Fam: "g", Tag: "tapscript-hash-type/" + cls, Label: fmt.Sprintf("tapscript CHECKSIG, hash type 0x%02x, %d outputs", ht, nout), Tx: tS, Idx: 0, Spent: spS, Flags: fl.f, FName: fl.name})
				}
			}
			return
		})
	}
	// tapscript signature opcodes: CHECKSIGADD, CHECKMULTISIG forbidden, pubkey types, empty signature, MINIMALIF
	b.lazy(func() (l []*Case) {
		x0, x1 := keys[0].xonly, keys[2].xonly
		type tc struct {
			n     string
			leaf  []byte
			stack func(sig func(k int) []byte) [][]byte
		}
		cases := []tc{
			{"checksig/valid", cat(pushData(x0), []byte{0xac}), func(s func(int) []byte) [][]byte { return [][]byte{s(0)} }},
			{"checksig/empty-sig", cat(pushData(x0), []byte{0xac, 0x91}), func(s func(int) []byte) [][]byte { return [][]byte{{}} }},
			{"checksig/wrong-key-sig", cat(pushData(x0), []byte{0xac, 0x91}), func(s func(int) []byte) [][]byte { return [][]byte{s(2)} }},
			{"checksig/empty-pubkey", cat([]byte{0x00, 0xac, 0x91}), func(s func(int) []byte) [][]byte { return [][]byte{{}} }},
			{"checksig/33-byte-pubkey-any-sig", cat(pushData(keys[0].pub), []byte{0xac}), func(s func(int) []byte) [][]byte { return [][]byte{{0x01}} }},
			{"checksig/33-byte-pubkey-empty-sig", cat(pushData(keys[0].pub), []byte{0xac, 0x91}), func(s func(int) []byte) [][]byte { return [][]byte{{}} }},
			{"checksig/1-byte-pubkey", cat([]byte{0x51, 0xac}), func(s func(int) []byte) [][]byte { return [][]byte{{0x01}} }},
			{"checksigadd/2-of-2", cat([]byte{0x00}, pushData(x0), []byte{0xba}, pushData(x1), []byte{0xba, 0x52, 0x87}), func(s func(int) []byte) [][]byte { return [][]byte{s(2), s(0)} }},
			{"checksigadd/1-of-2-empty", cat([]byte{0x00}, pushData(x0), []byte{0xba}, pushData(x1), []byte{0xba, 0x51, 0x87}), func(s func(int) []byte) [][]byte { return [][]byte{{}, s(0)} }},
			{"checksigadd/num-5-bytes", cat(pushData([]byte{0, 0, 0, 0x80, 0}), pushData(x0), []byte{0xba, 0x75, 0x51}), func(s func(int) []byte) [][]byte { return [][]byte{s(0)} }},
			{"checksigadd/num-4-bytes-max", cat(pushData([]byte{0xff, 0xff, 0xff, 0x7f}), pushData(x0), []byte{0xba, 0x82, 0x55, 0x87}), func(s func(int) []byte) [][]byte { return [][]byte{s(0)} }},
			{"checksigadd/too-few-items", cat(pushData(x0), []byte{0xba}), func(s func(int) []byte) [][]byte { return [][]byte{s(0)} }},
			{"checkmultisig/forbidden", cat([]byte{0x00, 0x00, 0x00, 0xae}), func(s func(int) []byte) [][]byte { return nil }},
			{"checkmultisigverify/forbidden", cat([]byte{0x00, 0x00, 0x00, 0xaf, 0x51}), func(s func(int) []byte) [][]byte { return nil }},
			{"checkmultisig/unexecuted", cat([]byte{0x00, 0x63, 0xae, 0x68, 0x51}), func(s func(int) []byte) [][]byte { return nil }},
			{"minimalif/02", []byte{0x63, 0x51, 0x67, 0x51, 0x68}, func(s func(int) []byte) [][]byte { return [][]byte{{2}} }},
			{"minimalif/0100", []byte{0x63, 0x51, 0x67, 0x51, 0x68}, func(s func(int) []byte) [][]byte { return [][]byte{{1, 0}} }},
			{"minimalif/00", []byte{0x63, 0x51, 0x67, 0x51, 0x68}, func(s func(int) []byte) [][]byte { return [][]byte{{0}} }},
			{"minimalif/01", []byte{0x63, 0x51, 0x67, 0x51, 0x68}, func(s func(int) []byte) [][]byte { return [][]byte{{1}} }},
			{"minimalif/empty", []byte{0x64, 0x51, 0x67, 0x51, 0x68}, func(s func(int) []byte) [][]byte { return [][]byte{{}} }},
			{"minimalif/notif-80", []byte{0x64, 0x51, 0x67, 0x51, 0x68}, func(s func(int) []byte) [][]byte { return [][]byte{{0x80}} }},
			{"codeseparator/then-checksig", cat([]byte{0xab}, pushData(x0), []byte{0xac}), nil},
			{"codeseparator/after-push", cat(pushData(x0), []byte{0xab, 0xac}), nil},
			{"codeseparator/two", cat([]byte{0xab, 0x61, 0xab}, pushData(x0), []byte{0xac}), nil},
			{"codeseparator/in-untaken-branch", cat([]byte{0x00, 0x63, 0xab, 0x68}, pushData(x0), []byte{0xac}), nil},
			{"codeseparator/after-big-push", cat(pushData(fill(300, 1)), []byte{0x75, 0xab}, pushData(x0), []byte{0xac}), nil},
		}
		sepPos := map[string]uint32{"codeseparator/then-checksig": 0, "codeseparator/after-push": 1, "codeseparator/two": 2, "codeseparator/in-untaken-branch": 0xffffffff, "codeseparator/after-big-push": 2}
		for _, c := range cases {
			tl, ok := buildTap(c.leaf, 0xc0, internal, nil)
			if !ok {
				continue
			}
			pos := uint32(0xffffffff)
			if v, ok := sepPos[c.n]; ok {
				pos = v
			}
			for _, annex := range [][]byte{nil, {0x50, 0x99}} {
				probe, sp := tapSpendFixed(tl, nil, annex)
				sig := func(k int) []byte {
					d, _ := refhash.Taproot(probe, sp, 0, 0, annex, &refhash.TapExt{LeafHash: tl.leafHash, CodeSepPos: pos})
					return schnorrSig(k, d)
				}
				var st [][]byte
				if c.stack != nil {
					st = c.stack(sig)
				} else {
					st = [][]byte{sig(0)}
				}
				tx, sp2 := tapSpendFixed(tl, st, annex)
				for _, fl := range flG[:3] {
					l = append(l, &Case{Fam: "g", Tag: "tapscript/" + c.n, Label: fmt.Sprintf("tapscript %s, annex=%v", c.n, annex != nil), Tx: tx, Idx: 0, Spent: sp2, Flags: fl.f, FName: fl.name})
				}
			}
		}
		return
	})
	// validation weight budget: weight_left 49/50/51 before the last of k signature checks
	for _, k := range []int{1, 2, 3, 7} {
		for _, target := range []int{49, 50, 51, 0, 99, 100} {
			k, target := k, target
			b.lazy(func() []*Case { return sigopBudgetCases(k, target, internal) })
		}
	}
	b.flush()
	sample(p, "g", map[string]interface{}{"control_sizes": "0,1,32,33+32k (k=0..129), +-1 at the ends", "op_success": "all 256 opcode values x 8 layouts", "hash_types": "all 256 x key path / tapscript x 1 / 0 outputs"})
}

func leafClass(lv byte) string {
	if lv&0xfe == 0xc0 {
		return "tapscript"
	}
	return "unknown"
}

// tapSpendFixed: script path spend with the fixed previous outpoint.
func tapSpendFixed(t *tapLeaf, stack [][]byte, annex []byte) (*reftx.Tx, []reftx.Out) {
	w := append([][]byte{}, stack...)
	w = append(w, t.script, t.control)
	if annex != nil {
		w = append(w, annex)
	}
	return txFor(nil, w, t.spk, aAmount)
}

// sigopBudgetCases: script (2DUP CHECKSIGVERIFY) x k, 2DROP, 1 with witness [sig, pubkey];
// the annex is padded so that the budget left before the LAST check is target.
func sigopBudgetCases(k, target int, internal []byte) (l []*Case) {
	leaf := cat(rep([]byte{0x6e, 0xad}, k), []byte{0x6d, 0x51})
	tl, ok := buildTap(leaf, 0xc0, internal, nil)
	if !ok {
		return nil
	}
	// witness size with an annex of a bytes: budget = size + 50; left before last = budget - 50*(k-1)
	sizeWith := func(a int) int {
		items := [][]byte{make([]byte, 64), keys[0].xonly, leaf, tl.control, make([]byte, a)}
		n := reftx.CSLen(uint64(len(items)))
		for _, it := range items {
			n += reftx.CSLen(uint64(len(it))) + len(it)
		}
		return n
	}
	for a := 1; a < 600; a++ {
		if sizeWith(a)+50-50*(k-1) == target {
			annex := append([]byte{0x50}, make([]byte, a-1)...)
			probe, sp := tapSpendFixed(tl, nil, annex)
			d, _ := refhash.Taproot(probe, sp, 0, 0, annex, &refhash.TapExt{LeafHash: tl.leafHash, CodeSepPos: 0xffffffff})
			tx, sp2 := tapSpendFixed(tl, [][]byte{schnorrSig(0, d), keys[0].xonly}, annex)
			for _, fl := range []flagSet{fsBlkTaproot, fsStd} {
				l = append(l, &Case{Fam: "g", Tag: fmt.Sprintf("sigop-budget/left-before-last=%d", target), Label: fmt.Sprintf("%d signature checks, validation weight left before the last one = %d", k, target), Tx: tx, Idx: 0, Spent: sp2, Flags: fl.f, FName: fl.name})
			}
			return
		}
	}
	return nil
}

// ---- (h) flag lattice over the repository's own vector corpus ----

func famH(r *ev.Run, p *pool) {
	b := &batcher{p: p}
	lat := lattice()
	rows, err := refscript.ParseScriptTests(ev.Repo())
	if err != nil {
		ev.HarnessError("%v", err)
	}
	nrows := 0
	for i, t := range rows {
		credit := refscript.BuildCreditingTx(t.PkScript, t.Amount)
		spend := refscript.BuildSpendingTx(t.ScriptSig, t.Witness, credit)
		sp := []reftx.Out{{Value: t.Amount, Script: t.PkScript}}
		own := t.Flags
		if own&refscript.CLEANSTACK != 0 {
			own |= refscript.P2SH | refscript.WITNESS
		}
		sets := append([]flagSet{}, lat...)
		if own.Consistent() {
			sets = append(sets, flagSet{"row-flags", own})
		}
		nrows++
		for _, fl := range sets {
			b.add(&Case{Fam: "h", Tag: "script_tests/" + fl.name, Label: fmt.Sprintf("script_tests.json row %d (%s)", i, t.Comment), Tx: spend, Idx: 0, Spent: sp, Flags: fl.f, FName: fl.name})
		}
	}
	ntx := 0
	for _, name := range []string{"tx_valid.json", "tx_invalid.json"} {
		trs, err := refscript.ParseTxTests(ev.Repo(), name)
		if err != nil {
			ev.HarnessError("%v", err)
		}
		for i, t := range trs {
			tx, n, e := reftx.DecodeTx(t.Raw)
			if e != nil || n != len(t.Raw) {
				ev.HarnessError("%s row %d does not decode", name, i)
			}
			if refscript.CheckTransaction(tx) != "" {
				continue // refused before any script runs; not what C01 is about
			}
			sp := make([]reftx.Out, len(tx.In))
			complete := true
			for k := range tx.In {
				var key [36]byte
				copy(key[:], tx.In[k].Prev[:])
				v := tx.In[k].Vout
				key[32], key[33], key[34], key[35] = byte(v), byte(v>>8), byte(v>>16), byte(v>>24)
				o, ok := t.Prevouts[key]
				if !ok {
					complete = false
				}
				sp[k] = o
			}
			if !complete {
				continue
			}
			ntx++
			sets := append([]flagSet{}, lat...)
			if t.Flags.Consistent() {
				sets = append(sets, flagSet{"row-flags", t.Flags})
			}
			for k := range tx.In {
				for _, fl := range sets {
					b.add(&Case{Fam: "h", Tag: name + "/" + fl.name, Label: fmt.Sprintf("%s row %d input %d", name, i, k), Tx: tx, Idx: k, Spent: sp, Flags: fl.f, FName: fl.name})
				}
			}
		}
	}
	b.flush()
	var ln []string
	for _, s := range lat {
		ln = append(ln, s.name)
	}
	sample(p, "h", map[string]interface{}{"flag_sets": ln, "script_tests_rows": nrows, "tx_rows": ntx})
}

var _ = refsig.IsLowS
