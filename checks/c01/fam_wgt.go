package main

import (
	"fmt"
	"sort"

	"verif/internal/ev"
	"verif/ref/refhash"
	"verif/ref/refscript"
	"verif/ref/reftx"
)

// Family "wgt": the tapscript validation-weight budget (BIP342 "sigops limit").
//
// Budget = 50 + serialized size of the input's witness (annex and every item
// included). EVERY signature opcode executed with a NON-EMPTY signature costs 50,
// before the public key length is looked at: 32-byte keys (the signature is then
// verified), "upgradable" key types (any other non-empty length: nothing is
// verified, the opcode succeeds unless DISCOURAGE_UPGRADABLE_PUBKEYTYPE) and the
// empty key (which fails afterwards). Empty signatures are free. The script fails
// as soon as the budget would become negative.
//
// Members: key/signature type x opcode {CHECKSIG, CHECKSIGVERIFY, CHECKSIGADD} x
// number k of executed signature opcodes around the boundary computed from the
// witness size (1, k*-1, k*, k*+1, k*+2 where k* is the last affordable count) x
// witness paddings (annex absent / short / long, extra stack items) giving different
// budgets; plus, for k in {1, 2, 5}, an annex sized so that the weight left before
// the LAST opcode is exactly 49 / 50 / 51. The reference interpreter decides each.

type wgtKey struct {
	name     string
	keyClass string
	sigClass string
	key      []byte
	sig      []byte // nil: valid Schnorr signature of key 0 (computed per member)
	validSig int    // 0: literal sig, 64 / 65: valid signature of that length
}

func wgtKeys() []wgtKey {
	one := []byte{0x01}
	z64 := make([]byte, 64)
	l := []wgtKey{
		{name: "32-byte key, valid 64-byte signature", keyClass: "32-byte-key", sigClass: "valid-sig", key: keys[0].xonly, validSig: 64},
		{name: "32-byte key, valid 65-byte signature (SIGHASH_ALL)", keyClass: "32-byte-key", sigClass: "valid-sig", key: keys[0].xonly, validSig: 65},
		{name: "32-byte key, empty signature", keyClass: "32-byte-key", sigClass: "empty-sig", key: keys[0].xonly, sig: []byte{}},
		{name: "32-byte key, invalid 64-byte signature", keyClass: "32-byte-key", sigClass: "invalid-sig", key: keys[0].xonly, sig: z64},
		{name: "empty key, 1-byte signature", keyClass: "empty-key", sigClass: "nonempty-sig", key: []byte{}, sig: one},
		{name: "empty key, empty signature", keyClass: "empty-key", sigClass: "empty-sig", key: []byte{}, sig: []byte{}},
	}
	for _, kl := range []int{1, 31, 33, 64} {
		k := fill(kl, 0x02)
		if kl == 33 {
			k = keys[0].pub
		}
		l = append(l,
			wgtKey{name: fmt.Sprintf("%d-byte key, 1-byte signature", kl), keyClass: "upgradable-key-type", sigClass: "nonempty-sig", key: k, sig: one},
			wgtKey{name: fmt.Sprintf("%d-byte key, 64-byte signature", kl), keyClass: "upgradable-key-type", sigClass: "nonempty-sig", key: k, sig: z64},
			wgtKey{name: fmt.Sprintf("%d-byte key, empty signature", kl), keyClass: "upgradable-key-type", sigClass: "empty-sig", key: k, sig: []byte{}})
	}
	return l
}

type wgtOp struct {
	name string
	iter []byte // one iteration on a stack [sig key]: leaves [sig key]
}

var wgtOps = []wgtOp{
	{"CHECKSIG", []byte{0x6e, 0xac, 0x75}},                // 2DUP CHECKSIG DROP
	{"CHECKSIGVERIFY", []byte{0x6e, 0xad}},                // 2DUP CHECKSIGVERIFY
	{"CHECKSIGADD", []byte{0x6e, 0x00, 0x7c, 0xba, 0x75}}, // 2DUP 0 SWAP CHECKSIGADD DROP
}

type wgtPad struct {
	name  string
	annex []byte
	extra [][]byte // extra items on top of [sig key], dropped by the script first
}

func wgtPads() []wgtPad {
	return []wgtPad{
		{name: "no padding"},
		{name: "annex of 2 bytes", annex: []byte{0x50, 0xaa}},
		{name: "annex of 260 bytes", annex: append([]byte{0x50}, fill(259, 0xaa)...)},
		{name: "two extra items of 100 bytes", extra: [][]byte{fill(100, 3), fill(100, 4)}},
		{name: "extra item of 520 bytes and annex of 33 bytes", annex: append([]byte{0x50}, fill(32, 0xbb)...), extra: [][]byte{fill(520, 5)}},
	}
}

func wgtLeaf(op wgtOp, k int, nExtra int) []byte {
	return cat(rep([]byte{0x75}, nExtra), rep(op.iter, k), []byte{0x6d, 0x51}) // DROP*e, iterations, 2DROP 1
}

func witnessSize(items [][]byte) int {
	n := reftx.CSLen(uint64(len(items)))
	for _, it := range items {
		n += reftx.CSLen(uint64(len(it))) + len(it)
	}
	return n
}

// wgtItems: the full witness for (key type, leaf, control, pad) with a signature placeholder of the right length.
func wgtItems(kt wgtKey, sig []byte, leaf, control []byte, pad wgtPad) [][]byte {
	w := [][]byte{sig, kt.key}
	w = append(w, pad.extra...)
	w = append(w, leaf, control)
	if pad.annex != nil {
		w = append(w, pad.annex)
	}
	return w
}

func wgtSigPlaceholder(kt wgtKey) []byte {
	if kt.validSig > 0 {
		return make([]byte, kt.validSig)
	}
	return kt.sig
}

// wgtCase builds one member (signing if the key type asks for a valid signature).
func wgtCase(kt wgtKey, op wgtOp, k int, pad wgtPad, fl flagSet, tagSuffix, note string) *Case {
	leaf := wgtLeaf(op, k, len(pad.extra))
	tl, ok := buildTap(leaf, 0xc0, keys[1].xonly, nil)
	if !ok {
		ev.HarnessError("family wgt: no output key")
	}
	sig := wgtSigPlaceholder(kt)
	w := wgtItems(kt, sig, leaf, tl.control, pad)
	tx, sp := txFor(nil, w, tl.spk, aAmount)
	if kt.validSig > 0 {
		ht := byte(0)
		if kt.validSig == 65 {
			ht = 1
		}
		d, okd := refhash.Taproot(tx, sp, 0, ht, pad.annex, &refhash.TapExt{LeafHash: tl.leafHash, CodeSepPos: 0xffffffff})
		if !okd {
			ev.HarnessError("family wgt: no digest")
		}
		s := schnorrSig(0, d)
		if ht != 0 {
			s = append(s, ht)
		}
		tx.In[0].Witness[0] = s
	}
	budget := witnessSize(tx.In[0].Witness) + 50
	return &Case{Fam: "wgt", Tag: fmt.Sprintf("%s/%s%s", kt.keyClass, kt.sigClass, tagSuffix),
		Label: fmt.Sprintf("tapscript with %d x %s, %s, %s: budget %d (witness %d bytes + 50)%s", k, op.name, kt.name, pad.name, budget, budget-50, note),
		Tx:    tx, Idx: 0, Spent: sp, Flags: fl.f, FName: fl.name}
}

func famWgt(r *ev.Run, p *pool) {
	b := &batcher{p: p}
	kts := wgtKeys()
	pads := wgtPads()
	fls := []flagSet{fsBlkTaproot, fsStd, {"std-minus-DISCOURAGE_UPGRADABLE_PUBKEYTYPE", fStd &^ refscript.DISCOURAGE_UPGRADABLE_PUBKEYTYPE}}
	members := 0
	boundaries := map[int]bool{}
	for _, kt := range kts {
		for _, op := range wgtOps {
			for _, pad := range pads {
				// k*: the largest number of charged opcodes the budget pays for; the witness
				// (hence the budget) grows with the script, so it is found by iteration
				kstar := 0
				for k := 1; k < 400; k++ {
					leaf := wgtLeaf(op, k, len(pad.extra))
					ctrl := make([]byte, 33)
					w := wgtItems(kt, wgtSigPlaceholder(kt), leaf, ctrl, pad)
					if 50*k <= witnessSize(w)+50 {
						kstar = k
					} else {
						break
					}
				}
				boundaries[kstar] = true
				ks := map[int]bool{1: true, kstar - 1: true, kstar: true, kstar + 1: true, kstar + 2: true}
				if r.Thorough() {
					for k := 2; k <= kstar+3; k++ {
						ks[k] = true
					}
				}
				var kl []int
				for k := range ks {
					kl = append(kl, k)
				}
				sort.Ints(kl)
				for _, k := range kl {
					if k < 1 {
						continue
					}
					if kt.validSig == 65 && !r.Thorough() && k != kstar && k != kstar+1 {
						continue
					}
					kt, op, pad, k := kt, op, pad, k
					members += len(fls)
					b.lazy(func() (l []*Case) {
						for _, fl := range fls {
							l = append(l, wgtCase(kt, op, k, pad, fl, "", fmt.Sprintf("; last affordable count k* = %d", kstar)))
						}
						return
					})
				}
			}
			// exact boundary: annex sized so that the weight left before the last opcode is 49 / 50 / 51
			if kt.sigClass == "empty-sig" || kt.validSig == 65 {
				continue
			}
			for _, k := range []int{2, 3, 5, 8} {
				for _, target := range []int{49, 50, 51} {
					kt, op, k, target := kt, op, k, target
					members += 2
					b.lazy(func() (l []*Case) {
						leaf := wgtLeaf(op, k, 0)
						for a := 1; a < 700; a++ {
							pad := wgtPad{name: fmt.Sprintf("annex of %d bytes", a), annex: append([]byte{0x50}, fill(a-1, 0xcc)...)}
							w := wgtItems(kt, wgtSigPlaceholder(kt), leaf, make([]byte, 33), pad)
							if witnessSize(w)+50-50*(k-1) == target {
								for _, fl := range fls[:2] {
									l = append(l, wgtCase(kt, op, k, pad, fl, "", fmt.Sprintf("; weight left before the last opcode = %d", target)))
								}
								return
							}
						}
						return nil // the witness is already too large for this target with k opcodes
					})
				}
			}
		}
	}
	b.flush()
	var kn []string
	for _, k := range kts {
		kn = append(kn, k.name)
	}
	var bl []int
	for k := range boundaries {
		bl = append(bl, k)
	}
	sort.Ints(bl)
	sample(p, "wgt", map[string]interface{}{"key_and_signature_types": kn, "opcodes": []string{"CHECKSIG", "CHECKSIGVERIFY", "CHECKSIGADD"}, "paddings": len(pads),
		"members_planned": members, "boundary_counts_k*": bl, "exact_targets": []int{49, 50, 51}})
}
