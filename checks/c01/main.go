// C01: the verdict of script.VerifyTxScript equals the verdict of the Bitcoin script
// rules (reference interpreter refscript) for every member of constructed finite
// families of (scriptSig, scriptPubKey, witness, amount, tx, input, flags); it
// never panics and always terminates.
//
// Families (DESIGN.md, C01): (a) all programs of <= N tokens over an alphabet, in
// 5 contexts with all small initial stacks; (b) every opcode x sigversion x
// executed/unexecuted x stack depth; (c) CHECKMULTISIG m-of-n; (d) CLTV/CSV operand
// and transaction boundaries; (e) limits; (f) witness programs; (g) taproot;
// (h) flag lattice over the repository's own vector corpus; plus signature/public
// key encodings (der) and FindAndDelete (fad).
package main

import (
	"encoding/hex"
	"encoding/json"
	"flag"
	"fmt"
	"os"
	"os/exec"
	"runtime"
	"runtime/debug"
	"sort"
	"strings"
	"sync"
	"sync/atomic"
	"time"

	"github.com/piotrnar/gocoin/lib/btc"
	"github.com/piotrnar/gocoin/lib/script"

	"verif/internal/ev"
	"verif/ref/refhash"
	"verif/ref/refscript"
	"verif/ref/refsecp"
	"verif/ref/reftx"
)

var (
	replayFile = flag.String("replay", "", "replay one recorded case (no explorer)")
	onlyFam    = flag.String("family", os.Getenv("C01_FAMILY"), "run only these families (comma separated letters/names)")
)

var hangLimit = 60 * time.Second

// confirmHang replays a case that produced no verdict in a fresh process (with a
// shorter limit: a verification takes well under a millisecond there).
func confirmHang(rep caseJ, key string) bool {
	dir := ev.Scratch("c01-confirm")
	defer os.RemoveAll(dir)
	f := dir + "/case.json"
	b, _ := json.Marshal(map[string]interface{}{"key": key, "replay": rep})
	if err := os.WriteFile(f, b, 0o644); err != nil {
		ev.HarnessError("%v", err)
	}
	cmd := exec.Command(os.Args[0], "--replay", f)
	cmd.Env = append(os.Environ(), "C01_HANG_LIMIT=20s")
	out, _ := cmd.CombinedOutput()
	return strings.Contains(string(out), "did not return within")
}

// ---------------------------------------------------------------------------
// flags: refscript.Flags use Core's names; gocoin's VER_* are mapped by name.

var implFlag = map[refscript.Flags]uint32{
	refscript.P2SH: script.VER_P2SH, refscript.STRICTENC: script.VER_STRICTENC, refscript.DERSIG: script.VER_DERSIG,
	refscript.LOW_S: script.VER_LOW_S, refscript.NULLDUMMY: script.VER_NULLDUMMY, refscript.SIGPUSHONLY: script.VER_SIGPUSHONLY,
	refscript.MINIMALDATA: script.VER_MINDATA, refscript.DISCOURAGE_UPGRADABLE_NOPS: script.VER_BLOCK_OPS,
	refscript.CLEANSTACK: script.VER_CLEANSTACK, refscript.CHECKLOCKTIMEVERIFY: script.VER_CLTV,
	refscript.CHECKSEQUENCEVERIFY: script.VER_CSV, refscript.WITNESS: script.VER_WITNESS,
	refscript.DISCOURAGE_UPGRADABLE_WITNESS_PROGRAM: script.VER_WITNESS_PROG, refscript.MINIMALIF: script.VER_MINIMALIF,
	refscript.NULLFAIL: script.VER_NULLFAIL, refscript.WITNESS_PUBKEYTYPE: script.VER_WITNESS_PUBKEY,
	refscript.CONST_SCRIPTCODE: script.VER_CONST_SCRIPTCODE, refscript.TAPROOT: script.VER_TAPROOT,
	refscript.DISCOURAGE_UPGRADABLE_TAPROOT_VERSION: script.VER_DIS_TAPVER, refscript.DISCOURAGE_OP_SUCCESS: script.VER_DIS_SUCCESS,
	refscript.DISCOURAGE_UPGRADABLE_PUBKEYTYPE: script.VER_DIS_PUBKEYTYPE,
}

func toImplFlags(f refscript.Flags) (r uint32) {
	for b, v := range implFlag {
		if f&b != 0 {
			r |= v
		}
	}
	return
}

type flagSet struct {
	name string
	f    refscript.Flags
}

const (
	fBlkP2SH    = refscript.P2SH
	fBlkDersig  = fBlkP2SH | refscript.DERSIG
	fBlkCLTV    = fBlkDersig | refscript.CHECKLOCKTIMEVERIFY
	fBlkCSV     = fBlkCLTV | refscript.CHECKSEQUENCEVERIFY
	fBlkSegwit  = fBlkCSV | refscript.WITNESS | refscript.NULLDUMMY
	fBlkTaproot = fBlkSegwit | refscript.TAPROOT
	// gocoin's STANDARD_VERIFY_FLAGS by name
	fStd = refscript.P2SH | refscript.STRICTENC | refscript.DERSIG | refscript.LOW_S | refscript.NULLDUMMY | refscript.MINIMALDATA |
		refscript.DISCOURAGE_UPGRADABLE_NOPS | refscript.CLEANSTACK | refscript.CHECKLOCKTIMEVERIFY | refscript.CHECKSEQUENCEVERIFY |
		refscript.WITNESS | refscript.DISCOURAGE_UPGRADABLE_WITNESS_PROGRAM | refscript.MINIMALIF | refscript.NULLFAIL |
		refscript.WITNESS_PUBKEYTYPE | refscript.CONST_SCRIPTCODE | refscript.TAPROOT | refscript.DISCOURAGE_OP_SUCCESS |
		refscript.DISCOURAGE_UPGRADABLE_PUBKEYTYPE
	fWitOnly = refscript.P2SH | refscript.WITNESS | refscript.TAPROOT
)

// lattice: none, each set GetBlockFlags can return, the standard set, the standard
// set minus one policy flag at a time, Core's standard set (adds two more policy flags).
func lattice() []flagSet {
	l := []flagSet{
		{"none", 0}, {"blk-p2sh", fBlkP2SH}, {"blk-dersig", fBlkDersig}, {"blk-cltv", fBlkCLTV}, {"blk-csv", fBlkCSV},
		{"blk-segwit", fBlkSegwit}, {"blk-taproot", fBlkTaproot}, {"std", fStd},
		{"std-core", fStd | refscript.DISCOURAGE_UPGRADABLE_TAPROOT_VERSION | refscript.SIGPUSHONLY},
	}
	for _, p := range []struct {
		n string
		f refscript.Flags
	}{
		{"STRICTENC", refscript.STRICTENC}, {"LOW_S", refscript.LOW_S}, {"MINIMALDATA", refscript.MINIMALDATA},
		{"DISCOURAGE_UPGRADABLE_NOPS", refscript.DISCOURAGE_UPGRADABLE_NOPS}, {"CLEANSTACK", refscript.CLEANSTACK},
		{"DISCOURAGE_UPGRADABLE_WITNESS_PROGRAM", refscript.DISCOURAGE_UPGRADABLE_WITNESS_PROGRAM}, {"MINIMALIF", refscript.MINIMALIF},
		{"NULLFAIL", refscript.NULLFAIL}, {"WITNESS_PUBKEYTYPE", refscript.WITNESS_PUBKEYTYPE}, {"CONST_SCRIPTCODE", refscript.CONST_SCRIPTCODE},
		{"DISCOURAGE_OP_SUCCESS", refscript.DISCOURAGE_OP_SUCCESS}, {"DISCOURAGE_UPGRADABLE_PUBKEYTYPE", refscript.DISCOURAGE_UPGRADABLE_PUBKEYTYPE},
	} {
		l = append(l, flagSet{"std-minus-" + p.n, fStd &^ p.f})
	}
	for _, s := range l {
		if !s.f.Consistent() {
			ev.HarnessError("inconsistent flag set %s", s.name)
		}
	}
	return l
}

// ---------------------------------------------------------------------------
// a case and its evaluation

type Case struct {
	Fam   string
	Tag   string // key component naming the case class
	Label string // human description of the specific member
	Tx    *reftx.Tx
	Idx   int
	Spent []reftx.Out
	Flags refscript.Flags
	FName string
	order int64
	// inputs verified before this one, in this order, on the same transaction object (family obj)
	shared []int
}

type hexb []byte

func (h hexb) MarshalJSON() ([]byte, error) { return json.Marshal(hex.EncodeToString(h)) }
func (h *hexb) UnmarshalJSON(b []byte) error {
	var s string
	if err := json.Unmarshal(b, &s); err != nil {
		return err
	}
	d, err := hex.DecodeString(s)
	*h = d
	return err
}

type spentJ struct {
	Value  uint64 `json:"value"`
	Script hexb   `json:"script"`
}

type caseJ struct {
	Family    string   `json:"family"`
	Tag       string   `json:"tag"`
	Label     string   `json:"label"`
	Tx        hexb     `json:"tx"`
	Idx       int      `json:"idx"`
	Spent     []spentJ `json:"spent"`
	Flags     uint32   `json:"flags"`
	FlagNames string   `json:"flag_names"`
	ScriptSig hexb     `json:"script_sig"`
	PkScript  hexb     `json:"pk_script"`
	Witness   []hexb   `json:"witness"`
	Amount    uint64   `json:"amount"`
	Ref       string   `json:"reference_verdict"`
	Impl      string   `json:"implementation_verdict"`
	// inputs verified, in this order, on ONE transaction object; the last one is judged
	SharedOrder []int `json:"verify_order_on_one_object,omitempty"`
}

func flagNames(f refscript.Flags) string {
	var l []string
	for n, b := range refscript.FlagNames {
		if f&b != 0 {
			l = append(l, n)
		}
	}
	sort.Strings(l)
	if len(l) == 0 {
		return "NONE"
	}
	return strings.Join(l, ",")
}

func (c *Case) toJ(ref, impl string) caseJ {
	j := caseJ{Family: c.Fam, Tag: c.Tag, Label: c.Label, Tx: c.Tx.Serialize(true), Idx: c.Idx, Flags: uint32(c.Flags), FlagNames: flagNames(c.Flags),
		ScriptSig: c.Tx.In[c.Idx].Script, PkScript: c.Spent[c.Idx].Script, Amount: c.Spent[c.Idx].Value, Ref: ref, Impl: impl}
	for _, s := range c.Spent {
		j.Spent = append(j.Spent, spentJ{s.Value, s.Script})
	}
	for _, w := range c.Tx.In[c.Idx].Witness {
		j.Witness = append(j.Witness, hexb(w))
	}
	if c.shared != nil {
		j.SharedOrder = append(append([]int{}, c.shared...), c.Idx)
	}
	return j
}

// implVerdict runs the code under test on its own decoding of the transaction.
// implTx builds the implementation's transaction object through its own decoder.
func implTx(c *Case) *btc.Tx {
	raw := c.Tx.Serialize(true)
	g, n := btc.NewTx(raw)
	if g == nil || n != len(raw) {
		ev.HarnessError("btc.NewTx refuses a transaction built by reftx: %x", raw)
	}
	g.AllocVerVars()
	g.Spent_outputs = make([]*btc.TxOut, len(c.Spent))
	for i := range c.Spent {
		g.Spent_outputs[i] = &btc.TxOut{Value: c.Spent[i].Value, Pk_script: c.Spent[i].Script}
	}
	return g
}

// implVerifyOn verifies input idx of c's transaction on the given (possibly shared) object.
func implVerifyOn(g *btc.Tx, c *Case, idx int) (ok bool, pan string) {
	defer func() {
		if r := recover(); r != nil {
			pan = fmt.Sprint(r)
			if len(pan) > 80 {
				pan = pan[:80]
			}
		}
	}()
	return script.VerifyTxScript(c.Spent[idx].Script, &script.SigChecker{Tx: g, Idx: idx, Amount: c.Spent[idx].Value}, toImplFlags(c.Flags)), ""
}

// implVerdict runs the code under test on a fresh object of its own decoding.
func implVerdict(c *Case) (ok bool, pan string) {
	return implVerifyOn(implTx(c), c, c.Idx)
}

func refVerdict(c *Case) refscript.Result {
	return refscript.Verify(c.Tx.In[c.Idx].Script, c.Spent[c.Idx].Script, c.Tx.In[c.Idx].Witness, c.Flags,
		&refscript.Input{Tx: c.Tx, Idx: c.Idx, Amount: c.Spent[c.Idx].Value, Spent: c.Spent})
}

// ---------------------------------------------------------------------------
// bookkeeping

type famStat struct {
	evals, accept, reject, executed, disagree int64
}

type pending struct {
	order int64
	what  string
	rep   caseJ
}

type collector struct {
	mu      sync.Mutex
	fam     map[string]*famStat
	classes map[string]bool // distinct (family, verdict, reason) combinations
	viol    map[string]*pending
	aDis    []aDisagreement // family (a) disagreements, reduced to minimal token sets at the end
	samples map[string][]interface{}
}

func newCollector() *collector {
	return &collector{fam: map[string]*famStat{}, classes: map[string]bool{}, viol: map[string]*pending{}, samples: map[string][]interface{}{}}
}

func (col *collector) report(order int64, key, what string, rep caseJ) {
	col.mu.Lock()
	defer col.mu.Unlock()
	if p, ok := col.viol[key]; ok && p.order <= order {
		return
	}
	col.viol[key] = &pending{order, what, rep}
}

// worker-local statistics, merged at the end of the worker
type worker struct {
	id      int
	col     *collector
	fam     map[string]*famStat
	classes map[string]bool
	cur     atomic.Value // *Case being evaluated by the implementation
	since   int64        // unix nano when it started (atomic)
}

func (w *worker) stat(f string) *famStat {
	s := w.fam[f]
	if s == nil {
		s = &famStat{}
		w.fam[f] = s
	}
	return s
}

func (w *worker) merge() {
	w.col.mu.Lock()
	defer w.col.mu.Unlock()
	for f, s := range w.fam {
		t := w.col.fam[f]
		if t == nil {
			t = &famStat{}
			w.col.fam[f] = t
		}
		t.evals += s.evals
		t.accept += s.accept
		t.reject += s.reject
		t.executed += s.executed
		t.disagree += s.disagree
	}
	for k := range w.classes {
		w.col.classes[k] = true
	}
}

// eval compares both verdicts for one case. It returns the reference result and
// whether they agree.
func (w *worker) eval(c *Case) (refscript.Result, bool) {
	ref := refVerdict(c)
	w.cur.Store(c)
	atomic.StoreInt64(&w.since, time.Now().UnixNano())
	impl, pan := implVerdict(c)
	atomic.StoreInt64(&w.since, 0)
	s := w.stat(c.Fam)
	s.evals++
	if ref.OK {
		s.accept++
	} else {
		s.reject++
	}
	if ref.Stats.OpsExecuted > 0 {
		s.executed++
	}
	cl := c.Fam + "/" + string(ref.Err)
	if !w.classes[cl] {
		w.classes[cl] = true
	}
	if pan != "" {
		s.disagree++
		w.col.report(c.order, c.Fam+"/"+c.Tag+"/panic-escapes-VerifyTxScript", fmt.Sprintf("%s: VerifyTxScript panicked (%s); reference verdict %s", c.Label, pan, ref.Err), c.toJ(string(ref.Err), "panic: "+pan))
		return ref, false
	}
	if impl == ref.OK {
		return ref, true
	}
	s.disagree++
	if c.Fam == "a" {
		return ref, false // reduced to minimal token sets by the caller
	}
	w.col.report(c.order, disagreementKey(c, ref, impl), disagreementText(c, ref, impl), c.toJ(string(ref.Err), verdictName(impl)))
	return ref, false
}

func verdictName(b bool) string {
	if b {
		return "accepts"
	}
	return "rejects"
}

func disagreementKey(c *Case, ref refscript.Result, impl bool) string {
	return fmt.Sprintf("%s/%s/ref=%s/impl-%s", c.Fam, c.Tag, ref.Err, verdictName(impl))
}

func disagreementText(c *Case, ref refscript.Result, impl bool) string {
	return fmt.Sprintf("%s [flags %s]: script rules say %s, VerifyTxScript %s (scriptSig=%x scriptPubKey=%x witness=%x)",
		c.Label, c.FName, ref.Err, verdictName(impl), trunc(c.Tx.In[c.Idx].Script), trunc(c.Spent[c.Idx].Script), truncW(c.Tx.In[c.Idx].Witness))
}

func trunc(b []byte) []byte {
	if len(b) > 90 {
		return b[:90]
	}
	return b
}

func truncW(w [][]byte) [][]byte {
	var l [][]byte
	for i, e := range w {
		if i >= 6 {
			break
		}
		l = append(l, trunc(e))
	}
	return l
}

// ---------------------------------------------------------------------------
// job pool

type job func(w *worker)

type pool struct {
	done    chan struct{}
	jobs    chan job
	wg      sync.WaitGroup
	workers []*worker
	col     *collector
	run     *ev.Run
}

func newPool(r *ev.Run, col *collector) *pool {
	p := &pool{jobs: make(chan job, 4096), col: col, run: r, done: make(chan struct{})}
	for i := 0; i < runtime.NumCPU(); i++ {
		w := &worker{id: i, col: col, fam: map[string]*famStat{}, classes: map[string]bool{}}
		p.workers = append(p.workers, w)
		p.wg.Add(1)
		go func() {
			defer p.wg.Done()
			for j := range p.jobs {
				j(w)
			}
			w.merge()
		}()
	}
	// hang monitor: an evaluation normally takes microseconds
	go func() {
		for {
			select {
			case <-p.done:
				return
			case <-time.After(2 * time.Second):
			}
			for _, w := range p.workers {
				t := atomic.LoadInt64(&w.since)
				if t != 0 && time.Since(time.Unix(0, t)) > hangLimit {
					c, _ := w.cur.Load().(*Case)
					if c != nil {
						key := c.Fam + "/" + c.Tag + "/no-verdict-within-60s"
						rep := c.toJ("?", "no verdict")
						if confirmHang(rep, key) {
							col.report(0, key, c.Label+": VerifyTxScript did not return within 60 s (confirmed in a fresh process)", rep)
							finish(r, col, false)
						}
						// not reproducible in a fresh process: never a verdict
						atomic.StoreInt64(&w.since, 0)
						r.Unrepro = append(r.Unrepro, key+": no verdict within 60 s in the explorer, but a verdict in a fresh process: "+c.Label)
					}
				}
			}
		}
	}()
	return p
}

func (p *pool) wait() {
	close(p.jobs)
	p.wg.Wait()
	close(p.done)
}

// ---------------------------------------------------------------------------
// common builders

var nextOrder int64

func order() int64 { return atomic.AddInt64(&nextOrder, 1) }

// spendTx: one-input spending transaction in the style of Core's script tests
// (version 2 so that CSV can be satisfied; sequence not final so that CLTV can).
func spendTx(scriptSig []byte, witness [][]byte, pk []byte, amount uint64) (*reftx.Tx, []reftx.Out) {
	credit := refscript.BuildCreditingTx(pk, amount)
	t := &reftx.Tx{Version: 2, LockTime: 0}
	t.In = []reftx.In{{Prev: credit.TxID(), Vout: 0, Script: scriptSig, Sequence: 0xfffffffe, Witness: witness}}
	t.Out = []reftx.Out{{Value: amount, Script: []byte{0x51}}}
	return t, []reftx.Out{{Value: amount, Script: pk}}
}

func pushData(d []byte) []byte { return refhash.PushData(d) }

// minimalPush: the push MINIMALDATA demands for an element.
func minimalPush(d []byte) []byte {
	switch {
	case len(d) == 0:
		return []byte{0x00}
	case len(d) == 1 && d[0] >= 1 && d[0] <= 16:
		return []byte{0x50 + d[0]}
	case len(d) == 1 && d[0] == 0x81:
		return []byte{0x4f}
	}
	return refhash.PushData(d)
}

func cat(parts ...[]byte) []byte {
	var r []byte
	for _, p := range parts {
		r = append(r, p...)
	}
	return r
}

func fill(n int, b byte) []byte {
	r := make([]byte, n)
	for i := range r {
		r[i] = b
	}
	return r
}

func p2shSPK(redeem []byte) []byte {
	h := refhash.Hash160(redeem)
	return cat([]byte{0xa9, 0x14}, h[:], []byte{0x87})
}

func p2wshSPK(ws []byte) []byte {
	h := refhash.Sha256(ws)
	return cat([]byte{0x00, 0x20}, h[:])
}

// ---------------------------------------------------------------------------
// replay

func replay(file string) {
	b, err := os.ReadFile(file)
	if err != nil {
		ev.HarnessError("%v", err)
	}
	var rec struct {
		Key    string `json:"key"`
		Replay caseJ  `json:"replay"`
	}
	if err := json.Unmarshal(b, &rec); err != nil {
		ev.HarnessError("%v", err)
	}
	j := rec.Replay
	t, n, err := reftx.DecodeTx(j.Tx)
	if err != nil || n != len(j.Tx) {
		ev.HarnessError("replay tx does not decode: %v", err)
	}
	c := &Case{Fam: j.Family, Tag: j.Tag, Label: j.Label, Tx: t, Idx: j.Idx, Flags: refscript.Flags(j.Flags)}
	for _, s := range j.Spent {
		c.Spent = append(c.Spent, reftx.Out{Value: s.Value, Script: s.Script})
	}
	ref := refVerdict(c)
	if v := os.Getenv("C01_HANG_LIMIT"); v != "" {
		if d, err := time.ParseDuration(v); err == nil {
			hangLimit = d
		}
	}
	done := make(chan struct{})
	var impl bool
	var pan string
	go func() {
		if len(j.SharedOrder) > 0 {
			g := implTx(c)
			for k, idx := range j.SharedOrder {
				impl, pan = implVerifyOn(g, c, idx)
				fmt.Fprintf(ev.Out, "  step %d on the shared object: input %d -> %s %s\n", k, idx, verdictName(impl), pan)
			}
			f, _ := implVerdict(c)
			fmt.Fprintf(ev.Out, "  on a fresh object: input %d -> %s\n", c.Idx, verdictName(f))
		} else {
			impl, pan = implVerdict(c)
		}
		close(done)
	}()
	select {
	case <-done:
	case <-time.After(hangLimit):
		fmt.Fprintf(ev.Out, "replay: VerifyTxScript did not return within %v\n", hangLimit)
		os.Exit(1)
	}
	fmt.Fprintf(ev.Out, "replay %s\n  flags=%s\n  scriptSig=%x\n  scriptPubKey=%x\n  witness=%x\n  amount=%d input=%d\n  tx=%x\n  script rules: %s\n  VerifyTxScript: %s %s\n",
		j.Label, flagNames(c.Flags), t.In[c.Idx].Script, c.Spent[c.Idx].Script, t.In[c.Idx].Witness, c.Spent[c.Idx].Value, c.Idx, []byte(j.Tx), ref.Err, verdictName(impl), pan)
	if pan != "" || impl != ref.OK {
		fmt.Fprintln(ev.Out, "replay: still disagrees")
		os.Exit(1)
	}
	fmt.Fprintln(ev.Out, "replay: verdicts agree")
	os.Exit(0)
}

// ---------------------------------------------------------------------------

var (
	conf      *refscript.Conformance
	startedAt time.Time
	famTimes  sync.Map
	finishMu  sync.Mutex
)

func want(f string) bool {
	if *onlyFam == "" {
		return true
	}
	for _, x := range strings.Split(*onlyFam, ",") {
		if x == f {
			return true
		}
	}
	return false
}

func finish(r *ev.Run, col *collector, complete bool) {
	finishMu.Lock() // never released: Finish exits
	col.mu.Lock()
	reduceFamilyA(col)
	keys := make([]string, 0, len(col.viol))
	for k := range col.viol {
		keys = append(keys, k)
	}
	sort.Strings(keys)
	for _, k := range keys {
		r.Report(k, col.viol[k].what, col.viol[k].rep)
	}
	per := map[string]interface{}{}
	var evals, nontrivialFamilies int64
	for f, s := range col.fam {
		per[f] = map[string]int64{"evaluations": s.evals, "reference_accepts": s.accept, "reference_rejects": s.reject, "executed_at_least_one_opcode": s.executed, "disagreements": s.disagree}
		evals += s.evals
		if s.accept > 0 && s.reject > 0 && s.executed > 0 {
			nontrivialFamilies++
		}
	}
	var cls []string
	for k := range col.classes {
		cls = append(cls, k)
	}
	sort.Strings(cls)
	var samples []interface{}
	var sf []string
	for f := range col.samples {
		sf = append(sf, f)
	}
	sort.Strings(sf)
	for _, f := range sf {
		samples = append(samples, col.samples[f]...)
	}
	times := map[string]float64{}
	famTimes.Range(func(k, v interface{}) bool { times[k.(string)] = v.(float64); return true })
	cov := map[string]interface{}{
		"evaluations":                   evals,
		"per_family":                    per,
		"families_with_both_verdicts":   nontrivialFamilies,
		"distinct_nontrivial":           len(cls),
		"distinct_outcome_classes":      cls,
		"rule":                          "distinct (family, reference verdict/reason) combinations observed; a family counts as non-trivial when the reference both accepts and rejects members and members execute >= 1 opcode",
		"samples":                       samples,
		"seconds_per_family":            times,
		"reference_vectors_validated":   map[string]int{"script_tests.json": conf.ScriptRows, "script_tests_reason_matches": conf.ErrorNameMatches, "tx_valid.json": conf.TxValidRows, "tx_invalid.json": conf.TxInvalidRows},
		"traces_validated_against_impl": conf.ScriptRows + conf.TxValidRows + conf.TxInvalidRows,
	}
	if !complete {
		cov["exhaustive"] = false
	}
	r.Finish(cov, []string{
		"refscript (transcribed from Bitcoin Core's interpreter.cpp semantics and BIP141/143/341/342) is the oracle; it agrees with every row of script_tests.json (verdict and Core's error name), tx_valid.json and tx_invalid.json",
		"taproot/tapscript have no vector file on disk: the reference follows the BIP341/342 texts; signatures come from refsig (BIP340 / RFC6979), digests from refhash",
		"flag sets are restricted to consistent ones (CLEANSTACK implies P2SH and WITNESS, WITNESS implies P2SH); VerifyTxScript panics by design otherwise",
		"small-scope claim only: the program space is unbounded; lengths, alphabets and boundary values are those listed per family",
	})
}

func main() {
	r := ev.Start("C01", "exploration")
	if dn, err := os.OpenFile("/dev/null", os.O_WRONLY, 0); err == nil {
		os.Stdout = dn
	}
	script.DBG_ERR = false
	script.DBG_SCR = false
	debug.SetGCPercent(200)
	startedAt = time.Now()

	if _, err := refhash.SelfCheck(ev.Repo()); err != nil {
		ev.HarnessError("refhash fails its own vectors: %v", err)
	}
	if _, err := refsecp.SelfCheck(); err != nil {
		ev.HarnessError("refsecp self-check: %v", err)
	}
	if err := refscript.EcSelfCheck(); err != nil {
		ev.HarnessError("refscript fixed-base multiplication: %v", err)
	}
	var err error
	conf, err = refscript.SelfCheck(ev.Repo())
	if err != nil {
		ev.HarnessError("refscript fails the repository's vector files: %v", err)
	}
	if *replayFile != "" {
		replay(*replayFile)
		return
	}
	if r.Thorough() {
		r.Budget = 26 * time.Minute
	} else {
		r.Budget = 170 * time.Second
	}
	col := newCollector()
	initKeys()
	if err := tapscriptSanity(); err != nil {
		ev.HarnessError("reference refuses a correct tapscript spend built from the BIP text: %v", err)
	}
	type fam struct {
		name string
		gen  func(r *ev.Run, p *pool)
	}
	fams := []fam{
		{"b", famB}, {"c", famC}, {"d", famD}, {"e", famE}, {"f", famF}, {"g", famG}, {"h", famH}, {"der", famDER}, {"fad", famFAD}, {"pre", famPre}, {"wgt", famWgt}, {"obj", famObj}, {"a", famA},
	}
	for _, f := range fams {
		if !want(f.name) {
			continue
		}
		t0 := time.Now()
		p := newPool(r, col)
		f.gen(r, p)
		p.wait()
		famTimes.Store(f.name, float64(int(time.Since(t0).Seconds()*10))/10)
		fmt.Fprintf(os.Stderr, "family %s done in %.1fs\n", f.name, time.Since(t0).Seconds())
	}
	finish(r, col, true)
}
