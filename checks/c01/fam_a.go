package main

import (
	"crypto/sha256"
	"fmt"
	"sort"
	"strings"

	"verif/internal/ev"
	"verif/ref/refhash"
	"verif/ref/refscript"
	"verif/ref/reftx"
)

// Family (a): all programs of <= N tokens over an alphabet, each run in five
// contexts (bare, P2SH, P2WSH, P2SH-P2WSH, tapscript leaf) with every initial
// stack of <= 2 (length 3+: <= 1) elements over 6 boundary elements.

const (
	symNone = iota
	symSig
	symBadSig
	symPub
	symPubHybrid
	symPubX
)

type tok struct {
	name  string
	raw   []byte
	sym   int
	sigop bool
}

func op(name string, b byte) tok { return tok{name: name, raw: []byte{b}} }

func alphabet() []tok {
	blob := func(n int) []byte { return fill(n, 0x5a) }
	l := []tok{
		{name: "0", raw: []byte{0x00}}, {name: "1", raw: []byte{0x51}}, {name: "16", raw: []byte{0x60}}, {name: "-1", raw: []byte{0x4f}},
		{name: "push(00)", raw: []byte{1, 0x00}}, {name: "push(80)", raw: []byte{1, 0x80}}, {name: "push(01)", raw: []byte{1, 0x01}},
		{name: "push(81)", raw: []byte{1, 0x81}}, {name: "push(ff)", raw: []byte{1, 0xff}}, {name: "push(ff00)", raw: []byte{2, 0xff, 0x00}},
		{name: "push(0100)", raw: []byte{2, 0x01, 0x00}}, {name: "push(ffffff7f)", raw: []byte{4, 0xff, 0xff, 0xff, 0x7f}},
		{name: "push(0000008000)", raw: []byte{5, 0, 0, 0, 0x80, 0}},
		{name: "blob75", raw: cat([]byte{75}, blob(75))}, {name: "blob75/pd1", raw: cat([]byte{0x4c, 75}, blob(75))},
		{name: "blob76/pd1", raw: cat([]byte{0x4c, 76}, blob(76))}, {name: "blob255/pd1", raw: cat([]byte{0x4c, 255}, blob(255))},
		{name: "blob256/pd2", raw: cat([]byte{0x4d, 0, 1}, blob(256))}, {name: "blob520/pd2", raw: cat([]byte{0x4d, 0x08, 0x02}, blob(520))},
		{name: "blob521/pd2", raw: cat([]byte{0x4d, 0x09, 0x02}, blob(521))},
		{name: "pd1(07)", raw: []byte{0x4c, 1, 7}}, {name: "pd2(07)", raw: []byte{0x4d, 1, 0, 7}}, {name: "pd4(07)", raw: []byte{0x4e, 1, 0, 0, 0, 7}},
		{name: "trunc-direct", raw: []byte{2, 0xaa}}, {name: "trunc-pd1", raw: []byte{0x4c}}, {name: "trunc-pd2", raw: []byte{0x4d, 1}},
		{name: "trunc-pd4", raw: []byte{0x4e, 0xff, 0xff, 0xff, 0xff}},
		op("IF", 0x63), op("NOTIF", 0x64), op("ELSE", 0x67), op("ENDIF", 0x68), op("VERIFY", 0x69), op("RETURN", 0x6a),
		op("TOALTSTACK", 0x6b), op("FROMALTSTACK", 0x6c), op("2DUP", 0x6e), op("IFDUP", 0x73), op("DEPTH", 0x74), op("DROP", 0x75),
		op("DUP", 0x76), op("PICK", 0x79), op("ROLL", 0x7a), op("SWAP", 0x7c), op("SIZE", 0x82),
		op("EQUAL", 0x87), op("EQUALVERIFY", 0x88),
		op("1ADD", 0x8b), op("NEGATE", 0x8f), op("NOT", 0x91), op("ADD", 0x93), op("NUMEQUAL", 0x9c), op("LESSTHAN", 0x9f), op("WITHIN", 0xa5),
		op("SHA256", 0xa8), op("HASH160", 0xa9), op("CODESEPARATOR", 0xab),
		{name: "CHECKSIG", raw: []byte{0xac}, sigop: true}, {name: "CHECKSIGVERIFY", raw: []byte{0xad}, sigop: true},
		{name: "CHECKMULTISIG", raw: []byte{0xae}, sigop: true}, {name: "CHECKSIGADD", raw: []byte{0xba}, sigop: true},
		op("CLTV", 0xb1), op("CSV", 0xb2),
		op("RESERVED", 0x50), op("VER", 0x62), op("VERIF", 0x65), op("RESERVED1", 0x89), op("CAT", 0x7e), op("MUL", 0x95),
		op("NOP", 0x61), op("NOP1", 0xb0), op("OP_SUCCESS187", 0xbb), op("INVALIDOPCODE", 0xff),
		{name: "SIG", sym: symSig}, {name: "BADSIG", sym: symBadSig}, {name: "PUB", sym: symPub}, {name: "PUBHYBRID", sym: symPubHybrid}, {name: "PUBX", sym: symPubX},
	}
	return l
}

func reducedAlphabet(full []tok) []tok {
	wantNames := []string{"0", "1", "-1", "push(0100)", "IF", "NOTIF", "ELSE", "ENDIF", "VERIFY", "DUP", "DROP", "TOALTSTACK", "FROMALTSTACK", "DEPTH", "ADD", "EQUAL", "CHECKSIG", "CHECKSIGADD", "CODESEPARATOR", "PUB", "SIG"}
	var l []tok
	for _, n := range wantNames {
		found := false
		for _, t := range full {
			if t.name == n {
				l = append(l, t)
				found = true
			}
		}
		if !found {
			ev.HarnessError("token %s missing", n)
		}
	}
	return l
}

// stack element alphabet
func stackElems() []tok {
	return []tok{
		{name: "{}", raw: []byte{}}, {name: "{01}", raw: []byte{1}}, {name: "{80}", raw: []byte{0x80}}, {name: "{0100}", raw: []byte{1, 0}},
		{name: "SIG", sym: symSig}, {name: "PUB", sym: symPub},
	}
}

var ctxNames = []string{"bare", "p2sh", "p2wsh", "p2sh-p2wsh", "tapscript"}

var (
	dummyDigest = sha256.Sum256([]byte("verif C01: format-only signature"))
)

type prepared struct {
	P       []byte // program bytes
	sig     []byte // what SIG stands for in this (program, context)
	tap     *tapLeaf
	invalid bool // context cannot be built (e.g. no taproot output key)
}

func hasSym(l []tok, syms ...int) bool {
	for _, t := range l {
		for _, s := range syms {
			if t.sym == s {
				return true
			}
		}
	}
	return false
}

// symBytes: what a symbolic token stands for. onStack selects the natural public
// key form of the context for the stack element PUB.
func symBytes(t tok, ctx int, sig []byte, onStack bool) []byte {
	tapscript := ctx == 4
	switch t.sym {
	case symSig:
		return sig
	case symBadSig:
		if tapscript {
			return schnorrSig(0, badDigest)
		}
		return ecdsaSig(0, badDigest, 1)
	case symPub:
		if tapscript && onStack {
			return keys[0].xonly
		}
		return keys[0].pub
	case symPubHybrid:
		return keys[0].pubH
	case symPubX:
		return keys[0].xonly
	}
	return nil
}

func assemble(prog []tok, ctx int, sig []byte, omitSig bool) []byte {
	var b []byte
	for _, t := range prog {
		if t.sym == symNone {
			b = append(b, t.raw...)
			continue
		}
		if t.sym == symSig && omitSig {
			continue
		}
		b = append(b, pushData(symBytes(t, ctx, sig, false))...)
	}
	return b
}

var fixedPrev = func() (h [32]byte) {
	for i := range h {
		h[i] = byte(0xc1 + i)
	}
	return
}()

// txFor builds the spending transaction with a fixed previous outpoint (so that the
// digest does not depend on the spent script's bytes through the txid).
func txFor(scriptSig []byte, witness [][]byte, pk []byte, amount uint64) (*reftx.Tx, []reftx.Out) {
	t := &reftx.Tx{Version: 2, LockTime: 0}
	t.In = []reftx.In{{Prev: fixedPrev, Vout: 1, Script: scriptSig, Sequence: 0xfffffffe, Witness: witness}}
	t.Out = []reftx.Out{{Value: amount, Script: []byte{0x51}}}
	return t, []reftx.Out{{Value: amount, Script: pk}}
}

const aAmount = 12345

// prepare computes the program bytes and the signature SIG stands for.
func prepare(prog []tok, ctx int, needReal bool) *prepared {
	p := &prepared{}
	tapscript := ctx == 4
	if !needReal {
		if tapscript {
			p.sig = schnorrSig(0, dummyDigest)
		} else {
			p.sig = ecdsaSig(0, dummyDigest, 1)
		}
		p.P = assemble(prog, ctx, p.sig, false)
	} else {
		// script code as the interpreter will see it when SIG sits on the stack (or, in
		// legacy contexts, after FindAndDelete removed its pushes from the program)
		p0 := assemble(prog, ctx, nil, true)
		var d [32]byte
		switch ctx {
		case 0, 1:
			t, _ := txFor(nil, nil, nil, aAmount)
			d = refhash.Legacy(t, p0, 0, 1)
			p.sig = ecdsaSig(0, d, 1)
		case 2, 3:
			t, _ := txFor(nil, nil, nil, aAmount)
			d = refhash.BIP143(t, p0, aAmount, 0, 1)
			p.sig = ecdsaSig(0, d, 1)
		case 4:
			tl, ok := buildTap(p0, 0xc0, keys[1].xonly, nil)
			if !ok {
				p.invalid = true
				return p
			}
			t, sp := txFor(nil, nil, tl.spk, aAmount)
			dd, _ := refhash.Taproot(t, sp, 0, 0, nil, &refhash.TapExt{LeafHash: tl.leafHash, CodeSepPos: 0xffffffff})
			p.sig = schnorrSig(0, dd)
		}
		p.P = assemble(prog, ctx, p.sig, false)
	}
	if tapscript {
		tl, ok := buildTap(p.P, 0xc0, keys[1].xonly, nil)
		if !ok {
			p.invalid = true
			return p
		}
		p.tap = tl
	}
	return p
}

// buildCtx wraps program P and the initial stack into a context.
func buildCtx(p *prepared, ctx int, stack [][]byte) (*reftx.Tx, []reftx.Out) {
	switch ctx {
	case 0:
		var ss []byte
		for _, e := range stack {
			ss = append(ss, minimalPush(e)...)
		}
		return txFor(ss, nil, p.P, aAmount)
	case 1:
		var ss []byte
		for _, e := range stack {
			ss = append(ss, minimalPush(e)...)
		}
		ss = append(ss, minimalPush(p.P)...)
		return txFor(ss, nil, p2shSPK(p.P), aAmount)
	case 2:
		w := append(append([][]byte{}, stack...), p.P)
		return txFor(nil, w, p2wshSPK(p.P), aAmount)
	case 3:
		w := append(append([][]byte{}, stack...), p.P)
		redeem := p2wshSPK(p.P)
		return txFor(pushData(redeem), w, p2shSPK(redeem), aAmount)
	}
	w := append(append([][]byte{}, stack...), p.P, p.tap.control)
	return txFor(nil, w, p.tap.spk, aAmount)
}

type aDisagreement struct {
	order  int64
	tokens []string // program tokens then "stack:<elem>" entries
	ctx    string
	flag   string
	refErr string
	impl   string
	rep    caseJ
	label  string
}

func enumStacks(maxLen int) [][]tok {
	el := stackElems()
	l := [][]tok{{}}
	if maxLen >= 1 {
		for _, a := range el {
			l = append(l, []tok{a})
		}
	}
	if maxLen >= 2 {
		for _, a := range el {
			for _, b := range el {
				l = append(l, []tok{a, b})
			}
		}
	}
	return l
}

func famA(r *ev.Run, p *pool) {
	full := alphabet()
	red := reducedAlphabet(full)
	flagsQuick := []flagSet{{"blk-taproot", fBlkTaproot}, {"std", fStd}, {"witness-only", fWitOnly}}
	flags2 := flagsQuick[:2]
	var progIdx int64
	submit := func(prog []tok, stacks [][]tok, fls []flagSet) {
		progIdx++
		pi := progIdx
		pr := append([]tok{}, prog...)
		p.jobs <- func(w *worker) { runProgram(w, pi, pr, stacks, fls) }
	}
	stacks2 := enumStacks(2)
	stacks1 := enumStacks(1)
	var rec func(alpha []tok, prog []tok, n int, stacks [][]tok, fls []flagSet)
	rec = func(alpha []tok, prog []tok, n int, stacks [][]tok, fls []flagSet) {
		if len(prog) == n {
			if !r.OverBudget() {
				submit(prog, stacks, fls)
			}
			return
		}
		for _, t := range alpha {
			rec(alpha, append(prog, t), n, stacks, fls)
		}
	}
	// simplest first: by length
	rec(full, nil, 0, stacks2, flagsQuick)
	rec(full, nil, 1, stacks2, flagsQuick)
	rec(full, nil, 2, stacks2, flagsQuick)
	lens := map[string]interface{}{"alphabet": len(full), "max_len_full_alphabet": 2}
	if r.Thorough() {
		rec(full, nil, 3, stacks1, flags2)
		rec(red, nil, 4, stacks1, flags2)
		lens["max_len_full_alphabet"] = 3
		lens["reduced_alphabet"] = len(red)
		lens["max_len_reduced_alphabet"] = 4
	}
	lens["programs"] = progIdx
	lens["contexts"] = ctxNames
	lens["family"] = "a"
	p.col.mu.Lock()
	p.col.samples["a"] = append(p.col.samples["a"], lens)
	p.col.mu.Unlock()
}

func names(l []tok) []string {
	var s []string
	for _, t := range l {
		s = append(s, t.name)
	}
	return s
}

func runProgram(w *worker, pi int64, prog []tok, stacks [][]tok, fls []flagSet) {
	progSigop := false
	for _, t := range prog {
		if t.sigop {
			progSigop = true
		}
	}
	progPub := hasSym(prog, symPub, symPubHybrid, symPubX)
	progSig := hasSym(prog, symSig)
	for ctx := 0; ctx < 5; ctx++ {
		var prepReal, prepDummy *prepared
		for si, st := range stacks {
			needReal := progSigop && (progPub || hasSym(st, symPub)) && (progSig || hasSym(st, symSig))
			var pp *prepared
			if needReal {
				if prepReal == nil {
					prepReal = prepare(prog, ctx, true)
				}
				pp = prepReal
			} else {
				if prepDummy == nil {
					prepDummy = prepare(prog, ctx, false)
				}
				pp = prepDummy
			}
			if pp.invalid {
				continue
			}
			var elems [][]byte
			for _, e := range st {
				if e.sym == symNone {
					elems = append(elems, e.raw)
				} else {
					elems = append(elems, symBytes(e, ctx, pp.sig, true))
				}
			}
			tx, sp := buildCtx(pp, ctx, elems)
			for fi, fl := range fls {
				c := &Case{Fam: "a", Tx: tx, Idx: 0, Spent: sp, Flags: fl.f, FName: fl.name, order: pi*1000000 + int64(si)*100 + int64(ctx)*10 + int64(fi)}
				ref, agree := w.eval(c)
				if agree {
					if pi%5003 == 7 && si == 1 && fi == 0 {
						w.col.mu.Lock()
						if len(w.col.samples["a-cases"]) < 4 {
							w.col.samples["a-cases"] = append(w.col.samples["a-cases"], map[string]interface{}{"family": "a", "program": names(prog), "stack": names(st), "context": ctxNames[ctx], "flags": fl.name, "verdict": string(ref.Err)})
						}
						w.col.mu.Unlock()
					}
					continue
				}
				impl, pan := implVerdict(c)
				if pan != "" {
					continue // already reported as a panic
				}
				toks := append([]string{}, names(prog)...)
				for _, e := range st {
					toks = append(toks, "stack:"+e.name)
				}
				c.Label = fmt.Sprintf("program [%s] stack [%s] in context %s", strings.Join(names(prog), " "), strings.Join(names(st), " "), ctxNames[ctx])
				c.Tag = "tokens=" + strings.Join(toks, "+")
				d := aDisagreement{order: c.order, tokens: toks, ctx: ctxNames[ctx], flag: fl.name, refErr: string(ref.Err), impl: verdictName(impl), rep: c.toJ(string(ref.Err), verdictName(impl)), label: c.Label}
				w.col.mu.Lock()
				if len(w.col.aDis) < 200000 {
					w.col.aDis = append(w.col.aDis, d)
				}
				w.col.mu.Unlock()
			}
		}
	}
}

// reduceFamilyA turns the raw list of family (a) disagreements into violations keyed
// by MINIMAL token sets: a failing (program + stack) multiset is reported only if
// no sub-multiset fails with the same reference reason and implementation verdict.
// Called with col.mu held.
func reduceFamilyA(col *collector) {
	if len(col.aDis) == 0 {
		return
	}
	type group struct {
		toks   []string // sorted multiset
		sig    string
		first  aDisagreement
		ctxs   map[string]bool
		flags  map[string]bool
		count  int
		nToks  int
		refErr string
		impl   string
	}
	groups := map[string]*group{}
	for _, d := range col.aDis {
		ts := append([]string{}, d.tokens...)
		sort.Strings(ts)
		k := strings.Join(ts, "+") + "|" + d.refErr + "|" + d.impl
		g := groups[k]
		if g == nil {
			g = &group{toks: ts, sig: k, first: d, ctxs: map[string]bool{}, flags: map[string]bool{}, nToks: len(ts), refErr: d.refErr, impl: d.impl}
			groups[k] = g
		}
		if d.order < g.first.order {
			g.first = d
		}
		g.ctxs[d.ctx] = true
		g.flags[d.flag] = true
		g.count++
	}
	var gl []*group
	for _, g := range groups {
		gl = append(gl, g)
	}
	sort.Slice(gl, func(i, j int) bool {
		if gl[i].nToks != gl[j].nToks {
			return gl[i].nToks < gl[j].nToks
		}
		return gl[i].first.order < gl[j].first.order
	})
	subMultiset := func(a, b []string) bool { // a ⊆ b, both sorted
		i := 0
		for _, x := range b {
			if i < len(a) && a[i] == x {
				i++
			}
		}
		return i == len(a)
	}
	var kept []*group
	for _, g := range gl {
		dominated := false
		for _, h := range kept {
			if h.refErr == g.refErr && h.impl == g.impl && subMultiset(h.toks, g.toks) {
				dominated = true
				break
			}
		}
		if dominated {
			continue
		}
		kept = append(kept, g)
		keyOf := func(m map[string]bool) string {
			var l []string
			for k := range m {
				l = append(l, k)
			}
			sort.Strings(l)
			return strings.Join(l, ",")
		}
		key := fmt.Sprintf("a/tokens=%s/ref=%s/impl-%s", strings.Join(g.first.tokens, "+"), g.refErr, g.impl)
		what := fmt.Sprintf("%s [flags %s]: script rules say %s, VerifyTxScript %s; minimal failing token set (fails in contexts %s; flag sets %s; %d members of the family contain it)",
			g.first.label, g.first.flag, g.refErr, g.impl, keyOf(g.ctxs), keyOf(g.flags), g.count)
		if p, ok := col.viol[key]; !ok || p.order > g.first.order {
			col.viol[key] = &pending{g.first.order, what, g.first.rep}
		}
	}
}

var _ = refscript.OK
