// C17: per-address balances (client/wallet) equal the projection of the UTXO set.
//
// Explicit-state exploration. A state is the shortest event history that reaches
// it; every history is executed in a FRESH worker process of this binary
// (client/wallet and client/common keep process-global state) on a copy of a
// pre-built 105-block chain directory. The UTXO callbacks are installed by the
// wallet's own code (wallet.LoadBalancesFromUtxo / wallet.Disable /
// wallet.LoadBalances), exactly as the client does. After every event the
// wallet's answers (GetAllUnspent for every address of the alphabet, Browse
// records with Count/Value) are compared with the projection of the decoded
// UnspentDB.HashMap (value >= minimum, script == address script), computed by the
// harness with its own script classifier.
package main

import (
	"bytes"
	"crypto/sha256"
	"encoding/hex"
	"encoding/json"
	"flag"
	"fmt"
	"os"
	"os/exec"
	"reflect"
	"runtime"
	"runtime/debug"
	"runtime/pprof"
	"sort"
	"strings"
	"sync"
	"sync/atomic"
	"time"

	"github.com/piotrnar/gocoin/client/common"
	"github.com/piotrnar/gocoin/client/wallet"
	"github.com/piotrnar/gocoin/lib/btc"
	"github.com/piotrnar/gocoin/lib/secp256k1"
	"github.com/piotrnar/gocoin/lib/utxo"

	"verif/internal/ev"
	"verif/internal/minichain"
	"verif/ref/refchain"
	"verif/ref/reftx"
)

const (
	minVal      = 1000 // CFG.AllBalances.MinValue
	useMapCnt   = 3    // CFG.AllBalances.UseMapCnt: list -> map when the 3rd output arrives
	prefixLen   = 105
	nFunding    = 96
	fundPerStep = 8
	watchdog    = 120 * time.Second
)

var params = func() refchain.Params {
	p := refchain.DefaultParams()
	// scripts are not what C17 judges: the reference accepts every spend; that the
	// blocks are really valid is established by gocoin accepting them (untrusted,
	// scripts verified) - a refused block is a harness error.
	p.Verify = func(*reftx.Tx, int, []refchain.Coin, refchain.Flags) bool { return true }
	return p
}()

// ---------------------------------------------------------------- alphabet

type addrDef struct {
	Name   string
	Script []byte
	Type   int // wallet.IDX_*; -1 non standard
	Addr   func() *btc.BtcAddr
	Twin   bool // near-miss twin of another entry: only ever a static background output and a query, never a focus
}

func key(n int) []byte {
	h := sha256.Sum256([]byte(fmt.Sprint("verif-c17-key-", n)))
	return h[:]
}

var (
	privKH, privWKH, privTR = key(1), key(1), key(3) // P2PKH and P2WPKH share one key hash on purpose
	pubKH, pubWKH, pubTR    []byte
	addrs                   []addrDef
)

func h160(b []byte) []byte { h := btc.Rimp160AfterSha256(b); return h[:] }

func initAlphabet() {
	btc.EcdsaSignWithRFC6979 = true // deterministic signatures => deterministic txids
	pubKH = btc.PublicFromPrivate(privKH, true)
	pubWKH = btc.PublicFromPrivate(privWKH, true)
	pubTR = btc.PublicFromPrivate(privTR, true)
	cat := func(p ...[]byte) []byte { return bytes.Join(p, nil) }
	kh := h160(pubKH)
	sh := h160([]byte{0x51})
	wkh := h160(pubWKH)
	wshA := sha256.Sum256([]byte{0x51})
	wsh := wshA[:]
	tr := pubTR[1:33]
	legacy := func(ver byte, h []byte) func() *btc.BtcAddr {
		return func() *btc.BtcAddr {
			a := &btc.BtcAddr{Version: ver}
			copy(a.Hash160[:], h)
			return a
		}
	}
	sw := func(ver int, prog []byte) func() *btc.BtcAddr {
		return func() *btc.BtcAddr {
			return &btc.BtcAddr{SegwitProg: &btc.SegwitProg{HRP: "bc", Version: ver, Program: append([]byte{}, prog...)}}
		}
	}
	addrs = []addrDef{
		{"P2PKH", cat([]byte{0x76, 0xa9, 0x14}, kh, []byte{0x88, 0xac}), wallet.IDX_P2KH, legacy(0, kh), false},
		{"P2SH", cat([]byte{0xa9, 0x14}, sh, []byte{0x87}), wallet.IDX_P2SH, legacy(5, sh), false},
		{"P2WPKH", cat([]byte{0x00, 0x14}, wkh), wallet.IDX_P2WKH, sw(0, wkh), false},
		{"P2WSH", cat([]byte{0x00, 0x20}, wsh), wallet.IDX_P2WSH, sw(0, wsh), false},
		{"P2TR", cat([]byte{0x51, 0x20}, tr), wallet.IDX_P2TAP, sw(1, tr), false},
		// non-standard: starts like a P2TR program but is a plain (anyone-can-spend) script
		{"NONSTD", cat([]byte{0x51, 0x20}, tr, []byte{0x75, 0x51}), -1, nil, false},
	}
	// near-miss twins (background outputs in prefix block 103 and queries of every oracle
	// evaluation): witness programs that share their first 20 bytes with the P2WSH / P2TR entry
	// and differ only after them - two different addresses whose outputs must never be mixed -
	// and 25 / 23-byte scripts that differ from the P2PKH / P2SH entry in one opcode only, which
	// pay to no address
	ee := bytes.Repeat([]byte{0xee}, 12)
	wsh2, tr2 := cat(wsh[:20], ee), cat(tr[:20], ee)
	addrs = append(addrs,
		addrDef{"P2WSH-twin-same-first-20-bytes", cat([]byte{0x00, 0x20}, wsh2), wallet.IDX_P2WSH, sw(0, wsh2), true},
		addrDef{"P2TR-twin-same-first-20-bytes", cat([]byte{0x51, 0x20}, tr2), wallet.IDX_P2TAP, sw(1, tr2), true},
		addrDef{"P2PKH-lookalike-op-equal", cat([]byte{0x76, 0xa9, 0x14}, kh, []byte{0x87, 0xac}), -1, nil, true},
		addrDef{"P2PKH-lookalike-op-nop", cat([]byte{0x76, 0xa9, 0x14}, kh, []byte{0x61, 0xac}), -1, nil, true},
		addrDef{"P2SH-lookalike-op-equalverify", cat([]byte{0xa9, 0x14}, sh, []byte{0x88}), -1, nil, true},
	)
}

// classify is the harness's own script classifier (independent of lib/script).
func classify(s []byte) int {
	switch {
	case len(s) == 25 && s[0] == 0x76 && s[1] == 0xa9 && s[2] == 0x14 && s[23] == 0x88 && s[24] == 0xac:
		return wallet.IDX_P2KH
	case len(s) == 23 && s[0] == 0xa9 && s[1] == 0x14 && s[22] == 0x87:
		return wallet.IDX_P2SH
	case len(s) == 22 && s[0] == 0x00 && s[1] == 0x14:
		return wallet.IDX_P2WKH
	case len(s) == 34 && s[0] == 0x00 && s[1] == 0x20:
		return wallet.IDX_P2WSH
	case len(s) == 34 && s[0] == 0x51 && s[1] == 0x20:
		return wallet.IDX_P2TAP
	}
	return -1
}

// ---------------------------------------------------------------- prefix

type prefixFile struct {
	Blocks  []string `json:"blocks"`
	Funding []string `json:"funding"` // "txid:vout"
}

func op(tx [32]byte, v uint32) refchain.Outpoint { return refchain.Outpoint{Tx: tx, Vout: v} }
func o1(v uint64) reftx.Out                      { return reftx.Out{Value: v, Script: []byte{0x51}} }

// buildPrefix builds the 105-block chain all histories of one focus start from.
// Blocks 102/103 hold the funding transactions (anyone-can-spend outputs the
// events spend); block 103 also pays two outputs (6000+i, 7000+i) to every address
// of the alphabet EXCEPT the focus: a static background that every oracle
// evaluation re-checks while the focus record changes (cross-talk between types;
// P2PKH and P2WPKH deliberately share one key hash). Block 103 is never undone.
func buildPrefix(focus int) string {
	dir := ev.Scratch("c17-prefix")
	e := minichain.Open(dir+"/chain", &minichain.Opts{Params: params})
	prev := minichain.GenesisHash
	var pf prefixFile
	cb := make([]refchain.Outpoint, prefixLen+1)
	for h := uint32(1); h <= prefixLen; h++ {
		s := minichain.Spec{Prev: prev, Height: h, CbValue: -1}
		if h == 102 || h == 103 {
			var outs []reftx.Out
			for i := 0; i < nFunding/2; i++ {
				outs = append(outs, o1(1e8))
			}
			m := minichain.Spend([]refchain.Outpoint{cb[h-101]}, outs)
			s.Txs = append(s.Txs, m)
			s.Fees = 50e8 - uint64(nFunding/2)*1e8
			for i := range outs {
				pf.Funding = append(pf.Funding, fmt.Sprintf("%x:%d", m.TxID(), i))
			}
		}
		if h == 103 {
			var outs []reftx.Out
			for i, a := range addrs {
				if i != focus {
					outs = append(outs, reftx.Out{Value: uint64(6000 + i), Script: a.Script}, reftx.Out{Value: uint64(7000 + i), Script: a.Script})
				}
			}
			outs = append(outs, o1(49e8))
			s.Txs = append(s.Txs, minichain.Spend([]refchain.Outpoint{cb[3]}, outs))
			s.Fees += 50e8 - 49e8
			for _, o := range outs[:len(outs)-1] {
				s.Fees -= o.Value
			}
		}
		b := minichain.Build(s)
		if r := e.Deliver(b.Bytes()); r != "ok" {
			ev.HarnessError("prefix block %d: %s", h, r)
		}
		cb[h] = op(b.Txs[0].TxID(), 0)
		pf.Blocks = append(pf.Blocks, hex.EncodeToString(b.Bytes()))
		prev = b.Hash()
	}
	e.Close()
	j, _ := json.Marshal(pf)
	if err := os.WriteFile(dir+"/prefix.json", j, 0o644); err != nil {
		ev.HarnessError("%v", err)
	}
	return dir
}

func decodeBlock(raw []byte) *reftx.Block {
	b := &reftx.Block{}
	le32 := func(p []byte) uint32 { return uint32(p[0]) | uint32(p[1])<<8 | uint32(p[2])<<16 | uint32(p[3])<<24 }
	b.Version = le32(raw[0:])
	copy(b.Prev[:], raw[4:36])
	copy(b.Merkle[:], raw[36:68])
	b.Time, b.Bits, b.Nonce = le32(raw[68:]), le32(raw[72:]), le32(raw[76:])
	n := int(raw[80]) // prefix blocks hold < 253 transactions
	p := 81
	for i := 0; i < n; i++ {
		t, used, err := reftx.DecodeTx(raw[p:])
		if err != nil {
			panic("prefix block does not decode: " + err.Error())
		}
		b.Txs = append(b.Txs, t)
		p += used
	}
	if p != len(raw) || b.Hash() != reftx.DSha(raw[:80]) {
		panic("prefix block decode mismatch")
	}
	return b
}

// ---------------------------------------------------------------- worker protocol

type Job struct {
	Dir    string   `json:"dir"` // scratch directory of this history (created and removed by the parent)
	Prefix string   `json:"prefix"`
	Focus  int      `json:"focus"`
	Events []string `json:"events"`
	Menu   []string `json:"menu"`   // event alphabet of this exploration (empty: allEvents)
	Resume bool     `json:"resume"` // second process of a history with a restart: state is in Dir/resume.json
}

// what a worker that ends with a restart event leaves for the process that continues the history
type resumeFile struct {
	Blocks    []string `json:"blocks"` // every block delivered so far, in delivery order
	Pos       int      `json:"pos"`
	CfgMin    uint64   `json:"cfg_min"`
	CfgMap    uint32   `json:"cfg_map"`
	Remaining []string `json:"remaining"`
	Res       Result   `json:"res"`
	Damage    string   `json:"damage"` // "<type>:<how>" of the restart event
}

type Step struct {
	Ev     string `json:"ev"`
	Result string `json:"result,omitempty"`
}

type Result struct {
	Harness  string   `json:"harness,omitempty"` // infrastructure problem, never a verdict
	Key      string   `json:"key,omitempty"`     // violation
	What     string   `json:"what,omitempty"`
	Trace    []Step   `json:"trace,omitempty"`
	StateKey string   `json:"state_key,omitempty"`
	Enabled  []string `json:"enabled,omitempty"`
	Oracles  int      `json:"oracles"` // number of oracle evaluations with the index enabled
	Nontriv  int      `json:"nontriv"` // ... of which the expected projection of the focus address was non-empty
	MapRep   bool     `json:"map_rep"` // the focus record was in map representation at some point
	Restart  bool     `json:"restart"` // the process ended with a restart event: continue in a fresh process
	Reorgs   int      `json:"reorgs"`
}

var allEvents = []string{"pay1", "pay3", "pay2same", "spendOldest", "spendNewest", "spendAll", "spendPay",
	"reorgEmpty", "reorgPay", "reorg2", "disable", "enable", "saveload"}

// Configuration events (the operator edits the configuration while the index is off -
// the documented "wallet off" / change / "wallet on" sequence): setmin:<v> sets
// CFG.AllBalances.MinValue (0; below / at / above the values of existing outputs 999, 1000,
// 100000; the start value 1000), setmap:<v> sets CFG.AllBalances.UseMapCnt. The value in
// force is the one configured when the index was last switched on.
var configEvents = []string{"setmin:0", "setmin:999", "setmin:1000", "setmin:1001", "setmin:100000", "setmin:100001",
	"setmap:1", "setmap:3", "setmap:5"}

// event alphabet of the configuration exploration (thorough tier)
var configMenu = append([]string{"pay1", "pay3", "pay2same", "payzero", "payedge", "spendOldest", "spendNewest", "spendAll", "reorgEmpty", "disable", "enable"}, configEvents...)

// reduced alphabet for the quick tier: pay3 alone creates outputs of 999, 1000 and 150000,
// which the thresholds 0 / 999 / 1000 / 1001 / 100001 all tell apart (the zero-value and
// at-minimum payments payzero / payedge are in the thorough alphabet and in the scripted histories)
var configMenuQuick = []string{"pay3", "spendOldest", "spendAll", "reorgEmpty", "disable", "enable",
	"setmin:0", "setmin:999", "setmin:1000", "setmin:1001", "setmin:100001", "setmap:1", "setmap:3", "setmap:5"}

// ---------------------------------------------------------------- worker

type world struct {
	job     *Job
	dir     string
	e       *minichain.Env
	m       *refchain.Model
	funding []refchain.Outpoint
	X       addrDef
	on      bool
	cfgMin  uint64   // CFG.AllBalances.MinValue as configured now
	effMin  uint64   // the value in force: configured when the index was last switched on
	cfgMap  uint32   // CFG.AllBalances.UseMapCnt as configured now
	blocks  []string // delivered blocks (hex), for a process that continues the history
	closed  bool
	damage  string
	saved   [32]byte // tip at which balances were last saved (LAST_SAVED_FNAME)
	res     *Result
	pos     int // event position (funding allocation, block tags)
	fused   int
}

type harnessErr string

func hfail(f string, a ...interface{}) { panic(harnessErr(fmt.Sprintf(f, a...))) }

type violation struct{ key, what string }

func (w *world) tip() *refchain.Node { return w.m.BestTips()[0] }

func (w *world) fund() refchain.Outpoint {
	i := w.pos*fundPerStep + w.fused
	if w.fused >= fundPerStep || i >= len(w.funding) {
		hfail("funding exhausted at position %d", w.pos)
	}
	w.fused++
	return w.funding[i]
}

type xcoin struct {
	op     refchain.Outpoint
	c      refchain.Coin
	txidx  int
	nouts  int
	height uint32
}

// coinsOf lists the unspent outputs paying to script s in creation order
// (height, tx index, vout), according to the reference UTXO set of the active tip.
func (w *world) coinsOf(s []byte, at *refchain.Node) []xcoin {
	u := w.m.UTXOAt(at)
	path := w.m.Path(at)
	var l []xcoin
	for o, c := range u {
		if !bytes.Equal(c.Script, s) {
			continue
		}
		x := xcoin{op: o, c: c, height: c.Height, txidx: -1}
		b := path[c.Height-1].Block
		for i, t := range b.Txs {
			if t.TxID() == o.Tx {
				x.txidx, x.nouts = i, len(t.Out)
			}
		}
		if x.txidx < 0 {
			hfail("coin not found in its block")
		}
		l = append(l, x)
	}
	sort.Slice(l, func(i, j int) bool {
		a, b := l[i], l[j]
		if a.height != b.height {
			return a.height < b.height
		}
		if a.txidx != b.txidx {
			return a.txidx < b.txidx
		}
		return a.op.Vout < b.op.Vout
	})
	return l
}

// finalize fills scriptSig / witness of every input so that the spend is really valid.
func finalize(t *reftx.Tx, spent []refchain.Coin) {
	needSig := false
	for i, c := range spent {
		s := c.Script
		switch {
		case bytes.Equal(s, addrs[1].Script):
			t.In[i].Script = []byte{0x01, 0x51}
		case bytes.Equal(s, addrs[3].Script):
			t.In[i].Witness = [][]byte{{0x51}}
		case bytes.Equal(s, addrs[0].Script), bytes.Equal(s, addrs[2].Script), bytes.Equal(s, addrs[4].Script):
			needSig = true
		}
	}
	if !needSig {
		return
	}
	// gocoin's own signer is used here: signatures are not what C17 judges, the
	// blocks only have to be valid for the node.
	raw := t.Serialize(true)
	gt, n := btc.NewTx(raw)
	if gt == nil || n != len(raw) {
		hfail("signer: cannot parse own transaction")
	}
	gt.AllocVerVars()
	gt.Spent_outputs = make([]*btc.TxOut, len(spent))
	for i, c := range spent {
		gt.Spent_outputs[i] = &btc.TxOut{Value: c.Value, Pk_script: c.Script}
	}
	if gt.SegWit == nil {
		gt.SegWit = make([][][]byte, len(gt.TxIn))
	}
	for i, c := range spent {
		switch {
		case bytes.Equal(c.Script, addrs[0].Script):
			if err := gt.Sign(i, c.Script, btc.SIGHASH_ALL, pubKH, privKH); err != nil {
				hfail("sign: %v", err)
			}
			t.In[i].Script = gt.TxIn[i].ScriptSig
		case bytes.Equal(c.Script, addrs[2].Script):
			code := bytes.Join([][]byte{{0x76, 0xa9, 0x14}, h160(pubWKH), {0x88, 0xac}}, nil)
			if err := gt.SignWitness(i, code, c.Value, btc.SIGHASH_ALL, pubWKH, privWKH); err != nil {
				hfail("signwitness: %v", err)
			}
			t.In[i].Witness = gt.SegWit[i]
		}
	}
	// taproot key-path signatures last (they commit to nothing in the other witnesses,
	// but to all spent outputs)
	for i, c := range spent {
		if bytes.Equal(c.Script, addrs[4].Script) {
			h := gt.TaprootSigHash(&btc.ScriptExecutionData{}, i, btc.SIGHASH_DEFAULT, false)
			aux := sha256.Sum256(h)
			sig := secp256k1.SchnorrSign(h, privTR, aux[:])
			if len(sig) != 64 {
				hfail("schnorr sign failed")
			}
			t.In[i].Witness = [][]byte{sig}
		}
	}
}

// mkTx builds a finalized transaction spending the given outpoints of the UTXO set u.
func (w *world) mkTx(u refchain.UTXO, ins []refchain.Outpoint, outs []reftx.Out) *reftx.Tx {
	t := minichain.Spend(ins, outs)
	var spent []refchain.Coin
	var sum, osum uint64
	for _, i := range ins {
		c, ok := u[i]
		if !ok {
			hfail("mkTx: input not in reference UTXO")
		}
		spent = append(spent, c)
		sum += c.Value
	}
	for _, o := range outs {
		osum += o.Value
	}
	if osum > sum {
		hfail("mkTx: outputs exceed inputs")
	}
	finalize(t, spent)
	return t
}

func (w *world) step(name, result string) {
	w.res.Trace = append(w.res.Trace, Step{name, result})
}

// deliver offers a block to the node the way minichain does (CheckBlock+AcceptBlock),
// keeps common.Last in step as the client's LocalAcceptBlock does, feeds the
// reference model and runs the oracle.
func (w *world) deliver(name string, b *reftx.Block) {
	w.blocks = append(w.blocks, hex.EncodeToString(b.Bytes()))
	r := w.e.Deliver(b.Bytes())
	common.Last.Mutex.Lock()
	common.Last.Block = w.e.Ch.LastBlock()
	common.Last.Mutex.Unlock()
	w.step("block "+name, r)
	if r != "ok" {
		hfail("block %s refused by the node: %s", name, r)
	}
	n := w.m.Add(b)
	if n == nil || !w.m.Valid(n) {
		hfail("reference model refuses block %s: %s", name, w.m.Why(n))
	}
	w.oracle("block " + name)
}

func (w *world) block(parent *refchain.Node, tag byte, txs []*reftx.Tx, fees uint64) *reftx.Block {
	wit := false
	for _, t := range txs {
		if t.HasWitness() {
			wit = true
		}
	}
	return minichain.Build(minichain.Spec{Prev: parent.Hash, Height: parent.Height + 1, Tag: tag, Txs: txs, Fees: fees, CbValue: -1, Witness: wit})
}

func sumFees(u refchain.UTXO, txs []*reftx.Tx) (f uint64) {
	// transactions of one block here never spend each other's outputs
	for _, t := range txs {
		var in, out uint64
		for _, i := range t.In {
			in += u[op(i.Prev, i.Vout)].Value
		}
		for _, o := range t.Out {
			out += o.Value
		}
		f += in - out
	}
	return
}

func (w *world) xo(v uint64) reftx.Out { return reftx.Out{Value: v, Script: w.X.Script} }

// payTxs: the transactions of the pay events.
func (w *world) payTxs(kind string, u refchain.UTXO) []*reftx.Tx {
	switch kind {
	case "pay1":
		return []*reftx.Tx{w.mkTx(u, []refchain.Outpoint{w.fund()}, []reftx.Out{w.xo(100000), o1(1e8 - 100000)})}
	case "pay3": // three transactions in one block: above / at / below the minimum
		return []*reftx.Tx{
			w.mkTx(u, []refchain.Outpoint{w.fund()}, []reftx.Out{o1(1e8 - 150000), w.xo(150000)}),
			w.mkTx(u, []refchain.Outpoint{w.fund()}, []reftx.Out{w.xo(minVal), o1(1e8 - minVal)}),
			w.mkTx(u, []refchain.Outpoint{w.fund()}, []reftx.Out{w.xo(minVal - 1), o1(1e8 - minVal + 1)}),
		}
	case "payzero": // a ZERO-value output and one of 100000 to X in one transaction (indexed only when the minimum is 0)
		return []*reftx.Tx{w.mkTx(u, []refchain.Outpoint{w.fund()}, []reftx.Out{w.xo(0), o1(1e8 - 100000), w.xo(100000)})}
	case "payedge": // outputs exactly at the configurable minimums 1001 and 100001
		return []*reftx.Tx{w.mkTx(u, []refchain.Outpoint{w.fund()}, []reftx.Out{w.xo(1001), o1(1e8 - 101002), w.xo(100001)})}
	case "paymany": // four transactions with EIGHT outputs to X each (vout 0..7, change at vout 8)
		var l []*reftx.Tx
		for k := 0; k < 4; k++ {
			var outs []reftx.Out
			var sum uint64
			for i := 0; i < 8; i++ {
				v := uint64(2000 + 1000*k + 100*i)
				outs = append(outs, w.xo(v))
				sum += v
			}
			l = append(l, w.mkTx(u, []refchain.Outpoint{w.fund()}, append(outs, o1(1e8-sum))))
		}
		return l
	case "pay2same": // several outputs of ONE transaction to X (one of them below the minimum)
		return []*reftx.Tx{w.mkTx(u, []refchain.Outpoint{w.fund()}, []reftx.Out{w.xo(70000), o1(1e8 - 72000), w.xo(minVal - 1), w.xo(minVal)})}
	}
	hfail("unknown pay kind %s", kind)
	return nil
}

// sparseSpends: for every 9-output transaction of paymany that still has outputs to spend, one
// transaction spending all its outputs to X EXCEPT a pattern that depends on its position in the
// block: only vout 7 / only vout 0 / vouts 3 and 6 / only vout 1 stay unspent - records whose live
// outputs are not a prefix of the vouts. With u == nil only the (unfinalised) count matters.
func (w *world) sparseSpends(u refchain.UTXO, coins []xcoin) (l []*reftx.Tx) {
	keep := [][]uint32{{7}, {0}, {3, 6}, {1}}
	byTx := map[[32]byte][]xcoin{}
	var order [][32]byte
	for _, c := range coins {
		if c.nouts != 9 {
			continue
		}
		if _, ok := byTx[c.op.Tx]; !ok {
			order = append(order, c.op.Tx)
		}
		byTx[c.op.Tx] = append(byTx[c.op.Tx], c)
	}
	for _, id := range order {
		cs := byTx[id]
		var ins []refchain.Outpoint
		var sum uint64
		for _, c := range cs {
			kept := false
			for _, k := range keep[(cs[0].txidx-1)%4] {
				if c.op.Vout == k {
					kept = true
				}
			}
			if !kept {
				ins = append(ins, c.op)
				sum += c.c.Value
			}
		}
		if len(ins) == 0 {
			continue
		}
		if u == nil {
			l = append(l, nil)
			continue
		}
		l = append(l, w.mkTx(u, ins, []reftx.Out{o1(sum)}))
	}
	return
}

// restart:<type>:<how> - the node saves the balance index at shutdown (SaveBalances writes five
// per-type files from goroutines), the file of one address type is then missing or truncated
// (how = ok | rm | cut0 | cuthalf | cutlast: a crash during the save), and the node is started
// again with an unchanged tip: a FRESH process does what client/main.go does at start-up
// (LoadBalances, on error LoadBalancesFromUtxo). This process only does the shutdown part.
func (w *world) restart(name string) {
	f := strings.Split(name, ":")
	if len(f) != 3 {
		hfail("bad event %q", name)
	}
	err := wallet.SaveBalances()
	r := "saved"
	if err != nil {
		r = err.Error()
		if !strings.Contains(r, "already on disk") {
			hfail("SaveBalances: %v", err)
		}
	}
	dirs, _ := os.ReadDir(common.GocoinHomeDir + wallet.BALANCES_SUBDIR)
	if len(dirs) != 1 {
		hfail("expected one folder under %s, found %d", wallet.BALANCES_SUBDIR, len(dirs))
	}
	fn := common.GocoinHomeDir + wallet.BALANCES_SUBDIR + "/" + dirs[0].Name() + "/" + f[1]
	b, err := os.ReadFile(fn)
	if err != nil {
		hfail("%v", err)
	}
	switch f[2] {
	case "ok":
	case "rm":
		err = os.Remove(fn)
	case "cut0":
		err = os.WriteFile(fn, nil, 0o600)
	case "cuthalf":
		err = os.WriteFile(fn, b[:len(b)/2], 0o600)
	case "cutlast":
		err = os.WriteFile(fn, b[:len(b)-1], 0o600)
	default:
		hfail("unknown damage %q", f[2])
	}
	if err != nil {
		hfail("%v", err)
	}
	w.damage = f[1] + ":" + f[2]
	w.step(name, fmt.Sprintf("%s; %s had %d bytes", r, f[1], len(b)))
	w.e.Close() // UTXO.db and the block index go to disk
	w.closed = true
	w.res.Restart = true
}

func (w *world) connect(name string, txs []*reftx.Tx) {
	t := w.tip()
	u := w.m.UTXOAt(t)
	b := w.block(t, byte(1+w.pos), txs, sumFees(u, txs))
	w.deliver(name, b)
}

func (w *world) enabled() []string {
	n := len(w.coinsOf(w.X.Script, w.tip()))
	var l []string
	menu := w.job.Menu
	if len(menu) == 0 {
		menu = allEvents
	}
	for _, e := range menu {
		ok := true
		if strings.HasPrefix(e, "setmin:") || strings.HasPrefix(e, "setmap:") {
			var v uint64
			fmt.Sscan(e[7:], &v)
			// only while the index is off, and only real changes
			ok = !w.on && (e[4] == 'i' && v != w.cfgMin || e[4] == 'a' && uint32(v) != w.cfgMap)
		}
		if strings.HasPrefix(e, "restart:") {
			ok = w.on
		}
		if strings.HasPrefix(e, "livemin:") {
			ok = w.on // the configuration file is re-read while the index is on
		}
		switch e {
		case "spendOldest", "spendAll", "spendPay":
			ok = n >= 1
		case "spendNewest":
			ok = n >= 2
		case "spendsparse":
			ok = len(w.sparseSpends(nil, w.coinsOf(w.X.Script, w.tip()))) > 0
		case "disable", "saveload":
			ok = w.on
		case "enable":
			ok = !w.on
		}
		if ok {
			l = append(l, e)
		}
	}
	return l
}

func (w *world) event(name string) {
	w.fused = 0
	t := w.tip()
	u := w.m.UTXOAt(t)
	coins := w.coinsOf(w.X.Script, t)
	spendOuts := func(cs []xcoin) []reftx.Out {
		var v uint64
		for _, c := range cs {
			v += c.c.Value
		}
		return []reftx.Out{o1(v)}
	}
	ops := func(cs []xcoin) (l []refchain.Outpoint) {
		for _, c := range cs {
			l = append(l, c.op)
		}
		return
	}
	switch name {
	case "pay1", "pay3", "pay2same", "payzero", "payedge", "paymany":
		w.connect(name, w.payTxs(name, u))
	case "spendsparse":
		w.connect(name, w.sparseSpends(u, coins))
	case "spendOldest":
		w.connect(name, []*reftx.Tx{w.mkTx(u, ops(coins[:1]), spendOuts(coins[:1]))})
	case "spendNewest":
		l := coins[len(coins)-1:]
		w.connect(name, []*reftx.Tx{w.mkTx(u, ops(l), spendOuts(l))})
	case "spendAll":
		w.connect(name, []*reftx.Tx{w.mkTx(u, ops(coins), spendOuts(coins))})
	case "spendPay": // one transaction spends the oldest output of X and pays X again
		ins := append(ops(coins[:1]), w.fund())
		w.connect(name, []*reftx.Tx{w.mkTx(u, ins, []reftx.Out{w.xo(120000), o1(1e8 + coins[0].c.Value - 120000)})})
	case "reorgEmpty", "reorgPay", "reorg2":
		undo := 1
		if name == "reorg2" {
			undo = 2
		}
		fork := t
		for i := 0; i < undo; i++ {
			fork = fork.Parent
		}
		if fork.Height < 103 {
			hfail("fork point below the funding blocks")
		}
		par := fork
		for i := 0; i <= undo; i++ {
			var txs []*reftx.Tx
			pu := w.m.UTXOAt(par)
			if name == "reorgPay" && i == 0 {
				txs = w.payTxs("pay1", pu)
			}
			b := w.block(par, byte(0x80+w.pos*4+i), txs, sumFees(pu, txs))
			w.deliver(fmt.Sprintf("%s/%d", name, i+1), b)
			par = w.m.Nodes[b.Hash()]
		}
		if w.tip() != par {
			hfail("reference: competing branch did not become best")
		}
		w.res.Reorgs++
	case "disable":
		wallet.Disable()
		w.on = false
		w.step("disable", "")
		w.oracle("disable")
	case "enable":
		wallet.LoadBalancesFromUtxo()
		w.on = true
		w.effMin = w.cfgMin // LoadBalancesFromUtxo applies the configured minimum before it scans the set
		w.step("enable", "")
		w.oracle("enable")
	case "saveload":
		// SaveBalances, then what a restart does: empty maps, callbacks gone, LoadBalances.
		err := wallet.SaveBalances()
		r := "saved"
		if err != nil {
			r = err.Error()
			if !strings.Contains(r, "already on disk") {
				hfail("SaveBalances: %v", err)
			}
		}
		wallet.InitMaps(true)
		common.Set(&common.WalletON, false)
		common.BlockChain.Unspent.CB.NotifyTxAdd = nil
		common.BlockChain.Unspent.CB.NotifyTxDel = nil
		if err := wallet.LoadBalances(); err != nil {
			hfail("LoadBalances: %v", err)
		}
		w.step("saveload", r)
		w.oracle("saveload")
	default:
		if strings.HasPrefix(name, "restart:") {
			w.restart(name)
			return
		}
		var v uint64
		switch {
		case strings.HasPrefix(name, "livemin:"):
			// the operator changes AllBalances.MinValue and the node re-reads its configuration while
			// the index is ON: the new value is only configured, the one in force stays (the node says
			// so: "restart the node or do 'wallet off' and 'wallet on'")
			fmt.Sscan(name[8:], &v)
			common.LockCfg()
			common.CFG.AllBalances.MinValue = v
			common.UnlockCfg()
			w.cfgMin = v
		case strings.HasPrefix(name, "setmin:"):
			fmt.Sscan(name[7:], &v)
			common.LockCfg()
			common.CFG.AllBalances.MinValue = v
			common.UnlockCfg()
			w.cfgMin = v
		case strings.HasPrefix(name, "setmap:"):
			fmt.Sscan(name[7:], &v)
			common.LockCfg()
			common.CFG.AllBalances.UseMapCnt = uint32(v)
			common.UnlockCfg()
			w.cfgMap = uint32(v)
		default:
			hfail("unknown event %q", name)
		}
		w.step(name, "")
		w.oracle(name)
	}
	w.pos++
}

type group struct {
	typ   int
	ins   map[string]bool // "prefix8:vout"
	total uint64
}

func inpKey(tx []byte, vout uint32) string { return fmt.Sprintf("%x:%d", tx[:utxo.UtxoIdxLen], vout) }

// oracle compares the wallet's answers with the projection of the decoded HashMap.
func (w *world) oracle(after string) {
	on := common.Get(&common.WalletON)
	if on != w.on {
		panic(violation{"wallet-on-flag", fmt.Sprintf("after %s: common.WalletON=%v, expected %v", after, on, w.on)})
	}
	got := w.e.UTXO()
	want := w.m.UTXOAt(w.tip())
	same := len(want) == len(got)
	for o, c := range want {
		g, ok := got[o]
		if !ok || g.Value != c.Value || g.Height != c.Height || g.Coinbase != c.Coinbase || !bytes.Equal(g.Script, c.Script) {
			same = false
		}
	}
	if !same {
		hfail("after %s: node's UTXO set differs from the reference replay (C06 domain)", after)
	}
	if !w.on {
		return
	}
	w.res.Oracles++
	// expected groups over ALL scripts of a standard type
	exp := map[string]*group{}
	for o, c := range got {
		ty := classify(c.Script)
		if ty < 0 || c.Value < w.effMin {
			continue
		}
		g := exp[string(c.Script)]
		if g == nil {
			g = &group{typ: ty, ins: map[string]bool{}}
			exp[string(c.Script)] = g
		}
		g.ins[inpKey(o.Tx[:], o.Vout)] = true
		g.total += c.Value
	}
	if g := exp[string(w.X.Script)]; g != nil && len(g.ins) > 0 {
		w.res.Nontriv++ // the focus address has unspent outputs at or above the minimum
	}
	// 1. GetAllUnspent for every address of the alphabet
	for _, a := range addrs {
		if a.Addr == nil {
			continue
		}
		want := map[string]bool{}
		for o, c := range got {
			if bytes.Equal(c.Script, a.Script) && c.Value >= w.effMin {
				cb := 0
				if c.Coinbase {
					cb = 1
				}
				want[fmt.Sprintf("%x:%d v=%d h=%d cb=%d", o.Tx, o.Vout, c.Value, c.Height, cb)] = true
			}
		}
		have := map[string]bool{}
		dup := false
		for _, u := range wallet.GetAllUnspent(a.Addr()) {
			cb := 0
			if u.Coinbase {
				cb = 1
			}
			k := fmt.Sprintf("%x:%d v=%d h=%d cb=%d", u.TxPrevOut.Hash, u.TxPrevOut.Vout, u.Value, u.MinedAt, cb)
			if have[k] {
				dup = true
			}
			have[k] = true
		}
		if d := setDiff(want, have); d != "" || dup {
			if dup {
				d += " (duplicate entries returned)"
			}
			panic(violation{"getallunspent-mismatch/" + a.Name, fmt.Sprintf("after %s: GetAllUnspent(%s) differs from the UTXO projection: %s", after, a.Name, d)})
		}
	}
	// 1b. the SAME witness program under every other witness version 0..16 (and the legacy hashes
	// under the other legacy kind): the answer is exactly the outputs whose script equals THAT
	// address's script - normally none
	for _, a := range addrs {
		if a.Addr == nil {
			continue
		}
		type q struct {
			name   string
			script []byte
			addr   *btc.BtcAddr
		}
		var qs []q
		base := a.Addr()
		if base.SegwitProg != nil {
			prog := base.SegwitProg.Program
			for v := 0; v <= 16; v++ {
				if v == base.SegwitProg.Version {
					continue
				}
				opc := byte(0)
				if v > 0 {
					opc = byte(0x50 + v)
				}
				qs = append(qs, q{fmt.Sprintf("%s-program-as-witness-v%d", a.Name, v), append([]byte{opc, byte(len(prog))}, prog...),
					&btc.BtcAddr{SegwitProg: &btc.SegwitProg{HRP: "bc", Version: v, Program: append([]byte{}, prog...)}}})
			}
		} else {
			other := &btc.BtcAddr{Version: 5 - base.Version, Hash160: base.Hash160} // 0 <-> 5
			sc := append(append([]byte{0xa9, 0x14}, base.Hash160[:]...), 0x87)
			if other.Version == 0 {
				sc = append(append([]byte{0x76, 0xa9, 0x14}, base.Hash160[:]...), 0x88, 0xac)
			}
			qs = append(qs, q{a.Name + "-hash-as-other-legacy-kind", sc, other})
		}
		for _, x := range qs {
			want := map[string]bool{}
			for o, c := range got {
				if bytes.Equal(c.Script, x.script) && c.Value >= w.effMin {
					want[fmt.Sprintf("%x:%d v=%d", o.Tx, o.Vout, c.Value)] = true
				}
			}
			have := map[string]bool{}
			for _, u := range wallet.GetAllUnspent(x.addr) {
				have[fmt.Sprintf("%x:%d v=%d", u.TxPrevOut.Hash, u.TxPrevOut.Vout, u.Value)] = true
			}
			if d := setDiff(want, have); d != "" {
				kind := "other-witness-version"
				if base.SegwitProg == nil {
					kind = "other-legacy-kind"
				}
				panic(violation{"getallunspent-foreign-address/" + kind, fmt.Sprintf("after %s: GetAllUnspent(%s) returns outputs that do not pay to that address's script %x: %s", after, x.name, x.script, d)})
			}
		}
	}
	// 2. Browse: one record per paid-to script, with exact Count / Value / inputs
	type rec struct {
		typ   int
		ins   map[string]bool
		count int
		value uint64
		isMap bool
	}
	var recs []rec
	wallet.Browse(func(typ int, _ wallet.OneAddrIndex, r *wallet.OneAllAddrBal) {
		if r == nil {
			panic(violation{"nil-balance-record/" + wallet.IDX2SYMB[typ], fmt.Sprintf("after %s: the %s map of the index holds a nil record", after, wallet.IDX2SYMB[typ])})
		}
		x := rec{typ: typ, ins: map[string]bool{}, count: r.Count(), value: r.Value}
		r.Browse(func(i *wallet.OneAllAddrInp) {
			b := *i
			vout := uint32(b[len(b)-4]) | uint32(b[len(b)-3])<<8 | uint32(b[len(b)-2])<<16 | uint32(b[len(b)-1])<<24
			x.ins[fmt.Sprintf("%x:%d", b[:len(b)-4], vout)] = true
		})
		f := reflect.ValueOf(r).Elem().FieldByName("unspMap")
		if !f.IsValid() {
			hfail("wallet.OneAllAddrBal has no field unspMap (representation is not observable)")
		}
		x.isMap = !f.IsNil()
		recs = append(recs, x)
	})
	used := map[string]bool{}
	for _, x := range recs {
		tn := wallet.IDX2SYMB[x.typ]
		var match string
		for s, g := range exp {
			if g.typ == x.typ && !used[s] && setDiff(g.ins, x.ins) == "" {
				match = s
				break
			}
		}
		if match == "" {
			panic(violation{"browse-record-not-in-projection/" + tn, fmt.Sprintf("after %s: balance record of type %s with outputs %v (Count %d, Value %d) matches no address of the UTXO projection %s",
				after, tn, keys(x.ins), x.count, x.value, expDump(exp))})
		}
		used[match] = true
		g := exp[match]
		if x.count != len(g.ins) {
			panic(violation{"count-mismatch/" + tn, fmt.Sprintf("after %s: record of type %s reports Count %d, projection has %d outputs", after, tn, x.count, len(g.ins))})
		}
		if x.value != g.total {
			panic(violation{"total-mismatch/" + tn, fmt.Sprintf("after %s: record of type %s reports total %d, projection total is %d (outputs %v)", after, tn, x.value, g.total, keys(g.ins))})
		}
		if bytes.Equal([]byte(match), w.X.Script) && x.isMap {
			w.res.MapRep = true
		}
	}
	for s, g := range exp {
		if !used[s] {
			panic(violation{"record-missing/" + wallet.IDX2SYMB[g.typ], fmt.Sprintf("after %s: no balance record for script %x although the UTXO set holds %v", after, s, keys(g.ins))})
		}
	}
}

func keys(m map[string]bool) []string {
	var l []string
	for k := range m {
		l = append(l, k)
	}
	sort.Strings(l)
	return l
}

func expDump(exp map[string]*group) string {
	var l []string
	for s, g := range exp {
		l = append(l, fmt.Sprintf("{%x: %v total %d}", s, keys(g.ins), g.total))
	}
	sort.Strings(l)
	return strings.Join(l, " ")
}

func setDiff(want, have map[string]bool) string {
	var l []string
	for k := range want {
		if !have[k] {
			l = append(l, "missing "+k)
		}
	}
	for k := range have {
		if !want[k] {
			l = append(l, "unexpected "+k)
		}
	}
	sort.Strings(l)
	return strings.Join(l, "; ")
}

// stateKey: the canonical key K. Everything that determines the future of the
// exploration: index on/off; whether a saved snapshot exists for the tip; the
// representation (none/list/map) of X's record as observed in the wallet; X's
// unspent outputs in creation order, each as (age class min(tipheight-height,2),
// tx index, vout, number of outputs of its tx, value); and for the two topmost
// blocks (the ones a reorganisation event can undo) the outputs of X they spent.
func (w *world) stateKey() string {
	t := w.tip()
	var sb strings.Builder
	fmt.Fprintf(&sb, "on=%v saved=%v rep=%s min=%d/%d map=%d coins=", w.on, w.saved == t.Hash, w.rep(), w.cfgMin, w.effMin, w.cfgMap)
	age := func(h uint32) uint32 {
		if t.Height-h > 2 {
			return 2
		}
		return t.Height - h
	}
	for _, c := range w.coinsOf(w.X.Script, t) {
		fmt.Fprintf(&sb, "(%d,%d,%d,%d,%d)", age(c.height), c.txidx, c.op.Vout, c.nouts, c.c.Value)
	}
	n := t
	for d := 0; d < 2; d++ {
		fmt.Fprintf(&sb, " spent%d=", d)
		pu := w.m.UTXOAt(n.Parent)
		var l []string
		for _, tx := range n.Block.Txs[1:] {
			for _, in := range tx.In {
				if c, ok := pu[op(in.Prev, in.Vout)]; ok && bytes.Equal(c.Script, w.X.Script) {
					a := n.Height - c.Height
					if a > 2 {
						a = 2
					}
					txidx, nouts := -1, 0
					for i, t := range w.m.Path(n)[c.Height-1].Block.Txs {
						if t.TxID() == in.Prev {
							txidx, nouts = i, len(t.Out)
						}
					}
					l = append(l, fmt.Sprintf("(%d,%d,%d,%d,%d)", a, txidx, in.Vout, nouts, c.Value))
				}
			}
		}
		sort.Strings(l)
		sb.WriteString(strings.Join(l, ""))
		n = n.Parent
	}
	return sb.String()
}

func (w *world) rep() string {
	r := "none"
	if !w.on {
		return "off"
	}
	wallet.Browse(func(typ int, _ wallet.OneAddrIndex, b *wallet.OneAllAddrBal) {
		if typ != w.X.Type {
			return
		}
		if reflect.ValueOf(b).Elem().FieldByName("unspMap").IsNil() {
			r = "list"
		} else {
			r = "map"
		}
	})
	return r
}

var tStart = time.Now()

func lap(what string) {
	if os.Getenv("C17_TIMING") != "" {
		fmt.Fprintf(os.Stderr, "TIMING %-28s %v\n", what, time.Since(tStart))
	}
}

func runJob(job *Job) (res *Result) {
	res = &Result{}
	lap("runJob")
	w := &world{job: job, res: res, X: addrs[job.Focus]}
	w.dir = job.Dir
	if w.dir == "" {
		hfail("job without scratch directory")
	}
	defer func() {
		if r := recover(); r != nil {
			switch x := r.(type) {
			case harnessErr:
				res.Harness = string(x)
			case violation:
				res.Key, res.What = x.key, x.what
			default:
				// a panic inside gocoin code while executing an event is a violation; one
				// in harness code is a harness error
				st := string(debug.Stack())
				msg := fmt.Sprint(r)
				if fn := gocoinFrame(st); fn != "" {
					res.Key, res.What = "panic/"+fn, "panic: "+msg
				} else {
					res.Harness = "harness panic: " + msg + "\n" + st
				}
			}
		}
	}()
	raw, err := os.ReadFile(job.Prefix + "/prefix.json")
	if err != nil {
		hfail("%v", err)
	}
	var pf prefixFile
	if err := json.Unmarshal(raw, &pf); err != nil {
		hfail("%v", err)
	}
	w.m = refchain.New(params, minichain.GenesisHash, minichain.GenesisTime, minichain.PowBits)
	for _, hx := range pf.Blocks {
		b, _ := hex.DecodeString(hx)
		n := w.m.Add(decodeBlock(b))
		if n == nil || !w.m.Valid(n) {
			hfail("reference refuses a prefix block")
		}
	}
	for _, f := range pf.Funding {
		var o refchain.Outpoint
		var h string
		p := strings.IndexByte(f, ':')
		h = f[:p]
		fmt.Sscan(f[p+1:], &o.Vout)
		b, _ := hex.DecodeString(h)
		copy(o.Tx[:], b)
		w.funding = append(w.funding, o)
	}
	lap("model built")
	var rf resumeFile
	if job.Resume {
		rb, err := os.ReadFile(w.dir + "/resume.json")
		if err != nil {
			hfail("%v", err)
		}
		if err := json.Unmarshal(rb, &rf); err != nil {
			hfail("%v", err)
		}
		*res = rf.Res
		res.Restart = false
		for _, hx := range rf.Blocks {
			b, _ := hex.DecodeString(hx)
			n := w.m.Add(decodeBlock(b))
			if n == nil || !w.m.Valid(n) {
				hfail("reference refuses a block of the first part of the history")
			}
		}
		w.blocks, w.pos = rf.Blocks, rf.Pos
	} else {
		ev.CopyDir(job.Prefix+"/chain", w.dir+"/d")
	}
	lap("dir copied")
	w.e = minichain.Open(w.dir+"/d", &minichain.Opts{Params: params})
	defer func() {
		if !w.closed {
			w.e.Close()
		}
	}()
	lap("chain open")
	if tip, _ := w.e.Tip(); tip != w.tip().Hash {
		hfail("chain directory tip differs from the reference")
	}
	// environment the client's init code would set up (common.InitConfig is not called)
	common.GocoinHomeDir = w.dir + "/d/"
	common.Testnet = false
	common.CFG.AllBalances.MinValue = minVal
	common.CFG.AllBalances.UseMapCnt = useMapCnt
	w.cfgMin, w.effMin, w.cfgMap = minVal, minVal, useMapCnt
	common.CFG.AllBalances.SaveBalances = true
	common.BlockChain = w.e.Ch
	common.Last.Block = w.e.Ch.LastBlock()
	events := job.Events
	if job.Resume {
		// start-up of the client after the restart (client/main.go): configuration as saved,
		// InitConfig applies the minimum value, LoadBalances, on error fetch_balances_now
		common.LockCfg()
		common.CFG.AllBalances.MinValue = rf.CfgMin
		common.CFG.AllBalances.UseMapCnt = rf.CfgMap
		common.UnlockCfg()
		common.ApplyBalMinVal()
		w.cfgMin, w.effMin, w.cfgMap = rf.CfgMin, rf.CfgMin, rf.CfgMap
		how := "index loaded from the saved files"
		if err := wallet.LoadBalances(); err != nil {
			how = "LoadBalances: " + err.Error() + " -> LoadBalancesFromUtxo"
			wallet.LoadBalancesFromUtxo()
		} else {
			w.saved = w.tip().Hash
		}
		w.on = true
		w.step("start-up after restart", how)
		if dmg := strings.SplitN(rf.Damage, ":", 2); len(dmg) == 2 && dmg[1] != "ok" && strings.HasPrefix(how, "index loaded") {
			// LoadBalances accepted the saved index although one per-type file was damaged: if the
			// index is then wrong, name the cause (kind of damage) in the key
			func() {
				defer func() {
					if r := recover(); r != nil {
						if v, ok := r.(violation); ok {
							panic(violation{"restart/damaged-balance-file-accepted/" + dmg[1], fmt.Sprintf("LoadBalances returned nil although the saved %s file was damaged (%s), the index is switched on and wrong: %s", dmg[0], dmg[1], v.what)})
						}
						panic(r)
					}
				}()
				w.oracle("start-up after restart")
			}()
		} else {
			w.oracle("start-up after restart")
		}
		events = rf.Remaining
	} else {
		// the client starts the index with LoadBalancesFromUtxo (fetch_balances_now)
		wallet.LoadBalancesFromUtxo()
		w.on = true
		lap("wallet loaded")
		w.oracle("start")
		lap("oracle(start)")
	}
	for i, name := range events {
		ok := false
		for _, e := range w.enabled() {
			if e == name {
				ok = true
			}
		}
		if !ok {
			hfail("event %s is not enabled here", name)
		}
		w.event(name)
		if name == "saveload" {
			w.saved = w.tip().Hash
		}
		lap("event " + name)
		if res.Restart { // the rest of the history runs in a fresh process
			out := resumeFile{Blocks: w.blocks, Pos: w.pos + 1, CfgMin: w.cfgMin, CfgMap: w.cfgMap, Remaining: events[i+1:], Res: *res, Damage: w.damage}
			rb, _ := json.Marshal(out)
			if err := os.WriteFile(w.dir+"/resume.json", rb, 0o600); err != nil {
				hfail("%v", err)
			}
			return res
		}
	}
	res.StateKey = w.stateKey()
	res.Enabled = w.enabled()
	lap("state key")
	return res
}

// gocoinFrame returns the function of the first non-runtime frame below the panic
// if that frame is gocoin code, else "".
func gocoinFrame(stack string) string {
	lines := strings.Split(stack, "\n")
	seenPanic := false
	for _, l := range lines {
		if strings.HasPrefix(l, "panic(") {
			seenPanic = true
			continue
		}
		if !seenPanic || strings.HasPrefix(l, "\t") || strings.HasPrefix(l, "runtime.") || strings.HasPrefix(l, "runtime/") || l == "" {
			continue
		}
		if strings.HasPrefix(l, "github.com/piotrnar/gocoin/") {
			fn := l[len("github.com/piotrnar/gocoin/"):]
			if p := strings.LastIndexByte(fn, '('); p > 0 {
				fn = fn[:p]
			}
			return fn
		}
		return ""
	}
	return ""
}

func workerMain() {
	out := minichain.Quiet()
	// short-lived process with a small heap: no garbage collection unless it grows absurdly
	debug.SetGCPercent(-1)
	debug.SetMemoryLimit(2 << 30)
	initAlphabet()
	var job Job
	if pf := os.Getenv("C17_PPROF"); pf != "" {
		f, _ := os.Create(fmt.Sprint(pf, ".", os.Getpid()))
		pprof.StartCPUProfile(f)
		defer pprof.StopCPUProfile()
	}
	if err := json.NewDecoder(os.Stdin).Decode(&job); err != nil {
		fmt.Fprintln(os.Stderr, "worker: bad job:", err)
		os.Exit(3)
	}
	res := runJob(&job)
	b, _ := json.Marshal(res)
	out.Write(append(b, '\n'))
	pprof.StopCPUProfile()
	os.Exit(0)
}

// ---------------------------------------------------------------- parent

var workerCPU int64 // nanoseconds of CPU used by finished workers

// runWorker executes one history in a fresh process and classifies its death.
func runWorker(job *Job) *Result {
	// the scratch directory belongs to the parent: it disappears even when the worker
	// dies inside gocoin (os.Exit, fatal error, watchdog kill)
	job.Dir = ev.Scratch("c17w")
	defer os.RemoveAll(job.Dir)
	res := runProcess(job)
	for n := 0; res.Restart && res.Key == "" && res.Harness == "" && n < 8; n++ {
		// a restart event: the history continues in a fresh process on the same directory
		j2 := *job
		j2.Resume = true
		res = runProcess(&j2)
	}
	return res
}

func runProcess(job *Job) *Result {
	in, _ := json.Marshal(job)
	cmd := exec.Command(os.Args[0], "--worker")
	cmd.Env = append(os.Environ(), "GOMAXPROCS=1")
	cmd.Stdin = bytes.NewReader(in)
	var so, se bytes.Buffer
	cmd.Stdout, cmd.Stderr = &so, &se
	if err := cmd.Start(); err != nil {
		return &Result{Harness: "cannot start worker: " + err.Error()}
	}
	done := make(chan error, 1)
	go func() { done <- cmd.Wait() }()
	select {
	case err := <-done:
		if cmd.ProcessState != nil {
			atomic.AddInt64(&workerCPU, int64(cmd.ProcessState.UserTime()+cmd.ProcessState.SystemTime()))
		}
		if os.Getenv("C17_TIMING") != "" {
			os.Stderr.Write(se.Bytes())
		}
		var res Result
		if err == nil && json.Unmarshal(so.Bytes(), &res) == nil {
			return &res
		}
		// death of the worker inside an event
		stderr := se.String()
		if i := strings.Index(stderr, "panic: "); i >= 0 {
			msg := stderr[i:]
			first := msg
			if j := strings.IndexByte(first, '\n'); j > 0 {
				first = first[:j]
			}
			if fn := gocoinFrameFatal(msg); fn != "" {
				return &Result{Key: "panic/" + fn, What: "worker died: " + first}
			}
			return &Result{Harness: "worker panic outside gocoin: " + tail(stderr, 1500)}
		}
		if i := strings.Index(stderr, "fatal error: "); i >= 0 {
			return &Result{Key: "fatal", What: "worker died: " + tail(stderr[i:], 300)}
		}
		code := -1
		if ee, ok := err.(*exec.ExitError); ok {
			code = ee.ExitCode()
		}
		if code == 3 {
			return &Result{Harness: "worker: " + tail(stderr, 500)}
		}
		return &Result{Key: fmt.Sprintf("exit-%d", code), What: fmt.Sprintf("worker exited with code %d inside an event: %s", code, tail(stderr, 300))}
	case <-time.After(watchdog):
		cmd.Process.Kill()
		<-done
		return &Result{Key: "hang", What: fmt.Sprintf("history did not finish within %v", watchdog)}
	}
}

func tail(s string, n int) string {
	if len(s) > n {
		return s[len(s)-n:]
	}
	return s
}

// gocoinFrameFatal: for an unrecovered panic dump ("panic: ...\n\ngoroutine N [running]:\nframes").
func gocoinFrameFatal(dump string) string {
	i := strings.Index(dump, "[running]:")
	if i < 0 {
		return ""
	}
	for _, l := range strings.Split(dump[i:], "\n")[1:] {
		if strings.HasPrefix(l, "\t") || l == "" || strings.HasPrefix(l, "panic(") || strings.HasPrefix(l, "runtime.") {
			continue
		}
		if strings.HasPrefix(l, "github.com/piotrnar/gocoin/") {
			fn := l[len("github.com/piotrnar/gocoin/"):]
			if p := strings.LastIndexByte(fn, '('); p > 0 {
				fn = fn[:p]
			}
			return fn
		}
		return ""
	}
	return ""
}

var (
	workerFlag = flag.Bool("worker", false, "internal: execute one history read from stdin")
	replayFile = flag.String("replay", "", "replay one recorded history (no explorer)")
	depthFlag  = flag.Int("depth", 0, "override the depth of the deep exploration")
)

type hist struct {
	events  []string
	enabled []string
}

type task struct {
	h   hist
	ev  string
	res *Result
}

func (t *task) events() []string {
	evs := append([]string{}, t.h.events...)
	if t.ev != "" {
		evs = append(evs, t.ev)
	}
	return evs
}

type explorer struct {
	r    *ev.Run
	sem  chan struct{}
	mu   sync.Mutex
	pmu  sync.Mutex
	pdir map[int]string

	rebuilt int

	transitions, oracles, nontriv, reorgs, mapRep, confirmed, states int
	perEvent                                                         map[string]int
	perFocus                                                         map[string]map[string]int
	depthDone                                                        map[string]int
	samples                                                          *ev.Samples
	harness                                                          []string
}

// one exploration: a focus address type, an event alphabet, a depth
type run struct {
	name  string
	focus int
	menu  []string
	depth int
}

func (x *explorer) run(rn run, evs []string) *Result {
	x.sem <- struct{}{}
	defer func() { <-x.sem }()
	return x.exec(rn, evs)
}

// exec runs one history; an infrastructure failure is retried once, after rebuilding
// the prefix directory if it disappeared (scratch space is shared with other runs).
func (x *explorer) exec(rn run, evs []string) *Result {
	focus := rn.focus
	for attempt := 0; ; attempt++ {
		x.pmu.Lock()
		dir := x.pdir[focus]
		x.pmu.Unlock()
		res := runWorker(&Job{Prefix: dir, Focus: focus, Events: evs, Menu: rn.menu})
		if res.Harness == "" || attempt >= 1 {
			return res
		}
		x.pmu.Lock()
		if x.pdir[focus] == dir {
			if _, err := os.Stat(dir + "/prefix.json"); err != nil {
				x.pdir[focus] = buildPrefix(focus)
				x.rebuilt++
			}
		}
		x.pmu.Unlock()
	}
}

func (x *explorer) runLevel(rn run, tasks []*task) {
	var wg sync.WaitGroup
	for _, t := range tasks {
		if x.r.OverBudget() {
			break
		}
		x.sem <- struct{}{}
		wg.Add(1)
		go func(t *task) {
			defer wg.Done()
			defer func() { <-x.sem }()
			t.res = x.exec(rn, t.events())
		}(t)
	}
	wg.Wait()
}

// bfs explores all histories of one focus address up to depth modulo the state key.
func (x *explorer) bfs(rn run) {
	depth := rn.depth
	fname := rn.name
	faddr := addrs[rn.focus].Name
	r := x.r
	seen := map[string]bool{}
	root := &task{}
	x.runLevel(rn, []*task{root})
	if root.res == nil {
		return // budget
	}
	if root.res.Key != "" {
		r.Report(root.res.Key, root.res.What, map[string]interface{}{"focus": faddr, "run": fname, "events": []string{}, "trace": root.res.Trace})
		return
	}
	if root.res.Harness != "" {
		x.mu.Lock()
		x.harness = append(x.harness, fmt.Sprintf("%s []: %s", fname, root.res.Harness))
		x.mu.Unlock()
		return
	}
	seen[root.res.StateKey] = true
	frontier := []hist{{nil, root.res.Enabled}}
	pf := map[string]int{}
	done := 0
	for d := 1; d <= depth && len(frontier) > 0; d++ {
		var tasks []*task
		for _, h := range frontier {
			for _, e := range h.enabled {
				tasks = append(tasks, &task{h: h, ev: e})
			}
		}
		x.runLevel(rn, tasks)
		var next []hist
		complete := true
		for _, t := range tasks { // deterministic merge order
			if t.res == nil {
				complete = false // budget
				continue
			}
			evs := t.events()
			x.mu.Lock()
			x.transitions++
			x.perEvent[t.ev]++
			x.oracles += t.res.Oracles
			x.nontriv += t.res.Nontriv
			x.reorgs += t.res.Reorgs
			if t.res.MapRep {
				x.mapRep++
			}
			x.mu.Unlock()
			switch {
			case t.res.Harness != "":
				x.mu.Lock()
				x.harness = append(x.harness, fmt.Sprintf("%s %v: %s", fname, evs, t.res.Harness))
				x.mu.Unlock()
			case t.res.Key != "":
				// confirm in two more fresh processes before believing it
				ok := true
				for i := 0; i < 2; i++ {
					if again := x.run(rn, evs); again.Key != t.res.Key {
						ok = false
					}
				}
				x.mu.Lock()
				if ok {
					x.confirmed++
					r.Report(t.res.Key, t.res.What, map[string]interface{}{"focus": faddr, "run": fname, "events": evs, "trace": t.res.Trace})
				} else {
					r.Unrepro = append(r.Unrepro, fmt.Sprintf("%s %v: %s", fname, evs, t.res.Key))
				}
				x.mu.Unlock()
			default:
				if os.Getenv("C17_DUMPSTATES") != "" {
					fmt.Fprintf(os.Stderr, "STATE %s %v => %s\n", fname, evs, t.res.StateKey)
				}
				if !seen[t.res.StateKey] {
					seen[t.res.StateKey] = true
					next = append(next, hist{evs, t.res.Enabled})
					if len(evs) >= 3 {
						x.samples.Add(map[string]interface{}{"focus": fname, "events": evs, "state": t.res.StateKey})
					}
				}
			}
		}
		if !complete {
			break
		}
		done = d
		pf[fmt.Sprint("new_states_depth_", d)] = len(next)
		frontier = next
	}
	pf["states"] = len(seen)
	pf["depth_target"] = depth
	x.mu.Lock()
	x.states += len(seen)
	x.perFocus[fname] = pf
	x.depthDone[fname] = done
	x.mu.Unlock()
}

// Scripted histories (depth instead of breadth): for every minimum value of the alphabet
// (incl. 0) and UseMapCnt 1 / 3 / 5 (map form from the first output / default / list form up to
// four outputs), on two focus types: zero-value outputs and outputs exactly at the configurable
// minimums paid to an address that is already in use, then the OTHER outputs of that address are
// spent one by one, everything is spent, a spend is undone by a reorganisation, and the index is
// built over the populated set. Each history runs once in a fresh worker, same oracle.
type script struct {
	focus  int
	events []string
}

func scripts() (l []script) {
	// restart: shutdown with SaveBalances, the file of ONE address type then missing / empty / cut
	// in half / one byte short (or intact), start-up in a fresh process as client/main.go does it,
	// then the history goes on; the index must equal the projection for every address
	for _, focus := range []int{0, 3} { // P2PKH, P2WSH
		for ti := 0; ti < wallet.IDX_CNT; ti++ {
			for _, how := range []string{"rm", "cut0", "cuthalf", "cutlast"} {
				l = append(l, script{focus, []string{"pay3", "pay1", fmt.Sprintf("restart:%s:%s", wallet.IDX2SYMB[ti], how), "pay1", "spendOldest", "spendAll"}})
			}
		}
		l = append(l, script{focus, []string{"pay3", "pay1", "restart:P2KH:ok", "pay1", "spendOldest", "restart:P2WSH:ok", "spendAll"}},
			script{focus, []string{"restart:P2SH:rm", "pay3", "restart:P2TAP:cut0", "spendAll"}})
	}
	// livemin: the configured minimum changes while the index is on (configuration re-read);
	// blocks keep adding and removing outputs whose value lies between the old and the new minimum
	for _, focus := range []int{0, 3} { // P2PKH, P2WSH
		for _, v := range []int{0, 999, 1001, 100001} {
			lm := fmt.Sprint("livemin:", v)
			l = append(l,
				script{focus, []string{"pay3", lm, "pay3", "spendOldest", "spendAll"}},
				script{focus, []string{"pay3", "pay1", lm, "spendNewest", "reorgEmpty", "spendAll"}},
				script{focus, []string{"pay3", lm, "reorgPay", "disable", "enable", "pay3", "spendAll"}})
		}
	}
	// sparse: the index is BUILT (wallet on, off/on, save+load) over a set that holds partly spent
	// multi-output transactions whose live outputs are not a vout prefix (only vout 7 / only vout 0 /
	// vouts 3,6 / only vout 1 of nine), in the orders the UTXO map yields for several blocks of them
	for _, focus := range []int{0, 1, 3, 4} { // P2PKH, P2SH, P2WSH, P2TR
		l = append(l,
			script{focus, []string{"paymany", "spendsparse", "disable", "enable"}},
			script{focus, []string{"paymany", "paymany", "spendsparse", "disable", "enable", "spendAll"}},
			script{focus, []string{"disable", "paymany", "paymany", "paymany", "spendsparse", "enable", "paymany", "spendsparse", "saveload"}},
			script{focus, []string{"paymany", "spendsparse", "paymany", "disable", "setmap:5", "enable", "spendsparse", "disable", "enable"}},
			script{focus, []string{"paymany", "paymany", "spendsparse", "reorgEmpty", "disable", "enable", "spendsparse", "disable", "enable"}},
		)
	}
	for _, focus := range []int{0, 3} { // P2PKH, P2WSH
		for _, v := range []int{0, 999, 1000, 1001, 100000, 100001} {
			for _, m := range []int{1, 3, 5} {
				cfg := []string{"disable"}
				if v != minVal {
					cfg = append(cfg, fmt.Sprint("setmin:", v))
				}
				if m != useMapCnt {
					cfg = append(cfg, fmt.Sprint("setmap:", m))
				}
				cfg = append(cfg, "enable")
				cat := func(a []string, b ...string) []string { return append(append([]string{}, a...), b...) }
				l = append(l,
					script{focus, cat(cfg, "payzero", "spendNewest", "reorgEmpty", "spendNewest", "spendAll")},
					script{focus, cat(cfg, "payzero", "payedge", "spendNewest", "spendNewest", "spendNewest", "pay1", "spendAll")},
					script{focus, cat(cfg, "pay3", "payzero", "spendOldest", "spendNewest", "spendAll")},
					script{focus, cat(cfg, "payedge", "payzero", "spendOldest", "spendOldest", "spendOldest", "reorg2")},
					script{focus, cat(append([]string{"payzero", "payedge"}, cfg...), "spendNewest", "spendNewest", "spendNewest", "spendAll")},
					script{focus, cat(cfg, "payzero", "saveload", "spendNewest", "disable", "enable")},
				)
			}
		}
	}
	return
}

// runScripts: the scripted histories run first and are not subject to the wall-clock budget.
func (x *explorer) runScripts(l []script) {
	res := make([]*Result, len(l))
	menu := append(append(append([]string{}, allEvents...), "payzero", "payedge", "paymany", "spendsparse"), configEvents...)
	var wg sync.WaitGroup
	for i := range l {
		x.sem <- struct{}{}
		wg.Add(1)
		go func(i int) {
			defer wg.Done()
			defer func() { <-x.sem }()
			res[i] = x.exec(run{focus: l[i].focus, menu: append(append([]string{}, menu...), l[i].events...)}, l[i].events)
		}(i)
	}
	wg.Wait()
	seen := map[string]bool{}
	pf := map[string]int{}
	for i, sc := range l {
		t := res[i]
		faddr := addrs[sc.focus].Name
		pf["histories"]++
		x.mu.Lock()
		x.transitions += len(sc.events)
		for _, e := range sc.events {
			x.perEvent[e]++
		}
		x.oracles += t.Oracles
		x.nontriv += t.Nontriv
		x.reorgs += t.Reorgs
		if t.MapRep {
			x.mapRep++
		}
		x.mu.Unlock()
		switch {
		case t.Harness != "":
			x.mu.Lock()
			x.harness = append(x.harness, fmt.Sprintf("scripted %s %v: %s", faddr, sc.events, t.Harness))
			x.mu.Unlock()
		case t.Key != "":
			ok := true
			for k := 0; k < 2; k++ {
				if again := x.run(run{focus: sc.focus, menu: append(append([]string{}, menu...), sc.events...)}, sc.events); again.Key != t.Key {
					ok = false
				}
			}
			x.mu.Lock()
			if ok {
				x.confirmed++
				x.r.Report(t.Key, t.What, map[string]interface{}{"focus": faddr, "run": "scripted", "events": sc.events, "trace": t.Trace})
			} else {
				x.r.Unrepro = append(x.r.Unrepro, fmt.Sprintf("scripted %s %v: %s", faddr, sc.events, t.Key))
			}
			x.mu.Unlock()
		default:
			seen[faddr+"|"+t.StateKey] = true
		}
	}
	pf["states"] = len(seen)
	x.mu.Lock()
	x.states += len(seen)
	x.perFocus["scripted"] = pf
	x.mu.Unlock()
}

func main() {
	for _, a := range os.Args[1:] {
		if a == "--worker" || a == "-worker" {
			workerMain()
			return
		}
	}
	r := ev.Start("C17", "model_checking")
	minichain.Quiet()
	initAlphabet()
	x := &explorer{r: r, sem: make(chan struct{}, runtime.NumCPU()), pdir: map[int]string{},
		perEvent: map[string]int{}, perFocus: map[string]map[string]int{}, depthDone: map[string]int{}, samples: &ev.Samples{N: 5}}
	cleanup := func() {
		for _, d := range x.pdir {
			os.RemoveAll(d)
		}
	}
	for i := range addrs {
		if !addrs[i].Twin {
			x.pdir[i] = buildPrefix(i)
		}
	}
	if *replayFile != "" {
		code := replay(x, *replayFile)
		cleanup()
		os.Exit(code)
	}
	if os.Getenv("C17_BENCH") != "" { // development aid: cost of one worker
		for _, evs := range [][]string{nil, {"pay3", "pay1", "spendOldest", "reorgPay", "pay2same"}} {
			t0 := time.Now()
			workerCPU = 0
			for i := 0; i < 20; i++ {
				if res := x.run(run{focus: 3}, evs); res.Harness != "" || res.Key != "" {
					fmt.Fprintln(ev.Out, "bench:", res.Harness, res.Key, res.What)
				}
			}
			fmt.Fprintf(ev.Out, "bench %v: %v wall, %v cpu per worker\n", evs, time.Since(t0)/20, time.Duration(workerCPU/20))
		}
		cleanup()
		os.Exit(0)
	}
	// Type-symmetry reduction. The record dynamics (list/map, totals, add/del/undo) are
	// type-agnostic code (allBalances[idx][uidx]); only Script2Idx and the dispatch in
	// GetAllUnspent depend on the type. The deep exploration therefore runs on `deep`
	// focus types, every other type is explored to `shallow` depth, and all other
	// types are present as static background in every history.
	deepDepth, shallowDepth, configDepth := 5, 3, 5
	deep := map[string]bool{"P2WSH": true}
	r.Budget = 150 * time.Second
	if r.Thorough() {
		deepDepth, shallowDepth, configDepth = 6, 5, 5
		deep = map[string]bool{"P2WSH": true, "P2PKH": true}
		r.Budget = 25 * time.Minute
	}
	if *depthFlag > 0 {
		deepDepth, configDepth = *depthFlag, *depthFlag
	}
	if b := os.Getenv("C17_BUDGET"); b != "" {
		r.Budget, _ = time.ParseDuration(b)
	}
	if f := os.Getenv("C17_FOCUS"); f == "" || f == "scripted" {
		x.runScripts(scripts())
	}
	var wg sync.WaitGroup
	for focus := range addrs {
		fname := addrs[focus].Name
		if f := os.Getenv("C17_FOCUS"); (f != "" && f != fname) || addrs[focus].Twin {
			continue
		}
		d := shallowDepth
		if deep[fname] {
			d = deepDepth
		}
		wg.Add(1)
		go func(focus, d int) {
			defer wg.Done()
			x.bfs(run{name: addrs[focus].Name, focus: focus, depth: d})
		}(focus, d)
	}
	// configuration exploration: block/reorg events combined with configuration changes
	// while the index is off, on one focus type (not the deep one)
	if f := os.Getenv("C17_FOCUS"); f == "" || f == "config" {
		wg.Add(1)
		go func() {
			defer wg.Done()
			m := configMenuQuick
			if r.Thorough() {
				m = configMenu
			}
			x.bfs(run{name: "config/P2PKH", focus: 0, menu: m, depth: configDepth})
		}()
	}
	wg.Wait()
	cleanup()
	if len(x.harness) > 0 {
		sort.Strings(x.harness)
		for i, h := range x.harness {
			if i < 5 {
				fmt.Fprintln(os.Stderr, "HARNESS:", h)
			}
		}
		ev.HarnessError("%d histories failed for infrastructure reasons; first: %s", len(x.harness), x.harness[0])
	}
	r.Finish(map[string]interface{}{
		"states":                            x.states,
		"transitions":                       x.transitions,
		"traces_validated_against_impl":     x.transitions,
		"oracle_evaluations_index_on":       x.oracles,
		"oracle_evaluations_focus_nonempty": x.nontriv,
		"histories_with_reorg":              x.reorgs,
		"histories_reaching_map_rep":        x.mapRep,
		"per_event":                         x.perEvent,
		"per_focus":                         x.perFocus,
		"depth_completed":                   x.depthDone,
		"violations_confirmed_3x":           x.confirmed,
		"prefix_dirs_rebuilt":               x.rebuilt,
		"worker_cpu_s":                      float64(atomic.LoadInt64(&workerCPU)/1e7) / 100,
		"samples":                           x.samples.L,
		"rule": "BFS over event histories per focus address type (P2PKH, P2SH, P2WPKH, P2WSH, P2TR, non-standard; all other types present as static background outputs) plus scripted histories (restart = SaveBalances, one per-type file missing / empty / cut in half / one byte short, start-up in a fresh process as client/main.go does it (LoadBalances, on error LoadBalancesFromUtxo); index built over partly spent 9-output transactions whose live outputs are sparse vouts; zero-value and at-minimum outputs to a used address under every minimum 0/999/1000/1001/100000/100001 and UseMapCnt 1/3/5, then the other outputs spent one by one, reorganisations, index built over the populated set; run first, not subject to the budget) and one configuration exploration (config/P2PKH: block/reorg events combined with setmin:<v> / setmap:<v> while the index is off, then LoadBalancesFromUtxo over the populated set; oracle = projection under the minimum in force); every history runs in a fresh worker process on a copy of a 105-block chain; " +
			"oracle after every delivered block / wallet switch for every address of the alphabet; state key = (index on/off, snapshot saved for tip, observed list/map representation, X's outputs in creation order with age class/tx index/vout/value, X-outputs spent by the two topmost blocks); " +
			"type-symmetry reduction: full depth for the deep focus types, reduced depth for the others (per_focus.depth_target)",
	}, []string{
		"UseMapCnt=3 (list->map at the third output), MinValue=1000 with outputs of 999/1000 at start; configuration events change MinValue to 0/999/1000/1001/100000/100001 and UseMapCnt to 1/3/5 only while the index is off (the documented off / change / on sequence); the value in force is the one configured when the index was last switched on",
		"spends are really valid: P2SH/P2WSH of OP_1, P2PKH/P2WPKH/P2TR signed with gocoin's own signer (signatures are not judged here); blocks are delivered untrusted through CheckBlock+AcceptBlock",
		"the projection is computed from the decoded UnspentDB.HashMap with the harness's own script classifier; the node's UTXO set is additionally required to equal the reference replay (else harness error)",
		"representation (list/map) is read with reflect from the unexported field unspMap; it only enters the state key",
		"callback scheduling inside UnspentDB.commit (parallel add/del workers) is left to the Go scheduler here; its exhaustive exploration is C11 scenario S2",
		"8-byte txid-prefix collisions in the UTXO key are outside the alphabet",
		"every oracle evaluation also queries each funded witness program under every other witness version 0..16 and each legacy hash under the other legacy kind; expected = outputs whose script equals that address's script",
	})
}

func replay(x *explorer, file string) int {
	b, err := os.ReadFile(file)
	if err != nil {
		ev.HarnessError("%v", err)
	}
	var rec struct {
		Replay struct {
			Focus  string   `json:"focus"`
			Events []string `json:"events"`
		} `json:"replay"`
	}
	if err := json.Unmarshal(b, &rec); err != nil {
		ev.HarnessError("%v", err)
	}
	focus := -1
	for i, a := range addrs {
		if a.Name == rec.Replay.Focus {
			focus = i
		}
	}
	if focus < 0 {
		ev.HarnessError("unknown focus %q", rec.Replay.Focus)
	}
	res := x.run(run{focus: focus, menu: append(append(append([]string{}, allEvents...), "payzero", "payedge", "paymany", "spendsparse"), append(append([]string{}, configEvents...), rec.Replay.Events...)...)}, rec.Replay.Events)
	for _, s := range res.Trace {
		fmt.Fprintf(ev.Out, "  %s -> %s\n", s.Ev, s.Result)
	}
	switch {
	case res.Harness != "":
		fmt.Fprintln(ev.Out, "replay: harness error:", res.Harness)
		return 2
	case res.Key != "":
		fmt.Fprintf(ev.Out, "replay: %s: %s\n", res.Key, res.What)
		return 1
	}
	fmt.Fprintln(ev.Out, "replay: history passes; final state", res.StateKey)
	return 0
}
