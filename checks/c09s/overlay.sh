#!/bin/bash
# overlay.sh <builddir> <overlay.json> <repo>: put lib/btc under the controlled scheduler.
set -e
bd="$1"; ov="$2"; repo="$3"
export GOFLAGS=-mod=mod GOPROXY=off GOSUMDB=off GOTOOLCHAIN=local
if [ ! -x /verif/bin/vrewrite ] || [ /verif/tools/vrewrite/main.go -nt /verif/bin/vrewrite ]; then
  (cd /verif/tools/vrewrite && go build -o /verif/bin/vrewrite .)
fi
rm -rf "$bd/vrw"
/verif/bin/vrewrite -repo "$repo" -out "$bd" -overlay "$ov" lib/btc lib/others/sys 2> "$bd/vrewrite.log" || { cat "$bd/vrewrite.log" >&2; exit 1; }
