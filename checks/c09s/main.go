// C09 (concurrent part): Block.BuildTxListExt decodes a block's transactions in the
// calling goroutine and hashes / measures them in one goroutine per ~4 KiB pack. Under the
// controlled scheduler every interleaving (up to a deviation bound) of blocks with 2-4
// packs is executed and every decoded field the block exposes is compared with the
// reference encoder: txid, wtxid, size, stripped size, coinbase marks, input count and the
// block weight; a block whose last transaction is cut must be refused with no nil entry.
// The same bodies run free under the Go race detector in a separate pass.
package main

import (
	"bytes"
	"flag"
	"fmt"
	"os"
	"os/exec"
	"runtime"
	"strings"

	"github.com/piotrnar/gocoin/lib/btc"
	"github.com/piotrnar/gocoin/lib/others/vshim/vsched"

	"verif/internal/ev"
	"verif/internal/explore"
	"verif/ref/reftx"
)

type scen struct {
	name   string
	sizes  []int // approximate serialized size per non-coinbase transaction; negative: segwit
	cut    int   // > 0: the block is truncated that many bytes before its end
	dohash bool
	qb, tb int
}

func scenarios() []scen {
	return []scen{
		{name: "three-packs-legacy-and-segwit", sizes: []int{4200, -4300, 200, -5000, 150}, dohash: true, qb: 3, tb: 1 << 20},
		{name: "four-packs-small-between-large", sizes: []int{-150, 4100, -4100, 90, 4100, -90, -4100}, dohash: true, qb: 2, tb: 4},
		{name: "two-packs-large-then-small", sizes: []int{-9000, 300}, dohash: true, qb: 3, tb: 1 << 20},
		{name: "last-transaction-cut", sizes: []int{4200, -4300, 4200, -300}, cut: 40, dohash: true, qb: 3, tb: 1 << 20},
		{name: "cut-in-second-pack", sizes: []int{4200, -4300, 600}, cut: 300, dohash: true, qb: 3, tb: 1 << 20},
	}
}

func mkBlock(sc scen) *reftx.Block {
	b := &reftx.Block{Header: reftx.Header{Version: 0x20000000, Time: 1700000000, Bits: 0x207fffff}}
	cb := &reftx.Tx{Version: 1}
	cb.In = []reftx.In{{Vout: 0xffffffff, Script: []byte{2, 0x10, 0x27}, Sequence: 0xffffffff, Witness: [][]byte{make([]byte, 32)}}}
	cb.Out = []reftx.Out{{Value: 50e8, Script: []byte{0x51}}, {Value: 0, Script: append([]byte{0x6a, 0x24, 0xaa, 0x21, 0xa9, 0xed}, make([]byte, 32)...)}}
	b.Txs = append(b.Txs, cb)
	for i, sz := range sc.sizes {
		t := &reftx.Tx{Version: 2, LockTime: uint32(i)}
		var h [32]byte
		for j := range h {
			h[j] = byte(17*i + j + 1)
		}
		nin := 1 + i%3
		for k := 0; k < nin; k++ {
			h[0] = byte(k)
			t.In = append(t.In, reftx.In{Prev: h, Vout: uint32(k), Sequence: 0xfffffffe})
		}
		t.Out = []reftx.Out{{Value: uint64(1000 + i), Script: []byte{0x51}}, {Value: uint64(2000 + i), Script: []byte{0x00, 0x14, 1, 2, 3, 4, 5, 6, 7, 8, 9, 10, 11, 12, 13, 14, 15, 16, 17, 18, 19, 20}}}
		pad := sz
		if pad < 0 {
			pad = -pad
		}
		fill := bytes.Repeat([]byte{byte(0x30 + i)}, pad)
		if sz < 0 {
			for k := range t.In {
				t.In[k].Witness = [][]byte{{byte(k)}}
			}
			t.In[0].Witness = [][]byte{fill[:len(fill)/2], fill[len(fill)/2:]}
		} else {
			t.In[0].Script = fill // decoding does not judge script size limits
		}
		b.Txs = append(b.Txs, t)
	}
	return b
}

type want struct {
	raw                 []byte
	txid, wtxid         [][32]byte
	size, base, nin     []int
	segwit              []bool
	weight, inputs, ntx int
}

func mkWant(sc scen) *want {
	b := mkBlock(sc)
	w := &want{raw: b.Bytes(), weight: b.Weight(), ntx: len(b.Txs)}
	for _, t := range b.Txs {
		w.txid = append(w.txid, t.TxID())
		w.wtxid = append(w.wtxid, t.WTxID())
		w.size = append(w.size, t.Size())
		w.base = append(w.base, t.BaseSize())
		w.nin = append(w.nin, len(t.In))
		w.segwit = append(w.segwit, t.HasWitness())
		w.inputs += len(t.In)
	}
	if sc.cut > 0 {
		w.raw = w.raw[:len(w.raw)-sc.cut]
	}
	return w
}

// judge compares one decoded block with the reference; "" = equal.
func judge(sc scen, w *want, bl *btc.Block, err error) string {
	if sc.cut > 0 {
		if err == nil {
			return "cut-block-accepted: BuildTxListExt returned no error for a block whose last transaction is cut"
		}
		for i, t := range bl.Txs {
			if t == nil {
				return fmt.Sprintf("nil-entry-after-error: Txs[%d] is nil after the error return", i)
			}
		}
		return ""
	}
	if err != nil {
		return "valid-block-refused: " + err.Error()
	}
	if len(bl.Txs) != w.ntx {
		return fmt.Sprintf("tx-count: %d decoded, %d encoded", len(bl.Txs), w.ntx)
	}
	for i, t := range bl.Txs {
		if t == nil {
			return fmt.Sprintf("nil-entry: Txs[%d]", i)
		}
		if t.Hash.Hash != w.txid[i] {
			return fmt.Sprintf("txid-differs: tx %d has %x, reference %x", i, t.Hash.Hash[:8], w.txid[i][:8])
		}
		if i > 0 && t.WTxID().Hash != w.wtxid[i] {
			return fmt.Sprintf("wtxid-differs: tx %d has %x, reference %x", i, t.WTxID().Hash[:8], w.wtxid[i][:8])
		}
		if int(t.Size) != w.size[i] || int(t.NoWitSize) != w.base[i] {
			return fmt.Sprintf("size-differs: tx %d size %d/%d, reference %d/%d", i, t.Size, t.NoWitSize, w.size[i], w.base[i])
		}
		if len(t.TxIn) != w.nin[i] || (t.SegWit != nil) != w.segwit[i] {
			return fmt.Sprintf("shape-differs: tx %d", i)
		}
		for _, o := range t.TxOut {
			if o.WasCoinbase != (i == 0) {
				return fmt.Sprintf("coinbase-mark-wrong: output of tx %d has WasCoinbase=%v", i, o.WasCoinbase)
			}
		}
	}
	if int(bl.BlockWeight) != w.weight {
		return fmt.Sprintf("block-weight-differs: %d, reference %d", bl.BlockWeight, w.weight)
	}
	if bl.TotalInputs != w.inputs {
		return fmt.Sprintf("total-inputs-differs: %d, reference %d", bl.TotalInputs, w.inputs)
	}
	return ""
}

func decode(sc scen, w *want) (*btc.Block, error) {
	raw := append([]byte{}, w.raw...)
	bl, err := btc.NewBlock(raw)
	if err != nil {
		return nil, err
	}
	err = bl.BuildTxListExt(sc.dohash)
	return bl, err
}

func runScen(sc scen, w *want, ch vsched.Chooser) (*vsched.Sched, string, string) {
	var bl *btc.Block
	var err error
	s := vsched.Run(func() { bl, err = decode(sc, w) }, ch, 20000)
	errs := ""
	if s.Deadlock == "" && s.Panic == "" && !s.HorizonHit() {
		if bl == nil {
			errs = "valid-block-refused: NewBlock: " + fmt.Sprint(err)
		} else {
			errs = judge(sc, w, bl, err)
		}
	}
	return s, "decoded", errs
}

func classify(name string) explore.Classifier {
	return func(x, def *explore.Exec) *explore.Viol {
		mk := func(k, what string) *explore.Viol {
			return &explore.Viol{Key: "concurrent/" + name + "/" + k, What: what, Scenario: name}
		}
		switch {
		case x.Panic != "":
			return mk("panic", explore.Short(x.Panic, 500))
		case x.Horizon:
			return nil
		case x.Deadlock != "":
			return mk("deadlock", x.Deadlock)
		case x.Err != "":
			return mk(strings.SplitN(x.Err, ":", 2)[0], x.Err)
		}
		return nil
	}
}

var (
	worker   = flag.String("worker", "", "internal: scenario to explore (prefixes on stdin)")
	bound    = flag.Int("bound", 2, "deviation bound")
	racePass = flag.Int("racepass", 0, "internal: free-running iterations (binary built with -race)")
)

func main() {
	for _, a := range os.Args[1:] {
		if strings.HasPrefix(a, "--racepass") {
			flag.Parse()
			for it := 0; it < *racePass; it++ {
				for _, sc := range scenarios() {
					w := mkWant(sc)
					bl, err := decode(sc, w)
					if bl == nil {
						fmt.Println("racepass-fail", sc.name, err)
					} else if e := judge(sc, w, bl, err); e != "" {
						fmt.Println("racepass-fail", sc.name, e)
					}
				}
			}
			fmt.Println("racepass-done")
			return
		}
	}
	r := ev.Start("C09", "model_checking")
	if *worker != "" {
		for _, sc := range scenarios() {
			if sc.name == *worker {
				sc, w := sc, mkWant(sc)
				explore.WorkerMain(func(ch vsched.Chooser) (*vsched.Sched, string, string) { return runScen(sc, w, ch) }, *bound, classify(sc.name), ev.Out)
				os.Exit(0)
			}
		}
		ev.HarnessError("unknown scenario")
	}
	total, maxPts := 0, 0
	per := map[string]interface{}{}
	var samples []interface{}
	exhaustive := true
	for _, sc := range scenarios() {
		sc, w := sc, mkWant(sc)
		B := sc.qb
		if r.Thorough() {
			B = sc.tb
		}
		// vacuity guard: the block must really be split into at least two packs
		if n := packs(sc, w); n < 2 {
			ev.HarnessError("scenario %s: only %d pack(s)", sc.name, n)
		}
		run := func(ch vsched.Chooser) (*vsched.Sched, string, string) { return runScen(sc, w, ch) }
		exe, _ := os.Executable()
		def, res, err := explore.Sharded(run, B, runtime.NumCPU(), classify(sc.name), exe, []string{"--worker", sc.name, "--bound", fmt.Sprint(B), "--tier", r.Tier})
		if err != nil {
			ev.HarnessError("scenario %s: %v", sc.name, err)
		}
		if def.Horizon || def.Err != "" && false {
			ev.HarnessError("scenario %s: horizon hit by the default schedule", sc.name)
		}
		for _, v := range res.Viol {
			r.Report(v.Key, v.What, v)
		}
		total += res.Execs
		if res.MaxPoints > maxPts {
			maxPts = res.MaxPoints
		}
		if res.Horizon > 0 {
			exhaustive = false
		}
		per[sc.name] = map[string]interface{}{"schedules": res.Execs, "per_deviation_count": res.PerBound, "decision_points_max": res.MaxPoints, "deviation_bound": B, "horizon_hits": res.Horizon, "packs": packs(sc, w), "transactions": w.ntx, "bytes": len(w.raw)}
		samples = append(samples, map[string]interface{}{"scenario": sc.name, "tx_sizes": w.size, "cut": sc.cut})
	}
	raceRuns, raceReports := 0, 0
	if bin := ev.OutDir() + "/bin/c09s-race"; fileExists(bin) {
		iters := 200
		if r.Thorough() {
			iters = 3000
		}
		for _, procs := range []string{"2", "16"} {
			cmd := exec.Command(bin, fmt.Sprint("--racepass=", iters))
			cmd.Env = append(os.Environ(), "GOMAXPROCS="+procs, "GORACE=halt_on_error=0 exitcode=0")
			var werr strings.Builder
			cmd.Stderr = &werr
			out, err := cmd.Output()
			if err != nil || !strings.Contains(string(out), "racepass-done") {
				if strings.Contains(werr.String(), "gocoin/lib/btc.") && (strings.Contains(werr.String(), "fatal error") || strings.Contains(werr.String(), "panic:")) {
					r.Report("concurrent/free-running-crash", "the free-running pass crashed inside lib/btc: "+explore.Short(werr.String(), 1200), map[string]interface{}{"gomaxprocs": procs})
					continue
				}
				ev.HarnessError("race pass failed: %v %s", err, explore.Short(werr.String(), 800))
			}
			raceRuns += iters * len(scenarios())
			if i := strings.Index(string(out), "racepass-fail"); i >= 0 {
				r.Report("concurrent/free-running-oracle-failed", explore.Short(string(out)[i:], 400), nil)
			}
			for _, rep := range strings.Split(werr.String(), "WARNING: DATA RACE")[1:] {
				raceReports++
				if strings.Contains(rep, "gocoin/lib/btc") {
					r.Report("concurrent/data-race", "Go race detector report: "+explore.Short(rep, 1200), map[string]interface{}{"gomaxprocs": procs})
				}
			}
		}
	}
	r.Finish(map[string]interface{}{
		"states":                        len(per),
		"transitions":                   total,
		"schedules":                     total,
		"decision_points_max":           maxPts,
		"scenarios":                     per,
		"traces_validated_against_impl": total,
		"race_pass_runs":                raceRuns,
		"race_pass_reports":             raceReports,
		"samples":                       samples,
		"exhaustive":                    exhaustive,
		"rule":                          "blocks of 2-8 transactions (legacy and segwit, 90 B - 9 KiB) that BuildTxListExt splits into 2-4 hashing packs; every schedule with at most deviation_bound non-default decisions at its synchronisation operations (goroutine start, atomic add, WaitGroup); decoded txid / wtxid / sizes / coinbase marks / input count / block weight compared with the reference encoder; cut blocks must be refused without nil entries",
	}, []string{"scheduling points are synchronisation operations only (DRF assumption); the free-running race-detector pass covers unsynchronised accesses"})
}

// packs counts the hashing packs BuildTxListExt makes for this block (its 4096-byte rule).
func packs(sc scen, w *want) int {
	n, acc := 0, 0
	last := w.ntx
	for i := 0; i < last; i++ {
		acc += w.size[i]
		if acc >= 4096 {
			n++
			acc = 0
		}
	}
	if acc > 0 {
		n++
	}
	return n
}

func fileExists(p string) bool { _, err := os.Stat(p); return err == nil }
