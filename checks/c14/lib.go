package main

import (
	"bytes"
	"crypto/hmac"
	"crypto/sha256"
	"crypto/sha512"
	"encoding/hex"
	"fmt"
	"math/big"
	"strings"

	"github.com/piotrnar/gocoin/lib/btc"
	"github.com/piotrnar/gocoin/lib/others/bip39"

	"verif/ref/refaddr"
	"verif/ref/refhd"
)

// ---------------------------------------------------------------- bookkeeping

type finding struct {
	key, what string
	replay    map[string]interface{}
	order     string // deterministic tie-break
}

type stats struct {
	classes map[string]int
	evals   int
	finds   []finding
	notes   map[string]int
	counts  map[string]int
}

func newStats() *stats {
	return &stats{classes: map[string]int{}, notes: map[string]int{}, counts: map[string]int{}}
}

func (s *stats) add(fam, ref, impl string) {
	s.classes[fam+"|"+ref+"|"+impl]++
	s.evals++
}

func (s *stats) fail(key, what string, replay map[string]interface{}, order string) {
	if len(s.finds) > 40 {
		return
	}
	s.finds = append(s.finds, finding{key, what, replay, order})
}

func (s *stats) merge(o *stats) {
	for k, v := range o.classes {
		s.classes[k] += v
	}
	for k, v := range o.notes {
		s.notes[k] += v
	}
	for k, v := range o.counts {
		s.counts[k] += v
	}
	s.evals += o.evals
	s.finds = append(s.finds, o.finds...)
}

func printable(b []byte) string {
	var sb strings.Builder
	for _, c := range b {
		if c >= 32 && c < 127 {
			sb.WriteByte(c)
		} else {
			fmt.Fprintf(&sb, "\\x%02x", c)
		}
	}
	return sb.String()
}

func guard(f func()) (pan string) {
	defer func() {
		if p := recover(); p != nil {
			pan = fmt.Sprint(p)
		}
	}()
	f()
	return
}

// ---------------------------------------------------------------- BIP32 library part

var idxSet = []uint32{0, 1, 0x7fffffff, 0x80000000, 0x80000001, 0xffffffff}

// cmpNode compares one gocoin HDWallet node (private) with the reference key.
// Returns false (after recording a finding) when they differ.
func cmpNode(st *stats, fam string, im *btc.HDWallet, rk *refhd.Key, ver uint32, seed []byte, testnet bool, path []uint32) bool {
	rp := map[string]interface{}{"kind": "hd", "seed": hex.EncodeToString(seed), "testnet": testnet, "path": refhd.PathString(path)}
	ord := fmt.Sprintf("%04d|%s|%x", len(path), refhd.PathString(path), seed)
	ps := refhd.PathString(path)
	bad := func(field, what string) bool {
		st.add(fam, "ref:key", "impl:differs:"+field)
		st.fail("lib/hd-private-derivation/"+field, fmt.Sprintf("seed %x path %s: %s", seed, ps, what), rp, ord)
		return false
	}
	wantKey := append([]byte{0}, rk.PrivBytes()...)
	if !bytes.Equal(im.Key, wantKey) {
		return bad("key", fmt.Sprintf("private key %x, BIP32 gives %x", im.Key, wantKey))
	}
	if !bytes.Equal(im.ChCode, rk.Chain) {
		return bad("chaincode", fmt.Sprintf("chain code %x, BIP32 gives %x", im.ChCode, rk.Chain))
	}
	if im.Depth != rk.Depth || im.I != rk.Index || im.Checksum != rk.ParentFP {
		return bad("metadata", fmt.Sprintf("depth/index/fingerprint %d/%d/%x, BIP32 gives %d/%d/%x", im.Depth, im.I, im.Checksum, rk.Depth, rk.Index, rk.ParentFP))
	}
	// root-cause check first: the public key gocoin computes for this private key
	if cls, gp, wp := pubMismatch(rk.PrivBytes()); cls != "" {
		st.add(fam, "ref:key", "impl:public-key-"+cls)
		st.fail("lib/public-from-private/"+cls, fmt.Sprintf("seed %x path %s: btc.PublicFromPrivate(%x, compressed) = %x, the public key is %x (Pub(), the fingerprint and non-hardened children of this node are wrong in consequence)", seed, ps, rk.PrivBytes(), gp, wp), rp, ord)
		return false
	}
	want, _ := rk.Serialize(ver)
	var got, gotPub string
	if p := guard(func() { got = im.String(); gotPub = im.Pub().String() }); p != "" {
		return bad("panic", "String()/Pub() panics: "+p)
	}
	if got != want {
		return bad("serialization", fmt.Sprintf("String() = %s, BIP32 gives %s", got, want))
	}
	wantPub, _ := rk.Serialize(refhd.PublicVersion(ver))
	if gotPub != wantPub {
		return bad("pub-serialization", fmt.Sprintf("Pub().String() = %s, BIP32 gives %s", gotPub, wantPub))
	}
	// serialisation round trip through StringWallet, private and public
	for _, s := range []string{got, gotPub} {
		var w *btc.HDWallet
		var err error
		if p := guard(func() { w, err = btc.StringWallet(s) }); p != "" || err != nil {
			return bad("reimport", fmt.Sprintf("StringWallet(%s): %v %s", s, err, p))
		}
		if w.String() != s {
			return bad("reimport", fmt.Sprintf("StringWallet(%s).String() = %s", s, w.String()))
		}
	}
	// address of the node
	wantAddr := refaddr.EncodeP2PKH(refaddr.Hash160(rk.PubBytes()), testnet)
	var gotAddr string
	if p := guard(func() { gotAddr = im.PubAddr().String() }); p != "" || gotAddr != wantAddr {
		return bad("address", fmt.Sprintf("PubAddr() = %s %s, expected %s", gotAddr, p, wantAddr))
	}
	st.add(fam, "ref:key", "impl:same")
	if rk.PrivBytes()[0] == 0 {
		st.counts["hd_nodes_private_key_leading_zero_byte"]++
	}
	if rk.PubBytes()[1] == 0 {
		st.counts["hd_nodes_public_x_leading_zero_byte"]++
	}
	return true
}

// cmpPubChild compares public derivation parentPub.Child(i) with the reference
// and with the public part of the privately derived child.
func cmpPubChild(st *stats, fam string, parent *btc.HDWallet, rparent *refhd.Key, i uint32, child *btc.HDWallet, ver uint32, seed []byte, testnet bool, path []uint32) bool {
	full := append(append([]uint32{}, path...), i)
	rp := map[string]interface{}{"kind": "hd", "seed": hex.EncodeToString(seed), "testnet": testnet, "path": refhd.PathString(full)}
	ord := fmt.Sprintf("%04d|%s|%x", len(full), refhd.PathString(full), seed)
	bad := func(field, what string) bool {
		st.add(fam, "ref:pubkey", "impl:differs:"+field)
		st.fail("lib/hd-public-derivation/"+field, fmt.Sprintf("seed %x path %s (public derivation of the last step): %s", seed, refhd.PathString(full), what), rp, ord)
		return false
	}
	rc, err := rparent.Neuter().Child(i)
	if err != nil {
		st.notes["reference: BIP32 invalid child (skip)"]++
		return true
	}
	var pc *btc.HDWallet
	if p := guard(func() { pc = parent.Pub().Child(i) }); p != "" {
		return bad("panic", "Pub().Child() panics: "+p)
	}
	if !bytes.Equal(pc.Key, rc.PubBytes()) {
		return bad("key", fmt.Sprintf("public key %x, BIP32 CKDpub gives %x", pc.Key, rc.PubBytes()))
	}
	if !bytes.Equal(pc.ChCode, rc.Chain) || pc.Depth != rc.Depth || pc.I != rc.Index || pc.Checksum != rc.ParentFP {
		return bad("metadata", "chain code / depth / index / fingerprint differ from CKDpub")
	}
	want, _ := rc.Serialize(refhd.PublicVersion(ver))
	if pc.String() != want {
		return bad("serialization", fmt.Sprintf("String() = %s, BIP32 gives %s", pc.String(), want))
	}
	if child != nil {
		var viaPriv string
		guard(func() { viaPriv = child.Pub().String() })
		if viaPriv != want {
			return bad("private-vs-public", fmt.Sprintf("Child(i).Pub() = %s but Pub().Child(i) = %s", viaPriv, want))
		}
	}
	st.add(fam, "ref:pubkey", "impl:same")
	return true
}

// walkTree compares the whole index-set tree of the given depth below a seed.
func walkTree(st *stats, seed []byte, testnet bool, depth int) {
	ver := refhd.XPrv
	if testnet {
		ver = refhd.TPrv
	}
	rk, err := refhd.Master(seed)
	if err != nil {
		st.notes["reference: invalid master"]++
		return
	}
	var im *btc.HDWallet
	if p := guard(func() { im = btc.MasterKey(seed, testnet) }); p != "" {
		st.fail("lib/hd-private-derivation/panic", "MasterKey panics: "+p, map[string]interface{}{"kind": "hd", "seed": hex.EncodeToString(seed), "testnet": testnet, "path": "m"}, "0")
		return
	}
	var rec func(im *btc.HDWallet, rk *refhd.Key, path []uint32)
	rec = func(im *btc.HDWallet, rk *refhd.Key, path []uint32) {
		if !cmpNode(st, "hd-private", im, rk, ver, seed, testnet, path) {
			return
		}
		if len(path) == depth {
			return
		}
		for _, i := range idxSet {
			rc, err := rk.Child(i)
			if err != nil {
				st.notes["reference: BIP32 invalid child (skip)"]++
				continue
			}
			var c *btc.HDWallet
			if p := guard(func() { c = im.Child(i) }); p != "" {
				full := append(append([]uint32{}, path...), i)
				st.fail("lib/hd-private-derivation/panic", fmt.Sprintf("seed %x path %s: Child panics: %s", seed, refhd.PathString(full), p),
					map[string]interface{}{"kind": "hd", "seed": hex.EncodeToString(seed), "testnet": testnet, "path": refhd.PathString(full)}, "0")
				continue
			}
			if i < refhd.Hardened {
				cmpPubChild(st, "hd-public", im, rk, i, c, ver, seed, testnet, path)
			}
			rec(c, rc, append(append([]uint32{}, path...), i))
		}
	}
	rec(im, rk, nil)
}

// replayHD re-executes the comparison along one path.
func replayHD(st *stats, seed []byte, testnet bool, path []uint32) {
	ver := refhd.XPrv
	if testnet {
		ver = refhd.TPrv
	}
	rk, err := refhd.Master(seed)
	if err != nil {
		return
	}
	im := btc.MasterKey(seed, testnet)
	for n := 0; ; n++ {
		if !cmpNode(st, "hd-private", im, rk, ver, seed, testnet, path[:n]) || n == len(path) {
			return
		}
		i := path[n]
		if !directDerive(st, "hd-direct", rk, i, seed, path[:n]) {
			return
		}
		rc, err := rk.Child(i)
		if err != nil {
			return
		}
		c := im.Child(i)
		if i < refhd.Hardened {
			cmpPubChild(st, "hd-public", im, rk, i, c, ver, seed, testnet, path[:n])
		}
		im, rk = c, rc
	}
}

// leadingZeroSeed searches (pure hashing, no EC) a seed whose hardened child
// m/2147483648' has a private key starting with a zero byte.
func leadingZeroSeed(tag string) []byte {
	n256, _ := new(big.Int).SetString("fffffffffffffffffffffffffffffffebaaedce6af48a03bbfd25e8cd0364141", 16)
	for n := 0; n < 100000; n++ {
		seed := []byte(fmt.Sprintf("c14 leading zero search %s %d", tag, n))
		m := hmac.New(sha512.New, []byte("Bitcoin seed"))
		m.Write(seed)
		I := m.Sum(nil)
		k := new(big.Int).SetBytes(I[:32])
		if k.Sign() == 0 || k.Cmp(n256) >= 0 {
			continue
		}
		m = hmac.New(sha512.New, I[32:])
		m.Write([]byte{0})
		m.Write(I[:32])
		m.Write([]byte{0x80, 0, 0, 0})
		J := m.Sum(nil)
		il := new(big.Int).SetBytes(J[:32])
		if il.Cmp(n256) >= 0 {
			continue
		}
		c := il.Add(il, k)
		c.Mod(c, n256)
		if c.BitLen() <= 248 && c.Sign() != 0 {
			return seed
		}
	}
	return nil
}

// ---------------------------------------------------------------- public key of a private key

// smallYKeys: private keys whose public point has Y < 2^244 (two leading zero
// nibbles + one more), the first 40 of the chain k_{i+1} = SHA256(k_i),
// k_0 = SHA256("c14 small-y key search"), found by search. The property is
// re-verified with the reference at run time.
var smallYKeys = []string{
	"cf4c1644f88a5c9b7b09118f869491e4f13e52521e16a102e86fd3b273e6fe79", "0905f66b319c12b46976979141c189dbfb219ee6162d153a70a158cbc09f76c8",
	"3cbcf7b7a677efd8c2fb553037cc4a92023ffce68ee1ba944b5b60c6ec1914d0", "96622fa0828d1be80f431b0c43709e18e145001758184f676b0ae7a75bf545ee",
	"5d9bf845d2c177e029130780c101c00fb75099f51fd8e56d70a33d89d392cfa9", "4c866763dee108f14235328138567e9c9a58c813b598fee6fca56dc79825b8ff",
	"14a53789ec49993ae589c39a45458f2486243bee1cc21d3ff879854d7955f526", "48b6efb58260f87d8d3d000399b2c19c0f4a8124851a4d76053d12991f9f0252",
	"f9a7f548328bbb59a63b1cdcd87d26d087c9be29c449df65f71bdfeb37562e7f", "59fb8aec8476384b338444375ee043d6d65add94c2d62930137b509be0ff9c2c",
	"02366b73b7bea7046e347b2b7bbc3616e4420116e14e5baaf58d65bfe9a0a869", "8d916f90be6b79acbf378fe826400e3b8c2d07d8d0b41c5b14daf7b9bea60db5",
	"bc9cea7910ca70a8ad9ec45cff6ba0fbbef9cbba8a8f34dcff50e1e4723d56f4", "9fb3eeebd28d2946b2d920fdae6e7c1dbf93734c85c3f7c14a0e9b119340eff9",
	"27f63af6d30054e09ebb3d6a82841ddf4850a2aefecad43a60b6227942051d6f", "6a12f487b3675bc824744a8ad77886e953441060f68f32fe61bab3b8d6c1587a",
	"88774ae399f6ace12a827cb0e6a3752c87e1fd3a153a5d7bf22a5876a9670a53", "f4eaded71974520a6209a047ff53f05a6792532ea033f0d78e78ea5cb87e5d50",
	"2a187ef8e912b59b696ff99fce31efbd180eb66670eee7e6f42fbe0a6fce5678", "9a4a75e1b2c8dc6fdf2042b8e8e201e77b81cf52c648df0b596ae173e12e1868",
	"11f429cc870fe467509665c9ef940f466e49e38916498fde2ade3ea78a6275d3", "9504316b7a2deee9b13df8f031381ef6f79da01c16d716777f34e3e32ce27205",
	"f31421bc1126c494de9ede58673ee98b8be0489c715492f6174dd9b5fa9ee59a", "4c9f4fed3a6fca4e778c27f4659bd56cb44ee30322709e1daf76a570bfa1aa27",
	"7a281d1530be76659f0901e7fb6739241ddc50277dcef1d6f788ab242f64bc6d", "34cd5606669d213cdecb9ea9e4fd648e4eb1803bce98ef7d116b9a88d5676e5b",
	"eebdeb5831a52dae84f746fa4b84f68759bc026894495d6e885271e242d347f7", "9cf9bdf865016941264e994a8bb10d8ae0ec2217b6c3d8c42200d53ad646622c",
	"7452515e424f27ad613ebdd4f008a92a5fe5035a09212713eca7e0e13adcdcc6", "82f62f07c2fd34b212350a86a2a53b2d581e3e64a2ba9c8b13be54f176903cf8",
	"ac18ea6e3c65d0e6143a90c61b13581534495f90ccbce3df1c06aefd8cba9f8f", "19f46160b1ef96eb6440ef2f66b91badf2de4e684ec10f31baa9cdc8c01961ff",
	"f2a126aa4472bcbf08ddca0b7bf8a030124f51ebe2c3265f9fc5c98140e2167f", "3c64f4854147e443a8f6debacc947a77832307c3066e808773f0501f5789937d",
	"0cc068006f37a57243befee011d5c985bd719bff002532e241b65e033717f43a", "a3e16cc54ae185810a3b3d22a47162af9b1b91eae4a4d5c566862830e324d202",
	"1319b38c518dcfed92884106509d32e2b372bb24d6232629396aeffe5ed6bd56", "f09c44e4589fccd9b689805629ad179b320061e56d9195476377582639a2975c",
	"4069ea9ba2104521afa9da37541dbcf163048dfee7cb0820c27d596b0684e412", "ecf713cb3d8440eaf53575321dcf3ae604b48b1c0fefa915477aa4c5ef819ab6",
}

// pubMismatch compares btc.PublicFromPrivate (compressed) with the reference.
// Returns "" when equal, "wrong-y-parity" when only the parity byte differs,
// "mismatch" otherwise.
func pubMismatch(priv []byte) (class string, got, want []byte) {
	want, err := refhd.PubFromPriv(priv)
	if err != nil {
		return "", nil, nil
	}
	guard(func() { got = btc.PublicFromPrivate(priv, true) })
	switch {
	case bytes.Equal(got, want):
		return "", got, want
	case len(got) == 33 && bytes.Equal(got[1:], want[1:]):
		return "wrong-y-parity", got, want
	}
	return "mismatch", got, want
}

// evalPubFromPriv judges btc.PublicFromPrivate on one private key (compressed
// and uncompressed form).
func evalPubFromPriv(st *stats, fam string, priv []byte) {
	rp := map[string]interface{}{"kind": "privkey", "hex": hex.EncodeToString(priv)}
	ord := "0000|" + hex.EncodeToString(priv)
	cls, got, want := pubMismatch(priv)
	if cls != "" {
		st.add(fam, "ref:pubkey", "impl:"+cls)
		st.fail("lib/public-from-private/"+cls, fmt.Sprintf("btc.PublicFromPrivate(%x, compressed) = %x, the public key is %x", priv, got, want), rp, ord)
		return
	}
	wantU, _ := refhd.UncompressedFromPriv(priv)
	var gotU []byte
	guard(func() { gotU = btc.PublicFromPrivate(priv, false) })
	if !bytes.Equal(gotU, wantU) {
		st.add(fam, "ref:pubkey", "impl:uncompressed-differs")
		st.fail("lib/public-from-private/uncompressed-mismatch", fmt.Sprintf("btc.PublicFromPrivate(%x, uncompressed) = %x, the public key is %x", priv, gotU, wantU), rp, ord)
		return
	}
	st.add(fam, "ref:pubkey", "impl:same")
}

// ---------------------------------------------------------------- extended key strings

// evalXKey judges btc.StringWallet on one string.
func evalXKey(st *stats, fam, s string) {
	raw := []byte(s)
	rp := map[string]interface{}{"kind": "xkey", "hex": hex.EncodeToString(raw), "text": printable(raw)}
	ord := fmt.Sprintf("%06d|%x", len(raw), raw)
	rk, rver, rerr := refhd.Parse(s)
	var w *btc.HDWallet
	var ierr error
	if p := guard(func() { w, ierr = btc.StringWallet(s) }); p != "" {
		st.add(fam, "ref:"+xclass(rerr), "impl:panic")
		st.fail("lib/xkey-decode-panic", fmt.Sprintf("StringWallet(%q) panics: %s", printable(raw), p), rp, ord)
		return
	}
	iacc := ierr == nil
	switch {
	case rerr != nil && iacc:
		cls := xclass(rerr)
		switch cls {
		case "b58-char", "b58-checksum", "b58-short", "xkey-length":
			st.add(fam, "ref:refuse:"+cls, "impl:accept")
			st.fail("lib/xkey-accepted-invalid/"+cls, fmt.Sprintf("StringWallet(%q) accepts; reference: %v", printable(raw), rerr), rp, ord)
		default:
			// BIP32 "test vector 5" style content checks: not part of the property
			st.add(fam, "ref:refuse:"+cls+"(not judged)", "impl:accept")
			st.notes["StringWallet accepts an extended key BIP32 calls invalid: "+cls]++
		}
	case rerr == nil && !iacc:
		st.add(fam, "ref:accept", "impl:refuse")
		st.fail("lib/xkey-refused-valid", fmt.Sprintf("StringWallet(%q) refuses: %v", printable(raw), ierr), rp, ord)
	case rerr == nil:
		want, _ := rk.Serialize(rver)
		got := ""
		guard(func() { got = w.String() })
		keyOK := false
		if rk.Priv != nil {
			keyOK = bytes.Equal(w.Key, append([]byte{0}, rk.PrivBytes()...))
		} else {
			keyOK = bytes.Equal(w.Key, rk.PubBytes())
		}
		if got != want || want != s || !keyOK || !bytes.Equal(w.ChCode, rk.Chain) || w.Prefix != rver || w.Depth != rk.Depth || w.I != rk.Index || w.Checksum != rk.ParentFP {
			st.add(fam, "ref:accept", "impl:accept,other-fields")
			st.fail("lib/xkey-decode-mismatch", fmt.Sprintf("StringWallet(%q) decodes to other fields / re-encodes to %q", printable(raw), got), rp, ord)
			return
		}
		st.add(fam, "ref:accept", "impl:accept")
	default:
		st.add(fam, "ref:refuse:"+xclass(rerr), "impl:refuse")
	}
}

func xclass(err error) string {
	if err == nil {
		return "accept"
	}
	if c := refaddr.Class(err); c != "other" {
		return c
	}
	s := err.Error()
	if i := strings.IndexByte(s, ':'); i > 0 {
		return s[:i]
	}
	return "other"
}

var extraBytes = []byte{0x00, 0x7f, 0x80, 0xc3, 0xff}

// mutants: all single substitutions over 95 printable characters + 5 other bytes,
// all single insertions, deletions, single-letter case flips, transpositions of
// adjacent characters.
func mutants(s string, f func(kind, m string)) {
	var alpha []byte
	for c := byte(32); c < 127; c++ {
		alpha = append(alpha, c)
	}
	alpha = append(alpha, extraBytes...)
	b := []byte(s)
	for i := range b {
		for _, c := range alpha {
			if c != b[i] {
				m := append([]byte{}, b...)
				m[i] = c
				f("subst", string(m))
			}
		}
	}
	for i := 0; i <= len(b); i++ {
		for _, c := range alpha {
			f("insert", string(append(append(append([]byte{}, b[:i]...), c), b[i:]...)))
		}
	}
	for i := range b {
		f("delete", string(append(append([]byte{}, b[:i]...), b[i+1:]...)))
	}
	for i := 0; i+1 < len(b); i++ {
		if b[i] != b[i+1] {
			m := append([]byte{}, b...)
			m[i], m[i+1] = m[i+1], m[i]
			f("transpose", string(m))
		}
	}
}

// ---------------------------------------------------------------- BIP39 library part

func entropyPattern(id, n int) []byte {
	b := make([]byte, n)
	switch {
	case id == 0:
	case id == 1:
		for i := range b {
			b[i] = 0xff
		}
	case id == 2:
		for i := range b {
			b[i] = 0x80
		}
	case id == 3:
		for i := range b {
			b[i] = 0x7f
		}
	case id == 4:
		for i := range b {
			b[i] = byte(i)
		}
	case id == 5:
		b[n-1] = 1
	case id == 6:
		b[0] = 0x80
	default:
		h := sha256.Sum256([]byte(fmt.Sprint("c14 entropy ", id, n)))
		copy(b, h[:])
		if id%3 == 0 {
			b[0], b[1] = 0, 0 // leading zero bytes
		}
	}
	return b
}

// evalEntropy: entropy -> mnemonic -> entropy / seed on one entropy value.
func evalEntropy(st *stats, fam string, ent []byte, withSeed bool) {
	rp := map[string]interface{}{"kind": "bip39-entropy", "hex": hex.EncodeToString(ent), "seed": withSeed}
	ord := fmt.Sprintf("%04d|%x", len(ent), ent)
	want, rerr := refhd.Mnemonic(ent)
	var got string
	var ierr error
	if p := guard(func() { got, ierr = bip39.NewMnemonic(ent) }); p != "" {
		st.add(fam, "ref:"+okc(rerr), "impl:panic")
		st.fail("lib/bip39-newmnemonic-panic", fmt.Sprintf("NewMnemonic(%x) panics: %s", ent, p), rp, ord)
		return
	}
	if rerr != nil {
		if ierr == nil {
			st.add(fam, "ref:refuse", "impl:accept")
			st.fail("lib/bip39-entropy-length-accepted", fmt.Sprintf("NewMnemonic accepts %d bytes of entropy (%q)", len(ent), got), rp, ord)
			return
		}
		st.add(fam, "ref:refuse:entropy-length", "impl:refuse")
		return
	}
	if ierr != nil || got != want {
		st.add(fam, "ref:mnemonic", "impl:other")
		st.fail("lib/bip39-mnemonic-mismatch", fmt.Sprintf("NewMnemonic(%x) = %q (%v), BIP39 gives %q", ent, got, ierr, want), rp, ord)
		return
	}
	var back, raw []byte
	var e1, e2 error
	if p := guard(func() {
		back, e1 = bip39.EntropyFromMnemonic(want)
		raw, e2 = bip39.MnemonicToByteArray(want, true)
	}); p != "" {
		st.add(fam, "ref:mnemonic", "impl:panic")
		st.fail("lib/bip39-validate-panic", fmt.Sprintf("validating %q panics: %s", want, p), rp, ord)
		return
	}
	if e1 != nil || !bytes.Equal(back, ent) {
		st.add(fam, "ref:mnemonic", "impl:entropy-differs")
		st.fail("lib/bip39-entropy-roundtrip", fmt.Sprintf("EntropyFromMnemonic(%q) = %x (%v), expected %x", want, back, e1, ent), rp, ord)
		return
	}
	if e2 != nil || !bytes.Equal(raw, ent) {
		st.add(fam, "ref:mnemonic", "impl:bytearray-differs")
		st.fail("lib/bip39-mnemonic-to-bytearray", fmt.Sprintf("MnemonicToByteArray(%q, raw) = %x (%v), expected %x", want, raw, e2, ent), rp, ord)
		return
	}
	if withSeed {
		for _, pass := range []string{"", "TREZOR", "p\xc3\xa4ss w\xf6rd"} {
			var seed []byte
			var e error
			if p := guard(func() { seed, e = bip39.NewSeedWithErrorChecking(want, pass) }); p != "" || e != nil || !bytes.Equal(seed, refhd.Seed(want, pass)) {
				st.add(fam, "ref:seed", "impl:other")
				st.fail("lib/bip39-seed-mismatch", fmt.Sprintf("NewSeedWithErrorChecking(%q,%q) = %x (%v %s), BIP39 gives %x", want, pass, seed, e, p, refhd.Seed(want, pass)), rp, ord)
				return
			}
			st.add(fam, "ref:seed", "impl:same")
		}
	}
	st.add(fam, fmt.Sprintf("ref:mnemonic:%d-words", len(strings.Fields(want))), "impl:same,roundtrip-ok")
}

func okc(err error) string {
	if err != nil {
		return "refuse"
	}
	return "accept"
}

// evalMnemonic: validation verdict of one sentence (all four validating entry
// points of the package must agree with the reference).
func evalMnemonic(st *stats, fam, m string, strictSpaces bool) {
	rp := map[string]interface{}{"kind": "bip39-mnemonic", "text": m}
	ord := fmt.Sprintf("%06d|%s", len(m), m)
	ent, rerr := refhd.Entropy(m)
	var e1, e2, e3 error
	var back []byte
	if p := guard(func() {
		e1 = bip39.IsMnemonicValid(m)
		back, e2 = bip39.EntropyFromMnemonic(m)
		if strictSpaces {
			_, e3 = bip39.MnemonicToByteArray(m)
		}
	}); p != "" {
		st.add(fam, "ref:"+okc(rerr), "impl:panic")
		st.fail("lib/bip39-validate-panic", fmt.Sprintf("validating %q panics: %s", m, p), rp, ord)
		return
	}
	rc := "accept"
	if rerr != nil {
		rc = "refuse:" + xclass(rerr)
	}
	for name, e := range map[string]error{"IsMnemonicValid": e1, "EntropyFromMnemonic": e2, "MnemonicToByteArray": e3} {
		if name == "MnemonicToByteArray" && !strictSpaces {
			continue
		}
		if (e == nil) != (rerr == nil) {
			st.add(fam, "ref:"+rc, fmt.Sprintf("impl:%s-ok=%v", name, e == nil))
			if e == nil {
				st.fail("lib/bip39-invalid-mnemonic-accepted/"+xclass(rerr), fmt.Sprintf("%s(%q) accepts; reference: %v", name, m, rerr), rp, ord)
			} else {
				st.fail("lib/bip39-valid-mnemonic-refused", fmt.Sprintf("%s(%q) refuses: %v", name, m, e), rp, ord)
			}
			return
		}
	}
	if rerr == nil && !bytes.Equal(back, ent) {
		st.add(fam, "ref:accept", "impl:entropy-differs")
		st.fail("lib/bip39-entropy-roundtrip", fmt.Sprintf("EntropyFromMnemonic(%q) = %x, expected %x", m, back, ent), rp, ord)
		return
	}
	st.add(fam, "ref:"+rc, "impl:same")
}

// evalWIF: a private key exported as WIF (by the reference) must re-import as the same key, in
// the same form (compressed / uncompressed), with the address of that form, and re-export to
// the same string.
func evalWIF(st *stats, fam string, k []byte, compr bool, ver byte) {
	wif := refaddr.WIFEncode(k, compr, ver)
	form := "u"
	if compr {
		form = "c"
	}
	rp := map[string]interface{}{"kind": "wif", "hex": hex.EncodeToString(k), "text": fmt.Sprint(form, int(ver))}
	ord := "wif|" + wif
	var pa *btc.PrivateAddr
	var err error
	if p := guard(func() { pa, err = btc.DecodePrivateAddr(wif) }); p != "" || err != nil {
		st.add(fam, "ref:accept", "impl:refuses")
		st.fail("lib/wif-roundtrip/refused", fmt.Sprintf("btc.DecodePrivateAddr(%s) (key %x, compressed=%v): %v %s", wif, k, compr, err, p), rp, ord)
		return
	}
	pub, _ := refhd.PubFromPriv(k)
	if !compr {
		pub, _ = refhd.UncompressedFromPriv(k)
	}
	want := refaddr.B58CheckEncode(append([]byte{ver - 0x80}, refaddr.Hash160(pub)...))
	if !bytes.Equal(pa.Key, k) || !bytes.Equal(pa.BtcAddr.Pubkey, pub) || pa.BtcAddr.String() != want || pa.String() != wif {
		st.add(fam, "ref:same-key", "impl:differs")
		st.fail("lib/wif-roundtrip/differs", fmt.Sprintf("btc.DecodePrivateAddr(%s) (key %x, compressed=%v): key %x public key %x address %s re-export %s; expected public key %x address %s", wif, k, compr, pa.Key, pa.BtcAddr.Pubkey, pa.BtcAddr.String(), pa.String(), pub, want), rp, ord)
		return
	}
	st.add(fam, "ref:same-key", "impl:same")
}
