package main

import (
	"bytes"
	"crypto/hmac"
	"crypto/sha256"
	"crypto/sha512"
	"encoding/hex"
	"fmt"
	"math/big"
	"strings"

	"github.com/piotrnar/gocoin/lib/btc"
	"github.com/piotrnar/gocoin/lib/others/bip39"

	"verif/ref/refaddr"
	"verif/ref/refhd"
)

// ---------------------------------------------------------------- bookkeeping

type finding struct {
	key, what string
	replay    map[string]interface{}
	order     string // deterministic tie-break
}

type stats struct {
	classes map[string]int
	evals   int
	finds   []finding
	notes   map[string]int
	counts  map[string]int
}

func newStats() *stats {
	return &stats{classes: map[string]int{}, notes: map[string]int{}, counts: map[string]int{}}
}

func (s *stats) add(fam, ref, impl string) {
	s.classes[fam+"|"+ref+"|"+impl]++
	s.evals++
}

func (s *stats) fail(key, what string, replay map[string]interface{}, order string) {
	if len(s.finds) > 40 {
		return
	}
	s.finds = append(s.finds, finding{key, what, replay, order})
}

func (s *stats) merge(o *stats) {
	for k, v := range o.classes {
		s.classes[k] += v
	}
	for k, v := range o.notes {
		s.notes[k] += v
	}
	for k, v := range o.counts {
		s.counts[k] += v
	}
	s.evals += o.evals
	s.finds = append(s.finds, o.finds...)
}

func printable(b []byte) string {
	var sb strings.Builder
	for _, c := range b {
		if c >= 32 && c < 127 {
			sb.WriteByte(c)
		} else {
			fmt.Fprintf(&sb, "\\x%02x", c)
		}
	}
	return sb.String()
}

func guard(f func()) (pan string) {
	defer func() {
		if p := recover(); p != nil {
			pan = fmt.Sprint(p)
		}
	}()
	f()
	return
}

// ---------------------------------------------------------------- BIP32 library part

var idxSet = []uint32{0, 1, 0x7fffffff, 0x80000000, 0x80000001, 0xffffffff}

// cmpNode compares one gocoin HDWallet node (private) with the reference key.
// Returns false (after recording a finding) when they differ.
func cmpNode(st *stats, fam string, im *btc.HDWallet, rk *refhd.Key, ver uint32, seed []byte, testnet bool, path []uint32) bool {
	rp := map[string]interface{}{"kind": "hd", "seed": hex.EncodeToString(seed), "testnet": testnet, "path": refhd.PathString(path)}
	ord := fmt.Sprintf("%04d|%s|%x", len(path), refhd.PathString(path), seed)
	ps := refhd.PathString(path)
	bad := func(field, what string) bool {
		st.add(fam, "ref:key", "impl:differs:"+field)
		st.fail("lib/hd-private-derivation/"+field, fmt.Sprintf("seed %x path %s: %s", seed, ps, what), rp, ord)
		return false
	}
	wantKey := append([]byte{0}, rk.PrivBytes()...)
	if !bytes.Equal(im.Key, wantKey) {
		return bad("key", fmt.Sprintf("private key %x, BIP32 gives %x", im.Key, wantKey))
	}
	if !bytes.Equal(im.ChCode, rk.Chain) {
		return bad("chaincode", fmt.Sprintf("chain code %x, BIP32 gives %x", im.ChCode, rk.Chain))
	}
	if im.Depth != rk.Depth || im.I != rk.Index || im.Checksum != rk.ParentFP {
		return bad("metadata", fmt.Sprintf("depth/index/fingerprint %d/%d/%x, BIP32 gives %d/%d/%x", im.Depth, im.I, im.Checksum, rk.Depth, rk.Index, rk.ParentFP))
	}
	want, _ := rk.Serialize(ver)
	var got, gotPub string
	if p := guard(func() { got = im.String(); gotPub = im.Pub().String() }); p != "" {
		return bad("panic", "String()/Pub() panics: "+p)
	}
	if got != want {
		return bad("serialization", fmt.Sprintf("String() = %s, BIP32 gives %s", got, want))
	}
	wantPub, _ := rk.Serialize(refhd.PublicVersion(ver))
	if gotPub != wantPub {
		return bad("pub-serialization", fmt.Sprintf("Pub().String() = %s, BIP32 gives %s", gotPub, wantPub))
	}
	// serialisation round trip through StringWallet, private and public
	for _, s := range []string{got, gotPub} {
		var w *btc.HDWallet
		var err error
		if p := guard(func() { w, err = btc.StringWallet(s) }); p != "" || err != nil {
			return bad("reimport", fmt.Sprintf("StringWallet(%s): %v %s", s, err, p))
		}
		if w.String() != s {
			return bad("reimport", fmt.Sprintf("StringWallet(%s).String() = %s", s, w.String()))
		}
	}
	// address of the node
	wantAddr := refaddr.EncodeP2PKH(refaddr.Hash160(rk.PubBytes()), testnet)
	var gotAddr string
	if p := guard(func() { gotAddr = im.PubAddr().String() }); p != "" || gotAddr != wantAddr {
		return bad("address", fmt.Sprintf("PubAddr() = %s %s, expected %s", gotAddr, p, wantAddr))
	}
	st.add(fam, "ref:key", "impl:same")
	if rk.PrivBytes()[0] == 0 {
		st.counts["hd_nodes_private_key_leading_zero_byte"]++
	}
	if rk.PubBytes()[1] == 0 {
		st.counts["hd_nodes_public_x_leading_zero_byte"]++
	}
	return true
}

// cmpPubChild compares public derivation parentPub.Child(i) with the reference
// and with the public part of the privately derived child.
func cmpPubChild(st *stats, fam string, parent *btc.HDWallet, rparent *refhd.Key, i uint32, child *btc.HDWallet, ver uint32, seed []byte, testnet bool, path []uint32) bool {
	full := append(append([]uint32{}, path...), i)
	rp := map[string]interface{}{"kind": "hd", "seed": hex.EncodeToString(seed), "testnet": testnet, "path": refhd.PathString(full)}
	ord := fmt.Sprintf("%04d|%s|%x", len(full), refhd.PathString(full), seed)
	bad := func(field, what string) bool {
		st.add(fam, "ref:pubkey", "impl:differs:"+field)
		st.fail("lib/hd-public-derivation/"+field, fmt.Sprintf("seed %x path %s (public derivation of the last step): %s", seed, refhd.PathString(full), what), rp, ord)
		return false
	}
	rc, err := rparent.Neuter().Child(i)
	if err != nil {
		st.notes["reference: BIP32 invalid child (skip)"]++
		return true
	}
	var pc *btc.HDWallet
	if p := guard(func() { pc = parent.Pub().Child(i) }); p != "" {
		return bad("panic", "Pub().Child() panics: "+p)
	}
	if !bytes.Equal(pc.Key, rc.PubBytes()) {
		return bad("key", fmt.Sprintf("public key %x, BIP32 CKDpub gives %x", pc.Key, rc.PubBytes()))
	}
	if !bytes.Equal(pc.ChCode, rc.Chain) || pc.Depth != rc.Depth || pc.I != rc.Index || pc.Checksum != rc.ParentFP {
		return bad("metadata", "chain code / depth / index / fingerprint differ from CKDpub")
	}
	want, _ := rc.Serialize(refhd.PublicVersion(ver))
	if pc.String() != want {
		return bad("serialization", fmt.Sprintf("String() = %s, BIP32 gives %s", pc.String(), want))
	}
	if child != nil {
		var viaPriv string
		guard(func() { viaPriv = child.Pub().String() })
		if viaPriv != want {
			return bad("private-vs-public", fmt.Sprintf("Child(i).Pub() = %s but Pub().Child(i) = %s", viaPriv, want))
		}
	}
	st.add(fam, "ref:pubkey", "impl:same")
	return true
}

// walkTree compares the whole index-set tree of the given depth below a seed.
func walkTree(st *stats, seed []byte, testnet bool, depth int) {
	ver := refhd.XPrv
	if testnet {
		ver = refhd.TPrv
	}
	rk, err := refhd.Master(seed)
	if err != nil {
		st.notes["reference: invalid master"]++
		return
	}
	var im *btc.HDWallet
	if p := guard(func() { im = btc.MasterKey(seed, testnet) }); p != "" {
		st.fail("lib/hd-private-derivation/panic", "MasterKey panics: "+p, map[string]interface{}{"kind": "hd", "seed": hex.EncodeToString(seed), "testnet": testnet, "path": "m"}, "0")
		return
	}
	var rec func(im *btc.HDWallet, rk *refhd.Key, path []uint32)
	rec = func(im *btc.HDWallet, rk *refhd.Key, path []uint32) {
		if !cmpNode(st, "hd-private", im, rk, ver, seed, testnet, path) {
			return
		}
		if len(path) == depth {
			return
		}
		for _, i := range idxSet {
			rc, err := rk.Child(i)
			if err != nil {
				st.notes["reference: BIP32 invalid child (skip)"]++
				continue
			}
			var c *btc.HDWallet
			if p := guard(func() { c = im.Child(i) }); p != "" {
				full := append(append([]uint32{}, path...), i)
				st.fail("lib/hd-private-derivation/panic", fmt.Sprintf("seed %x path %s: Child panics: %s", seed, refhd.PathString(full), p),
					map[string]interface{}{"kind": "hd", "seed": hex.EncodeToString(seed), "testnet": testnet, "path": refhd.PathString(full)}, "0")
				continue
			}
			if i < refhd.Hardened {
				cmpPubChild(st, "hd-public", im, rk, i, c, ver, seed, testnet, path)
			}
			rec(c, rc, append(append([]uint32{}, path...), i))
		}
	}
	rec(im, rk, nil)
}

// replayHD re-executes the comparison along one path.
func replayHD(st *stats, seed []byte, testnet bool, path []uint32) {
	ver := refhd.XPrv
	if testnet {
		ver = refhd.TPrv
	}
	rk, err := refhd.Master(seed)
	if err != nil {
		return
	}
	im := btc.MasterKey(seed, testnet)
	for n := 0; ; n++ {
		if !cmpNode(st, "hd-private", im, rk, ver, seed, testnet, path[:n]) || n == len(path) {
			return
		}
		i := path[n]
		rc, err := rk.Child(i)
		if err != nil {
			return
		}
		c := im.Child(i)
		if i < refhd.Hardened {
			cmpPubChild(st, "hd-public", im, rk, i, c, ver, seed, testnet, path[:n])
		}
		im, rk = c, rc
	}
}

// leadingZeroSeed searches (pure hashing, no EC) a seed whose hardened child
// m/2147483648' has a private key starting with a zero byte.
func leadingZeroSeed(tag string) []byte {
	n256, _ := new(big.Int).SetString("fffffffffffffffffffffffffffffffebaaedce6af48a03bbfd25e8cd0364141", 16)
	for n := 0; n < 100000; n++ {
		seed := []byte(fmt.Sprintf("c14 leading zero search %s %d", tag, n))
		m := hmac.New(sha512.New, []byte("Bitcoin seed"))
		m.Write(seed)
		I := m.Sum(nil)
		k := new(big.Int).SetBytes(I[:32])
		if k.Sign() == 0 || k.Cmp(n256) >= 0 {
			continue
		}
		m = hmac.New(sha512.New, I[32:])
		m.Write([]byte{0})
		m.Write(I[:32])
		m.Write([]byte{0x80, 0, 0, 0})
		J := m.Sum(nil)
		il := new(big.Int).SetBytes(J[:32])
		if il.Cmp(n256) >= 0 {
			continue
		}
		c := il.Add(il, k)
		c.Mod(c, n256)
		if c.BitLen() <= 248 && c.Sign() != 0 {
			return seed
		}
	}
	return nil
}

// ---------------------------------------------------------------- extended key strings

// evalXKey judges btc.StringWallet on one string.
func evalXKey(st *stats, fam, s string) {
	raw := []byte(s)
	rp := map[string]interface{}{"kind": "xkey", "hex": hex.EncodeToString(raw), "text": printable(raw)}
	ord := fmt.Sprintf("%06d|%x", len(raw), raw)
	rk, rver, rerr := refhd.Parse(s)
	var w *btc.HDWallet
	var ierr error
	if p := guard(func() { w, ierr = btc.StringWallet(s) }); p != "" {
		st.add(fam, "ref:"+xclass(rerr), "impl:panic")
		st.fail("lib/xkey-decode-panic", fmt.Sprintf("StringWallet(%q) panics: %s", printable(raw), p), rp, ord)
		return
	}
	iacc := ierr == nil
	switch {
	case rerr != nil && iacc:
		cls := xclass(rerr)
		switch cls {
		case "b58-char", "b58-checksum", "b58-short", "xkey-length":
			st.add(fam, "ref:refuse:"+cls, "impl:accept")
			st.fail("lib/xkey-accepted-invalid/"+cls, fmt.Sprintf("StringWallet(%q) accepts; reference: %v", printable(raw), rerr), rp, ord)
		default:
			// BIP32 "test vector 5" style content checks: not part of the property
			st.add(fam, "ref:refuse:"+cls+"(not judged)", "impl:accept")
			st.notes["StringWallet accepts an extended key BIP32 calls invalid: "+cls]++
		}
	case rerr == nil && !iacc:
		st.add(fam, "ref:accept", "impl:refuse")
		st.fail("lib/xkey-refused-valid", fmt.Sprintf("StringWallet(%q) refuses: %v", printable(raw), ierr), rp, ord)
	case rerr == nil:
		want, _ := rk.Serialize(rver)
		got := ""
		guard(func() { got = w.String() })
		keyOK := false
		if rk.Priv != nil {
			keyOK = bytes.Equal(w.Key, append([]byte{0}, rk.PrivBytes()...))
		} else {
			keyOK = bytes.Equal(w.Key, rk.PubBytes())
		}
		if got != want || want != s || !keyOK || !bytes.Equal(w.ChCode, rk.Chain) || w.Prefix != rver || w.Depth != rk.Depth || w.I != rk.Index || w.Checksum != rk.ParentFP {
			st.add(fam, "ref:accept", "impl:accept,other-fields")
			st.fail("lib/xkey-decode-mismatch", fmt.Sprintf("StringWallet(%q) decodes to other fields / re-encodes to %q", printable(raw), got), rp, ord)
			return
		}
		st.add(fam, "ref:accept", "impl:accept")
	default:
		st.add(fam, "ref:refuse:"+xclass(rerr), "impl:refuse")
	}
}

func xclass(err error) string {
	if err == nil {
		return "accept"
	}
	if c := refaddr.Class(err); c != "other" {
		return c
	}
	s := err.Error()
	if i := strings.IndexByte(s, ':'); i > 0 {
		return s[:i]
	}
	return "other"
}

var extraBytes = []byte{0x00, 0x7f, 0x80, 0xc3, 0xff}

// mutants: all single substitutions over 95 printable characters + 5 other bytes,
// all single insertions, deletions, single-letter case flips, transpositions of
// adjacent characters.
func mutants(s string, f func(kind, m string)) {
	var alpha []byte
	for c := byte(32); c < 127; c++ {
		alpha = append(alpha, c)
	}
	alpha = append(alpha, extraBytes...)
	b := []byte(s)
	for i := range b {
		for _, c := range alpha {
			if c != b[i] {
				m := append([]byte{}, b...)
				m[i] = c
				f("subst", string(m))
			}
		}
	}
	for i := 0; i <= len(b); i++ {
		for _, c := range alpha {
			f("insert", string(append(append(append([]byte{}, b[:i]...), c), b[i:]...)))
		}
	}
	for i := range b {
		f("delete", string(append(append([]byte{}, b[:i]...), b[i+1:]...)))
	}
	for i := 0; i+1 < len(b); i++ {
		if b[i] != b[i+1] {
			m := append([]byte{}, b...)
			m[i], m[i+1] = m[i+1], m[i]
			f("transpose", string(m))
		}
	}
}

// ---------------------------------------------------------------- BIP39 library part

func entropyPattern(id, n int) []byte {
	b := make([]byte, n)
	switch {
	case id == 0:
	case id == 1:
		for i := range b {
			b[i] = 0xff
		}
	case id == 2:
		for i := range b {
			b[i] = 0x80
		}
	case id == 3:
		for i := range b {
			b[i] = 0x7f
		}
	case id == 4:
		for i := range b {
			b[i] = byte(i)
		}
	case id == 5:
		b[n-1] = 1
	case id == 6:
		b[0] = 0x80
	default:
		h := sha256.Sum256([]byte(fmt.Sprint("c14 entropy ", id, n)))
		copy(b, h[:])
		if id%3 == 0 {
			b[0], b[1] = 0, 0 // leading zero bytes
		}
	}
	return b
}

// evalEntropy: entropy -> mnemonic -> entropy / seed on one entropy value.
func evalEntropy(st *stats, fam string, ent []byte, withSeed bool) {
	rp := map[string]interface{}{"kind": "bip39-entropy", "hex": hex.EncodeToString(ent), "seed": withSeed}
	ord := fmt.Sprintf("%04d|%x", len(ent), ent)
	want, rerr := refhd.Mnemonic(ent)
	var got string
	var ierr error
	if p := guard(func() { got, ierr = bip39.NewMnemonic(ent) }); p != "" {
		st.add(fam, "ref:"+okc(rerr), "impl:panic")
		st.fail("lib/bip39-newmnemonic-panic", fmt.Sprintf("NewMnemonic(%x) panics: %s", ent, p), rp, ord)
		return
	}
	if rerr != nil {
		if ierr == nil {
			st.add(fam, "ref:refuse", "impl:accept")
			st.fail("lib/bip39-entropy-length-accepted", fmt.Sprintf("NewMnemonic accepts %d bytes of entropy (%q)", len(ent), got), rp, ord)
			return
		}
		st.add(fam, "ref:refuse:entropy-length", "impl:refuse")
		return
	}
	if ierr != nil || got != want {
		st.add(fam, "ref:mnemonic", "impl:other")
		st.fail("lib/bip39-mnemonic-mismatch", fmt.Sprintf("NewMnemonic(%x) = %q (%v), BIP39 gives %q", ent, got, ierr, want), rp, ord)
		return
	}
	var back, raw []byte
	var e1, e2 error
	if p := guard(func() {
		back, e1 = bip39.EntropyFromMnemonic(want)
		raw, e2 = bip39.MnemonicToByteArray(want, true)
	}); p != "" {
		st.add(fam, "ref:mnemonic", "impl:panic")
		st.fail("lib/bip39-validate-panic", fmt.Sprintf("validating %q panics: %s", want, p), rp, ord)
		return
	}
	if e1 != nil || !bytes.Equal(back, ent) {
		st.add(fam, "ref:mnemonic", "impl:entropy-differs")
		st.fail("lib/bip39-entropy-roundtrip", fmt.Sprintf("EntropyFromMnemonic(%q) = %x (%v), expected %x", want, back, e1, ent), rp, ord)
		return
	}
	if e2 != nil || !bytes.Equal(raw, ent) {
		st.add(fam, "ref:mnemonic", "impl:bytearray-differs")
		st.fail("lib/bip39-mnemonic-to-bytearray", fmt.Sprintf("MnemonicToByteArray(%q, raw) = %x (%v), expected %x", want, raw, e2, ent), rp, ord)
		return
	}
	if withSeed {
		for _, pass := range []string{"", "TREZOR", "p\xc3\xa4ss w\xf6rd"} {
			var seed []byte
			var e error
			if p := guard(func() { seed, e = bip39.NewSeedWithErrorChecking(want, pass) }); p != "" || e != nil || !bytes.Equal(seed, refhd.Seed(want, pass)) {
				st.add(fam, "ref:seed", "impl:other")
				st.fail("lib/bip39-seed-mismatch", fmt.Sprintf("NewSeedWithErrorChecking(%q,%q) = %x (%v %s), BIP39 gives %x", want, pass, seed, e, p, refhd.Seed(want, pass)), rp, ord)
				return
			}
			st.add(fam, "ref:seed", "impl:same")
		}
	}
	st.add(fam, fmt.Sprintf("ref:mnemonic:%d-words", len(strings.Fields(want))), "impl:same,roundtrip-ok")
}

func okc(err error) string {
	if err != nil {
		return "refuse"
	}
	return "accept"
}

// evalMnemonic: validation verdict of one sentence (all four validating entry
// points of the package must agree with the reference).
func evalMnemonic(st *stats, fam, m string, strictSpaces bool) {
	rp := map[string]interface{}{"kind": "bip39-mnemonic", "text": m}
	ord := fmt.Sprintf("%06d|%s", len(m), m)
	ent, rerr := refhd.Entropy(m)
	var e1, e2, e3 error
	var back []byte
	if p := guard(func() {
		e1 = bip39.IsMnemonicValid(m)
		back, e2 = bip39.EntropyFromMnemonic(m)
		if strictSpaces {
			_, e3 = bip39.MnemonicToByteArray(m)
		}
	}); p != "" {
		st.add(fam, "ref:"+okc(rerr), "impl:panic")
		st.fail("lib/bip39-validate-panic", fmt.Sprintf("validating %q panics: %s", m, p), rp, ord)
		return
	}
	rc := "accept"
	if rerr != nil {
		rc = "refuse:" + xclass(rerr)
	}
	for name, e := range map[string]error{"IsMnemonicValid": e1, "EntropyFromMnemonic": e2, "MnemonicToByteArray": e3} {
		if name == "MnemonicToByteArray" && !strictSpaces {
			continue
		}
		if (e == nil) != (rerr == nil) {
			st.add(fam, "ref:"+rc, fmt.Sprintf("impl:%s-ok=%v", name, e == nil))
			if e == nil {
				st.fail("lib/bip39-invalid-mnemonic-accepted/"+xclass(rerr), fmt.Sprintf("%s(%q) accepts; reference: %v", name, m, rerr), rp, ord)
			} else {
				st.fail("lib/bip39-valid-mnemonic-refused", fmt.Sprintf("%s(%q) refuses: %v", name, m, e), rp, ord)
			}
			return
		}
	}
	if rerr == nil && !bytes.Equal(back, ent) {
		st.add(fam, "ref:accept", "impl:entropy-differs")
		st.fail("lib/bip39-entropy-roundtrip", fmt.Sprintf("EntropyFromMnemonic(%q) = %x, expected %x", m, back, ent), rp, ord)
		return
	}
	st.add(fam, "ref:"+rc, "impl:same")
}
