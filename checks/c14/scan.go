package main

// Family "derived values with leading zero bytes".
//
// Every arithmetic result in the HD code is a 256-bit number that has to be
// written as exactly 32 bytes: child private key (IL + k) mod n, IL itself, the
// chain code, the X coordinate of the child public key. Values with leading zero
// bytes are the ones a width bug corrupts; one child in 256 has one leading zero
// byte, one in 65536 has two. They are FOUND with the reference (refhd): a
// deterministic scan of child indexes under fixed parents costs one HMAC-SHA512
// and one modular addition per index (no point multiplication), so 10^5..10^6
// indexes per parent are cheap. gocoin's derivation (HDWallet.Child,
// DeriveNextPrivate, DeriveNextPublic, Pub(), serialisation and re-import,
// hardened and non-hardened grandchildren, and the wallet binary with hdpath
// through such a node) is then executed on exactly those nodes and compared with
// the reference. Nothing is cached on disk; scan bounds are constants.

import (
	"bytes"
	"crypto/sha256"
	"encoding/hex"
	"fmt"
	"runtime"
	"sort"
	"sync"

	"github.com/piotrnar/gocoin/lib/btc"

	"verif/internal/ev"
	"verif/ref/refaddr"
	"verif/ref/refhd"
)

func leadZeros(b []byte) int {
	n := 0
	for n < len(b) && b[n] == 0 {
		n++
	}
	return n
}

// special is one node found by a scan.
type special struct {
	seed   []byte
	parent []uint32
	index  uint32
	// leading zero bytes of the child's private key, IL, chain code, public X
	zKey, zIL, zChain, zPubX int
	why                      string
}

func (s *special) path() []uint32 { return append(append([]uint32{}, s.parent...), s.index) }

type scanSpec struct {
	seed     string
	parent   string
	hardened bool
}

// scanSpecs: fixed parents. The seeds are also usable as wallet passwords
// (type 4, bip39=0: BIP32 seed = password bytes).
var scanSpecs = []scanSpec{
	{"c14 scan seed A", "m/0", false},
	{"c14 scan seed A", "m/0", true},
	{"c14 scan seed B", "m/44'/0'", false},
	{"c14 scan seed B", "m/44'/0'", true},
}

type scanResult struct {
	spec    scanSpec
	scanned int
	// counts over the whole scanned range
	nKey1, nKey2, nKey3, nChain1, nChain2, nIL1, nIL2 int
	nodes                                             []*special // the ones selected for testing
}

// scanChildren scans indexes [0,n) (plus 2^31 when hardened) under one parent in
// parallel and selects: every child whose private key or chain code or IL has
// >= 2 leading zero bytes, and the first cap1 children with exactly one leading
// zero byte in the private key / chain code / IL.
func scanChildren(sp scanSpec, n uint32, cap1 int) *scanResult {
	m, err := refhd.Master([]byte(sp.seed))
	if err != nil {
		ev.HarnessError("scan seed: %v", err)
	}
	pp, err := refhd.ParsePath(sp.parent)
	if err != nil {
		ev.HarnessError("scan parent: %v", err)
	}
	par, err := m.Path(pp)
	if err != nil {
		ev.HarnessError("scan parent: %v", err)
	}
	type hit struct {
		i                 uint32
		zKey, zIL, zChain int
	}
	workers := runtime.NumCPU()
	hits := make([][]hit, workers)
	var wg sync.WaitGroup
	for w := 0; w < workers; w++ {
		w := w
		wg.Add(1)
		go func() {
			defer wg.Done()
			for i := uint32(w); i < n; i += uint32(workers) {
				idx := i
				if sp.hardened {
					idx |= refhd.Hardened
				}
				il, key, chain, ok := par.ChildScalars(idx)
				if !ok {
					continue
				}
				if key[0] == 0 || chain[0] == 0 || il[0] == 0 {
					hits[w] = append(hits[w], hit{idx, leadZeros(key), leadZeros(il), leadZeros(chain)})
				}
			}
		}()
	}
	wg.Wait()
	var all []hit
	for _, h := range hits {
		all = append(all, h...)
	}
	sort.Slice(all, func(a, b int) bool { return all[a].i < all[b].i })
	res := &scanResult{spec: sp, scanned: int(n)}
	c1 := map[string]int{}
	for _, h := range all {
		if h.zKey >= 1 {
			res.nKey1++
		}
		if h.zKey >= 2 {
			res.nKey2++
		}
		if h.zKey >= 3 {
			res.nKey3++
		}
		if h.zChain >= 1 {
			res.nChain1++
		}
		if h.zChain >= 2 {
			res.nChain2++
		}
		if h.zIL >= 1 {
			res.nIL1++
		}
		if h.zIL >= 2 {
			res.nIL2++
		}
		why := ""
		switch {
		case h.zKey >= 2:
			why = fmt.Sprintf("private key with %d leading zero bytes", h.zKey)
		case h.zChain >= 2:
			why = fmt.Sprintf("chain code with %d leading zero bytes", h.zChain)
		case h.zIL >= 2:
			why = fmt.Sprintf("IL with %d leading zero bytes", h.zIL)
		case h.zKey == 1 && c1["key"] < cap1:
			c1["key"]++
			why = "private key with 1 leading zero byte"
		case h.zChain == 1 && c1["chain"] < cap1:
			c1["chain"]++
			why = "chain code with 1 leading zero byte"
		case h.zIL == 1 && c1["il"] < cap1:
			c1["il"]++
			why = "IL with 1 leading zero byte"
		}
		if why != "" {
			res.nodes = append(res.nodes, &special{seed: []byte(sp.seed), parent: pp, index: h.i, zKey: h.zKey, zIL: h.zIL, zChain: h.zChain, why: why})
		}
	}
	return res
}

// scanPubX derives the first n non-hardened children of one parent completely
// with the reference (one point multiplication each) and selects those whose
// public X coordinate starts with a zero byte. Run as a unit (it is the
// expensive scan); the nodes found are evaluated in place.
func scanPubX(st *stats, sp scanSpec, from, to uint32) {
	m, err := refhd.Master([]byte(sp.seed))
	if err != nil {
		ev.HarnessError("%v", err)
	}
	pp, _ := refhd.ParsePath(sp.parent)
	par, err := m.Path(pp)
	if err != nil {
		ev.HarnessError("%v", err)
	}
	for i := from; i < to; i++ {
		c, err := par.Child(i)
		if err != nil {
			continue
		}
		st.counts["leading_zero_scan_pubx_indexes"]++
		if z := leadZeros(c.PubBytes()[1:]); z >= 1 {
			st.counts["leading_zero_nodes_pubx>=1"]++
			evalSpecial(st, &special{seed: []byte(sp.seed), parent: pp, index: i, zPubX: z, why: fmt.Sprintf("public key X with %d leading zero bytes", z)}, false)
		}
	}
}

// directDerive compares btc.DeriveNextPrivate / btc.DeriveNextPublic on the
// exact operands of one derivation step with the reference.
func directDerive(st *stats, fam string, rpar *refhd.Key, i uint32, seed []byte, path []uint32) bool {
	full := append(append([]uint32{}, path...), i)
	rp := map[string]interface{}{"kind": "hd", "seed": hex.EncodeToString(seed), "testnet": false, "path": refhd.PathString(full)}
	ord := fmt.Sprintf("%04d|%s|%x", len(full), refhd.PathString(full), seed)
	il, key, _, ok := rpar.ChildScalars(i)
	if !ok {
		return true
	}
	var got []byte
	if p := guard(func() { got = btc.DeriveNextPrivate(il, rpar.PrivBytes()) }); p != "" || !bytes.Equal(got, key) {
		st.add(fam, "ref:scalar", "impl:differs")
		st.fail("lib/derive-next-private/mismatch", fmt.Sprintf("seed %q step %s: btc.DeriveNextPrivate(IL=%x, k=%x) = %x (%d bytes) %s, (IL+k) mod n as 32 bytes is %x",
			seed, refhd.PathString(full), il, rpar.PrivBytes(), got, len(got), p, key), rp, ord)
		return false
	}
	// argument order must not matter
	if p := guard(func() { got = btc.DeriveNextPrivate(rpar.PrivBytes(), il) }); p != "" || !bytes.Equal(got, key) {
		st.add(fam, "ref:scalar", "impl:differs")
		st.fail("lib/derive-next-private/mismatch", fmt.Sprintf("seed %q step %s: btc.DeriveNextPrivate(k, IL) = %x (%d bytes) %s, expected %x", seed, refhd.PathString(full), got, len(got), p, key), rp, ord)
		return false
	}
	st.add(fam, "ref:scalar", "impl:same")
	if i < refhd.Hardened {
		rc, err := rpar.Neuter().Child(i)
		if err != nil {
			return true
		}
		var gp []byte
		if p := guard(func() { gp = btc.DeriveNextPublic(rpar.PubBytes(), il) }); p != "" || !bytes.Equal(gp, rc.PubBytes()) {
			st.add(fam, "ref:point", "impl:differs")
			st.fail("lib/derive-next-public/mismatch", fmt.Sprintf("seed %q step %s: btc.DeriveNextPublic(P=%x, IL=%x) = %x %s, IL*G + P is %x",
				seed, refhd.PathString(full), rpar.PubBytes(), il, gp, p, rc.PubBytes()), rp, ord)
			return false
		}
		st.add(fam, "ref:point", "impl:same")
	}
	return true
}

var (
	refParentMu    sync.Mutex
	refParentCache = map[string]*refhd.Key{}
)

// refParent derives (once per run, in memory) the reference key of a scan parent.
func refParent(seed []byte, parent []uint32) *refhd.Key {
	k := string(seed) + "|" + refhd.PathString(parent)
	refParentMu.Lock()
	defer refParentMu.Unlock()
	if r, ok := refParentCache[k]; ok {
		return r
	}
	var r *refhd.Key
	if m, err := refhd.Master(seed); err == nil {
		if p, err := m.Path(parent); err == nil {
			r = p
		}
	}
	refParentCache[k] = r
	return r
}

// evalSpecial runs gocoin's derivation on one special node and below it.
func evalSpecial(st *stats, s *special, thorough bool) {
	fam := "hd-leading-zero"
	seed := s.seed
	rpar := refParent(seed, s.parent)
	if rpar == nil {
		return
	}
	var ipar *btc.HDWallet
	if p := guard(func() {
		ipar = btc.MasterKey(seed, false)
		for _, x := range s.parent {
			ipar = ipar.Child(x)
		}
	}); p != "" {
		st.fail("lib/hd-private-derivation/panic", fmt.Sprintf("seed %q: deriving %s panics: %s", seed, refhd.PathString(s.parent), p),
			map[string]interface{}{"kind": "hd", "seed": hex.EncodeToString(seed), "testnet": false, "path": refhd.PathString(s.parent)}, "0")
		return
	}
	var step func(ipar *btc.HDWallet, rpar *refhd.Key, path []uint32, i uint32, depth int)
	step = func(ipar *btc.HDWallet, rpar *refhd.Key, path []uint32, i uint32, depth int) {
		full := append(append([]uint32{}, path...), i)
		if !directDerive(st, fam+"-direct", rpar, i, seed, path) {
			return
		}
		rc, err := rpar.Child(i)
		if err != nil {
			return
		}
		var ic *btc.HDWallet
		if p := guard(func() { ic = ipar.Child(i) }); p != "" {
			st.fail("lib/hd-private-derivation/panic", fmt.Sprintf("seed %q path %s: Child panics: %s", seed, refhd.PathString(full), p),
				map[string]interface{}{"kind": "hd", "seed": hex.EncodeToString(seed), "testnet": false, "path": refhd.PathString(full)}, "0")
			return
		}
		if i < refhd.Hardened && !cmpPubChild(st, fam+"-public", ipar, rpar, i, ic, refhd.XPrv, seed, false, path) {
			return
		}
		if !cmpNode(st, fam, ic, rc, refhd.XPrv, seed, false, full) {
			return
		}
		if depth == 0 {
			return
		}
		// below the special node: hardened and non-hardened children (the special
		// key / chain code / public key are the HMAC inputs there)
		kids := []uint32{0x80000000, 0}
		if thorough {
			kids = []uint32{0x80000000, 0xffffffff, 0, 1, 0x7fffffff}
		}
		for _, j := range kids {
			step(ic, rc, full, j, depth-1)
		}
	}
	step(ipar, rpar, s.parent, s.index, 1)
	st.counts["leading_zero_nodes_tested"]++
}

// ---- seeds / passwords whose FIRST value has leading zero bytes (pure hashing scans)

// masterZeroSeeds: seeds "c14 master scan <n>" whose BIP32 master private key or
// master chain code has >= 2 leading zero bytes (first `want` of n < bound).
func masterZeroSeeds(bound, want int) (out []string) {
	for n := 0; n < bound && len(out) < want; n++ {
		s := fmt.Sprint("c14 master scan ", n)
		I := refhd.HMAC512([]byte("Bitcoin seed"), []byte(s))
		if leadZeros(I[:32]) >= 2 || leadZeros(I[32:]) >= 2 {
			out = append(out, s)
		}
	}
	return
}

// type3ZeroPasswords: passwords "c14 t3 scan <n>" for which one of the first two
// keys of the type-3 chain as read from wallet/wallet.go (pinned, not judged:
// only used to pick inputs) has >= 2 leading zero bytes.
func type3ZeroPasswords(bound, want int) (out []string) {
	for n := 0; n < bound && len(out) < want; n++ {
		s := fmt.Sprint("c14 t3 scan ", n)
		sk := refaddr.Sha256d([]byte(s))
		k0 := refaddr.Sha256d(sk)
		k1 := refaddr.Sha256d(append(append([]byte{}, sk...), 0))
		if leadZeros(k0) >= 2 || leadZeros(k1) >= 2 {
			out = append(out, s)
		}
	}
	return
}

// bip39ZeroPasswords: passwords "c14 bip39 scan <n>" whose generated entropy
// (formula pinned from the source, only used to pick inputs) has >= 2 leading
// zero bytes for the given word count.
func bip39ZeroPasswords(words, bound, want int) (out []string) {
	for n := 0; n < bound && len(out) < want; n++ {
		s := fmt.Sprint("c14 bip39 scan ", n)
		h := sha256.New()
		h.Write([]byte(s))
		h.Write([]byte("|gocoin|"))
		h.Write([]byte(s))
		h.Write([]byte{byte(words / 3 * 32)})
		if leadZeros(h.Sum(nil)) >= 2 {
			out = append(out, s)
		}
	}
	return
}

func pathWithIndex(parent []uint32, i uint32, tail ...uint32) string {
	return refhd.PathString(append(append(append([]uint32{}, parent...), i), tail...))
}
