// C14: wallet keys are a deterministic function of the seed and follow BIP32/BIP39.
//
// Shape-mode exploration in two parts:
//
//	(i) library: btc.HDWallet private and public derivation over the complete
//	    index-set tree {0,1,2^31-1,2^31,2^31+1,2^32-1}^<=3 below several seeds,
//	    serialisation round trips, btc.StringWallet on every single-character
//	    mutation of valid extended keys, the bip39 package on all entropy lengths x
//	    patterns and on every single-word substitution of valid mnemonics -
//	    compared with verif/ref/refhd (BIP32/BIP39 from the BIP texts);
//	(ii) the wallet BINARY built from the tree, driven as a black box over a
//	    family of configurations (seed passwords x type 3/4 x hdpath x hdsubs x
//	    bip39 x scrypt x atype x network); -l, -dump, -xprv, -words outputs are
//	    parsed and judged against refhd/refaddr; every configuration runs twice.
package main

import (
	"bytes"
	"encoding/hex"
	"encoding/json"
	"flag"
	"fmt"
	"math/big"
	"os"
	"runtime"
	"sort"
	"strings"
	"sync"
	"time"

	"verif/internal/ev"
	"verif/ref/refaddr"
	"verif/ref/refhd"
	"verif/ref/refsecp"
)

type unit func(st *stats)

func runUnits(units []unit, total *stats, r *ev.Run, workers int) {
	var mu sync.Mutex
	ch := make(chan unit, len(units))
	for _, u := range units {
		ch <- u
	}
	close(ch)
	var wg sync.WaitGroup
	for w := 0; w < workers; w++ {
		wg.Add(1)
		go func() {
			defer wg.Done()
			for u := range ch {
				if r.OverBudget() {
					mu.Lock()
					total.counts["units_skipped_over_budget"]++
					mu.Unlock()
					continue
				}
				st := newStats()
				u(st)
				mu.Lock()
				total.merge(st)
				mu.Unlock()
			}
		}()
	}
	wg.Wait()
}

// ---------------------------------------------------------------- configuration family

var (
	nets   = []string{"main", "test", "ltc", "ltctest"}
	atypes = []string{"p2kh", "segwit", "bech32", "tap", "pks"}
	paths  = []string{
		"m/0'", "m/0", "m/7", "m/2147483647'",
		"m/0'/0", "m/0/0'",
		"m/44'/0'/0'/0/0", "m/84'/1'/2'/1/5",
		"m/1/2/3/4/5/6", "m/1'/2'/3'/4'/5'/6'",
		"m/0/2147483647'/1/2147483646'/2", "m/49'/0'/2147483000'/0",
	}
	hdsubsA = []int{1, 2, 3}
	bip39A  = []int{0, 12, 15, 18, 21, 24, -1, -2} // -2 = -1 with a BIP39 passphrase
	scryptA = []int{0, 1, 10}
)

var (
	parityT4 = []int{775, 1169, 4912, 8243, 12689, 13615, 15874, 16926}
	parityT3 = []int{2899, 3260, 7214}
)

// extraCfgs: wallet configurations selected by the leading-zero scans (scan.go).
var extraCfgs []*cfg

type seedKind struct {
	name   string
	pass   []byte
	secret string
}

var seedKinds = []seedKind{
	{"ascii", []byte("password"), ""},
	{"ascii-space-newline", []byte("correct horse battery staple\n"), ""},
	{"non-ascii-bytes", []byte{0x80, 0xff, 0x00, 0x7f, 'x', 0xc3, 0xa9, 0x0a, 0x0d}, ""},
	{"secret-seed-prefix", []byte("def"), "abc"},
	{"secret-seed-non-ascii", []byte("p\xe4ss"), "s\xc3\xa9cr=t x"},
	{"long", []byte(strings.Repeat("0123456789abcdef", 20)), ""},
}

// userMnemonic renders a valid mnemonic the way a user might type it.
func userMnemonic(words int, variant int) []byte {
	ent := entropyPattern(7+words+variant, words/3*4)
	m, err := refhd.Mnemonic(ent)
	if err != nil {
		ev.HarnessError("%v", err)
	}
	w := strings.Fields(m)
	switch variant % 4 {
	case 0:
		return []byte(m)
	case 1:
		return []byte(strings.ToUpper(m) + "\n")
	case 2:
		var sb strings.Builder
		for i, x := range w {
			fmt.Fprintf(&sb, "%d. %s,\r\n", i+1, x)
		}
		return []byte(sb.String())
	default:
		return []byte("  " + strings.Join(w, "  \t") + " \xc3\xa9 ")
	}
}

func mkCfg(typ int, net, atype, path string, subs, b39, scr int, sk seedKind, keycnt int, variant int) *cfg {
	c := &cfg{Type: typ, Net: net, AType: atype, HDPath: path, HDSubs: subs, BIP39: b39, Scrypt: scr, KeyCnt: keycnt,
		PassHex: hex.EncodeToString(sk.pass), SecretSeed: sk.secret}
	if typ == 3 {
		c.HDPath, c.HDSubs, c.BIP39 = "", 1, 0
	} else if p, err := refhd.ParsePath(path); err == nil && len(p) >= 1 {
		// keys are last+i: stay inside the index space 0..2^31-1 of the element
		for c.KeyCnt > 1 && (p[len(p)-1]&0x7fffffff)+uint32(c.KeyCnt-1) > 0x7fffffff {
			c.KeyCnt--
		}
		// sub-accounts increment the second-to-last element: stay inside 0..2^31-1
		for len(p) >= 2 && c.HDSubs > 1 && (p[len(p)-2]&0x7fffffff)+uint32(c.HDSubs-1) > 0x7fffffff {
			c.HDSubs--
		}
	}
	if b39 < 0 {
		c.BIP39 = -1
		c.Scrypt = 0 // the wallet refuses scrypt in mnemonic mode
		c.SecretSeed = ""
		wc := []int{12, 15, 18, 21, 24}[variant%5]
		c.PassHex = hex.EncodeToString(userMnemonic(wc, variant))
		if b39 == -2 {
			c.P39 = []string{"TREZOR", "p\xc3\xa4ss phrase", "x"}[variant%3]
		}
	}
	return c
}

func configs(thorough bool) []*cfg {
	var out []*cfg
	seen := map[string]bool{}
	add := func(c *cfg) {
		if !seen[c.id()] {
			seen[c.id()] = true
			out = append(out, c)
		}
	}
	if thorough {
		// full product path x bip39 x atype x net, other dimensions rotating, 2 replicates
		for pi, p := range paths {
			for bi, b := range bip39A {
				for ai, a := range atypes {
					for ni, n := range nets {
						for rep := 0; rep < 2; rep++ {
							k := pi + 3*bi + 5*ai + 7*ni + 11*rep
							add(mkCfg(4, n, a, p, hdsubsA[k%3], b, scryptA[(k/3)%3], seedKinds[(k/2)%len(seedKinds)], 1+k%3, k))
						}
					}
				}
			}
		}
		for _, n := range nets {
			for _, a := range atypes {
				for si, sk := range seedKinds {
					for ci, scr := range []int{0, 4, 12} {
						add(mkCfg(3, n, a, "", 1, 0, scr, sk, 2+(si+ci)%4, 0))
					}
				}
			}
		}
	} else {
		// path x bip39 in full, 3 replicates rotating the other dimensions so that every
		// pair (atype, net) and every value of every dimension occurs many times
		for pi, p := range paths {
			for bi, b := range bip39A {
				for rep := 0; rep < 3; rep++ {
					k := pi*7 + bi*3 + rep
					a := atypes[(pi+bi+rep)%5]
					n := nets[(pi+2*bi+rep/1+rep*rep)%4]
					add(mkCfg(4, n, a, p, hdsubsA[(pi+bi+2*rep)%3], b, scryptA[(bi+rep)%3], seedKinds[(pi+5*bi+rep)%len(seedKinds)], 1+(k%3), k))
				}
			}
		}
		for ni, n := range nets {
			for ai, a := range atypes {
				for rep := 0; rep < 3; rep++ {
					si := (ni + 2*ai + 2*rep) % len(seedKinds)
					add(mkCfg(3, n, a, "", 1, 0, []int{0, 4}[(ni+ai+rep)%2], seedKinds[si], 2+(si+ai)%3, 0))
				}
			}
		}
	}
	// raw-seed mode has the complete external oracle (BIP32 master of the password
	// bytes): every seed kind x rotating paths / nets / address types
	nraw := 4
	if thorough {
		nraw = len(paths)
	}
	for si, sk := range seedKinds {
		for j := 0; j < nraw; j++ {
			k := si*5 + j*7
			add(mkCfg(4, nets[(si+j)%4], atypes[(si+2*j)%5], paths[(si*2+j*5)%len(paths)], hdsubsA[k%3], 0, 0, sk, 1+k%3, k))
		}
	}
	// directed: passwords whose FIRST key has a public point with Y < 2^244 (the first
	// eight / three of the enumerations "c14 parity <n>" / "c14 parity t3 <n>", found by
	// search; the property is re-verified with the reference in main)
	for i, n := range parityT4 {
		add(mkCfg(4, nets[i%4], atypes[i%5], "m/0'", 1, 0, 0, seedKind{"parity", []byte(fmt.Sprint("c14 parity ", n)), ""}, 1, 0))
	}
	for i, n := range parityT3 {
		add(mkCfg(3, nets[i%4], atypes[(i+1)%5], "", 1, 0, 0, seedKind{"parity", []byte(fmt.Sprint("c14 parity t3 ", n)), ""}, 1, 0))
	}
	// configurations through derived values with leading zero bytes (built in main from the scans)
	for _, c := range extraCfgs {
		add(c)
	}
	// invalid user mnemonics must be refused (bip39=-1)
	good := strings.Fields(string(userMnemonic(12, 0)))
	bad := map[string][]string{
		"checksum":     append(append([]string{}, good[:11]...), altWord(good[11])),
		"unknown-word": append(append([]string{}, good[:11]...), "gocoin"),
		"word-count":   good[:11],
		"word-count13": append(append([]string{}, good...), "abandon"),
	}
	var reasons []string
	for k := range bad {
		reasons = append(reasons, k)
	}
	sort.Strings(reasons)
	for i, reason := range reasons {
		c := mkCfg(4, nets[i%4], atypes[i%5], paths[i%len(paths)], 1, 0, 0, seedKinds[0], 2, 0)
		c.BIP39 = -1
		c.PassHex = hex.EncodeToString([]byte(strings.Join(bad[reason], " ")))
		c.Invalid = reason
		if _, err := refhd.Entropy(strings.Join(bad[reason], " ")); err == nil {
			ev.HarnessError("constructed invalid mnemonic (%s) is valid", reason)
		}
		add(c)
	}
	return out
}

// altWord returns a list word that makes the 12-word checksum wrong.
func altWord(w string) string {
	for _, x := range refhd.Words() {
		if x != w {
			return x // callers verify that the result is invalid
		}
	}
	return ""
}

// ---------------------------------------------------------------- replay

var replayFile = flag.String("replay", "", "replay one recorded case (no explorer)")

func replay(file string) {
	b, err := os.ReadFile(file)
	if err != nil {
		ev.HarnessError("%v", err)
	}
	var rec struct {
		Replay struct {
			Kind    string `json:"kind"`
			Hex     string `json:"hex"`
			Text    string `json:"text"`
			Seed    string `json:"seed"`
			Testnet bool   `json:"testnet"`
			Path    string `json:"path"`
			Config  *cfg   `json:"config"`
		} `json:"replay"`
	}
	if err := json.Unmarshal(b, &rec); err != nil {
		ev.HarnessError("%v", err)
	}
	var raw map[string]map[string]interface{}
	json.Unmarshal(b, &raw)
	st := newStats()
	rp := rec.Replay
	switch rp.Kind {
	case "hd":
		seed, _ := hex.DecodeString(rp.Seed)
		p, err := refhd.ParsePath(rp.Path)
		if err != nil {
			ev.HarnessError("%v", err)
		}
		replayHD(st, seed, rp.Testnet, p)
	case "privkey":
		k, _ := hex.DecodeString(rp.Hex)
		evalPubFromPriv(st, "replay", k)
	case "wif":
		k, _ := hex.DecodeString(rp.Hex)
		var ver int
		fmt.Sscan(rp.Text[1:], &ver)
		evalWIF(st, "replay", k, rp.Text[0] == 'c', byte(ver))
	case "xkey":
		s, _ := hex.DecodeString(rp.Hex)
		evalXKey(st, "replay", string(s))
	case "bip39-entropy":
		e, _ := hex.DecodeString(rp.Hex)
		evalEntropy(st, "replay", e, true)
	case "bip39-mnemonic":
		evalMnemonic(st, "replay", rp.Text, true)
	case "bin":
		base := ev.Scratch("c14-replay")
		buildWallet(base)
		evalConfig(st, rp.Config, base)
		os.RemoveAll(base)
		fmt.Fprintf(ev.Out, "replay: wallet.cfg:\n%s", rp.Config.file())
	default:
		ev.HarnessError("unknown replay kind %q", rp.Kind)
	}
	for k := range st.classes {
		fmt.Fprintln(ev.Out, "replay: outcome", k)
	}
	if len(st.finds) == 0 {
		fmt.Fprintln(ev.Out, "replay: case passes")
		return
	}
	for _, f := range st.finds {
		fmt.Fprintf(ev.Out, "replay: %s: %s\n", f.key, f.what)
	}
	os.Exit(1)
}

func main() {
	r := ev.Start("C14", "exploration")
	vaddr, err := refaddr.Selfcheck(ev.Repo())
	if err != nil {
		ev.HarnessError("reference refaddr fails its vectors: %v", err)
	}
	vhd, err := refhd.Selfcheck(ev.Repo())
	if err != nil {
		ev.HarnessError("reference refhd fails its vectors: %v", err)
	}
	if *replayFile != "" {
		replay(*replayFile)
		return
	}
	if r.Thorough() {
		r.Budget = 18 * time.Minute
	} else {
		r.Budget = 150 * time.Second
	}
	nvec := 0
	for _, v := range vaddr {
		nvec += v
	}
	for k, v := range vhd {
		if k != "wordlist_words_pinned" && k != "refsecp_assertions" {
			nvec += v
		}
	}
	total := newStats()
	samples := &ev.Samples{N: 10}
	var units []unit

	// ================= (i) library =================
	// ---- BIP32 trees
	var seeds [][]byte
	for i, n := range []int{16, 32, 64} {
		h := refaddr.Sha256d([]byte(fmt.Sprint("c14 library seed ", i)))
		seeds = append(seeds, append(h, refaddr.Sha256d(h)...)[:n])
	}
	tv1, _ := hex.DecodeString("000102030405060708090a0b0c0d0e0f")
	seeds = append(seeds, tv1)
	for _, tag := range []string{"a", "b"} {
		s := leadingZeroSeed(tag)
		if s == nil {
			ev.HarnessError("no leading-zero seed found")
		}
		seeds = append(seeds, s)
	}
	if r.Thorough() {
		for i := 0; i < 10; i++ {
			seeds = append(seeds, []byte(fmt.Sprint("c14 thorough library seed ", i)))
		}
		for _, tag := range []string{"c", "d", "e", "f"} {
			seeds = append(seeds, leadingZeroSeed(tag))
		}
	}
	for si, seed := range seeds {
		seed := seed
		testnet := si%3 == 2
		samples.Add(map[string]interface{}{"family": "hd tree", "seed": hex.EncodeToString(seed), "testnet": testnet, "indexes": idxSet, "depth": 3})
		// one unit per first-level index to spread the load
		units = append(units, func(st *stats) { walkTree(st, seed, testnet, 3) })
	}
	if r.Thorough() {
		for i := 0; i < 2; i++ {
			seed := []byte(fmt.Sprint("c14 depth-4 seed ", i))
			units = append(units, func(st *stats) { walkTree(st, seed, false, 4) })
		}
	}

	// ---- directed: public key of private keys whose Y coordinate is small (Y < 2^244)
	units = append(units, func(st *stats) {
		lim := new(big.Int).Lsh(big.NewInt(1), 244)
		for _, h := range smallYKeys {
			k, _ := hex.DecodeString(h)
			if pt := refsecp.MulG(new(big.Int).SetBytes(k)); pt.Y.Cmp(lim) >= 0 {
				ev.HarnessError("smallYKeys entry %s does not have Y < 2^244", h)
			}
			evalPubFromPriv(st, "pubkey-small-y", k)
		}
		for _, n := range parityT4 {
			m, err := refhd.Master([]byte(fmt.Sprint("c14 parity ", n)))
			if err != nil {
				ev.HarnessError("%v", err)
			}
			ch, err := m.Child(0x80000000)
			if err != nil || ch.Pub.Y.Cmp(lim) >= 0 {
				ev.HarnessError("password 'c14 parity %d': first key does not have Y < 2^244", n)
			}
		}
		for i := 0; i < 40; i++ {
			k := refaddr.Sha256d([]byte(fmt.Sprint("c14 ordinary key ", i)))
			evalPubFromPriv(st, "pubkey-ordinary", k)
		}
	})
	// WIF export -> import of 4000 keys in both forms (compressed / uncompressed) x main / test
	// version: enough keys for every value of the first checksum byte to occur behind an
	// uncompressed key (the byte that sits where the compression flag of a compressed key is)
	units = append(units, func(st *stats) {
		seenFirst := map[byte]bool{}
		for i := 0; i < 4000; i++ {
			k := refaddr.Sha256d([]byte(fmt.Sprint("c14 wif key ", i)))
			for _, compr := range []bool{true, false} {
				ver := byte(0x80)
				if i%2 == 1 {
					ver = 0xef
				}
				wif := refaddr.WIFEncode(k, compr, ver)
				if !compr {
					raw, _ := refaddr.B58Decode(wif)
					if len(raw) == 37 {
						seenFirst[raw[33]] = true
					}
				}
				evalWIF(st, "wif-roundtrip", k, compr, ver)
			}
		}
		if !seenFirst[0x01] || len(seenFirst) < 250 {
			ev.HarnessError("wif-roundtrip: only %d values of the first checksum byte (0x01 present: %v)", len(seenFirst), seenFirst[0x01])
		}
	})
	// directed: an HD path that reaches such a key (found by the thorough tier)
	units = append(units, func(st *stats) {
		p, _ := refhd.ParsePath("m/2147483647/2147483647/2147483647'/1'")
		replayHD(st, []byte("c14 depth-4 seed 1"), false, p)
	})

	// ---- extended key strings: every single-character mutation
	var xkeys []string
	{
		m, _ := refhd.Master(seeds[0])
		k, _ := m.Path([]uint32{0x80000000, 1})
		x1, _ := m.Serialize(refhd.XPrv)
		x2, _ := k.Serialize(refhd.XPub)
		x3, _ := k.Serialize(refhd.TPrv)
		x4, _ := k.Serialize(refhd.ZPub)
		x5, _ := k.Serialize(refhd.YPrv)
		x6, _ := m.Serialize(refhd.VPub)
		xkeys = []string{x1, x2, x3, x4}
		if r.Thorough() {
			xkeys = append(xkeys, x5, x6)
		}
	}
	for _, x := range xkeys {
		x := x
		samples.Add(map[string]string{"family": "xkey mutation seed", "xkey": x})
		units = append(units, func(st *stats) {
			evalXKey(st, "xkey-seed", x)
			mutants(x, func(kind, m string) { evalXKey(st, "xkey-"+kind, m) })
			// every other value of each of the four checksum bytes
			full, _ := refaddr.B58Decode(x)
			for pos := len(full) - 4; pos < len(full); pos++ {
				for v := 0; v < 256; v++ {
					if byte(v) != full[pos] {
						m := append([]byte{}, full...)
						m[pos] = byte(v)
						evalXKey(st, "xkey-checksum-bytes", refaddr.B58Encode(m))
					}
				}
			}
		})
	}
	// structurally invalid extended keys with a valid checksum (BIP32 test vector 5 style; recorded, judged only for length)
	units = append(units, func(st *stats) {
		m, _ := refhd.Master(seeds[1])
		prv, _ := m.Serialize(refhd.XPrv)
		pub, _ := m.Serialize(refhd.XPub)
		for _, base := range []string{prv, pub} {
			payload, _ := refaddr.B58CheckDecode(base)
			mod := func(f func(p []byte) []byte) {
				p := f(append([]byte{}, payload...))
				evalXKey(st, "xkey-structural", refaddr.B58CheckEncode(p))
			}
			mod(func(p []byte) []byte { p[45] = 4; return p })                           // key prefix 04
			mod(func(p []byte) []byte { p[45] = 1; return p })                           // key prefix 01
			mod(func(p []byte) []byte { p[5] = 1; return p })                            // depth 0, fingerprint != 0
			mod(func(p []byte) []byte { p[12] = 1; return p })                           // depth 0, index != 0
			mod(func(p []byte) []byte { p[0], p[1], p[2], p[3] = 0, 0, 0, 0; return p }) // unknown version
			mod(func(p []byte) []byte { copy(p[46:], make([]byte, 32)); return p })      // key 0 / x = 0
			mod(func(p []byte) []byte {
				n, _ := hex.DecodeString("fffffffffffffffffffffffffffffffebaaedce6af48a03bbfd25e8cd0364141")
				copy(p[46:], n)
				return p
			})
			// a valid 82-byte extended key (payload + checksum) followed by 1..8 further bytes
			full, _ := refaddr.B58Decode(base)
			for n := 1; n <= 8; n++ {
				for _, fb := range []byte{0x00, 0xff} {
					evalXKey(st, "xkey-trailing-bytes", refaddr.B58Encode(append(append([]byte{}, full...), bytes.Repeat([]byte{fb}, n)...)))
				}
				if n >= 4 {
					x := append(append([]byte{}, full...), make([]byte, n-4)...)
					evalXKey(st, "xkey-trailing-bytes", refaddr.B58Encode(append(x, refaddr.Sha256d(x)[:4]...)))
				}
				evalXKey(st, "xkey-leading-bytes", refaddr.B58Encode(append(bytes.Repeat([]byte{0x01}, n), full...)))
			}
			mod(func(p []byte) []byte { return p[:77] })
			mod(func(p []byte) []byte { return append(p, 0) })
			mod(func(p []byte) []byte { return p[:4] })
			mod(func(p []byte) []byte { return nil })
		}
	})

	// ---- BIP39: all entropy lengths x patterns
	nPat := 12
	if r.Thorough() {
		nPat = 40
	}
	for n := 0; n <= 40; n++ {
		n := n
		units = append(units, func(st *stats) {
			valid := n >= 16 && n <= 32 && n%4 == 0
			np := nPat
			if !valid {
				np = 2
			}
			for p := 0; p < np; p++ {
				if n == 0 && p > 0 {
					break
				}
				var e []byte
				if n > 0 {
					e = entropyPattern(p, n)
				}
				evalEntropy(st, "bip39-entropy", e, valid && p < 4)
			}
			if valid {
				// every single-bit entropy
				for bit := 0; bit < n*8; bit++ {
					e := make([]byte, n)
					e[bit/8] = 0x80 >> uint(bit%8)
					evalEntropy(st, "bip39-entropy-onebit", e, false)
				}
			}
		})
	}
	// ---- BIP39: every single-word substitution of valid mnemonics
	wordCounts := []int{12, 18, 24}
	if r.Thorough() {
		wordCounts = []int{12, 15, 18, 21, 24}
	}
	for _, wc := range wordCounts {
		wc := wc
		ent := entropyPattern(9+wc, wc/3*4)
		mn, err := refhd.Mnemonic(ent)
		if err != nil {
			ev.HarnessError("%v", err)
		}
		samples.Add(map[string]string{"family": "mnemonic substitution seed", "mnemonic": mn})
		w := strings.Fields(mn)
		for pos := range w {
			pos := pos
			units = append(units, func(st *stats) {
				for _, alt := range refhd.Words() {
					if alt == w[pos] {
						continue
					}
					m := append(append(append([]string{}, w[:pos]...), alt), w[pos+1:]...)
					evalMnemonic(st, fmt.Sprintf("bip39-word-subst-%d", wc), strings.Join(m, " "), true)
				}
				// words that are not in the list
				for _, alt := range []string{"", "gocoin", strings.ToUpper(w[pos]), w[pos] + "s", "\xc3\xa9"} {
					m := append(append(append([]string{}, w[:pos]...), alt), w[pos+1:]...)
					s := strings.Join(m, " ")
					evalMnemonic(st, fmt.Sprintf("bip39-word-other-%d", wc), s, alt != "")
				}
			})
		}
		units = append(units, func(st *stats) {
			// word count changes
			for k := 0; k <= len(w)+3; k++ {
				var m []string
				for i := 0; i < k; i++ {
					m = append(m, w[i%len(w)])
				}
				evalMnemonic(st, "bip39-word-count", strings.Join(m, " "), true)
			}
		})
	}

	// ---- derived values with leading zero bytes (scan.go): deterministic scans with the reference
	scanN, cap1, pubxN, pubxChunk := uint32(600000), 3, uint32(640), uint32(40)
	if r.Thorough() {
		scanN, cap1, pubxN, pubxChunk = 4000000, 40, 8192, 128
	}
	scanStart := time.Now()
	var scans []*scanResult
	scanSummary := map[string]interface{}{}
	nSpecial := 0
	for _, sp := range scanSpecs {
		res := scanChildren(sp, scanN, cap1)
		scans = append(scans, res)
		name := fmt.Sprintf("seed %q parent %s hardened=%v indexes 0..%d", sp.seed, sp.parent, sp.hardened, scanN-1)
		scanSummary[name] = map[string]int{"private_key>=1": res.nKey1, "private_key>=2": res.nKey2, "private_key>=3": res.nKey3,
			"chain_code>=1": res.nChain1, "chain_code>=2": res.nChain2, "IL>=1": res.nIL1, "IL>=2": res.nIL2, "selected_for_testing": len(res.nodes)}
		if res.nKey2 == 0 || res.nChain2 == 0 {
			ev.HarnessError("scan %s found no child with two leading zero bytes (key %d, chain %d)", name, res.nKey2, res.nChain2)
		}
		for _, nd := range res.nodes {
			nd := nd
			nSpecial++
			if nd.zKey >= 2 {
				samples.Add(map[string]interface{}{"family": "hd leading zero node", "seed": sp.seed, "path": refhd.PathString(nd.path()), "why": nd.why})
			}
			thorough := r.Thorough()
			units = append(units, func(st *stats) {
				st.counts["leading_zero_nodes:"+nd.why]++
				evalSpecial(st, nd, thorough)
			})
		}
	}
	for from := uint32(0); from < pubxN; from += pubxChunk {
		from := from
		units = append(units, func(st *stats) { scanPubX(st, scanSpecs[0], from, from+pubxChunk) })
	}
	// wallet configurations through such nodes (type 4, raw seed = the scan seed)
	{
		k := 0
		addC := func(seed string, path string, keycnt int) {
			extraCfgs = append(extraCfgs, mkCfg(4, nets[k%4], atypes[k%5], path, 1, 0, 0, seedKind{"leading-zero", []byte(seed), ""}, keycnt, 0))
			k++
		}
		for _, res := range scans {
			nk, nc := 0, 0
			for _, nd := range res.nodes {
				switch {
				case nd.zKey >= 2 && (nk < 2 || r.Thorough()):
					nk++
					addC(res.spec.seed, pathWithIndex(nd.parent, nd.index), 2)             // the node is a listed key
					addC(res.spec.seed, pathWithIndex(nd.parent, nd.index, 0x80000000), 2) // keys are hardened children of the node
					addC(res.spec.seed, pathWithIndex(nd.parent, nd.index, 5), 2)          // keys are non-hardened children
					if nd.index&0x7fffffff > 0 {
						addC(res.spec.seed, pathWithIndex(nd.parent, nd.index-1), 3) // the node is the second listed key
					}
				case nd.zChain >= 2 && (nc < 1 || r.Thorough()):
					nc++
					addC(res.spec.seed, pathWithIndex(nd.parent, nd.index, 0x80000000), 2)
					addC(res.spec.seed, pathWithIndex(nd.parent, nd.index, 0), 2)
				}
			}
		}
		nm := 2
		if r.Thorough() {
			nm = 8
		}
		mz := masterZeroSeeds(2000000, nm)
		if len(mz) < nm {
			ev.HarnessError("master scan found only %d seeds", len(mz))
		}
		for _, s := range mz {
			s := s
			addC(s, "m/0'", 2)
			addC(s, "m/0/1", 2)
			units = append(units, func(st *stats) { st.counts["leading_zero_master_seeds_tested"]++; walkTree(st, []byte(s), false, 1) })
		}
		t3 := type3ZeroPasswords(2000000, nm+1)
		for _, s := range t3 {
			extraCfgs = append(extraCfgs, mkCfg(3, nets[k%4], atypes[k%5], "", 1, 0, 0, seedKind{"leading-zero-t3", []byte(s), ""}, 3, 0))
			k++
		}
		nb := 0
		for _, words := range []int{12, 18, 24} {
			for _, s := range bip39ZeroPasswords(words, 2000000, nm/2) {
				extraCfgs = append(extraCfgs, mkCfg(4, nets[k%4], atypes[k%5], "m/0'", 1, words, 0, seedKind{"leading-zero-bip39", []byte(s), ""}, 1, 0))
				k++
				nb++
			}
		}
		scanSummary["wallet configurations through leading-zero values"] = map[string]int{"hd_nodes": len(extraCfgs) - len(t3) - nb, "type3_passwords": len(t3), "bip39_entropy_passwords": nb, "master_seeds": len(mz)}
	}
	scanSummary["special_nodes_selected"] = nSpecial
	scanSummary["scan_wall_seconds"] = float64(int(time.Since(scanStart).Seconds()*100)) / 100
	fmt.Fprintf(os.Stderr, "c14: leading-zero scans done in %v: %d special nodes, %d extra configurations\n", time.Since(scanStart), nSpecial, len(extraCfgs))

	libUnits := len(units)
	// ================= (ii) binary =================
	base := ev.Scratch("c14")
	defer os.RemoveAll(base)
	buildWallet(base)
	cfgs := configs(r.Thorough())
	perDim := map[string]map[string]int{}
	dim := func(d, v string) {
		if perDim[d] == nil {
			perDim[d] = map[string]int{}
		}
		perDim[d][v]++
	}
	for i, c := range cfgs {
		c := c
		if i%97 == 0 {
			samples.Add(map[string]interface{}{"family": "wallet configuration", "config": c})
		}
		dim("type", fmt.Sprint(c.Type))
		dim("net", c.Net)
		dim("atype", c.AType)
		dim("scrypt", fmt.Sprint(c.Scrypt))
		if c.Type == 4 {
			dim("hdpath", c.HDPath)
			dim("hdsubs", fmt.Sprint(c.HDSubs))
			b := fmt.Sprint(c.BIP39)
			if c.P39 != "" {
				b += "+passphrase"
			}
			if c.Invalid != "" {
				b += "+invalid-" + c.Invalid
			}
			dim("bip39", b)
		}
		units = append(units, func(st *stats) { evalConfig(st, c, base) })
	}

	fmt.Fprintf(os.Stderr, "c14: %d units (%d wallet configurations) prepared after %v\n", len(units), len(cfgs), r.Elapsed())
	runUnits(units[:libUnits], total, r, runtime.NumCPU())
	fmt.Fprintf(os.Stderr, "c14: library units done after %v\n", r.Elapsed())
	runUnits(units[libUnits:], total, r, runtime.NumCPU())
	fmt.Fprintf(os.Stderr, "c14: binary units done after %v\n", r.Elapsed())
	os.RemoveAll(base)

	sort.SliceStable(total.finds, func(i, j int) bool {
		a, b := total.finds[i], total.finds[j]
		if a.key != b.key {
			return a.key < b.key
		}
		if a.order != b.order {
			return a.order < b.order
		}
		return a.what < b.what
	})
	for _, f := range total.finds {
		r.Report(f.key, f.what, f.replay)
	}
	perFamily := map[string]int{}
	var classList []string
	for k, v := range total.classes {
		perFamily[strings.SplitN(k, "|", 2)[0]] += v
		classList = append(classList, fmt.Sprintf("%s = %d", k, v))
	}
	sort.Strings(classList)
	r.Finish(map[string]interface{}{
		"evaluations":                         total.evals,
		"distinct_nontrivial":                 len(total.classes),
		"rule":                                "a case is an (input/configuration family, reference outcome class, gocoin outcome class) triple; distinct_nontrivial counts the distinct triples observed. Library classes: key agreement per derivation kind, accept/refuse per refusal reason; binary classes: one per (network, address type, seed mode, path depth, sub-account count) whose complete output set (list, dump, xprv, words, re-import) agreed with the reference",
		"evaluations_per_family":              perFamily,
		"outcome_classes":                     classList,
		"measured_counts":                     total.counts,
		"not_judged_observations":             total.notes,
		"hd_seeds":                            len(seeds),
		"hd_index_set":                        idxSet,
		"leading_zero_scans":                  scanSummary,
		"xkey_mutation_seeds":                 len(xkeys),
		"wallet_configurations":               len(cfgs),
		"wallet_configurations_per_dimension": perDim,
		"reference_vectors_validated":         nvec,
		"reference_vectors_validated_detail":  map[string]interface{}{"refaddr": vaddr, "refhd": vhd},
		"samples":                             samples.L,
	}, []string{
		"oracle: verif/ref/refhd (BIP32 CKDpriv/CKDpub/serialisation, BIP39, PBKDF2 and scrypt written from the BIP/RFC texts over refsecp math/big affine arithmetic) and verif/ref/refaddr; both validated at start against every vector on disk (BIP32 vectors 1-2, 24 BIP39 vectors + bad sentences, scrypt vectors, Base58/Bech32 lists); the BIP39 English word list is read from lib/others/bip39/wordlist.go and pinned by SHA-256 " + refhd.EnglishSHA256,
		"wallet seed derivation as read from wallet/wallet.go and wallet/stuff.go: seed password P = secret_seed (cfg `seed=`) || bytes of the .secret file or of stdin with -stdin (raw, including any newline); type 4, bip39=0: BIP32 master seed = P; bip39=-1: P is a mnemonic (tokens = maximal runs of ASCII letters, lower-cased, joined by one space), seed = PBKDF2(mnemonic, 'mnemonic'+passphrase read with -p39); bip39=N: the printed N words are judged to be a valid BIP39 mnemonic and the root must be the BIP32 master of PBKDF2(those words, 'mnemonic')",
		"no external specification exists for: how the bip39=N entropy is derived from P (SHA256(P|'|gocoin|'|P|byte(N/3*32)) truncated), the scrypt stretch (N=2^scrypt, r=8, p=1, salt 'Gocoin scrypt password salt', 32 bytes) and the type-3 hash chain; these are pinned from the source and compared, agreement is COUNTED (measured_counts / not_judged_observations) but a disagreement is not a violation. Everything downstream of the printed root xprv is judged in those modes too",
		"key order and labels: keys are m/<path[:-1]>/(<last>+i) for i < keycnt; with hdsubs=k and depth >= 2 the second-to-last element is incremented for each further sub-account (as the wallet documents: 'use 2 for common wallets'); hdsubs has no effect for depth-1 paths",
		"address forms per atype as documented by the wallet: p2kh; segwit = P2SH(P2WPKH); bech32 = witness v0 of HASH160(pubkey); tap = witness v1 whose program is the x-only public key itself (no BIP341 tweak - the wallet signs key-path spends with the untweaked key, see wallet/signtx.go; judged against that convention); pks = hex public key. Litecoin: versions 48/50/176; gocoin prints bech32 forms with the bc/tb prefix in Litecoin mode - only the witness program is judged there (prefix recorded)",
		"type 3 (gocoin-specific chain) is judged on determinism, address <-> exported key agreement, distinct keys, WIF re-import (library and .others file) only",
		"determinism: every configuration is listed twice, once with the password in .secret and once through -stdin (through .secret twice when stdin carries the BIP39 passphrase); wallet.txt must be byte-identical",
		"family 'derived values with leading zero bytes': child indexes under fixed parents are scanned with the reference (HMAC-SHA512 + modular addition per index, bounds in leading_zero_scans) and every child whose private key / chain code / IL has >= 2 leading zero bytes (plus the first few with one, plus children whose public X starts with a zero byte from a full reference scan) is derived with gocoin (DeriveNextPrivate/DeriveNextPublic on the exact operands, Child, Pub().Child, serialisation, re-import, hardened and non-hardened grandchildren) and driven through the wallet binary (hdpath ending in, and passing through, such a node). Passwords for type-3 / bip39=N wallets whose first key / entropy has leading zero bytes are picked with the pinned (not judged) formulas and judged like every other configuration",
		"BIP32 'invalid child' cases (IL >= n, zero key; probability 2^-127) are not reachable by enumeration and not exercised",
		"StringWallet: only checksum / alphabet / length errors are judged (the property's re-import clause); BIP32 content rules (key prefix, key range, depth-0 metadata) are recorded in not_judged_observations",
	})
}
