// C04: no connected block creates money or spends what is not spendable.
// State-mode exploration: chain states S x block variants V, and variant sequences,
// executed on the real chain.Chain; verdict, tip and UTXO dump compared with the
// reference model after every delivery.
package main

import (
	"bytes"
	"crypto/sha256"
	"encoding/json"
	"flag"
	"fmt"
	"os"
	"runtime"
	"runtime/debug"
	"sort"
	"sync"
	"sync/atomic"
	"time"

	"github.com/piotrnar/gocoin/lib/btc"
	"github.com/piotrnar/gocoin/lib/chain"

	"verif/internal/chainx"
	"verif/internal/ev"
	"verif/internal/minichain"
	"verif/ref/refaddr"
	"verif/ref/refchain"
	"verif/ref/reftx"
)

type OP = refchain.Outpoint

var wsOP1 = func() []byte { h := sha256.Sum256([]byte{0x51}); return append([]byte{0x00, 0x20}, h[:]...) }()

// Sigop-carrying redeem / witness script that evaluates to true on an empty stack:
// OP_0 OP_IF (OP_16 OP_CHECKMULTISIG) x 198 OP_ENDIF OP_1 - 400 bytes, 200 counted opcodes,
// 198*16 = 3168 signature operations by the accurate count.
var heavy = func() []byte {
	b := []byte{0x00, 0x63}
	for i := 0; i < 198; i++ {
		b = append(b, 0x60, 0xae)
	}
	return append(b, 0x68, 0x51)
}()

const heavyOps = 198 * 16

// A second sigop-carrying redeem script: OP_0 OP_IF (OP_1 <00> OP_CHECKMULTISIG) x 129 OP_ENDIF OP_1 -
// 520 bytes. A data push sits between OP_1 and OP_CHECKMULTISIG, so the accurate count must NOT take
// the key count from OP_1: each OP_CHECKMULTISIG counts 20, 2580 per input.
var heavy2 = func() []byte {
	b := []byte{0x00, 0x63}
	for i := 0; i < 129; i++ {
		b = append(b, 0x51, 0x01, 0x00, 0xae)
	}
	return append(b, 0x68, 0x51)
}()

const heavy2Ops = 129 * 20

var heavy2P2SH = append(append([]byte{0xa9, 0x14}, refaddr.Hash160(heavy2)...), 0x87)

func pushData(d []byte) []byte {
	switch {
	case len(d) < 0x4c:
		return append([]byte{byte(len(d))}, d...)
	case len(d) <= 0xff:
		return append([]byte{0x4c, byte(len(d))}, d...)
	}
	return append([]byte{0x4d, byte(len(d)), byte(len(d) >> 8)}, d...)
}

var (
	heavyWS    = func() []byte { h := sha256.Sum256(heavy); return append([]byte{0x00, 0x20}, h[:]...) }()
	heavyP2SH  = append(append([]byte{0xa9, 0x14}, refaddr.Hash160(heavy)...), 0x87)
	heavyP2SHW = append(append([]byte{0xa9, 0x14}, refaddr.Hash160(heavyWS)...), 0x87)
)

// verify: the trivial language plus P2WSH(OP_1): valid iff spent with witness [0x51]
// and an empty scriptSig once the witness rules are active (anyone-can-spend before).
func verify(tx *reftx.Tx, idx int, spent []refchain.Coin, f refchain.Flags) bool {
	if bytes.Equal(spent[idx].Script, wsOP1) {
		in := &tx.In[idx]
		if !f.Witness {
			return len(in.Script) == 0
		}
		return len(in.Script) == 0 && len(in.Witness) == 1 && bytes.Equal(in.Witness[0], []byte{0x51})
	}
	in := &tx.In[idx]
	oneHeavy := len(in.Witness) == 1 && bytes.Equal(in.Witness[0], heavy)
	switch {
	case bytes.Equal(spent[idx].Script, heavyP2SH):
		return bytes.Equal(in.Script, pushData(heavy)) && len(in.Witness) == 0
	case bytes.Equal(spent[idx].Script, heavy2P2SH):
		return bytes.Equal(in.Script, pushData(heavy2)) && len(in.Witness) == 0
	case bytes.Equal(spent[idx].Script, heavyWS):
		if !f.Witness {
			return len(in.Script) == 0
		}
		return len(in.Script) == 0 && oneHeavy
	case bytes.Equal(spent[idx].Script, heavyP2SHW):
		if !f.Witness {
			return bytes.Equal(in.Script, pushData(heavyWS))
		}
		return bytes.Equal(in.Script, pushData(heavyWS)) && oneHeavy
	}
	return refchain.Trivial(tx, idx, spent, f)
}

var params = func() refchain.Params {
	p := refchain.DefaultParams()
	p.SigopCost = refchain.SigOpCost
	p.Verify = verify
	return p
}()

const prefixLen = 112

func o1(v uint64) reftx.Out { return reftx.Out{Value: v, Script: []byte{0x51}} }

// buildPrefix: compr = the unspent-output database keeps its records in the compressed format
// (client option Memory.CompressUTXO). lib/utxo selects the record format through package-level
// function variables, so plain and compressed sessions never run at the same time: the
// compressed phase starts after the plain one has finished.
func buildPrefix(compr bool) *chainx.Prefix {
	opts := minichain.Opts{Params: params}
	name := "c04"
	if compr {
		opts.ChainOpts.CompressUTXO = true
		name = "c04c"
	}
	return chainx.BuildPrefixOpts(name, opts, prefixLen, func(h uint32, s *minichain.Spec, p *chainx.Prefix) {
		switch {
		case h == 102:
			m := minichain.Spend([]OP{p.Cb[1]}, []reftx.Out{o1(10e8), o1(10e8), o1(10e8), {Value: 10e8, Script: []byte{0x00}}, o1(5e8), {Value: 5e8, Script: wsOP1}})
			s.Txs = append(s.Txs, m)
			id := m.TxID()
			for i, n := range []string{"M0", "M1", "M2", "Mbad", "M4", "W0"} {
				p.Named[n] = OP{Tx: id, Vout: uint32(i)}
			}
		case h == 103:
			// X is spent inside the prefix: "double spend across blocks"
			x := minichain.Spend([]OP{p.Cb[2]}, []reftx.Out{o1(50e8)})
			s.Txs = append(s.Txs, x)
			p.Named["X0"] = OP{Tx: x.TxID()}
		case h == 104:
			y := minichain.Spend([]OP{p.Named["X0"]}, []reftx.Out{o1(20e8), o1(30e8)})
			s.Txs = append(s.Txs, y)
			p.Named["Y0"] = OP{Tx: y.TxID()}
			p.Named["Y1"] = OP{Tx: y.TxID(), Vout: 1}
		case h == 111:
			// 70 one-output transactions with distinct txids (the UTXO commit deletes spent records in batches of 32)
			var fo []reftx.Out
			for i := 0; i < 70; i++ {
				fo = append(fo, o1(7e7))
			}
			f := minichain.Spend([]OP{p.Cb[10]}, fo)
			s.Txs = append(s.Txs, f)
			s.Fees = 50e8 - 70*7e7
			p.Named["FAN"] = OP{Tx: f.TxID()}
		case h == 112:
			for i := 0; i < 70; i++ {
				t := minichain.Spend([]OP{{Tx: p.Named["FAN"].Tx, Vout: uint32(i)}}, []reftx.Out{o1(7e7)})
				s.Txs = append(s.Txs, t)
				p.Named[fmt.Sprint("T", i)] = OP{Tx: t.TxID()}
			}
			// BIG: two matured coinbases consolidated into one 100 BTC output (the amount
			// compression of the record formats has its own branch for multiples of 10^9 satoshi)
			big := minichain.Spend([]OP{p.Cb[11], p.Cb[12]}, []reftx.Out{o1(100e8)})
			s.Txs = append(s.Txs, big)
			p.Named["BIG"] = OP{Tx: big.TxID()}
		case h >= 105 && h <= 110:
			// R<h>: coins of known recent confirmation height (BIP68 variants)
			r := minichain.Spend([]OP{p.Cb[h-102]}, []reftx.Out{o1(25e8), o1(25e8)})
			s.Txs = append(s.Txs, r)
			p.Named[fmt.Sprint("R", h, ".0")] = OP{Tx: r.TxID()}
			p.Named[fmt.Sprint("R", h, ".1")] = OP{Tx: r.TxID(), Vout: 1}
			if h == 110 {
				// sigop-carrying P2SH / P2WSH / P2SH-P2WSH coins
				var so []reftx.Out
				for i := 0; i < 8; i++ {
					so = append(so, reftx.Out{Value: 1e8, Script: heavyP2SH})
				}
				so = append(so, reftx.Out{Value: 1e8, Script: heavyWS}, reftx.Out{Value: 1e8, Script: heavyWS}, reftx.Out{Value: 1e8, Script: heavyP2SHW})
				for i := 0; i < 8; i++ {
					so = append(so, reftx.Out{Value: 1e8, Script: heavy2P2SH})
				}
				hv := minichain.Spend([]OP{p.Cb[9]}, so)
				s.Txs = append(s.Txs, hv)
				for i := 0; i < 8; i++ {
					p.Named[fmt.Sprint("PS", i)] = OP{Tx: hv.TxID(), Vout: uint32(i)}
				}
				p.Named["PW0"] = OP{Tx: hv.TxID(), Vout: 8}
				p.Named["PW1"] = OP{Tx: hv.TxID(), Vout: 9}
				p.Named["PSW0"] = OP{Tx: hv.TxID(), Vout: 10}
				for i := 0; i < 8; i++ {
					p.Named[fmt.Sprint("PT", i)] = OP{Tx: hv.TxID(), Vout: uint32(11 + i)}
				}
			}
		}
	})
}

// ---- states: histories of valid blocks on top of the prefix ----

type ctx struct {
	p       *chainx.Prefix
	parent  [32]byte
	height  uint32 // height of the variant block
	spent   map[string]bool
	missing bool
}

// coin returns a named coin that the variant needs to be unspent in the current
// state; if it is not, the variant is skipped in this state.
func (c *ctx) coin(n string) OP {
	if c.spent[n] {
		c.missing = true
	}
	return c.p.Named[n]
}

// raw returns a named outpoint without requiring it to be unspent.
func (c *ctx) raw(n string) OP { return c.p.Named[n] }

func (c *ctx) refresh(s *chainx.Sess) {
	c.parent, c.height = s.E.Tip()
	c.height++
	u := s.M.UTXOAt(s.M.BestTips()[0])
	c.spent = map[string]bool{}
	for n, op := range c.p.Named {
		if _, ok := u[op]; !ok {
			c.spent[n] = true
		}
	}
}

type state struct {
	name   string
	blocks []*reftx.Block // delivered in order
	reopen bool
	tip    int // index in blocks of the resulting tip
	spent  []string
}

func states(p *chainx.Prefix, thorough bool) []state {
	sp := minichain.Spend
	var ss []state
	ss = append(ss, state{name: "S0-prefix-tip", tip: -1})
	// S1: one more block partially spending the multi-output tx M
	t1 := sp([]OP{p.Named["M0"]}, []reftx.Out{o1(4e8), o1(6e8)})
	a1 := minichain.Build(minichain.Spec{Prev: p.Tip, Height: p.Height + 1, Tag: 1, Txs: []*reftx.Tx{t1}, CbValue: -1})
	ss = append(ss, state{name: "S1-partially-spent-M", blocks: []*reftx.Block{a1}, tip: 0, spent: []string{"M0"}})
	ss = append(ss, state{name: "S3-S1-then-reopen", blocks: []*reftx.Block{a1}, tip: 0, reopen: true, spent: []string{"M0"}})
	if thorough || true {
		// S2: depth-2 reorganisation: A1,A2 then heavier B1,B2,B3 (B spends M1 instead)
		a2 := minichain.Build(minichain.Spec{Prev: a1.Hash(), Height: p.Height + 2, Tag: 1, CbValue: -1})
		tb := sp([]OP{p.Named["M1"]}, []reftx.Out{o1(10e8)})
		b1 := minichain.Build(minichain.Spec{Prev: p.Tip, Height: p.Height + 1, Tag: 2, Txs: []*reftx.Tx{tb}, CbValue: -1})
		b2 := minichain.Build(minichain.Spec{Prev: b1.Hash(), Height: p.Height + 2, Tag: 2, CbValue: -1})
		b3 := minichain.Build(minichain.Spec{Prev: b2.Hash(), Height: p.Height + 3, Tag: 2, CbValue: -1})
		ss = append(ss, state{name: "S2-after-depth2-reorg", blocks: []*reftx.Block{a1, a2, b1, b2, b3}, tip: 4, spent: []string{"M1"}})
	}
	return ss
}

// ---- variants ----

type variant struct {
	name    string
	rule    string // the rule the variant violates ("" = valid)
	build   func(c *ctx) *reftx.Block
	skip    func(c *ctx) bool
	unjudge bool // verdict not part of the property (explored for crashes/state damage only)
}

func blk(c *ctx, tag byte, fees uint64, cbExtra int64, txs ...*reftx.Tx) *reftx.Block {
	s := minichain.Spec{Prev: c.parent, Height: c.height, Tag: tag, Txs: txs, Fees: fees, CbValue: -1}
	if cbExtra != 0 {
		s.CbValue = int64(refchain.Subsidy(c.height)+fees) + cbExtra
	}
	return minichain.Build(s)
}

func sigScript(n int) []byte {
	b := make([]byte, n)
	for i := range b {
		b[i] = 0xac
	}
	return b
}

func variants() []variant {
	sp := minichain.Spend
	ops := func(o ...OP) []OP { return o }
	outs := func(o ...reftx.Out) []reftx.Out { return o }
	var vs []variant
	add := func(v variant) { vs = append(vs, v) }

	add(variant{name: "valid-empty", build: func(c *ctx) *reftx.Block { return blk(c, 10, 0, 0) }})
	add(variant{name: "valid-spend-M2-with-fee", build: func(c *ctx) *reftx.Block {
		return blk(c, 11, 1e8, 0, sp(ops(c.coin("M2")), outs(o1(9e8))))
	}})
	add(variant{name: "valid-chain-in-block", build: func(c *ctx) *reftx.Block {
		x := sp(ops(c.coin("M2")), outs(o1(4e8), o1(6e8)))
		y := sp(ops(OP{Tx: x.TxID(), Vout: 1}), outs(o1(6e8)))
		return blk(c, 12, 0, 0, x, y)
	}})
	add(variant{name: "valid-spend-100btc-output", build: func(c *ctx) *reftx.Block {
		return blk(c, 241, 0, 0, sp(ops(c.coin("BIG")), outs(o1(60e8), o1(40e8))))
	}})
	add(variant{name: "outputs-exceed-100btc-input-by-10btc", rule: "inputs cover outputs", build: func(c *ctx) *reftx.Block {
		return blk(c, 242, 0, 0, sp(ops(c.coin("BIG")), outs(o1(110e8))))
	}})
	add(variant{name: "missing-input", rule: "input exists", build: func(c *ctx) *reftx.Block {
		return blk(c, 13, 0, 0, sp(ops(OP{Tx: [32]byte{9, 9}, Vout: 0}), outs(o1(1))))
	}})
	add(variant{name: "vout-out-of-range", rule: "input exists", build: func(c *ctx) *reftx.Block {
		return blk(c, 14, 0, 0, sp(ops(OP{Tx: c.coin("M2").Tx, Vout: 5}), outs(o1(1))))
	}})
	add(variant{name: "spend-later-tx-output", rule: "in-block order", build: func(c *ctx) *reftx.Block {
		x := sp(ops(c.coin("M2")), outs(o1(4e8), o1(6e8)))
		y := sp(ops(OP{Tx: x.TxID(), Vout: 1}), outs(o1(6e8)))
		return blk(c, 15, 0, 0, y, x)
	}})
	add(variant{name: "double-spend-two-txs", rule: "no double spend", build: func(c *ctx) *reftx.Block {
		return blk(c, 16, 1e8, 0, sp(ops(c.coin("M2")), outs(o1(10e8))), sp(ops(c.coin("M2")), outs(o1(9e8))))
	}})
	add(variant{name: "double-spend-same-tx", rule: "no double spend", build: func(c *ctx) *reftx.Block {
		return blk(c, 17, 0, 0, sp(ops(c.coin("M2"), c.coin("M2")), outs(o1(20e8))))
	}})
	add(variant{name: "double-spend-in-block-created-output", rule: "no double spend", build: func(c *ctx) *reftx.Block {
		x := sp(ops(c.coin("M2")), outs(o1(10e8)))
		y := sp(ops(OP{Tx: x.TxID()}), outs(o1(10e8)))
		z := sp(ops(OP{Tx: x.TxID()}), outs(o1(9e8)))
		return blk(c, 18, 1e8, 0, x, y, z)
	}})
	add(variant{name: "double-spend-across-blocks", rule: "no double spend", build: func(c *ctx) *reftx.Block {
		return blk(c, 19, 0, 0, sp(ops(c.raw("X0")), outs(o1(50e8))))
	}})
	add(variant{name: "spend-own-coinbase", rule: "coinbase maturity", build: func(c *ctx) *reftx.Block {
		b := blk(c, 20, 0, 0)
		t := sp(ops(OP{Tx: b.Txs[0].TxID()}), outs(o1(refchain.Subsidy(c.height))))
		b.Txs = append(b.Txs, t)
		minichain.Seal(b)
		return b
	}})
	add(variant{name: "coinbase-depth-100", build: func(c *ctx) *reftx.Block {
		return blk(c, 21, 0, 0, sp(ops(c.p.Cb[c.height-100]), outs(o1(50e8))))
	}})
	add(variant{name: "coinbase-depth-99", rule: "coinbase maturity", build: func(c *ctx) *reftx.Block {
		return blk(c, 22, 0, 0, sp(ops(c.p.Cb[c.height-99]), outs(o1(50e8))))
	}})
	add(variant{name: "output-value-21e14+1", rule: "money range", build: func(c *ctx) *reftx.Block {
		return blk(c, 23, 0, 0, sp(ops(c.coin("M2")), outs(o1(21e14+1))))
	}})
	add(variant{name: "output-value-2^63", rule: "money range", build: func(c *ctx) *reftx.Block {
		return blk(c, 24, 0, 0, sp(ops(c.coin("M2")), outs(o1(1<<63))))
	}})
	add(variant{name: "outputs-sum-wraps-2^64", rule: "money range", build: func(c *ctx) *reftx.Block {
		return blk(c, 25, 0, 0, sp(ops(c.coin("M2")), outs(o1(1<<63), o1(1<<63), o1(10e8))))
	}})
	add(variant{name: "outputs-sum-wraps-2^64-each-below-max", rule: "money range", build: func(c *ctx) *reftx.Block {
		// 8784 outputs of 21e14 + one of 344073709551616 sum to exactly 2^64; plus 5e8:
		// every single value is in range, the uint64 total wraps to 5e8
		var o []reftx.Out
		for i := 0; i < 8784; i++ {
			o = append(o, o1(21e14))
		}
		o = append(o, o1(344073709551616), o1(5e8))
		return blk(c, 26, 0, 0, sp(ops(c.coin("M2")), o))
	}})
	add(variant{name: "coinbase-output-21e14+1", rule: "money range", build: func(c *ctx) *reftx.Block {
		s := minichain.Spec{Prev: c.parent, Height: c.height, Tag: 27, CbValue: 21e14 + 1}
		return minichain.Build(s)
	}})
	add(variant{name: "fee-underflow-by-1", rule: "inputs cover outputs", build: func(c *ctx) *reftx.Block {
		return blk(c, 28, 0, 0, sp(ops(c.coin("M2")), outs(o1(10e8+1))))
	}})
	add(variant{name: "coinbase-claims-exact", build: func(c *ctx) *reftx.Block {
		return blk(c, 29, 3e8, 0, sp(ops(c.coin("M2")), outs(o1(7e8))))
	}})
	add(variant{name: "coinbase-claims-plus-1", rule: "subsidy+fees", build: func(c *ctx) *reftx.Block {
		return blk(c, 30, 3e8, 1, sp(ops(c.coin("M2")), outs(o1(7e8))))
	}})
	add(variant{name: "coinbase-claims-less", build: func(c *ctx) *reftx.Block {
		return blk(c, 31, 3e8, -5, sp(ops(c.coin("M2")), outs(o1(7e8))))
	}})
	add(variant{name: "sigops-80000", build: func(c *ctx) *reftx.Block {
		return blk(c, 32, 0, 0, sp(ops(c.coin("M2")), outs(o1(5e8), reftx.Out{Value: 5e8, Script: sigScript(20000)})))
	}})
	add(variant{name: "sigops-80004", rule: "sigop cost", build: func(c *ctx) *reftx.Block {
		return blk(c, 33, 0, 0, sp(ops(c.coin("M2")), outs(o1(5e8), reftx.Out{Value: 5e8, Script: sigScript(20001)})))
	}})
	add(variant{name: "sigops-80004-split-over-txs-and-coinbase", rule: "sigop cost", build: func(c *ctx) *reftx.Block {
		s := minichain.Spec{Prev: c.parent, Height: c.height, Tag: 34,
			CbOuts: []reftx.Out{{Value: refchain.Subsidy(c.height), Script: sigScript(5000)}},
			Txs: []*reftx.Tx{sp(ops(c.coin("M2")), outs(reftx.Out{Value: 5e8, Script: sigScript(10000)}, reftx.Out{Value: 5e8, Script: sigScript(1)})),
				sp(ops(c.coin("M4")), outs(reftx.Out{Value: 5e8, Script: sigScript(5000)}))}}
		return minichain.Build(s)
	}})
	add(variant{name: "sigops-multisig-counts-20", rule: "sigop cost", build: func(c *ctx) *reftx.Block {
		// 1000 bare OP_CHECKMULTISIG = 20000 sigops, plus one CHECKSIG
		scr := make([]byte, 1000)
		for i := range scr {
			scr[i] = 0xae
		}
		return blk(c, 35, 0, 0, sp(ops(c.coin("M2")), outs(reftx.Out{Value: 5e8, Script: scr}, reftx.Out{Value: 5e8, Script: sigScript(1)})))
	}})
	add(variant{name: "sigops-after-op-return-80004", rule: "sigop cost", build: func(c *ctx) *reftx.Block {
		return blk(c, 36, 0, 0, sp(ops(c.coin("M2")), outs(o1(5e8), reftx.Out{Value: 5e8, Script: append([]byte{0x6a}, sigScript(20001)...)})))
	}})
	add(variant{name: "sigops-in-scriptsig-unexecuted", rule: "sigop cost", build: func(c *ctx) *reftx.Block {
		// scriptSig of a coinbase counts too: 0xac bytes inside the 100-byte coinbase script are data pushes? no:
		// use a non-coinbase input whose scriptSig pushes nothing but the outputs carry the sigops; here 20001 in two outputs
		return blk(c, 37, 0, 0, sp(ops(c.coin("M2")), outs(reftx.Out{Value: 5e8, Script: sigScript(10000)}, reftx.Out{Value: 5e8, Script: sigScript(10001)})))
	}})
	// sigop cost that is only reached when P2SH redeem scripts / witness scripts are counted
	heavyBlk := func(c *ctx, tag byte, legacy int, coins ...string) *reftx.Block {
		var in []OP
		for _, n := range coins {
			in = append(in, c.coin(n))
		}
		t := sp(in, outs(reftx.Out{Value: 1e7, Script: sigScript(legacy)}))
		wit := false
		for i, n := range coins {
			switch n[:2] {
			case "PW":
				t.In[i].Witness, wit = [][]byte{heavy}, true
			case "PT":
				t.In[i].Script = pushData(heavy2)
			default:
				if n[:3] == "PSW" {
					t.In[i].Script, t.In[i].Witness, wit = pushData(heavyWS), [][]byte{heavy}, true
				} else {
					t.In[i].Script = pushData(heavy)
				}
			}
		}
		fee := uint64(len(coins))*1e8 - 1e7
		return minichain.Build(minichain.Spec{Prev: c.parent, Height: c.height, Tag: tag, Txs: []*reftx.Tx{t}, Fees: fee, CbValue: -1, Witness: wit})
	}
	p2sh6 := []string{"PS0", "PS1", "PS2", "PS3", "PS4", "PS5"}
	add(variant{name: "sigops-p2sh-redeem-scripts-80000", build: func(c *ctx) *reftx.Block {
		return heavyBlk(c, 70, (80000-6*4*heavyOps)/4, p2sh6...)
	}})
	add(variant{name: "sigops-p2sh-redeem-scripts-80004", rule: "sigop cost", build: func(c *ctx) *reftx.Block {
		return heavyBlk(c, 71, (80000-6*4*heavyOps)/4+1, p2sh6...)
	}})
	pt := func(k int) (l []string) {
		for i := 0; i < k; i++ {
			l = append(l, fmt.Sprint("PT", i))
		}
		return
	}
	add(variant{name: "sigops-p2sh-multisig-after-a-push-counts-20-72240", build: func(c *ctx) *reftx.Block {
		return heavyBlk(c, 76, 0, pt(7)...)
	}})
	add(variant{name: "sigops-p2sh-multisig-after-a-push-counts-20-82560", rule: "sigop cost", build: func(c *ctx) *reftx.Block {
		return heavyBlk(c, 77, 0, pt(8)...)
	}})
	add(variant{name: "sigops-p2wsh-witness-scripts-80000", build: func(c *ctx) *reftx.Block {
		return heavyBlk(c, 72, (80000-2*heavyOps)/4, "PW0", "PW1")
	}})
	add(variant{name: "sigops-p2wsh-witness-scripts-80004", rule: "sigop cost", build: func(c *ctx) *reftx.Block {
		return heavyBlk(c, 73, (80000-2*heavyOps)/4+1, "PW0", "PW1")
	}})
	add(variant{name: "sigops-p2sh-p2wsh-80000", build: func(c *ctx) *reftx.Block {
		return heavyBlk(c, 74, (80000-heavyOps)/4, "PSW0")
	}})
	add(variant{name: "sigops-p2sh-p2wsh-80004", rule: "sigop cost", build: func(c *ctx) *reftx.Block {
		return heavyBlk(c, 75, (80000-heavyOps)/4+1, "PSW0")
	}})
	// transactions vouched for by the memory pool (TrustedTxChecker) next to ones that are not
	vouched := func(t *reftx.Tx) *reftx.Tx { t.LockTime = vouchedLockTime; return t }
	add(variant{name: "pool-verified-tx-then-valid-tx", build: func(c *ctx) *reftx.Block {
		return blk(c, 80, 0, 0, vouched(sp(ops(c.coin("M2")), outs(o1(10e8)))), sp(ops(c.coin("M4")), outs(o1(5e8))))
	}})
	add(variant{name: "pool-verified-tx-then-script-failure", rule: "script verifies", build: func(c *ctx) *reftx.Block {
		return blk(c, 81, 0, 0, vouched(sp(ops(c.coin("M2")), outs(o1(10e8)))), sp(ops(c.coin("Mbad")), outs(o1(10e8))))
	}})
	add(variant{name: "script-failure-then-pool-verified-tx", rule: "script verifies", build: func(c *ctx) *reftx.Block {
		return blk(c, 82, 0, 0, sp(ops(c.coin("Mbad")), outs(o1(10e8))), vouched(sp(ops(c.coin("M2")), outs(o1(10e8)))))
	}})
	add(variant{name: "two-pool-verified-txs-then-witness-missing", rule: "script verifies", build: func(c *ctx) *reftx.Block {
		return blk(c, 83, 0, 0, vouched(sp(ops(c.coin("M2")), outs(o1(10e8)))), vouched(sp(ops(c.coin("M4")), outs(o1(5e8)))), sp(ops(c.coin("W0")), outs(o1(5e8))))
	}})
	// one transaction spending from k distinct confirmed transactions, k around the commit's batch size
	for _, k := range []int{31, 32, 33, 34, 64, 65, 66} {
		k := k
		add(variant{name: fmt.Sprintf("spend-%d-distinct-confirmed-transactions", k), build: func(c *ctx) *reftx.Block {
			var in []OP
			for i := 0; i < k; i++ {
				in = append(in, c.coin(fmt.Sprint("T", i)))
			}
			return blk(c, byte(90+k%10), 0, 0, sp(in, outs(o1(uint64(k)*7e7))))
		}})
	}
	add(variant{name: "respend-output-of-a-33-input-sweep", rule: "no double spend", build: func(c *ctx) *reftx.Block {
		// only meaningful after the sweep above; in other states T5 is unspent and the variant is skipped
		if !c.spent["T5"] {
			c.missing = true
		}
		return blk(c, 99, 0, 0, sp(ops(c.raw("T5")), outs(o1(7e7))))
	}})
	// BIP68 (tx version 2 by minichain.Spend)
	bip68 := func(name string, seq uint32, ok bool) {
		rule := "BIP68"
		if ok {
			rule = ""
		}
		add(variant{name: name, rule: rule,
			skip: func(c *ctx) bool { _, have := c.p.Named[fmt.Sprint("R", c.height-3, ".0")]; return !have },
			build: func(c *ctx) *reftx.Block {
				t := sp(ops(c.coin(fmt.Sprint("R", c.height-3, ".0"))), outs(o1(25e8)))
				t.In[0].Sequence = seq
				return blk(c, byte(40+len(vs)), 0, 0, t)
			}})
	}
	bip68("bip68-height-3-satisfied", 3, true)
	bip68("bip68-height-4-unsatisfied", 4, false)
	bip68("bip68-height-65535-unsatisfied", 0xffff, false)
	bip68("bip68-disabled-bit31", 0x80000000|0xffff, true)
	bip68("bip68-time-3-satisfied", 1<<22|3, true)
	bip68("bip68-time-4-unsatisfied", 1<<22|4, false)
	add(variant{name: "bip68-version-1-ignored",
		skip: func(c *ctx) bool { _, have := c.p.Named[fmt.Sprint("R", c.height-3, ".0")]; return !have },
		build: func(c *ctx) *reftx.Block {
			t := sp(ops(c.coin(fmt.Sprint("R", c.height-3, ".0"))), outs(o1(25e8)))
			t.In[0].Sequence = 0xffff
			t.Version = 1
			return blk(c, 60, 0, 0, t)
		}})
	add(variant{name: "script-fails-last-input-last-tx", rule: "script verifies", build: func(c *ctx) *reftx.Block {
		return blk(c, 61, 0, 0, sp(ops(c.coin("Y0")), outs(o1(20e8))), sp(ops(c.coin("M2"), c.coin("Y1"), c.coin("Mbad")), outs(o1(50e8))))
	}})
	add(variant{name: "script-fails-first-input", rule: "script verifies", build: func(c *ctx) *reftx.Block {
		return blk(c, 62, 0, 0, sp(ops(c.coin("Mbad"), c.coin("M2")), outs(o1(20e8))))
	}})
	// a script whose validity depends on a height-gated verification flag
	add(variant{name: "witness-program-spent-with-witness", build: func(c *ctx) *reftx.Block {
		t := sp(ops(c.coin("W0")), outs(o1(5e8)))
		t.In[0].Witness = [][]byte{{0x51}}
		return minichain.Build(minichain.Spec{Prev: c.parent, Height: c.height, Tag: 64, Txs: []*reftx.Tx{t}, CbValue: -1, Witness: true})
	}})
	add(variant{name: "witness-program-spent-without-witness", rule: "script verifies", build: func(c *ctx) *reftx.Block {
		return blk(c, 65, 0, 0, sp(ops(c.coin("W0")), outs(o1(5e8))))
	}})
	add(variant{name: "input-sum-exact-zero-fee", build: func(c *ctx) *reftx.Block {
		return blk(c, 63, 0, 0, sp(ops(c.coin("M2"), c.coin("M4")), outs(o1(15e8))))
	}})
	return vs
}

type outcome struct {
	key, what string
	trace     []chainx.Step
}

type job struct {
	st    state
	seq   []int // variant indexes
	reorg bool  // deliver the (single) variant as a side-branch block that wins later
	hf    bool  // every block by the client's headers-first route (chainx.Sess.HF)
	compr bool  // unspent-output records in the compressed format (second phase)
}

var watchdog = 120 * time.Second

const vouchedLockTime = 777

var vouchAsked, vouchGiven int64

var twinLost = map[string]bool{}

func runJob(p *chainx.Prefix, vs []variant, j job, states map[string]bool, mu *sync.Mutex, trans *int64, ruleHits map[string]*int64) (res *outcome) {
	s := p.NewSession("c04")
	s.HF = j.hf
	defer s.Close()
	var out *outcome
	r := chainx.Guard(watchdog, func() {
		for i, b := range j.st.blocks {
			if impl, _ := s.Deliver(fmt.Sprint("state-block-", i), b); impl != "ok" {
				out = &outcome{"state-setup/" + j.st.name, "state block refused: " + impl, s.Trace}
				return
			}
		}
		if j.st.reopen {
			s.Reopen()
		}
		if k, w := s.Compare(); k != "" {
			out = &outcome{"state-setup/" + k, w, s.Trace}
			return
		}
		c := &ctx{p: p}
		c.refresh(s)
		if j.reorg {
			// The variant arrives as a side-branch block (stored, scripts unchecked) and
			// is connected only when its branch overtakes the tip: M on the tip first, then
			// V on the old tip, then a valid child of V.
			v := vs[j.seq[0]]
			if v.skip != nil && v.skip(c) {
				return
			}
			c.missing = false
			vb := v.build(c)
			if c.missing {
				return
			}
			m := blk(c, 200, 0, 0)
			child := blk(&ctx{p: p, parent: vb.Hash(), height: c.height + 1}, 201, 0, 0)
			for i, b := range []*reftx.Block{m, vb, child} {
				s.Deliver([]string{"sibling-on-tip", v.name + " (side branch)", "child-of-variant"}[i], b)
				atomic.AddInt64(trans, 1)
				if k, w := s.Compare(); k != "" {
					n := s.M.Nodes[vb.Hash()]
					if n != nil && !s.M.Valid(n) {
						out = &outcome{v.name + "/invalid-block-connected-via-reorg", fmt.Sprintf("state %s: block violating [%s] (%s) was connected when its side branch overtook the tip; %s", j.st.name, v.rule, s.M.Why(n), w), s.Trace}
					} else {
						mu.Lock()
						twinLost[j.st.name+"/"+v.name+" via reorg: "+k] = true
						mu.Unlock()
					}
					return
				}
			}
			if v.rule != "" {
				atomic.AddInt64(ruleHits[v.rule], 1)
			}
			mu.Lock()
			states[j.st.name+"|reorg|"+s.StateKey()] = true
			mu.Unlock()
			return
		}
		for _, vi := range j.seq {
			v := vs[vi]
			if v.skip != nil && v.skip(c) {
				continue
			}
			before := s.StateKey()
			c.missing = false
			b := v.build(c)
			if c.missing {
				continue
			}
			impl, ref := s.Deliver(v.name, b)
			atomic.AddInt64(trans, 1)
			ic := chainx.ImplClass(impl)
			refAccepts := ref == ""
			if refAccepts {
				n := s.M.Nodes[b.Hash()]
				refAccepts = s.M.Valid(n)
				if !refAccepts {
					ref = "connect: " + s.M.Why(n)
				}
			}
			if v.rule == "" && !refAccepts && !v.unjudge {
				ev.HarnessError("variant %s is meant to be valid but the reference refuses it: %s", v.name, ref)
			}
			if v.rule != "" && refAccepts {
				ev.HarnessError("variant %s is meant to violate %q but the reference accepts it", v.name, v.rule)
			}
			if !v.unjudge {
				if refAccepts && ic != "ok" {
					// C04 is one-directional ("becomes part of the active chain only if …"):
					// a valid block that is not connected is recorded, not judged (C06 judges it)
					mu.Lock()
					twinLost[j.st.name+"/"+v.name+": "+impl] = true
					mu.Unlock()
					return
				}
				if !refAccepts && ic == "ok" {
					// accepted into the tree; it only matters if it became part of the active chain (checked below)
				}
			}
			if k, w := s.Compare(); k != "" {
				if !refAccepts {
					k = "invalid-block-connected"
					w = fmt.Sprintf("state %s: block violating [%s] (%s) became part of the active chain; %s", j.st.name, v.rule, ref, w)
				}
				out = &outcome{v.name + "/" + k, w, s.Trace}
				return
			}
			if !refAccepts && s.StateKey() != before {
				out = &outcome{v.name + "/state-changed-by-refused-block", "tip/UTXO changed although the block was refused", s.Trace}
				return
			}
			if v.rule != "" {
				atomic.AddInt64(ruleHits[v.rule], 1)
			}
			mu.Lock()
			states[j.st.name+"|"+s.StateKey()] = true
			mu.Unlock()
			if refAccepts {
				// the chain advanced: later variants are built on the new tip
				c.refresh(s)
			}
		}
	})
	if r != "" {
		s.Abandon()
		msg := r
		if len(msg) > 70 {
			msg = msg[:70]
		}
		return &outcome{"crash/" + msg, r, s.Trace}
	}
	return out
}

var replayFile = flag.String("replay", "", "replay a recorded violation")

func main() {
	r := ev.Start("C04", "model_checking")
	minichain.Quiet()
	debug.SetGCPercent(400)
	// As in the client (txpool installs chain.TrustedTxChecker): transactions the memory pool has
	// already verified are not script-checked again inside a block. The harness "pool" vouches
	// for exactly the transactions it marks with lock time 777 (all of them script-valid).
	chain.TrustedTxChecker = func(tx *btc.Tx) bool {
		atomic.AddInt64(&vouchAsked, 1)
		if tx.Lock_time == vouchedLockTime {
			atomic.AddInt64(&vouchGiven, 1)
			return true
		}
		return false
	}
	p := buildPrefix(false)
	defer func() { p.Remove() }()
	vs := variants()
	sts := states(p, r.Thorough())
	ruleHits := map[string]*int64{}
	for _, v := range vs {
		if v.rule != "" && ruleHits[v.rule] == nil {
			ruleHits[v.rule] = new(int64)
		}
	}
	stateSet := map[string]bool{}
	var mu sync.Mutex
	var trans, hist int64

	if *replayFile != "" {
		b, err := os.ReadFile(*replayFile)
		if err != nil {
			ev.HarnessError("%v", err)
		}
		var rec struct {
			Replay struct {
				State string   `json:"state"`
				Seq   []string `json:"variants"`
				Reorg bool     `json:"reorg"`
				HF    bool     `json:"headers_first"`
				Compr bool     `json:"compressed_records"`
			} `json:"replay"`
		}
		json.Unmarshal(b, &rec)
		if rec.Replay.Compr {
			p.Remove()
			p = buildPrefix(true)
			sts = states(p, r.Thorough())
		}
		var j job
		for _, st := range sts {
			if st.name == rec.Replay.State {
				j.st = st
			}
		}
		for _, n := range rec.Replay.Seq {
			for i, v := range vs {
				if v.name == n {
					j.seq = append(j.seq, i)
				}
			}
		}
		j.reorg = rec.Replay.Reorg
		j.hf = rec.Replay.HF
		j.compr = rec.Replay.Compr
		o := runJob(p, vs, j, stateSet, &mu, &trans, ruleHits)
		if o == nil {
			fmt.Fprintln(ev.Out, "replay: passes")
			p.Remove()
			os.Exit(0)
		}
		fmt.Fprintf(ev.Out, "replay: %s: %s\n", o.key, o.what)
		for _, s := range o.trace {
			fmt.Fprintf(ev.Out, "  %s impl=%q ref=%q\n", s.Ev, s.Impl, s.Ref)
		}
		p.Remove()
		os.Exit(1)
	}

	// GetBlockReward: pure-function enumeration around every halving boundary.
	var rewardChecks int
	for k := uint32(0); k <= 70; k++ {
		for _, d := range []int64{-1, 0, 1} {
			h := int64(k)*210000 + d
			if h < 0 || h > 0xffffffff {
				continue
			}
			rewardChecks++
			if got, want := btc.GetBlockReward(uint32(h)), refchain.Subsidy(uint32(h)); got != want {
				r.Report("subsidy/height-"+fmt.Sprint(h), fmt.Sprintf("GetBlockReward(%d)=%d, definition gives %d", h, got, want), map[string]interface{}{"height": h})
			}
		}
	}

	samples := &ev.Samples{N: 4}
	depth := 2
	if r.Thorough() {
		depth = 3
	}
	valid := []int{}
	for i, v := range vs {
		if v.rule == "" {
			valid = append(valid, i)
		}
	}
	var histCompr int64
	phase := func(compr bool) {
		jobs := make(chan job, 256)
		var wg sync.WaitGroup
		for w := 0; w < runtime.NumCPU(); w++ {
			wg.Add(1)
			go func() {
				defer wg.Done()
				for j := range jobs {
					o := runJob(p, vs, j, stateSet, &mu, &trans, ruleHits)
					atomic.AddInt64(&hist, 1)
					if j.compr {
						atomic.AddInt64(&histCompr, 1)
					}
					var names []string
					for _, i := range j.seq {
						names = append(names, vs[i].name)
					}
					if o != nil && j.hf {
						// same block, same rule as by the other route: the key is not split (the listed findings
						// are identified by the block); the route is in the details
						o.what += " [headers-first route]"
					}
					if o != nil && j.compr {
						// same block, same rule: the key is not split (listed findings are identified by the block)
						o.what += " [unspent-output records in the compressed format]"
					}
					if o != nil {
						r.Report(o.key, o.what, map[string]interface{}{"state": j.st.name, "variants": names, "reorg": j.reorg, "headers_first": j.hf, "compressed_records": j.compr, "trace": o.trace})
					} else {
						samples.Add(map[string]interface{}{"state": j.st.name, "variants": names, "via_reorg": j.reorg})
					}
				}
			}()
		}
		for _, st := range sts {
			for i := range vs {
				jobs <- job{st: st, seq: []int{i}, compr: compr}
				jobs <- job{st: st, seq: []int{i}, reorg: true, compr: compr}
				if compr {
					// second phase: every single variant, directly and via reorganisation
					continue
				}
				jobs <- job{st: st, seq: []int{i}, hf: true}
				jobs <- job{st: st, seq: []int{i}, reorg: true, hf: true}
				for k := range vs {
					// quick: every invalid variant followed by every valid one, and every valid one followed by everything
					if !r.Thorough() && vs[i].rule != "" && vs[k].rule != "" {
						continue
					}
					jobs <- job{st: st, seq: []int{i, k}}
					if depth >= 3 {
						for _, l := range valid {
							if vs[i].rule == "" && vs[k].rule == "" {
								continue
							}
							jobs <- job{st: st, seq: []int{i, k, l}}
						}
					}
				}
			}
		}
		close(jobs)
		wg.Wait()
	}
	phase(false)
	// second phase: the same states and variants over a database with compressed records
	// (built and run only now: the record format is a package-level switch of lib/utxo)
	p.Remove()
	p = buildPrefix(true)
	sts = states(p, r.Thorough())
	phase(true)
	rh := map[string]int64{}
	var rules []string
	for k, v := range ruleHits {
		rh[k] = *v
		rules = append(rules, k)
	}
	sort.Strings(rules)
	p.Remove() // Finish exits the process: deferred clean-up would not run
	r.Finish(map[string]interface{}{
		"states":                            len(stateSet),
		"transitions":                       int(trans),
		"histories":                         int(hist),
		"histories_with_compressed_records": int(histCompr),
		"chain_states":                      len(sts),
		"variants":                          len(vs),
		"rules_exercised":                   rh,
		"subsidy_boundary_checks":           rewardChecks,
		"trusted_tx_checker_calls":          map[string]int64{"asked": vouchAsked, "vouched": vouchGiven},
		"valid_blocks_not_connected":        lostList(),
		"traces_validated_against_impl":     int(hist),
		"samples":                           samples.L,
		"exhaustive":                        true,
		"rule":                              fmt.Sprintf("chain states x all variants x all variant sequences to depth %d (quick omits invalid->invalid pairs); every single variant, directly and via reorganisation, also by the client's headers-first route (announce, data, gate, CommitBlock); every single variant a second time, directly and via reorganisation, over a database with compressed records; every delivery executed on the real chain from a copied prefix directory; verdict, tip and decoded UTXO map compared with refchain after each delivery", depth),
	}, []string{
		"reference model refchain (Core's connect rules incl. MoneyRange, BIP68, sigop cost) is the oracle",
		"scripts are OP_1 / OP_0 / sigop-carrying output scripts, plus one 400-byte redeem / witness script (an unexecuted branch with 198 OP_16 OP_CHECKMULTISIG) behind P2SH, P2WSH and P2SH-P2WSH outputs for the sigop cost that is only reached when redeem and witness scripts are counted; real script semantics are C01's",
		"BIP30 is not in the property's rule list and is not judged",
		"chain.TrustedTxChecker is installed as the client does; it vouches only for transactions the harness marks (lock time 777), all of which are script-valid - what a vouched transaction's scripts would have said is not judged",
		"height 210000 is not reached through the chain; GetBlockReward is enumerated directly at every halving boundary",
	})
}

func lostList() []string {
	var l []string
	for k := range twinLost {
		l = append(l, k)
	}
	sort.Strings(l)
	return l
}
