#!/bin/bash
# overlay.sh <builddir> <overlay.json> <repo>
# Adds the read-only accessor file to package lib/chain (virtual file, nothing is
# written into the repository) and builds the pure-Go snappy variant of this check.
set -eu
bd="$1"; ov="$2"; repo="$3"
here="$(cd "$(dirname "$0")" && pwd)"
grep -q 'blocksToWrite' "$repo/lib/chain/blockdb.go" || { echo "c16 overlay: lib/chain/blockdb.go has no blocksToWrite" >&2; exit 1; }
python3 - "$ov" "$repo/lib/chain/zz_verif_c16_accessor.go" "$here/accessor.go.in" <<'PY'
import json, sys, os
ov, virt, src = sys.argv[1:4]
if os.path.exists(virt):
    sys.exit("c16 overlay: %s exists on disk" % virt)
d = json.load(open(ov))
d.setdefault("Replace", {})[virt] = src
json.dump(d, open(ov + ".tmp", "w"), indent=1, sort_keys=True)
os.replace(ov + ".tmp", ov)
PY
# second binary: snappy with the pure-Go encoder/decoder (encode_other.go, decode_other.go)
cd /verif
go build -modfile="$bd/go.mod" -tags "verif noasm" -overlay "$ov" -o "$bd/c16-noasm" ./checks/c16
