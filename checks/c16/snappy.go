package main

// Snappy part of C16: Encode/Decode round trip on enumerated string families, the
// encoder's output validated by an independent decoder written from the snappy
// block format description, and the decoder compared with that reference on
// hand-assembled valid streams (all four element kinds, all literal length
// encodings, overlapping copies, offsets around 2^11 and 2^16).

import (
	"bytes"
	"encoding/binary"
	"encoding/json"
	"errors"
	"fmt"
	"os"
	"os/exec"
	"path/filepath"
	"runtime"
	"sort"
	"strings"

	"github.com/piotrnar/gocoin/lib/others/snappy"

	"verif/internal/ev"
)

// refDecode: snappy block format (format_description.txt): uvarint length, then
// elements; tag low 2 bits: 00 literal, 01 copy with 1-byte offset, 10 copy with
// 2-byte offset, 11 copy with 4-byte offset.
func refDecode(src []byte) ([]byte, string, error) {
	n, k := binary.Uvarint(src)
	if k <= 0 || n > 1<<31 {
		return nil, "", errors.New("bad length header")
	}
	out := make([]byte, 0, n)
	kinds := map[string]bool{}
	s := k
	for s < len(src) {
		tag := src[s]
		s++
		var length, offset int
		switch tag & 3 {
		case 0:
			x := int(tag >> 2)
			if x >= 60 {
				nb := x - 59
				if s+nb > len(src) {
					return nil, "", errors.New("truncated literal length")
				}
				x = 0
				for i := nb - 1; i >= 0; i-- {
					x = x<<8 | int(src[s+i])
				}
				s += nb
				kinds[fmt.Sprintf("lit%d", nb)] = true
			} else {
				kinds["lit0"] = true
			}
			length = x + 1
			if s+length > len(src) {
				return nil, "", errors.New("truncated literal")
			}
			out = append(out, src[s:s+length]...)
			s += length
			continue
		case 1:
			if s+1 > len(src) {
				return nil, "", errors.New("truncated copy1")
			}
			length = 4 + int(tag>>2)&7
			offset = int(tag>>5)<<8 | int(src[s])
			s++
			kinds["copy1"] = true
		case 2:
			if s+2 > len(src) {
				return nil, "", errors.New("truncated copy2")
			}
			length = 1 + int(tag>>2)
			offset = int(src[s]) | int(src[s+1])<<8
			s += 2
			kinds["copy2"] = true
		case 3:
			if s+4 > len(src) {
				return nil, "", errors.New("truncated copy4")
			}
			length = 1 + int(tag>>2)
			offset = int(src[s]) | int(src[s+1])<<8 | int(src[s+2])<<16 | int(src[s+3])<<24
			s += 4
			kinds["copy4"] = true
		}
		if offset <= 0 || offset > len(out) {
			return nil, "", errors.New("bad copy offset")
		}
		for i := 0; i < length; i++ {
			out = append(out, out[len(out)-offset])
		}
	}
	if uint64(len(out)) != n {
		return nil, "", errors.New("length mismatch")
	}
	var kl []string
	for k := range kinds {
		kl = append(kl, k)
	}
	sort.Strings(kl)
	return out, strings.Join(kl, "+"), nil
}

type snCase struct {
	Family string `json:"family"`
	Desc   string `json:"desc"`
	data   []byte
}

func snFamilies(thorough bool) (l []snCase) {
	add := func(fam, desc string, d []byte) { l = append(l, snCase{fam, desc, d}) }
	// F1: all strings of length <= 14 over {a,b}
	for n := 0; n <= 14; n++ {
		for v := 0; v < 1<<uint(n); v++ {
			b := make([]byte, n)
			for i := range b {
				b[i] = 'a' + byte(v>>uint(i)&1)
			}
			add("ab<=14", string(b), b)
		}
	}
	// F2: runs of equal bytes
	for _, rg := range [][2]int{{1, 20}, {60, 70}, {65530, 65540}, {131070, 131074}} {
		for n := rg[0]; n <= rg[1]; n++ {
			add("run", fmt.Sprintf("run of %d", n), bytes.Repeat([]byte{'x'}, n))
		}
	}
	// F3: one match of length m at distance d inside incompressible data
	dists := []int{1, 2, 3, 4, 7, 8, 15, 16, 17, 2047, 2048, 2049, 65535, 65536, 65537}
	lens := []int{4, 5, 11, 12, 13, 63, 64, 65, 68, 69, 100, 1000}
	for _, d := range dists {
		for _, m := range lens {
			for _, pre := range []int{0, 1, 20} {
				var b []byte
				b = append(b, prng(fmt.Sprint("pre", d, m), pre)...)
				if d >= m {
					seed := prng(fmt.Sprint("seed", d, m), m)
					b = append(b, seed...)
					b = append(b, prng(fmt.Sprint("fill", d, m), d-m)...)
					b = append(b, seed...)
				} else {
					// overlapping match: period d, total d+m bytes
					per := prng(fmt.Sprint("per", d, m), d)
					for len(b) < pre+d+m {
						b = append(b, per...)
					}
					b = b[:pre+d+m]
				}
				b = append(b, prng(fmt.Sprint("tail", d, m), 20)...)
				add("match", fmt.Sprintf("match len %d at distance %d after %d bytes", m, d, pre), b)
			}
		}
	}
	// F4: incompressible literals
	for _, n := range []int{0, 1, 2, 15, 16, 17, 59, 60, 61, 62, 255, 256, 257, 258, 65535, 65536, 65537, 65538, 70000, 131072, 131073} {
		add("literal", fmt.Sprintf("incompressible %d bytes", n), prng(fmt.Sprint("lit", n), n))
	}
	// F5: literal of critical length followed by a compressible run
	for _, n := range []int{59, 60, 61, 255, 256, 257, 65535, 65536, 65537} {
		for _, run := range []int{4, 64, 65, 200} {
			add("literal+run", fmt.Sprintf("literal %d then run %d", n, run), append(prng(fmt.Sprint("lr", n), n), bytes.Repeat([]byte{0}, run)...))
		}
	}
	// F6: the block alphabet of the store exploration
	for _, b := range blocks {
		add("store-blocks", b.name, b.raw)
	}
	return
}

type snViol struct {
	Key  string   `json:"key"`
	What string   `json:"what"`
	Ev   []string `json:"events"`
}

type snReport struct {
	Backend       string         `json:"backend"`
	Evaluations   int            `json:"evaluations"`
	PerFamily     map[string]int `json:"per_family"`
	Kinds         map[string]int `json:"element_kind_signatures"`
	DecoderCases  int            `json:"decoder_reference_streams"`
	RefValidated  int            `json:"reference_decoder_validated_streams"`
	Violations    []snViol       `json:"violations,omitempty"`
	HarnessErrors []string       `json:"harness_errors,omitempty"`
}

func safeDecode(enc []byte) (out []byte, err error, pan interface{}) {
	defer func() {
		if p := recover(); p != nil {
			pan = p
		}
	}()
	out, err = snappy.Decode(nil, enc)
	return
}

func checkRoundTrip(rep *snReport, c snCase) {
	id := []string{"snappy", c.Family, c.Desc}
	if len(c.Desc) > 60 {
		id[2] = c.Desc[:60]
	}
	viol := func(key, f string, a ...interface{}) {
		rep.Violations = append(rep.Violations, snViol{Key: "snappy/" + c.Family + "/" + key, What: fmt.Sprintf("[%s] %s: ", rep.Backend, c.Desc) + fmt.Sprintf(f, a...), Ev: id})
	}
	var enc []byte
	func() {
		defer func() {
			if p := recover(); p != nil {
				viol("encode-panic", "Encode panics: %v", p)
			}
		}()
		enc = snappy.Encode(nil, c.data)
	}()
	if enc == nil {
		return
	}
	rep.Evaluations++
	rep.PerFamily[c.Family]++
	if len(enc) > snappy.MaxEncodedLen(len(c.data)) {
		viol("longer-than-MaxEncodedLen", "encoded %d bytes > MaxEncodedLen %d", len(enc), snappy.MaxEncodedLen(len(c.data)))
	}
	ref, kinds, err := refDecode(enc)
	if err != nil {
		viol("encoder-emits-invalid-stream", "the independent decoder rejects the encoder's output: %v", err)
	} else if !bytes.Equal(ref, c.data) {
		viol("encoder-emits-wrong-stream", "the encoder's output decodes (independent decoder) to different bytes")
	} else {
		rep.Kinds[kinds]++
		rep.RefValidated++
	}
	dec, err, pan := safeDecode(enc)
	switch {
	case pan != nil:
		viol("decode-panic", "Decode(Encode(x)) panics: %v", pan)
	case err != nil:
		viol("round-trip-error", "Decode(Encode(x)) fails: %v", err)
	case !bytes.Equal(dec, c.data):
		viol("round-trip-differs", "Decode(Encode(x)) != x (%d vs %d bytes)", len(dec), len(c.data))
	}
	if n, err := snappy.DecodedLen(enc); err != nil || n != len(c.data) {
		viol("decoded-len", "DecodedLen = %d, %v; want %d", n, err, len(c.data))
	}
	// decode into a provided buffer that is larger than needed
	buf := make([]byte, len(c.data)+7)
	if d2, err := snappy.Decode(buf, enc); err != nil || !bytes.Equal(d2, c.data) {
		viol("round-trip-with-dst", "Decode(dst, Encode(x)) differs or fails: %v", err)
	}
}

// hand-assembled streams
type elem struct {
	kind     int // 0 literal, 1..3 copy with 1/2/4-byte offset
	n        int // literal: length; copy: length
	off      int
	forceLen int // literal: number of explicit length bytes to use (0 = shortest)
}

func assemble(total int, els []elem, fill func(n int) []byte) []byte {
	out := binary.AppendUvarint(nil, uint64(total))
	for _, e := range els {
		switch e.kind {
		case 0:
			x := e.n - 1
			nb := e.forceLen
			if nb == 0 {
				switch {
				case x < 60:
				case x < 1<<8:
					nb = 1
				case x < 1<<16:
					nb = 2
				case x < 1<<24:
					nb = 3
				default:
					nb = 4
				}
			}
			if nb == 0 {
				out = append(out, byte(x<<2))
			} else {
				out = append(out, byte((59+nb)<<2))
				for i := 0; i < nb; i++ {
					out = append(out, byte(x>>(8*uint(i))))
				}
			}
			out = append(out, fill(e.n)...)
		case 1:
			out = append(out, byte(1|(e.n-4)<<2|(e.off>>8)<<5), byte(e.off))
		case 2:
			out = append(out, byte(2|(e.n-1)<<2), byte(e.off), byte(e.off>>8))
		case 3:
			out = append(out, byte(3|(e.n-1)<<2), byte(e.off), byte(e.off>>8), byte(e.off>>16), byte(e.off>>24))
		}
	}
	return out
}

func checkDecoderStreams(rep *snReport) {
	ctr := 0
	fill := func(n int) []byte { ctr++; return prng(fmt.Sprint("stream", ctr), n) }
	try := func(desc string, total int, els []elem) {
		ctr = 0
		enc := assemble(total, els, fill)
		ref, _, err := refDecode(enc)
		if err != nil {
			rep.HarnessErrors = append(rep.HarnessErrors, "hand-assembled stream rejected by the reference: "+desc+": "+err.Error())
			return
		}
		rep.DecoderCases++
		rep.Evaluations++
		rep.PerFamily["decoder-streams"]++
		dec, derr, pan := safeDecode(enc)
		id := []string{"snappy-stream", desc, fmt.Sprintf("%x", enc[:min(len(enc), 24)])}
		switch {
		case pan != nil:
			rep.Violations = append(rep.Violations, snViol{"snappy/decoder-streams/panic", fmt.Sprintf("[%s] %s: Decode panics: %v", rep.Backend, desc, pan), id})
		case derr != nil:
			rep.Violations = append(rep.Violations, snViol{"snappy/decoder-streams/valid-stream-rejected", fmt.Sprintf("[%s] %s: Decode rejects a valid stream: %v", rep.Backend, desc, derr), id})
		case !bytes.Equal(dec, ref):
			rep.Violations = append(rep.Violations, snViol{"snappy/decoder-streams/wrong-output", fmt.Sprintf("[%s] %s: Decode output differs from the format's meaning", rep.Backend, desc), id})
		}
	}
	// literal length encodings (shortest and over-long forms)
	for _, n := range []int{1, 59, 60, 61, 255, 256, 257, 65535, 65536, 65537} {
		for nb := 0; nb <= 4; nb++ {
			if nb > 0 && n-1 >= 1<<(8*uint(nb)) {
				continue
			}
			if nb == 0 && n > 60 {
				continue
			}
			try(fmt.Sprintf("literal %d with %d length bytes", n, nb), n, []elem{{kind: 0, n: n, forceLen: nb}})
		}
	}
	// copies
	for kind := 1; kind <= 3; kind++ {
		var lens []int
		if kind == 1 {
			lens = []int{4, 5, 10, 11}
		} else {
			lens = []int{1, 2, 4, 11, 12, 63, 64}
		}
		for _, off := range []int{1, 2, 3, 4, 7, 8, 9, 255, 256, 2047, 2048, 65535, 65536, 65537} {
			if kind == 1 && off > 2047 || kind == 2 && off > 65535 {
				continue
			}
			for _, ln := range lens {
				for _, extra := range []int{0, 5} { // literal longer than the offset or exactly the offset
					l0 := off + extra
					try(fmt.Sprintf("literal %d, copy%d len %d offset %d, literal 3", l0, kind, ln, off), l0+ln+3,
						[]elem{{kind: 0, n: l0}, {kind: kind, n: ln, off: off}, {kind: 0, n: 3}})
				}
			}
		}
	}
	// two copies in a row, the second reaching into the first one's output
	for kind := 1; kind <= 3; kind++ {
		try(fmt.Sprintf("literal 8, copy%d len 8 off 8, copy%d len 10 off 12", kind, kind), 26,
			[]elem{{kind: 0, n: 8}, {kind: kind, n: 8, off: 8}, {kind: kind, n: 10, off: 12}})
	}
}

func snappyRun(thorough bool) *snReport {
	be := "asm(" + runtime.GOARCH + ")"
	if snappyPureGo {
		be = "pure-go"
	}
	rep := &snReport{Backend: be, PerFamily: map[string]int{}, Kinds: map[string]int{}}
	for _, c := range snFamilies(thorough) {
		checkRoundTrip(rep, c)
	}
	checkDecoderStreams(rep)
	return rep
}

// snappyMain: child mode (--snappy-only), prints the report as JSON.
func snappyMain() {
	rep := snappyRun(true)
	b, _ := json.Marshal(rep)
	fmt.Fprintln(ev.Out, string(b))
	os.Exit(0)
}

// runSnappy runs the families in this binary and in the pure-Go build, reports
// violations, returns the merged counters for the evidence.
func runSnappy(r *ev.Run) map[string]interface{} {
	reps := []*snReport{snappyRun(r.Thorough())}
	other := filepath.Join(ev.OutDir(), ".build", "c16", "c16-noasm")
	if _, err := os.Stat(other); err != nil {
		ev.HarnessError("pure-Go snappy build %s missing (overlay.sh builds it): %v", other, err)
	}
	out, err := exec.Command(other, "--snappy-only").Output()
	if err != nil {
		ev.HarnessError("pure-Go snappy run failed: %v", err)
	}
	var rep2 snReport
	if err := json.Unmarshal(bytes.TrimSpace(out), &rep2); err != nil {
		ev.HarnessError("pure-Go snappy run: bad output: %v", err)
	}
	if rep2.Backend != "pure-go" {
		ev.HarnessError("the noasm build did not select the pure-Go snappy back end (%s)", rep2.Backend)
	}
	reps = append(reps, &rep2)
	res := map[string]interface{}{}
	for _, rp := range reps {
		if len(rp.HarnessErrors) > 0 {
			ev.HarnessError("snappy reference: %v", rp.HarnessErrors)
		}
		for _, v := range rp.Violations {
			r.Report(v.Key, v.What, map[string]interface{}{"events": v.Ev})
		}
		res[rp.Backend] = map[string]interface{}{
			"evaluations": rp.Evaluations, "per_family": rp.PerFamily, "distinct_element_kind_signatures": len(rp.Kinds),
			"element_kind_signatures": rp.Kinds, "decoder_reference_streams": rp.DecoderCases,
			"encoder_outputs_validated_by_independent_decoder": rp.RefValidated,
		}
	}
	return res
}

// replaySnappy re-executes one snappy case by family and description.
func replaySnappy(id []string) int {
	rep := &snReport{Backend: "replay", PerFamily: map[string]int{}, Kinds: map[string]int{}}
	if id[0] == "snappy-stream" {
		checkDecoderStreams(rep)
	} else {
		for _, c := range snFamilies(true) {
			if c.Family == id[1] && strings.HasPrefix(c.Desc, id[2]) {
				checkRoundTrip(rep, c)
			}
		}
	}
	for _, v := range rep.Violations {
		if id[0] == "snappy-stream" && v.Ev[1] != id[1] {
			continue
		}
		fmt.Fprintf(ev.Out, "replay: %s: %s\n", v.Key, v.What)
		return 1
	}
	fmt.Fprintln(ev.Out, "replay: case passes")
	return 0
}

func min(a, b int) int {
	if a < b {
		return a
	}
	return b
}
