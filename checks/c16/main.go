// C16: the block store returns exactly the blocks that were stored.
//
// Explicit-state exploration (state mode, DESIGN §2.2): for every option
// combination {compress} x {cache 1,2} x {max data file 0,3KiB} x {keep 0,1} x
// {backup}, every history of add/get/length/trusted/invalid/idle/close+reopen over
// four blocks up to a depth bound, modulo a canonical state key, is replayed on a
// fresh chain.BlockDB in a fresh scratch directory (worker child processes) and
// compared with a map model after every event; every state is additionally
// audited (all blocks read, one more close+reopen, index walk, all blocks read).
// The snappy codec is checked separately on enumerated string families against an
// independent decoder written from the format description.
package main

import (
	"bytes"
	"crypto/sha256"
	"encoding/hex"
	"encoding/json"
	"flag"
	"fmt"
	"os"
	"path/filepath"
	"regexp"
	"runtime"
	"runtime/pprof"
	"strings"
	"sync"
	"sync/atomic"
	"time"

	"github.com/piotrnar/gocoin/lib/btc"
	"github.com/piotrnar/gocoin/lib/chain"

	"verif/internal/crashfs"
	"verif/internal/ev"
)

var (
	workerMode = flag.Bool("worker", false, "internal: history worker")
	snappyOnly = flag.Bool("snappy-only", false, "internal: run the snappy families and print counters")
	replayFile = flag.String("replay", "", "replay one recorded history (no explorer)")
)

var reDigits = regexp.MustCompile(`(0x)?[0-9a-f]*[0-9][0-9a-f]*`)

// ---------------------------------------------------------------------------
// alphabet

type blk struct {
	name   string
	raw    []byte
	hash   *btc.Uint256
	idx    string // hex of BIdx
	height uint32
	txs    uint32
}

func prng(tag string, n int) []byte {
	out := make([]byte, 0, n+32)
	var ctr uint32
	for len(out) < n {
		h := sha256.Sum256([]byte(fmt.Sprintf("c16/%s/%d", tag, ctr)))
		out = append(out, h[:]...)
		ctr++
	}
	return out[:n]
}

func mkBlocks() []*blk {
	mk := func(i int, name string, body []byte) *blk {
		raw := append(prng(fmt.Sprint("hdr", i), 80), body...)
		h := btc.NewSha2Hash(raw[:80])
		bi := h.BIdx()
		return &blk{name: name, raw: raw, hash: h, idx: hex.EncodeToString(bi[:]), height: uint32(100 + 7*i), txs: uint32(body[0])}
	}
	b0 := mk(0, "b0/81B", []byte{1})
	b1 := mk(1, "b1/2KiB-compressible", append([]byte{2}, bytes.Repeat([]byte("abcdefgh"), 256)[:2048-81]...))
	b2 := mk(2, "b2/2KiB-incompressible", append([]byte{3}, prng("b2", 2048-81)...))
	body := []byte{4}
	p := prng("b3", 20000)
	body = append(body, p...)
	body = append(body, make([]byte, 10000)...)
	body = append(body, p...) // 20000-byte match at distance 30000
	body = append(body, prng("b3tail", 70*1024-80-len(body))...)
	b3 := mk(3, "b3/70KiB-long-match", body)
	return []*blk{b0, b1, b2, b3}
}

var blocks = mkBlocks()

type cfg struct {
	Compress bool   `json:"compress"`
	Cache    int    `json:"cache"`
	MaxFile  uint64 `json:"maxfile"`
	Keep     uint32 `json:"keep"`
	Backup   bool   `json:"backup"`
}

func (c cfg) String() string {
	return fmt.Sprintf("compress=%v,cache=%d,maxfile=%d,keep=%d,backup=%v", c.Compress, c.Cache, c.MaxFile, c.Keep, c.Backup)
}

func allCfgs() []cfg {
	var l []cfg
	for _, comp := range []bool{false, true} {
		for _, cache := range []int{1, 2} {
			for _, mf := range []uint64{0, 3 * 1024} {
				for _, keep := range []uint32{0, 1} {
					for _, bk := range []bool{false, true} {
						l = append(l, cfg{comp, cache, mf, keep, bk})
					}
				}
			}
		}
	}
	return l
}

// ---------------------------------------------------------------------------
// one history on the real store, with the map model

const (
	absent = iota
	present
	limbo // marked invalid while stored on disk: not judged until the next reopen, then must be gone
)

type mblk struct {
	St      int  `json:"st"`
	Trusted bool `json:"tr"`
	Queued  bool `json:"q"`  // added, not yet flushed by idle/close
	Session bool `json:"s"`  // added in the current session (since the last open)
	Readded bool `json:"ra"` // handed in again while in limbo (ignored by the store; not judged)
}

type violation struct {
	Key   string   `json:"key"`
	Sub   string   `json:"sub,omitempty"` // symptom class before root-cause classification
	What  string   `json:"what"`
	Trace []string `json:"trace"`
}

type runner struct {
	c       cfg
	dir     string
	db      *chain.BlockDB
	m       [4]mblk
	queue   []int
	trace   []string
	diag    string // set when, after a reopen, the store's record positions disagree with the index file
	curEv   string
	inAudit bool
	alpha   []int
	maxDat  uint32 // highest data-file index the store has reached (retention is judged against it)
	// set when, after a restart, the store's newest data file is one that retention had
	// already removed / moved to the backup directory (LoadBlockIndex re-creates it)
	recreated int64
	diagRet   string
	soft      []*violation // judged wrong, but the store's state is unaffected: reported, history continues
	crashes   int          // "crash" events so far in this history (bound: one per history)
}

func (r *runner) opts() *chain.BlockDBOpts {
	return &chain.BlockDBOpts{MaxCachedBlocks: r.c.Cache, MaxDataFileSize: r.c.MaxFile, DataFilesKeep: r.c.Keep,
		DataFilesBackup: r.c.Backup, CompressOnDisk: r.c.Compress}
}

type listed struct {
	hash           [32]byte
	hdr            []byte
	height, ln, tx uint32
}

func (r *runner) open() (l []listed) {
	r.db = chain.NewBlockDBExt(r.dir, r.opts())
	r.db.LoadBlockIndex(nil, func(_ *chain.Chain, hash, hdr []byte, height, blen, txs uint32) {
		var e listed
		copy(e.hash[:], hash)
		e.hdr = append([]byte(nil), hdr...)
		e.height, e.ln, e.tx = height, blen, txs
		l = append(l, e)
	})
	return
}

func (r *runner) fail(key, format string, a ...interface{}) *violation {
	what := fmt.Sprintf(format, a...)
	where := "after " + r.curEv
	if r.inAudit {
		where = "in the closing audit of the state reached by " + r.curEv
	}
	if r.diag != "" {
		// one listed root cause: LoadBlockIndex does not advance the index position over
		// a record flagged invalid (every later record gets a position 136 bytes too low,
		// the append position too)
		return &violation{Key: "reopen-index-position-not-advanced-over-invalid-record", Sub: key,
			What: fmt.Sprintf("%s: %s [%s; diagnosed at reopen: %s]", where, what, key, r.diag), Trace: r.trace}
	}
	return &violation{Key: key, What: where + ": " + what, Trace: r.trace}
}

// required: must get(i) succeed now?
func (r *runner) required(i int) bool {
	m := r.m[i]
	if m.St != present {
		return false
	}
	if m.Queued || r.c.Keep == 0 || r.c.Backup {
		return true
	}
	st := r.db.VerifState()
	r.noteMaxDat()
	for _, rec := range st.Recs {
		if rec.Idx == blocks[i].idx {
			if rec.Ipos == -1 {
				return true
			}
			// Falling out of retention is final: the file was removed when the newest
			// data file index passed rec.Dat+keep, and stays removed even if the store's
			// own idea of the newest file moves back after a restart (LoadBlockIndex
			// skips invalid records, so a newest file holding only an invalid block is
			// not counted). Hence the highest index ever reached, not the current one.
			return rec.Dat+r.c.Keep >= r.maxDat
		}
	}
	return true
}

// noteMaxDat keeps the highest data-file index the store has reached in this history.
func (r *runner) noteMaxDat() {
	if st := r.db.VerifState(); st.MaxDatIdx > r.maxDat {
		r.maxDat = st.MaxDatIdx
	}
}

// getFail: a read failure of a block whose data file was re-created after a restart
// is the listed symptom of one root cause (one key whatever the symptom); every other
// failure keeps its own key.
func (r *runner) getFail(i int, key, format string, a ...interface{}) *violation {
	v := r.fail(key, format, a...)
	if r.diagRet == "" || r.diag != "" {
		return v
	}
	for _, rec := range r.db.VerifState().Recs {
		if rec.Idx == blocks[i].idx && rec.Ipos != -1 && int64(rec.Dat) == r.recreated {
			v.Sub = key
			v.Key = "reopen-recreates-data-file-removed-by-retention"
			v.What += " [" + key + "; diagnosed at reopen: " + r.diagRet + "]"
		}
	}
	return v
}

func (r *runner) get(i int) *violation {
	b := blocks[i]
	m := r.m[i]
	req := r.required(i)
	data, tr, err := r.db.BlockGet(b.hash)
	switch m.St {
	case absent:
		if err == nil {
			return r.fail("get/absent-block-served", "BlockGet(%s) returns %d bytes for a block that is not stored", b.name, len(data))
		}
	case limbo:
		if err == nil && !bytes.Equal(data, b.raw) {
			return r.fail("get/wrong-bytes", "BlockGet(%s) returns bytes that differ from the stored block (block marked invalid)", b.name)
		}
	case present:
		if err != nil {
			if req {
				return r.getFail(i, "get/unreadable", "BlockGet(%s) fails: %v", b.name, err)
			}
			return nil
		}
		if !bytes.Equal(data, b.raw) {
			return r.getFail(i, "get/wrong-bytes", "BlockGet(%s) returns %d bytes that differ from the %d stored", b.name, len(data), len(b.raw))
		}
		if tr != m.Trusted {
			return r.fail("get/trusted-flag", "BlockGet(%s) says trusted=%v, expected %v", b.name, tr, m.Trusted)
		}
	}
	return nil
}

func (r *runner) length(i int) *violation {
	b := blocks[i]
	m := r.m[i]
	req := r.required(i)
	n, err := r.db.BlockLength(b.hash, true)
	if m.St != present {
		if m.St == absent && err == nil {
			return r.fail("length/absent-block-served", "BlockLength(%s) = %d for a block that is not stored", b.name, n)
		}
		return nil
	}
	if err != nil {
		if req {
			return r.fail("length/error", "BlockLength(%s) fails: %v", b.name, err)
		}
		return nil
	}
	if int(n) != len(b.raw) {
		if n == 0 && m.Session {
			// independent of the index-position diagnosis: keep its own key
			d := r.diag
			r.diag = ""
			r.soft = append(r.soft, r.fail("length/zero-for-block-added-this-session", "BlockLength(%s, decode_if_needed=true) = 0 with nil error; the block has %d bytes (queued=%v)", b.name, len(b.raw), m.Queued))
			r.diag = d
			return nil
		}
		return r.fail("length/wrong", "BlockLength(%s, true) = %d, the block has %d bytes", b.name, n, len(b.raw))
	}
	return nil
}

func (r *runner) checkListing(l []listed) *violation {
	seen := map[int]int{}
	for _, e := range l {
		bi := -1
		for i, b := range blocks {
			if b.hash.Hash == e.hash {
				bi = i
			}
		}
		if bi < 0 {
			return r.fail("reopen/unknown-block-listed", "the index walk lists a block that was never stored (%x…)", e.hash[:6])
		}
		b := blocks[bi]
		m := r.m[bi]
		switch m.St {
		case absent:
			return r.fail("reopen/absent-block-listed", "the index walk lists %s which is not stored", b.name)
		case limbo:
			if !m.Readded {
				return r.fail("reopen/invalid-block-listed", "the index walk lists %s which was marked invalid", b.name)
			}
		}
		seen[bi]++
		if seen[bi] > 1 {
			return r.fail("reopen/block-listed-twice", "the index walk lists %s twice", b.name)
		}
		if !bytes.Equal(e.hdr, b.raw[:80]) || e.height != b.height || int(e.ln) != len(b.raw) || e.tx != b.txs {
			return r.fail("reopen/wrong-meta", "the index walk lists %s with height=%d size=%d txs=%d, stored with height=%d size=%d txs=%d",
				b.name, e.height, e.ln, e.tx, b.height, len(b.raw), b.txs)
		}
	}
	for i, b := range blocks {
		if r.m[i].St == present && seen[i] == 0 {
			return r.fail("reopen/block-missing", "after restart the index walk does not list %s (stored, never marked invalid)", b.name)
		}
	}
	return nil
}

// diagnose compares, right after an open, every in-memory record position with the
// index file (documented format: 136-byte records, header at [56:136]).
func (r *runner) diagnose() {
	idxf, err := os.ReadFile(filepath.Join(r.dir, "blockchain.new"))
	if err != nil {
		return
	}
	st := r.db.VerifState()
	for _, rec := range st.Recs {
		for _, b := range blocks {
			if b.idx != rec.Idx || rec.Ipos < 0 {
				continue
			}
			if int(rec.Ipos)+136 > len(idxf) || !bytes.Equal(idxf[rec.Ipos+56:rec.Ipos+136], b.raw[:80]) {
				r.diag = fmt.Sprintf("record of %s is remembered at index-file offset %d, which holds another block's record", b.name, rec.Ipos)
				return
			}
		}
	}
	if int(st.MaxIdxPos) != len(idxf)/136*136 {
		r.diag = fmt.Sprintf("append position %d, index file holds %d complete records (%d bytes)", st.MaxIdxPos, len(idxf)/136, len(idxf))
	}
}

func (r *runner) reopen() *violation {
	r.db.Close()
	r.noteMaxDat() // Close flushes the queue and may roll over to a new data file
	return r.reopenClosed()
}

// crash: the process dies while the last queued block is being flushed, after its bytes
// have reached the data file and before its index record is written (writeOne writes the
// data first). Realised on the files a clean Close leaves: the last 136-byte record of
// blockchain.new - the record of that block, records are only ever appended - is cut off
// again; the block's bytes stay in the data file, beyond every indexed position. The block
// was never acknowledged as stored: the model forgets it. At most one crash per history.
func (r *runner) crash() *violation {
	i := r.queue[len(r.queue)-1]
	r.db.Close()
	r.noteMaxDat()
	idx := r.dir + "blockchain.new"
	raw, err := os.ReadFile(idx)
	if err != nil {
		ev.HarnessError("crash: %v", err)
	}
	r.crashes++
	if n := len(raw); n >= 136 && n%136 == 0 && bytes.Equal(raw[n-80:], blocks[i].raw[:80]) {
		if err := os.Truncate(idx, int64(n-136)); err != nil {
			ev.HarnessError("crash: %v", err)
		}
		r.m[i] = mblk{}
	}
	// otherwise the index does not end with the record of the block flushed last: nothing
	// is cut and the event is a plain restart (what the index then lists is judged as usual)
	return r.reopenClosed()
}

// burst: more blocks than the write queue holds (MAX_BLOCKS_TO_WRITE = 1024; BlockAdd flushes
// when the queue is full) are added back to back without Idle - a sync burst of small blocks -,
// every one is read back while queued / after the flush, and again after a restart. Its own
// map model (1100 one-transaction blocks of 81 bytes), outside the four-block alphabet.
func (r *runner) burst() *violation {
	const n = 1100
	type bb struct {
		raw  []byte
		hash *btc.Uint256
	}
	var l []bb
	for k := 0; k < n; k++ {
		raw := append(prng(fmt.Sprint("burst", k), 80), 1)
		l = append(l, bb{raw, btc.NewSha2Hash(raw[:80])})
	}
	for k, b := range l {
		bl, err := btc.NewBlock(append([]byte(nil), b.raw...))
		if err != nil {
			ev.HarnessError("btc.NewBlock(burst %d): %v", k, err)
		}
		if err := r.db.BlockAdd(uint32(1000+k), bl); err != nil {
			return r.fail("burst/add-error", "BlockAdd of block %d of a burst of %d fails: %v", k, n, err)
		}
	}
	all := func(when string) *violation {
		for k, b := range l {
			data, _, err := r.db.BlockGet(b.hash)
			if err != nil {
				return r.fail("burst/unreadable", "%s: block %d of a burst of %d cannot be read: %v", when, k, n, err)
			}
			if !bytes.Equal(data, b.raw) {
				return r.fail("burst/wrong-bytes", "%s: block %d of a burst of %d reads back as other bytes", when, k, n)
			}
		}
		return nil
	}
	if v := all("right after the burst"); v != nil {
		return v
	}
	r.db.Close()
	cnt := 0
	r.db = chain.NewBlockDBExt(r.dir, r.opts())
	r.db.LoadBlockIndex(nil, func(_ *chain.Chain, hash, hdr []byte, height, blen, txs uint32) { cnt++ })
	if cnt != n {
		return r.fail("burst/listing", "after a restart the index lists %d blocks, %d were stored", cnt, n)
	}
	if v := all("after a restart"); v != nil {
		return v
	}
	r.db.Close()
	return nil
}

func (r *runner) reopenClosed() *violation {
	l := r.open()
	r.queue = nil
	for i := range r.m {
		m := &r.m[i]
		m.Queued, m.Session = false, false
	}
	r.noteMaxDat()
	r.dumpState("after reopen")
	if st := r.db.VerifState(); r.diagRet == "" && r.c.Keep != 0 && st.MaxDatIdx+r.c.Keep < r.maxDat {
		r.recreated = int64(st.MaxDatIdx)
		r.diagRet = fmt.Sprintf("after the restart the store's newest data file is %d, which retention (keep=%d, newest file reached: %d) had already removed or moved to the backup directory: "+
			"LoadBlockIndex ignores records marked invalid when it looks for the newest data file, re-creates file %d empty and appends to it at the old offset", st.MaxDatIdx, r.c.Keep, r.maxDat, st.MaxDatIdx)
	}
	v := r.checkListing(l)
	for i := range r.m {
		m := &r.m[i]
		if m.St == limbo {
			*m = mblk{}
		}
	}
	if v != nil {
		return v
	}
	if r.diag == "" {
		r.diagnose()
	}
	return nil
}

// dumpState (C16_TRACE=1, replay mode): where every block lives and which files exist.
func (r *runner) dumpState(when string) {
	if os.Getenv("C16_TRACE") == "" {
		return
	}
	st := r.db.VerifState()
	var recs []string
	for _, rec := range st.Recs {
		for _, b := range blocks {
			if b.idx == rec.Idx {
				recs = append(recs, fmt.Sprintf("%s:file%d@%d", b.name[:2], rec.Dat, rec.Fpos))
			}
		}
	}
	var files []string
	filepath.Walk(r.dir, func(p string, info os.FileInfo, err error) error {
		if err == nil && !info.IsDir() && strings.HasSuffix(p, ".dat") {
			rel, _ := filepath.Rel(r.dir, p)
			files = append(files, rel)
		}
		return nil
	})
	fmt.Fprintf(ev.Out, "  trace %-16s newest-file(store)=%d newest-file-ever=%d records=%v files=%v\n", when, st.MaxDatIdx, r.maxDat, recs, files)
}

func (r *runner) step(e string) *violation {
	// the removal of an old data file runs in a goroutine started at roll-over; the
	// harness owns that timing: every event starts after it has finished
	defer func() {
		if r.db != nil {
			r.db.VerifWaitFiles()
			r.noteMaxDat()
			r.dumpState("after " + e)
		}
	}()
	r.curEv = e
	r.trace = append(r.trace, e)
	if e == "idle" {
		r.db.Idle()
		r.queue = nil
		for i := range r.m {
			r.m[i].Queued = false
		}
		return nil
	}
	if e == "reopen" {
		return r.reopen()
	}
	if e == "crash" {
		return r.crash()
	}
	if len(e) < 4 {
		ev.HarnessError("bad event %q", e)
	}
	i := int(e[3] - '0')
	if i < 0 || i > 3 {
		ev.HarnessError("bad event %q", e)
	}
	b := blocks[i]
	m := &r.m[i]
	switch e[:3] {
	case "add":
		tr := strings.HasSuffix(e, "t")
		bl, err := btc.NewBlock(append([]byte(nil), b.raw...))
		if err != nil {
			ev.HarnessError("btc.NewBlock(%s): %v", b.name, err)
		}
		if tr {
			bl.Trusted.Set()
		}
		if err := r.db.BlockAdd(b.height, bl); err != nil {
			return r.fail("add/error", "BlockAdd(%s) fails: %v", b.name, err)
		}
		switch m.St {
		case absent:
			*m = mblk{St: present, Trusted: tr, Queued: true, Session: true}
			r.queue = append(r.queue, i)
		case present:
			if tr {
				m.Trusted = true
			}
		case limbo:
			m.Readded = true
			if tr {
				m.Trusted = true
			}
		}
	case "get":
		return r.get(i)
	case "len":
		return r.length(i)
	case "tru":
		r.db.BlockTrusted(b.hash.Hash[:])
		if m.St == present {
			m.Trusted = true
		}
	case "inv":
		r.db.BlockInvalid(b.hash.Hash[:])
		if m.St == present {
			if m.Queued {
				*m = mblk{} // dropped before it was written; the queue entry stays (discarded at flush)
			} else {
				m.St = limbo
			}
		}
	default:
		ev.HarnessError("bad event %q", e)
	}
	return nil
}

func (r *runner) enabled() []string {
	var l []string
	al := r.alpha
	if al == nil {
		al = []int{0, 1, 2, 3}
	}
	for _, i := range al {
		l = append(l, fmt.Sprintf("add%d", i), fmt.Sprintf("add%dt", i))
	}
	for _, i := range al {
		l = append(l, fmt.Sprintf("get%d", i))
	}
	for _, i := range al {
		if r.m[i].St != absent {
			l = append(l, fmt.Sprintf("len%d", i))
		}
	}
	for _, i := range al {
		// BlockInvalid on a trusted block panics by design: not in the menu
		if r.m[i].St == present && !r.m[i].Trusted {
			l = append(l, fmt.Sprintf("tru%d", i), fmt.Sprintf("inv%d", i))
		}
	}
	l = append(l, "idle", "reopen")
	if n := len(r.queue); n > 0 && r.crashes == 0 {
		if m := r.m[r.queue[n-1]]; m.St == present && m.Queued {
			l = append(l, "crash")
		}
	}
	return l
}

func (r *runner) key() string {
	st := r.db.VerifState()
	r.noteMaxDat()
	b, _ := json.Marshal([]interface{}{r.m, r.queue, st, r.diag != "", r.maxDat, r.recreated, r.crashes})
	h := sha256.Sum256(b)
	return hex.EncodeToString(h[:12])
}

// audit: every block readable now; after one more close+reopen; and after an
// append following that reopen and yet another reopen ("appending continues
// without overwriting any of them").
func (r *runner) audit() *violation {
	r.inAudit = true
	all := func() *violation {
		for i := range blocks {
			if v := r.get(i); v != nil {
				return v
			}
		}
		return nil
	}
	if v := all(); v != nil {
		return v
	}
	r.trace = append(r.trace, "(audit: reopen)")
	if v := r.reopen(); v != nil {
		return v
	}
	if v := all(); v != nil {
		return v
	}
	for i := range blocks {
		if r.m[i].St == absent {
			e := fmt.Sprintf("add%d", i)
			r.trace = append(r.trace, "(audit: "+e+", reopen)")
			cur := r.curEv
			if v := r.step(e); v != nil {
				return v
			}
			r.trace = r.trace[:len(r.trace)-1]
			r.curEv = cur
			if v := r.reopen(); v != nil {
				return v
			}
			return all()
		}
	}
	return nil
}

type result struct {
	Ev      string       `json:"ev"`
	Key     string       `json:"key,omitempty"`
	Viol    *violation   `json:"viol,omitempty"`
	Soft    []*violation `json:"soft,omitempty"`
	Enabled []string     `json:"enabled,omitempty"`

	AuditSkipped bool `json:"as,omitempty"`
}

// replay runs hist on a fresh store; a panic of the store is a violation.
func replay(c cfg, alpha []int, hist []string, audit bool) (res result) {
	dir := ev.Scratch("c16")
	defer os.RemoveAll(dir)
	r := &runner{c: c, alpha: alpha, dir: dir + "/blocks/", recreated: -1}
	defer func() {
		if p := recover(); p != nil {
			msg := reDigits.ReplaceAllString(fmt.Sprint(p), "N") // sizes and addresses out of the key
			if len(msg) > 80 {
				msg = msg[:80]
			}
			res.Key = ""
			res.Viol = r.fail("panic:"+msg, "panic: %v", p)
		}
	}()
	r.curEv = "open"
	l := r.open()
	if v := r.checkListing(l); v != nil {
		res.Viol = v
		return
	}
	if len(hist) == 1 && hist[0] == "burst" {
		r.curEv, r.trace = "burst", []string{"burst"}
		res.Ev = "burst"
		res.Viol = r.burst()
		if res.Viol == nil {
			res.Key = "burst-ok"
		}
		return
	}
	for _, e := range hist {
		if v := r.step(e); v != nil {
			res.Viol = v
			return
		}
	}
	res.Key = r.key()
	res.Enabled = r.enabled()
	res.Soft = r.soft
	// a state already audited (by this worker process) with a clean result needs no
	// second audit: equal keys mean equal store state, hence equal audit outcome
	ck := c.String() + res.Key
	if audit && auditedOK[ck] {
		audit = false
		res.AuditSkipped = true
	}
	if audit {
		if v := r.audit(); v != nil {
			res.Key = ""
			res.Viol = v
			return
		}
	}
	if audit {
		auditedOK[ck] = true
	}
	r.db.Close()
	return
}

var auditedOK = map[string]bool{}

// ---------------------------------------------------------------------------
// worker protocol

type job struct {
	Cfg    cfg      `json:"cfg"`
	Alpha  []int    `json:"alpha"` // block indices in the event menu (nil = all)
	Hist   []string `json:"hist"`
	Events []string `json:"events"` // nil: the state itself (hist), else one replay per hist+event
}

type reply struct {
	Results []result `json:"results"`
}

func handle(line []byte) []byte {
	var j job
	if err := json.Unmarshal(line, &j); err != nil {
		ev.HarnessError("worker: bad job: %v", err)
	}
	var rep reply
	if j.Events == nil {
		r := replay(j.Cfg, j.Alpha, j.Hist, true)
		rep.Results = append(rep.Results, r)
	}
	for _, e := range j.Events {
		r := replay(j.Cfg, j.Alpha, append(append([]string(nil), j.Hist...), e), true)
		r.Ev = e
		rep.Results = append(rep.Results, r)
	}
	b, _ := json.Marshal(rep)
	return b
}

// ---------------------------------------------------------------------------
// explorer

type explorer struct {
	run    *ev.Run
	pool   *crashfs.Pool
	states int64
	trans  int64
	evCnt  map[string]int64
	deaths int64

	auditSkipped int64
	violCnt      map[string]int
}

// do runs a job; a worker death is attributed by re-running event by event.
func (x *explorer) do(j job) []result {
	b, _ := json.Marshal(j)
	rep, death, err := x.pool.Do(b)
	if err != nil {
		ev.HarnessError("worker pool: %v", err)
	}
	if death == nil {
		var r reply
		if err := json.Unmarshal(rep, &r); err != nil {
			ev.HarnessError("bad worker reply: %v", err)
		}
		return r.Results
	}
	atomic.AddInt64(&x.deaths, 1)
	if len(j.Events) <= 1 {
		e := ""
		if len(j.Events) == 1 {
			e = j.Events[0]
		}
		d := death.Detail
		if len(d) > 80 {
			d = d[:80]
		}
		return []result{{Ev: e, Viol: &violation{Key: "worker-died:" + death.Class + ":" + d,
			What:  fmt.Sprintf("the process running the history died: %v; stderr tail: %s", death, tail(death.Stderr, 400)),
			Trace: append(append([]string(nil), j.Hist...), j.Events...)}}}
	}
	var out []result
	for _, e := range j.Events {
		out = append(out, x.do(job{Cfg: j.Cfg, Alpha: j.Alpha, Hist: j.Hist, Events: []string{e}})...)
	}
	return out
}

func tail(b []byte, n int) string {
	if len(b) > n {
		b = b[len(b)-n:]
	}
	return strings.ReplaceAll(string(b), "\n", " | ")
}

// confirm re-executes a violating history twice more; it must fail the same way.
func (x *explorer) confirm(c cfg, hist []string, v *violation) bool {
	for k := 0; k < 2; k++ {
		var j job
		if len(hist) == 0 {
			j = job{Cfg: c, Hist: hist}
		} else {
			j = job{Cfg: c, Hist: hist[:len(hist)-1], Events: hist[len(hist)-1:]}
		}
		rs := x.do(j)
		if len(rs) != 1 {
			return false
		}
		ok := rs[0].Viol != nil && rs[0].Viol.Key == v.Key
		for _, sv := range rs[0].Soft {
			ok = ok || sv.Key == v.Key
		}
		if !ok {
			return false
		}
	}
	return true
}

type cfgStats struct {
	States, Trans, Depth int
	PerDepth             []int
}

func (s *search) alphaName() string {
	if s.alpha == nil {
		return "b0,b1,b2,b3"
	}
	var l []string
	for _, i := range s.alpha {
		l = append(l, fmt.Sprintf("b%d", i))
	}
	return strings.Join(l, ",")
}

type node struct {
	hist    []string
	enabled []string
}

type search struct {
	c        cfg
	alpha    []int
	depth    int
	seen     map[string]struct{}
	frontier []node
	st       cfgStats
	dead     bool
}

// exploreAll: breadth first over all configurations, depth-major (a budget cap
// leaves every configuration complete to the same depth).
func (x *explorer) exploreAll(ss []*search, samples *ev.Samples) []*search {
	depth := 0
	for _, s := range ss {
		c := s.c
		s.seen = map[string]struct{}{}
		if s.depth > depth {
			depth = s.depth
		}
		root := x.do(job{Cfg: c, Alpha: s.alpha, Hist: []string{}})
		if len(root) != 1 {
			ev.HarnessError("no root result")
		}
		if root[0].Viol != nil {
			x.report(c, nil, root[0].Viol)
			s.dead = true
			continue
		}
		s.seen[root[0].Key] = struct{}{}
		s.frontier = []node{{nil, root[0].Enabled}}
		s.st.States = 1
		s.st.PerDepth = []int{1}
	}
	type item struct{ si, fi int }
	for d := 0; d < depth; d++ {
		var items []item
		for si, s := range ss {
			if d >= s.depth {
				s.frontier = nil
			}
			for fi := range s.frontier {
				items = append(items, item{si, fi})
			}
		}
		if len(items) == 0 {
			break
		}
		results := make([][]result, len(items))
		var wg sync.WaitGroup
		var next int64 = -1
		var capped int32
		for w := 0; w < runtime.NumCPU(); w++ {
			wg.Add(1)
			go func() {
				defer wg.Done()
				for {
					k := int(atomic.AddInt64(&next, 1))
					if k >= len(items) {
						return
					}
					if k%64 == 0 && x.run.OverBudget() {
						atomic.StoreInt32(&capped, 1)
					}
					if atomic.LoadInt32(&capped) != 0 {
						return
					}
					it := items[k]
					n := ss[it.si].frontier[it.fi]
					results[k] = x.do(job{Cfg: ss[it.si].c, Alpha: ss[it.si].alpha, Hist: n.hist, Events: n.enabled})
				}
			}()
		}
		wg.Wait()
		// results are folded in a fixed order (configuration, frontier position, event)
		nexts := make([][]node, len(ss))
		for k, rs := range results {
			it := items[k]
			s := ss[it.si]
			for _, r := range rs {
				s.st.Trans++
				x.evCnt[r.Ev[:3]]++
				if r.AuditSkipped {
					x.auditSkipped++
				}
				h := append(append([]string(nil), s.frontier[it.fi].hist...), r.Ev)
				for _, sv := range r.Soft {
					x.violCnt[sv.Key]++
					x.report(s.c, h, sv)
				}
				if r.Viol != nil {
					x.violCnt[r.Viol.Key+" <- "+r.Viol.Sub]++
					x.report(s.c, h, r.Viol)
					continue
				}
				if _, ok := s.seen[r.Key]; !ok {
					s.seen[r.Key] = struct{}{}
					nexts[it.si] = append(nexts[it.si], node{h, r.Enabled})
					if len(h) >= 4 {
						samples.Add(map[string]interface{}{"cfg": s.c.String(), "alphabet": s.alphaName(), "history": h})
					}
				}
			}
		}
		if capped != 0 {
			// the level is incomplete: counted transitions stay, the depth is not claimed
			for _, s := range ss {
				s.st.States = len(s.seen)
			}
			break
		}
		for si, s := range ss {
			if d >= s.depth {
				continue
			}
			s.st.States = len(s.seen)
			s.st.Depth = d + 1
			s.st.PerDepth = append(s.st.PerDepth, len(nexts[si]))
			s.frontier = nexts[si]
		}
	}
	return ss
}

var reported sync.Map

func (x *explorer) report(c cfg, hist []string, v *violation) {
	// one confirmation per key and configuration is enough
	if _, dup := reported.LoadOrStore(v.Key+"|"+c.String(), true); dup {
		return
	}
	if !x.confirm(c, hist, v) {
		x.run.Unrepro = append(x.run.Unrepro, fmt.Sprintf("%s cfg=%s history=%v", v.Key, c, hist))
		fmt.Fprintf(os.Stderr, "UNREPRODUCIBLE %s cfg=%s history=%v\n", v.Key, c, hist)
		return
	}
	x.run.Report(v.Key, fmt.Sprintf("[%s] history %v: %s", c, hist, v.What),
		map[string]interface{}{"cfg": c, "events": hist, "trace": v.Trace})
}

func doReplay(file string) {
	b, err := os.ReadFile(file)
	if err != nil {
		ev.HarnessError("%v", err)
	}
	var rec struct {
		Replay struct {
			Cfg    cfg      `json:"cfg"`
			Events []string `json:"events"`
		} `json:"replay"`
	}
	if err := json.Unmarshal(b, &rec); err != nil {
		ev.HarnessError("%v", err)
	}
	if rec.Replay.Cfg.Cache == 0 && len(rec.Replay.Events) > 0 && strings.HasPrefix(rec.Replay.Events[0], "snappy") {
		os.Exit(replaySnappy(rec.Replay.Events))
	}
	fmt.Fprintf(ev.Out, "replay: cfg %s, history %v\n", rec.Replay.Cfg, rec.Replay.Events)
	r := replay(rec.Replay.Cfg, nil, rec.Replay.Events, true)
	if r.Viol == nil && len(r.Soft) > 0 {
		r.Viol = r.Soft[0]
	}
	if r.Viol == nil {
		fmt.Fprintln(ev.Out, "replay: history passes")
		os.Exit(0)
	}
	fmt.Fprintf(ev.Out, "replay: %s: %s\n", r.Viol.Key, r.Viol.What)
	for _, s := range r.Viol.Trace {
		fmt.Fprintf(ev.Out, "  %s\n", s)
	}
	os.Exit(1)
}

func quiet() {
	if f, err := os.OpenFile(os.DevNull, os.O_WRONLY, 0); err == nil {
		os.Stdout = f
	}
}

func main() {
	r := ev.Start("C16", "model_checking")
	quiet()
	if *workerMode {
		crashfs.ServeWorker(handle)
		return
	}
	if *snappyOnly {
		snappyMain()
		return
	}
	if *replayFile != "" {
		doReplay(*replayFile)
		return
	}
	if pf := os.Getenv("C16_BENCH"); pf != "" {
		f, _ := os.Create(pf)
		pprof.StartCPUProfile(f)
		t0 := time.Now()
		for i := 0; i < 3000; i++ {
			replay(cfg{true, 2, 3072, 1, true}, nil, []string{"add0", "add1t", "add3", "idle", "get1", "add2"}, true)
		}
		pprof.StopCPUProfile()
		fmt.Fprintln(ev.Out, "bench: per replay", time.Since(t0)/3000)
		return
	}
	depth, pairDepth := 4, 8
	r.Budget = 110 * time.Second
	if r.Thorough() {
		depth, pairDepth = 6, 9
		r.Budget = 17 * time.Minute
	}
	if d := os.Getenv("C16_DEPTH"); d != "" {
		fmt.Sscan(strings.ReplaceAll(d, ",", " "), &depth, &pairDepth)
	}

	// snappy families first (both back ends)
	sn := runSnappy(r)

	x := &explorer{run: r, evCnt: map[string]int64{}, violCnt: map[string]int{},
		pool: crashfs.NewPool(runtime.NumCPU(), []string{"--worker"}, []string{"GOGC=800", "GOMAXPROCS=1", "VERIF_CPU_WATCHDOG_S=60"}, 240*time.Second)}
	samples := &ev.Samples{N: 4}
	cfgs := allCfgs()
	if only := os.Getenv("C16_CFG"); only != "" {
		var l []cfg
		for _, c := range cfgs {
			if strings.Contains(c.String(), only) {
				l = append(l, c)
			}
		}
		cfgs = l
	}
	// searches: (configuration, block sub-alphabet, depth bound). The cheap 2-block
	// searches run first, then the 4-block ones, each group breadth first over all
	// its configurations (a budget cap then cuts the deepest level only).
	pairs := [][]int{{0, 1}, {0, 2}, {0, 3}, {1, 2}, {1, 3}, {2, 3}}
	var ss, ss2, ss4 []*search
	for i, c := range cfgs {
		d4 := depth
		if r.Thorough() && c.MaxFile == 0 && (c.Keep != 0 || c.Backup) {
			// without a data-file size limit there is no roll-over, and keep/backup are
			// only read on roll-over: these 12 configurations stay one level shallower
			d4 = depth - 1
		}
		ss4 = append(ss4, &search{c: c, depth: d4})
		if r.Thorough() {
			for _, p := range pairs {
				ss2 = append(ss2, &search{c: c, alpha: p, depth: pairDepth})
			}
		} else {
			ss2 = append(ss2, &search{c: c, alpha: pairs[i%len(pairs)], depth: pairDepth})
		}
	}
	// burst family: one history per (compression, data-file limit) with retention off
	bursts := 0
	for _, c := range cfgs {
		if c.Keep != 0 || c.Backup || c.Cache != 2 {
			continue
		}
		bursts++
		wedged := false
		for _, res := range x.do(job{Cfg: c, Hist: []string{"burst"}}) {
			if res.Viol != nil {
				x.violCnt[res.Viol.Key]++
				x.report(c, []string{"burst"}, res.Viol)
				wedged = wedged || strings.HasPrefix(res.Viol.Key, "worker-died")
			}
		}
		if wedged {
			// a store that hangs in a burst costs a full watchdog period per execution (and two more
			// to confirm): one configuration is enough to report it
			break
		}
	}
	x.exploreAll(ss2, samples)
	x.exploreAll(ss4, samples)
	ss = append(append(ss, ss4...), ss2...)
	x.pool.Close()
	per := map[string]interface{}{}
	states, trans, exhaustive := 0, 0, true
	depthDone := map[string]int{}
	for _, s := range ss {
		per[s.c.String()+" alphabet="+s.alphaName()] = map[string]interface{}{"states": s.st.States, "transitions": s.st.Trans, "depth_bound": s.depth, "depth_completed": s.st.Depth, "new_states_per_depth": s.st.PerDepth}
		states += s.st.States
		trans += s.st.Trans
		k := "4-blocks"
		if s.alpha != nil {
			k = "2-blocks"
		}
		if d, ok := depthDone[k]; !ok || s.st.Depth < d {
			depthDone[k] = s.st.Depth
		}
		if s.st.Depth < s.depth && !s.dead {
			exhaustive = false
		}
	}
	evc := x.evCnt
	cov := map[string]interface{}{
		"states":                               states,
		"transitions":                          trans,
		"traces_validated_against_impl":        trans,
		"configurations":                       len(cfgs),
		"burst_histories":                      bursts,
		"depth_bound":                          map[string]int{"4-blocks": depth, "2-blocks": pairDepth},
		"min_depth_completed":                  depthDone,
		"searches":                             len(ss),
		"per_search":                           per,
		"violating_histories_per_key":          x.violCnt,
		"transitions_per_event_kind":           evc,
		"worker_processes_started":             x.pool.Spawned,
		"worker_deaths":                        x.deaths,
		"audits_skipped_state_already_audited": x.auditSkipped,
		"samples":                              samples.L,
		"snappy":                               sn,
		"rule": "state = shortest history reaching it; each transition is a full replay of history+event on a fresh BlockDB in a fresh directory, compared with the map model at every event, followed by an audit of the reached state (read all blocks; close+reopen, index walk, read all; append one absent block, close+reopen, index walk, read all); " +
			"state key = (model, write queue, every private bookkeeping field of BlockDB: per-record file/position/lengths/flags, LRU order of the cache, append positions)",
	}
	if !exhaustive {
		cov["exhaustive"] = false
	}
	r.Finish(cov, []string{
		"oracle = map model: exact bytes and trusted flag from BlockGet until the block is marked invalid; after restart the walk lists exactly the stored non-invalid blocks with height/size/tx count",
		"after invalid(i) on a block already written the block is not judged until the next reopen (the store keeps serving it), then it must be gone; re-adding it in the same session is ignored by the store and not judged",
		"retention (keep=1, no backup): a block must be readable while its data file index >= (highest data file index the store has reached in the history) - keep; file indexes are read from BlockDB's own bookkeeping; falling out of retention is final (the store's recomputed newest index can move back after a restart when the newest file holds only a block marked invalid); older blocks may fail but never return wrong bytes",
		"BlockInvalid on a trusted block panics by design and is not in the menu; BlockTrusted/BlockInvalid on unknown hashes only print and are not in the menu",
		"flush thresholds of BlockAdd (1024 blocks / 16 MiB) are not reached: queued = added since the last idle/close",
		"BlockLength is judged with decode_if_needed=true only",
	})
}
