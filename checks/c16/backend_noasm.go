//go:build noasm

package main

const snappyPureGo = true
