package main

import (
	"fmt"
	"os"

	"github.com/piotrnar/gocoin/lib/chain"
	"github.com/piotrnar/gocoin/lib/others/qdb"
	"github.com/piotrnar/gocoin/lib/others/vshim/vos"
	_ "github.com/piotrnar/gocoin/lib/utxo"
)

func main() {
	d, _ := os.MkdirTemp("/dev/shm", "probe")
	defer os.RemoveAll(d)
	rec := vos.Record(d)
	db, _ := qdb.NewDB(d+"/q", true)
	db.Put(1, []byte("hello"))
	db.Sync()
	db.Mutex.Lock()
	db.Mutex.Unlock()
	db.Close()
	_ = chain.NewBlockDB
	for _, e := range rec.Effects() {
		fmt.Println(e)
	}
}
