// C02: the digests that are signed / verified equal the original algorithm, BIP143
// and BIP341/BIP342; where no digest is defined the signature check fails; cached
// intermediate hashes never change an answer.
//
// Exploration (exhaustive over constructed finite families):
//
//	(i)   digest equality of Tx.SignatureHash / Tx.WitnessSigHash / Tx.TaprootSigHash
//	      with refhash over a product of transaction shapes x input index x hash type
//	      x script code alphabet x annex x key/script path x codeseparator position;
//	(ii)  verdict of script.VerifyTxScript for signatures made by the reference signer
//	      (refsig) over the reference digest, over wrong digests, and - where the BIPs
//	      define no digest - over the all-zero digest and the legacy "1" constant;
//	(iii) every sequence of digest requests (length <= 3, thorough 4) over 16 request
//	      kinds on ONE Tx object, each answer compared with a fresh object and refhash.
//
// Part (iv) (concurrent requests under a controlled scheduler) lives elsewhere.
package main

import (
	"bytes"
	"crypto/sha256"
	"encoding/hex"
	"encoding/json"
	"flag"
	"fmt"
	"math/big"
	"os"
	"os/exec"
	"path/filepath"
	"runtime"
	"sort"
	"strings"
	"sync"
	"sync/atomic"
	"time"

	"github.com/piotrnar/gocoin/lib/btc"
	"github.com/piotrnar/gocoin/lib/script"

	"verif/internal/ev"
	"verif/ref/refhash"
	"verif/ref/refscript"
	"verif/ref/refsecp"
	"verif/ref/refsig"
	"verif/ref/reftx"
)

var replayFile = flag.String("replay", "", "replay one recorded case (no explorer)")

// ---------------------------------------------------------------------------
// binding to the code under test

// toGocoin builds the implementation's transaction object through its own
// decoder from the reference encoder's bytes.
func toGocoin(t *reftx.Tx, spent []reftx.Out) *btc.Tx {
	raw := t.Serialize(true)
	g, n := btc.NewTx(raw)
	if g == nil || n != len(raw) {
		ev.HarnessError("btc.NewTx refuses a transaction built by reftx: %x", raw)
	}
	g.SetHash(raw)
	resetCache(g, spent)
	return g
}

func resetCache(g *btc.Tx, spent []reftx.Out) {
	g.Clean()
	g.AllocVerVars()
	if spent != nil {
		g.Spent_outputs = make([]*btc.TxOut, len(spent))
		for i := range spent {
			g.Spent_outputs[i] = &btc.TxOut{Value: spent[i].Value, Pk_script: spent[i].Script}
		}
	}
}

type hexb []byte

func (h hexb) MarshalJSON() ([]byte, error) { return json.Marshal(hex.EncodeToString(h)) }
func (h *hexb) UnmarshalJSON(b []byte) error {
	var s string
	if err := json.Unmarshal(b, &s); err != nil {
		return err
	}
	d, err := hex.DecodeString(s)
	*h = d
	return err
}

type spentJ struct {
	Value  uint64 `json:"value"`
	Script hexb   `json:"script"`
}

type extJ struct {
	LeafHash hexb   `json:"leaf_hash"`
	CodeSep  uint32 `json:"codesep_pos"`
}

type reqJ struct {
	Kind string `json:"kind"`
	Idx  int    `json:"idx"`
}

// caseJ is the replayable form of any evaluation of this check.
type caseJ struct {
	Family     string   `json:"family"` // legacy | bip143 | taproot | order | verify
	Tx         hexb     `json:"tx"`
	Spent      []spentJ `json:"spent,omitempty"`
	Idx        int      `json:"idx"`
	HashType   uint32   `json:"hash_type"`
	ScriptCode hexb     `json:"script_code,omitempty"`
	Amount     uint64   `json:"amount,omitempty"`
	Annex      *hexb    `json:"annex,omitempty"`
	Ext        *extJ    `json:"ext,omitempty"`
	Seq        []reqJ   `json:"seq,omitempty"`
	PkScript   hexb     `json:"pk_script,omitempty"`
	Flags      uint32   `json:"flags,omitempty"`
	Expect     bool     `json:"expect,omitempty"`
	Label      string   `json:"label,omitempty"`
}

func spentToJ(s []reftx.Out) []spentJ {
	var l []spentJ
	for _, o := range s {
		l = append(l, spentJ{o.Value, o.Script})
	}
	return l
}
func spentFromJ(s []spentJ) []reftx.Out {
	var l []reftx.Out
	for _, o := range s {
		l = append(l, reftx.Out{Value: o.Value, Script: o.Script})
	}
	return l
}

// ---------------------------------------------------------------------------
// implementation calls, with panic capture (a digest request must not crash)

func callLegacy(g *btc.Tx, code []byte, idx int, ht uint32) (d []byte, pan string) {
	defer func() {
		if r := recover(); r != nil {
			pan = fmt.Sprint(r)
		}
	}()
	return g.SignatureHash(code, idx, int32(ht)), ""
}

func callBIP143(g *btc.Tx, code []byte, amount uint64, idx int, ht uint32) (d []byte, pan string) {
	defer func() {
		if r := recover(); r != nil {
			pan = fmt.Sprint(r)
		}
	}()
	return g.WitnessSigHash(code, amount, idx, int32(ht)), ""
}

func annexHash(annex []byte) []byte {
	if annex == nil {
		return nil
	}
	h := sha256.Sum256(append(reftx.PutCS(nil, uint64(len(annex))), annex...))
	return h[:]
}

func callTaproot(g *btc.Tx, idx int, ht byte, annex []byte, ext *refhash.TapExt) (d []byte, pan string) {
	defer func() {
		if r := recover(); r != nil {
			pan = fmt.Sprint(r)
		}
	}()
	ed := &btc.ScriptExecutionData{M_annex_hash: annexHash(annex), M_codeseparator_pos: 0xffffffff, M_codeseparator_pos_init: true}
	if ext != nil {
		ed.M_tapleaf_hash = append([]byte{}, ext.LeafHash[:]...)
		ed.M_codeseparator_pos = ext.CodeSepPos
	}
	return g.TaprootSigHash(ed, idx, ht, ext != nil), ""
}

func short(s string) string {
	if len(s) > 60 {
		return s[:60]
	}
	return s
}

// ---------------------------------------------------------------------------
// family (i): shape alphabets

type shape struct {
	name  string
	tx    *reftx.Tx
	spent []reftx.Out
	heavy bool
}

func fill(n int, b byte) []byte { return bytes.Repeat([]byte{b}, n) }

func tapSPK(k byte) []byte { return append([]byte{0x51, 0x20}, fill(32, k)...) }

func shapes() []shape {
	type variant struct {
		name      string
		version   uint32
		locktime  uint32
		seqs      [3]uint32
		amounts   [3]uint64
		outScript [3][]byte
		sigScript [3][]byte
		spentAmt  [3]uint64
		spentScr  [3][]byte
		vouts     [3]uint32
		heavy     bool
	}
	std := [3][]byte{{0x51}, {0x52}, {0x53}}
	tap := [3][]byte{tapSPK(1), tapSPK(2), tapSPK(3)}
	vs := []variant{
		{name: "v1-final", version: 1, locktime: 0, seqs: [3]uint32{0xffffffff, 0xffffffff, 0xffffffff}, amounts: [3]uint64{1, 1, 1}, outScript: std, spentAmt: [3]uint64{1, 2, 3}, spentScr: tap},
		{name: "v2-lock-height", version: 2, locktime: 499999999, seqs: [3]uint32{0, 1, 0xfffffffe}, amounts: [3]uint64{0, 1, 2}, outScript: std, spentAmt: [3]uint64{0, 1, 1 << 63}, spentScr: tap, vouts: [3]uint32{0, 1, 0xffffffff}},
		{name: "v0-lock-time", version: 0, locktime: 500000000, seqs: [3]uint32{0x80000000, 0x00400000, 0xffff}, amounts: [3]uint64{1 << 63, 1, 0}, outScript: std, spentAmt: [3]uint64{1<<64 - 1, 0, 1}, spentScr: tap, vouts: [3]uint32{1, 1, 1}},
		{name: "vmaxint-lockmax", version: 0x7fffffff, locktime: 0xffffffff, seqs: [3]uint32{0x7fffffff, 0x80000001, 0x0040ffff}, amounts: [3]uint64{1<<64 - 1, 1<<64 - 1, 1 << 63}, outScript: std, spentAmt: [3]uint64{5, 6, 7}, spentScr: tap},
		{name: "vneg", version: 0x80000000, locktime: 1, seqs: [3]uint32{1, 2, 3}, amounts: [3]uint64{2100000000000000, 2100000000000001, 1}, outScript: std, spentAmt: [3]uint64{2100000000000000, 1, 1}, spentScr: tap},
		{name: "vff-scripts-cs-boundary", version: 0xffffffff, locktime: 0x1dcd6500, seqs: [3]uint32{0xffffffff, 0, 0xffffffff}, amounts: [3]uint64{1, 2, 3},
			outScript: [3][]byte{{}, fill(252, 0x61), fill(253, 0x61)}, sigScript: [3][]byte{{0x51}, fill(253, 0x00), {0xab}},
			spentAmt: [3]uint64{1, 2, 3}, spentScr: [3][]byte{{}, fill(253, 0x6a), tapSPK(9)}},
		{name: "v1-scripts-64k", version: 1, locktime: 0, seqs: [3]uint32{0xffffffff, 0xffffffff, 0xffffffff}, amounts: [3]uint64{1, 2, 3},
			outScript: [3][]byte{fill(65535, 0x61), fill(65536, 0x61), {0x51}}, spentAmt: [3]uint64{1, 2, 3},
			spentScr: [3][]byte{fill(65535, 0x61), tapSPK(7), fill(65536, 0x61)}, heavy: true},
	}
	var l []shape
	for _, v := range vs {
		for nin := 1; nin <= 3; nin++ {
			for nout := 0; nout <= 3; nout++ {
				t := &reftx.Tx{Version: v.version, LockTime: v.locktime}
				var sp []reftx.Out
				for i := 0; i < nin; i++ {
					in := reftx.In{Vout: v.vouts[i], Sequence: v.seqs[i], Script: v.sigScript[i]}
					for k := range in.Prev {
						in.Prev[k] = byte(16*(i+1) + k)
					}
					t.In = append(t.In, in)
					sp = append(sp, reftx.Out{Value: v.spentAmt[i], Script: v.spentScr[i]})
				}
				for i := 0; i < nout; i++ {
					t.Out = append(t.Out, reftx.Out{Value: v.amounts[i%3], Script: v.outScript[i%3]})
				}
				l = append(l, shape{name: fmt.Sprintf("%s/in%d/out%d", v.name, nin, nout), tx: t, spent: sp, heavy: v.heavy})
			}
		}
	}
	return l
}

type codeT struct {
	name string
	b    []byte
	big  bool
}

// legacyCodes: the script-code alphabet of the original algorithm.
func legacyCodes() []codeT {
	base := [][]byte{{0x76}, {0x51}, {0x02, 0xaa, 0xbb}, {0xac}}
	join := func(parts ...[]byte) []byte { return bytes.Join(parts, nil) }
	var l []codeT
	l = append(l, codeT{name: "empty", b: []byte{}})
	l = append(l, codeT{name: "p2pkh", b: join([]byte{0x76, 0xa9, 0x14}, fill(20, 0x11), []byte{0x88, 0xac})})
	l = append(l, codeT{name: "plain4", b: join(base...)})
	sep := []byte{0xab}
	// one separator at every position
	for p := 0; p <= len(base); p++ {
		var parts [][]byte
		parts = append(parts, base[:p]...)
		parts = append(parts, sep)
		parts = append(parts, base[p:]...)
		l = append(l, codeT{name: fmt.Sprintf("sep@%d", p), b: join(parts...)})
	}
	// two separators at every pair of positions
	for p := 0; p <= len(base); p++ {
		for q := p; q <= len(base); q++ {
			var parts [][]byte
			for i := 0; i <= len(base); i++ {
				if i == p {
					parts = append(parts, sep)
				}
				if i == q {
					parts = append(parts, sep)
				}
				if i < len(base) {
					parts = append(parts, base[i])
				}
			}
			l = append(l, codeT{name: fmt.Sprintf("sep@%d,%d", p, q), b: join(parts...)})
		}
	}
	// 0xab inside push data is data
	l = append(l, codeT{name: "ab-in-direct-push", b: []byte{0x02, 0xab, 0xab, 0xac}})
	l = append(l, codeT{name: "ab-in-pushdata1", b: []byte{0x4c, 0x01, 0xab, 0xab, 0xac}})
	l = append(l, codeT{name: "ab-in-pushdata2", b: []byte{0x4d, 0x02, 0x00, 0xab, 0xab, 0xac}})
	l = append(l, codeT{name: "ab-in-pushdata4", b: []byte{0x4e, 0x01, 0x00, 0x00, 0x00, 0xab, 0xac}})
	// unparsable tails
	b4 := join(base...)
	for _, t := range []struct {
		n string
		t []byte
	}{
		{"direct5-2present", []byte{0x05, 0xaa, 0xbb}},
		{"direct1-0present", []byte{0x01}},
		{"pushdata1-nolen", []byte{0x4c}},
		{"pushdata1-short", []byte{0x4c, 0x03, 0xaa}},
		{"pushdata2-halflen", []byte{0x4d, 0x01}},
		{"pushdata2-short", []byte{0x4d, 0x02, 0x00, 0xaa}},
		{"pushdata4-short", []byte{0x4e, 0x01, 0x00, 0x00}},
		{"pushdata4-huge", []byte{0x4e, 0xff, 0xff, 0xff, 0xff, 0xaa}},
		{"sep-then-tail", []byte{0xab, 0x4c, 0x05, 0xaa}},
		{"tail-contains-ab", []byte{0x05, 0xab, 0xab}},
	} {
		l = append(l, codeT{name: "tail/" + t.n, b: join(b4, t.t)})
		l = append(l, codeT{name: "tail-only/" + t.n, b: t.t})
		l = append(l, codeT{name: "sep+tail/" + t.n, b: join(sep, b4, sep, t.t)})
	}
	// CompactSize boundaries of the serialised length
	for _, n := range []int{252, 253, 254, 255, 256} {
		l = append(l, codeT{name: fmt.Sprintf("nops-%d", n), b: fill(n, 0x61)})
		l = append(l, codeT{name: fmt.Sprintf("nops-%d+sep", n), b: join(fill(n, 0x61), sep)})
	}
	for _, n := range []int{65535, 65536} {
		l = append(l, codeT{name: fmt.Sprintf("nops-%d", n), b: fill(n, 0x61), big: true})
		l = append(l, codeT{name: fmt.Sprintf("nops-%d+sep", n), b: join(fill(n, 0x61), sep), big: true})
	}
	return l
}

func hashTypes4(thorough bool) []uint32 {
	var l []uint32
	for t := 0; t < 256; t++ {
		l = append(l, uint32(t))
	}
	for _, t := range []uint32{0, 1, 2, 3, 4, 0x1f, 0x20, 0x81, 0x82, 0x83} {
		l = append(l, 0x100|t, 0x80000000|t, 0x7fffff00|t)
	}
	l = append(l, 0xffffffff, 0xffffff7f)
	return l
}

type counters struct {
	evals    int64
	perFam   sync.Map // name -> *int64
	outcomes sync.Map // string -> true

	mu   sync.Mutex
	viol map[string]*pending // key -> earliest (in enumeration order) failing case
}

type pending struct {
	order  int64
	what   string
	replay caseJ
}

// report keeps, per key, the failing case that comes first in the fixed
// enumeration order, so that the reported example does not depend on goroutine
// scheduling. flush hands them to the verdict protocol.
func (c *counters) report(order int64, key, what string, replay caseJ) {
	c.mu.Lock()
	defer c.mu.Unlock()
	if c.viol == nil {
		c.viol = map[string]*pending{}
	}
	if p, ok := c.viol[key]; ok && p.order <= order {
		return
	}
	c.viol[key] = &pending{order, what, replay}
}

func (c *counters) flush(r *ev.Run) {
	var keys []string
	for k := range c.viol {
		keys = append(keys, k)
	}
	sort.Strings(keys)
	for _, k := range keys {
		r.Report(k, c.viol[k].what, c.viol[k].replay)
	}
}

func (c *counters) add(f string, n int64) {
	v, _ := c.perFam.LoadOrStore(f, new(int64))
	atomic.AddInt64(v.(*int64), n)
	atomic.AddInt64(&c.evals, n)
}
func (c *counters) outcome(s string) { c.outcomes.LoadOrStore(s, true) }

// evalLegacy / evalBIP143 / evalTaproot: one comparison; returns key,what on disagreement.
func evalLegacy(g *btc.Tx, t *reftx.Tx, code []byte, idx int, ht uint32) (key, what, class string) {
	want := refhash.Legacy(t, code, idx, ht)
	got, pan := callLegacy(g, code, idx, ht)
	single := ht&0x1f == 3 && idx >= len(t.Out)
	class = "digest"
	if single {
		class = "one-constant"
	}
	if pan != "" {
		return "legacy/panic:" + short(pan), "Tx.SignatureHash panicked: " + pan, class
	}
	if bytes.Equal(got, want[:]) {
		return "", "", class
	}
	// classify: does the script code have an unparsable tail?
	pc, tail := 0, false
	for pc < len(code) {
		_, _, next, ok := refhash.GetOp(code, pc)
		if !ok {
			tail = true
			break
		}
		pc = next
	}
	if tail {
		return "legacy/script-code-unparsable-tail/digest-differs",
			fmt.Sprintf("Tx.SignatureHash = %x, original algorithm = %x: the serialised script code must keep the bytes after the last parsable opcode (length prefix = size minus separators)", got, want), "tail"
	}
	if single {
		return "legacy/single-out-of-range/not-one-constant", fmt.Sprintf("Tx.SignatureHash = %x, want the constant 1", got), class
	}
	k := "legacy/digest-differs"
	switch {
	case ht > 0xff:
		k += "/4-byte-hash-type"
	case ht&0x80 != 0:
		k += "/anyonecanpay"
	}
	switch ht & 0x1f {
	case 2:
		k += "/none"
	case 3:
		k += "/single"
	}
	if bytes.Contains(code, []byte{0xab}) {
		k += "/codeseparator"
	}
	return k, fmt.Sprintf("Tx.SignatureHash = %x, original algorithm = %x", got, want), class
}

func evalBIP143(g *btc.Tx, t *reftx.Tx, code []byte, amount uint64, idx int, ht uint32) (key, what string) {
	want := refhash.BIP143(t, code, amount, idx, ht)
	got, pan := callBIP143(g, code, amount, idx, ht)
	if pan != "" {
		return "bip143/panic:" + short(pan), "Tx.WitnessSigHash panicked: " + pan
	}
	if bytes.Equal(got, want[:]) {
		return "", ""
	}
	k := "bip143/digest-differs"
	switch {
	case ht > 0xff:
		k += "/4-byte-hash-type"
	case ht&0x80 != 0:
		k += "/anyonecanpay"
	}
	switch ht & 0x1f {
	case 2:
		k += "/none"
	case 3:
		k += "/single"
		if idx >= len(t.Out) {
			k += "-out-of-range"
		}
	}
	return k, fmt.Sprintf("Tx.WitnessSigHash = %x, BIP143 = %x", got, want)
}

func allZero(b []byte) bool {
	for _, x := range b {
		if x != 0 {
			return false
		}
	}
	return true
}

func evalTaproot(g *btc.Tx, t *reftx.Tx, spent []reftx.Out, idx int, ht byte, annex []byte, ext *refhash.TapExt) (key, what, class string) {
	want, ok := refhash.Taproot(t, spent, idx, ht, annex, ext)
	got, pan := callTaproot(g, idx, ht, annex, ext)
	path := "keypath"
	if ext != nil {
		path = "scriptpath"
	}
	if pan != "" {
		return "taproot/panic:" + short(pan), "Tx.TaprootSigHash panicked: " + pan, "panic"
	}
	if !ok {
		why := "undefined-hash-type"
		if refhash.ValidTaprootHashType(ht) {
			why = "single-without-output"
		}
		class = "no-digest/" + why
		if len(got) == 0 {
			return "", "", class
		}
		kind := "digest-returned"
		if len(got) == 32 && allZero(got) {
			kind = "all-zero-digest-returned"
		}
		return "taproot-api/" + why + "/" + kind,
			fmt.Sprintf("Tx.TaprootSigHash(hash_type=0x%02x, input %d of %d, %d outputs) returns %x although BIP341 defines no digest here (validation must fail)", ht, idx, len(t.In), len(t.Out), got), class
	}
	class = "digest/" + path
	if bytes.Equal(got, want[:]) {
		return "", "", class
	}
	k := "taproot/digest-differs/" + path
	if ht&0x80 != 0 {
		k += "/anyonecanpay"
	}
	switch ht & 3 {
	case 0:
		k += "/default"
	case 2:
		k += "/none"
	case 3:
		k += "/single"
	}
	if annex != nil {
		k += "/annex"
	}
	return k, fmt.Sprintf("Tx.TaprootSigHash = %x, BIP341/342 = %x", got, want), class
}

func familyDigests(r *ev.Run, c *counters, samples *ev.Samples) {
	shs := shapes()
	codes := legacyCodes()
	hts := hashTypes4(r.Thorough())
	annexes := [][]byte{nil, {0x50}, append([]byte{0x50}, fill(252, 0xa5)...)}
	var leaf [32]byte
	for i := range leaf {
		leaf[i] = byte(0xc0 + i)
	}
	exts := []*refhash.TapExt{nil, {LeafHash: leaf, CodeSepPos: 0xffffffff}, {LeafHash: leaf, CodeSepPos: 0}, {LeafHash: leaf, CodeSepPos: 1}, {LeafHash: leaf, CodeSepPos: 0xfffffffe}}

	type sjob struct {
		i int
		s shape
	}
	jobs := make(chan sjob, len(shs))
	for i, s := range shs {
		jobs <- sjob{i, s}
	}
	close(jobs)
	var wg sync.WaitGroup
	for w := 0; w < runtime.NumCPU(); w++ {
		wg.Add(1)
		go func() {
			defer wg.Done()
			seen := map[string]bool{} // outcome classes seen by this worker
			var scratch []byte        // this evaluation's private copy of the script code
			for j := range jobs {
				s := j.s
				g := toGocoin(s.tx, s.spent)
				raw := s.tx.Serialize(true)
				var nL, nW, nT int64
				order := int64(j.i) << 40
				for idx := range s.tx.In {
					for ci, cd := range codes {
						if !r.Thorough() {
							// quick tier: 64 kB scripts only with a reduced alphabet
							if s.heavy && (cd.big || ci%7 != 2) {
								continue
							}
						}
						for _, ht := range hts {
							if (s.heavy || cd.big) && !r.Thorough() && ht > 3 && ht != 0x81 && ht != 0x83 && ht != 0x80000001 {
								continue
							}
							order++
							resetCache(g, s.spent)
							// the implementation gets a private copy: whatever it does to its argument
							// cannot reach the reference or a later evaluation
							scratch = append(scratch[:0], cd.b...)
							k, what, class := evalLegacy(g, s.tx, scratch, idx, ht)
							if k == "" && !bytes.Equal(scratch, cd.b) {
								k, what = "legacy/script-code-argument-modified", fmt.Sprintf("Tx.SignatureHash changed the bytes of its scriptCode argument: %x became %x", short2(cd.b), short2(scratch))
							}
							nL++
							oc := "legacy/" + class + acpName[ht&0x80 != 0] + baseName[ht&0x1f&3] + wideName[ht > 0xff]
							if !seen[oc] {
								seen[oc] = true
							}
							if k != "" {
								c.report(order, k, what, caseJ{Family: "legacy", Tx: raw, Idx: idx, HashType: ht, ScriptCode: cd.b, Label: s.name + " " + cd.name})
							}
							// BIP143 treats the script code as opaque bytes: same alphabet
							amount := s.spent[idx].Value
							resetCache(g, s.spent)
							scratch = append(scratch[:0], cd.b...)
							k, what = evalBIP143(g, s.tx, scratch, amount, idx, ht)
							if k == "" && !bytes.Equal(scratch, cd.b) {
								k, what = "bip143/script-code-argument-modified", fmt.Sprintf("Tx.WitnessSigHash changed the bytes of its scriptCode argument: %x became %x", short2(cd.b), short2(scratch))
							}
							nW++
							oc = "bip143" + acpName[ht&0x80 != 0] + baseName[ht&0x1f&3] + wideName[ht > 0xff] + oorName[idx >= len(s.tx.Out)]
							if !seen[oc] {
								seen[oc] = true
							}
							if k != "" {
								c.report(order, k, what, caseJ{Family: "bip143", Tx: raw, Idx: idx, HashType: ht, ScriptCode: cd.b, Amount: amount, Label: s.name + " " + cd.name})
							}
						}
					}
					for ht := 0; ht < 256; ht++ {
						for _, ax := range annexes {
							for _, ext := range exts {
								order++
								resetCache(g, s.spent)
								k, what, class := evalTaproot(g, s.tx, s.spent, idx, byte(ht), ax, ext)
								nT++
								oc := "taproot/" + class + annexName[ax != nil] + acpName[ht&0x80 != 0] + baseName[ht&3]
								if !seen[oc] {
									seen[oc] = true
								}
								if k != "" {
									cj := caseJ{Family: "taproot", Tx: raw, Spent: spentToJ(s.spent), Idx: idx, HashType: uint32(ht), Label: s.name}
									if ax != nil {
										h := hexb(ax)
										cj.Annex = &h
									}
									if ext != nil {
										cj.Ext = &extJ{LeafHash: ext.LeafHash[:], CodeSep: ext.CodeSepPos}
									}
									c.report(order, k, what, cj)
								}
							}
						}
					}
				}
				c.add("i/legacy", nL)
				c.add("i/bip143", nW)
				c.add("i/taproot", nT)
				if j.i%13 == 0 {
					samples.Add(map[string]interface{}{"family": "i", "shape": s.name, "tx": hex.EncodeToString(raw[:min(len(raw), 120)])})
				}
			}
			for k := range seen {
				c.outcome(k)
			}
		}()
	}
	wg.Wait()
}

var (
	acpName   = map[bool]string{false: "", true: "/acp"}
	wideName  = map[bool]string{false: "", true: "/4-byte-type"}
	oorName   = map[bool]string{false: "", true: "/no-matching-output"}
	annexName = map[bool]string{false: "", true: "/annex"}
	baseName  = [4]string{"/base0", "/all", "/none", "/single"}
)

func hasUnparsableTail(code []byte) bool {
	pc := 0
	for pc < len(code) {
		_, _, next, ok := refhash.GetOp(code, pc)
		if !ok {
			return true
		}
		pc = next
	}
	return false
}

func short2(b []byte) []byte {
	if len(b) > 48 {
		return b[:48]
	}
	return b
}

func min(a, b int) int {
	if a < b {
		return a
	}
	return b
}

// ---------------------------------------------------------------------------
// family (iii): request sequences on one object

type reqKind struct {
	name string
	algo int // 0 bip143, 1 taproot key, 2 taproot script
	ht   uint32
}

func reqKinds() []reqKind {
	var l []reqKind
	for _, h := range []uint32{1, 2, 3, 0x81} {
		l = append(l, reqKind{fmt.Sprintf("bip143/%02x", h), 0, h})
	}
	for _, p := range []int{1, 2} {
		for _, h := range []uint32{0, 1, 2, 3, 0x81, 0x83} {
			n := "tapkey"
			if p == 2 {
				n = "tapscript"
			}
			l = append(l, reqKind{fmt.Sprintf("%s/%02x", n, h), p, h})
		}
	}
	// requests for which BIP341 defines no digest (SIGHASH_SINGLE without a matching
	// output arises from the kinds above on the shapes with fewer outputs than inputs)
	for _, h := range []uint32{0x04, 0x84, 0xff} {
		l = append(l, reqKind{fmt.Sprintf("tapkey/%02x", h), 1, h})
	}
	l = append(l, reqKind{"tapscript/04", 2, 0x04})
	return l
}

var orderCode = []byte{0x21, 2, 3, 4, 5, 6, 7, 8, 9, 10, 11, 12, 13, 14, 15, 16, 17, 18, 19, 20, 21, 22, 23, 24, 25, 26, 27, 28, 29, 30, 31, 32, 33, 34, 0xac}
var orderExt = &refhash.TapExt{LeafHash: [32]byte{7, 7, 7}, CodeSepPos: 0xffffffff}

func serve(g *btc.Tx, k reqKind, idx int, amount uint64) ([]byte, string) {
	switch k.algo {
	case 0:
		return callBIP143(g, orderCode, amount, idx, k.ht)
	case 1:
		return callTaproot(g, idx, byte(k.ht), nil, nil)
	}
	return callTaproot(g, idx, byte(k.ht), nil, orderExt)
}

func refServe(t *reftx.Tx, spent []reftx.Out, k reqKind, idx int) ([]byte, bool) {
	switch k.algo {
	case 0:
		d := refhash.BIP143(t, orderCode, spent[idx].Value, idx, k.ht)
		return d[:], true
	case 1:
		d, ok := refhash.Taproot(t, spent, idx, byte(k.ht), nil, nil)
		return d[:], ok
	}
	d, ok := refhash.Taproot(t, spent, idx, byte(k.ht), nil, orderExt)
	return d[:], ok
}

func orderShapes() []shape {
	var l []shape
	for _, s := range shapes() {
		switch s.name {
		case "v2-lock-height/in1/out1", "v2-lock-height/in2/out1", "v2-lock-height/in2/out2", "v2-lock-height/in3/out2":
			l = append(l, s)
		}
	}
	if len(l) != 4 {
		ev.HarnessError("order shapes missing")
	}
	return l
}

// runSeq serves one request sequence on one object; idxMode 0: all requests for
// input 0; 1: request j for input j mod nIn; 2: reversed.
func seqIdx(idxMode, j, nin int) int {
	switch idxMode {
	case 1:
		return j % nin
	case 2:
		return nin - 1 - j%nin
	}
	return 0
}

func runSeq(s shape, kinds []reqKind, seq []int, idxMode int, step *int32) (key, what string, idxs []int) {
	g := toGocoin(s.tx, s.spent)
	nin := len(s.tx.In)
	for j, ki := range seq {
		idx := seqIdx(idxMode, j, nin)
		idxs = append(idxs, idx)
		k := kinds[ki]
		atomic.StoreInt32(step, int32(j))
		got, pan := serve(g, k, idx, s.spent[idx].Value)
		if pan != "" {
			return "order/panic:" + short(pan), "digest request panicked: " + pan, idxs
		}
		fresh, _ := serve(toGocoin(s.tx, s.spent), k, idx, s.spent[idx].Value)
		if !bytes.Equal(got, fresh) {
			return "order/" + k.name + "/differs-from-fresh-object",
				fmt.Sprintf("request %d (%s, input %d) answered %x on the shared object, %x on a fresh object", j, k.name, idx, got, fresh), idxs
		}
		want, ok := refServe(s.tx, s.spent, k, idx)
		if ok && !bytes.Equal(got, want) {
			return "order/" + k.name + "/differs-from-reference",
				fmt.Sprintf("request %d (%s, input %d) answered %x, reference %x", j, k.name, idx, got, want), idxs
		}
	}
	return "", "", idxs
}

// A digest request takes microseconds; one that has not returned after seqWatchdog
// (generous for a loaded machine) is confirmed once in a fresh process before it is
// reported as a request that never returns.
// hangConfirmed is set once some request was confirmed never to return: later
// families then do not issue requests of that kind on an object they reuse.
var hangConfirmed int32

var (
	seqWatchdog     = 30 * time.Second
	confirmWatchdog = 15 * time.Second
)

type hangEntry struct {
	once      sync.Once
	confirmed bool
}

type hangBook struct {
	mu      sync.Mutex
	state   map[string]*hangEntry // violation key -> confirmation in a fresh process
	any     int32                 // set once some key is confirmed: later watchdogs are shorter
	skipped int64
	unrepro []string
}

func (hb *hangBook) entry(key string) *hangEntry {
	hb.mu.Lock()
	defer hb.mu.Unlock()
	e := hb.state[key]
	if e == nil {
		e = &hangEntry{}
		hb.state[key] = e
	}
	return e
}

func (hb *hangBook) isConfirmed(key string) bool {
	hb.mu.Lock()
	defer hb.mu.Unlock()
	e := hb.state[key]
	return e != nil && e.confirmed
}

// noDigestKey: the violation key a never-returning later request would get if the
// request (kind k for input idx) is one for which no digest is defined; "" otherwise.
func noDigestKey(s shape, k reqKind, idx int) string {
	if _, ok := refServe(s.tx, s.spent, k, idx); ok {
		return ""
	}
	what := fmt.Sprintf("ht=%02x", k.ht)
	if refhash.ValidTaprootHashType(byte(k.ht)) {
		what = "single-without-output"
	}
	return "order/taproot/" + what + "/later-request-never-returns"
}

type seqResult struct {
	key, what string
	idxs      []int
}

// hangKey names the violation after the earlier request (if any) for which no digest is
// defined: that is the request after which the object stops answering.
func hangKey(s shape, kinds []reqKind, seq []int, idxMode int, step int) string {
	nin := len(s.tx.In)
	for j := step - 1; j >= 0; j-- {
		if k := noDigestKey(s, kinds[seq[j]], seqIdx(idxMode, j, nin)); k != "" {
			return k
		}
	}
	return "order/" + kinds[seq[step]].name + "/request-never-returns"
}

// confirmInFreshProcess replays the sequence in a child of this binary.
func confirmInFreshProcess(cj caseJ, key string) bool {
	dir := ev.Scratch("c02-confirm")
	defer os.RemoveAll(dir)
	f := filepath.Join(dir, "seq.json")
	b, _ := json.Marshal(map[string]interface{}{"key": key, "replay": cj})
	if err := os.WriteFile(f, b, 0o644); err != nil {
		ev.HarnessError("%v", err)
	}
	cmd := exec.Command(os.Args[0], "--replay", f)
	cmd.Env = append(os.Environ(), "C02_REPLAY_WATCHDOG="+confirmWatchdog.String())
	out, _ := cmd.CombinedOutput()
	return strings.Contains(string(out), "never returns")
}

func familyOrder(r *ev.Run, c *counters, samples *ev.Samples) (seqs int64, served map[string]bool) {
	kinds := reqKinds()
	hb := &hangBook{state: map[string]*hangEntry{}}
	defer func() {
		if hb.skipped > 0 {
			samples.Add(map[string]interface{}{"family": "iii", "sequences_skipped_after_a_confirmed_never-returning_request": hb.skipped})
			r.Capped = true // not exhaustive: the rest of the sequences through that request cannot be executed
		}
		r.Unrepro = append(r.Unrepro, hb.unrepro...)
	}()
	maxLen := 3
	if r.Thorough() {
		maxLen = 4
	}
	shs := orderShapes()
	type job struct {
		n   int64
		seq []int
	}
	jobs := make(chan job, 4096)
	var wg sync.WaitGroup
	var n int64
	var mu sync.Mutex
	served = map[string]bool{}
	for w := 0; w < runtime.NumCPU(); w++ {
		wg.Add(1)
		go func() {
			defer wg.Done()
			for j := range jobs {
				for _, s := range shs {
					for mode := 0; mode < 3; mode++ {
						if mode > 0 && len(s.tx.In) == 1 {
							continue
						}
						// sequences through a request already confirmed to wedge the object are not executed
						skip := false
						if atomic.LoadInt32(&hb.any) != 0 {
							for jj, ki := range j.seq[:len(j.seq)-1] {
								if k := noDigestKey(s, kinds[ki], seqIdx(mode, jj, len(s.tx.In))); k != "" && hb.isConfirmed(k) {
									skip = true
								}
							}
						}
						if skip {
							atomic.AddInt64(&hb.skipped, 1)
							continue
						}
						var step int32
						resCh := make(chan seqResult, 1)
						seq := j.seq
						go func() {
							k, what, idxs := runSeq(s, kinds, seq, mode, &step)
							resCh <- seqResult{k, what, idxs}
						}()
						var k, what string
						var idxs []int
						wd := seqWatchdog
						if atomic.LoadInt32(&hb.any) != 0 {
							wd = seqWatchdog / 6 // the tree is already known to be defective; every timeout is still confirmed in a fresh process
						}
						timer := time.NewTimer(wd)
						select {
						case x := <-resCh:
							timer.Stop()
							k, what, idxs = x.key, x.what, x.idxs
						case <-timer.C:
							st := int(atomic.LoadInt32(&step))
							key := hangKey(s, kinds, seq, mode, st)
							var rq []reqJ
							for i := 0; i <= st; i++ {
								rq = append(rq, reqJ{kinds[seq[i]].name, seqIdx(mode, i, len(s.tx.In))})
							}
							cj := caseJ{Family: "order", Tx: s.tx.Serialize(true), Spent: spentToJ(s.spent), Seq: rq, Label: s.name}
							e := hb.entry(key)
							e.once.Do(func() {
								ok := confirmInFreshProcess(cj, key)
								hb.mu.Lock()
								e.confirmed = ok
								if !ok {
									hb.unrepro = append(hb.unrepro, fmt.Sprintf("%s: request %d of %v on %s did not return within %v but returned in a fresh process", key, st, rq, s.name, wd))
								}
								hb.mu.Unlock()
								if ok {
									atomic.StoreInt32(&hb.any, 1)
									atomic.StoreInt32(&hangConfirmed, 1)
								}
							})
							if hb.isConfirmed(key) {
								c.report(1<<60+j.n, key, fmt.Sprintf("request %d (%s, input %d) on one transaction object never returns (no answer within %v, confirmed in a fresh process); requests served before it on that object: %v", st, rq[st].Kind, rq[st].Idx, wd, rq[:st]), cj)
							}
							atomic.AddInt64(&n, 1)
							continue
						}
						atomic.AddInt64(&n, 1)
						if k != "" {
							var rq []reqJ
							for i, ki := range j.seq {
								if i < len(idxs) {
									rq = append(rq, reqJ{kinds[ki].name, idxs[i]})
								}
							}
							c.report(1<<60+j.n, k, what, caseJ{Family: "order", Tx: s.tx.Serialize(true), Spent: spentToJ(s.spent), Seq: rq, Label: s.name})
						}
					}
				}
				// canonical state key: multiset of kinds served
				ms := append([]int{}, j.seq...)
				sort.Ints(ms)
				mu.Lock()
				served[fmt.Sprint(ms)] = true
				mu.Unlock()
			}
		}()
	}
	var rec func(seq []int)
	var jn int64
	rec = func(seq []int) {
		if len(seq) > 0 {
			jn++
			jobs <- job{jn, append([]int{}, seq...)}
		}
		if len(seq) == maxLen {
			return
		}
		for k := range kinds {
			rec(append(seq, k))
		}
	}
	rec(nil)
	close(jobs)
	wg.Wait()
	c.add("iii/order-sequences", n)
	samples.Add(map[string]interface{}{"family": "iii", "kinds": len(kinds), "max_len": maxLen, "example": []string{kinds[0].name, kinds[9].name, kinds[3].name}})
	return n, served
}

// ---------------------------------------------------------------------------
// family (v): caller-owned inputs are not modified and repeated requests agree.
//
// Every digest entry point is called three times with the SAME scriptCode slice
// object (and the same Tx object). The slice sits inside a larger array with
// sentinel bytes in front, behind and in its spare capacity. All three answers must
// equal the reference digest of the ORIGINAL bytes; the slice, the sentinels, the
// other byte-slice arguments (annex hash, tapleaf hash) and the transaction itself
// (its serialisation, the spent outputs' scripts) must be unchanged afterwards.

type guarded struct {
	full, pristine []byte
	arg            []byte
}

func guard(b []byte) *guarded {
	const pre, post = 8, 24
	g := &guarded{full: make([]byte, pre+len(b)+post)}
	for i := range g.full {
		g.full[i] = 0xa5 ^ byte(i*7)
	}
	copy(g.full[pre:], b)
	g.pristine = append([]byte{}, g.full...)
	g.arg = g.full[pre : pre+len(b)] // capacity reaches into the trailing sentinels
	return g
}

// damage: "" / "argument-modified" / "bytes-outside-the-slice-modified"
func (g *guarded) damage() string {
	const pre = 8
	n := len(g.arg)
	if !bytes.Equal(g.full[pre:pre+n], g.pristine[pre:pre+n]) {
		return "argument-modified"
	}
	if !bytes.Equal(g.full, g.pristine) {
		return "bytes-outside-the-slice-modified"
	}
	return ""
}

func txFingerprint(g *btc.Tx) []byte {
	b := g.Serialize()
	for _, w := range g.SegWit {
		for _, e := range w {
			b = append(b, e...)
		}
	}
	for _, o := range g.Spent_outputs {
		b = append(b, o.Pk_script...)
		b = append(b, byte(o.Value), byte(o.Value>>8), byte(o.Value>>56))
	}
	return b
}

func bufferCodes() []codeT {
	var l []codeT
	for _, c := range legacyCodes() {
		if !c.big {
			l = append(l, c)
		}
	}
	sig := append(append([]byte{0x30, 0x44, 0x02, 0x20}, fill(32, 0x11)...), append(append([]byte{0x02, 0x20}, fill(32, 0x22)...), 0x01)...)
	pk := append([]byte{0x02}, fill(32, 0x33)...)
	ms := cat([]byte{0x51}, pushData(pk), pushData(pk), []byte{0x52, 0xaf, 0xab}, pushData(pk), []byte{0xac})
	l = append(l,
		codeT{name: "embedded-signature/direct", b: cat(pushData(sig), []byte{0x75, 0xab}, pushData(pk), []byte{0xac})},
		codeT{name: "embedded-signature/pushdata1+separators", b: cat([]byte{0xab, 0x4c, byte(len(sig))}, sig, []byte{0xab, 0x75}, pushData(pk), []byte{0xab, 0xac, 0xab})},
		codeT{name: "multisig-then-separator", b: ms},
		codeT{name: "separator-first-then-multisig", b: cat([]byte{0xab}, ms)},
		codeT{name: "only-separators", b: []byte{0xab, 0xab, 0xab}},
		codeT{name: "separator-last", b: []byte{0x51, 0x52, 0xab}},
		codeT{name: "separator-then-unparsable", b: []byte{0x51, 0xab, 0x52, 0x4d, 0x01}},
	)
	return l
}

var skippedBuf int64

func familyBuffers(r *ev.Run, c *counters, samples *ev.Samples) {
	var shs []shape
	for _, s := range shapes() {
		switch s.name {
		case "v1-final/in1/out1", "v2-lock-height/in2/out1", "v2-lock-height/in3/out2", "v0-lock-time/in2/out2", "vff-scripts-cs-boundary/in3/out3":
			shs = append(shs, s)
		}
	}
	if len(shs) != 5 {
		ev.HarnessError("buffer shapes missing")
	}
	codes := bufferCodes()
	hts := []uint32{0, 1, 2, 3, 4, 0x81, 0x82, 0x83, 0x100 | 1, 0x80000003, 0xffffffff}
	var leaf [32]byte
	for i := range leaf {
		leaf[i] = byte(0x90 + i)
	}
	type job struct {
		si int
		s  shape
	}
	jobs := make(chan job, len(shs))
	for i, s := range shs {
		jobs <- job{i, s}
	}
	close(jobs)
	var wg sync.WaitGroup
	for w := 0; w < len(shs); w++ {
		wg.Add(1)
		go func() {
			defer wg.Done()
			for j := range jobs {
				s := j.s
				raw := s.tx.Serialize(true)
				var n int64
				order := int64(3)<<60 + int64(j.si)<<40
				for idx := range s.tx.In {
					for _, cd := range codes {
						for _, ht := range hts {
							for entry := 0; entry < 2; entry++ {
								order++
								n++
								g := toGocoin(s.tx, s.spent)
								fp := txFingerprint(g)
								gb := guard(cd.b)
								name := []string{"legacy", "bip143"}[entry]
								var want [32]byte
								// the digest of a script code with an unparsable tail is judged by family (i)
								// (known deviation of Tx.SignatureHash); here only repetition and buffers are
								tailOnly := entry == 0 && hasUnparsableTail(cd.b)
								if entry == 0 {
									want = refhash.Legacy(s.tx, cd.b, idx, ht)
								} else {
									want = refhash.BIP143(s.tx, cd.b, s.spent[idx].Value, idx, ht)
								}
								rep := caseJ{Family: "buffers-" + name, Tx: raw, Spent: spentToJ(s.spent), Idx: idx, HashType: ht, ScriptCode: cd.b, Amount: s.spent[idx].Value, Label: s.name + " " + cd.name}
								for call := 0; call < 3; call++ {
									var got []byte
									var pan string
									if entry == 0 {
										got, pan = callLegacy(g, gb.arg, idx, ht)
									} else {
										got, pan = callBIP143(g, gb.arg, s.spent[idx].Value, idx, ht)
									}
									if pan != "" {
										c.report(order, "buffers/"+name+"/panic:"+short(pan), "digest request panicked: "+pan, rep)
										break
									}
									if tailOnly && call == 0 {
										copy(want[:], got) // later calls must repeat the first answer
										if len(got) != 32 {
											want = [32]byte{}
										}
									}
									if !bytes.Equal(got, want[:]) {
										k := "buffers/" + name + "/repeated-request-differs-from-reference"
										if tailOnly {
											k = "buffers/" + name + "/repeated-request-differs-from-first-answer"
										}
										if call == 0 {
											k = "buffers/" + name + "/first-request-differs-from-reference"
										}
										c.report(order, k, fmt.Sprintf("call %d of 3 with the same scriptCode slice and Tx object returned %x, reference digest of the original script code %x (%s, hash type 0x%x)", call+1, got, want, cd.name, ht), rep)
										break
									}
									if d := gb.damage(); d != "" {
										c.report(order, "buffers/"+name+"/script-code-"+d, fmt.Sprintf("after call %d the caller's buffer differs: script code %x now reads %x (%s)", call+1, short2(cd.b), short2(gb.arg), cd.name), rep)
										break
									}
								}
								if !bytes.Equal(fp, txFingerprint(g)) {
									c.report(order, "buffers/"+name+"/transaction-modified", "the transaction object's scripts/values changed during a digest request", rep)
								}
								c.outcome("buffers/" + name)
							}
						}
					}
					// taproot: annex hash and tapleaf hash are the caller's byte slices
					for ht := 0; ht < 256; ht++ {
						if ht > 4 && ht < 0x80 || ht > 0x84 && ht != 0xff {
							continue
						}
						for _, withExt := range []bool{false, true} {
							order++
							n++
							g := toGocoin(s.tx, s.spent)
							fp := txFingerprint(g)
							annex := []byte{0x50, 0x01, 0x02}
							ga := guard(annexHash(annex))
							gl := guard(leaf[:])
							var ext *refhash.TapExt
							if withExt {
								ext = &refhash.TapExt{LeafHash: leaf, CodeSepPos: 3}
							}
							want, ok := refhash.Taproot(s.tx, s.spent, idx, byte(ht), annex, ext)
							hx := hexb(annex)
							rep := caseJ{Family: "taproot", Tx: raw, Spent: spentToJ(s.spent), Idx: idx, HashType: uint32(ht), Annex: &hx, Label: s.name}
							if ext != nil {
								rep.Ext = &extJ{LeafHash: leaf[:], CodeSep: 3}
							}
							if !ok && atomic.LoadInt32(&hangConfirmed) != 0 {
								atomic.AddInt64(&skippedBuf, 1)
								continue // such a request is already known to wedge the object
							}
							ord := order
							done := make(chan struct{})
							go func() {
								defer close(done)
								for call := 0; call < 3; call++ {
									ed := &btc.ScriptExecutionData{M_annex_hash: ga.arg, M_tapleaf_hash: gl.arg, M_codeseparator_pos: 3, M_codeseparator_pos_init: true}
									var got []byte
									var pan string
									func() {
										defer func() {
											if r := recover(); r != nil {
												pan = fmt.Sprint(r)
											}
										}()
										got = g.TaprootSigHash(ed, idx, byte(ht), withExt)
									}()
									if pan != "" {
										c.report(ord, "buffers/taproot/panic:"+short(pan), "digest request panicked: "+pan, rep)
										return
									}
									if (ok && !bytes.Equal(got, want[:])) || (!ok && len(got) != 0) {
										k := "buffers/taproot/repeated-request-differs-from-reference"
										if call == 0 {
											k = "buffers/taproot/first-request-differs-from-reference"
										}
										c.report(ord, k, fmt.Sprintf("call %d of 3 on the same Tx object returned %x, reference %x (defined=%v)", call+1, got, want, ok), rep)
										return
									}
									if d := ga.damage() + gl.damage(); d != "" {
										c.report(ord, "buffers/taproot/execdata-"+d, "annex hash / tapleaf hash bytes of the caller changed", rep)
										return
									}
								}
							}()
							select {
							case <-done:
							case <-time.After(seqWatchdog):
								rep.Family = "buffers-taproot"
								key := "buffers/taproot/repeated-request-never-returns"
								if confirmInFreshProcess(rep, key) {
									c.report(ord, key, fmt.Sprintf("the same TaprootSigHash request (hash type 0x%02x) repeated on one Tx object never returns (confirmed in a fresh process)", ht), rep)
									atomic.StoreInt32(&hangConfirmed, 1)
								} else {
									r.Unrepro = append(r.Unrepro, key+": not reproduced in a fresh process")
								}
								continue
							}
							if !bytes.Equal(fp, txFingerprint(g)) {
								c.report(order, "buffers/taproot/transaction-modified", "the transaction object's scripts/values changed during a digest request", rep)
							}
							c.outcome("buffers/taproot")
						}
					}
				}
				c.add("v/buffers", n)
			}
		}()
	}
	wg.Wait()
	if skippedBuf > 0 {
		r.Capped = true
	}
	samples.Add(map[string]interface{}{"family": "v", "skipped_after_a_confirmed_never-returning_request": skippedBuf, "script_codes": len(codes), "shapes": len(shs), "calls_per_member": 3, "hash_types": len(hts)})
}

// ---------------------------------------------------------------------------
// family (ii): verdicts through the interpreter with reference-made signatures

var (
	privA = sha256.Sum256([]byte("verif C02 key A"))
	privB = sha256.Sum256([]byte("verif C02 key B"))
)

func pushData(d []byte) []byte { return refhash.PushData(d) }

func cat(parts ...[]byte) []byte { return bytes.Join(parts, nil) }

func ecdsaSig(priv []byte, digest [32]byte, ht byte) []byte {
	r, s := refsig.ECDSASignRFC6979(priv, digest[:])
	return append(refsig.SerializeDER(r, s), ht)
}

// padded DER: R with extra leading zero bytes so that the whole signature (with
// hash type byte) has exactly total bytes; accepted by Core's lax parser.
func ecdsaSigPadded(priv []byte, digest [32]byte, ht byte, total int) []byte {
	r, s := refsig.ECDSASignRFC6979(priv, digest[:])
	rb, sb := r.Bytes(), s.Bytes()
	if rb[0]&0x80 != 0 {
		rb = append([]byte{0}, rb...)
	}
	if sb[0]&0x80 != 0 {
		sb = append([]byte{0}, sb...)
	}
	pad := total - (6 + len(rb) + len(sb) + 1)
	if pad < 0 {
		ev.HarnessError("padding")
	}
	rb = append(make([]byte, pad), rb...)
	body := cat([]byte{0x02, byte(len(rb))}, rb, []byte{0x02, byte(len(sb))}, sb)
	return append(cat([]byte{0x30, byte(len(body))}, body), ht)
}

type vcase struct {
	label  string
	tx     *reftx.Tx
	spent  []reftx.Out
	idx    int
	flags  uint32
	expect bool
	key    string // violation key if the verdict differs from expect
	why    string
}

const (
	fBase    = script.VER_P2SH | script.VER_WITNESS | script.VER_TAPROOT
	fConstSC = script.VER_CONST_SCRIPTCODE
)

func verify(v *vcase) (got bool, pan string) {
	g := toGocoin(v.tx, v.spent)
	defer func() {
		if r := recover(); r != nil {
			pan = fmt.Sprint(r)
		}
	}()
	return script.VerifyTxScript(v.spent[v.idx].Script, &script.SigChecker{Tx: g, Idx: v.idx, Amount: v.spent[v.idx].Value}, v.flags), ""
}

func baseTx(nin, nout int) (*reftx.Tx, []reftx.Out) {
	t := &reftx.Tx{Version: 2, LockTime: 17}
	var sp []reftx.Out
	for i := 0; i < nin; i++ {
		in := reftx.In{Vout: uint32(i), Sequence: 0xfffffffd - uint32(i)}
		for k := range in.Prev {
			in.Prev[k] = byte(0x30 + i)
		}
		t.In = append(t.In, in)
		sp = append(sp, reftx.Out{Value: uint64(1000 + i), Script: []byte{0x51}})
	}
	for i := 0; i < nout; i++ {
		t.Out = append(t.Out, reftx.Out{Value: uint64(500 + i), Script: []byte{0x51 + byte(i)}})
	}
	return t, sp
}

var (
	legacyHT = []byte{1, 2, 3, 0x81, 0x82, 0x83, 0, 4, 0x1f, 0x20, 0x21, 0x43, 0x7f, 0x80, 0xe3, 0xff}
	zero32   = [32]byte{}
	aux32    = make([]byte, 32)
)

type keys struct {
	pubA, pubAu, xA, xB []byte
}

func mkKeys() *keys {
	k := &keys{}
	k.pubA = refsig.PubkeyFromPriv(privA[:], true)
	k.pubAu = refsig.PubkeyFromPriv(privA[:], false)
	k.xA, _ = refsig.XOnlyFromPriv(privA[:])
	k.xB, _ = refsig.XOnlyFromPriv(privB[:])
	return k
}

type legacyLayout struct {
	name  string
	pre   []byte
	begin int // offset of the script code inside pkScript (after the last executed separator); -1: <pub> CODESEPARATOR CHECKSIG
}

var legacyLayouts = []legacyLayout{
	{"p2pk", nil, 0},
	{"sep-first", []byte{0xab}, 1},
	{"sep-before-checksig", nil, -1},
	{"sep-in-untaken-branch", []byte{0x00, 0x63, 0xab, 0x68}, 0},
	{"sep-in-taken-branch", []byte{0x51, 0x63, 0xab, 0x68}, 3},
}

func genLegacy(k *keys, sh [2]int, idx int, ht byte, lay legacyLayout) (l []*vcase) {
	t, sp := baseTx(sh[0], sh[1])
	var pk []byte
	begin := lay.begin
	if begin == -1 {
		pk = cat(pushData(k.pubA), []byte{0xab, 0xac})
		begin = len(pk) - 1
	} else {
		pk = cat(lay.pre, pushData(k.pubA), []byte{0xac})
	}
	sp[idx].Script = pk
	code, _ := refhash.LegacyScriptCode(pk, begin)
	d := refhash.Legacy(t, code, idx, uint32(ht))
	sig := ecdsaSig(privA[:], d, ht)
	t.In[idx].Script = pushData(sig)
	oor := ht&0x1f == 3 && idx >= sh[1]
	lb := fmt.Sprintf("legacy/%s/in%d-out%d/idx%d/ht%02x", lay.name, sh[0], sh[1], idx, ht)
	key := "verify/legacy/" + lay.name + "/reference-signature-refused"
	if oor {
		key = "verify/legacy/single-out-of-range/signature-over-one-refused"
	}
	l = append(l, &vcase{label: lb, tx: t, spent: sp, idx: idx, flags: fBase, expect: true, key: key,
		why: "ECDSA signature by the reference signer over the original-algorithm digest"})
	// the same signature must not verify once the transaction differs in a committed field
	if ht&0x1f != 2 && ht&0x1f != 3 && sh[1] > 0 {
		t2, sp2 := baseTx(sh[0], sh[1])
		sp2[idx].Script = pk
		t2.In[idx].Script = pushData(sig)
		t2.Out[0].Value++
		l = append(l, &vcase{label: lb + "/output-changed", tx: t2, spent: sp2, idx: idx, flags: fBase, expect: false,
			key: "verify/legacy/" + lay.name + "/signature-accepted-after-output-change", why: "outputs are committed by this hash type"})
	}
	return
}

func genLegacyZeroSingle(k *keys) []*vcase {
	t, sp := baseTx(2, 1)
	pk := cat(pushData(k.pubA), []byte{0xac})
	sp[1].Script = pk
	t.In[1].Script = pushData(ecdsaSig(privA[:], zero32, 3))
	return []*vcase{{label: "legacy/single-out-of-range/signature-over-zero", tx: t, spent: sp, idx: 1, flags: fBase, expect: false,
		key: "verify/legacy/single-out-of-range/signature-over-zero-accepted", why: "the digest is the constant 1"}}
}

// push forms of an element inside a script
var pushForms = []struct {
	name string
	max  int
	enc  func([]byte) []byte
}{
	{"direct-push", 75, func(s []byte) []byte { return cat([]byte{byte(len(s))}, s) }},
	{"pushdata1", 255, func(s []byte) []byte { return cat([]byte{0x4c, byte(len(s))}, s) }},
	{"pushdata2", 65535, func(s []byte) []byte { return cat([]byte{0x4d, byte(len(s)), byte(len(s) >> 8)}, s) }},
	{"pushdata4", 1 << 30, func(s []byte) []byte { return cat([]byte{0x4e, byte(len(s)), byte(len(s) >> 8), 0, 0}, s) }},
}

// sizeClass: the push encodings of CScript()<<element change at these sizes.
func sizeClass(n int) string {
	switch {
	case n <= 75:
		return "element-1..75-bytes"
	case n <= 255:
		return "element-76..255-bytes"
	}
	return "element-256..520-bytes"
}

// genFADValid: pkScript = <copy of sig in the given push form> DROP <pub> CHECKSIG; the
// signature is made over the script code WITHOUT the copy. total = signature size
// including the hash type byte (0: natural DER size).
func genFADValid(k *keys, total int, form int) (l []*vcase) {
	f := pushForms[form]
	t, sp := baseTx(1, 1)
	tailScr := cat([]byte{0x75}, pushData(k.pubA), []byte{0xac})
	d := refhash.Legacy(t, tailScr, 0, 1)
	var sig []byte
	if total == 0 {
		sig = ecdsaSig(privA[:], d, 1)
	} else {
		sig = ecdsaSigPadded(privA[:], d, 1, total)
	}
	if len(sig) > f.max {
		return nil
	}
	// the reference's own lax parser must accept what we built
	if r, s, ok := refsig.ParseDERLax(sig[:len(sig)-1]); !ok || !refsig.ECDSAVerify(k.pubA, r, s, d[:]) {
		ev.HarnessError("constructed signature is not valid for the reference")
	}
	pk := cat(f.enc(sig), tailScr)
	code, found := refhash.LegacyScriptCode(pk, 0, sig)
	removed := found > 0
	if removed && !bytes.Equal(code, tailScr) {
		ev.HarnessError("FindAndDelete result unexpected")
	}
	sp[0].Script = pk
	t.In[0].Script = pushData(sig)
	name := fmt.Sprintf("sig%d/%s", len(sig), f.name)
	if total == 0 {
		name = "sig-der/" + f.name
	}
	kk := "verify/legacy/find-and-delete/" + sizeClass(len(sig)) + "/" + f.name
	if removed {
		l = append(l, &vcase{label: "fad/" + name, tx: t, spent: sp, idx: 0, flags: script.VER_P2SH, expect: true,
			key: kk + "/copy-not-removed-valid-signature-refused", why: "FindAndDelete removes the push of the signature (encoded as CScript()<<sig: direct push below 76 bytes, PUSHDATA1 up to 255, PUSHDATA2 above) from the script code before hashing"})
	} else {
		l = append(l, &vcase{label: "fad/" + name, tx: t, spent: sp, idx: 0, flags: script.VER_P2SH, expect: false,
			key: kk + "/non-canonical-copy-removed", why: "only the canonical push encoding of the signature is removed; this copy stays, so a signature over the shortened code is invalid"})
	}
	return
}

// genFADConst: CONST_SCRIPTCODE makes the match decision itself the verdict.
// pkScript = <blob in push form> DROP <pub> CHECKSIG NOT, scriptSig = <blob>.
func genFADConst(k *keys, size int, form int) []*vcase {
	f := pushForms[form]
	if size > f.max {
		return nil
	}
	blob := fill(size, 0x77)
	t, sp := baseTx(1, 1)
	pk := cat(f.enc(blob), []byte{0x75}, pushData(k.pubA), []byte{0xac, 0x91})
	_, found := refhash.LegacyScriptCode(pk, 0, blob)
	sp[0].Script = pk
	t.In[0].Script = pushData(blob)
	name := fmt.Sprintf("element%d/%s", size, f.name)
	kname := sizeClass(size) + "/" + f.name
	if found > 0 {
		return []*vcase{{label: "fad-const/" + name, tx: t, spent: sp, idx: 0, flags: script.VER_P2SH | fConstSC, expect: false,
			key: "verify/legacy/find-and-delete/const-scriptcode/" + kname + "/match-missed",
			why: "the script contains the canonical push of the element: with CONST_SCRIPTCODE the opcode fails (SIG_FINDANDDELETE)"}}
	}
	return []*vcase{{label: "fad-const/" + name, tx: t, spent: sp, idx: 0, flags: script.VER_P2SH | fConstSC, expect: true,
		key: "verify/legacy/find-and-delete/const-scriptcode/" + kname + "/false-match",
		why: "the copy is not the canonical push of the element, FindAndDelete finds nothing; CHECKSIG yields false, NOT makes it true"}}
}

// element e = 0x4b||X (76 bytes) against script bytes 4c 4b X (PUSHDATA1 of 75 bytes):
// a CompactSize-prefixed pattern would match here, the push-opcode pattern does not.
func genFADConfusion(k *keys) []*vcase {
	t, sp := baseTx(1, 1)
	x := fill(75, 0x77)
	e := cat([]byte{0x4b}, x)
	pk := cat([]byte{0x4c, 0x4b}, x, []byte{0x75}, pushData(k.pubA), []byte{0xac, 0x91})
	if _, f := refhash.LegacyScriptCode(pk, 0, e); f != 0 {
		ev.HarnessError("reference FindAndDelete unexpectedly matches")
	}
	sp[0].Script = pk
	t.In[0].Script = pushData(e)
	return []*vcase{{label: "fad-const/compactsize-pattern-matches-pushdata1-of-75", tx: t, spent: sp, idx: 0, flags: script.VER_P2SH | fConstSC, expect: true,
		key: "verify/legacy/find-and-delete/const-scriptcode/compactsize-pattern/false-match",
		why: "the 76-byte element is searched as 4c 4c <element>; the script holds 4c 4b <75 bytes>, a different byte string; CHECKSIG yields false, NOT makes it true"}}
}

func genP2WPKH(k *keys, sh [2]int, idx int, ht byte) (l []*vcase) {
	t, sp := baseTx(sh[0], sh[1])
	h := refhash.Hash160(k.pubA)
	spk := cat([]byte{0x00, 0x14}, h[:])
	sp[idx].Script = spk
	code := cat([]byte{0x76, 0xa9, 0x14}, h[:], []byte{0x88, 0xac})
	d := refhash.BIP143(t, code, sp[idx].Value, idx, uint32(ht))
	sig := ecdsaSig(privA[:], d, ht)
	t.In[idx].Witness = [][]byte{sig, k.pubA}
	lb := fmt.Sprintf("bip143/p2wpkh/in%d-out%d/idx%d/ht%02x", sh[0], sh[1], idx, ht)
	l = append(l, &vcase{label: lb, tx: t, spent: sp, idx: idx, flags: fBase, expect: true,
		key: "verify/bip143/p2wpkh/reference-signature-refused", why: "ECDSA signature over the BIP143 digest"})
	t2, sp2 := baseTx(sh[0], sh[1])
	sp2[idx].Script = spk
	sp2[idx].Value++
	t2.In[idx].Witness = [][]byte{sig, k.pubA}
	l = append(l, &vcase{label: lb + "/amount-changed", tx: t2, spent: sp2, idx: idx, flags: fBase, expect: false,
		key: "verify/bip143/p2wpkh/signature-accepted-after-amount-change", why: "BIP143 commits to the spent amount"})
	t3, sp3 := baseTx(sh[0], sh[1])
	sp3[idx].Script = spk
	dl := refhash.Legacy(t3, code, idx, uint32(ht))
	t3.In[idx].Witness = [][]byte{ecdsaSig(privA[:], dl, ht), k.pubA}
	l = append(l, &vcase{label: lb + "/legacy-digest", tx: t3, spent: sp3, idx: idx, flags: fBase, expect: false,
		key: "verify/bip143/p2wpkh/legacy-digest-accepted", why: "segwit v0 uses BIP143, not the original algorithm"})
	return
}

type wshLayout struct {
	name  string
	ws    func(k *keys) []byte
	begin int
}

var wshLayouts = []wshLayout{
	{"plain", func(k *keys) []byte { return cat(pushData(k.pubAu), []byte{0xac}) }, 0},
	{"sep-first", func(k *keys) []byte { return cat([]byte{0xab}, pushData(k.pubAu), []byte{0xac}) }, 1},
	{"sep-before-checksig", func(k *keys) []byte { return cat(pushData(k.pubAu), []byte{0xab, 0xac}) }, 67},
	{"sep-untaken-then-later-sep", func(k *keys) []byte {
		return cat([]byte{0x00, 0x63, 0xab, 0x68}, pushData(k.pubAu), []byte{0xac, 0xab})
	}, 0},
}

func genP2WSH(k *keys, sh [2]int, idx int, ht byte, lay wshLayout) []*vcase {
	t, sp := baseTx(sh[0], sh[1])
	ws := lay.ws(k)
	wh := refhash.Sha256(ws)
	sp[idx].Script = cat([]byte{0x00, 0x20}, wh[:])
	d := refhash.BIP143(t, ws[lay.begin:], sp[idx].Value, idx, uint32(ht))
	sig := ecdsaSig(privA[:], d, ht)
	t.In[idx].Witness = [][]byte{sig, ws}
	lb := fmt.Sprintf("bip143/p2wsh-%s/in%d-out%d/idx%d/ht%02x", lay.name, sh[0], sh[1], idx, ht)
	return []*vcase{{label: lb, tx: t, spent: sp, idx: idx, flags: fBase, expect: true,
		key: "verify/bip143/p2wsh-" + lay.name + "/reference-signature-refused", why: "ECDSA signature over the BIP143 digest of the script code after the last executed OP_CODESEPARATOR"}}
}

var vAnnexes = [][]byte{nil, {0x50, 0x01}}

func noDigestWhy(ht byte) string {
	if refhash.ValidTaprootHashType(ht) {
		return "single-without-output"
	}
	return "undefined-hash-type"
}

func genKeyPath(k *keys, sh [2]int, idx int, ht byte, ax []byte) (l []*vcase) {
	spk := cat([]byte{0x51, 0x20}, k.xA)
	mk := func(digest [32]byte, explicit bool) (*reftx.Tx, []reftx.Out) {
		t, sp := baseTx(sh[0], sh[1])
		for i := range sp {
			sp[i].Script = spk
		}
		sig := refsig.SchnorrSign(privA[:], digest[:], aux32)
		if explicit {
			sig = append(sig, ht)
		}
		w := [][]byte{sig}
		if ax != nil {
			w = append(w, ax)
		}
		t.In[idx].Witness = w
		return t, sp
	}
	t0, sp0 := baseTx(sh[0], sh[1])
	for i := range sp0 {
		sp0[i].Script = spk
	}
	d, ok := refhash.Taproot(t0, sp0, idx, ht, ax, nil)
	lb := fmt.Sprintf("taproot/keypath/in%d-out%d/idx%d/ht%02x/annex=%v", sh[0], sh[1], idx, ht, ax != nil)
	if !ok {
		why := noDigestWhy(ht)
		for _, alt := range []struct {
			n string
			d [32]byte
		}{{"zero-digest", zero32}, {"one-constant", refhash.One}} {
			t, sp := mk(alt.d, true)
			l = append(l, &vcase{label: lb + "/" + alt.n, tx: t, spent: sp, idx: idx, flags: fBase, expect: false,
				key: "verify/taproot/keypath/" + why + "/signature-over-" + alt.n + "-accepted",
				why: "BIP341 defines no digest here: validation fails whatever the signature signs"})
		}
		return
	}
	if ht == 0 {
		t, sp := mk(d, false)
		l = append(l, &vcase{label: lb + "/implicit", tx: t, spent: sp, idx: idx, flags: fBase, expect: true,
			key: "verify/taproot/keypath/reference-signature-refused", why: "BIP340 signature over the BIP341 digest"})
		t, sp = mk(d, true)
		l = append(l, &vcase{label: lb + "/explicit-00", tx: t, spent: sp, idx: idx, flags: fBase, expect: false,
			key: "verify/taproot/keypath/explicit-default-hash-type-accepted", why: "BIP341: a 65-byte signature with hash_type 0x00 is invalid"})
	} else {
		t, sp := mk(d, true)
		l = append(l, &vcase{label: lb, tx: t, spent: sp, idx: idx, flags: fBase, expect: true,
			key: "verify/taproot/keypath/reference-signature-refused", why: "BIP340 signature over the BIP341 digest"})
	}
	if ht == 1 || ht == 0x83 {
		t, sp := mk(d, true)
		if ax == nil {
			t.In[idx].Witness = append(t.In[idx].Witness, []byte{0x50, 0x01})
		} else {
			t.In[idx].Witness = t.In[idx].Witness[:1]
		}
		l = append(l, &vcase{label: lb + "/annex-toggled", tx: t, spent: sp, idx: idx, flags: fBase, expect: false,
			key: "verify/taproot/keypath/signature-accepted-after-annex-change", why: "spend_type and sha_annex are committed"})
	}
	return
}

type leafT struct {
	name   string
	script func(k *keys) []byte
	pos    uint32
}

var leaves = []leafT{
	{"plain", func(k *keys) []byte { return cat(pushData(k.xA), []byte{0xac}) }, 0xffffffff},
	{"sep@0", func(k *keys) []byte { return cat([]byte{0xab}, pushData(k.xA), []byte{0xac}) }, 0},
	{"sep@1", func(k *keys) []byte { return cat(pushData(k.xA), []byte{0xab, 0xac}) }, 1},
	{"sep@0,2", func(k *keys) []byte { return cat([]byte{0xab}, pushData(k.xA), []byte{0xab, 0xac}) }, 2},
	{"sep-untaken", func(k *keys) []byte { return cat([]byte{0x00, 0x63, 0xab, 0x68}, pushData(k.xA), []byte{0xac}) }, 0xffffffff},
	{"sep-taken@2", func(k *keys) []byte { return cat([]byte{0x51, 0x63, 0xab, 0x68}, pushData(k.xA), []byte{0xac}) }, 2},
}

// OP_CODESEPARATOR at opcode positions on both sides of the 8- and 16-bit boundaries (tapscript
// has no script-size or opcode-count limit; the position committed is a 32-bit opcode index)
func init() {
	for _, n := range []int{255, 256, 65535, 65536, 70000} {
		n := n
		leaves = append(leaves, leafT{fmt.Sprintf("sep@%d", n), func(k *keys) []byte {
			return cat(bytes.Repeat([]byte{0x61}, n), []byte{0xab}, pushData(k.xA), []byte{0xac})
		}, uint32(n)})
	}
}

func genScriptPath(k *keys, lf leafT, sh [2]int, idx int, ht byte, ax []byte) (l []*vcase) {
	return genScriptPathDepth(k, lf, sh, idx, ht, ax, 0)
}

// genScriptPathDepth: the leaf sits under a Merkle path of the given depth (the
// signature digest commits to the TAPLEAF hash, never to an inner node or the root).
func genScriptPathDepth(k *keys, lf leafT, sh [2]int, idx int, ht byte, ax []byte, depth int) (l []*vcase) {
	scr := lf.script(k)
	leafHash := refhash.TapLeafHash(0xc0, scr)
	var path []byte
	for i := 0; i < depth; i++ {
		sib := refhash.TapLeafHash(0xc0, []byte{0x51, byte(0x52 + i)})
		if i%2 == 1 {
			sib[0] ^= 0xff // make sibling order differ between levels
		}
		path = append(path, sib[:]...)
	}
	root := refhash.MerkleRootFromPath(leafHash, path)
	// output key Q = lift_x(B) + H_TapTweak(B || root) * G
	tw := refhash.TapTweakHash(k.xB, root[:])
	P, okP := refsecp.LiftX(refsecp.Int(k.xB))
	if !okP {
		ev.HarnessError("internal key not liftable")
	}
	Q := refsecp.Add(P, refsecp.MulG(new(big.Int).SetBytes(tw[:])))
	qx := refsecp.B32(Q.X)
	ctrl := cat([]byte{0xc0 | byte(Q.Y.Bit(0))}, k.xB, path)
	if !refsig.TaprootTweakCheck(qx, Q.Y.Bit(0) == 1, k.xB, root[:]) {
		ev.HarnessError("tweak self-check")
	}
	spk := cat([]byte{0x51, 0x20}, qx)
	ext := &refhash.TapExt{LeafHash: leafHash, CodeSepPos: lf.pos}
	mkSpent := func() (*reftx.Tx, []reftx.Out) {
		t, sp := baseTx(sh[0], sh[1])
		for i := range sp {
			sp[i].Script = spk
		}
		return t, sp
	}
	mk := func(digest [32]byte, explicit bool) (*reftx.Tx, []reftx.Out) {
		t, sp := mkSpent()
		sig := refsig.SchnorrSign(privA[:], digest[:], aux32)
		if explicit {
			sig = append(sig, ht)
		}
		w := [][]byte{sig, scr, ctrl}
		if ax != nil {
			w = append(w, ax)
		}
		t.In[idx].Witness = w
		return t, sp
	}
	t0, sp0 := mkSpent()
	d, ok := refhash.Taproot(t0, sp0, idx, ht, ax, ext)
	lb := fmt.Sprintf("taproot/scriptpath-%s/idx%d/ht%02x/annex=%v", lf.name, idx, ht, ax != nil)
	if depth > 0 {
		lb += fmt.Sprintf("/merkle-depth-%d", depth)
	}
	if ok && depth > 0 {
		// a signature over the digest with the Merkle root in place of the tapleaf hash
		dr, _ := refhash.Taproot(t0, sp0, idx, ht, ax, &refhash.TapExt{LeafHash: root, CodeSepPos: lf.pos})
		t, sp := mk(dr, ht != 0)
		l = append(l, &vcase{label: lb + "/root-as-leaf-hash", tx: t, spent: sp, idx: idx, flags: fBase, expect: false,
			key: "verify/taproot/scriptpath/merkle-root-used-as-tapleaf-hash-accepted", why: "BIP342 commits to the tapleaf hash of the executed script"})
	}
	if !ok {
		why := noDigestWhy(ht)
		for _, alt := range []struct {
			n string
			d [32]byte
		}{{"zero-digest", zero32}, {"one-constant", refhash.One}} {
			t, sp := mk(alt.d, true)
			l = append(l, &vcase{label: lb + "/" + alt.n, tx: t, spent: sp, idx: idx, flags: fBase, expect: false,
				key: "verify/taproot/scriptpath/" + why + "/signature-over-" + alt.n + "-accepted",
				why: "BIP341/342 define no digest here: the signature opcode fails whatever the signature signs"})
		}
		return
	}
	t, sp := mk(d, ht != 0)
	l = append(l, &vcase{label: lb, tx: t, spent: sp, idx: idx, flags: fBase, expect: true,
		key: "verify/taproot/scriptpath-" + lf.name + "/reference-signature-refused", why: "BIP340 signature over the BIP342 digest (tapleaf hash, key_version 0, codeseparator position)"})
	if ht == 1 {
		dk, _ := refhash.Taproot(t0, sp0, idx, ht, ax, nil)
		t, sp = mk(dk, true)
		l = append(l, &vcase{label: lb + "/keypath-digest", tx: t, spent: sp, idx: idx, flags: fBase, expect: false,
			key: "verify/taproot/scriptpath-" + lf.name + "/keypath-digest-accepted", why: "ext_flag and the BIP342 extension are committed"})
		ext2 := &refhash.TapExt{LeafHash: leafHash, CodeSepPos: lf.pos + 1}
		d2, _ := refhash.Taproot(t0, sp0, idx, ht, ax, ext2)
		t, sp = mk(d2, true)
		l = append(l, &vcase{label: lb + "/codesep-pos+1", tx: t, spent: sp, idx: idx, flags: fBase, expect: false,
			key: "verify/taproot/scriptpath-" + lf.name + "/wrong-codeseparator-position-accepted", why: "codesep_pos is committed"})
	}
	return
}

// Legacy CHECKMULTISIG(VERIFY) m-of-n with OP_CODESEPARATOR in consensus-valid
// places (after the multisig opcode, in an unexecuted branch before it): every
// key/signature attempt - also the failing ones before the matching key is reached -
// asks for a digest over the same script code; a valid spend must be accepted.
var msPriv = func() (l [4][32]byte) {
	for i := range l {
		l[i] = sha256.Sum256([]byte(fmt.Sprintf("verif C02 multisig key %d", i)))
	}
	return
}()

func genMultisigSep(n, m int, subset []int, layout int, verifyOp bool, p2sh bool) (l []*vcase) {
	var pubs [4][]byte
	for i := range pubs {
		pubs[i] = refsig.PubkeyFromPriv(msPriv[i][:], true)
	}
	var scr []byte
	if layout == 2 || layout == 3 {
		scr = append(scr, 0x00, 0x63, 0xab, 0x68) // 0 IF CODESEPARATOR ENDIF
	}
	scr = append(scr, byte(0x50+m))
	for i := 0; i < n; i++ {
		scr = append(scr, pushData(pubs[i])...)
	}
	scr = append(scr, byte(0x50+n))
	tail := layout == 1 || layout == 3
	switch {
	case tail && verifyOp:
		scr = append(scr, 0xaf, 0xab) // CHECKMULTISIGVERIFY CODESEPARATOR
	case tail:
		scr = append(scr, 0xae, 0x69, 0xab) // CHECKMULTISIG VERIFY CODESEPARATOR
	case verifyOp:
		scr = append(scr, 0xaf, 0x51) // CHECKMULTISIGVERIFY 1
	default:
		scr = append(scr, 0xae)
	}
	tailBegin := len(scr)
	if tail {
		scr = append(scr, pushData(pubs[3])...)
		scr = append(scr, 0xac)
	}
	name := fmt.Sprintf("%d-of-%d signers %v layout=%s verify-op=%v p2sh=%v", m, n, subset, []string{"plain", "separator-after", "separator-in-unexecuted-branch-before", "separator-before-and-after"}[layout], verifyOp, p2sh)
	build := func(corrupt bool) (*reftx.Tx, []reftx.Out) {
		t, sp := baseTx(2, 2)
		pk := scr
		if p2sh {
			h := refhash.Hash160(scr)
			pk = cat([]byte{0xa9, 0x14}, h[:], []byte{0x87})
		}
		sp[1].Script = pk
		var ss []byte
		if tail {
			ss = append(ss, pushData(ecdsaSig(msPriv[3][:], refhash.Legacy(t, scr[tailBegin:], 1, 1), 1))...)
		}
		ss = append(ss, 0x00)
		d := refhash.Legacy(t, scr, 1, 1)
		for j, ki := range subset {
			dd := d
			if corrupt && j == 0 {
				dd[0] ^= 1
			}
			ss = append(ss, pushData(ecdsaSig(msPriv[ki][:], dd, 1))...)
		}
		if p2sh {
			ss = append(ss, pushData(scr)...)
		}
		t.In[1].Script = ss
		return t, sp
	}
	lay := []string{"plain", "separator-after", "separator-in-unexecuted-branch", "separator-before-and-after"}[layout]
	for _, corrupt := range []bool{false, true} {
		if corrupt && layout != 1 {
			continue
		}
		t, sp := build(corrupt)
		ref := refscript.Verify(t.In[1].Script, sp[1].Script, nil, refscript.P2SH|refscript.WITNESS|refscript.TAPROOT, &refscript.Input{Tx: t, Idx: 1, Amount: sp[1].Value, Spent: sp})
		if ref.OK == corrupt {
			ev.HarnessError("multisig+codeseparator construction: reference says %s for %s (corrupt=%v)", ref.Err, name, corrupt)
		}
		if corrupt {
			l = append(l, &vcase{label: "legacy/multisig-codeseparator/" + name + "/first-signature-over-another-digest", tx: t, spent: sp, idx: 1, flags: fBase, expect: false,
				key: "verify/legacy/multisig-codeseparator/" + lay + "/wrong-signature-accepted", why: "reference interpreter: " + string(ref.Err)})
		} else {
			l = append(l, &vcase{label: "legacy/multisig-codeseparator/" + name, tx: t, spent: sp, idx: 1, flags: fBase, expect: true,
				key: "verify/legacy/multisig-codeseparator/" + lay + "/valid-spend-refused", why: "every signature signs the original-algorithm digest of the script code with OP_CODESEPARATORs removed; the reference interpreter accepts"})
		}
	}
	return
}

// verdictGens enumerates family (ii) as lazy builders (signing is slow and is
// done inside the worker pool).
func verdictGens(thorough bool) (gens []func() []*vcase) {
	k := mkKeys()
	add := func(f func() []*vcase) { gens = append(gens, f) }
	shapesV := [][2]int{{1, 1}, {2, 1}, {2, 2}}
	for _, sh := range shapesV {
		for idx := 0; idx < sh[0]; idx++ {
			for _, ht := range legacyHT {
				if !thorough && sh != [2]int{2, 1} && ht > 3 && ht != 0x83 {
					continue
				}
				sh, idx, ht := sh, idx, ht
				for _, lay := range legacyLayouts {
					lay := lay
					add(func() []*vcase { return genLegacy(k, sh, idx, ht, lay) })
				}
				add(func() []*vcase { return genP2WPKH(k, sh, idx, ht) })
				for _, lay := range wshLayouts {
					lay := lay
					add(func() []*vcase { return genP2WSH(k, sh, idx, ht, lay) })
				}
			}
		}
	}
	add(func() []*vcase { return genLegacyZeroSingle(k) })
	for n := 1; n <= 3; n++ {
		for mask := 1; mask < 1<<uint(n); mask++ {
			var subset []int
			for i := 0; i < n; i++ {
				if mask>>uint(i)&1 == 1 {
					subset = append(subset, i)
				}
			}
			for layout := 0; layout < 4; layout++ {
				for _, vop := range []bool{false, true} {
					for _, p2sh := range []bool{false, true} {
						if p2sh && layout != 1 {
							continue
						}
						n, subset, layout, vop, p2sh := n, subset, layout, vop, p2sh
						add(func() []*vcase { return genMultisigSep(n, len(subset), subset, layout, vop, p2sh) })
					}
				}
			}
		}
	}
	for _, total := range []int{0, 75, 76, 77, 80, 130} {
		for form := range pushForms {
			total, form := total, form
			add(func() []*vcase { return genFADValid(k, total, form) })
		}
	}
	for _, size := range []int{1, 2, 74, 75, 76, 77, 80, 252, 253, 254, 255, 256, 520} {
		for form := range pushForms {
			size, form := size, form
			add(func() []*vcase { return genFADConst(k, size, form) })
		}
	}
	add(func() []*vcase { return genFADConfusion(k) })

	interesting := func(ht int) bool { return ht == 4 || ht == 0x80 || ht == 0x84 || ht == 0xff }
	for _, sh := range [][2]int{{2, 1}, {1, 1}} {
		for idx := 0; idx < sh[0]; idx++ {
			for ht := 0; ht < 256; ht++ {
				valid := refhash.ValidTaprootHashType(byte(ht))
				if !thorough && sh[0] == 1 && !valid && !interesting(ht) {
					continue
				}
				for ai, ax := range vAnnexes {
					if ai == 1 && !thorough && !valid && !interesting(ht) {
						continue
					}
					sh, idx, ht, ax := sh, idx, byte(ht), ax
					add(func() []*vcase { return genKeyPath(k, sh, idx, ht, ax) })
				}
			}
		}
	}
	for _, lf := range leaves {
		for idx := 0; idx < 2; idx++ {
			for ht := 0; ht < 256; ht++ {
				valid := refhash.ValidTaprootHashType(byte(ht))
				if !valid && !(lf.name == "plain" && (thorough || interesting(ht))) {
					continue
				}
				for ai, ax := range vAnnexes {
					if ai == 1 && lf.name != "plain" && lf.name != "sep@1" {
						continue
					}
					lf, idx, ht, ax := lf, idx, byte(ht), ax
					add(func() []*vcase { return genScriptPath(k, lf, [2]int{2, 1}, idx, ht, ax) })
					if valid && (lf.name == "plain" || lf.name == "sep@1") && (thorough || ht <= 1 || ht == 0x83) {
						for depth := 1; depth <= 2; depth++ {
							depth := depth
							add(func() []*vcase { return genScriptPathDepth(k, lf, [2]int{2, 1}, idx, ht, ax, depth) })
						}
					}
				}
			}
		}
	}
	return
}

func (v *vcase) toJ() caseJ {
	return caseJ{Family: "verify", Tx: v.tx.Serialize(true), Spent: spentToJ(v.spent), Idx: v.idx, Flags: v.flags, Expect: v.expect, Label: v.label}
}

func familyVerify(r *ev.Run, c *counters, samples *ev.Samples) (both [2]int64) {
	gens := verdictGens(r.Thorough())
	type job struct {
		i int
		f func() []*vcase
	}
	jobs := make(chan job, len(gens))
	for i, g := range gens {
		jobs <- job{i, g}
	}
	close(jobs)
	var wg sync.WaitGroup
	var acc, rej, n int64
	for w := 0; w < runtime.NumCPU(); w++ {
		wg.Add(1)
		go func() {
			defer wg.Done()
			for j := range jobs {
				for vi, v := range j.f() {
					atomic.AddInt64(&n, 1)
					got, pan := verify(v)
					if pan != "" {
						c.report(1<<61+int64(j.i)<<8+int64(vi), "verify/panic:"+short(pan), "VerifyTxScript panicked: "+pan+" ("+v.label+")", v.toJ())
						continue
					}
					if got {
						atomic.AddInt64(&acc, 1)
					} else {
						atomic.AddInt64(&rej, 1)
					}
					c.outcome(fmt.Sprint("verify/", v.key, "/", got))
					if got != v.expect {
						c.report(1<<61+int64(j.i)<<8+int64(vi), v.key, fmt.Sprintf("%s: VerifyTxScript = %v, required %v (%s)", v.label, got, v.expect, v.why), v.toJ())
					}
					if j.i%211 == 3 {
						samples.Add(map[string]interface{}{"family": "ii", "label": v.label, "expect": v.expect, "got": got})
					}
				}
			}
		}()
	}
	wg.Wait()
	c.add("ii/verify", n)
	return [2]int64{acc, rej}
}

// ---------------------------------------------------------------------------
// replay

func replay(file string) {
	b, err := os.ReadFile(file)
	if err != nil {
		ev.HarnessError("%v", err)
	}
	var rec struct {
		Key    string `json:"key"`
		Replay caseJ  `json:"replay"`
	}
	if err := json.Unmarshal(b, &rec); err != nil {
		ev.HarnessError("%v", err)
	}
	cj := rec.Replay
	t, n, err := reftx.DecodeTx(cj.Tx)
	if err != nil || n != len(cj.Tx) {
		ev.HarnessError("replay tx does not decode: %v", err)
	}
	spent := spentFromJ(cj.Spent)
	fail := func(k, what string) {
		if k == "" {
			fmt.Fprintln(ev.Out, "replay: case passes")
			os.Exit(0)
		}
		fmt.Fprintf(ev.Out, "replay: %s: %s\n", k, what)
		os.Exit(1)
	}
	switch cj.Family {
	case "legacy":
		arg := append([]byte{}, cj.ScriptCode...)
		k, what, _ := evalLegacy(toGocoin(t, nil), t, arg, cj.Idx, cj.HashType)
		if k == "" && !bytes.Equal(arg, cj.ScriptCode) {
			k, what = "legacy/script-code-argument-modified", fmt.Sprintf("scriptCode argument %x became %x", []byte(cj.ScriptCode), arg)
		}
		fail(k, what)
	case "bip143":
		arg := append([]byte{}, cj.ScriptCode...)
		k, what := evalBIP143(toGocoin(t, nil), t, arg, cj.Amount, cj.Idx, cj.HashType)
		if k == "" && !bytes.Equal(arg, cj.ScriptCode) {
			k, what = "bip143/script-code-argument-modified", fmt.Sprintf("scriptCode argument %x became %x", []byte(cj.ScriptCode), arg)
		}
		fail(k, what)
	case "buffers-taproot":
		g := toGocoin(t, spent)
		var ax []byte
		if cj.Annex != nil {
			ax = []byte(*cj.Annex)
		}
		var ext *refhash.TapExt
		if cj.Ext != nil {
			ext = &refhash.TapExt{CodeSepPos: cj.Ext.CodeSep}
			copy(ext.LeafHash[:], cj.Ext.LeafHash)
		}
		wd := seqWatchdog
		if v := os.Getenv("C02_REPLAY_WATCHDOG"); v != "" {
			if d, err := time.ParseDuration(v); err == nil {
				wd = d
			}
		}
		for call := 1; call <= 3; call++ {
			ch := make(chan []byte, 1)
			go func() { d, _ := callTaproot(g, cj.Idx, byte(cj.HashType), ax, ext); ch <- d }()
			select {
			case d := <-ch:
				fmt.Fprintf(ev.Out, "  call %d: %x\n", call, d)
			case <-time.After(wd):
				fmt.Fprintf(ev.Out, "  call %d on the same Tx object never returns (no answer within %v)\n", call, wd)
				fail(rec.Key, "request never returns")
			}
		}
		fail("", "")
	case "buffers-legacy", "buffers-bip143":
		g := toGocoin(t, spent)
		gb := guard(cj.ScriptCode)
		bad := false
		for call := 1; call <= 3; call++ {
			var got []byte
			var want [32]byte
			if cj.Family == "buffers-legacy" {
				got, _ = callLegacy(g, gb.arg, cj.Idx, cj.HashType)
				want = refhash.Legacy(t, cj.ScriptCode, cj.Idx, cj.HashType)
			} else {
				got, _ = callBIP143(g, gb.arg, cj.Amount, cj.Idx, cj.HashType)
				want = refhash.BIP143(t, cj.ScriptCode, cj.Amount, cj.Idx, cj.HashType)
			}
			fmt.Fprintf(ev.Out, "  call %d: digest %x (reference %x); caller's script code now %x %s\n", call, got, want, gb.arg, gb.damage())
			if !bytes.Equal(got, want[:]) || gb.damage() != "" {
				bad = true
			}
		}
		if bad {
			fail(rec.Key, "repeated requests over the same slice disagree or the caller's buffer was modified")
		}
		fail("", "")
	case "taproot":
		var ax []byte
		if cj.Annex != nil {
			ax = []byte(*cj.Annex)
			if ax == nil {
				ax = []byte{}
			}
		}
		var ext *refhash.TapExt
		if cj.Ext != nil {
			ext = &refhash.TapExt{CodeSepPos: cj.Ext.CodeSep}
			copy(ext.LeafHash[:], cj.Ext.LeafHash)
		}
		k, what, _ := evalTaproot(toGocoin(t, spent), t, spent, cj.Idx, byte(cj.HashType), ax, ext)
		fail(k, what)
	case "order":
		kinds := reqKinds()
		g := toGocoin(t, spent)
		for j, rq := range cj.Seq {
			var kd *reqKind
			for i := range kinds {
				if kinds[i].name == rq.Kind {
					kd = &kinds[i]
				}
			}
			if kd == nil {
				ev.HarnessError("unknown request kind %q", rq.Kind)
			}
			wd := seqWatchdog
			if v := os.Getenv("C02_REPLAY_WATCHDOG"); v != "" {
				if d, err := time.ParseDuration(v); err == nil {
					wd = d
				}
			}
			type ans struct {
				got []byte
				pan string
			}
			ch := make(chan ans, 1)
			go func() {
				got, pan := serve(g, *kd, rq.Idx, spent[rq.Idx].Value)
				ch <- ans{got, pan}
			}()
			var got []byte
			var pan string
			select {
			case a := <-ch:
				got, pan = a.got, a.pan
			case <-time.After(wd):
				fmt.Fprintf(ev.Out, "  request %d %s input %d on the shared object never returns (no answer within %v)\n", j, rq.Kind, rq.Idx, wd)
				fail(rec.Key, "request never returns")
			}
			fresh, _ := serve(toGocoin(t, spent), *kd, rq.Idx, spent[rq.Idx].Value)
			want, ok := refServe(t, spent, *kd, rq.Idx)
			fmt.Fprintf(ev.Out, "  request %d %s input %d: shared %x fresh %x reference %x (defined=%v) %s\n", j, rq.Kind, rq.Idx, got, fresh, want, ok, pan)
			if pan != "" || !bytes.Equal(got, fresh) || (ok && !bytes.Equal(got, want)) {
				fail(rec.Key, "sequence still disagrees")
			}
		}
		fail("", "")
	case "verify":
		v := &vcase{tx: t, spent: spent, idx: cj.Idx, flags: cj.Flags, expect: cj.Expect, label: cj.Label}
		got, pan := verify(v)
		fmt.Fprintf(ev.Out, "  VerifyTxScript(pk=%x, idx=%d, amount=%d, flags=0x%x) = %v %s, required %v\n", spent[cj.Idx].Script, cj.Idx, spent[cj.Idx].Value, cj.Flags, got, pan, cj.Expect)
		if pan != "" || got != cj.Expect {
			fail(rec.Key, cj.Label)
		}
		fail("", "")
	}
	ev.HarnessError("unknown family %q", cj.Family)
}

func main() {
	r := ev.Start("C02", "exploration")
	// gocoin prints diagnostics on stdout; verdict lines go through ev.Out
	if dn, err := os.OpenFile("/dev/null", os.O_WRONLY, 0); err == nil {
		os.Stdout = dn
	}
	script.DBG_ERR = false
	script.DBG_SCR = false

	rows, err := refhash.SelfCheck(ev.Repo())
	if err != nil {
		ev.HarnessError("refhash fails its own vectors: %v", err)
	}
	if n, err := refsecp.SelfCheck(); err != nil {
		ev.HarnessError("refsecp self-check: %v (%d)", err, n)
	}
	if *replayFile != "" {
		replay(*replayFile)
		return
	}
	c := &counters{}
	samples := &ev.Samples{N: 8}
	t0 := time.Now()
	familyDigests(r, c, samples)
	t1 := time.Now()
	nseq, served := familyOrder(r, c, samples)
	familyBuffers(r, c, samples)
	t2 := time.Now()
	both := familyVerify(r, c, samples)
	t3 := time.Now()
	c.flush(r)

	per := map[string]int64{}
	c.perFam.Range(func(k, v interface{}) bool { per[k.(string)] = *v.(*int64); return true })
	var outs []string
	c.outcomes.Range(func(k, v interface{}) bool { outs = append(outs, k.(string)); return true })
	sort.Strings(outs)
	// part (iv): concurrent digest requests on one shared Tx object, explored by the
	// controlled scheduler in its own (instrumented) binary
	concurrent := r.RunSub("c02s", "concurrent")
	r.Finish(map[string]interface{}{
		"evaluations":                   c.evals,
		"concurrent_part":               concurrent,
		"per_family":                    per,
		"distinct_nontrivial":           len(outs),
		"rule":                          "distinct (family, digest class / hash-type class / path / annex / verdict) outcome classes observed; every evaluation compares the implementation's digest (or verdict) with the reference on a transaction whose committed fields all differ between inputs/outputs",
		"samples":                       samples.L,
		"sighash_json_rows_validated":   rows,
		"order_sequences":               nseq,
		"order_cache_states":            len(served),
		"verify_accepted":               both[0],
		"verify_rejected":               both[1],
		"tx_shapes":                     len(shapes()),
		"legacy_script_codes":           len(legacyCodes()),
		"hash_types_4byte":              len(hashTypes4(r.Thorough())),
		"seconds_digests_order_verify":  []float64{t1.Sub(t0).Seconds(), t2.Sub(t1).Seconds(), t3.Sub(t2).Seconds()},
		"traces_validated_against_impl": rows,
	}, []string{
		"refhash (original algorithm transcribed from Core's CTransactionSignatureSerializer incl. its handling of unparsable script code, BIP143 and BIP341/342 from the BIP texts) is the oracle; it reproduces all rows of sighash.json",
		"signatures are made by refsig (RFC6979 ECDSA, BIP340) - verdict expectations rest on 'a valid signature over exactly the specified digest verifies, any other digest does not'",
		"the legacy digest for nIn >= len(vin) is unreachable through the interpreter and not enumerated",
		"concurrent digest requests (part iv): sub-check c02s under the controlled scheduler (complete at synchronisation granularity) plus a free-running race-detector pass; its coverage is embedded as concurrent_part",
	})
}
