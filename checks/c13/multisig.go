package main

// Family "-raw on multisig P2SH inputs": M-of-N redeem scripts inserted with the
// wallet's own -p2sh step, signed with "-raw" (every key the wallet holds) and
// with chains of "-raw ... -msign <addr>" runs by the co-signers in every order.
//
// Oracle per written file: the -raw clause (version, lock time, outpoints,
// sequences, outputs unchanged) and, as soon as signatures of at least M distinct
// keys of the redeem script have been contributed, the input verifies under
// gocoin's VerifyTxScript AND the reference interpreter with standard flags
// (NULLDUMMY included); while fewer are available the "-raw" run must say that not
// all inputs are signed.

import (
	"bytes"
	"encoding/hex"
	"fmt"
	"os"
	"path/filepath"
	"strings"

	"verif/internal/ev"
	"verif/ref/refaddr"
	"verif/ref/refhash"
	"verif/ref/refscript"
	"verif/ref/refsig"
	"verif/ref/reftx"
)

// MSKey says who holds one key of the redeem script.
type MSKey struct {
	Owner string `json:"owner"` // A = the case's wallet, B = the co-signer wallet (other type, same network), O = imported into A through .others, F = nobody's wallet (external co-signer)
	Idx   int    `json:"idx"`
}

type MSStep struct {
	Wallet string `json:"wallet"`        // A | B
	Mode   string `json:"mode"`          // raw (sign with every key held) | msign (one key)
	Key    int    `json:"key,omitempty"` // msign: position of the key in the redeem script
}

// MSCase: one member of the family.
type MSCase struct {
	M         int      `json:"m"`
	Keys      []MSKey  `json:"keys"`
	Struct    string   `json:"struct"`     // single | with-own | double
	PreSigned []int    `json:"pre_signed"` // positions (owner F) whose signature an external co-signer already put into the offered transaction
	Steps     []MSStep `json:"steps"`
}

func (m *MSCase) label() string {
	var k, s []string
	for _, x := range m.Keys {
		k = append(k, fmt.Sprintf("%s%d", x.Owner, x.Idx))
	}
	for _, x := range m.Steps {
		if x.Mode == "msign" {
			s = append(s, fmt.Sprintf("%s:msign(%d)", x.Wallet, x.Key))
		} else {
			s = append(s, x.Wallet+":raw")
		}
	}
	return fmt.Sprintf("%d-of-%d keys[%s] %s pre-signed%v steps[%s]", m.M, len(m.Keys), strings.Join(k, ","), m.Struct, m.PreSigned, strings.Join(s, " "))
}

func msPriv(owner string, idx int) []byte { return tagHash("c13 multisig key ", owner, idx) }

type msWorld struct {
	c        *Case
	ms       *MSCase
	idA, idB *identity
	pub      [][]byte
	priv     [][]byte // nil for wallet-derived keys we do not need
	addr     []string // P2PKH address of each key (for -msign)
	redeem   []byte
	p2sh     []byte
	dirs     map[string]string
}

func otherType(t int) int {
	if t == 3 {
		return 4
	}
	return 3
}

func pushNum(n int) byte { return byte(0x50 + n) }

func (w *msWorld) setup(base string) {
	c, ms := w.c, w.ms
	w.idA = identityFor(base, c)
	w.idB = identityFor(base, &Case{Type: otherType(c.Type), Testnet: c.Testnet})
	var others strings.Builder
	for _, k := range ms.Keys {
		var pub, priv []byte
		switch k.Owner {
		case "A":
			pub, priv = w.idA.Pub[k.Idx%nKeys], w.idA.Priv[k.Idx%nKeys]
		case "B":
			pub, priv = w.idB.Pub[k.Idx%nKeys], w.idB.Priv[k.Idx%nKeys]
		case "O", "F":
			priv = msPriv(k.Owner, k.Idx)
			pub = refsig.PubkeyFromPriv(priv, true)
			if k.Owner == "O" {
				ver := byte(0x80)
				if c.Testnet {
					ver = 0xef
				}
				fmt.Fprintf(&others, "%s imported %d\n", refaddr.WIFEncode(priv, true, ver), k.Idx)
			}
		default:
			ev.HarnessError("unknown multisig key owner %q", k.Owner)
		}
		w.pub = append(w.pub, pub)
		w.priv = append(w.priv, priv)
		w.addr = append(w.addr, refaddr.EncodeP2PKH(refaddr.Hash160(pub), c.Testnet))
	}
	w.redeem = []byte{pushNum(ms.M)}
	for _, p := range w.pub {
		w.redeem = append(w.redeem, refhash.PushData(p)...)
	}
	w.redeem = append(w.redeem, pushNum(len(w.pub)), 0xae)
	w.p2sh = refaddr.P2SHScript(refaddr.Hash160(w.redeem))
	w.dirs = map[string]string{}
	for _, wl := range []string{"A", "B"} {
		id, typ := w.idA, c.Type
		if wl == "B" {
			id, typ = w.idB, otherType(c.Type)
		}
		dir, err := os.MkdirTemp(base, "m")
		if err != nil {
			ev.HarnessError("%v", err)
		}
		os.WriteFile(filepath.Join(dir, "wallet.cfg"), []byte(cfgFile(typ, c.AType, c.Testnet, "")), 0o644)
		os.WriteFile(filepath.Join(dir, ".secret"), []byte(id.Pass), 0o600)
		if wl == "A" && others.Len() > 0 {
			os.WriteFile(filepath.Join(dir, ".others"), []byte(others.String()), 0o600)
		}
		w.dirs[wl] = dir
	}
}

func (w *msWorld) cleanup() {
	for _, d := range w.dirs {
		os.RemoveAll(d)
	}
}

// holds: does wallet wl hold the key at position p?
func (w *msWorld) holds(wl string, p int) bool {
	o := w.ms.Keys[p].Owner
	return o == wl || (wl == "A" && o == "O")
}

// msScriptSig builds OP_0 <sigs...> <redeem>.
func msScriptSig(sigs [][]byte, redeem []byte) []byte {
	s := []byte{0}
	for _, x := range sigs {
		s = append(s, refhash.PushData(x)...)
	}
	return append(s, refhash.PushData(redeem)...)
}

// validSigners returns the positions of the redeem-script keys for which the
// scriptSig of input i holds a valid SIGHASH_ALL signature, and the number of
// signature elements it carries.
func (w *msWorld) validSigners(tx *reftx.Tx, i int) (pos []int, nsigs int) {
	var elems [][]byte
	for pc := 0; pc < len(tx.In[i].Script); {
		_, d, nx, ok := refhash.GetOp(tx.In[i].Script, pc)
		if !ok {
			break
		}
		elems = append(elems, d)
		pc = nx
	}
	if len(elems) < 2 {
		return nil, 0
	}
	sigs := elems[1 : len(elems)-1]
	nsigs = len(sigs)
	dg := refhash.Legacy(tx, w.redeem, i, 1)
	for p, pub := range w.pub {
		for _, s := range sigs {
			if len(s) > 1 && s[len(s)-1] == 1 && refsig.ECDSAVerifyLax(pub, s[:len(s)-1], dg[:]) {
				pos = append(pos, p)
				break
			}
		}
	}
	return
}

func execMS(base string, c *Case) *result {
	res := &result{}
	ms := c.MS
	w := &msWorld{c: c, ms: ms}
	w.setup(base)
	defer w.cleanup()
	id := w.idA
	ph := "raw-multisig"

	// ---- funding transactions and the transaction to sign
	mk := func(tag string, out reftx.Out) (*reftx.Tx, outpoint) {
		t := &reftx.Tx{Version: 1}
		var p [32]byte
		copy(p[:], tagHash("c13 multisig funding ", tag))
		t.In = []reftx.In{{Prev: p, Vout: 0, Script: []byte{1, 0x51}, Sequence: 0xffffffff}}
		t.Out = []reftx.Out{{Value: 4242, Script: foreignScript("ms0")}, out}
		return t, outpoint{t.TxID(), 1}
	}
	files := map[string][]byte{}
	var spent []reftx.Out
	var msInput []bool
	tx := &reftx.Tx{Version: 2, LockTime: 17}
	addIn := func(tag string, out reftx.Out, isMS bool, seq uint32) outpoint {
		ft, op := mk(tag, out)
		files["balance/"+revHex(ft.TxID())+".tx"] = ft.Serialize(false)
		tx.In = append(tx.In, reftx.In{Prev: op.Prev, Vout: op.Vout, Sequence: seq})
		spent = append(spent, out)
		msInput = append(msInput, isMS)
		return op
	}
	var listedA []string
	op0 := addIn("ms-a", reftx.Out{Value: 100000000, Script: w.p2sh}, true, 0xfffffffd)
	listedA = append(listedA, op0.String()+" # 1.00000000 BTC @ "+refaddr.EncodeP2SH(refaddr.Hash160(w.redeem), c.Testnet)+", block 100")
	listedB := append([]string{}, listedA...)
	ownIdx := -1
	switch ms.Struct {
	case "single":
	case "double":
		op := addIn("ms-b", reftx.Out{Value: 546, Script: w.p2sh}, true, 5)
		l := op.String() + " # 0.00000546 BTC @ " + refaddr.EncodeP2SH(refaddr.Hash160(w.redeem), c.Testnet) + ", block 101"
		listedA, listedB = append(listedA, l), append(listedB, l)
	case "with-own":
		k := kindOfAtype[c.AType]
		op := addIn("own", reftx.Out{Value: 30000, Script: id.Script[k][1]}, false, 0xfffffffe)
		ownIdx = len(tx.In) - 1
		listedA = append(listedA, op.String()+" # 0.00030000 BTC @ "+id.Addr[k][1]+", block 102")
	default:
		ev.HarnessError("unknown multisig structure %q", ms.Struct)
	}
	var total uint64
	for _, s := range spent {
		total += s.Value
	}
	dscr, _ := refaddr.DecodeAddress(destAddr(id, "f-p2wpkh", 2), c.Testnet)
	tx.Out = []reftx.Out{{Value: total - 20000, Script: dscr}, {Value: 10000, Script: id.Script[kP2PKH][3]}}
	for wl, dir := range w.dirs {
		writeFiles(dir, files)
		l := listedA
		if wl == "B" {
			l = listedB
		}
		os.WriteFile(filepath.Join(dir, "balance", "unspent.txt"), []byte(strings.Join(l, "\n")+"\n"), 0o644)
	}
	unsigned := cloneTx(tx)
	desc := fmt.Sprintf("%s; wallet.cfg {type=%d keycnt=%d atype=%s testnet=%v}; redeem script %x", ms.label(), c.Type, nKeys, c.AType, c.Testnet, w.redeem)
	res.sample = map[string]interface{}{"case": c, "command": "multisig: " + ms.label()}

	// compares everything the -raw clause names
	rawClause := func(step string, got *reftx.Tx, ctx string) bool {
		bad := func(key, what string) bool {
			res.fail(ph, key, ctx+": "+what)
			return false
		}
		if got.Version != unsigned.Version {
			return bad("version-altered", fmt.Sprintf("version %d became %d", unsigned.Version, got.Version))
		}
		if got.LockTime != unsigned.LockTime {
			return bad("locktime-altered", fmt.Sprintf("lock time %d became %d", unsigned.LockTime, got.LockTime))
		}
		if len(got.In) != len(unsigned.In) {
			return bad("input-count-altered", fmt.Sprintf("%d inputs became %d", len(unsigned.In), len(got.In)))
		}
		for i := range got.In {
			if got.In[i].Prev != unsigned.In[i].Prev || got.In[i].Vout != unsigned.In[i].Vout {
				return bad("outpoint-altered", fmt.Sprintf("input %d now spends %s", i, outpoint{got.In[i].Prev, got.In[i].Vout}))
			}
			if got.In[i].Sequence != unsigned.In[i].Sequence {
				return bad("sequence-altered", fmt.Sprintf("input %d had sequence %#x, now %#x", i, unsigned.In[i].Sequence, got.In[i].Sequence))
			}
		}
		if len(got.Out) != len(unsigned.Out) {
			return bad("outputs-altered", fmt.Sprintf("outputs %s became %s", outsString(unsigned), outsString(got)))
		}
		for i := range got.Out {
			if got.Out[i].Value != unsigned.Out[i].Value || !bytes.Equal(got.Out[i].Script, unsigned.Out[i].Script) {
				return bad("outputs-altered", fmt.Sprintf("outputs %s became %s", outsString(unsigned), outsString(got)))
			}
		}
		return true
	}

	// ---- step 0: the wallet's own -p2sh step puts the redeem script into the multisig inputs
	dirA := w.dirs["A"]
	os.WriteFile(filepath.Join(dirA, "raw.txt"), []byte(hex.EncodeToString(tx.Serialize(false))), 0o644)
	args := []string{"-raw", "raw.txt", "-p2sh", hex.EncodeToString(w.redeem)}
	if ms.Struct == "with-own" {
		args = append(args, "-input", "0")
	}
	r := runWallet(dirA, args...)
	res.runs++
	ctx := fmt.Sprintf("%s; %s; offered %x", shellQuote(args), desc, tx.Serialize(false))
	if cr := crashed(r); cr != "" {
		res.fail(ph, "wallet-crash", ctx+": the wallet crashes: "+cr)
		res.classes = append(res.classes, "ms:p2sh-step:crash")
		return res
	}
	content, err := os.ReadFile(filepath.Join(dirA, "multi2sign.txt"))
	if err != nil {
		res.note("multisig: the -p2sh step wrote no multi2sign.txt: " + refusalClass(r))
		res.classes = append(res.classes, "ms:p2sh-step:nothing-written")
		return res
	}
	cur, err := decodeTxFile(content)
	if err != nil {
		res.fail(ph, "p2sh-step/file-undecodable", fmt.Sprintf("%s: multi2sign.txt does not hold a transaction: %v", ctx, err))
		return res
	}
	res.written++
	if !rawClause("p2sh", cur, ctx+"; written multi2sign.txt = "+strings.TrimSpace(string(content))) {
		return res
	}
	for i := range cur.In {
		if msInput[i] && !bytes.Equal(cur.In[i].Script, msScriptSig(nil, w.redeem)) {
			res.fail(ph, "p2sh-step/redeem-script-not-inserted", fmt.Sprintf("%s: input %d has scriptSig %x, expected OP_0 <redeem script>", ctx, i, cur.In[i].Script))
			return res
		}
	}

	// ---- an external co-signer's signatures that are already there
	signed := map[int]bool{}
	if len(ms.PreSigned) > 0 {
		for i := range cur.In {
			if !msInput[i] {
				continue
			}
			dg := refhash.Legacy(cur, w.redeem, i, 1)
			var sigs [][]byte
			for p := range w.pub {
				for _, q := range ms.PreSigned {
					if q == p {
						rr, ss := refsig.ECDSASignRFC6979(w.priv[p], dg[:])
						sigs = append(sigs, append(refsig.SerializeDER(rr, ss), 1))
					}
				}
			}
			cur.In[i].Script = msScriptSig(sigs, w.redeem)
		}
		for _, p := range ms.PreSigned {
			signed[p] = true
		}
	}

	// ---- the signing steps
	for si, st := range ms.Steps {
		dir := w.dirs[st.Wallet]
		in := fmt.Sprintf("in%d.txt", si)
		out := fmt.Sprintf("step%d.txt", si)
		offered := cloneTx(cur)
		os.WriteFile(filepath.Join(dir, in), []byte(hex.EncodeToString(cur.Serialize(true))), 0o644)
		args := []string{"-raw", in}
		if st.Mode == "msign" {
			args = append(args, "-msign", w.addr[st.Key])
		}
		if c.RFC6979 {
			args = append(args, "-rfc6979")
		}
		args = append(args, "-txfn", out)
		r := runWallet(dir, args...)
		res.runs++
		ctx := fmt.Sprintf("step %d by wallet %s: %s; %s; offered %x", si, st.Wallet, shellQuote(args), desc, offered.Serialize(true))
		if cr := crashed(r); cr != "" {
			res.fail(ph, "wallet-crash", ctx+": the wallet crashes: "+cr)
			res.classes = append(res.classes, "ms:"+st.Mode+":crash")
			return res
		}
		content, err := os.ReadFile(filepath.Join(dir, out))
		if err != nil {
			res.note("multisig " + st.Mode + " step: nothing written: " + refusalClass(r))
			res.classes = append(res.classes, "ms:"+st.Mode+":nothing-written")
			return res
		}
		got, err := decodeTxFile(content)
		if err != nil {
			res.fail(ph, "tx-file-undecodable", fmt.Sprintf("%s: %s does not hold a transaction: %v", ctx, out, err))
			return res
		}
		res.written++
		ctx += fmt.Sprintf("; written %s = %s", out, strings.TrimSpace(string(content)))
		if !rawClause(st.Mode, got, ctx) {
			return res
		}
		// the model: which keys have contributed by now
		if st.Mode == "msign" {
			if w.holds(st.Wallet, st.Key) {
				signed[st.Key] = true
			}
		} else {
			for p := range ms.Keys {
				if w.holds(st.Wallet, p) {
					signed[p] = true
				}
			}
		}
		avail := len(signed)
		impl, pan, ref := verifyInputs(got, spent)
		complete := true
		for i := range got.In {
			if !msInput[i] {
				// the wallet's own input: judged when its owner signs with -raw
				if i == ownIdx && st.Wallet == "A" && st.Mode == "raw" {
					res.inputs++
					if pan[i] != "" || !impl[i] || !ref[i].OK {
						res.fail(ph, "own-input-signature-invalid/"+scriptKind(spent[i].Script), fmt.Sprintf("%s: input %d (the wallet's own %s output) does not verify: reference %s, VerifyTxScript %v %s", ctx, i, scriptKind(spent[i].Script), ref[i].Err, impl[i], pan[i]))
						return res
					}
				}
				continue
			}
			have, nsigs := w.validSigners(got, i)
			if avail < ms.M {
				complete = false
				if len(have) < avail {
					res.note(fmt.Sprintf("multisig %s step: %d keys have signed but only %d valid signatures are in the scriptSig", st.Mode, avail, len(have)))
				}
				continue
			}
			res.inputs++
			switch {
			case pan[i] != "":
				res.fail(ph, "verify-panic", fmt.Sprintf("%s: script.VerifyTxScript on input %d: %s", ctx, i, pan[i]))
				return res
			case impl[i] && ref[i].OK:
			case !impl[i] && !ref[i].OK:
				res.fail(ph, "input-with-enough-signatures-invalid/"+st.Mode, fmt.Sprintf("%s: keys at positions %v of the %d-of-%d script have signed (%d >= %d), yet input %d fails script verification with standard flags: reference says %s, VerifyTxScript says false; the scriptSig carries %d signature elements, valid ones for key positions %v",
					ctx, sortedInts(signed), ms.M, len(ms.Keys), avail, ms.M, i, ref[i].Err, nsigs, have))
				return res
			default:
				res.fail(ph, "verifiers-disagree", fmt.Sprintf("%s: input %d: VerifyTxScript=%v, reference interpreter=%v (%s)", ctx, i, impl[i], ref[i].OK, ref[i].Err))
				return res
			}
		}
		if st.Mode == "raw" && !complete && !strings.Contains(r.stdout+r.stderr, "Not all the inputs have been signed") {
			// what the wallet prints is not part of the statement: recorded, not judged
			held := 0
			for p := range ms.Keys {
				if w.holds(st.Wallet, p) {
					held++
				}
			}
			res.note(fmt.Sprintf("multisig -raw step leaves an input with %d of %d signatures and prints no 'Not all the inputs have been signed' warning (the wallet holds %d of the keys)", avail, ms.M, held))
		}
		state := "partial"
		if avail >= ms.M {
			state = "complete"
			if avail > ms.M {
				state = "complete+extra-signers"
			}
		}
		res.classes = append(res.classes, fmt.Sprintf("ms:%s/%d-of-%d/%s/%s", st.Mode, ms.M, len(ms.Keys), ms.Struct, state))
		cur = got
	}
	return res
}

func sortedInts(m map[int]bool) []int {
	var o []int
	for i := 0; i < 64; i++ {
		if m[i] {
			o = append(o, i)
		}
	}
	return o
}

// ---------------------------------------------------------------- enumeration

var msShapes = [][2]int{{1, 1}, {1, 2}, {2, 2}, {2, 3}, {3, 3}, {1, 3}, {3, 5}}

func permutations(n int) [][]int {
	var out [][]int
	var rec func(p []int, used int)
	rec = func(p []int, used int) {
		if len(p) == n {
			out = append(out, append([]int{}, p...))
			return
		}
		for i := 0; i < n; i++ {
			if used&(1<<uint(i)) == 0 {
				rec(append(p, i), used|1<<uint(i))
			}
		}
	}
	rec(nil, 0)
	return out
}

// multisigFamily enumerates both sub-families.
//
// hold: the wallet holds k of the N keys (k = 0..N, the first k or the last k
// positions, derived keys and keys imported through .others), an external
// co-signer has already put f signatures in (f = 0, 1, all of the others), one
// "-raw" run.
//
// chain: the N co-signers sign one after the other with "-raw ... -msign <addr>"
// in every order (all N! orders for N <= 3; for N = 5 the rotations of the
// identity and of its reverse in quick, all 120 in thorough); the keys belong to
// one wallet or alternate between two wallets; in half of the chains the first
// step is a "-raw" run of wallet A instead.
func multisigFamily(startIdx int, thorough bool) []*Case {
	var out []*Case
	atypes := []string{"p2kh", "segwit", "bech32", "tap"}
	structs := []string{"single", "with-own", "double"}
	n := 0
	add := func(fam string, ms *MSCase) {
		c := &Case{Idx: startIdx + len(out), Family: fam, Type: 3 + n%2, AType: atypes[n%4], Testnet: (n/2)%2 == 1, Layout: "sep", AmtFmt: "full", Via: "send",
			RFC6979: (n/3)%2 == 1, MS: ms}
		out = append(out, c)
		n++
	}
	for _, sh := range msShapes {
		M, N := sh[0], sh[1]
		for k := 0; k <= N; k++ {
			for _, last := range []bool{false, true} {
				if last && (k == 0 || k == N) {
					continue
				}
				held := map[int]bool{}
				for i := 0; i < k; i++ {
					if last {
						held[N-1-i] = true
					} else {
						held[i] = true
					}
				}
				var foreign []int
				for p := 0; p < N; p++ {
					if !held[p] {
						foreign = append(foreign, p)
					}
				}
				fs := []int{0}
				if len(foreign) >= 1 {
					fs = append(fs, 1)
				}
				if len(foreign) >= 2 {
					fs = append(fs, len(foreign))
				}
				for fi, f := range fs {
					// the external co-signers hand over a well-formed input: never more than M signatures
					if f > M {
						f = M
					}
					if fi > 0 && f == fs[fi-1] {
						continue
					}
					sts := structs
					if !thorough {
						sts = []string{structs[n%3]}
					}
					for _, stc := range sts {
						ms := &MSCase{M: M, Struct: stc, Steps: []MSStep{{Wallet: "A", Mode: "raw"}}}
						for p := 0; p < N; p++ {
							switch {
							case held[p] && (p+n)%3 == 2:
								ms.Keys = append(ms.Keys, MSKey{"O", p})
							case held[p]:
								ms.Keys = append(ms.Keys, MSKey{"A", (p + 2) % nKeys})
							default:
								ms.Keys = append(ms.Keys, MSKey{"F", p})
							}
						}
						// the external co-signers that signed first: the last f foreign positions
						ms.PreSigned = append([]int{}, foreign[len(foreign)-f:]...)
						add("raw-multisig-hold", ms)
					}
				}
			}
		}
	}
	for _, sh := range msShapes {
		M, N := sh[0], sh[1]
		orders := permutations(N)
		if N == 5 && !thorough {
			orders = nil
			for r := 0; r < 5; r++ {
				var a, b []int
				for i := 0; i < 5; i++ {
					a = append(a, (i+r)%5)
					b = append(b, (4-i+r)%5)
				}
				orders = append(orders, a, b)
			}
		}
		layouts := []string{"one-wallet", "two-wallets"}
		for oi, ord := range orders {
			ls := layouts
			if !thorough {
				ls = []string{layouts[(oi+N)%2]}
			}
			for li, lay := range ls {
				ms := &MSCase{M: M, Struct: structs[(oi+li+N)%3]}
				for p := 0; p < N; p++ {
					o := "A"
					if lay == "two-wallets" && p%2 == 1 {
						o = "B"
					}
					ms.Keys = append(ms.Keys, MSKey{o, (p + 1) % nKeys})
				}
				for j, p := range ord {
					st := MSStep{Wallet: ms.Keys[p].Owner, Mode: "msign", Key: p}
					if j == 0 && (oi+li)%2 == 1 {
						// the first signer uses plain -raw: every key of that wallet signs at once
						st = MSStep{Wallet: ms.Keys[p].Owner, Mode: "raw"}
					}
					ms.Steps = append(ms.Steps, st)
				}
				add("raw-multisig-chain", ms)
			}
		}
	}
	return out
}

var _ = refscript.OK
