package main

// Execution of one Case on the wallet binary and the judgement of what it wrote.

import (
	"bytes"
	"encoding/hex"
	"fmt"
	"os"
	"path/filepath"
	"regexp"
	"sort"
	"strconv"
	"strings"

	"github.com/piotrnar/gocoin/lib/btc"
	"github.com/piotrnar/gocoin/lib/script"

	"verif/internal/ev"
	"verif/ref/refaddr"
	"verif/ref/refhash"
	"verif/ref/refscript"
	"verif/ref/refsig"
	"verif/ref/reftx"
)

type finding struct {
	Key, What string
	Phase     string
}

// result of one Case (all phases).
type result struct {
	findings []finding
	classes  []string // outcome classes (coverage)
	notes    []string
	runs     int
	written  int // transactions written and judged
	inputs   int // inputs verified by both verifiers
	rfcSigs  int // signatures compared with the RFC6979 reference
	sample   map[string]interface{}
	// first observation of a valid foreign signature destroyed by -raw (not judged)
	foreignBroken string
}

func (r *result) fail(phase, key, what string) {
	r.findings = append(r.findings, finding{Key: phase + "/" + key, What: what, Phase: phase})
}
func (r *result) note(s string) { r.notes = append(r.notes, s) }

// Core's STANDARD_SCRIPT_VERIFY_FLAGS for the reference; gocoin's own
// STANDARD_VERIFY_FLAGS (+ the taproot-version discouragement it leaves out) for the implementation.
const refStdFlags = refscript.P2SH | refscript.DERSIG | refscript.STRICTENC | refscript.MINIMALDATA | refscript.NULLDUMMY |
	refscript.DISCOURAGE_UPGRADABLE_NOPS | refscript.CLEANSTACK | refscript.MINIMALIF | refscript.NULLFAIL |
	refscript.CHECKLOCKTIMEVERIFY | refscript.CHECKSEQUENCEVERIFY | refscript.LOW_S | refscript.WITNESS |
	refscript.DISCOURAGE_UPGRADABLE_WITNESS_PROGRAM | refscript.WITNESS_PUBKEYTYPE | refscript.CONST_SCRIPTCODE |
	refscript.TAPROOT | refscript.DISCOURAGE_UPGRADABLE_TAPROOT_VERSION | refscript.DISCOURAGE_OP_SUCCESS |
	refscript.DISCOURAGE_UPGRADABLE_PUBKEYTYPE | refscript.SIGPUSHONLY

const implStdFlags = script.STANDARD_VERIFY_FLAGS | script.VER_DIS_TAPVER | script.VER_SIGPUSHONLY

var txFileRe = regexp.MustCompile(`^[0-9a-f]{8}\.txt$`)
var balTxRe = regexp.MustCompile(`^balance/[0-9a-f]{64}\.tx$`)

// verifyInputs runs both verifiers on every input of tx. spent[i] is the output
// spent by input i.
func verifyInputs(tx *reftx.Tx, spent []reftx.Out) (impl []bool, implPanic []string, ref []refscript.Result) {
	raw := tx.Serialize(true)
	g, n := btc.NewTx(raw)
	impl = make([]bool, len(tx.In))
	implPanic = make([]string, len(tx.In))
	ref = make([]refscript.Result, len(tx.In))
	if g != nil && n == len(raw) {
		g.SetHash(raw)
		g.AllocVerVars()
		g.Spent_outputs = make([]*btc.TxOut, len(spent))
		for i := range spent {
			g.Spent_outputs[i] = &btc.TxOut{Value: spent[i].Value, Pk_script: spent[i].Script}
		}
	} else {
		g = nil
	}
	for i := range tx.In {
		if g != nil {
			func() {
				defer func() {
					if r := recover(); r != nil {
						implPanic[i] = fmt.Sprint(r)
					}
				}()
				impl[i] = script.VerifyTxScript(spent[i].Script, &script.SigChecker{Tx: g, Idx: i, Amount: spent[i].Value}, implStdFlags)
			}()
		} else {
			implPanic[i] = "btc.NewTx refuses the transaction"
		}
		ref[i] = refscript.Verify(tx.In[i].Script, spent[i].Script, tx.In[i].Witness, refStdFlags,
			&refscript.Input{Tx: tx, Idx: i, Amount: spent[i].Value, Spent: spent})
	}
	return
}

func scriptKind(s []byte) string {
	switch {
	case len(s) == 25 && s[0] == 0x76:
		return kP2PKH
	case len(s) == 23 && s[0] == 0xa9:
		return kP2SH
	case len(s) == 22 && s[0] == 0:
		return kP2W
	case len(s) == 34 && s[0] == 0x51:
		return kP2TR
	}
	return "other"
}

// ecdsaSigAndDigest extracts the ECDSA signature of a P2PKH / P2WPKH / P2SH-P2WPKH
// input and computes the digest it must sign (reference sighash code).
func ecdsaSigAndDigest(tx *reftx.Tx, spent []reftx.Out, i int) (sig []byte, digest [32]byte, pub []byte, ok bool) {
	in := tx.In[i]
	switch scriptKind(spent[i].Script) {
	case kP2PKH:
		_, d, nx, k := refhash.GetOp(in.Script, 0)
		if !k {
			return
		}
		_, p, _, k2 := refhash.GetOp(in.Script, nx)
		if !k2 {
			return
		}
		return d, refhash.Legacy(tx, spent[i].Script, i, 1), p, true
	case kP2W, kP2SH:
		if len(in.Witness) != 2 {
			return
		}
		h := refaddr.Hash160(in.Witness[1])
		return in.Witness[0], refhash.BIP143(tx, refaddr.P2PKHScript(h), spent[i].Value, i, 1), in.Witness[1], true
	}
	return
}

// parseUnspent parses balance/unspent.txt the way the statement's observation point reads it.
func parseUnspent(b []byte) (ops []outpoint, bad []string) {
	for _, l := range strings.Split(string(b), "\n") {
		l = strings.TrimRight(l, "\r")
		if l == "" {
			continue
		}
		f := strings.SplitN(l, " ", 2)[0]
		if len(f) < 66 || f[64] != '-' {
			bad = append(bad, l)
			continue
		}
		h, err := hex.DecodeString(f[:64])
		v, err2 := strconv.ParseUint(f[65:], 10, 32)
		if err != nil || err2 != nil {
			bad = append(bad, l)
			continue
		}
		var o outpoint
		for i := 0; i < 32; i++ {
			o.Prev[i] = h[31-i]
		}
		o.Vout = uint32(v)
		ops = append(ops, o)
	}
	return
}

type request struct {
	c      *Case
	files  map[string][]byte // the balance folder offered to the wallet (for diagnostics)
	listed []listedOut
	phase  string // key prefix of findings
	label  string // outcome-class prefix (send | chain)
}

// describeUnlisted says what an unlisted outpoint is, when the folder holds its transaction.
func (rq *request) describeUnlisted(op outpoint) string {
	b, ok := rq.files["balance/"+revHex(op.Prev)+".tx"]
	if !ok {
		return " (no transaction of the balance folder has this id)"
	}
	t, _, err := reftx.DecodeTx(b)
	if err != nil || int(op.Vout) >= len(t.Out) {
		return fmt.Sprintf(" (the stored transaction has no output %d)", op.Vout)
	}
	var l []string
	for _, x := range rq.listed {
		if x.Prev == op.Prev {
			l = append(l, fmt.Sprint(x.Vout))
		}
	}
	return fmt.Sprintf(" (it is output %d, %d sat, of a stored funding transaction with %d outputs whose listed outputs are %s)", op.Vout, t.Out[op.Vout].Value, len(t.Out), strings.Join(l, ","))
}

// expectation of the accounting model
type model struct {
	owned        []listedOut
	total, fee   uint64
	pays         []uint64 // per destination, after -f
	need         uint64
	unsat        bool // -f with a first amount below the fee: no transaction satisfies the request
	overflow     bool // payments + fee exceed 2^64-1
	textOverflow bool // a single typed amount is 2^64 satoshi or more
	insufficient bool
}

func makeModel(rq *request) *model {
	c := rq.c
	m := &model{fee: c.fee()}
	for i := range rq.listed {
		if ownedByWallet(c, &rq.listed[i]) {
			m.owned = append(m.owned, rq.listed[i])
			m.total += rq.listed[i].Value
		}
	}
	var sum uint64
	for i, d := range c.Dests {
		p := d.Amount
		if d.AmountText != "" {
			m.overflow, m.textOverflow = true, true
		}
		if i == 0 && c.subfeeEffective() {
			if p < m.fee {
				m.unsat = true
				p = 0
			} else {
				p -= m.fee
			}
		}
		m.pays = append(m.pays, p)
		if sum+p < sum {
			m.overflow = true
		}
		sum += p
	}
	m.need = sum + m.fee
	if m.need < sum {
		m.overflow = true
	}
	// a request whose true total exceeds 2^64-1 satoshi certainly exceeds the funds
	m.insufficient = m.unsat || m.overflow || m.total < m.need
	return m
}

// findTxFile returns the name and content of the transaction file the run created.
func findTxFile(c *Case, before, after map[string][]byte) (name string, content []byte, others []string) {
	created, changed, _ := diffSnap(before, after)
	for _, f := range append(created, changed...) {
		switch {
		case c.TxFn != "" && f == c.TxFn, c.TxFn == "" && txFileRe.MatchString(f):
			if name == "" {
				name, content = f, after[f]
				continue
			}
			others = append(others, f)
		case balTxRe.MatchString(f), f == "balance/unspent.txt":
		default:
			others = append(others, f)
		}
	}
	return
}

func decodeTxFile(content []byte) (*reftx.Tx, error) {
	raw, err := hex.DecodeString(strings.TrimSpace(string(content)))
	if err != nil {
		return nil, fmt.Errorf("not a hex dump: %v", err)
	}
	tx, n, err := reftx.DecodeTx(raw)
	if err != nil {
		return nil, err
	}
	if n != len(raw) {
		return nil, fmt.Errorf("%d trailing bytes", len(raw)-n)
	}
	return tx, nil
}

func opReturnScript(msg string) []byte {
	return append([]byte{0x6a}, refhash.PushData([]byte(msg))...)
}

// judgeSend judges a -send/-batch run. It returns the decoded transaction and the
// outputs it spends when a transaction was written and its inputs are all listed.
func judgeSend(id *identity, rq *request, r runResult, before, after map[string][]byte, cmdline string, res *result) (tx *reftx.Tx, spent []reftx.Out, spentListed []listedOut) {
	c, ph, lb := rq.c, rq.phase, rq.label
	m := makeModel(rq)
	ctx := fmt.Sprintf("%s; %s; balance: %s", cmdline, c.cfgLine(), listedString(rq.listed))
	if cr := crashed(r); cr != "" {
		res.fail(ph, "wallet-crash", fmt.Sprintf("%s: the wallet crashes: %s", ctx, cr))
		res.classes = append(res.classes, lb+":crash")
		return
	}
	name, content, others := findTxFile(c, before, after)
	created, changed, removed := diffSnap(before, after)
	if len(others) > 0 {
		res.note(ph + ": unexpected files written: " + strings.Join(others, ","))
	}
	if c.Tamper != "" && name != "" {
		what := fmt.Sprintf("%s: the stored transaction of the first owned output does not hash to the id it is stored under (altered, %s format), yet a transaction file (%s) was written", ctx, c.Tamper, name)
		if t, err := decodeTxFile(content); err == nil {
			what += fmt.Sprintf(" with output values %v", outValues(t))
		}
		res.fail(ph, "altered-balance-file/tx-written/"+c.Tamper, what)
		res.classes = append(res.classes, lb+":written-from-altered-file")
		return
	}
	if name == "" {
		// nothing written
		cls := "refused"
		if m.insufficient {
			cls = "refused-insufficient"
			if m.unsat {
				cls = "refused-subfee-below-fee"
			}
			if r.exit == 0 {
				res.fail(ph, "insufficient-funds/exit-code-0", fmt.Sprintf("%s: owned %d, needed %d: no transaction is written but the exit code is 0", ctx, m.total, m.need))
			}
			if len(created)+len(changed)+len(removed) > 0 {
				res.fail(ph, "insufficient-funds/files-modified", fmt.Sprintf("%s: owned %d, needed %d: no transaction file, but files were modified: created %v changed %v removed %v", ctx, m.total, m.need, created, changed, removed))
			}
		} else {
			res.note(ph + ": refused although funds suffice: " + refusalClass(r))
			cls = "refused-other"
			if len(created)+len(changed)+len(removed) > 0 {
				res.fail(ph, "refused/files-modified", fmt.Sprintf("%s: no transaction file was written, but files were modified: created %v changed %v removed %v", ctx, created, changed, removed))
			}
		}
		res.classes = append(res.classes, lb+":"+cls)
		return
	}
	// the spent outpoints must be exactly members of the listed set, each at most once;
	// this is judged first: every later figure (funds, change) is computed from the
	// listed outputs the inputs name
	if t, err := decodeTxFile(content); err == nil {
		dup := map[outpoint]bool{}
		for i, in := range t.In {
			op := outpoint{in.Prev, in.Vout}
			listed := false
			for j := range rq.listed {
				if rq.listed[j].outpoint == op {
					listed = true
				}
			}
			if !listed {
				res.written++
				res.fail(ph, "input-not-listed", fmt.Sprintf("%s; written %s = %s: input %d spends %s which is not listed in balance/unspent.txt%s", ctx, name, strings.TrimSpace(string(content)), i, op, rq.describeUnlisted(op)))
				res.classes = append(res.classes, lb+":written-unlisted-input")
				return t, nil, nil
			}
			if dup[op] {
				res.written++
				res.fail(ph, "input-duplicated", fmt.Sprintf("%s; written %s = %s: input %d spends %s a second time", ctx, name, strings.TrimSpace(string(content)), i, op))
				res.classes = append(res.classes, lb+":written-duplicated-input")
				return t, nil, nil
			}
			dup[op] = true
		}
	}
	if m.unsat {
		what := fmt.Sprintf("%s: -f with a first amount (%d) below the fee (%d) cannot be satisfied, yet a transaction file was written", ctx, c.Dests[0].Amount, m.fee)
		if t, err := decodeTxFile(content); err == nil {
			what += fmt.Sprintf(" with output values %v", outValues(t))
		}
		res.fail(ph, "subfee-first-amount-below-fee/tx-written", what)
		res.classes = append(res.classes, lb+":written-unsatisfiable")
		return
	}
	if m.overflow {
		what := fmt.Sprintf("%s: owned %d; the payments %v plus fee %d exceed 2^64-1 satoshi (and so the funds), yet a transaction file was written", ctx, m.total, m.pays, m.fee)
		if t, err := decodeTxFile(content); err == nil {
			what += fmt.Sprintf(" with output values %v", outValues(t))
		}
		if m.textOverflow {
			res.fail(ph, "insufficient-funds/typed-amount-exceeds-uint64/tx-written", what+"; typed amounts: "+typedAmounts(c))
		} else {
			res.fail(ph, "insufficient-funds/request-total-wraps-uint64/tx-written", what)
		}
		res.classes = append(res.classes, lb+":written-insufficient")
		return
	}
	if m.insufficient {
		res.fail(ph, "insufficient-funds/tx-written", fmt.Sprintf("%s: owned %d, needed %d (payments + fee %d), yet a transaction file (%s) was written", ctx, m.total, m.need, m.fee, name))
		res.classes = append(res.classes, lb+":written-insufficient")
		return
	}
	if r.exit != 0 {
		res.note(fmt.Sprintf("%s: transaction written but exit code %d", ph, r.exit))
	}
	tx, err := decodeTxFile(content)
	if err != nil {
		res.fail(ph, "tx-file-undecodable", fmt.Sprintf("%s: %s does not hold a transaction: %v", ctx, name, err))
		return nil, nil, nil
	}
	res.written++
	ctx += fmt.Sprintf("; written %s = %s", name, strings.TrimSpace(string(content)))
	bad := false
	// ---- inputs are listed unspent outputs
	seen := map[outpoint]bool{}
	for i, in := range tx.In {
		op := outpoint{in.Prev, in.Vout}
		var l *listedOut
		for j := range rq.listed {
			if rq.listed[j].outpoint == op {
				l = &rq.listed[j]
			}
		}
		if l == nil {
			res.fail(ph, "input-not-listed", fmt.Sprintf("%s: input %d spends %s which is not listed in balance/unspent.txt", ctx, i, op))
			return tx, nil, nil
		}
		if seen[op] {
			res.fail(ph, "input-duplicated", fmt.Sprintf("%s: input %d spends %s a second time", ctx, i, op))
			bad = true
		}
		seen[op] = true
		spent = append(spent, reftx.Out{Value: l.Value, Script: l.Script})
		spentListed = append(spentListed, *l)
	}
	if len(tx.In) == 0 {
		res.fail(ph, "no-inputs", ctx+": the transaction has no inputs")
		return tx, nil, nil
	}
	var sumIn uint64
	for _, s := range spent {
		sumIn += s.Value
	}
	if c.UseAll {
		for _, o := range m.owned {
			if !seen[o.outpoint] {
				res.fail(ph, "useallinputs/owned-output-not-spent", fmt.Sprintf("%s: -useallinputs, but the owned output %s is not an input", ctx, o.outpoint))
				bad = true
				break
			}
		}
	}
	// ---- outputs: destinations, change, message
	rest := append([]reftx.Out{}, tx.Out...)
	take := func(scr []byte, val uint64) bool {
		for i := range rest {
			if rest[i].Value == val && bytes.Equal(rest[i].Script, scr) {
				rest = append(rest[:i], rest[i+1:]...)
				return true
			}
		}
		return false
	}
	var missing []int
	var missWhat []string
	var paidSum uint64
	for i, d := range c.Dests {
		a := destAddr(id, d.Kind, d.Key)
		scr, err := refaddr.DecodeAddress(a, id.Testnet)
		if err != nil {
			ev.HarnessError("family address %q does not decode: %v", a, err)
		}
		if !take(scr, m.pays[i]) {
			missing = append(missing, i)
			missWhat = append(missWhat, fmt.Sprintf("destination %d (%s) must receive %d at script %x", i, a, m.pays[i], scr))
		} else {
			paidSum += m.pays[i]
		}
	}
	if len(missing) > 0 {
		bad = true
		// a silent subset: the transaction is self-consistent for the destinations it
		// does pay (what is left after them and the fee is one change output, or nothing)
		var others []reftx.Out
		for _, o := range rest {
			if !(o.Value == 0 && len(o.Script) > 0 && o.Script[0] == 0x6a) {
				others = append(others, o)
			}
		}
		left := sumIn - paidSum - m.fee
		subset := sumIn >= paidSum+m.fee && ((left == 0 && len(others) == 0) || (len(others) == 1 && others[0].Value == left))
		if subset && len(missing) < len(c.Dests) {
			res.fail(ph, "destinations-silently-dropped", fmt.Sprintf("%s: %d of the %d requested destinations are paid, the others are dropped and their money goes to change: %s; outputs are %s", ctx, len(c.Dests)-len(missing), len(c.Dests), strings.Join(missWhat, "; "), outsString(tx)))
		} else {
			for j, i := range missing {
				res.fail(ph, "destination-not-paid-exactly/"+strings.TrimPrefix(c.Dests[i].Kind, "own:"), fmt.Sprintf("%s: %s; outputs are %s", ctx, missWhat[j], outsString(tx)))
			}
		}
	}
	if c.Msg != "" {
		want := opReturnScript(c.Msg)
		if !take(want, 0) {
			// the data carrier is not part of the statement's accounting; an output that
			// carries no value and starts with OP_RETURN is accepted, its encoding noted
			found := false
			for i := range rest {
				if rest[i].Value == 0 && len(rest[i].Script) > 0 && rest[i].Script[0] == 0x6a {
					res.note(fmt.Sprintf("-msg of %d bytes is not encoded as OP_RETURN <canonical push>: script starts %x", len(c.Msg), rest[i].Script[:3]))
					rest = append(rest[:i], rest[i+1:]...)
					found = true
					break
				}
			}
			if !found {
				res.fail(ph, "msg-output-missing", fmt.Sprintf("%s: no zero-value OP_RETURN output for -msg; outputs are %s", ctx, outsString(tx)))
				bad = true
			}
		}
	}
	var sumPay uint64
	for _, p := range m.pays {
		sumPay += p
	}
	if sumIn < sumPay+m.fee {
		res.fail(ph, "inputs-below-payments-plus-fee", fmt.Sprintf("%s: inputs %d < payments %d + fee %d", ctx, sumIn, sumPay, m.fee))
		bad = true
	} else if !bad {
		change := sumIn - sumPay - m.fee
		switch {
		case change == 0 && len(rest) > 0:
			res.fail(ph, "change/zero-change-but-extra-output", fmt.Sprintf("%s: inputs %d - payments %d - fee %d = 0, but there are extra outputs %s", ctx, sumIn, sumPay, m.fee, outsList(rest)))
			bad = true
		case change > 0 && len(rest) == 0:
			res.fail(ph, "change/missing", fmt.Sprintf("%s: inputs %d - payments %d - fee %d = %d must go to the change address; there is no change output (outputs %s)", ctx, sumIn, sumPay, m.fee, change, outsString(tx)))
			bad = true
		case change > 0 && len(rest) > 1:
			res.fail(ph, "change/extra-outputs", fmt.Sprintf("%s: more than one output besides the destinations: %s", ctx, outsList(rest)))
			bad = true
		case change > 0:
			if rest[0].Value != change {
				res.fail(ph, "change/amount-wrong", fmt.Sprintf("%s: inputs %d - payments %d - fee %d = %d, the change output carries %d", ctx, sumIn, sumPay, m.fee, change, rest[0].Value))
				bad = true
			}
			if c.Change != "" {
				a := destAddr(id, c.Change, c.ChKey)
				scr, _ := refaddr.DecodeAddress(a, id.Testnet)
				if !bytes.Equal(scr, rest[0].Script) {
					res.fail(ph, "change/not-to-designated-address", fmt.Sprintf("%s: -change %s (script %x), the change output pays script %x", ctx, a, scr, rest[0].Script))
					bad = true
				}
			} else if _, _, ok := id.ownScript(rest[0].Script); !ok {
				res.fail(ph, "change/not-to-own-address", fmt.Sprintf("%s: the change output pays script %x which is none of the wallet's addresses", ctx, rest[0].Script))
				bad = true
			}
		}
	}
	// ---- version, lock time, sequence numbers follow the flags
	if tx.Version != c.wantVer() {
		res.fail(ph, "version-not-as-requested", fmt.Sprintf("%s: version %d, requested %d", ctx, tx.Version, c.wantVer()))
		bad = true
	}
	if tx.LockTime != c.wantLock() {
		res.fail(ph, "locktime-not-as-requested", fmt.Sprintf("%s: lock time %d, requested %d", ctx, tx.LockTime, c.wantLock()))
		bad = true
	}
	for i, in := range tx.In {
		if in.Sequence != c.wantSeq() {
			res.fail(ph, "sequence-not-as-requested", fmt.Sprintf("%s: input %d has sequence %#x, requested %#x", ctx, i, in.Sequence, c.wantSeq()))
			bad = true
			break
		}
	}
	// ---- every input verifies
	if !judgeValidity(id, c, ph, ctx, tx, spent, spentListed, nil, res) {
		bad = true
	}
	// ---- balance folder afterwards (the wallet does not apply a transaction it
	// could not sign completely; that is reported above as an invalid input)
	if !bad {
		judgeBalanceAfter(rq, ph, ctx, tx, seen, before, after, res)
	}
	cls := fmt.Sprintf("%s:written/in=%s/outs=%d/change=%v/msg=%v", lb, kindsOf(spentListed), len(tx.Out), len(rest) > 0, c.Msg != "")
	if bad {
		cls += "/BAD"
	}
	res.classes = append(res.classes, cls)
	if bad {
		return tx, nil, nil
	}
	return
}

func (c *Case) cfgLine() string {
	return "wallet.cfg {" + strings.ReplaceAll(strings.TrimSpace(strings.SplitN(c.cfgText(), "\n", 2)[1]), "\n", " ") + "}"
}

func refusalClass(r runResult) string {
	l := lastLines(r.stderr+"\n"+r.stdout, 1)
	for _, p := range []string{"You have", "incorrect version", "incorrect HRP", "NewAddrFromString", "Incorrect amount", "Error in the batch file", "StringToSatoshis"} {
		if strings.Contains(l, p) {
			return p
		}
	}
	if len(l) > 60 {
		l = l[:60]
	}
	return l
}

func typedAmounts(c *Case) string {
	var s []string
	for _, d := range c.Dests {
		if d.AmountText != "" {
			s = append(s, d.AmountText)
		} else {
			s = append(s, fmtAmount(d.Amount, c.AmtFmt))
		}
	}
	return strings.Join(s, ", ")
}

func outValues(t *reftx.Tx) (v []uint64) {
	for _, o := range t.Out {
		v = append(v, o.Value)
	}
	return
}

func outsList(o []reftx.Out) string {
	var s []string
	for _, x := range o {
		s = append(s, fmt.Sprintf("%d->%x", x.Value, x.Script))
	}
	return "[" + strings.Join(s, " ") + "]"
}
func outsString(t *reftx.Tx) string { return outsList(t.Out) }

func listedString(l []listedOut) string {
	var s []string
	for _, x := range l {
		k := x.Kind
		if k == "" {
			k = "foreign"
		}
		s = append(s, fmt.Sprintf("%s %d sat %s key %d", x.outpoint, x.Value, k, x.Key))
	}
	return "[" + strings.Join(s, "; ") + "]"
}

func kindsOf(l []listedOut) string {
	var s []string
	for _, x := range l {
		k := x.Kind
		if k == "" {
			k = "foreign"
		}
		s = append(s, k)
	}
	return strings.Join(s, "+")
}

// judgeValidity: every input (of the wallet's own when only is non-nil) passes
// gocoin's VerifyTxScript with standard flags AND the reference interpreter; with
// -rfc6979 every ECDSA signature equals the RFC 6979 reference signature.
func judgeValidity(id *identity, c *Case, ph, ctx string, tx *reftx.Tx, spent []reftx.Out, sl []listedOut, only []bool, res *result) bool {
	ok := true
	impl, pan, ref := verifyInputs(tx, spent)
	for i := range tx.In {
		if only != nil && !only[i] {
			continue
		}
		kind := scriptKind(spent[i].Script)
		res.inputs++
		switch {
		case pan[i] != "":
			res.fail(ph, "verify-panic/"+kind, fmt.Sprintf("%s: script.VerifyTxScript on input %d: %s", ctx, i, pan[i]))
			ok = false
		case impl[i] && ref[i].OK:
		case !impl[i] && !ref[i].OK:
			res.fail(ph, "input-signature-invalid/"+kind, fmt.Sprintf("%s: input %d (%s, %d sat, key %d) fails script verification with standard flags: reference says %s, VerifyTxScript says false%s", ctx, i, kind, spent[i].Value, sl[i].Key, ref[i].Err, diagnose(id, tx, spent, sl, i)))
			ok = false
		default:
			res.fail(ph, "verifiers-disagree/"+kind, fmt.Sprintf("%s: input %d (%s): VerifyTxScript=%v, reference interpreter=%v (%s)", ctx, i, kind, impl[i], ref[i].OK, ref[i].Err))
			ok = false
		}
		if c.RFC6979 {
			if sig, dg, _, k := ecdsaSigAndDigest(tx, spent, i); k && sl[i].Key >= 0 && len(sig) > 1 {
				r, s := refsig.ECDSASignRFC6979(id.Priv[sl[i].Key%nKeys], dg[:])
				want := append(refsig.SerializeDER(r, s), 1)
				res.rfcSigs++
				if !bytes.Equal(want, sig) {
					res.fail(ph, "rfc6979/signature-differs-from-reference/"+kind, fmt.Sprintf("%s: input %d: -rfc6979 signature %x, RFC 6979 (low-S, DER, SIGHASH_ALL) over digest %x gives %x", ctx, i, sig, dg, want))
					ok = false
				}
			}
		}
	}
	return ok
}

// diagnose adds, for an invalid signature, what the signature is valid for (root-cause hint).
func diagnose(id *identity, tx *reftx.Tx, spent []reftx.Out, sl []listedOut, i int) string {
	if scriptKind(spent[i].Script) == kP2TR {
		return ""
	}
	sig, dg, pub, ok := ecdsaSigAndDigest(tx, spent, i)
	if !ok || len(sig) < 2 {
		return "; no signature present"
	}
	if refsig.ECDSAVerifyLax(pub, sig[:len(sig)-1], dg[:]) {
		return "; the signature itself verifies for the revealed key over the correct digest (script-level failure)"
	}
	if sl[i].Key >= 0 {
		if p := id.Pub[sl[i].Key%nKeys]; !bytes.Equal(p, pub) {
			return fmt.Sprintf("; revealed public key %x differs from the public key %x of the private key", pub, p)
		}
	}
	// digest computed with another input's amount?
	for j := range spent {
		if j != i && scriptKind(spent[i].Script) != kP2PKH {
			h := refaddr.Hash160(pub)
			d2 := refhash.BIP143(tx, refaddr.P2PKHScript(h), spent[j].Value, i, 1)
			if refsig.ECDSAVerifyLax(pub, sig[:len(sig)-1], d2[:]) {
				return fmt.Sprintf("; the signature verifies over the BIP143 digest computed with the amount of input %d", j)
			}
		}
	}
	return "; the signature does not verify for the revealed key over the correct digest"
}

// judgeBalanceAfter: with apply2bal the spent outputs leave unspent.txt and only
// real outputs are listed; with -a=false the folder is untouched.
func judgeBalanceAfter(rq *request, ph, ctx string, tx *reftx.Tx, spentSet map[outpoint]bool, before, after map[string][]byte, res *result) {
	c := rq.c
	var balChanged []string
	cr, ch, rm := diffSnap(before, after)
	for _, f := range append(append(cr, ch...), rm...) {
		if strings.HasPrefix(f, "balance/") {
			balChanged = append(balChanged, f)
		}
	}
	if c.NoApply {
		if len(balChanged) > 0 {
			res.fail(ph, "no-apply/balance-folder-modified", fmt.Sprintf("%s: -a=false, but the balance folder was modified: %v", ctx, balChanged))
		}
		return
	}
	ops, badLines := parseUnspent(after["balance/unspent.txt"])
	if len(badLines) > 0 {
		res.note("unspent.txt after the run has unparsable lines")
	}
	txid := tx.TxID()
	orig := map[outpoint]bool{}
	for _, l := range rq.listed {
		orig[l.outpoint] = true
	}
	listedAfter := map[outpoint]bool{}
	for _, o := range ops {
		listedAfter[o] = true
		switch {
		case spentSet[o]:
			res.fail(ph, "balance-after/spent-output-still-listed", fmt.Sprintf("%s: %s was spent by the transaction and is still listed in balance/unspent.txt afterwards", ctx, o))
			return
		case orig[o]:
		case o.Prev == txid && int(o.Vout) < len(tx.Out):
			f := after["balance/"+revHex(txid)+".tx"]
			t2, _, err := reftx.DecodeTx(f)
			if err != nil || t2.TxID() != txid {
				res.fail(ph, "balance-after/new-transaction-file-wrong", fmt.Sprintf("%s: balance/%s.tx is missing or is not the written transaction (%v)", ctx, revHex(txid), err))
				return
			}
		default:
			res.fail(ph, "balance-after/unknown-outpoint-listed", fmt.Sprintf("%s: unspent.txt lists %s which is neither a previously listed output nor an output of the written transaction", ctx, o))
			return
		}
	}
	for o := range orig {
		if !spentSet[o] && !listedAfter[o] {
			res.note("an unspent output disappeared from unspent.txt")
		}
	}
}

// ---------------------------------------------------------------- -raw

func stripInput(in *reftx.In) {
	in.Script = nil
	in.Witness = nil
}

func cloneTx(t *reftx.Tx) *reftx.Tx {
	n := &reftx.Tx{Version: t.Version, LockTime: t.LockTime}
	for _, in := range t.In {
		x := in
		x.Script = append([]byte{}, in.Script...)
		if in.Witness != nil {
			x.Witness = make([][]byte, len(in.Witness))
			for i := range in.Witness {
				x.Witness[i] = append([]byte{}, in.Witness[i]...)
			}
		}
		n.In = append(n.In, x)
	}
	for _, o := range t.Out {
		n.Out = append(n.Out, reftx.Out{Value: o.Value, Script: append([]byte{}, o.Script...)})
	}
	return n
}

// rawVariant prepares the transaction offered with -raw.
func rawVariant(variant string, signed *reftx.Tx, spent []reftx.Out, sl []listedOut, listed []listedOut) (t *reftx.Tx, sp []reftx.Out, l []listedOut, ok bool) {
	t = cloneTx(signed)
	sp = append([]reftx.Out{}, spent...)
	l = append([]listedOut{}, sl...)
	n := len(t.In)
	switch variant {
	case "unsigned":
		for i := range t.In {
			stripInput(&t.In[i])
		}
	case "partial-first":
		if n < 2 {
			return nil, nil, nil, false
		}
		stripInput(&t.In[0])
	case "partial-last":
		if n < 2 {
			return nil, nil, nil, false
		}
		stripInput(&t.In[n-1])
	case "signed":
	case "tweaked":
		for i := range t.In {
			stripInput(&t.In[i])
			t.In[i].Sequence = uint32(3*i + 1)
		}
		t.Version = 0x7ffffffe
		t.LockTime = 499999999
	case "with-foreign":
		var f *listedOut
		for i := range listed {
			if listed[i].Kind == "" {
				f = &listed[i]
			}
		}
		if f == nil {
			return nil, nil, nil, false
		}
		for i := range t.In {
			stripInput(&t.In[i])
		}
		// somebody else's input, already validly signed by them, in front
		fin := reftx.In{Prev: f.Prev, Vout: f.Vout, Sequence: 0x12345678}
		t.In = append([]reftx.In{fin}, t.In...)
		sp = append([]reftx.Out{{Value: f.Value, Script: f.Script}}, sp...)
		l = append([]listedOut{*f}, l...)
		signForeign(t, sp, 0)
	default:
		ev.HarnessError("unknown raw variant %q", variant)
	}
	return t, sp, l, true
}

// signForeign puts the co-signer's valid SIGHASH_ALL / SIGHASH_DEFAULT signature on input i.
func signForeign(t *reftx.Tx, sp []reftx.Out, i int) {
	priv := foreignPriv()
	pub := refsig.PubkeyFromPriv(priv, true)
	h := refaddr.Hash160(pub)
	ecdsa := func(d [32]byte) []byte {
		r, s := refsig.ECDSASignRFC6979(priv, d[:])
		return append(refsig.SerializeDER(r, s), 1)
	}
	switch scriptKind(sp[i].Script) {
	case kP2PKH:
		sig := ecdsa(refhash.Legacy(t, sp[i].Script, i, 1))
		t.In[i].Script = append(refhash.PushData(sig), refhash.PushData(pub)...)
	case kP2W, kP2SH:
		if scriptKind(sp[i].Script) == kP2SH {
			t.In[i].Script = refhash.PushData(append([]byte{0, 20}, h...))
		}
		t.In[i].Witness = [][]byte{ecdsa(refhash.BIP143(t, refaddr.P2PKHScript(h), sp[i].Value, i, 1)), pub}
	case kP2TR:
		d, ok := refhash.Taproot(t, sp, i, 0, nil, nil)
		if !ok {
			ev.HarnessError("no taproot digest for the co-signer's input")
		}
		t.In[i].Witness = [][]byte{refsig.SchnorrSign(priv, d[:], tagHash("c13 aux"))}
	}
	if r := refscript.Verify(t.In[i].Script, sp[i].Script, t.In[i].Witness, refStdFlags, &refscript.Input{Tx: t, Idx: i, Amount: sp[i].Value, Spent: sp}); !r.OK {
		ev.HarnessError("the co-signer's own signature (%s input) does not verify: %s", scriptKind(sp[i].Script), r.Err)
	}
}

// judgeRaw: signing an offered raw transaction alters nothing but signatures, and
// signs every input the wallet owns validly.
func judgeRaw(id *identity, c *Case, variant string, offered *reftx.Tx, spent []reftx.Out, sl []listedOut, r runResult, before, after map[string][]byte, cmdline string, res *result) {
	ph := "raw"
	ctx := fmt.Sprintf("%s; %s; offered (%s) %x; balance: %s", cmdline, c.cfgLine(), variant, offered.Serialize(true), listedString(sl))
	if cr := crashed(r); cr != "" {
		res.fail(ph, "wallet-crash", fmt.Sprintf("%s: the wallet crashes: %s", ctx, cr))
		res.classes = append(res.classes, "raw:"+variant+":crash")
		return
	}
	name, content, _ := findTxFile(c, before, after)
	if name == "" {
		res.note("raw " + variant + ": nothing written: " + refusalClass(r))
		res.classes = append(res.classes, "raw:"+variant+":nothing-written")
		return
	}
	tx, err := decodeTxFile(content)
	if err != nil {
		res.fail(ph, "tx-file-undecodable", fmt.Sprintf("%s: %s does not hold a transaction: %v", ctx, name, err))
		return
	}
	res.written++
	ctx += fmt.Sprintf("; written %s = %s", name, strings.TrimSpace(string(content)))
	bad := false
	f := func(key, what string) {
		res.fail(ph, key, ctx+": "+what)
		bad = true
	}
	if tx.Version != offered.Version {
		f("version-altered", fmt.Sprintf("version %d became %d", offered.Version, tx.Version))
	}
	if tx.LockTime != offered.LockTime {
		f("locktime-altered", fmt.Sprintf("lock time %d became %d", offered.LockTime, tx.LockTime))
	}
	if len(tx.In) != len(offered.In) {
		f("input-count-altered", fmt.Sprintf("%d inputs became %d", len(offered.In), len(tx.In)))
		return
	}
	for i := range tx.In {
		if tx.In[i].Prev != offered.In[i].Prev || tx.In[i].Vout != offered.In[i].Vout {
			f("outpoint-altered", fmt.Sprintf("input %d spent %s, now %s", i, outpoint{offered.In[i].Prev, offered.In[i].Vout}, outpoint{tx.In[i].Prev, tx.In[i].Vout}))
			return
		}
		if tx.In[i].Sequence != offered.In[i].Sequence {
			f("sequence-altered", fmt.Sprintf("input %d had sequence %#x, now %#x", i, offered.In[i].Sequence, tx.In[i].Sequence))
			break
		}
	}
	if len(tx.Out) != len(offered.Out) {
		f("outputs-altered", fmt.Sprintf("outputs %s became %s", outsString(offered), outsString(tx)))
	} else {
		for i := range tx.Out {
			if tx.Out[i].Value != offered.Out[i].Value || !bytes.Equal(tx.Out[i].Script, offered.Out[i].Script) {
				f("outputs-altered", fmt.Sprintf("outputs %s became %s", outsString(offered), outsString(tx)))
				break
			}
		}
	}
	only := make([]bool, len(tx.In))
	for i := range sl {
		only[i] = ownedByWallet(c, &sl[i])
		if !only[i] && !sameSigData(&tx.In[i], &offered.In[i]) {
			was := refscript.Verify(offered.In[i].Script, spent[i].Script, offered.In[i].Witness, refStdFlags, &refscript.Input{Tx: offered, Idx: i, Amount: spent[i].Value, Spent: spent})
			is := refscript.Verify(tx.In[i].Script, spent[i].Script, tx.In[i].Witness, refStdFlags, &refscript.Input{Tx: tx, Idx: i, Amount: spent[i].Value, Spent: spent})
			foreignAltered(res, c, ctx, i, scriptKind(spent[i].Script), was.OK, is.OK)
		}
	}
	if !bad {
		if !judgeValidity(id, c, ph, ctx, tx, spent, sl, only, res) {
			bad = true
		}
	}
	for _, fn := range func() []string { a, b, d := diffSnap(before, after); return append(append(a, b...), d...) }() {
		if strings.HasPrefix(fn, "balance/") {
			res.note("raw: the balance folder was modified")
			break
		}
	}
	cls := fmt.Sprintf("raw:%s/in=%s", variant, kindsOf(sl))
	if bad {
		cls += "/BAD"
	}
	res.classes = append(res.classes, cls)
}

func sameSigData(a, b *reftx.In) bool {
	if !bytes.Equal(a.Script, b.Script) || len(a.Witness) != len(b.Witness) {
		return false
	}
	for i := range a.Witness {
		if !bytes.Equal(a.Witness[i], b.Witness[i]) {
			return false
		}
	}
	return true
}

// foreignAltered: -raw changed the signature data of an input that is not the
// wallet's. The statement's list of things -raw must leave alone names outputs,
// outpoints, sequences, version and lock time, not other signers' data, so this
// is recorded, not judged.
const judgeForeignSignatureData = false // the lead may promote the observation to a violation

func foreignAltered(res *result, c *Case, ctx string, i int, kind string, wasValid, isValid bool) {
	if judgeForeignSignatureData && wasValid && !isValid {
		res.fail("raw", "foreign-input-valid-signature-destroyed/"+kind, fmt.Sprintf("%s: input %d (%s, not the wallet's) verified in the offered transaction and does not verify in the written one", ctx, i, kind))
	}
	res.note(fmt.Sprintf("raw (atype %s): the signature data of a foreign %s input was replaced; it verified before: %v, verifies afterwards: %v", c.AType, kind, wasValid, isValid))
	if wasValid && !isValid && res.foreignBroken == "" {
		res.foreignBroken = fmt.Sprintf("%s: input %d (%s, not the wallet's) verified in the offered transaction and does not verify in the written one", ctx, i, kind)
	}
}

// ---------------------------------------------------------------- one Case, all phases

func setupDir(base string, id *identity, c *Case, files map[string][]byte) string {
	dir, err := os.MkdirTemp(base, "c")
	if err != nil {
		ev.HarnessError("%v", err)
	}
	os.WriteFile(filepath.Join(dir, "wallet.cfg"), []byte(c.cfgText()), 0o644)
	os.WriteFile(filepath.Join(dir, ".secret"), []byte(id.Pass), 0o600)
	writeFiles(dir, files)
	return dir
}

func execCase(base string, id *identity, c *Case) *result {
	if c.MS != nil {
		return execMS(base, c)
	}
	res := &result{}
	fo := buildFolder(id, c)
	args, extra := sendArgs(id, c)
	files := map[string][]byte{}
	for k, v := range fo.Files {
		files[k] = v
	}
	for k, v := range extra {
		files[k] = v
	}
	dir := setupDir(base, id, c, files)
	defer os.RemoveAll(dir)
	before := snapshot(dir)
	r := runWallet(dir, args...)
	res.runs++
	after := snapshot(dir)
	rq := &request{c: c, files: fo.Files, listed: fo.Listed, phase: "send", label: "send"}
	cmd := shellQuote(args)
	if b, ok := extra["batch.txt"]; ok {
		cmd += fmt.Sprintf(" [batch.txt = %q]", b)
	}
	tx, spent, sl := judgeSend(id, rq, r, before, after, cmd, res)
	res.sample = map[string]interface{}{"case": c, "command": cmd, "exit": r.exit}
	if tx != nil {
		res.sample["written"] = hex.EncodeToString(tx.Serialize(true))
	}
	if tx == nil || spent == nil {
		return res
	}
	// ---- the produced transaction re-offered with -raw
	for _, variant := range c.Raw {
		off, sp, l, ok := rawVariant(variant, tx, spent, sl, fo.Listed)
		if !ok {
			continue
		}
		rfiles := map[string][]byte{}
		for k, v := range fo.Files {
			rfiles[k] = v
		}
		if c.RawBinary {
			rfiles["offered.bin"] = off.Serialize(true)
		} else {
			rfiles["offered.txt"] = []byte(hex.EncodeToString(off.Serialize(true)))
		}
		rdir := setupDir(base, id, c, rfiles)
		rargs := []string{"-raw", map[bool]string{true: "offered.bin", false: "offered.txt"}[c.RawBinary]}
		if c.RawFlags {
			rargs = append(rargs, "-seq", "7", "-locktime", "9", "-txver", "1")
		}
		if c.RFC6979 {
			rargs = append(rargs, "-rfc6979")
		}
		if c.TxFn != "" {
			rargs = append(rargs, "-txfn", c.TxFn)
		}
		rb := snapshot(rdir)
		rr := runWallet(rdir, rargs...)
		res.runs++
		ra := snapshot(rdir)
		judgeRaw(id, c, variant, off, sp, l, rr, rb, ra, shellQuote(rargs), res)
		os.RemoveAll(rdir)
	}
	// ---- chain: spend the balance folder the wallet left behind, completely
	if c.Chain && !c.NoApply {
		chain(base, id, c, dir, fo, tx, after, res)
	}
	return res
}

// chain runs a second request on the balance folder updated by the wallet: all
// remaining funds go to a foreign address. Its listed outputs are what
// unspent.txt now names; their values and scripts come from the first transaction
// and the original folder.
func chain(base string, id *identity, c *Case, dir string, fo *folder, tx1 *reftx.Tx, after1 map[string][]byte, res *result) {
	ops, _ := parseUnspent(after1["balance/unspent.txt"])
	txid := tx1.TxID()
	var listed []listedOut
	for _, o := range ops {
		var l *listedOut
		for i := range fo.Listed {
			if fo.Listed[i].outpoint == o {
				x := fo.Listed[i]
				l = &x
			}
		}
		if l == nil && o.Prev == txid && int(o.Vout) < len(tx1.Out) {
			out := tx1.Out[o.Vout]
			l = &listedOut{outpoint: o, Value: out.Value, Script: out.Script, Key: -1}
			if k, key, ok := id.ownScript(out.Script); ok {
				l.Kind, l.Key = k, key
			}
		}
		if l == nil {
			return // already reported by judgeBalanceAfter
		}
		listed = append(listed, *l)
	}
	c2 := &Case{Idx: c.Idx, Family: c.Family, Type: c.Type, AType: c.AType, Testnet: c.Testnet, Layout: c.Layout, AmtFmt: "full", Via: "send",
		Fee: c.Fee, FeeVia: c.FeeVia, UseAll: true, RFC6979: c.RFC6979, TxFn: "chain.txt", NoApply: true}
	rq := &request{c: c2, files: after1, listed: listed, phase: "send", label: "chain"}
	m := makeModel(rq)
	if m.total <= m.fee {
		res.classes = append(res.classes, "chain:nothing-left")
		return
	}
	c2.Dests = []Dest{{Kind: "f-p2wpkh", Key: 1, Amount: m.total - m.fee}}
	args, _ := sendArgs(id, c2)
	// the tx file of the first run stays; the chain run writes chain.txt
	before := snapshot(dir)
	r := runWallet(dir, args...)
	res.runs++
	after := snapshot(dir)
	judgeSend(id, rq, r, before, after, shellQuote(args)+" (second run on the balance folder left by: "+res.sample["command"].(string)+")", res)
}

func sortedKeys(m map[string]int) []string {
	var k []string
	for x := range m {
		k = append(k, x)
	}
	sort.Strings(k)
	return k
}
