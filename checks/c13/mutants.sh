#!/bin/bash
# Demonstrates detection: applies each /verif/mutants/C13-*.patch (or the patches in $1)
# to a scratch worktree of the repository and runs the quick tier against it.
# Prints the violation keys per mutant. Never touches /repo.
set -u
export GOFLAGS=-mod=mod GOPROXY=off GOSUMDB=off GOTOOLCHAIN=local
PDIR="${1:-/verif/mutants}"
WT=/tmp/wt-c13-mut; OUT=/tmp/out-c13-mut
git -C /repo worktree remove --force "$WT" 2>/dev/null
git -C /repo worktree add --detach "$WT" HEAD >/dev/null 2>&1 || exit 2
for p in "$PDIR"/C13-*.patch; do
  git -C "$WT" checkout -q . 
  if ! git -C "$WT" apply "$p"; then echo "$(basename "$p"): PATCH DOES NOT APPLY"; continue; fi
  if ! (cd "$WT" && go build -o /dev/null ./wallet && go vet ./wallet ./lib/btc ./lib/secp256k1) >/dev/null 2>&1; then echo "$(basename "$p"): DOES NOT COMPILE"; continue; fi
  rm -rf "$OUT"
  VERIF_REPO="$WT" VERIF_OUT="$OUT" timeout 900 /verif/run.sh c13 --tier quick > "$OUT.log" 2>&1
  rc=$?
  echo "$(basename "$p"): exit $rc: $(grep -c '^VIOLATION' "$OUT.log") violation keys: $(grep '^  key=' "$OUT.log" | sed 's/  key=//' | tr '\n' ' ')"
done
git -C /repo worktree remove --force "$WT"; rm -rf "$OUT" "$OUT.log"
