package main

// Family "batch file layouts": the -batch file in every layout a text file
// plausibly has. The oracle is the one of every -send/-batch case, with the
// destinations being ALL payment lines of the file: the wallet either refuses
// (nothing written, no file touched) or the written transaction pays every
// payment line exactly its amount - never a silent subset.

import (
	"fmt"
	"strings"
)

type BatchLayout struct {
	EOL          string `json:"eol"`           // lf | crlf
	FinalNewline bool   `json:"final_newline"` // the last line is terminated
	Blank        string `json:"blank"`         // none | start | after-first | before-last | end | several
	BlankKind    string `json:"blank_kind"`    // empty | spaces | tab
	Comment      string `json:"comment"`       // none | with-eq | without-eq | hash-only
	CommentPos   string `json:"comment_pos"`   // start | between | end
	Pad          string `json:"pad"`           // none | lead-space | trail-space | lead-tab | trail-tab | space-before-eq | space-after-eq | spaces-around-eq
	PadLine      int    `json:"pad_line"`      // payment line that carries the padding
}

func (b *BatchLayout) String() string {
	if b == nil {
		return "default"
	}
	return fmt.Sprintf("eol=%s final-newline=%v blank=%s/%s comment=%s@%s pad=%s@%d", b.EOL, b.FinalNewline, b.Blank, b.BlankKind, b.Comment, b.CommentPos, b.Pad, b.PadLine)
}

// text renders the file for the payment lines (address, typed amount).
func (b *BatchLayout) text(pay [][2]string) string {
	if b == nil {
		var l []string
		for _, p := range pay {
			l = append(l, p[0]+"="+p[1])
		}
		return "# c13 batch file, address=amount per line\n" + strings.Join(l, "\n") + "\n"
	}
	n := len(pay)
	var lines []string
	blank := map[string]string{"empty": "", "spaces": "   ", "tab": "\t"}[b.BlankKind]
	comment := map[string]string{"with-eq": "# payout run 7: total=3", "without-eq": "# payout run 7", "hash-only": "#"}[b.Comment]
	// slot s is the gap before payment line s (slot n = after the last line)
	blankAt := map[int]bool{}
	switch b.Blank {
	case "start":
		blankAt[0] = true
	case "after-first":
		blankAt[1] = true
	case "before-last":
		blankAt[n-1] = true
	case "end":
		blankAt[n] = true
	case "several":
		blankAt[0], blankAt[(n+1)/2], blankAt[n] = true, true, true
	}
	commentAt := -1
	if b.Comment != "" && b.Comment != "none" {
		commentAt = map[string]int{"start": 0, "between": (n + 1) / 2, "end": n}[b.CommentPos]
	}
	for s := 0; s <= n; s++ {
		if commentAt == s {
			lines = append(lines, comment)
		}
		if blankAt[s] {
			lines = append(lines, blank)
		}
		if s == n {
			break
		}
		a, v := pay[s][0], pay[s][1]
		l := a + "=" + v
		if s == b.PadLine%n {
			switch b.Pad {
			case "lead-space":
				l = "  " + l
			case "trail-space":
				l = l + "  "
			case "lead-tab":
				l = "\t" + l
			case "trail-tab":
				l = l + "\t"
			case "space-before-eq":
				l = a + " =" + v
			case "space-after-eq":
				l = a + "= " + v
			case "spaces-around-eq":
				l = a + " = " + v
			}
		}
		lines = append(lines, l)
	}
	eol := "\n"
	if b.EOL == "crlf" {
		eol = "\r\n"
	}
	t := strings.Join(lines, eol)
	if b.FinalNewline {
		t += eol
	}
	return t
}

// typed renders the amount of a destination in its number format.
func (d *Dest) typed(c *Case) string {
	if d.AmountText != "" {
		return d.AmountText
	}
	full := fmtAmount(d.Amount, "full")
	switch d.Form {
	case "":
		return fmtAmount(d.Amount, c.AmtFmt)
	case "full", "short":
		return fmtAmount(d.Amount, d.Form)
	case "trailing-dot": // "1."
		if d.Amount%100000000 == 0 {
			return fmt.Sprintf("%d.", d.Amount/100000000)
		}
	case "leading-zero": // "00.00000600"
		return "0" + full
	case "no-int-part": // ".00000600"
		if d.Amount < 100000000 {
			return full[1:]
		}
	case "nine-decimals": // "0.000006000"
		return full + "0"
	case "integer": // "1"
		if d.Amount%100000000 == 0 {
			return fmt.Sprint(d.Amount / 100000000)
		}
	}
	return full
}

var plainForms = []string{"full", "short", "trailing-dot", "leading-zero", "integer"}
var oddForms = []string{"no-int-part", "nine-decimals"}

// batchFamily: full product of payment-line count x blank-line position x blank
// kind x line ending x final newline; comments, padding, number formats,
// duplicate addresses, destination kinds, -send alongside and the wallet
// configuration cycle (thorough: each member of the product also with every
// comment form and with every padding form); plus, for files without blank lines,
// the product of line count x line ending x final newline x comment form
// (x padding form in thorough).
func batchFamily(startIdx int, thorough bool) []*Case {
	var out []*Case
	atypes := []string{"p2kh", "segwit", "bech32", "tap"}
	destKinds := []string{"f-p2pkh", "f-p2wpkh", "f-p2sh", "f-p2tr", "f-p2wsh", "own:cfg"}
	amts := []uint64{100000000, 600, 25000000, 546, 12345678}
	comments := [][2]string{{"none", "start"}, {"with-eq", "start"}, {"with-eq", "between"}, {"without-eq", "start"}, {"hash-only", "between"}, {"with-eq", "end"}, {"without-eq", "end"}}
	pads := []string{"none", "lead-space", "trail-space", "lead-tab", "trail-tab", "space-before-eq", "space-after-eq", "spaces-around-eq"}
	n := 0
	add := func(nl int, b *BatchLayout) {
		at := atypes[n%4]
		k := kindOfAtype[at]
		c := &Case{Idx: startIdx + len(out), Family: "batch-layouts", Type: 3 + (n/4)%2, AType: at, Testnet: (n/8)%2 == 1, Layout: "sep", AmtFmt: "full", Via: "batch",
			Utxos: []Utxo{{k, 0, 100000000}, {k, 1, 100000000}}, Batch: b, NoApply: n%3 == 0}
		for i := 0; i < nl; i++ {
			dk := destKinds[(i+n)%len(destKinds)]
			key := (i + n) % nKeys
			if n%5 == 4 && i > 0 && i%2 == 0 {
				// a duplicate address (another amount)
				dk, key = c.Dests[i-2].Kind, c.Dests[i-2].Key
			} else if dk == "own:cfg" {
				dk = "own:" + k
			}
			// mostly the formats every version accepts, so that the layout itself decides;
			// one case in nine carries one of the other formats on one line
			form := plainForms[(i+n)%len(plainForms)]
			if n%9 == 8 && i == nl-1 {
				form = oddForms[(n/9)%len(oddForms)]
			}
			c.Dests = append(c.Dests, Dest{Kind: dk, Key: key, Amount: amts[i], Form: form})
		}
		if nl >= 2 && n%7 == 3 {
			c.Via = "both" // the first payment on the command line, the rest in the file
		}
		out = append(out, c)
		n++
	}
	blanks := []string{"none", "start", "after-first", "before-last", "end", "several"}
	for nl := 1; nl <= 5; nl++ {
		for _, bl := range blanks {
			kinds := []string{"empty", "spaces", "tab"}
			if bl == "none" {
				kinds = []string{"empty"}
			}
			for _, bk := range kinds {
				for _, eol := range []string{"lf", "crlf"} {
					for _, fin := range []bool{true, false} {
						// quick: mostly the comment and padding forms that do not decide the outcome
						// themselves; every eleventh / thirteenth case one of the others
						cps := [][2]string{[][2]string{comments[0], comments[1], comments[2], comments[5]}[n%4]}
						pps := []string{pads[(n/4)%3]}
						if n%11 == 10 {
							cps = [][2]string{[][2]string{comments[3], comments[4], comments[6]}[(n/11)%3]}
						}
						if n%13 == 12 {
							pps = []string{pads[3+(n/13)%5]}
						}
						if !thorough {
							add(nl, &BatchLayout{EOL: eol, FinalNewline: fin, Blank: bl, BlankKind: bk, Comment: cps[0][0], CommentPos: cps[0][1], Pad: pps[0], PadLine: n})
							continue
						}
						// thorough: every comment form (padding cycling) and every padding form (comments cycling)
						for _, cp := range comments {
							add(nl, &BatchLayout{EOL: eol, FinalNewline: fin, Blank: bl, BlankKind: bk, Comment: cp[0], CommentPos: cp[1], Pad: pads[n%3], PadLine: n})
						}
						for _, pd := range pads {
							cp := comments[[]int{0, 1, 2, 5}[n%4]]
							add(nl, &BatchLayout{EOL: eol, FinalNewline: fin, Blank: bl, BlankKind: bk, Comment: cp[0], CommentPos: cp[1], Pad: pd, PadLine: n})
						}
					}
				}
			}
		}
	}
	// layouts without blank lines (the ones the unchanged parser accepts): the full
	// product of line count x line ending x final newline x comment form, padding cycling
	for nl := 1; nl <= 5; nl++ {
		for _, eol := range []string{"lf", "crlf"} {
			for _, fin := range []bool{true, false} {
				for _, cp := range comments {
					pps := []string{pads[n%len(pads)]}
					if thorough {
						pps = pads
					}
					for _, pd := range pps {
						add(nl, &BatchLayout{EOL: eol, FinalNewline: fin, Blank: "none", BlankKind: "empty", Comment: cp[0], CommentPos: cp[1], Pad: pd, PadLine: n})
					}
				}
			}
		}
	}
	return out
}
