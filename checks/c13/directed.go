package main

import "fmt"

// directed returns hand-specified cases that the product and the pairwise array
// do not contain: minimal forms of requests at the edges of the amount range, and
// wallets whose first key has a small Y coordinate (the compressed-key parity
// defect fixed in e65a5e2e; passwords found by checks/c14).
func directed(startIdx int) []*Case {
	var out []*Case
	add := func(c *Case) {
		c.Idx = startIdx + len(out)
		if c.Layout == "" {
			c.Layout = "sep"
		}
		if c.AmtFmt == "" {
			c.AmtFmt = "full"
		}
		if c.Via == "" {
			c.Via = "send"
		}
		out = append(out, c)
	}
	const coin = 100000000
	for i, k := range kinds {
		// -f with the first amount below / equal to / just above the fee
		for _, a := range []uint64{1, defaultFee - 1, defaultFee, defaultFee + 1} {
			add(&Case{Family: "directed-subfee", Type: 3 + i%2, AType: atypeOfKind[k], Utxos: []Utxo{{k, 0, coin}},
				Dests: []Dest{{Kind: "f-p2pkh", Key: 1, Amount: a}}, SubFee: true, Raw: []string{"unsigned"}})
		}
		// requests whose total wraps around 2^64
		add(&Case{Family: "directed-wrap", Type: 3 + i%2, AType: atypeOfKind[k], Utxos: []Utxo{{k, 0, coin}},
			Dests: []Dest{{Kind: "f-p2pkh", Key: 1, Amount: 1<<64 - 1}, {Kind: "f-p2wpkh", Key: 2, Amount: defaultFee + 1}}})
		add(&Case{Family: "directed-wrap", Type: 3 + i%2, AType: atypeOfKind[k], Testnet: true, Utxos: []Utxo{{k, 1, coin}, {k, 2, 546}},
			Dests: []Dest{{Kind: "f-p2tr", Key: 1, Amount: 1 << 63}, {Kind: "own:" + k, Key: 2, Amount: 1 << 63}, {Kind: "f-p2sh", Key: 3, Amount: 5000}}, Via: "both"})
		add(&Case{Family: "directed-wrap", Type: 3 + i%2, AType: atypeOfKind[k], Utxos: []Utxo{{k, 0, coin}},
			Dests: []Dest{{Kind: "f-p2pkh", Key: 1, Amount: 1<<64 - defaultFee}}})
		// balance + 1 and the whole money supply
		add(&Case{Family: "directed-wrap", Type: 3 + i%2, AType: atypeOfKind[k], Utxos: []Utxo{{k, 0, coin}},
			Dests: []Dest{{Kind: "f-p2pkh", Key: 1, Amount: 21000000 * coin}}})
	}
	// a typed amount of exactly 2^64 satoshi
	add(&Case{Family: "directed-wrap", Type: 3, AType: "p2kh", Utxos: []Utxo{{kP2PKH, 0, coin}},
		Dests: []Dest{{Kind: "f-p2pkh", Key: 1, AmountText: "184467440737.09551616"}}, Fee: "0", FeeVia: "flag"})
	add(&Case{Family: "directed-wrap", Type: 4, AType: "bech32", Utxos: []Utxo{{kP2W, 0, coin}},
		Dests: []Dest{{Kind: "f-p2pkh", Key: 1, AmountText: "184467440738"}, {Kind: "f-p2tr", Key: 2, Amount: 1000}}, Via: "batch"})
	// wallets whose key 0 has Y < 2^244 (with the parity fix reverted, "c14 parity 15874"
	// and "c14 parity t3 7214" get the wrong compressed public key)
	for i, n := range []int{15874, 775} {
		for j, k := range kinds {
			add(&Case{Family: "directed-small-y-key", Type: 4, AType: atypeOfKind[k], Testnet: (i+j)%2 == 1, Pass: fmt.Sprint("c14 parity ", n),
				Utxos: []Utxo{{k, 0, coin}, {kinds[(j+1)%4], 0, 100000}}, Dests: []Dest{{Kind: "f-p2wpkh", Key: 1, Amount: coin / 2}}, UseAll: true,
				Raw: []string{"unsigned"}, Chain: true})
		}
	}
	for i, n := range []int{7214, 2899} {
		for j, k := range kinds {
			add(&Case{Family: "directed-small-y-key", Type: 3, AType: atypeOfKind[k], Testnet: (i+j)%2 == 0, Pass: fmt.Sprint("c14 parity t3 ", n),
				Utxos: []Utxo{{k, 0, coin}}, Dests: []Dest{{Kind: "own:" + k, Key: 0, Amount: coin / 4}}, Raw: []string{"unsigned", "signed"}, Chain: true})
		}
	}
	// minimal balance folders of the record-shapes family: one unspent output of a
	// big payout transaction at an output index on each side of a digit-count boundary
	for i, vo := range []int{7, 99, 100, 999, 1000, 2345, 9999, 10000} {
		for j, sh := range []string{"node", "bare", "wallet"} {
			k := kinds[(i+j)%len(kinds)]
			add(&Case{Family: "directed-records", Type: 3, AType: atypeOfKind[k], Layout: "payout", Vouts: []int{vo}, RecShape: sh,
				Utxos: []Utxo{{k, 0, coin}}, Dests: []Dest{{Kind: "f-p2pkh", Key: 1, Amount: coin / 2}}, Chain: j == 0})
		}
	}
	// destinations and change addresses of future witness versions (Bech32m, versions 2, 15, 16,
	// program lengths 2, 20, 32, 40): the output script is OP_n <program>, OP_16 = 0x60
	for i, k := range kinds {
		for j, fk := range []string{"f-wit2", "f-wit15", "f-wit16-short", "f-wit16-long"} {
			add(&Case{Family: "directed-future-witness", Type: 3 + (i+j)%2, AType: atypeOfKind[k], Testnet: (i+j)%2 == 1,
				Utxos: []Utxo{{k, 0, coin}}, Dests: []Dest{{Kind: fk, Key: 1, Amount: coin / 4}, {Kind: "f-p2pkh", Key: 2, Amount: 1000}}})
			add(&Case{Family: "directed-future-witness", Type: 3 + (i+j)%2, AType: atypeOfKind[k], Testnet: (i+j)%2 == 0,
				Utxos: []Utxo{{k, 0, coin}}, Dests: []Dest{{Kind: "f-p2pkh", Key: 2, Amount: coin / 4}}, Change: fk, ChKey: 3})
		}
	}
	// an altered transaction file in the balance folder (stored under the id of the real one,
	// value raised), in the plain and in the witness serialisation, alone and behind an honest file
	for i, k := range kinds {
		for j, tm := range []string{"plain", "witness"} {
			for _, lay := range []string{"sep", "sepwit", "shared"} {
				add(&Case{Family: "directed-altered-file", Type: 3 + (i+j)%2, AType: atypeOfKind[k], Testnet: (i+j)%2 == 1, Layout: lay, Tamper: tm,
					Utxos: []Utxo{{k, 0, coin}, {k, 1, coin / 2}}, Dests: []Dest{{Kind: "f-p2pkh", Key: 1, Amount: coin * 3}}})
				add(&Case{Family: "directed-altered-file", Type: 3 + (i+j)%2, AType: atypeOfKind[k], Testnet: (i+j)%2 == 0, Layout: lay, Tamper: tm,
					Utxos: []Utxo{{k, 0, coin}}, Dests: []Dest{{Kind: "f-p2wpkh", Key: 1, Amount: coin / 2}}})
			}
		}
	}
	// a co-signed transaction: somebody else's input of every kind, validly signed,
	// offered with -raw under every atype
	for i, at := range []string{"p2kh", "segwit", "bech32", "tap"} {
		for j, fk := range kinds {
			k := kindOfAtype[at]
			add(&Case{Family: "directed-cosigner", Type: 3 + (i+j)%2, AType: at, Testnet: (i+j)%3 == 0, ForeignFirst: true, ForeignKind: fk,
				Utxos: []Utxo{{k, 1, coin}}, Dests: []Dest{{Kind: "f-p2wpkh", Key: 1, Amount: coin / 2}}, Raw: []string{"with-foreign"}})
		}
	}
	return out
}
