// C13: wallet-built transactions pay exactly what was asked and are fully valid.
//
// Bounded-exhaustive exploration of the wallet BINARY: balance folders x requests
// x wallet configurations (full product over the most interacting dimensions plus
// a pairwise-complete array over all dimensions), every produced transaction
// re-offered with -raw (unsigned, partially signed, signed, with altered
// version/locktime/sequences, with a foreign input) and the balance folder the
// wallet leaves behind spent once more. Oracle: an accounting model written from
// the statement, refaddr for destination scripts, gocoin's VerifyTxScript with
// standard flags AND the independent interpreter refscript for every input,
// refsig's RFC 6979 signer for -rfc6979.
//
// Mutants this check must kill (patches in /verif/mutants/C13-*.patch, runner
// checks/c13/mutants.sh): change computed without the fee; funds check ignoring
// the fee; -f applied to every pair; default change to the first listed output
// even if foreign; BIP143 amount taken from the first input; last of three inputs
// left unsigned; taproot digest for SIGHASH_ALL signed without the type byte;
// Schnorr signing without negating the key of an odd-Y point; compressed public
// key parity fix reverted (directed small-Y wallets); -rfc6979 ignored; -locktime
// ignored; -raw applying -seq / resetting the lock time; spent output kept in
// unspent.txt.
package main

import (
	"encoding/json"
	"flag"
	"fmt"
	"os"
	"runtime"
	"sort"
	"strings"
	"sync"
	"time"

	"github.com/piotrnar/gocoin/lib/script"

	"verif/internal/ev"
	"verif/ref/refaddr"
	"verif/ref/refhash"
	"verif/ref/refscript"
	"verif/ref/refsig"
)

var replayFile = flag.String("replay", "", "replay one recorded case (no explorer)")

type idKey struct {
	typ     int
	testnet bool
	pass    string
}

var (
	idMu  sync.Mutex
	idMap = map[idKey]*identity{}
)

func identityFor(base string, c *Case) *identity {
	k := idKey{c.Type, c.Testnet, c.Pass}
	idMu.Lock()
	defer idMu.Unlock()
	if id, ok := idMap[k]; ok {
		return id
	}
	pass := c.Pass
	if pass == "" {
		pass = passOf(c.Type, c.Testnet)
	}
	id := makeIdentity(base, c.Type, c.Testnet, pass)
	idMap[k] = id
	return id
}

func quiet() {
	if dn, err := os.OpenFile("/dev/null", os.O_WRONLY, 0); err == nil {
		os.Stdout = dn
	}
	script.DBG_ERR = false
}

func selfchecks() map[string]int {
	out := map[string]int{}
	va, err := refaddr.Selfcheck(ev.Repo())
	if err != nil {
		ev.HarnessError("reference refaddr fails its vectors: %v", err)
	}
	for _, v := range va {
		out["refaddr_vectors"] += v
	}
	vs, err := refsig.SelfTest(ev.Repo())
	if err != nil {
		ev.HarnessError("reference refsig fails its vectors: %v", err)
	}
	for _, v := range vs {
		out["refsig_vectors"] += v
	}
	rows, err := refhash.SelfCheck(ev.Repo())
	if err != nil {
		ev.HarnessError("reference refhash fails its vectors: %v", err)
	}
	out["refhash_sighash_rows"] = rows
	cf, err := refscript.SelfCheck(ev.Repo())
	if err != nil {
		ev.HarnessError("reference refscript: %v", err)
	}
	if len(cf.Disagreements) > 0 {
		ev.HarnessError("reference refscript disagrees with the repository's vectors: %s", strings.Join(cf.Disagreements, "; "))
	}
	out["refscript_script_tests_rows"] = cf.ScriptRows
	out["refscript_tx_valid_rows"] = cf.TxValidRows
	out["refscript_tx_invalid_rows"] = cf.TxInvalidRows
	return out
}

type done struct {
	c   *Case
	res *result
}

func runAll(base string, cases []*Case, r *ev.Run) []done {
	out := make([]done, len(cases))
	var wg sync.WaitGroup
	ch := make(chan int)
	nw := runtime.NumCPU()
	for w := 0; w < nw; w++ {
		wg.Add(1)
		go func() {
			defer wg.Done()
			for i := range ch {
				c := cases[i]
				out[i] = done{c, execCase(base, identityFor(base, c), c)}
			}
		}()
	}
	// the small targeted families run first, the big product last: if the budget cap
	// fires on an overloaded machine it cuts the tail of the product, not a family
	var order []int
	for i, c := range cases {
		if c.Family != "product" {
			order = append(order, i)
		}
	}
	for i, c := range cases {
		if c.Family == "product" {
			order = append(order, i)
		}
	}
	for n, i := range order {
		if r != nil && n%64 == 0 && r.OverBudget() {
			break
		}
		ch <- i
	}
	close(ch)
	wg.Wait()
	return out
}

func replay(base, file string) {
	b, err := os.ReadFile(file)
	if err != nil {
		ev.HarnessError("%v", err)
	}
	var rp struct {
		Key    string `json:"key"`
		Replay struct {
			Case *Case `json:"case"`
		} `json:"replay"`
	}
	if err := json.Unmarshal(b, &rp); err != nil || rp.Replay.Case == nil {
		ev.HarnessError("bad replay file: %v", err)
	}
	c := rp.Replay.Case
	res := execCase(base, identityFor(base, c), c)
	fmt.Fprintf(ev.Out, "replay of %s\n  case: %s\n  command: %v\n  binary runs: %d, transactions judged: %d, inputs verified: %d\n", rp.Key, c.label(), res.sample["command"], res.runs, res.written, res.inputs)
	fmt.Fprintf(ev.Out, "  outcome classes: %v\n", res.classes)
	hit := false
	for _, f := range res.findings {
		fmt.Fprintf(ev.Out, "  FINDING %s: %s\n", f.Key, f.What)
		if f.Key == rp.Key {
			hit = true
		}
	}
	os.RemoveAll(base)
	if hit || (rp.Key == "" && len(res.findings) > 0) {
		fmt.Fprintln(ev.Out, "replay: the recorded violation reproduces")
		os.Exit(1)
	}
	fmt.Fprintln(ev.Out, "replay: the recorded violation does not occur")
	os.Exit(0)
}

func main() {
	r := ev.Start("C13", "exploration")
	quiet()
	base := ev.Scratch("c13")
	defer os.RemoveAll(base)
	buildWallet(base)
	if *replayFile != "" {
		replay(base, *replayFile)
		return
	}
	t0 := time.Now()
	vec := selfchecks()
	fmt.Fprintf(os.Stderr, "selfchecks %.1fs\n", time.Since(t0).Seconds())
	if r.Thorough() {
		r.Budget = 27 * time.Minute
	} else {
		r.Budget = 170 * time.Second
	}
	sp := makeSpace(r.Thorough())
	var cases []*Case
	prodDims := []int{dInSeq, dAmtClass, dFee, dSubFee, dChange}
	if !r.Thorough() {
		// quick: reduced alphabets in the product (the pairwise array still uses every value)
		q := *sp
		q.fee = []feeMode{sp.fee[0], sp.fee[1], sp.fee[2]}
		q.change = []string{"", "own:cfg", "f-p2pkh"}
		q.amtClass = []string{"exact", "change1", "short1", "one", "half", "total", "firstexact", "belowfee"}
		cases = append(cases, q.product(prodDims, "product", 0)...)
	} else {
		q := *sp
		q.fee = []feeMode{sp.fee[0], sp.fee[1], sp.fee[2]}
		q.change = []string{"", "own:cfg", "f-p2pkh", "own:p2tr"}
		cases = append(cases, q.product(prodDims, "product", 0)...)
	}
	nProduct := len(cases)
	pairsTotal := 0
	nArrays := 1
	if r.Thorough() {
		nArrays = 3
	}
	for a := 0; a < nArrays; a++ {
		pc, pairs := sp.pairwise(fmt.Sprintf("pairwise-%d", a), len(cases), a*7)
		pairsTotal = pairs
		cases = append(cases, pc...)
	}
	nPairwise := len(cases) - nProduct
	nRecords := len(cases)
	cases = append(cases, sp.recordFamily("record-shapes", len(cases), r.Thorough())...)
	nRecords = len(cases) - nRecords
	nBatch := len(cases)
	cases = append(cases, batchFamily(len(cases), r.Thorough())...)
	nBatch = len(cases) - nBatch
	nMS := len(cases)
	cases = append(cases, multisigFamily(len(cases), r.Thorough())...)
	nMS = len(cases) - nMS
	cases = append(cases, directed(len(cases))...)

	t0 = time.Now()
	results := runAll(base, cases, r)
	fmt.Fprintf(os.Stderr, "%d cases in %.1fs\n", len(cases), time.Since(t0).Seconds())

	// ---- collect
	type cand struct {
		idx int
		f   finding
	}
	byKey := map[string]cand{}
	keyCount := map[string]int{}
	classes := map[string]int{}
	notes := map[string]int{}
	famCount := map[string]int{}
	var runs, written, inputs, rfc, evaluated, foreignCx int
	foreignExample := ""
	samples := &ev.Samples{N: 8}
	sampleClass := map[string]bool{}
	for i, d := range results {
		if d.res == nil {
			continue
		}
		evaluated++
		famCount[d.c.Family]++
		runs += d.res.runs
		written += d.res.written
		inputs += d.res.inputs
		rfc += d.res.rfcSigs
		for _, cl := range d.res.classes {
			classes[cl]++
		}
		for _, n := range d.res.notes {
			notes[n]++
		}
		if d.res.foreignBroken != "" && (foreignExample == "" || d.c.complexity() < foreignCx) {
			foreignExample, foreignCx = d.res.foreignBroken, d.c.complexity()
		}
		for _, f := range d.res.findings {
			keyCount[f.Key]++
			// the simplest case that shows a key is the one reported
			if o, ok := byKey[f.Key]; !ok || d.c.complexity() < cases[o.idx].complexity() {
				byKey[f.Key] = cand{i, f}
			}
		}
		if len(d.res.classes) > 0 && !sampleClass[d.res.classes[0]] && len(d.res.findings) == 0 {
			sampleClass[d.res.classes[0]] = true
			samples.Add(d.res.sample)
		}
	}
	// ---- every violation is re-executed once more before it is reported
	var keys []string
	for k := range byKey {
		keys = append(keys, k)
	}
	sort.Strings(keys)
	for _, k := range keys {
		cd := byKey[k]
		c := cases[cd.idx]
		res2 := execCase(base, identityFor(base, c), c)
		runs += res2.runs
		again := false
		for _, f := range res2.findings {
			if f.Key == k {
				again = true
			}
		}
		if !again {
			r.Unrepro = append(r.Unrepro, fmt.Sprintf("%s (case %d): %s", k, cd.idx, cd.f.What))
			fmt.Fprintf(os.Stderr, "UNREPRODUCIBLE %s case %d\n", k, cd.idx)
			continue
		}
		r.Report(k, fmt.Sprintf("%s [%d cases of this run show it; first: case %d of family %s]", cd.f.What, keyCount[k], c.Idx, c.Family),
			map[string]interface{}{"case": c})
	}
	distinct := 0
	for cl := range classes {
		if !strings.Contains(cl, "crash") {
			distinct++
		}
	}
	os.RemoveAll(base) // Finish and HarnessError exit without running deferred calls
	if written == 0 || inputs == 0 {
		ev.HarnessError("vacuous run: no transaction was written and judged")
	}
	idMu.Lock()
	addrOK, addrAll := 0, 0
	for _, id := range idMap {
		addrOK += id.AddrOK
		addrAll += nKeys * len(kinds)
	}
	idMu.Unlock()
	cov := map[string]interface{}{
		"evaluations":         evaluated,
		"binary_runs":         runs,
		"distinct_nontrivial": distinct,
		"rule": "a case is non-trivial when the wallet binary either wrote a transaction that was decoded and whose inputs were judged by both script verifiers, or refused the request; " +
			"distinct_nontrivial counts distinct outcome classes (phase, kinds of the spent inputs in order, number of outputs, change present, message present / refusal class / raw variant)",
		"cases_by_family":                   famCount,
		"product_cases":                     nProduct,
		"pairwise_cases":                    nPairwise,
		"batch_layout_cases":                nBatch,
		"raw_multisig_cases":                nMS,
		"record_shape_cases":                nRecords,
		"pairwise_value_pairs_covered":      pairsTotal,
		"dimension_sizes":                   sp.describe(),
		"transactions_written_and_judged":   written,
		"inputs_verified_by_both_verifiers": inputs,
		"rfc6979_signatures_compared":       rfc,
		"outcome_classes":                   classes,
		"not_judged_example_foreign_signature_destroyed_by_raw": foreignExample,
		"not_judged_observations":                               notes,
		"violating_cases_by_key":                                keyCount,
		"reference_vectors_validated":                           vec,
		"listed_addresses_equal_reference":                      fmt.Sprintf("%d of %d", addrOK, addrAll),
		"samples":                                               samples.L,
	}
	r.Finish(cov, []string{
		"oracle: accounting model written from the statement (inputs are listed outputs; each destination script = refaddr decode of the typed address with the typed amount, minus the fee for the first -send pair under -f; change = inputs - payments - fee to the -change address or to any of the wallet's own scripts; zero change means no change output); reference packages refaddr, reftx, refhash, refsig, refscript validated against every vector file of the repository at start",
		"validity: every input must pass script.VerifyTxScript with script.STANDARD_VERIFY_FLAGS|VER_DIS_TAPVER|VER_SIGPUSHONLY and refscript.Verify with Core's STANDARD_SCRIPT_VERIFY_FLAGS|SIGPUSHONLY; random-nonce signatures are judged on validity only; with -rfc6979 ECDSA signatures must equal refsig.ECDSASignRFC6979 (low-S, strict DER, SIGHASH_ALL) over the refhash digest",
		"family record-shapes (plus the layout 'payout', the record-shape and output-index dimensions of the product and the pairwise array): one funding transaction with 1200..65592 outputs, all paying the wallet's keys with pairwise different values, of which only the outputs at indexes on both sides of every digit-count boundary (0, 9, 10, 99, 100, 999, 1000, 1001, 2345, 9999, 10000, ...) are listed, an index and its truncations both listed and unlisted; records in the shapes the node export, the wallet's own writer, a Windows editor and a person produce; the spent outpoints are compared with the listed set exactly and first",
		"family batch file layouts: -batch files with 1..5 payment lines (different amounts, duplicate addresses, every number format: full, short, integer, '1.', '00.x', '.x', nine decimals) in the full product of blank-line position (none, start, after the first, before the last, end, several) x blank kind (empty, spaces, tab) x LF/CRLF x with/without final newline, with comment lines (with '=', without '=', bare '#') at the start / between / end and spaces or tabs around the line, the address and the amount; the destinations of the model are ALL payment lines: the wallet either refuses (nothing written, no file modified) or pays every line exactly - a transaction paying a subset is a violation (destination-not-paid-exactly)",
		"family -raw on multisig P2SH inputs: M-of-N redeem scripts for (M,N) in {(1,1),(1,2),(2,2),(2,3),(3,3),(1,3),(3,5)} inserted with the wallet's own -p2sh step; hold: the wallet holds k = 0..N of the keys (first / last positions, derived and .others keys), an external co-signer has already contributed 0, 1 or all other signatures, one -raw run; chain: the co-signers (one wallet, or two wallets of different type) sign with -raw ... -msign <addr> in every order (N = 5: ten orders in quick, all 120 in thorough), in half of the chains the first step is a plain -raw run; multisig input alone, next to an own input, or two multisig inputs. Judged after every run: the -raw clause against the unsigned transaction, and - as soon as at least M distinct keys have contributed - validity of the input under VerifyTxScript and refscript with standard flags (NULLDUMMY included); the wallet's messages are recorded only",
		"-raw with a co-signer: a foreign input of each kind carrying the co-signer's VALID signature is part of the offered transaction; that -raw replaces it (observed for foreign P2TR inputs under atype bech32/tap) is recorded in not_judged_observations with an example - the statement's list of what -raw must preserve does not name other signers' data (const judgeForeignSignatureData promotes it)",
		"the balance folder is synthesised the way the node writes it: balance/<txid>.tx holds the raw funding transaction (legacy or witness serialisation), balance/unspent.txt one '<txid>-<vout> # <amount> BTC @ <addr>, block <h>' line per output; keys and addresses come from the binary itself (-l under each atype, -dump *)",
		"ownership: P2PKH, P2WPKH and P2TR outputs of the wallet's keys are owned under every atype; a P2SH-P2WPKH output is recognised by the wallet only while atype is p2kh or segwit (under bech32/tap it is skipped as foreign) - the model follows that, the statement quantifies over owned outputs",
		"the wallet's taproot addresses commit to the untweaked public key (no BIP341 tweak); key-path validity is judged for that output key",
		"-f reduces the first pair given with -send; lines of a -batch file are never reduced; a first amount below the fee is unsatisfiable and must write nothing",
		"a refusal although funds suffice, the encoding of the -msg data carrier, own outputs missing from unspent.txt afterwards and changes to foreign inputs' signature data under -raw are recorded in not_judged_observations, not judged",
		"balance folder afterwards: with apply2bal no spent outpoint may remain listed and every listed outpoint must be an original one or an output of the written transaction (whose file must be stored); with -a=false and after a refusal the folder must be untouched; the chain phase spends the folder the wallet left behind completely and judges that transaction the same way",
		"pairwise coverage is over the choice vectors; the builder normalises a few combinations (one destination with via=both becomes via=send; chain is off with -a=false)",
	})
}
