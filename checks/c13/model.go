package main

// The member of the explored family (Case), the synthesis of the balance folder
// the node would have produced, and the rendering of the command line.

import (
	"crypto/sha256"
	"encoding/hex"
	"fmt"
	"os"
	"path/filepath"
	"strconv"
	"strings"

	"verif/internal/ev"
	"verif/ref/refaddr"
	"verif/ref/refsig"
	"verif/ref/reftx"
)

type Utxo struct {
	Kind   string `json:"kind"` // p2pkh | p2sh-p2wpkh | p2wpkh | p2tr
	Key    int    `json:"key"`
	Amount uint64 `json:"amount"`
}

type Dest struct {
	Kind   string `json:"kind"` // own:<kind> | f-p2pkh | f-p2sh | f-p2wpkh | f-p2wsh | f-p2tr
	Key    int    `json:"key"`
	Amount uint64 `json:"amount"` // as typed on the command line (before -f)
	// AmountText, when set, is typed verbatim; it denotes an amount of at least 2^64 satoshi
	AmountText string `json:"amount_text,omitempty"`
	// Form selects a number format for this amount ("" = the case's amount_format)
	Form string `json:"form,omitempty"`
}

// Case is one member: wallet configuration x balance folder x request.
type Case struct {
	Idx     int    `json:"index"`
	Family  string `json:"family"`
	Type    int    `json:"type"`
	AType   string `json:"atype"`
	Testnet bool   `json:"testnet"`
	Pass    string `json:"password,omitempty"` // "" = the family's standard password

	Utxos        []Utxo `json:"utxos"`
	Layout       string `json:"layout"`                 // sep | shared | sepwit | payout
	Vouts        []int  `json:"vouts,omitempty"`        // payout: output index of each unspent output in the one big funding transaction
	RecShape     string `json:"record_shape,omitempty"` // shape of the unspent.txt records ("" = node)
	ForeignFirst bool   `json:"foreign_first"`          // a listed output of somebody else's in front
	ForeignKind  string `json:"foreign_kind,omitempty"` // script kind of that output ("" = p2pkh)
	Tamper       string `json:"tamper,omitempty"`       // plain | witness: the stored transaction of the first owned output was altered (its value raised tenfold) and is stored in that format under the old id

	Dests   []Dest `json:"dests"`
	AmtFmt  string `json:"amount_format"` // full | short
	Via     string `json:"via"`           // send | batch | both
	Fee     string `json:"fee"`           // "" = wallet default (0.001)
	FeeVia  string `json:"fee_via"`       // flag | cfg
	SubFee  bool   `json:"subfee"`        // -f
	Change  string `json:"change"`        // "" | dest kind
	ChKey   int    `json:"change_key"`
	Msg     string `json:"msg"`
	Seq     *int   `json:"seq"`
	Lock    *uint  `json:"locktime"`
	TxVer   *uint  `json:"txver"`
	UseAll  bool   `json:"useallinputs"`
	RFC6979 bool   `json:"rfc6979"`
	TxFn    string `json:"txfn"`
	NoApply bool   `json:"no_apply"` // -a=false

	Raw       []string `json:"raw"`        // re-offers of the produced transaction: unsigned | partial-first | partial-last | signed | tweaked
	RawFlags  bool     `json:"raw_flags"`  // give -seq/-locktime/-txver on the -raw command line too
	RawBinary bool     `json:"raw_binary"` // offer the raw transaction as a binary file instead of hex
	Chain     bool     `json:"chain"`      // afterwards spend the updated balance folder completely

	Batch *BatchLayout `json:"batch_layout,omitempty"` // text layout of the -batch file (nil = one comment line, LF, final newline)

	MS *MSCase `json:"multisig,omitempty"` // family "-raw on multisig P2SH inputs" (then only type/atype/testnet/rfc6979 above apply)
}

func (c *Case) label() string {
	if c.MS != nil {
		return fmt.Sprintf("type%d/%s/testnet=%v multisig %s", c.Type, c.AType, c.Testnet, c.MS.label())
	}
	var u, d []string
	for _, x := range c.Utxos {
		u = append(u, fmt.Sprintf("%s/k%d/%d", x.Kind, x.Key, x.Amount))
	}
	for _, x := range c.Dests {
		d = append(d, fmt.Sprintf("%s/k%d=%d", x.Kind, x.Key, x.Amount))
	}
	lay := c.Layout
	if c.Layout == "payout" {
		lay = fmt.Sprintf("payout%v", c.Vouts)
	}
	if c.RecShape != "" {
		lay += " records=" + c.RecShape
	}
	return fmt.Sprintf("type%d/%s/testnet=%v utxos[%s %s ff=%v] dests[%s]", c.Type, c.AType, c.Testnet, strings.Join(u, ","), lay, c.ForeignFirst, strings.Join(d, ","))
}

const defaultFee = 100000

func parseAmount(s string) uint64 {
	p := strings.SplitN(s, ".", 2)
	w, err := strconv.ParseUint(p[0], 10, 64)
	if err != nil {
		ev.HarnessError("bad amount %q in the family definition", s)
	}
	v := w * 100000000
	if len(p) == 2 {
		f := p[1] + strings.Repeat("0", 8-len(p[1]))
		x, err := strconv.ParseUint(f, 10, 64)
		if err != nil || len(p[1]) > 8 {
			ev.HarnessError("bad amount %q in the family definition", s)
		}
		v += x
	}
	return v
}

func (c *Case) fee() uint64 {
	if c.Fee == "" {
		return defaultFee
	}
	return parseAmount(c.Fee)
}

func fmtAmount(v uint64, form string) string {
	s := fmt.Sprintf("%d.%08d", v/100000000, v%100000000)
	if form == "short" {
		s = strings.TrimRight(s, "0")
		s = strings.TrimSuffix(s, ".")
	}
	return s
}

func tagHash(parts ...interface{}) []byte {
	h := sha256.Sum256([]byte(fmt.Sprint(parts...)))
	return h[:]
}

// destAddr returns the address string typed on the command line for a destination kind.
func destAddr(id *identity, kind string, key int) string {
	hrp := hrpOf(id.Testnet)
	if strings.HasPrefix(kind, "own:") {
		return id.Addr[kind[4:]][key%nKeys]
	}
	h := tagHash("c13 foreign ", kind, key)
	var a string
	var err error
	switch kind {
	case "f-p2pkh":
		a = refaddr.EncodeP2PKH(h[:20], id.Testnet)
	case "f-p2sh":
		a = refaddr.EncodeP2SH(h[:20], id.Testnet)
	case "f-p2wpkh":
		a, err = refaddr.EncodeSegwit(hrp, 0, h[:20])
	case "f-p2wsh":
		a, err = refaddr.EncodeSegwit(hrp, 0, h)
	case "f-p2tr":
		x, _ := refsig.XOnlyFromPriv(h)
		if x == nil {
			ev.HarnessError("foreign taproot key")
		}
		a, err = refaddr.EncodeSegwit(hrp, 1, x)
	case "f-wit2":
		a, err = refaddr.EncodeSegwit(hrp, 2, h)
	case "f-wit16-short":
		a, err = refaddr.EncodeSegwit(hrp, 16, h[:2])
	case "f-wit16-long":
		a, err = refaddr.EncodeSegwit(hrp, 16, append(append([]byte{}, h...), h[:8]...))
	case "f-wit15":
		a, err = refaddr.EncodeSegwit(hrp, 15, h[:20])
	default:
		ev.HarnessError("unknown destination kind %q", kind)
	}
	if err != nil {
		ev.HarnessError("encoding a foreign address: %v", err)
	}
	return a
}

func revHex(h [32]byte) string {
	b := make([]byte, 32)
	for i := range b {
		b[i] = h[31-i]
	}
	return hex.EncodeToString(b)
}

type outpoint struct {
	Prev [32]byte
	Vout uint32
}

func (o outpoint) String() string { return fmt.Sprintf("%s-%03d", revHex(o.Prev), o.Vout) }

// listedOut: one line of balance/unspent.txt with the output it refers to.
type listedOut struct {
	outpoint
	Value  uint64
	Script []byte
	Kind   string // "" for a foreign output
	Key    int
}

// folder is the synthesised balance folder.
type folder struct {
	Files  map[string][]byte // relative path -> content
	Listed []listedOut
}

// the co-signer: somebody else's key, whose output may be listed in front and
// whose (valid) signature is on the transaction offered with -raw
func foreignPriv() []byte { return tagHash("c13 foreign co-signer key") }

func foreignKeyScript(kind string) []byte {
	pub := refsig.PubkeyFromPriv(foreignPriv(), true)
	h := refaddr.Hash160(pub)
	switch kind {
	case "", kP2PKH:
		return refaddr.P2PKHScript(h)
	case kP2SH:
		return refaddr.P2SHScript(refaddr.Hash160(append([]byte{0, 20}, h...)))
	case kP2W:
		return refaddr.WitnessScript(0, h)
	case kP2TR:
		return refaddr.WitnessScript(1, pub[1:])
	}
	ev.HarnessError("unknown foreign kind %q", kind)
	return nil
}

func foreignScript(tag string) []byte {
	return refaddr.P2PKHScript(tagHash("c13 foreign utxo ", tag)[:20])
}

// buildFolder creates, for each owned unspent output, the funding transaction
// the node would have stored (raw, named by txid) and the unspent.txt listing.
func buildFolder(id *identity, c *Case) *folder {
	f := &folder{Files: map[string][]byte{}}
	fund := func(tag string, outs []reftx.Out, wit bool) *reftx.Tx {
		t := &reftx.Tx{Version: 1}
		var p [32]byte
		copy(p[:], tagHash("c13 funding input ", tag))
		in := reftx.In{Prev: p, Vout: 1, Script: []byte{2, 0x51, 0x51}, Sequence: 0xfffffffe}
		if wit {
			in.Script = nil
			in.Witness = [][]byte{{1, 2, 3}, tagHash("c13 witness ", tag)}
		}
		t.In = []reftx.In{in}
		t.Out = outs
		f.Files["balance/"+revHex(t.TxID())+".tx"] = t.Serialize(wit)
		return t
	}
	add := func(t *reftx.Tx, vout int, u *Utxo) {
		lo := listedOut{outpoint: outpoint{t.TxID(), uint32(vout)}, Value: t.Out[vout].Value, Script: t.Out[vout].Script, Key: -1}
		if u != nil {
			lo.Kind, lo.Key = u.Kind, u.Key
		}
		f.Listed = append(f.Listed, lo)
	}
	if c.ForeignFirst {
		t := fund("foreign-first", []reftx.Out{{Value: 100000000, Script: foreignKeyScript(c.ForeignKind)}}, false)
		add(t, 0, nil)
	}
	scr := func(u Utxo) []byte { return id.Script[u.Kind][u.Key%nKeys] }
	switch c.Layout {
	case "shared":
		outs := []reftx.Out{{Value: 777, Script: foreignScript("shared0")}}
		for _, u := range c.Utxos {
			outs = append(outs, reftx.Out{Value: u.Amount, Script: scr(u)})
		}
		t := fund("shared", outs, false)
		for i := range c.Utxos {
			add(t, i+1, &c.Utxos[i])
		}
	case "sep", "sepwit":
		for i := range c.Utxos {
			u := c.Utxos[i]
			if c.Layout == "sepwit" {
				t := fund(fmt.Sprint("sepwit", i), []reftx.Out{{Value: 12345, Script: foreignScript("sepwit0")}, {Value: u.Amount, Script: scr(u)}}, true)
				add(t, 1, &c.Utxos[i])
			} else {
				t := fund(fmt.Sprint("sep", i), []reftx.Out{{Value: u.Amount, Script: scr(u)}}, false)
				add(t, 0, &c.Utxos[i])
			}
		}
	case "payout":
		// one big funding transaction (an exchange payout, a mining pool): every output
		// pays one of the wallet's keys, all values differ, most outputs were spent long
		// ago; only the outputs at c.Vouts are still unspent and listed
		if len(c.Vouts) < len(c.Utxos) {
			ev.HarnessError("payout layout needs an output index per unspent output")
		}
		n := 1200
		at := map[int]int{}
		for j := range c.Utxos {
			if _, dup := at[c.Vouts[j]]; dup || c.Vouts[j] < 0 {
				ev.HarnessError("payout layout: bad output indexes %v", c.Vouts)
			}
			at[c.Vouts[j]] = j
			if c.Vouts[j]+57 > n {
				n = c.Vouts[j] + 57
			}
		}
		outs := make([]reftx.Out, n)
		for i := range outs {
			if j, ok := at[i]; ok {
				outs[i] = reftx.Out{Value: c.Utxos[j].Amount, Script: scr(c.Utxos[j])}
			} else {
				outs[i] = reftx.Out{Value: uint64(1000000 + 100*i), Script: id.Script[kinds[i%len(kinds)]][i%nKeys]}
			}
		}
		t := fund("payout", outs, false)
		for j := range c.Utxos {
			add(t, c.Vouts[j], &c.Utxos[j])
		}
	default:
		ev.HarnessError("unknown layout %q", c.Layout)
	}
	if c.Tamper != "" {
		// the file no longer hashes to the id it is stored under: the wallet has nothing it can
		// trust about that output (amounts are not part of a legacy signature's protection for the signer)
		for _, l := range f.Listed {
			if l.Key < 0 {
				continue
			}
			name := "balance/" + revHex(l.Prev) + ".tx"
			t, _, err := reftx.DecodeTx(f.Files[name])
			if err != nil {
				ev.HarnessError("tamper: %v", err)
			}
			t.Out[l.Vout].Value *= 10
			if c.Tamper == "witness" {
				t.In[0].Script = nil
				t.In[0].Witness = [][]byte{{1, 2, 3}}
				f.Files[name] = t.Serialize(true)
			} else {
				t.In[0].Witness = nil
				if len(t.In[0].Script) == 0 {
					t.In[0].Script = []byte{2, 0x51, 0x51}
				}
				f.Files[name] = t.Serialize(false)
			}
			break
		}
	}
	var sb strings.Builder
	for i, l := range f.Listed {
		a, _ := refaddr.ScriptToAddress(l.Script, id.Testnet)
		sb.WriteString(recordLine(c.RecShape, l, a, i))
	}
	txt := sb.String()
	if c.RecShape == "no-final-newline" {
		txt = strings.TrimSuffix(txt, "\n")
	}
	f.Files["balance/unspent.txt"] = []byte(txt)
	return f
}

// recordShapes: the forms in which a record of balance/unspent.txt reaches the
// wallet. node = lib/utxo UnspentTextLine (client web UI export, tools/balio);
// node-label = the same with the wallet name / label / virgin marker the node
// appends; wallet = what wallet/unspent.go apply_to_balance writes for a new output;
// bare / bare-space = a record without label, as typed and as the wallet rewrites
// it (TxPrevOut.String() + " " + empty label); crlf = the export after passing a
// Windows editor; unpadded = a hand-written record whose index is not padded to
// three digits; no-final-newline = the last line is not terminated.
var recordShapes = []string{"node", "node-label", "wallet", "bare", "bare-space", "crlf", "unpadded", "no-final-newline"}

func recordLine(shape string, l listedOut, addr string, i int) string {
	op := l.outpoint.String() // <txid>-%03d, as TxPrevOut.String() prints it
	amt := fmtAmount(l.Value, "full")
	switch shape {
	case "", "node", "no-final-newline":
		return fmt.Sprintf("%s # %s BTC @ %s, block %d\n", op, amt, addr, 100+i)
	case "node-label":
		return fmt.Sprintf("%s # %s BTC @ %s c13wallet: TypC %d ***, block %d\n", op, amt, addr, i+1, 100+i)
	case "wallet":
		return fmt.Sprintf("%s # %s BTC @ %s\n", op, amt, addr)
	case "bare":
		return op + "\n"
	case "bare-space":
		return op + " \n"
	case "crlf":
		return fmt.Sprintf("%s # %s BTC @ %s, block %d\r\n", op, amt, addr, 100+i)
	case "unpadded":
		return fmt.Sprintf("%s-%d # %s BTC @ %s, block %d\n", revHex(l.Prev), l.Vout, amt, addr, 100+i)
	}
	ev.HarnessError("unknown record shape %q", shape)
	return ""
}

func writeFiles(dir string, files map[string][]byte) {
	for rel, b := range files {
		p := filepath.Join(dir, rel)
		os.MkdirAll(filepath.Dir(p), 0o755)
		if err := os.WriteFile(p, b, 0o644); err != nil {
			ev.HarnessError("%v", err)
		}
	}
}

// ownedByWallet: which listed outputs the wallet can spend under the configuration.
// P2SH-P2WPKH outputs are recognised only while atype is p2kh or segwit (under
// bech32/tap the wallet's table of "segwit" addresses holds the native forms); the
// statement quantifies over *owned* outputs, so such an output simply is not owned
// in that configuration (recorded as an assumption).
func ownedByWallet(c *Case, l *listedOut) bool {
	if l.Kind == "" {
		return false
	}
	if l.Kind == kP2SH && (c.AType == "bech32" || c.AType == "tap") {
		return false
	}
	return true
}

// sendArgs renders the command line of the -send/-batch run; extra files (batch) are returned.
func sendArgs(id *identity, c *Case) (args []string, files map[string][]byte) {
	files = map[string][]byte{}
	var pairs [][2]string
	for _, d := range c.Dests {
		pairs = append(pairs, [2]string{destAddr(id, d.Kind, d.Key), d.typed(c)})
	}
	var viaSend, viaBatch [][2]string
	switch c.Via {
	case "batch":
		viaBatch = pairs
	case "both":
		viaSend, viaBatch = pairs[:1], pairs[1:]
	default:
		viaSend = pairs
	}
	if len(viaSend) > 0 {
		var l []string
		for _, p := range viaSend {
			l = append(l, p[0]+"="+p[1])
		}
		args = append(args, "-send", strings.Join(l, ","))
	}
	if len(viaBatch) > 0 {
		files["batch.txt"] = []byte(c.Batch.text(viaBatch))
		args = append(args, "-batch", "batch.txt")
	}
	if c.Fee != "" && c.FeeVia != "cfg" {
		args = append(args, "-fee", c.Fee)
	}
	if c.SubFee {
		args = append(args, "-f")
	}
	if c.Change != "" {
		args = append(args, "-change", destAddr(id, c.Change, c.ChKey))
	}
	if c.Msg != "" {
		args = append(args, "-msg", c.Msg)
	}
	args = append(args, txFlags(c)...)
	if c.UseAll {
		args = append(args, "-useallinputs")
	}
	if c.RFC6979 {
		args = append(args, "-rfc6979")
	}
	if c.TxFn != "" {
		args = append(args, "-txfn", c.TxFn)
	}
	if c.NoApply {
		args = append(args, "-a=false")
	}
	return
}

func txFlags(c *Case) (args []string) {
	if c.Seq != nil {
		args = append(args, "-seq", strconv.Itoa(*c.Seq))
	}
	if c.Lock != nil {
		args = append(args, "-locktime", strconv.FormatUint(uint64(*c.Lock), 10))
	}
	if c.TxVer != nil {
		args = append(args, "-txver", strconv.FormatUint(uint64(*c.TxVer), 10))
	}
	return
}

func (c *Case) wantSeq() uint32 {
	if c.Seq == nil {
		return 0xfffffffd // documented default -3
	}
	return uint32(int32(*c.Seq))
}

func (c *Case) wantLock() uint32 {
	if c.Lock == nil {
		return 0
	}
	return uint32(*c.Lock)
}

func (c *Case) wantVer() uint32 {
	if c.TxVer == nil {
		return 2
	}
	return uint32(*c.TxVer)
}

func (c *Case) cfgText() string {
	extra := ""
	if c.Fee != "" && c.FeeVia == "cfg" {
		extra = "fee=" + c.Fee + "\n"
	}
	return cfgFile(c.Type, c.AType, c.Testnet, extra)
}

// shellQuote renders a reproducible command line for reports.
func shellQuote(args []string) string {
	var o []string
	for _, a := range args {
		if a == "" || strings.ContainsAny(a, " ,='\"*#") {
			a = "'" + strings.ReplaceAll(a, "'", "'\\''") + "'"
		}
		o = append(o, a)
	}
	return "wallet " + strings.Join(o, " ")
}

// complexity orders cases for reporting: fewer outputs, destinations and options first.
func (c *Case) complexity() int {
	if c.MS != nil {
		n := 10*len(c.MS.Keys) + 5*len(c.MS.Steps) + 3*len(c.MS.PreSigned)
		if c.MS.Struct != "single" {
			n += 4
		}
		for _, k := range c.MS.Keys {
			if k.Owner != "A" {
				n++
			}
		}
		return n
	}
	n := 10*len(c.Utxos) + 10*len(c.Dests) + 3*len(c.Raw)
	for _, b := range []bool{c.ForeignFirst, c.Layout != "sep", c.RecShape != "" && c.RecShape != "node", c.AmtFmt != "full", c.Via != "send", c.Fee != "", c.SubFee, c.Change != "", c.Msg != "",
		c.Seq != nil, c.Lock != nil, c.TxVer != nil, c.UseAll, c.RFC6979, c.TxFn != "", c.NoApply, c.RawFlags, c.RawBinary, c.Chain, c.Testnet, c.Type != 3} {
		if b {
			n++
		}
	}
	return n
}
