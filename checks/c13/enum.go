package main

// The explored space: typed alphabets per dimension, a total builder
// (every choice vector is a well-formed Case), the full product over the most
// interacting dimensions and a deterministic greedy pairwise-complete array.

import (
	"fmt"
	"sort"
	"strings"
)

// dimensions
const (
	dType = iota
	dAType
	dTestnet
	dInSeq
	dAmtPat
	dLayout
	dForeignFirst
	dKeyPat
	dDestPat
	dAmtClass
	dFee
	dSubFee
	dChange
	dMsg
	dSeq
	dLock
	dTxVer
	dUseAll
	dRFC
	dVia
	dTxFn
	dNoApply
	dAmtFmt
	dRaw
	dRawFlags
	dRawBin
	dChain
	dRecShape
	dVoutPat
	dForeignKind
	nDims
)

var dimNames = [nDims]string{"type", "atype", "testnet", "input-kinds", "input-amounts", "layout", "foreign-first", "keys", "destinations",
	"amount-class", "fee", "subfee", "change", "msg", "seq", "locktime", "txver", "useallinputs", "rfc6979", "via", "txfn", "no-apply", "amount-format",
	"raw", "raw-flags", "raw-binary", "chain", "record-shape", "payout-output-indexes", "foreign-kind"}

var amounts = []uint64{1, 546, 100000, 100000000}

type feeMode struct {
	Fee, Via string
}

type space struct {
	types    []int
	atypes   []string
	testnet  []bool
	inSeq    [][]string // kind sequences of the balance folder
	amtPat   [][]int    // per position index into amounts (cyclic)
	layout   []string
	ff       []bool
	keyPat   []string // distinct | same | rev
	destPat  [][]string
	amtClass []string
	fee      []feeMode
	subfee   []bool
	change   []string // "" | own:cfg | own:<kind> | f-*
	msg      []string
	seq      []*int
	lock     []*uint
	txver    []*uint
	useall   []bool
	rfc      []bool
	via      []string
	txfn     []string
	noapply  []bool
	amtfmt   []string
	raw      [][]string
	rawflags []bool
	rawbin   []bool
	chain    []bool
	recShape []string
	voutPat  [][]int // payout layout: output index of the j-th unspent output
}

func (s *space) sizes() [nDims]int {
	return [nDims]int{len(s.types), len(s.atypes), len(s.testnet), len(s.inSeq), len(s.amtPat), len(s.layout), len(s.ff), len(s.keyPat), len(s.destPat),
		len(s.amtClass), len(s.fee), len(s.subfee), len(s.change), len(s.msg), len(s.seq), len(s.lock), len(s.txver), len(s.useall), len(s.rfc),
		len(s.via), len(s.txfn), len(s.noapply), len(s.amtfmt), len(s.raw), len(s.rawflags), len(s.rawbin), len(s.chain), len(s.recShape), len(s.voutPat), len(kinds)}
}

func ip(v int) *int   { return &v }
func up(v uint) *uint { return &v }
func ks(s string) []string {
	var o []string
	for _, c := range s {
		o = append(o, map[rune]string{'K': kP2PKH, 'S': kP2SH, 'W': kP2W, 'R': kP2TR}[c])
	}
	return o
}

func allSeqs(maxLen int) (o []string) {
	var rec func(p string)
	rec = func(p string) {
		if len(p) > 0 {
			o = append(o, p)
		}
		if len(p) == maxLen {
			return
		}
		for _, c := range "KSWR" {
			rec(p + string(c))
		}
	}
	rec("")
	sort.Slice(o, func(i, j int) bool {
		if len(o[i]) != len(o[j]) {
			return len(o[i]) < len(o[j])
		}
		return o[i] < o[j]
	})
	return
}

func perms4() (o []string) {
	var rec func(p, rest string)
	rec = func(p, rest string) {
		if rest == "" {
			o = append(o, p)
			return
		}
		for i := range rest {
			rec(p+string(rest[i]), rest[:i]+rest[i+1:])
		}
	}
	rec("", "KSWR")
	return
}

func makeSpace(thorough bool) *space {
	s := &space{
		types:    []int{3, 4},
		atypes:   []string{"p2kh", "segwit", "bech32", "tap"},
		testnet:  []bool{false, true},
		layout:   []string{"sep", "shared", "sepwit", "payout"},
		ff:       []bool{false, true},
		keyPat:   []string{"distinct", "same", "rev"},
		subfee:   []bool{false, true},
		useall:   []bool{false, true},
		rfc:      []bool{false, true},
		via:      []string{"send", "batch", "both"},
		txfn:     []string{"", "signed.txt"},
		noapply:  []bool{false, true},
		amtfmt:   []string{"full", "short"},
		raw:      [][]string{{"unsigned"}, {"unsigned", "signed"}, {"partial-first", "partial-last", "unsigned"}, {"tweaked", "with-foreign"}},
		rawflags: []bool{false, true},
		rawbin:   []bool{false, true},
		chain:    []bool{false, true},
	}
	s.recShape = recordShapes
	// output indexes at every digit-count boundary; within a pattern an index and its
	// truncations / neighbours occur both listed and unlisted
	s.voutPat = [][]int{{1000, 7, 42, 999}, {0, 9, 10, 99}, {100, 999, 1001, 1000}, {2345, 1000, 234, 100}, {9999, 10000, 99, 1}, {1001, 100, 10, 1}, {10000, 1000, 100, 10}}
	if thorough {
		s.voutPat = append(s.voutPat, []int{12345, 1234, 123, 12}, []int{999, 99, 9, 0}, []int{65535, 6553, 655, 65}, []int{1999, 199, 19, 2000})
	}
	var seqs []string
	if thorough {
		seqs = append(allSeqs(3), perms4()...)
		seqs = append(seqs, "KKKK", "SSSS", "WWWW", "RRRR")
	} else {
		seqs = []string{"K", "S", "W", "R", "KS", "SW", "WR", "RK", "KW", "SR", "RR", "KSWR", "RWSK", "WRK", "SKR"}
	}
	for _, q := range seqs {
		s.inSeq = append(s.inSeq, ks(q))
	}
	s.amtPat = [][]int{{3}, {0, 1, 2, 3}, {3, 2, 1, 0}, {1}, {2}, {0}}
	if thorough {
		for a := 0; a < 4; a++ {
			for b := 0; b < 4; b++ {
				if a != b {
					s.amtPat = append(s.amtPat, []int{a, b})
				}
			}
		}
	}
	s.destPat = [][]string{{"f-p2pkh"}, {"f-p2sh"}, {"f-p2wpkh"}, {"f-p2wsh"}, {"f-p2tr"}, {"own:cfg"},
		{"f-p2pkh", "f-p2tr"}, {"own:p2tr", "f-p2wpkh", "f-p2sh"}, {"f-p2wsh", "own:p2pkh", "own:p2wpkh"}, {"f-p2tr", "f-p2tr"}}
	if thorough {
		s.destPat = append(s.destPat, []string{"own:p2pkh"}, []string{"own:p2sh-p2wpkh"}, []string{"own:p2wpkh"}, []string{"own:p2tr"},
			[]string{"f-p2sh", "f-p2wsh"}, []string{"own:p2sh-p2wpkh", "f-p2pkh"}, []string{"f-p2wpkh", "own:cfg"},
			[]string{"f-p2pkh", "f-p2sh", "f-p2wpkh"}, []string{"f-p2wsh", "f-p2tr", "own:cfg"}, []string{"own:cfg", "own:cfg", "own:cfg"})
	}
	s.amtClass = []string{"exact", "change1", "short1", "one", "dust", "half", "total", "over", "firstexact", "firstplus1", "belowfee"}
	s.fee = []feeMode{{"", ""}, {"0", "flag"}, {"0.00000001", "flag"}, {"0.0001", "flag"}, {"0.00002", "cfg"}}
	s.change = []string{"", "own:cfg", "f-p2pkh", "own:p2tr", "f-p2wpkh", "f-p2tr", "own:p2pkh"}
	s.msg = []string{"", "hello c13", strings.Repeat("m", 75), strings.Repeat("n", 76), strings.Repeat("o", 80)}
	s.seq = []*int{nil, ip(-1), ip(-2), ip(0), ip(1), ip(65535), ip(4194305)}
	s.lock = []*uint{nil, up(1), up(499999999), up(500000000), up(4294967295)}
	s.txver = []*uint{nil, up(1), up(2), up(3), up(0), up(4294967295)}
	if !thorough {
		s.msg = s.msg[:4]
		s.seq = s.seq[:5]
		s.lock = s.lock[:4]
		s.txver = []*uint{nil, up(1), up(3), up(4294967295)}
		s.change = s.change[:5]
	}
	return s
}

// build turns a choice vector into an explicit Case (total: never fails).
func (s *space) build(v [nDims]int, family string, idx int) *Case {
	c := &Case{Idx: idx, Family: family, Type: s.types[v[dType]], AType: s.atypes[v[dAType]], Testnet: s.testnet[v[dTestnet]],
		Layout: s.layout[v[dLayout]], ForeignFirst: s.ff[v[dForeignFirst]], AmtFmt: s.amtfmt[v[dAmtFmt]], Via: s.via[v[dVia]],
		Fee: s.fee[v[dFee]].Fee, FeeVia: s.fee[v[dFee]].Via, SubFee: s.subfee[v[dSubFee]], Msg: s.msg[v[dMsg]], Seq: s.seq[v[dSeq]],
		Lock: s.lock[v[dLock]], TxVer: s.txver[v[dTxVer]], UseAll: s.useall[v[dUseAll]], RFC6979: s.rfc[v[dRFC]], TxFn: s.txfn[v[dTxFn]],
		NoApply: s.noapply[v[dNoApply]], Raw: s.raw[v[dRaw]], RawFlags: s.rawflags[v[dRawFlags]], RawBinary: s.rawbin[v[dRawBin]], Chain: s.chain[v[dChain]]}
	c.RecShape = s.recShape[v[dRecShape]]
	if c.ForeignFirst {
		c.ForeignKind = kinds[v[dForeignKind]]
	}
	if c.Layout == "payout" {
		c.Vouts = s.voutPat[v[dVoutPat]]
	}
	cfgKind := kindOfAtype[c.AType]
	resolve := func(k string) string {
		if k == "own:cfg" {
			return "own:" + cfgKind
		}
		return k
	}
	seq := s.inSeq[v[dInSeq]]
	pat := s.amtPat[v[dAmtPat]]
	for i, k := range seq {
		key := i
		switch s.keyPat[v[dKeyPat]] {
		case "same":
			key = 0
		case "rev":
			key = nKeys - 1 - i
		}
		c.Utxos = append(c.Utxos, Utxo{Kind: k, Key: key, Amount: amounts[pat[i%len(pat)]]})
	}
	if ch := s.change[v[dChange]]; ch != "" {
		c.Change, c.ChKey = resolve(ch), nKeys-2
	}
	dp := s.destPat[v[dDestPat]]
	for i, k := range dp {
		c.Dests = append(c.Dests, Dest{Kind: resolve(k), Key: (i + 3) % nKeys})
	}
	if len(c.Dests) == 1 && c.Via == "both" {
		c.Via = "send"
	}
	if c.NoApply {
		c.Chain = false
	}
	// amounts of the request, relative to what the wallet owns
	var total, first uint64
	gotFirst := false
	for i := range c.Utxos {
		l := listedOut{Kind: c.Utxos[i].Kind}
		if ownedByWallet(c, &l) {
			total += c.Utxos[i].Amount
			if !gotFirst {
				first, gotFirst = c.Utxos[i].Amount, true
			}
		}
	}
	fee := c.fee()
	sub := c.subfeeEffective()
	n := len(c.Dests)
	setAll := func(a uint64) {
		for i := range c.Dests {
			c.Dests[i].Amount = a
		}
	}
	// typed sum for a target "need" (= payments + fee)
	split := func(sum uint64) {
		if sum < uint64(n) {
			setAll(1)
			return
		}
		big := n - 1 // the destination that takes the remainder
		if sub {
			big = 0
		}
		var rest uint64
		for i := range c.Dests {
			if i != big {
				c.Dests[i].Amount = uint64(600 + i)
				rest += c.Dests[i].Amount
			}
		}
		if sum <= rest {
			rest = 0
			for i := range c.Dests {
				if i != big {
					c.Dests[i].Amount = 1
					rest++
				}
			}
		}
		c.Dests[big].Amount = sum - rest
	}
	need := func(x uint64) {
		if sub {
			split(x)
		} else if x > fee {
			split(x - fee)
		} else {
			setAll(1)
		}
	}
	switch s.amtClass[v[dAmtClass]] {
	case "one":
		setAll(1)
	case "dust":
		setAll(546)
	case "half":
		split(total / 2)
	case "exact":
		need(total)
	case "change1":
		if total > 0 {
			need(total - 1)
		} else {
			setAll(1)
		}
	case "short1":
		need(total + 1)
	case "total":
		split(total)
	case "over":
		split(total + 1)
	case "firstexact":
		need(first)
	case "firstplus1":
		need(first + 1)
	case "belowfee":
		setAll(546)
		if fee >= 2 {
			c.Dests[0].Amount = fee - 1
		} else {
			c.Dests[0].Amount = 1
		}
	}
	return c
}

// subfeeEffective: -f reduces the first pair given with -send ("Substract fee
// from the first value"); lines of a -batch file are never reduced.
func (c *Case) subfeeEffective() bool { return c.SubFee && c.Via != "batch" }

// ---------------------------------------------------------------- generators

// product enumerates the full product over the dimensions in prod; every other
// dimension cycles through its alphabet with a stride co-prime to its length, so
// that all values of all dimensions occur.
func (s *space) product(prod []int, family string, startIdx int) []*Case {
	sz := s.sizes()
	inProd := map[int]bool{}
	total := 1
	for _, d := range prod {
		inProd[d] = true
		total *= sz[d]
	}
	var out []*Case
	for n := 0; n < total; n++ {
		var v [nDims]int
		x := n
		for _, d := range prod {
			v[d] = x % sz[d]
			x /= sz[d]
		}
		k := 0
		for d := 0; d < nDims; d++ {
			if inProd[d] {
				continue
			}
			k++
			// a different odd multiplier per dimension de-correlates the cycles
			v[d] = (n*(2*k+1) + n/sz[d] + k) % sz[d]
		}
		out = append(out, s.build(v, family, startIdx+n))
	}
	return out
}

// pairwise builds a deterministic greedy array covering every pair of values of
// every two dimensions. rot varies the tie-breaking (several arrays in thorough).
func (s *space) pairwise(family string, startIdx, rot int) (cases []*Case, pairs int) {
	sz := s.sizes()
	type pk struct{ d1, v1, d2, v2 int }
	unc := map[pk]bool{}
	var order []pk
	for d1 := 0; d1 < nDims; d1++ {
		for d2 := d1 + 1; d2 < nDims; d2++ {
			for v1 := 0; v1 < sz[d1]; v1++ {
				for v2 := 0; v2 < sz[d2]; v2++ {
					p := pk{d1, v1, d2, v2}
					unc[p] = true
					order = append(order, p)
				}
			}
		}
	}
	pairs = len(order)
	mk := func(a, va, b, vb int) pk {
		if a < b {
			return pk{a, va, b, vb}
		}
		return pk{b, vb, a, va}
	}
	next := 0
	for len(unc) > 0 {
		for !unc[order[next]] {
			next++
		}
		seed := order[next]
		var v [nDims]int
		fixed := [nDims]bool{}
		v[seed.d1], v[seed.d2] = seed.v1, seed.v2
		fixed[seed.d1], fixed[seed.d2] = true, true
		t := len(cases) + rot
		for k := 0; k < nDims; k++ {
			d := (k + t) % nDims
			if fixed[d] {
				continue
			}
			best, bestGain := 0, -1
			for j := 0; j < sz[d]; j++ {
				val := (j + t) % sz[d]
				gain := 0
				for e := 0; e < nDims; e++ {
					if fixed[e] && unc[mk(d, val, e, v[e])] {
						gain++
					}
				}
				if gain > bestGain {
					best, bestGain = val, gain
				}
			}
			v[d] = best
			fixed[d] = true
		}
		for a := 0; a < nDims; a++ {
			for b := a + 1; b < nDims; b++ {
				delete(unc, pk{a, v[a], b, v[b]})
			}
		}
		cases = append(cases, s.build(v, family, startIdx+len(cases)))
	}
	return
}

// recordFamily is the family "balance-folder record shapes": the full product of
// payout output-index patterns x record shapes (x atype in thorough) for balance
// folders of 1, 2 and 4 unspent outputs of one big funding transaction; the
// request classes are the productive ones, everything else cycles.
func (s *space) recordFamily(family string, startIdx int, thorough bool) []*Case {
	sz := s.sizes()
	find := func(list [][]string, want []string) int {
		for i, x := range list {
			if strings.Join(x, ",") == strings.Join(want, ",") {
				return i
			}
		}
		return 0
	}
	idxOf := func(list []string, want string) int {
		for i, x := range list {
			if x == want {
				return i
			}
		}
		return 0
	}
	payout := idxOf(s.layout, "payout")
	classes := []int{idxOf(s.amtClass, "exact"), idxOf(s.amtClass, "half"), idxOf(s.amtClass, "firstexact")}
	var out []*Case
	n := 0
	for pi := range s.voutPat {
		for si := range s.recShape {
			for ai := range s.atypes {
				if !thorough && ai != (pi+si)%len(s.atypes) {
					continue
				}
				k := kindOfAtype[s.atypes[ai]]
				k2 := kinds[(ai+1)%len(kinds)]
				for ci, seq := range [][]string{{k}, {k2, k}, ks("KSWR")} {
					var v [nDims]int
					for d, j := 0, 0; d < nDims; d++ {
						j++
						v[d] = (n*(2*j+1) + n/sz[d] + j) % sz[d]
					}
					v[dLayout], v[dVoutPat], v[dRecShape], v[dAType] = payout, pi, si, ai
					v[dInSeq] = find(s.inSeq, seq)
					v[dAmtClass] = classes[(n+ci)%len(classes)]
					v[dAmtPat] = 2    // 10^8, 10^5, 546, 1: all values differ
					v[dFee] = 1 + n%2 // fee 0 or 1 satoshi keeps small folders spendable
					v[dSubFee] = 0
					out = append(out, s.build(v, family, startIdx+len(out)))
					n++
				}
			}
		}
	}
	return out
}

func (s *space) describe() map[string]interface{} {
	sz := s.sizes()
	m := map[string]interface{}{}
	for d := 0; d < nDims; d++ {
		m[dimNames[d]] = sz[d]
	}
	return m
}

var _ = fmt.Sprint
