#!/bin/bash
# overlay.sh <builddir> <overlay.json> <repo>: recursion guard. MoveToBlock and ParseTillBlock
# call each other; a cycle between them ends in a fatal (unrecoverable) stack overflow that would
# take the whole check down. The guard turns a call depth that no finite history of these
# templates can reach into an ordinary panic, which the history runner reports as a verdict.
# Only the entry of MoveToBlock gets two statements; if the line is not found the file is used as is.
set -e
bd="$1"; ov="$2"; repo="$3"
src="$repo/lib/chain/chain_tree.go"
python3 - "$ov" "$src" "$bd/chain_tree.go" "$repo/lib/chain/verif_guard.go" "$bd/verif_guard.go" <<'PY'
import json,sys
ov,src,patched,gsrc,gdst=sys.argv[1:6]
d=json.load(open(ov)); d.setdefault("Replace",{})
cur=d["Replace"].get(src,src)
s=open(cur).read()
line="func (ch *Chain) MoveToBlock(dst *BlockTreeNode) {\n"
if line in s:
    s=s.replace(line,line+"\tverifMoveEnter()\n\tdefer verifMoveExit()\n",1)
    open(patched,"w").write(s)
    open(gdst,"w").write('''package chain

import "sync/atomic"

var verifMoveDepth atomic.Int32

func verifMoveEnter() {
	if verifMoveDepth.Add(1) > 3000 {
		panic("MoveToBlock: unbounded recursion with ParseTillBlock")
	}
}

func verifMoveExit() { verifMoveDepth.Add(-1) }
''')
    d["Replace"][src]=patched
    d["Replace"][gsrc]=gdst
json.dump(d,open(ov,"w"))
PY
